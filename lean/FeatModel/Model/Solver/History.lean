import FeatModel.Model.Solver.Precond
import FeatModel.Model.Solver.Ilu
/-
The solver-object state machine of the matrix-based preconditioners: the object holds a *reference* to the system
matrix (so a value update is visible to everybody) plus derived data that only `init_symbolic` / `init_numeric`
refresh (`_inv_diag` of Jacobi / polynomial, the ILU structure and factors).  Core Lean only.
-/
namespace FeatModel.Solver
open FeatModel.LA

variable {α : Type}

inductive Kind where
  | jacobi | sor | ssor | poly (m : Nat) | ilu (p : Int) | matrix
  /-- `ScalePrecond` (no matrix) and `DiagonalPrecond` (holds a reference to a vector: the value array of the "matrix") -/
  | scale | diagonal
deriving Repr, BEq, DecidableEq

/-- constructor arguments of the solver object -/
structure Cfg (α : Type) where
  kind : Kind
  ω : α
  /-- entries of a unit filter (`[]` for the other filter types) -/
  fidx : List Nat
  /-- `filter_cor` of a non-unit filter (mean, slip, none = `some`), applied to the result; `none` = it aborts -/
  post : Array α → Option (Array α) := some
  /-- `filter_def` of a non-unit filter (used inside the polynomial preconditioner's loop) -/
  postDef : Array α → Option (Array α) := some

/-- derived data held by the object -/
structure PState (α : Type) where
  /-- `_inv_diag` (Jacobi, polynomial); empty before `init_symbolic` / after `done_symbolic` -/
  invD : Array α
  /-- ILU structure (`none` before `init_symbolic` / after `done_symbolic`) -/
  iluS : Option IluSym
  /-- ILU factors -/
  iluN : IluNum α

def PState.empty : PState α := { invD := #[], iluS := none, iluN := { dataL := #[], dataU := #[], dataD := #[] } }

inductive Step (α : Type) where
  | initSymbolic | initNumeric | apply (x : Array α) | update (val : Array α) | done
  /-- `done_numeric()` alone (a no-op for all of these classes) -/
  | doneNumeric
  /-- `apply(v, v)`: correction and defect vector are the same object -/
  | applyIn (x : Array α)

/-- abnormal ends of a history -/
inductive Stop where
  | abort | exc
deriving Repr, BEq, DecidableEq

/-- `init_symbolic()` -/
def initSymbolic [Zero α] (c : Cfg α) (A : Csr α) (st : PState α) : Except Stop (PState α) :=
  match c.kind with
  | .jacobi | .poly _ => .ok { st with invD := Array.replicate A.rows 0 }
  | .ilu p =>
    if A.rows != A.cols then .error .abort
    else match setStructCsr A.rows A.rowPtr A.colInd with
      | none => .error .exc
      | some s0 =>
        let s := factorizeSymbolic s0 p
        .ok { st with iluS := some s, iluN := allocData s }
  | _ => .ok st

/-- `init_numeric()`; a zero pivot is a division by zero (abort at the exact scalar type) -/
def initNumeric [Zero α] [One α] [Sub α] [Mul α] [Div α] [DecidableEq α] (c : Cfg α) (A : Csr α) (st : PState α) :
    Except Stop (PState α) :=
  match c.kind with
  | .jacobi | .poly _ =>
    if st.invD.size != A.rows || A.rows != A.cols then .error .abort
    else if (extractDiag A).any (· = 0) then .error .abort
    else .ok { st with invD := invDiag c.ω A }
  | .ilu _ =>
    match st.iluS with
    | none => .ok st
    | some s =>
      -- the data arrays of the object are overwritten in place (`copy_data`), then factorised in place
      let f := factorizeNumeric s (copyDataCsr s A st.iluN)
      if f.dataD.any (· = 0) then .error .abort else .ok { st with iluN := f }
  | _ => .ok st

/-- `done_symbolic()` -/
def doneSymbolic (c : Cfg α) (st : PState α) : PState α :=
  match c.kind with
  | .jacobi | .poly _ => { st with invD := #[] }
  | .ilu _ => PState.empty
  | _ => st

/-- the content of a freshly allocated output vector in the harness (never visible in a correct result) -/
def sentinel [OfNat α 777] (n : Nat) : Array α := Array.replicate n 777

/-- `apply(vec_cor, vec_def)` with `vec_cor` a fresh vector of the right size, up to the unit filter -/
def applyCore [Zero α] [One α] [Add α] [Sub α] [Mul α] [Div α] [Neg α] [OfNat α 777] (tiny : α → Bool) (c : Cfg α)
    (A : Csr α) (st : PState α) (x : Array α) : Except Stop (Array α) :=
  match c.kind with
  | .jacobi =>
    if st.invD.size != x.size then .error .abort else .ok (jacobiApply c.fidx x.size st.invD x)
  | .sor => if A.rows != x.size then .error .abort else .ok (sorApply c.ω c.fidx A x)
  | .ssor => if A.rows != x.size then .error .abort else .ok (ssorApply c.ω c.fidx A x)
  | .poly m =>
    if st.invD.size != x.size || A.rows != x.size then .error .abort
    else match polyApplyF tiny m c.fidx c.postDef A st.invD x with
      | none => .error .abort
      | some r => .ok r
  | .ilu _ =>
    match st.iluS with
    | none => .ok (filterCor c.fidx (sentinel x.size))
    | some s => .ok (filterCor c.fidx (iluSolve s st.iluN x (sentinel x.size)))
  | .matrix =>
    if A.rows != x.size then .error .abort
    else match matrixApply tiny c.fidx A x with
      | none => .error .abort
      | some r => .ok r
  | .scale => .ok (scaleApply c.ω c.fidx x)
  | .diagonal => if A.val.size != x.size then .error .abort else .ok (diagonalApply c.fidx A.val x)

/-- the correction filter of a non-unit filter type on top -/
def postFilter (c : Cfg α) (r : Except Stop (Array α)) : Except Stop (Array α) :=
  match r with
  | .error e => .error e
  | .ok y => match c.post y with
    | none => .error .abort
    | some z => .ok z

/-- `apply(vec_cor, vec_def)` -/
def applyStep [Zero α] [One α] [Add α] [Sub α] [Mul α] [Div α] [Neg α] [OfNat α 777] (tiny : α → Bool) (c : Cfg α)
    (A : Csr α) (st : PState α) (x : Array α) : Except Stop (Array α) :=
  postFilter c (applyCore tiny c A st x)

/-- `apply(v, v)` in place, as the code behaves when both arguments are the same vector: the sweeps and `solve_il`
    read their right-hand side from the array they overwrite; the element-wise kinds and the polynomial one (which
    reads `vec_def` only in its first statement) are unaffected; `SparseMatrixCSR::apply` refuses aliased vectors. -/
def applyInCore [Zero α] [One α] [Add α] [Sub α] [Mul α] [Div α] [Neg α] [OfNat α 777] (tiny : α → Bool) (c : Cfg α)
    (A : Csr α) (st : PState α) (x : Array α) : Except Stop (Array α) :=
  match c.kind with
  | .sor => if A.rows != x.size then .error .abort else .ok (filterCor c.fidx (sorSweepIn c.ω A x))
  | .ssor =>
    if A.rows != x.size then .error .abort
    else .ok (filterCor c.fidx ((ssorBwd c.ω A (ssorFwdIn c.ω A x)).map (· * (c.ω * ((1 + 1) - c.ω)))))
  | .ilu _ =>
    match st.iluS with
    | none => .ok (filterCor c.fidx x)
    | some s => .ok (filterCor c.fidx (solveDu (s.matU st.iluN) st.iluN.dataD (solveIlIn (s.matL st.iluN) x)))
  | .matrix => if A.rows != x.size || A.usedElements != 0 then .error .abort else applyCore tiny c A st x
  | _ => applyCore tiny c A st x

/-- the pair of arrays after `apply(vec_cor, vec_def)`: the correction vector and the (const) defect vector; for the
    in-place call both are the same object -/
def applyIO [Zero α] [One α] [Add α] [Sub α] [Mul α] [Div α] [Neg α] [OfNat α 777] (tiny : α → Bool) (c : Cfg α)
    (A : Csr α) (st : PState α) (inPlace : Bool) (x : Array α) : Except Stop (Array α × Array α) :=
  if inPlace then
    match postFilter c (applyInCore tiny c A st x) with
    | .error e => .error e
    | .ok y => .ok (y, y)
  else
    match applyStep tiny c A st x with
    | .error e => .error e
    | .ok y => .ok (y, x)

def applyInStep [Zero α] [One α] [Add α] [Sub α] [Mul α] [Div α] [Neg α] [OfNat α 777] (tiny : α → Bool) (c : Cfg α)
    (A : Csr α) (st : PState α) (x : Array α) : Except Stop (Array α) :=
  postFilter c (applyInCore tiny c A st x)

/-- a whole history on one solver object; the outputs of the `apply` steps are collected -/
def runSteps [Zero α] [One α] [Add α] [Sub α] [Mul α] [Div α] [Neg α] [OfNat α 777] [DecidableEq α]
    (tiny : α → Bool) (c : Cfg α) : Csr α → PState α → List (Step α) → List (Array α) → Except Stop (List (Array α))
  | _, _, [], acc => .ok acc.reverse
  | A, st, .initSymbolic :: r, acc =>
    match initSymbolic c A st with
    | .error e => .error e
    | .ok st' => runSteps tiny c A st' r acc
  | A, st, .initNumeric :: r, acc =>
    match initNumeric c A st with
    | .error e => .error e
    | .ok st' => runSteps tiny c A st' r acc
  | A, st, .apply x :: r, acc =>
    match applyStep tiny c A st x with
    | .error e => .error e
    | .ok y => runSteps tiny c A st r (y :: acc)
  | A, st, .update v :: r, acc => runSteps tiny c { A with val := v } st r acc
  | A, st, .done :: r, acc => runSteps tiny c A (doneSymbolic c st) r acc
  | A, st, .doneNumeric :: r, acc => runSteps tiny c A st r acc
  | A, st, .applyIn x :: r, acc =>
    match applyInStep tiny c A st x with
    | .error e => .error e
    | .ok y => runSteps tiny c A st r (y :: acc)

end FeatModel.Solver
