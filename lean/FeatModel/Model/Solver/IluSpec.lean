import FeatModel.Model.Solver.Ilu
/-
A second, "find-based" formulation of `factorize_numeric_il_du`: the same row-by-row IKJ elimination, but the two
merge pointers `pl` / `pu` of the C++ (which rely on sorted rows) are replaced by a search for the target column in
row `i`.  `drv_c08` runs BOTH formulations on every case and reports `MODEL-SPLIT` if their results differ, so the
correspondence run ties this one to the code as well; the factorisation theorem (`C08.ilu_factor_partial`) is
stated about this formulation.  Core Lean only.
-/
namespace FeatModel.Solver
open FeatModel.LA

variable {α : Type}

/-- first position `k ∈ [b, e)` with `idx[k] = c` -/
def findPos (idx : Array Nat) (b e c : Nat) : Option Nat :=
  (List.range' b (e - b)).find? (fun k => idx.getD k 0 == c)

/-- the row that owns storage position `j` of an offset array `rp` (rows `0..n-1`): the first `i` with `j < rp[i+1]` -/
def rowOf (rp : Array Nat) (n j : Nat) : Nat :=
  match (List.range n).find? (fun i => j < rp.getD (i + 1) 0) with
  | some i => i
  | none => n

/-- one entry `U_{cj,ck}` (storage position `k`) against row `i`: `w_{i,ck} -= l_ij * U_{cj,ck}` if `(i,ck)` is in
    the pattern -/
def elimEntry [Zero α] [Sub α] [Mul α] (s : IluSym) (i : Nat) (lij : α) (d : IluNum α) (k : Nat) : IluNum α :=
  let ck := s.ciU.getD k 0
  let t := lij * d.dataU.getD k 0
  if ck < i then
    match findPos s.ciL (s.rpL.getD i 0) (s.rpL.getD (i + 1) 0) ck with
    | some pl => { d with dataL := d.dataL.setIfInBounds pl (d.dataL.getD pl 0 - t) }
    | none => d
  else if ck = i then { d with dataD := d.dataD.setIfInBounds i (d.dataD.getD i 0 - t) }
  else
    match findPos s.ciU (s.rpU.getD i 0) (s.rpU.getD (i + 1) 0) ck with
    | some pu => { d with dataU := d.dataU.setIfInBounds pu (d.dataU.getD pu 0 - t) }
    | none => d

/-- one entry `L_{i,cj}` (storage position `j`): scale by the inverted pivot, then eliminate with row `cj` of `U` -/
def elimL [Zero α] [Sub α] [Mul α] (s : IluSym) (i : Nat) (d : IluNum α) (j : Nat) : IluNum α :=
  let cj := s.ciL.getD j 0
  let lij := d.dataL.getD j 0 * d.dataD.getD cj 0
  let d := { d with dataL := d.dataL.setIfInBounds j lij }
  foldRange (s.rpU.getD cj 0) (s.rpU.getD (cj + 1) 0) (elimEntry s i lij) d

/-- row `i`: all its `L` entries in storage order, then the pivot is inverted -/
def factorRowS [Zero α] [One α] [Sub α] [Mul α] [Div α] (s : IluSym) (d : IluNum α) (i : Nat) : IluNum α :=
  let d := foldRange (s.rpL.getD i 0) (s.rpL.getD (i + 1) 0) (elimL s i) d
  { d with dataD := d.dataD.setIfInBounds i (1 / d.dataD.getD i 0) }

def factorizeNumericS [Zero α] [One α] [Sub α] [Mul α] [Div α] (s : IluSym) (d : IluNum α) : IluNum α :=
  (List.range s.n).foldl (factorRowS s) d

/-- value stored in row `i` of `A` at column `c`, zero if the row has no such entry -/
def csrLookup [Zero α] (A : Csr α) (i c : Nat) : α :=
  match findPos A.colInd (A.rowBegin i) (A.rowEnd i) c with
  | some k => A.val.getD k 0
  | none => 0

/-- find-based formulation of `copy_data_csr` (the C++ walks row `i` of `A` with the moving pointer `ra`): every
    position of the factor pattern receives the entry of `A` with the same coordinates, fill-in positions get zero.
    `drv_c08` compares it with `copyDataCsr` on every case (`MODEL-SPLIT`). -/
def copyDataCsrS [Zero α] (s : IluSym) (A : Csr α) : IluNum α :=
  { dataL := Array.ofFn (n := s.ciL.size) fun j =>
      csrLookup A (rowOf s.rpL s.n j.val) (s.ciL.getD j.val 0),
    dataU := Array.ofFn (n := s.ciU.size) fun j =>
      csrLookup A (rowOf s.rpU s.n j.val) (s.ciU.getD j.val 0),
    dataD := Array.ofFn (n := s.n) fun i => csrLookup A i.val i.val }

/-- every stored entry of `A` lies in the factor pattern (level-0 pattern ⊆ level-p pattern) -/
def IluSym.covers (s : IluSym) (A : Csr α) : Bool :=
  (List.range s.n).all fun i =>
    (List.range' (A.rowBegin i) (A.rowEnd i - A.rowBegin i)).all fun k =>
      let c := A.colInd.getD k 0
      c == i || (findPos s.ciL (s.rpL.getD i 0) (s.rpL.getD (i + 1) 0) c).isSome
        || (findPos s.ciU (s.rpU.getD i 0) (s.rpU.getD (i + 1) 0) c).isSome

/-- column indices strictly increasing inside every row of `L` and of `U` -/
def IluSym.sorted (s : IluSym) : Bool :=
  (List.range s.n).all (fun i =>
    (List.range' (s.rpL.getD i 0) (s.rpL.getD (i + 1) 0 - s.rpL.getD i 0)).all
        (fun k => decide (k + 1 < s.rpL.getD (i + 1) 0 → s.ciL.getD k 0 < s.ciL.getD (k + 1) 0))
    && (List.range' (s.rpU.getD i 0) (s.rpU.getD (i + 1) 0 - s.rpU.getD i 0)).all
        (fun k => decide (k + 1 < s.rpU.getD (i + 1) 0 → s.ciU.getD k 0 < s.ciU.getD (k + 1) 0)))

end FeatModel.Solver
