import FeatModel.Model.LA.Csr
import FeatModel.Model.LA.Bcsr
/-
BCSR (square blocks `bs × bs`) → scalar CSR with `rows·bs` rows: block `(i, c)`, entry `(a, b)` ↦ scalar entry
`(i·bs + a, c·bs + b)`.  The Jacobi / matrix / scale / diagonal preconditioners on a BCSR matrix act exactly like
their scalar versions on the expanded matrix (`FeatModel.Lemmas.C08Expand`: `expandCsr_entry`, `expandCsr_wf`,
`expand_apply_commutes`, `expandCsr_diag`).

A BCSR matrix with square blocks is given here as a `Csr α` whose `val` is the pod array (`bs·bs` values per stored
block, row-major), i.e. `rowPtr` / `colInd` count blocks (`asBcsr`).

Scalar row `r = i·bs + a` (block row `i = r / bs`, component `a = r % bs`) stores, for every stored block `k` of
block row `i` in storage order and every `b < bs`, the column `colInd[k]·bs + b` with the value
`val[k·bs·bs + a·bs + b]`; position `t` inside the scalar row is `(k - rowPtr[i])·bs + b`.
Pure functions (no loops); core Lean only.
-/
namespace FeatModel.Solver
open FeatModel.LA

variable {α β : Type}

/-- the BCSR matrix (C01 model) the block arrays represent -/
def asBcsr (bs : Nat) (A : Csr α) : Bcsr α :=
  { bh := bs, bw := bs, rows := A.rows, cols := A.cols, rowPtr := A.rowPtr, colInd := A.colInd, val := A.val }

/-- number of stored blocks of block row `i` (the trip count of `for k in [rowPtr[i] : rowPtr[i+1]]`) -/
def expandCnt (A : Csr α) (i : Nat) : Nat := A.rowPtr.getD (i + 1) 0 - A.rowPtr.getD i 0

/-- first storage position of scalar row `r` of the expansion = the number of entries of the scalar rows before it -/
def expandStart (bs : Nat) (A : Csr α) (r : Nat) : Nat :=
  ((List.range r).map fun q => expandCnt A (q / bs) * bs).sum

/-- scalar row `r` of the expansion; `f a k b` is what is stored for component row `a`, block `k`, component
    column `b` -/
def expandRow (bs : Nat) (A : Csr α) (f : Nat → Nat → Nat → β) (r : Nat) : List β :=
  (List.range (expandCnt A (r / bs) * bs)).map fun t => f (r % bs) (A.rowPtr.getD (r / bs) 0 + t / bs) (t % bs)

/-- all scalar rows, concatenated -/
def expandList (bs : Nat) (A : Csr α) (f : Nat → Nat → Nat → β) : List β :=
  (List.range (A.rows * bs)).flatMap (expandRow bs A f)

/-- the value array of the expansion for a (new) block-value array `v` -/
def expandVals [Zero α] (bs : Nat) (A : Csr α) (v : Array α) : Array α :=
  (expandList bs A fun a k b => v.getD (k * bs * bs + a * bs + b) 0).toArray

/-- BCSR → scalar CSR -/
def expandCsr [Zero α] (bs : Nat) (A : Csr α) : Csr α :=
  { rows := A.rows * bs
    cols := A.cols * bs
    rowPtr := Array.ofFn (n := A.rows * bs + 1) fun r => expandStart bs A r.val
    colInd := (expandList bs A fun _ k b => A.colInd.getD k 0 * bs + b).toArray
    val := expandVals bs A A.val }

end FeatModel.Solver
