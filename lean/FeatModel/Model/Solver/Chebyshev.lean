import FeatModel.Model.Solver.Krylov
/-
Model of `Chebyshev` (kernel/solver/chebyshev.hpp): `init_numeric` estimates the largest eigenvalue with (at most 40
steps of) the power method started from the constant vector 3 — norms through `norm2`, stopping test
`|（λ − λ_old)/λ| < 1e-4` — and sets `min_ev/max_ev` to the given fractions of it; `_apply_intern` is the three-term
Chebyshev iteration with the defect recomputed from the iterate in every step.  `none` = division by zero.
Core Lean only.
-/
namespace FeatModel.Solver

variable {V α : Type} [Add α] [Mul α] [Div α] [Neg α] [Zero α] [One α] [LE α] [LT α] [DecidableEq α] [DecidableLE α]
  [DecidableLT α]

/-- `Math::abs` -/
def absA (a : α) : α := if a < 0 then -a else a

/-- the loop of the power method: `z = A v; v = z/‖z‖; λ = <v,z>` -/
def powerLoop (S : Sys V α) (tol : α) : Nat → V → α → Option α
  | 0, _, lam => some lam
  | fuel + 1, v, lamOld =>
    let z := S.A v
    let nz := S.nrm z
    if nz = 0 then none else
    let v' := S.ops.scale z (1 / nz)
    let lam := S.ops.dot v' z
    if lam = 0 then none else
    if absA ((lam + -lamOld) / lam) < tol then some lam
    else powerLoop S tol fuel v' lam

/-- `Chebyshev::init_numeric`: the eigenvalue estimate (`v3` is the vector `format(3)`) -/
def chebLambda (S : Sys V α) (v3 : V) (tol : α) : Option α :=
  let n3 := S.nrm v3
  if n3 = 0 then none else powerLoop S tol 40 (S.ops.scale v3 (1 / n3)) 0

/-- the coefficient `alpha` of iteration `numIter` (`switch(get_num_iter())`); `none` = division by zero -/
def chebAlpha (numIter : Nat) (d cc alpha : α) : Option α :=
  let two : α := 1 + 1
  let den : α :=
    match numIter with
    | 0 => d
    | 1 => (two * d * d) + -(cc * cc)
    | _ => d + -((alpha * cc * cc) / (two + two))
  if den = 0 then none
  else some (match numIter with
    | 1 => two * d * (1 / den)
    | _ => 1 / den)

def chebLoop (S : Sys V α) (c : Config α) (d cc : α) (b : V) :
    Nat → V → V → V → α → State α → List α → Option (Result V α)
  | 0, x, _, _, _, st, hist => some ⟨.undefined, x, st, hist⟩
  | fuel + 1, x, df, cor, alpha, st, hist =>
    match chebAlpha st.numIter d cc alpha with
    | none => none
    | some alpha' =>
      let beta := (alpha' * d) + -1
      let cor' := S.ops.axpy (S.ops.scale cor beta) df alpha'
      let x' := S.ops.axpy x cor' 1
      let df' := resid S b x'
      let dn := S.nrm df'
      let (status, st') := setNewDefect c st true dn
      let hist' := pushHist c st dn hist
      if status ≠ .progress then some ⟨status, x', st', hist'⟩
      else chebLoop S c d cc b fuel x' df' cor' alpha' st' hist'

/-- `Chebyshev::_apply_intern` with `_vec_def = df`, eigenvalue bounds `minEv`, `maxEv` -/
def chebIntern (S : Sys V α) (c : Config α) (prev : State α) (minEv maxEv : α) (b x df : V) : Option (Result V α) :=
  let d0 := S.nrm df
  let (status, st) := setInitialDefect c prev true d0
  let two : α := 1 + 1
  let d := (maxEv + minEv) / two
  let cc := (maxEv + -minEv) / two
  if d = 0 then none else
  let cor := S.ops.scale df (1 / d)
  if status ≠ .progress then some ⟨status, x, st, [d0]⟩
  else chebLoop S c d cc b (fuelOf c) x df cor 0 st [d0]

/-- a solve of a Chebyshev object with fractions `fmin`, `fmax` (the eigenvalue estimate is recomputed by every
    `init_numeric`, always with the same result) -/
def chebSolve (S : Sys V α) (c : Config α) (prev : State α) (v3 : V) (tol fmin fmax : α) (isApply : Bool) (x0 b : V) :
    Option (Result V α) :=
  match chebLambda S v3 tol with
  | none => none
  | some lam =>
    if isApply then chebIntern S c prev (lam * fmin) (lam * fmax) b S.ops.zero b
    else chebIntern S c prev (lam * fmin) (lam * fmax) b x0 (resid S b x0)

end FeatModel.Solver
