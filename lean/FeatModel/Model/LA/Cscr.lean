import FeatModel.Model.LA.Vec
/-
`LAFEM::SparseMatrixCSCR` (compressed sparse row with compressed rows: only the rows listed in `rowNumbers` are
stored) and `Arch::Apply::cscr_generic`.
-/
namespace FeatModel.LA

structure Cscr (α : Type) where
  rows : Nat
  cols : Nat
  rowPtr : Array Nat        -- size usedRows + 1
  colInd : Array Nat
  val : Array α
  rowNumbers : Array Nat    -- size usedRows

namespace Cscr
variable {α : Type}

def usedElements (A : Cscr α) : Nat := A.val.size
def usedRows (A : Cscr α) : Nat := A.rowNumbers.size

def wf (A : Cscr α) : Bool :=
  A.rowPtr.size == A.usedRows + 1 && A.rowPtr.getD 0 0 == 0 && A.rowPtr.getD A.usedRows 0 == A.val.size
  && A.colInd.size == A.val.size
  && (List.range A.usedRows).all (fun i => A.rowPtr.getD i 0 ≤ A.rowPtr.getD (i + 1) 0)
  && A.colInd.all (· < A.cols)
  && A.rowNumbers.all (· < A.rows)
  && (List.range (A.usedRows - 1)).all (fun i => A.rowNumbers.getD i 0 < A.rowNumbers.getD (i + 1) 0)

/-- dense meaning: sum over all stored rows with number `i` of the values with column `j` -/
def entry [Zero α] [Add α] (A : Cscr α) (i j : Nat) : α :=
  (List.range A.usedRows).foldl (fun s nz =>
    if A.rowNumbers.getD nz A.rows = i then
      foldRange (A.rowPtr.getD nz 0) (A.rowPtr.getD (nz + 1) 0)
        (fun s k => if A.colInd.getD k A.cols = j then s + A.val.getD k 0 else s) s
    else s) 0

def toDense [Zero α] [Add α] (A : Cscr α) : List (List α) :=
  (List.range A.rows).map fun i => (List.range A.cols).map fun j => A.entry i j

def rowSum [Zero α] [Add α] [Mul α] (A : Cscr α) (x : Array α) (nzrow : Nat) : α :=
  foldRange (A.rowPtr.getD nzrow 0) (A.rowPtr.getD (nzrow + 1) 0)
    (fun sum i => sum + A.val.getD i 0 * x.getD (A.colInd.getD i 0) 0) 0

/-- `Arch::Apply::cscr_generic` -/
def kernel [Zero α] [Add α] [Mul α] [Div α] (tiny : α → Bool) (A : Cscr α) (a b : α) (x y r : Array α)
    (alias transposed : Bool) : Array α :=
  if transposed then
    let r := initR tiny A.cols b r y alias
    let ba := b / a
    let r := r.map (ba * ·)
    let r := (List.range A.usedRows).foldl (fun r nzrow =>
      let row := A.rowNumbers.getD nzrow 0
      foldRange (A.rowPtr.getD nzrow 0) (A.rowPtr.getD (nzrow + 1) 0)
        (fun r i => r.modify (A.colInd.getD i 0) (· + A.val.getD i 0 * x.getD row 0)) r) r
    r.map (a * ·)
  else
    let r := initR tiny A.rows b r y alias
    -- rows that are not listed keep `r[row]` (= y[row] resp. 0) *unscaled* – the loop only visits stored rows
    (List.range A.usedRows).foldl (fun r nzrow =>
      let row := A.rowNumbers.getD nzrow 0
      r.setIfInBounds row ((A.rowSum x nzrow * a) + (b * r.getD row 0))) r

def apply [Zero α] [One α] [Add α] [Mul α] [Div α] (tiny : α → Bool) (A : Cscr α) (x r : Array α)
    (transposed : Bool) : Option (Array α) :=
  let nr := if transposed then A.cols else A.rows
  let nx := if transposed then A.rows else A.cols
  if r.size != nr || x.size != nx then none
  else if A.usedElements == 0 then some (Array.replicate r.size 0)
  else some (A.kernel tiny 1 0 x r r true transposed)

def applyAxpy [Zero α] [One α] [Add α] [Mul α] [Div α] (tiny : α → Bool) (A : Cscr α) (x y r : Array α) (alpha : α)
    (alias transposed : Bool) : Option (Array α) :=
  let nr := if transposed then A.cols else A.rows
  let nx := if transposed then A.rows else A.cols
  if r.size != nr || x.size != nx || y.size != nr then none
  else if A.usedElements == 0 || tiny alpha then some (if alias then r else y)
  else some (A.kernel tiny alpha 1 x y r alias transposed)

end Cscr
end FeatModel.LA

namespace FeatModel.LA.Cscr
/-- the instances the driver runs (core `Rat`, eps = 2^-52 like `Q` in the harness) -/
def applyQ (A : Cscr Rat) (x r : Array Rat) (transposed : Bool) : Option (Array Rat) :=
  A.apply (tinyRat epsQ) x r transposed
def applyAxpyQ (A : Cscr Rat) (x y r : Array Rat) (alpha : Rat) (alias transposed : Bool) : Option (Array Rat) :=
  A.applyAxpy (tinyRat epsQ) x y r alpha alias transposed
end FeatModel.LA.Cscr
