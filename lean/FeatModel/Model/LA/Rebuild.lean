import FeatModel.Model.LA.Alias
/-
C02 (extension): block permutation of BCSR, vector permutation, rebuilding from the layout object / the adjacency
graph, index-type and data-type conversion as non-identity models, `DenseMatrix::transpose_inplace`.
Core Lean only.
-/
namespace FeatModel.LA

/-! ### `SparseMatrixBCSR::permute(perm_row, perm_col)`: the CSR algorithm on the block pattern, blocks moved whole -/
namespace Bcsr
variable {α : Type}

/-- the block pattern as a CSR matrix whose values are the block positions -/
def pattern (A : Bcsr α) : Csr Nat := ⟨A.rows, A.cols, A.rowPtr, A.colInd, Array.range A.usedElements⟩

/-- `none` = `XASSERTM` (size mismatch) -/
def permute [Zero α] (A : Bcsr α) (p q : Array Nat) : Option (Bcsr α) :=
  if p.size = 0 ∧ q.size = 0 then some A
  else if p.size ≠ A.rows ∨ q.size ≠ A.cols then none
  else if A.isArrayless then some A          -- `if (used_elements() == 0) return;` (D9, fixed in /repo by 59f054b00)
  else match A.pattern.permute p q with
    | some T =>
      some ⟨A.bh, A.bw, A.rows, A.cols, T.rowPtr, T.colInd,
        Array.ofFn (n := A.usedElements * A.bh * A.bw) fun idx =>
          A.val.getD (T.val.getD (idx.val / (A.bh * A.bw)) 0 * A.bh * A.bw + idx.val % (A.bh * A.bw)) 0⟩
    | none => none

end Bcsr

/-! ### `DenseVector::permute(perm)` = `perm.apply(elements)`: `x'[i] = x[perm[i]]` -/
def vecPermute {α : Type} [Zero α] (x : Array α) (p : Array Nat) : Option (Array α) :=
  if p.size = 0 then some x
  else if p.size ≠ x.size then none
  else some (Array.ofFn (n := x.size) fun i => x.getD (p.getD i.val 0) 0)

/-! ### `DenseMatrix::transpose_inplace()`: the kernel with `r == x` (temporary copy), then the dimensions swapped -/
def Dense.transposeInplace {α : Type} [Zero α] (A : Dense α) : Dense α :=
  ⟨A.cols, A.rows, Dense.transposeKernel A.val A.val A.rows A.cols⟩

/-! ### index-type conversion (`assign` with `IT2_ ≠ IT_`): every index goes through a 32-bit integer once -/
def narrow32 (a : Array Nat) : Array Nat := a.map (· % 2 ^ 32)

/-! ### data-type conversion `Q -> double -> float -> Q` of the harness: `mpq_get_d` truncates to 53 bits, the cast
    `double -> float` rounds to nearest-even at 24 bits, `Q(float)` is exact (exponent range not modelled) -/

/-- `⌊log₂ (n/d)⌋` for `n, d > 0`, as an integer -/
def floorLog2 (n d : Nat) : Int :=
  let l : Int := (Nat.log2 n : Int) - (Nat.log2 d : Int)
  -- 2^l ≤ n/d ?  (l may be one too large)
  let ok := if l ≥ 0 then decide (d * 2 ^ l.toNat ≤ n) else decide (d ≤ n * 2 ^ (-l).toNat)
  if ok then l else l - 1

/-- the `p`-bit significand `m` and scale `s` with `n/d ≈ m / 2^s` (`s` may be negative), truncated;
    also the remainder information for rounding: returns `(m, s, twice the remainder compared with the divisor)` as
    `(m, s, rem2, div)` where the discarded fraction is `rem2 / (2 div)` -/
def sigParts (p : Nat) (n d : Nat) : Nat × Int × Nat × Nat :=
  let e := floorLog2 n d
  let s : Int := (p : Int) - 1 - e
  -- scaled value n * 2^s / d
  let num := if s ≥ 0 then n * 2 ^ s.toNat else n
  let den := if s ≥ 0 then d else d * 2 ^ (-s).toNat
  (num / den, s, 2 * (num % den), den)

def scaleRat (m : Nat) (s : Int) : Rat :=
  if s ≥ 0 then mkRat m (2 ^ s.toNat) else (m * 2 ^ (-s).toNat : Nat)

/-- truncation (round toward zero) to `p` significant bits -/
def truncBits (p : Nat) (x : Rat) : Rat :=
  if x = 0 then 0 else
  let n := x.num.natAbs
  let r := sigParts p n x.den
  let v := scaleRat r.1 r.2.1
  if x < 0 then -v else v

/-- round to nearest, ties to even, to `p` significant bits -/
def rneBits (p : Nat) (x : Rat) : Rat :=
  if x = 0 then 0 else
  let n := x.num.natAbs
  let r := sigParts p n x.den
  let m := r.1
  let up := decide (r.2.2.1 > r.2.2.2) || (decide (r.2.2.1 = r.2.2.2) && m % 2 == 1)
  let v := scaleRat (if up then m + 1 else m) r.2.1
  if x < 0 then -v else v

def roundDt (x : Rat) : Rat := rneBits 24 (truncBits 53 x)

/-- the odd part of `n` (`n = oddPart n * 2^k`), `0` for `0` -/
def oddPart (n : Nat) : Nat :=
  if h : n = 0 then 0 else if n % 2 = 0 then oddPart (n / 2) else n
termination_by n
decreasing_by omega

def isPow2 (d : Nat) : Bool := oddPart d == 1

/-- decidable representability: `x = ± m · 2^e` with `m < 2^p` (a binary floating-point number with `p` significant
    bits and unbounded exponent; `p = 24`: float, `p = 53`: double) -/
def reprBits (p : Nat) (x : Rat) : Bool := isPow2 x.den && decide (oddPart x.num.natAbs < 2 ^ p)

/-- decidable representability of an index array in 32 bits -/
def fits32 (a : Array Nat) : Bool := a.all (· < 2 ^ 32)

/-! ### extension operations of the driver -/

inductive XOp where
  | itx | dtx
  | layoutz | layouta (k : Nat) | graphz
  | bperm (p q : Array Nat)
  | triDense
  | xclone (dDiff iDiff : Bool)
  | dtw

/-- `ok tgt src?` -/
inductive ResX (α : Type) where
  | ok (tgt : Mat α) (src : Option (Mat α))
  | abort
  | bad

namespace Mat
variable {α : Type}

/-- all index arrays through `f` -/
def mapIdx (f : Array Nat → Array Nat) : Mat α → Mat α
  | .csr A => .csr { A with rowPtr := f A.rowPtr, colInd := f A.colInd }
  | .banded A => .banded { A with offsets := f A.offsets }
  | .cscr A => .cscr { A with rowPtr := f A.rowPtr, colInd := f A.colInd, rowNumbers := f A.rowNumbers }
  | .dense A => .dense A
  | .bcsr A => .bcsr { A with rowPtr := f A.rowPtr, colInd := f A.colInd }

/-- all values through `g` -/
def mapVal (g : α → α) : Mat α → Mat α
  | .csr A => .csr { A with val := A.val.map g }
  | .banded A => .banded { A with val := A.val.map g }
  | .cscr A => .cscr { A with val := A.val.map g }
  | .dense A => .dense { A with val := A.val.map g }
  | .bcsr A => .bcsr { A with val := A.val.map g }

/-- rebuild from `layout()`: the same index arrays (shared), a fresh value array of the length the layout's scalars
    say (`used_elements`, for BCSR `used_elements * bh * bw`), here zeroed by `format()` -/
def layoutRebuild [Zero α] : Mat α → Option (Mat α)
  | .csr A => some (.csr { A with val := Array.replicate A.usedElements 0 })
  | .banded A => some (.banded { A with val := Array.replicate (A.rows * A.noo) 0 })
  | .cscr A => some (.cscr { A with val := Array.replicate A.usedElements 0 })
  | .dense _ => none
  | .bcsr A => some (.bcsr { A with val := Array.replicate (A.usedElements * A.bh * A.bw) 0 })

def stepX [Zero α] (round : α → α) (m : Mat α) : XOp → ResX α
  | .itx => .ok (m.mapIdx fun a => narrow32 (narrow32 a)) none      -- IT -> IT' -> IT, one of them 32 bit
  | .dtx =>
    match m with
    | .csr _ | .dense _ | .banded _ => .ok (m.mapVal round) none
    | _ => .bad
  | .layoutz => match m.layoutRebuild with
    | some t => .ok t none
    | none => .bad
  | .layouta k => match m.layoutRebuild with
    | some t => if kindSame k then .ok t (some m) else .bad
    | none => .bad
  | .graphz =>
    match m with
    | .csr A => .ok (.csr (if A.usedElements = 0 then A else { A with val := Array.replicate A.usedElements 0 })) none
    | _ => .bad
  | .bperm p q =>
    match m with
    | .bcsr A => match A.permute p q with
      | some B => .ok (.bcsr B) none
      | none => .abort
    | _ => .bad
  | .triDense =>
    match m with
    | .dense A => .ok (.dense A.transposeInplace) none
    | _ => .bad
  | .dtw =>
    -- Q -> float -> double -> float -> Q: narrow, widen (exact: the conversion to double of a float), narrow again
    match m with
    | .csr _ | .dense _ | .banded _ => .ok (m.mapVal fun x => round (round x)) none
    | _ => .bad
  | .xclone dDiff iDiff =>
    -- cross-type clone chain X<Q,IT> -> X<DT2,IT2> -> X<Q,IT> (any mode; what is shared is `Heap.xclone`'s business):
    -- the content passes through the other data type (`round`) and / or the other index type
    let m1 := if dDiff then m.mapVal round else m
    .ok (if iDiff then m1.mapIdx fun a => narrow32 (narrow32 a) else m1) none

/-- the one crash class of the extension operations in the code as it is: the graph rebuild of an entry-free CSR matrix
    with rows (open finding D5, like `Op.graph`) -/
def crashesX (m : Mat α) : XOp → Bool
  | .graphz => match m with
    | .csr A => A.usedElements == 0 && decide (0 < A.rows)
    | _ => false
  | _ => false

end Mat
end FeatModel.LA
