import FeatModel.Model.LA.Csr
import FeatModel.Model.LA.Bcsr
import FeatModel.Model.VecOps
/-
Matrix-level algebra of `LAFEM::SparseMatrixCSR` / `SparseMatrixBCSR` (property C03), core Lean only.

A matrix is looked at row by row: `Csr.row A i` is the list of `(column index, value)` pairs stored in row `i`
(storage positions `row_ptr[i] .. row_ptr[i+1]-1`, in storage order).  Every kernel of
`kernel/lafem/arch/{scale_row_col,lumping,diagonal,row_norm}_generic.hpp` is a loop `for row: for i in row`, which
is a map / fold over these row lists; the value array after the call is the concatenation of the rows.

The three sparse products of `sparse_matrix_csr.hpp` (`add_mat_mat_product`, `add_double_mat_product` with a CSR or
a diagonal middle factor) and the two of `sparse_matrix_bcsr.hpp` all run the same sorted-merge `while` loop
("sparse axpy of row B_l onto row X_i"); it is modelled once, branch by branch, as `mergeRow`.
-/
namespace FeatModel.LA.MatAlg
open FeatModel.LA FeatModel.Vec

/-- abnormal outcomes: an `XASSERT` on the operand dimensions, or `XABORTM("Incomplete output matrix structure")` -/
inductive Abort where
  | dims
  | incomplete
deriving Repr, DecidableEq

/-- stored entries of one matrix row, in storage order -/
abbrev Row (β : Type) := List (Nat × β)

/-- dense meaning of a row: the sum of the stored values with column index `j` -/
def rowVal {α : Type} [Zero α] [Add α] : Row α → Nat → α
  | [], _ => 0
  | (c, v) :: t, j => if c = j then v + rowVal t j else rowVal t j

/-- column indices of a row -/
def rowCols {β : Type} (r : Row β) : List Nat := r.map Prod.fst

/-! ### the sorted-merge loop

```
ij = row_ptr_x[i]; lj = row_ptr_b[l];
while(lj < row_ptr_b[l+1]) {
  if(ij >= row_ptr_x[i+1])                  { if(allow_incomplete) break; else XABORTM(..); }
  else if(col_idx_x[ij] == col_idx_b[lj])   { data_x[ij] += omega * data_b[lj]; ++ij; ++lj; }
  else if(col_idx_x[ij] <  col_idx_b[lj])   { ++ij; }
  else                                      { if(allow_incomplete) ++lj; else XABORTM(..); }
}
```
`xs` = the not yet visited part of row `X_i` (from `ij` on), `bs` = the rest of row `B_l` (from `lj` on); the
entries of `X_i` that were passed keep their (updated) value, the unvisited rest is unchanged.
`f vx vb` is the update `data_x[ij] += omega * data_b[lj]` (scalar or block arithmetic). -/
def mergeRow {β γ : Type} (allow : Bool) (f : β → γ → β) : Row β → Row γ → Except Abort (Row β)
  | xs, [] => .ok xs                                             -- loop condition false
  | [], _ :: _ => if allow then .ok [] else .error .incomplete   -- end of row X_i reached
  | (cx, vx) :: xs, (cb, vb) :: bs =>
    if cx = cb then
      match mergeRow allow f xs bs with
      | .ok r => .ok ((cx, f vx vb) :: r)
      | .error e => .error e
    else if cx < cb then
      match mergeRow allow f xs ((cb, vb) :: bs) with
      | .ok r => .ok ((cx, vx) :: r)
      | .error e => .error e
    else if allow then mergeRow allow f ((cx, vx) :: xs) bs
    else .error .incomplete
termination_by xs bs => xs.length + bs.length

/-- the loops around the merge: one row of X receives a sequence of rows `B_l`, each with its own update function
    (`omega` differs); the first abort ends everything -/
def mergeMany {β γ : Type} (allow : Bool) : Row β → List ((β → γ → β) × Row γ) → Except Abort (Row β)
  | xr, [] => .ok xr
  | xr, (f, br) :: ts =>
    match mergeRow allow f xr br with
    | .ok r => mergeMany allow r ts
    | .error e => .error e

/-- `for(i = 0; i < rows; ++i)` with abort propagation -/
def forRows {β : Type} (f : Nat → Except Abort β) : List Nat → Except Abort (List β)
  | [] => .ok []
  | i :: t =>
    match f i with
    | .ok r => (match forRows f t with
      | .ok rs => .ok (r :: rs)
      | .error e => .error e)
    | .error e => .error e

section CsrOps
variable {α : Type}

/-- row `i` of a CSR matrix as stored -/
def csrRow [Zero α] (A : Csr α) (i : Nat) : Row α :=
  (List.range' (A.rowBegin i) (A.rowEnd i - A.rowBegin i)).map fun p => (A.colInd.getD p 0, A.val.getD p 0)

def csrRows [Zero α] (A : Csr α) : List (Row α) := (List.range A.rows).map (csrRow A)

/-- the value array that results from new row contents -/
def valuesOf {β : Type} (rows : List (Row β)) : List β := (rows.flatten).map Prod.snd

def sameShape (A B : Csr α) : Bool :=
  A.rows == B.rows && A.cols == B.cols && A.usedElements == B.usedElements

/-- `SparseMatrixCSR::axpy(x, alpha)`: `this <- this + alpha x` on the value arrays (`Arch::Axpy::value`);
    `alias` = `x` is `*this` (then the kernel takes its `r == x` branch) -/
def csrAxpy [Add α] [Mul α] [One α] (T X : Csr α) (alpha : α) (alias : Bool) : Except Abort (List α) :=
  if !sameShape X T then .error .dims
  else .ok (axpyK alias alpha T.val.toList X.val.toList)

/-- `SparseMatrixCSR::scale(x, alpha)` (`Arch::Scale::value`) -/
def csrScale [Mul α] (T X : Csr α) (alpha : α) (alias : Bool) : Except Abort (List α) :=
  if !sameShape X T then .error .dims
  else .ok (scaleK alias alpha T.val.toList X.val.toList)

/-- `Arch::ScaleRows::csr_generic`: `r[i] = a[i] * x[row]` for the positions `i` of row `row` of `this`
    (`a` = values of `x`, which is assumed to have the layout of `this`) -/
def scaleRowsK [Zero α] [Mul α] (T : Csr α) (a : Array α) (s : Array α) : List (Row α) :=
  (List.range T.rows).map fun row =>
    (List.range' (T.rowBegin row) (T.rowEnd row - T.rowBegin row)).map fun p =>
      (T.colInd.getD p 0, a.getD p 0 * s.getD row 0)

/-- `Arch::ScaleCols::csr_generic`: `r[i] = a[i] * x[col_ind[i]]` -/
def scaleColsK [Zero α] [Mul α] (T : Csr α) (a : Array α) (s : Array α) : List (Row α) :=
  (List.range T.rows).map fun row =>
    (List.range' (T.rowBegin row) (T.rowEnd row - T.rowBegin row)).map fun p =>
      (T.colInd.getD p 0, a.getD p 0 * s.getD (T.colInd.getD p 0) 0)

def csrScaleRows [Zero α] [Mul α] (T X : Csr α) (s : Array α) : Except Abort (List α) :=
  if !sameShape X T || s.size != T.rows then .error .dims
  else .ok (valuesOf (scaleRowsK T X.val s))

def csrScaleCols [Zero α] [Mul α] (T X : Csr α) (s : Array α) : Except Abort (List α) :=
  if !sameShape X T || s.size != T.cols then .error .dims
  else .ok (valuesOf (scaleColsK T X.val s))

/-- `Arch::Lumping::csr_generic`: `sum = 0; for col in row: sum += val[col]` -/
def lumpRow [Zero α] [Add α] (r : Row α) : α := r.foldl (fun s p => s + p.2) 0

def csrLump [Zero α] [Add α] (A : Csr α) : List α := (csrRows A).map lumpRow

/-- `Arch::RowNorm::csr_generic_norm2sqr`: `norm += Math::sqr(val[col])` -/
def rowNormSq [Zero α] [Add α] [Mul α] (r : Row α) : α := r.foldl (fun s p => s + p.2 * p.2) 0

def csrRowNorm2Sqr [Zero α] [Add α] [Mul α] (A : Csr α) : List α := (csrRows A).map rowNormSq

/-- `Arch::RowNorm::csr_generic_norm2`: square root of the same sum -/
def csrRowNorm2 [Zero α] [Add α] [Mul α] (sqrt : α → α) (A : Csr α) : List α :=
  (csrRows A).map fun r => sqrt (rowNormSq r)

/-- `Arch::RowNorm::csr_generic_scaled_norm2sqr`: `norm += scal[col_ind[col]] * Math::sqr(val[col])`
    (the documented `row_norms_i = Σ_j scal_j (this_ij)^2`; since the fix of c03-edge:F2 the scaling factor is indexed
    by the *column*, as in the BCSR kernel) -/
def csrRowNorm2SqrScaled [Zero α] [Add α] [Mul α] (A : Csr α) (scal : Array α) : List α :=
  (List.range A.rows).map fun row => (csrRow A row).foldl (fun s p => s + scal.getD p.1 0 * (p.2 * p.2)) 0

/-- `SparseMatrixCSR::norm_frobenius` = `Arch::Norm2::value(val, used_elements)` -/
def csrFrobSq [Zero α] [Add α] [Mul α] (A : Csr α) : α := sumSq A.val.toList

/-- `Arch::Diagonal::csr_generic`: `diag[row] = row_ptr[rows]`, then the first position of the row whose column
    index equals the row number (`break`) -/
def diagIndexRow (rowBegin : Nat) (notFound : Nat) (row : Nat) : List Nat → Nat → Nat
  | [], _ => notFound
  | c :: t, k => if row = c then rowBegin + k else diagIndexRow rowBegin notFound row t (k + 1)

def csrDiagIndices [Zero α] (A : Csr α) : List Nat :=
  (List.range A.rows).map fun row =>
    diagIndexRow (A.rowBegin row) (A.rowPtr.getD A.rows 0) row (rowCols (csrRow A row)) 0

/-- `SparseMatrixCSR::extract_diag`: `diag[row] = (index != used_elements()) ? val[index] : 0`;
    the matrix must be square (`XASSERTM`) -/
def csrExtractDiag [Zero α] (A : Csr α) : Except Abort (List α × List Nat) :=
  if A.rows != A.cols then .error .dims
  else
    let idx := csrDiagIndices A
    .ok (idx.map (fun k => if k != A.usedElements then A.val.getD k 0 else 0), idx)

variable [LT α] [DecidableLT α] [Neg α] [Zero α]

/-- `SparseMatrixCSR::shrink(eps)`: keep the entries with `|v| >= eps` (i.e. not `|v| < eps`), row by row -/
def shrinkRow (eps : α) (r : Row α) : Row α := r.filter fun p => !decide (absK p.2 < eps)

def csrShrink (A : Csr α) (eps : α) : List (Row α) := (csrRows A).map (shrinkRow eps)

/-- the row pointer array the second pass of `shrink` builds from the per-row counters -/
def rowPtrOf {β : Type} (rows : List (Row β)) : List Nat :=
  (rows.foldl (fun (acc : List Nat × Nat) r => (acc.1 ++ [acc.2 + r.length], acc.2 + r.length)) ([0], 0)).1

end CsrOps

/-! ### sparse products on CSR -/
section CsrProducts
variable {α : Type} [Zero α] [Add α] [Mul α]

/-- `data_x[ij] += omega * data_b[lj]` -/
def updS (omega : α) (vx vb : α) : α := vx + omega * vb

/-- `X <- X + alpha D B` (`add_mat_mat_product`): for every stored `D_ik`: `omega = alpha * D_ik`, merge row `B_k` -/
def csrAddMatMat (allow : Bool) (alpha : α) (X D B : Csr α) : Except Abort (List (Row α)) :=
  if X.rows != D.rows || D.cols != B.rows || B.cols != X.cols then .error .dims
  else forRows (fun i => mergeMany allow (csrRow X i)
    ((csrRow D i).map fun (kd : Nat × α) => (updS (alpha * kd.2), csrRow B kd.1))) (List.range X.rows)

/-- `X <- X + alpha D A B` (`add_double_mat_product`, CSR middle factor): `omega = alpha * D_ik * A_kl`, merge row `B_l` -/
def csrAddDoubleMatMat (allow : Bool) (alpha : α) (X D A B : Csr α) : Except Abort (List (Row α)) :=
  if X.rows != D.rows || D.cols != A.rows || A.cols != B.rows || B.cols != X.cols then .error .dims
  else forRows (fun i => mergeMany allow (csrRow X i)
    ((csrRow D i).flatMap fun (kd : Nat × α) =>
      (csrRow A kd.1).map fun (la : Nat × α) => (updS (alpha * kd.2 * la.2), csrRow B la.1))) (List.range X.rows)

/-- `X <- X + alpha D diag(a) B` (`add_double_mat_product`, vector middle factor): `omega = alpha * D_ik * a_k` -/
def csrAddDoubleDiag (allow : Bool) (alpha : α) (X D : Csr α) (a : Array α) (B : Csr α) : Except Abort (List (Row α)) :=
  if X.rows != D.rows || D.cols != a.size || a.size != B.rows || B.cols != X.cols then .error .dims
  else forRows (fun i => mergeMany allow (csrRow X i)
    ((csrRow D i).map fun (kd : Nat × α) => (updS (alpha * kd.2 * a.getD kd.1 0), csrRow B kd.1))) (List.range X.rows)

end CsrProducts

/-! ### BCSR: blocks are row-major lists of `bh*bw` scalars -/
section BcsrOps
variable {α : Type}

/-- block `k` of the pod value array -/
def blockAt [Zero α] (A : Bcsr α) (k : Nat) : List α :=
  (List.range (A.bh * A.bw)).map fun t => A.val.getD (k * A.bh * A.bw + t) 0

def bcsrRow [Zero α] (A : Bcsr α) (i : Nat) : Row (List α) :=
  (List.range' (A.rowPtr.getD i 0) (A.rowPtr.getD (i + 1) 0 - A.rowPtr.getD i 0)).map fun p =>
    (A.colInd.getD p 0, blockAt A p)

def bcsrRows [Zero α] (A : Bcsr α) : List (Row (List α)) := (List.range A.rows).map (bcsrRow A)

def podOf (rows : List (Row (List α))) : List α := ((rows.flatten).map Prod.snd).flatten

def bSameShape (A B : Bcsr α) : Bool :=
  A.rows == B.rows && A.cols == B.cols && A.usedElements == B.usedElements

def bcsrAxpy [Add α] [Mul α] [One α] (T X : Bcsr α) (alpha : α) (alias : Bool) : Except Abort (List α) :=
  if !bSameShape X T then .error .dims else .ok (axpyK alias alpha T.val.toList X.val.toList)

def bcsrScale [Mul α] (T X : Bcsr α) (alpha : α) (alias : Bool) : Except Abort (List α) :=
  if !bSameShape X T then .error .dims else .ok (scaleK alias alpha T.val.toList X.val.toList)

/-- `ScaleRows::bcsr_generic`: `br[i][irow][icol] = ba[i][irow][icol] * bx[row][irow]`;
    `ScaleCols::bcsr_generic`: `... * bx[col_ind[i]][icol]` -/
def bcsrScaleRC [Zero α] [Mul α] (byCols : Bool) (T : Bcsr α) (a s : Array α) : List (Row (List α)) :=
  (List.range T.rows).map fun row =>
    (List.range' (T.rowPtr.getD row 0) (T.rowPtr.getD (row + 1) 0 - T.rowPtr.getD row 0)).map fun p =>
      (T.colInd.getD p 0, (List.range (T.bh * T.bw)).map fun t =>
        let irow := t / T.bw
        let icol := t % T.bw
        a.getD (p * T.bh * T.bw + t) 0 *
          (if byCols then s.getD (T.colInd.getD p 0 * T.bw + icol) 0 else s.getD (row * T.bh + irow) 0))

def bcsrScaleRows [Zero α] [Mul α] (T X : Bcsr α) (s : Array α) : Except Abort (List α) :=
  if !bSameShape X T || s.size != T.rows * T.bh then .error .dims
  else .ok (podOf (bcsrScaleRC false T X.val s))

def bcsrScaleCols [Zero α] [Mul α] (T X : Bcsr α) (s : Array α) : Except Abort (List α) :=
  if !bSameShape X T || s.size != T.cols * T.bw then .error .dims
  else .ok (podOf (bcsrScaleRC true T X.val s))

/-- `Lumping::bcsr_generic`: `lump[bh*row + i] += val[bh*bw*col + i*bw + j]`, blocks of the row in storage order -/
def bcsrLump [Zero α] [Add α] (A : Bcsr α) : List α :=
  (List.range A.rows).flatMap fun row => (List.range A.bh).map fun i =>
    (bcsrRow A row).foldl (fun s p => (List.range A.bw).foldl (fun s j => s + p.2.getD (i * A.bw + j) 0) s) 0

/-- `RowNorm::bcsr_generic_norm2sqr` and `bcsr_generic_scaled_norm2sqr` (`scal[bw*col_ind[col] + j] * sqr(..)`) -/
def bcsrRowNorm2Sqr [Zero α] [Add α] [Mul α] (A : Bcsr α) (scal : Option (Array α)) : List α :=
  (List.range A.rows).flatMap fun row => (List.range A.bh).map fun i =>
    (bcsrRow A row).foldl (fun s p => (List.range A.bw).foldl (fun s j =>
      let v := p.2.getD (i * A.bw + j) 0
      match scal with
      | none => s + v * v
      | some sc => s + sc.getD (A.bw * p.1 + j) 0 * (v * v)) s) 0

/-- `RowNorm::bcsr_generic_norm2`: the loop of `bcsr_generic_norm2sqr`, then one square root per scalar row (since the
    fix of c03-edge:F1 the root is taken after all blocks of the row have been added up) -/
def bcsrRowNorm2 [Zero α] [Add α] [Mul α] (sqrt : α → α) (A : Bcsr α) : List α :=
  (bcsrRowNorm2Sqr A none).map sqrt

def bcsrFrobSq [Zero α] [Add α] [Mul α] (A : Bcsr α) : α := sumSq A.val.toList

def bcsrDiagIndices [Zero α] (A : Bcsr α) : List Nat :=
  (List.range A.rows).map fun row =>
    diagIndexRow (A.rowPtr.getD row 0) (A.rowPtr.getD A.rows 0) row (rowCols (bcsrRow A row)) 0

/-- `SparseMatrixBCSR::extract_diag`: `t[i] = m[i][i]` of the diagonal block, 0 when there is none; non-square
    matrices and (since the /repo fix 214562810) non-square blocks are reported -/
def bcsrExtractDiag [Zero α] (A : Bcsr α) : Except Abort (List α) :=
  if A.rows != A.cols then .error .dims
  else if A.bh != A.bw then .error .dims
  else .ok ((bcsrDiagIndices A).flatMap fun k => (List.range A.bh).map fun i =>
    if k != A.usedElements then A.val.getD (k * A.bh * A.bw + i * A.bw + i) 0 else 0)

/-- `Tiny::Matrix::set_mat_mat_mult` for `n x n` blocks: `c[i][j] = sum_k a[i][k] * b[k][j]` -/
def blockMul [Zero α] [Add α] [Mul α] (n : Nat) (a b : List α) : List α :=
  (List.range (n * n)).map fun t =>
    (List.range n).foldl (fun s k => s + a.getD ((t / n) * n + k) 0 * b.getD (k * n + t % n) 0) 0

def blockAdd [Add α] (a b : List α) : List α := List.zipWith (· + ·) a b

/-- `add_double_mat_product(BCSR d, BCSR a, BCSR b)`: `omega = D_ik * A_kl; omega *= alpha;
    temp = omega * B_lj; X_ij += temp` -/
def bcsrAddDoubleMatMat [Zero α] [Add α] [Mul α] (allow : Bool) (alpha : α) (X D A B : Bcsr α) :
    Except Abort (List (Row (List α))) :=
  if X.bh != X.bw then .error .dims
  else if X.rows != D.rows || D.cols != A.rows || A.cols != B.rows || B.cols != X.cols then .error .dims
  else forRows (fun i => mergeMany allow (bcsrRow X i)
    ((bcsrRow D i).flatMap fun (kd : Nat × List α) =>
      (bcsrRow A kd.1).map fun (la : Nat × List α) =>
        let omega := (blockMul X.bh kd.2 la.2).map (· * alpha)
        ((fun (vx vb : List α) => blockAdd vx (blockMul X.bh omega vb)), bcsrRow B la.1))) (List.range X.rows)

/-- `add_double_mat_product(CSR d, BCSR a, CSR b)`: `omega = (alpha * D_ik) * A_kl` (a block),
    `Tiny::axpy(X_ij, omega, B_lj)`: `X_ij += B_lj * omega` with the scalar `B_lj` -/
def bcsrAddDoubleCsrBcsrCsr [Zero α] [Add α] [Mul α] (allow : Bool) (alpha : α) (X : Bcsr α) (D : Csr α) (A : Bcsr α)
    (B : Csr α) : Except Abort (List (Row (List α))) :=
  if X.bh != X.bw then .error .dims
  else if X.rows != D.rows || D.cols != A.rows || A.cols != B.rows || B.cols != X.cols then .error .dims
  else forRows (fun i => mergeMany allow (bcsrRow X i)
    ((csrRow D i).flatMap fun (kd : Nat × α) =>
      (bcsrRow A kd.1).map fun (la : Nat × List α) =>
        let omega := la.2.map ((alpha * kd.2) * ·)
        ((fun (vx : List α) (vb : α) => blockAdd vx (omega.map (· * vb))), csrRow B la.1))) (List.range X.rows)

end BcsrOps

/-! ### the output vector of the row-loop members

`lump_rows(lump)`, `row_norm2(row_norms)`, `row_norm2sqr(row_norms[, scal])` receive an existing vector and their kernels
execute `for(row = 0; row < rows; ++row) { ...; out[row] = value(row); }` (BCSR: `out[bh*row + i] = 0; out[..] += ..`):
the assignment is unconditional, also for a row without stored entries.  `writeAll` is that loop on an arbitrary
pre-filled array; the `*Into` functions are what the driver executes (the harness pre-fills the vector with 777). -/
section Into
variable {α : Type}

/-- `for(i = 0; i < n; ++i) out[i] = f i` on the pre-filled array `out0` -/
def writeAll (f : Nat → α) (n : Nat) (out0 : Array α) : Array α :=
  (List.range n).foldl (fun o i => o.setIfInBounds i (f i)) out0

variable [Zero α] [Add α] [Mul α]

def csrLumpInto (out0 : Array α) (A : Csr α) : Array α := writeAll (fun row => lumpRow (csrRow A row)) A.rows out0
def csrRowNorm2SqrInto (out0 : Array α) (A : Csr α) : Array α := writeAll (fun row => rowNormSq (csrRow A row)) A.rows out0
def csrRowNorm2Into (sqrt : α → α) (out0 : Array α) (A : Csr α) : Array α :=
  writeAll (fun row => sqrt (rowNormSq (csrRow A row))) A.rows out0
def csrRowNorm2SqrScaledInto (out0 : Array α) (A : Csr α) (scal : Array α) : Array α :=
  writeAll (fun row => (csrRow A row).foldl (fun s p => s + scal.getD p.1 0 * (p.2 * p.2)) 0) A.rows out0
/-- BCSR: entry `bh*row + i` of the list version, written for every `row < rows`, `i < bh` -/
def bcsrLumpInto (out0 : Array α) (A : Bcsr α) : Array α :=
  let l := (bcsrLump A).toArray
  writeAll (fun k => l.getD k 0) (A.rows * A.bh) out0
def bcsrRowNorm2SqrInto (out0 : Array α) (A : Bcsr α) (scal : Option (Array α)) : Array α :=
  let l := (bcsrRowNorm2Sqr A scal).toArray
  writeAll (fun k => l.getD k 0) (A.rows * A.bh) out0
def bcsrRowNorm2Into (sqrt : α → α) (out0 : Array α) (A : Bcsr α) : Array α :=
  let l := (bcsrRowNorm2 sqrt A).toArray
  writeAll (fun k => l.getD k 0) (A.rows * A.bh) out0

end Into

end FeatModel.LA.MatAlg
