import FeatModel.Model.LA.Vec
/-
`LAFEM::SparseMatrixBCSR<DT, IT, BlockHeight, BlockWidth>` and `Arch::Apply::bcsr_generic` /
`bcsr_transposed_generic`, at the level of the raw (pod) arrays: block `i` is stored row-major at
`val[i*bh*bw + h*bw + w]`, blocked vectors as `v[idx*bs + k]`.  `rows`/`cols` count blocks.
All `apply` overloads (scalar / blocked vectors) reach the same kernel on the pod arrays.
-/
namespace FeatModel.LA

structure Bcsr (α : Type) where
  bh : Nat
  bw : Nat
  rows : Nat
  cols : Nat
  rowPtr : Array Nat
  colInd : Array Nat
  val : Array α

namespace Bcsr
variable {α : Type}

/-- `used_elements()` counts blocks -/
def usedElements (A : Bcsr α) : Nat := A.colInd.size

def wf (A : Bcsr α) : Bool :=
  A.rowPtr.size == A.rows + 1 && A.rowPtr.getD 0 0 == 0 && A.rowPtr.getD A.rows 0 == A.colInd.size
  && A.val.size == A.colInd.size * A.bh * A.bw
  && (List.range A.rows).all (fun i => A.rowPtr.getD i 0 ≤ A.rowPtr.getD (i + 1) 0)
  && A.colInd.all (· < A.cols)

/-- dense (scalar) meaning at pod row `i`, pod column `j` -/
def entry [Zero α] [Add α] (A : Bcsr α) (i j : Nat) : α :=
  if A.bh = 0 ∨ A.bw = 0 then 0 else
  let row := i / A.bh
  let h := i % A.bh
  foldRange (A.rowPtr.getD row 0) (A.rowPtr.getD (row + 1) 0)
    (fun s k => if A.colInd.getD k A.cols = j / A.bw then s + A.val.getD (k * A.bh * A.bw + h * A.bw + j % A.bw) 0 else s) 0

def toDense [Zero α] [Add α] (A : Bcsr α) : List (List α) :=
  (List.range (A.rows * A.bh)).map fun i => (List.range (A.cols * A.bw)).map fun j => A.entry i j

/-- component `h` of `bsum` after `for i in row: bsum.add_mat_vec_mult(bval[i], bx[col_ind[i]])`
    (`v[h] += alpha * a[h][w] * x[w]` with `alpha = 1`) -/
def blockRowSum [Zero α] [One α] [Add α] [Mul α] (A : Bcsr α) (x : Array α) (row h : Nat) : α :=
  foldRange (A.rowPtr.getD row 0) (A.rowPtr.getD (row + 1) 0) (fun sum i =>
    foldRange 0 A.bw (fun sum w =>
      sum + 1 * A.val.getD (i * A.bh * A.bw + h * A.bw + w) 0 * x.getD (A.colInd.getD i 0 * A.bw + w) 0) sum) 0

/-- `Arch::Apply::bcsr_generic<BH, BW>` -/
def kernel [Zero α] [One α] [Add α] [Mul α] (tiny : α → Bool) (A : Bcsr α) (a b : α) (x y r : Array α)
    (alias : Bool) : Array α :=
  let r := initR tiny (A.rows * A.bh) b r y alias
  Array.ofFn (n := A.rows * A.bh) fun idx =>
    (A.blockRowSum x (idx.val / A.bh) (idx.val % A.bh) * a) + (b * r.getD idx.val 0)

/-- `Arch::Apply::bcsr_transposed_generic<BH, BW>`:
    `br[col_ind[i]].add_vec_mat_mult(bx[row], bval[i])` = `for j < bw: for ii < bh: v[j] += 1 * a[ii][j] * x[ii]` -/
def kernelT [Zero α] [One α] [Add α] [Mul α] [Div α] (tiny : α → Bool) (A : Bcsr α) (a b : α) (x y r : Array α)
    (alias : Bool) : Array α :=
  let r := initR tiny (A.cols * A.bw) b r y alias
  let ba := b / a
  let r := r.map (ba * ·)
  let r := (List.range A.rows).foldl (fun r row =>
    foldRange (A.rowPtr.getD row 0) (A.rowPtr.getD (row + 1) 0) (fun r i =>
      foldRange 0 A.bw (fun r j =>
        foldRange 0 A.bh (fun r ii =>
          r.modify (A.colInd.getD i 0 * A.bw + j)
            (· + 1 * A.val.getD (i * A.bh * A.bw + ii * A.bw + j) 0 * x.getD (row * A.bh + ii) 0)) r) r) r) r
  r.map (a * ·)

def apply [Zero α] [One α] [Add α] [Mul α] [Div α] (tiny : α → Bool) (A : Bcsr α) (x r : Array α)
    (transposed : Bool) : Option (Array α) :=
  let nr := if transposed then A.cols * A.bw else A.rows * A.bh
  let nx := if transposed then A.rows * A.bh else A.cols * A.bw
  if r.size != nr || x.size != nx then none
  else if A.usedElements == 0 then some (Array.replicate r.size 0)
  else some (if transposed then A.kernelT tiny 1 0 x r r true else A.kernel tiny 1 0 x r r true)

/-- all five `(r, x, y)` vector-kind overloads; the mixed one (`r` blocked, `y` scalar) does `r.convert(y)` in the
    early-out, which yields the same values -/
def applyAxpy [Zero α] [One α] [Add α] [Mul α] [Div α] (tiny : α → Bool) (A : Bcsr α) (x y r : Array α) (alpha : α)
    (alias transposed : Bool) : Option (Array α) :=
  let nr := if transposed then A.cols * A.bw else A.rows * A.bh
  let nx := if transposed then A.rows * A.bh else A.cols * A.bw
  if r.size != nr || x.size != nx || y.size != nr then none
  else if A.usedElements == 0 || tiny alpha then some (if alias then r else y)
  else some (if transposed then A.kernelT tiny alpha 1 x y r alias else A.kernel tiny alpha 1 x y r alias)

end Bcsr
end FeatModel.LA

namespace FeatModel.LA.Bcsr
/-- the instances the driver runs (core `Rat`, eps = 2^-52 like `Q` in the harness) -/
def applyQ (A : Bcsr Rat) (x r : Array Rat) (transposed : Bool) : Option (Array Rat) :=
  A.apply (tinyRat epsQ) x r transposed
def applyAxpyQ (A : Bcsr Rat) (x y r : Array Rat) (alpha : Rat) (alias transposed : Bool) : Option (Array Rat) :=
  A.applyAxpy (tinyRat epsQ) x y r alpha alias transposed
end FeatModel.LA.Bcsr
