import FeatModel.Model.LA.Csr
import FeatModel.Model.LA.Bcsr
import FeatModel.Model.LA.Cscr
import FeatModel.Model.LA.Banded
import FeatModel.Model.LA.Dense
/-
C02: conversion, transposition, permutation and rebuilding of the LAFEM matrix containers
(kernel/lafem/sparse_matrix_csr.hpp `convert(...)`, `transpose`, `permute`; sparse_matrix_banded.hpp `convert(CSR)`;
sparse_matrix_cscr.hpp `convert(MT_)`; sparse_matrix_bcsr.hpp `transpose`; dense_matrix.hpp `transpose`).
Core Lean only.  A container without any arrays (`SparseMatrixCSR(rows, cols)`: `row_ptr() == nullptr`) is the
structure whose arrays are all empty.
-/
namespace FeatModel.LA

/-! ### CSR: validity, rows as lists -/
namespace Csr
variable {α : Type}

/-- `SparseMatrixCSR(rows, cols)`: entry-free, no arrays allocated -/
def entryFree (r c : Nat) : Csr α := ⟨r, c, #[], #[], #[]⟩

def isArrayless (A : Csr α) : Bool := A.rowPtr.isEmpty && A.colInd.isEmpty && A.val.isEmpty

/-- column indices strictly increasing inside every row -/
def sortedRows (A : Csr α) : Bool :=
  (List.range A.rows).all fun i =>
    (List.range' (A.rowBegin i) (A.rowEnd i - A.rowBegin i - 1)).all fun k => A.colInd.getD k 0 < A.colInd.getD (k + 1) 0

/-- "structurally valid layout" of the property statement: monotone row pointers, in-range strictly sorted column
    indices — or no layout arrays at all (the entry-free container) -/
def valid (A : Csr α) : Bool := A.isArrayless || (A.wf && A.sortedRows)

/-- the stored (column, value) pairs of row `i` in storage order -/
def rowList [Zero α] (A : Csr α) (i : Nat) : List (Nat × α) :=
  (List.range' (A.rowBegin i) (A.rowEnd i - A.rowBegin i)).map fun k => (A.colInd.getD k 0, A.val.getD k 0)

/-- running offsets `s, s+|r₀|, s+|r₀|+|r₁|, …` -/
def offsets {β : Type} : Nat → List (List β) → List Nat
  | s, [] => [s]
  | s, r :: rs => s :: offsets (s + r.length) rs

/-- the loop shape "append the entries of the row, then `row_ptr[row+1] = ue`" shared by several conversions -/
def ofRows (rows cols : Nat) (rs : List (List (Nat × α))) : Csr α :=
  ⟨rows, cols, (offsets 0 rs).toArray, (rs.flatten.map Prod.fst).toArray, (rs.flatten.map Prod.snd).toArray⟩

/-! ### `SparseMatrixCSR::transpose(const SparseMatrixCSR & x)` — loop for loop -/

/-- `for (i < used_elements) ++ptr[col_ind[i] + 1];` on `ptr = (cols+1) × 0` -/
def trHistogram (A : Csr α) : Array Nat :=
  foldRange 0 A.usedElements (fun p i => p.modify (A.colInd.getD i 0 + 1) (· + 1)) (Array.replicate (A.cols + 1) 0)

/-- `for (i = 1; i < cols - 1; ++i) ptr[i+1] += ptr[i];`  (the last slot is deliberately not summed) -/
def trPrefix (A : Csr α) (p : Array Nat) : Array Nat :=
  foldRange 1 (A.cols - 1) (fun p i => p.modify (i + 1) (· + p.getD i 0)) p

/-- one step of the scatter: `l = col_ind[k]; j = ptr[l]; val'[j] = val[k]; col_ind'[j] = i; ++ptr[l];` -/
def trStep [Zero α] (A : Csr α) (i : Nat) (st : Array Nat × Array Nat × Array α) (k : Nat) :
    Array Nat × Array Nat × Array α :=
  let l := A.colInd.getD k 0
  let j := st.1.getD l 0
  (st.1.modify l (· + 1), st.2.1.setIfInBounds j i, st.2.2.setIfInBounds j (A.val.getD k 0))

/-- `for (i < rows) for (k = row_ptr[i]; k < row_ptr[i+1]; ++k) …` -/
def trScatter [Zero α] (A : Csr α) (p : Array Nat) : Array Nat × Array Nat × Array α :=
  (List.range A.rows).foldl (fun st i => foldRange (A.rowBegin i) (A.rowEnd i) (A.trStep i) st)
    (p, Array.replicate A.usedElements 0, Array.replicate A.usedElements 0)

/-- `for (i = cols; i > 0; --i) ptr[i] = ptr[i-1];  ptr[0] = 0;` -/
def trShift (A : Csr α) (p : Array Nat) : Array Nat :=
  ((List.range A.cols).reverse.foldl (fun p i => p.setIfInBounds (i + 1) (p.getD i 0)) p).setIfInBounds 0 0

def transpose [Zero α] (A : Csr α) : Csr α :=
  if A.usedElements = 0 then entryFree A.cols A.rows       -- `this->move(SparseMatrixCSR(x.columns(), x.rows()))`
  else
    let st := A.trScatter (A.trPrefix A.trHistogram)
    ⟨A.cols, A.rows, A.trShift st.1, st.2.1, st.2.2⟩

/-! ### `SparseMatrixCSR::permute(perm_row, perm_col)` -/

/-- `Permutation::inverse()`: `inv[q[i]] = i` -/
def invPerm (q : Array Nat) : Array Nat :=
  (List.range q.size).foldl (fun a i => a.setIfInBounds (q.getD i 0) i) (Array.replicate q.size 0)

/-- `q` is a bijection of `[0, q.size)` (what `Adjacency::Permutation` holds) -/
def isPerm (q : Array Nat) : Bool :=
  q.all (· < q.size) &&
  (List.range q.size).all fun i => (List.range q.size).all fun j => i == j || q.getD i 0 != q.getD j 0

/-- the insertion step of the in-row sort: the new element goes behind all elements with a key `≤` its own -/
def insSorted (x : Nat × α) : List (Nat × α) → List (Nat × α)
  | [] => [x]
  | y :: ys => if x.1 < y.1 then x :: y :: ys else y :: insSorted x ys

/-- the in-row insertion sort by column index (stable) -/
def isort (l : List (Nat × α)) : List (Nat × α) := l.foldl (fun acc x => insSorted x acc) []

/-- new row `i` = old row `p[i]`, column `c` renamed to `q⁻¹[c]`, then sorted by column -/
def permRow [Zero α] (A : Csr α) (p qinv : Array Nat) (i : Nat) : List (Nat × α) :=
  isort ((A.rowList (p.getD i 0)).map fun cv => (qinv.getD cv.1 0, cv.2))

/-- `none` = `XASSERTM` abort (size mismatch).  Two empty permutations leave the matrix alone. -/
def permute [Zero α] (A : Csr α) (p q : Array Nat) : Option (Csr α) :=
  if p.size = 0 ∧ q.size = 0 then some A
  else if p.size ≠ A.rows ∨ q.size ≠ A.cols then none
  else if A.isArrayless then some A     -- `if (used_elements() == 0) return;` (D1, fixed in /repo by 59f054b00)
  else some (ofRows A.rows A.cols ((List.range A.rows).map (A.permRow p (invPerm q))))

/-! ### `SparseMatrixBanded::convert(const SparseMatrixCSR &)` -/

/-- `std::set<IT_>::insert` on the sorted duplicate-free list -/
def setInsert (x : Nat) : List Nat → List Nat
  | [] => [x]
  | y :: ys => if x < y then x :: y :: ys else if x = y then y :: ys else y :: setInsert x ys

/-- band offset of the entry `(row, col)`: `col - row + rows - 1` -/
def bandOff (A : Csr α) (row col : Nat) : Nat := col + A.rows - 1 - row

def offsetSet (A : Csr α) : List Nat :=
  (List.range A.rows).foldl (fun s row =>
    foldRange (A.rowBegin row) (A.rowEnd row) (fun s k => setInsert (A.bandOff row (A.colInd.getD k 0)) s) s) []

/-- `none` = `XASSERT(used_elements > 0)` -/
def toBanded [Zero α] (A : Csr α) : Option (Banded α) :=
  if A.usedElements = 0 then none else
  let offs := A.offsetSet
  let val := (List.range A.rows).foldl (fun v row =>
    foldRange (A.rowBegin row) (A.rowEnd row) (fun v k =>
      let band := offs.idxOf (A.bandOff row (A.colInd.getD k 0))
      v.setIfInBounds (band * A.rows + row) (A.val.getD k 0)) v) (Array.replicate (offs.length * A.rows) 0)
  some ⟨A.rows, A.cols, offs.toArray, val⟩

/-! ### `SparseMatrixCSCR::convert(const MT_ &)` with `MT_ = SparseMatrixCSR` -/

/-- an entry-free source yields `SparseMatrixCSCR(rows, cols)` (no arrays; D3, fixed in /repo by 59f054b00); otherwise
    used rows get consecutive compressed indices `k`; `prow_ptr[k+1] = offset + length`, `prow_numbers[k] = i`; then
    `for k < used_rows: ta.set_line(prow_numbers[k], pval + prow_ptr[k], pcol_ind + prow_ptr[k], 0)` copies row
    `prow_numbers[k]` to its compressed slot -/
def toCscr [Zero α] (A : Csr α) : Cscr α :=
  if A.usedElements = 0 then ⟨A.rows, A.cols, #[], #[], #[], #[]⟩ else
  let used := (List.range A.rows).filter fun i => A.rowBegin i < A.rowEnd i
  let rs := used.map A.rowList
  ⟨A.rows, A.cols, (offsets 0 rs).toArray, (rs.flatten.map Prod.fst).toArray, (rs.flatten.map Prod.snd).toArray,
   used.toArray⟩

end Csr

/-! ### `SparseMatrixCSR::convert(const MT_ &)` with `MT_ = SparseMatrixCSCR` -/
namespace Cscr
variable {α : Type}

/-- compressed index of row `i`: the first `k` with `rowNumbers[k] = i` (`get_length_of_line` / `set_line` look the row
    number up in `row_numbers`; D6, fixed in /repo by 3df59c4a0) -/
def findRow (A : Cscr α) (i : Nat) : Option Nat :=
  (List.range A.usedRows).find? fun k => A.rowNumbers.getD k A.rows == i

/-- the stored (column, value) pairs of matrix row `i` (empty when the row is not stored) -/
def rowOf [Zero α] (A : Cscr α) (i : Nat) : List (Nat × α) :=
  match A.findRow i with
  | some k => (List.range' (A.rowPtr.getD k 0) (A.rowPtr.getD (k + 1) 0 - A.rowPtr.getD k 0)).map fun t =>
      (A.colInd.getD t 0, A.val.getD t 0)
  | none => []

/-- the generic line-wise converter: lengths of all rows, prefix sums, then `set_line` row by row.
    `none` = `XASSERT(used_elements > 0)` (an entry-free CSCR matrix still cannot be converted: finding D10). -/
def toCsr [Zero α] (A : Cscr α) : Option (Csr α) :=
  if A.usedElements = 0 then none
  else some (Csr.ofRows A.rows A.cols ((List.range A.rows).map A.rowOf))

end Cscr

/-! ### `SparseMatrixCSR::convert(const SparseMatrixBanded &)` — loop for loop (shares the windows of C01) -/
namespace Banded
variable {α : Type}

def toCsr [Zero α] (B : Banded α) : Csr α :=
  if B.usedElements = 0 then Csr.entryFree B.rows B.cols else
  let k := B.firstUpper
  -- `trow_ptr` is allocated uninitialised, `trow_ptr[0] = 0`; unwritten slots show as 0 here
  let init : Array Nat × Array Nat × Array α := (Array.replicate (B.rows + 1) 0, #[], #[])
  let st := (List.range (k + 1)).reverse.foldl (fun st i =>
    (List.range (B.noo + 1)).reverse.foldl (fun st j =>
      let start := max (B.startOff (some i)) (B.endOffP1 (some j))
      let stop := min (B.startOff (predIdx i)) (B.endOffP1 (predIdx j))
      foldRange start stop (fun st l =>
        let cv := foldRange i j (fun (cv : Array Nat × Array α) a =>
          (cv.1.push (l + B.offsets.getD a 0 + 1 - B.rows), cv.2.push (B.val.getD (a * B.rows + l) 0))) (st.2.1, st.2.2)
        (st.1.setIfInBounds (l + 1) cv.1.size, cv.1, cv.2)) st) st) init
  ⟨B.rows, B.cols, st.1, st.2.1, st.2.2⟩

end Banded

/-! ### BCSR -/
namespace Bcsr
variable {α : Type}

/-- scalar row `orow*bh + row` of the blocked matrix: for every block of the block row, its `bw` entries -/
def podRow [Zero α] (A : Bcsr α) (orow row : Nat) : List (Nat × α) :=
  ((List.range' (A.rowPtr.getD orow 0) (A.rowPtr.getD (orow + 1) 0 - A.rowPtr.getD orow 0)).map fun ocol =>
    (List.range A.bw).map fun col =>
      (A.colInd.getD ocol 0 * A.bw + col, A.val.getD (ocol * A.bh * A.bw + row * A.bw + col) 0)).flatten

/-- `SparseMatrixCSR::convert(const SparseMatrixBCSR &)` -/
def toCsr [Zero α] (A : Bcsr α) : Csr α :=
  if A.usedElements * A.bh * A.bw = 0 then Csr.entryFree (A.rows * A.bh) (A.cols * A.bw) else
  Csr.ofRows (A.rows * A.bh) (A.cols * A.bw)
    (((List.range A.rows).map fun orow => (List.range A.bh).map fun row => A.podRow orow row).flatten)

/-- a BCSR container without arrays (`SparseMatrixBCSR(rows, cols)`) -/
def isArrayless (A : Bcsr α) : Bool := A.rowPtr.isEmpty && A.colInd.isEmpty && A.val.isEmpty

/-- block column indices strictly increasing inside every block row -/
def sortedRows (A : Bcsr α) : Bool :=
  (List.range A.rows).all fun i =>
    (List.range' (A.rowPtr.getD i 0) (A.rowPtr.getD (i + 1) 0 - A.rowPtr.getD i 0 - 1)).all fun k =>
      A.colInd.getD k 0 < A.colInd.getD (k + 1) 0

/-- structurally valid block layout, or no layout arrays at all -/
def valid (A : Bcsr α) : Bool := A.isArrayless || (A.wf && A.sortedRows)

/-- `SparseMatrixBCSR<BH,BW>::transpose(const SparseMatrixBCSR<BW,BH> & x)` (`A` is `x`): the same counting sort as
    CSR on the block pattern, each block transposed (`set_transpose`).  The entry-free early-out is
    `SparseMatrixBCSR(x.columns(), x.rows())`. -/
def transpose [Zero α] (A : Bcsr α) : Bcsr α :=
  if A.usedElements = 0 then ⟨A.bw, A.bh, A.cols, A.rows, #[], #[], #[]⟩ else
  let S : Csr Nat := ⟨A.rows, A.cols, A.rowPtr, A.colInd, Array.range A.usedElements⟩
  let T := S.transpose
  let val := Array.ofFn (n := A.usedElements * A.bh * A.bw) fun idx =>
    let blk := idx.val / (A.bh * A.bw)
    let r := idx.val % (A.bh * A.bw)
    -- new block is bw × bh, row-major: (h', w') at h'*bh + w'  =  old (w', h')
    let h' := r / A.bh
    let w' := r % A.bh
    A.val.getD (T.val.getD blk 0 * A.bh * A.bw + w' * A.bw + h') 0
  ⟨A.bw, A.bh, A.cols, A.rows, T.rowPtr, T.colInd, val⟩

end Bcsr

/-! ### Dense: `Arch::Transpose::value_generic` -/
namespace Dense
variable {α : Type}

/-- `r[j * rows + i] = x[i * cols + j]` (out of place, or through a copy when `r == x`) -/
def transpose [Zero α] (A : Dense α) : Dense α :=
  ⟨A.cols, A.rows, Array.ofFn (n := A.cols * A.rows) fun idx =>
    A.val.getD ((idx.val % A.rows) * A.cols + idx.val / A.rows) 0⟩

end Dense

end FeatModel.LA
