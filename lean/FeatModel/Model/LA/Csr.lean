import FeatModel.Model.LA.Vec
/-
`LAFEM::SparseMatrixCSR` (kernel/lafem/sparse_matrix_csr.hpp) and its `Arch::Apply::csr_generic` /
`csrsb_generic` kernels.  This is the shared sparse-matrix model (imported by C02/C03/C06/C08 as well).
-/
namespace FeatModel.LA

structure Csr (α : Type) where
  rows : Nat
  cols : Nat
  rowPtr : Array Nat
  colInd : Array Nat
  val : Array α

namespace Csr
variable {α : Type}

/-- `used_elements()` -/
def usedElements (A : Csr α) : Nat := A.val.size

/-- decidable well-formedness: `rowPtr` is a monotone offset array of length `rows+1` starting at 0 and ending at
    the number of stored entries, one column index per value, all column indices `< cols` -/
def wf (A : Csr α) : Bool :=
  A.rowPtr.size == A.rows + 1 && A.rowPtr.getD 0 0 == 0 && A.rowPtr.getD A.rows 0 == A.val.size
  && A.colInd.size == A.val.size
  && (List.range A.rows).all (fun i => A.rowPtr.getD i 0 ≤ A.rowPtr.getD (i + 1) 0)
  && A.colInd.all (· < A.cols)

/-- first / one-past-last storage position of row `i` -/
def rowBegin (A : Csr α) (i : Nat) : Nat := A.rowPtr.getD i 0
def rowEnd (A : Csr α) (i : Nat) : Nat := A.rowPtr.getD (i + 1) 0

/-- dense meaning: the sum of all stored values of row `i` whose column index is `j` (duplicates add) -/
def entry [Zero α] [Add α] (A : Csr α) (i j : Nat) : α :=
  foldRange (A.rowBegin i) (A.rowEnd i) (fun s k => if A.colInd.getD k A.cols = j then s + A.val.getD k 0 else s) 0

def toDense [Zero α] [Add α] (A : Csr α) : List (List α) :=
  (List.range A.rows).map fun i => (List.range A.cols).map fun j => A.entry i j

/-- inner loop of the non-transposed kernel: `sum += val[i] * x[col_ind[i]]` for `i ∈ [row_ptr[row], row_ptr[row+1])` -/
def rowSum [Zero α] [Add α] [Mul α] (A : Csr α) (x : Array α) (row : Nat) : α :=
  foldRange (A.rowBegin row) (A.rowEnd row) (fun sum i => sum + A.val.getD i 0 * x.getD (A.colInd.getD i 0) 0) 0

/-- transposed scatter: `for row: for i in row: r[col_ind[i]] += val[i] * x[row]` (reads what it has written) -/
def scatterT [Zero α] [Add α] [Mul α] (A : Csr α) (x : Array α) (r : Array α) : Array α :=
  (List.range A.rows).foldl (fun r row =>
    foldRange (A.rowBegin row) (A.rowEnd row)
      (fun r i => r.modify (A.colInd.getD i 0) (· + A.val.getD i 0 * x.getD row 0)) r) r

/-- `Arch::Apply::csr_generic(r, a, x, b, y, val, col_ind, row_ptr, rows, columns, used_elements, transposed)` -/
def kernel [Zero α] [Add α] [Mul α] [Div α] (tiny : α → Bool) (A : Csr α) (a b : α) (x y r : Array α)
    (alias transposed : Bool) : Array α :=
  if transposed then
    let r := initR tiny A.cols b r y alias
    let ba := b / a
    let r := r.map (ba * ·)
    let r := A.scatterT x r
    r.map (a * ·)
  else
    let r := initR tiny A.rows b r y alias
    Array.ofFn (n := A.rows) fun row => (A.rowSum x row * a) + (b * r.getD row 0)

/-- `Arch::Apply::csrsb_generic<BlockSize_>`: scalar matrix entries times blocks of `x` (pod layout `idx*bs + k`) -/
def kernelSB [Zero α] [Add α] [Mul α] (tiny : α → Bool) (bs : Nat) (A : Csr α) (a b : α) (x y r : Array α)
    (alias : Bool) : Array α :=
  let r := initR tiny (A.rows * bs) b r y alias
  Array.ofFn (n := A.rows * bs) fun idx =>
    let row := idx.val / bs
    let k := idx.val % bs
    let bsum := foldRange (A.rowBegin row) (A.rowEnd row)
      (fun sum i => sum + A.val.getD i 0 * x.getD (A.colInd.getD i 0 * bs + k) 0) 0
    (bsum * a) + (b * r.getD idx.val 0)

/-- `SparseMatrixCSR::apply(r, x)` / `apply_transposed(r, x)`; `none` = XASSERT abort.
    The kernel is called with `y = r` (aliased), `a = 1`, `b = 0`. -/
def apply [Zero α] [One α] [Add α] [Mul α] [Div α] (tiny : α → Bool) (A : Csr α) (x r : Array α)
    (transposed : Bool) : Option (Array α) :=
  let nr := if transposed then A.cols else A.rows
  let nx := if transposed then A.rows else A.cols
  if r.size != nr || x.size != nx then none
  else if A.usedElements == 0 then some (Array.replicate r.size 0)   -- r.format()
  else some (A.kernel tiny 1 0 x r r true transposed)

/-- `SparseMatrixCSR::apply(r, x, y, alpha)` / `apply_transposed(r, x, y, alpha)`: `r := y + alpha * A x` -/
def applyAxpy [Zero α] [One α] [Add α] [Mul α] [Div α] (tiny : α → Bool) (A : Csr α) (x y r : Array α) (alpha : α)
    (alias transposed : Bool) : Option (Array α) :=
  let nr := if transposed then A.cols else A.rows
  let nx := if transposed then A.rows else A.cols
  if r.size != nr || x.size != nx || y.size != nr then none
  else if A.usedElements == 0 || tiny alpha then some (if alias then r else y)   -- r.copy(y)
  else some (A.kernel tiny alpha 1 x y r alias transposed)

/-- blocked-vector overloads (`DenseVectorBlocked<BlockSize_>`), no transposed variant exists -/
def applySB [Zero α] [One α] [Add α] [Mul α] (tiny : α → Bool) (bs : Nat) (A : Csr α) (x r : Array α) :
    Option (Array α) :=
  if r.size != A.rows * bs || x.size != A.cols * bs then none
  else if A.usedElements == 0 then some (Array.replicate r.size 0)
  else some (A.kernelSB tiny bs 1 0 x r r true)

def applyAxpySB [Zero α] [One α] [Add α] [Mul α] (tiny : α → Bool) (bs : Nat) (A : Csr α) (x y r : Array α)
    (alpha : α) (alias : Bool) : Option (Array α) :=
  if r.size != A.rows * bs || x.size != A.cols * bs || y.size != A.rows * bs then none
  else if A.usedElements == 0 || tiny alpha then some (if alias then r else y)
  else some (A.kernelSB tiny bs alpha 1 x y r alias)

end Csr
end FeatModel.LA

namespace FeatModel.LA.Csr
/-- the instances the driver runs (core `Rat`, eps = 2^-52 like `Q` in the harness) -/
def applyQ (A : Csr Rat) (x r : Array Rat) (transposed : Bool) : Option (Array Rat) :=
  A.apply (tinyRat epsQ) x r transposed
def applyAxpyQ (A : Csr Rat) (x y r : Array Rat) (alpha : Rat) (alias transposed : Bool) : Option (Array Rat) :=
  A.applyAxpy (tinyRat epsQ) x y r alpha alias transposed
end FeatModel.LA.Csr

namespace FeatModel.LA.Csr
/-- blocked-vector overloads at the driver's scalar -/
def applySBQ (bs : Nat) (A : Csr Rat) (x r : Array Rat) : Option (Array Rat) := A.applySB (tinyRat epsQ) bs x r
def applyAxpySBQ (bs : Nat) (A : Csr Rat) (x y r : Array Rat) (alpha : Rat) (alias : Bool) : Option (Array Rat) :=
  A.applyAxpySB (tinyRat epsQ) bs x y r alpha alias
end FeatModel.LA.Csr
