import FeatModel.Model.LA.Vec
/- `LAFEM::DenseMatrix` (row-major `val[row*cols + col]`) and `Arch::Apply::dense_generic` / `dense_transposed_generic` -/
namespace FeatModel.LA

structure Dense (α : Type) where
  rows : Nat
  cols : Nat
  val : Array α

namespace Dense
variable {α : Type}

def wf (A : Dense α) : Bool := A.val.size == A.rows * A.cols

def entry [Zero α] (A : Dense α) (i j : Nat) : α := if j < A.cols then A.val.getD (i * A.cols + j) 0 else 0

def toDense [Zero α] (A : Dense α) : List (List α) :=
  (List.range A.rows).map fun i => (List.range A.cols).map fun j => A.entry i j

/-- `dense_generic(r, alpha, beta, y, val, x, rows, columns)` -/
def kernel [Zero α] [Add α] [Mul α] (tiny : α → Bool) (A : Dense α) (alpha beta : α) (x y r : Array α)
    (alias : Bool) : Array α :=
  let r := initR tiny A.rows beta r y alias
  Array.ofFn (n := A.rows) fun row =>
    let sum := foldRange 0 A.cols (fun sum col => sum + A.val.getD (row.val * A.cols + col) 0 * x.getD col 0) 0
    beta * r.getD row.val 0 + alpha * sum

/-- `dense_transposed_generic` -/
def kernelT [Zero α] [Add α] [Mul α] (tiny : α → Bool) (A : Dense α) (alpha beta : α) (x y r : Array α)
    (alias : Bool) : Array α :=
  let r := initR tiny A.cols beta r y alias
  Array.ofFn (n := A.cols) fun col =>
    let sum := foldRange 0 A.rows (fun sum row => sum + A.val.getD (row * A.cols + col.val) 0 * x.getD row 0) 0
    beta * r.getD col.val 0 + alpha * sum

/-- `DenseMatrix::apply(r, x)`: the aliasing assertion `r.elements() != x.elements()` comes first and fires
    for two empty vectors (both null), i.e. for the empty 0x0 matrix -/
def apply [Zero α] [One α] [Add α] [Mul α] (tiny : α → Bool) (A : Dense α) (x r : Array α) (transposed : Bool) :
    Option (Array α) :=
  let nr := if transposed then A.cols else A.rows
  let nx := if transposed then A.rows else A.cols
  if r.size != nr || x.size != nx then none
  else if r.size == 0 then some r       -- `if (r.size() == Index(0)) return;` (r untouched), before the aliasing assertion
  else some (if transposed then A.kernelT tiny 1 0 x r r true else A.kernel tiny 1 0 x r r true)

def applyAxpy [Zero α] [One α] [Add α] [Mul α] (tiny : α → Bool) (A : Dense α) (x y r : Array α) (alpha : α)
    (alias transposed : Bool) : Option (Array α) :=
  let nr := if transposed then A.cols else A.rows
  let nx := if transposed then A.rows else A.cols
  if r.size != nr || x.size != nx || y.size != nr then none
  else if r.size == 0 then some r       -- `if (r.size() == Index(0)) return;` (r untouched), before the aliasing assertion
  else if tiny alpha then some (if alias then r else y)
  else some (if transposed then A.kernelT tiny alpha 1 x y r alias else A.kernel tiny alpha 1 x y r alias)

end Dense
end FeatModel.LA

namespace FeatModel.LA.Dense
/-- the instances the driver runs (core `Rat`, eps = 2^-52 like `Q` in the harness) -/
def applyQ (A : Dense Rat) (x r : Array Rat) (transposed : Bool) : Option (Array Rat) :=
  A.apply (tinyRat epsQ) x r transposed
def applyAxpyQ (A : Dense Rat) (x y r : Array Rat) (alpha : Rat) (alias transposed : Bool) : Option (Array Rat) :=
  A.applyAxpy (tinyRat epsQ) x y r alpha alias transposed
end FeatModel.LA.Dense
