/-
Shared vector-level pieces of the `Arch::Apply` kernels (kernel/lafem/arch/apply_generic.hpp), core Lean only.
Scalars are generic (`α` with the core operation classes); `Math::abs(b) < Math::eps<DT_>()` is the model
parameter `tiny : α → Bool` (the driver instantiates it with `|b| < 2^-52` on `Rat`, like `Q` in the harness).
-/
namespace FeatModel.LA

/-- Every kernel starts with
    `if (|b| < eps) set_memory(r, 0, n); else if (r != y) copy(r, y, n);`.
    `alias = true` means that `r` and `y` are the same memory (then `r` already holds the values of `y`). -/
def initR [Zero α] (tiny : α → Bool) (n : Nat) (b : α) (r y : Array α) (alias : Bool) : Array α :=
  if tiny b then Array.replicate n 0 else if alias then r else y

/-- `for (i = s; i < e; ++i) acc = f acc i` -/
def foldRange (s e : Nat) (f : β → Nat → β) (init : β) : β :=
  (List.range' s (e - s)).foldl f init

/-- `|a| < eps` on the rationals -/
def tinyRat (eps : Rat) (a : Rat) : Bool := decide ((if a < 0 then -a else a) < eps)

/-- `Math::eps<Q>()` of harness/common/exact_q.hpp -/
def epsQ : Rat := 1 / (2 ^ 52 : Nat)

end FeatModel.LA
