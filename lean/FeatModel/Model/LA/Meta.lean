import FeatModel.Model.LA.Csr
import FeatModel.Model.LA.Bcsr
import FeatModel.Model.LA.Dense
/-
Meta-matrices: `PowerRowMatrix` / `TupleMatrixRow` (`row`), `PowerColMatrix` / `TupleMatrix` (`col`),
`PowerDiagMatrix` / `TupleDiagMatrix` (`diag`), `PowerFullMatrix` (a `col` of `row`s) and `SaddlePointMatrix`
(`saddle`), with the first/rest recursion of kernel/lafem/power_*_matrix.hpp, tuple_matrix.hpp and
saddle_point_matrix.hpp.  The one-block specialisations (`PowerRowMatrix<Sub, 1>` …) only forward to `first()`
and are identified with their block.  Tuple/Power vectors are modelled by the concatenation of the pod arrays of
their leaves; `first()` / `rest()` are slices.
-/
namespace FeatModel.LA

inductive MetaMat (α : Type) where
  | csr (A : Csr α)
  | bcsr (A : Bcsr α)
  | dense (A : Dense α)
  | row (first rest : MetaMat α)        -- [first | rest]
  | col (first rest : MetaMat α)        -- [first ; rest]
  | diag (first rest : MetaMat α)       -- [first 0 ; 0 rest]
  | saddle (a b d : MetaMat α)          -- [a b ; d 0]

/-- one `apply` member seen as a function: `ax = none` is `apply(r, x)`, `ax = some alpha` is `apply(r, x, y, alpha)`;
    arguments `ax x y r alias`, `none` = abort -/
abbrev MetaOp (α : Type) := Option α → Array α → Array α → Array α → Bool → Option (Array α)

/-- `v.first()` / `v.rest()` of a Tuple/Power vector on the concatenated pod array -/
def slice (v : Array α) (off n : Nat) : Array α := v.extract off (off + n)

/-- `first().apply(r, x.first(), y, alpha); rest().apply(r, x.rest(), r, alpha);` – the blocks share the result vector,
    the second call is an axpy with `y` aliasing `r` (`alpha = 1` when the outer call is the plain `apply(r, x)`) -/
def chain [One α] (nIn1 nIn2 : Nat) (F R : MetaOp α) : MetaOp α := fun ax x y r ali =>
  match F ax (slice x 0 nIn1) y r ali with
  | none => none
  | some r1 => R (some (ax.getD 1)) (slice x nIn1 nIn2) r1 r1 true

/-- `first().apply(r.first(), x, y.first(), alpha); rest().apply(r.rest(), x, y.rest(), alpha);` -/
def split (nOut1 nOut2 : Nat) (F R : MetaOp α) : MetaOp α := fun ax x y r ali =>
  match F ax x (slice y 0 nOut1) (slice r 0 nOut1) ali with
  | none => none
  | some r1 =>
    match R ax x (slice y nOut1 nOut2) (slice r nOut1 nOut2) ali with
    | none => none
    | some r2 => some (r1 ++ r2)

/-- the operation sees only the first `n` entries of `x` (`x.first()` / `x.at<0>()`) -/
def onFirst (n : Nat) (F : MetaOp α) : MetaOp α := fun ax x y r ali => F ax (slice x 0 n) y r ali

/-- the operation sees only the entries `[off, off+n)` of `x` (`x.rest()`) -/
def onRest (off n : Nat) (F : MetaOp α) : MetaOp α := fun ax x y r ali => F ax (slice x off n) y r ali

namespace MetaMat
variable {α : Type}

/-- pod row / column counts -/
def rows : MetaMat α → Nat
  | csr A => A.rows
  | bcsr A => A.rows * A.bh
  | dense A => A.rows
  | row f _ => f.rows
  | col f r => f.rows + r.rows
  | diag f r => f.rows + r.rows
  | saddle a _ d => a.rows + d.rows

def cols : MetaMat α → Nat
  | csr A => A.cols
  | bcsr A => A.cols * A.bw
  | dense A => A.cols
  | row f r => f.cols + r.cols
  | col f _ => f.cols
  | diag f r => f.cols + r.cols
  | saddle a b _ => a.cols + b.cols

/-- well-formed leaves, matching block dimensions -/
def wf : MetaMat α → Bool
  | csr A => A.wf
  | bcsr A => A.wf && decide (0 < A.bh) && decide (0 < A.bw)
  | dense A => A.wf && decide (0 < A.rows) && decide (0 < A.cols)
  | row f r => f.wf && r.wf && f.rows == r.rows
  | col f r => f.wf && r.wf && f.cols == r.cols
  | diag f r => f.wf && r.wf
  | saddle a b d => a.wf && b.wf && d.wf && a.rows == b.rows && a.cols == d.cols

/-- dense meaning: the block matrix of the parts -/
def entry [Zero α] [Add α] : MetaMat α → Nat → Nat → α
  | csr A, i, j => A.entry i j
  | bcsr A, i, j => A.entry i j
  | dense A, i, j => A.entry i j
  | row f r, i, j => if j < f.cols then f.entry i j else r.entry i (j - f.cols)
  | col f r, i, j => if i < f.rows then f.entry i j else r.entry (i - f.rows) j
  | diag f r, i, j =>
    if i < f.rows then (if j < f.cols then f.entry i j else 0)
    else (if j < f.cols then 0 else r.entry (i - f.rows) (j - f.cols))
  | saddle a b d, i, j =>
    if i < a.rows then (if j < a.cols then a.entry i j else b.entry i (j - a.cols))
    else (if j < a.cols then d.entry (i - a.rows) j else 0)

def toDense [Zero α] [Add α] (M : MetaMat α) : List (List α) :=
  (List.range M.rows).map fun i => (List.range M.cols).map fun j => M.entry i j

/-- all four `apply` members of a meta-matrix (`tr` = transposed) -/
def go [Zero α] [One α] [Add α] [Mul α] [Div α] (tiny : α → Bool) : MetaMat α → Bool → MetaOp α
  | csr A, tr => fun ax x y r ali =>
    match ax with
    | none => A.apply tiny x r tr
    | some al => A.applyAxpy tiny x y r al ali tr
  | bcsr A, tr => fun ax x y r ali =>
    match ax with
    | none => A.apply tiny x r tr
    | some al => A.applyAxpy tiny x y r al ali tr
  | dense A, tr => fun ax x y r ali =>
    match ax with
    | none => A.apply tiny x r tr
    | some al => A.applyAxpy tiny x y r al ali tr
  -- PowerRowMatrix / TupleMatrixRow
  | row f r, false => chain f.cols r.cols (go tiny f false) (go tiny r false)
  | row f r, true => split f.cols r.cols (go tiny f true) (go tiny r true)
  -- PowerColMatrix / TupleMatrix
  | col f r, false => split f.rows r.rows (go tiny f false) (go tiny r false)
  | col f r, true => chain f.rows r.rows (go tiny f true) (go tiny r true)
  -- PowerDiagMatrix
  | diag f r, false => split f.rows r.rows (onFirst f.cols (go tiny f false)) (onRest f.cols r.cols (go tiny r false))
  | diag f r, true => split f.cols r.cols (onFirst f.rows (go tiny f true)) (onRest f.rows r.rows (go tiny r true))
  -- SaddlePointMatrix: block_a, block_b (onto the same part of r), block_d
  | saddle a b d, false =>
    split a.rows d.rows (chain a.cols b.cols (go tiny a false) (go tiny b false)) (onFirst a.cols (go tiny d false))
  | saddle a b d, true =>
    split a.cols b.cols (chain a.rows d.rows (go tiny a true) (go tiny d true)) (onFirst a.rows (go tiny b true))

/-- the instance the driver runs -/
def goQ (M : MetaMat Rat) (tr : Bool) : MetaOp Rat := M.go (tinyRat epsQ) tr

end MetaMat
end FeatModel.LA
