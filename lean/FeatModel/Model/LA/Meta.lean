import FeatModel.Model.LA.Csr
import FeatModel.Model.LA.Bcsr
import FeatModel.Model.LA.Dense
import FeatModel.Model.LA.Cscr
import FeatModel.Model.LA.Banded
/-
Meta-matrices: `PowerRowMatrix` / `TupleMatrixRow` (`row`), `PowerColMatrix` / `TupleMatrix` (`col`),
`PowerDiagMatrix` / `TupleDiagMatrix` (`diag`), `PowerFullMatrix` (a `col` of `row`s) and `SaddlePointMatrix`
(`saddle`), with the first/rest recursion of kernel/lafem/power_*_matrix.hpp, tuple_matrix.hpp and
saddle_point_matrix.hpp.  The one-block specialisations (`PowerRowMatrix<Sub, 1>` …) only forward to `first()`
and are identified with their block.  Tuple/Power vectors are modelled by the concatenation of the pod arrays of
their leaves; `first()` / `rest()` are slices.
-/
namespace FeatModel.LA

inductive MetaMat (α : Type) where
  | csr (A : Csr α)
  | bcsr (A : Bcsr α)
  | dense (A : Dense α)
  | cscr (A : Cscr α)
  | banded (A : Banded α)
  | row (first rest : MetaMat α)        -- [first | rest]
  | col (first rest : MetaMat α)        -- [first ; rest]
  | diag (first rest : MetaMat α)       -- [first 0 ; 0 rest]
  | saddle (a b d : MetaMat α)          -- [a b ; d 0]

/-- one `apply` member seen as a function: `ax = none` is `apply(r, x)`, `ax = some alpha` is `apply(r, x, y, alpha)`;
    arguments `ax x y r alias`, `none` = abort -/
abbrev MetaOp (α : Type) := Option α → Array α → Array α → Array α → Bool → Option (Array α)

/-- `v.first()` / `v.rest()` of a Tuple/Power vector on the concatenated pod array -/
def slice (v : Array α) (off n : Nat) : Array α := v.extract off (off + n)

/-- `first().apply(r, x.first(), y, alpha); rest().apply(r, x.rest(), r, alpha);` – the blocks share the result vector,
    the second call is an axpy with `y` aliasing `r` (`alpha = 1` when the outer call is the plain `apply(r, x)`) -/
def chain [One α] (nIn1 nIn2 : Nat) (F R : MetaOp α) : MetaOp α := fun ax x y r ali =>
  match F ax (slice x 0 nIn1) y r ali with
  | none => none
  | some r1 => R (some (ax.getD 1)) (slice x nIn1 nIn2) r1 r1 true

/-- `first().apply(r.first(), x, y.first(), alpha); rest().apply(r.rest(), x, y.rest(), alpha);` -/
def split (nOut1 nOut2 : Nat) (F R : MetaOp α) : MetaOp α := fun ax x y r ali =>
  match F ax x (slice y 0 nOut1) (slice r 0 nOut1) ali with
  | none => none
  | some r1 =>
    match R ax x (slice y nOut1 nOut2) (slice r nOut1 nOut2) ali with
    | none => none
    | some r2 => some (r1 ++ r2)

/-- the operation sees only the first `n` entries of `x` (`x.first()` / `x.at<0>()`) -/
def onFirst (n : Nat) (F : MetaOp α) : MetaOp α := fun ax x y r ali => F ax (slice x 0 n) y r ali

/-- the operation sees only the entries `[off, off+n)` of `x` (`x.rest()`) -/
def onRest (off n : Nat) (F : MetaOp α) : MetaOp α := fun ax x y r ali => F ax (slice x off n) y r ali

namespace MetaMat
variable {α : Type}

/-- pod row / column counts -/
def rows : MetaMat α → Nat
  | csr A => A.rows
  | bcsr A => A.rows * A.bh
  | dense A => A.rows
  | cscr A => A.rows
  | banded A => A.rows
  | row f _ => f.rows
  | col f r => f.rows + r.rows
  | diag f r => f.rows + r.rows
  | saddle a _ d => a.rows + d.rows

def cols : MetaMat α → Nat
  | csr A => A.cols
  | bcsr A => A.cols * A.bw
  | dense A => A.cols
  | cscr A => A.cols
  | banded A => A.cols
  | row f r => f.cols + r.cols
  | col f _ => f.cols
  | diag f r => f.cols + r.cols
  | saddle a b _ => a.cols + b.cols

/-- well-formed leaves, matching block dimensions -/
def wf : MetaMat α → Bool
  | csr A => A.wf
  | bcsr A => A.wf && decide (0 < A.bh) && decide (0 < A.bw)
  | dense A => A.wf && decide (0 < A.rows) && decide (0 < A.cols)
  | cscr A => A.wf
  | banded A => A.wf && decide (0 < A.rows)
  | row f r => f.wf && r.wf && f.rows == r.rows
  | col f r => f.wf && r.wf && f.cols == r.cols
  | diag f r => f.wf && r.wf
  | saddle a b d => a.wf && b.wf && d.wf && a.rows == b.rows && a.cols == d.cols

/-- no banded leaf: the banded format does not offer the transposed product -/
def noBanded : MetaMat α → Bool
  | banded _ => false
  | row f r => f.noBanded && r.noBanded
  | col f r => f.noBanded && r.noBanded
  | diag f r => f.noBanded && r.noBanded
  | saddle a b d => a.noBanded && b.noBanded && d.noBanded
  | _ => true

/-- dense meaning: the block matrix of the parts -/
def entry [Zero α] [Add α] : MetaMat α → Nat → Nat → α
  | csr A, i, j => A.entry i j
  | bcsr A, i, j => A.entry i j
  | dense A, i, j => A.entry i j
  | cscr A, i, j => A.entry i j
  | banded A, i, j => A.entry i j
  | row f r, i, j => if j < f.cols then f.entry i j else r.entry i (j - f.cols)
  | col f r, i, j => if i < f.rows then f.entry i j else r.entry (i - f.rows) j
  | diag f r, i, j =>
    if i < f.rows then (if j < f.cols then f.entry i j else 0)
    else (if j < f.cols then 0 else r.entry (i - f.rows) (j - f.cols))
  | saddle a b d, i, j =>
    if i < a.rows then (if j < a.cols then a.entry i j else b.entry i (j - a.cols))
    else (if j < a.cols then d.entry (i - a.rows) j else 0)

def toDense [Zero α] [Add α] (M : MetaMat α) : List (List α) :=
  (List.range M.rows).map fun i => (List.range M.cols).map fun j => M.entry i j

/-- all four `apply` members of a meta-matrix (`tr` = transposed) -/
def go [Zero α] [One α] [Add α] [Mul α] [Div α] (tiny : α → Bool) : MetaMat α → Bool → MetaOp α
  | csr A, tr => fun ax x y r ali =>
    match ax with
    | none => A.apply tiny x r tr
    | some al => A.applyAxpy tiny x y r al ali tr
  | bcsr A, tr => fun ax x y r ali =>
    match ax with
    | none => A.apply tiny x r tr
    | some al => A.applyAxpy tiny x y r al ali tr
  | dense A, tr => fun ax x y r ali =>
    match ax with
    | none => A.apply tiny x r tr
    | some al => A.applyAxpy tiny x y r al ali tr
  | cscr A, tr => fun ax x y r ali =>
    match ax with
    | none => A.apply tiny x r tr
    | some al => A.applyAxpy tiny x y r al ali tr
  | banded A, tr => fun ax x y r ali =>
    match ax with
    | none => A.apply tiny x r tr
    | some al => A.applyAxpy tiny x y r al ali tr
  -- PowerRowMatrix / TupleMatrixRow
  | row f r, false => chain f.cols r.cols (go tiny f false) (go tiny r false)
  | row f r, true => split f.cols r.cols (go tiny f true) (go tiny r true)
  -- PowerColMatrix / TupleMatrix
  | col f r, false => split f.rows r.rows (go tiny f false) (go tiny r false)
  | col f r, true => chain f.rows r.rows (go tiny f true) (go tiny r true)
  -- PowerDiagMatrix
  | diag f r, false => split f.rows r.rows (onFirst f.cols (go tiny f false)) (onRest f.cols r.cols (go tiny r false))
  | diag f r, true => split f.cols r.cols (onFirst f.rows (go tiny f true)) (onRest f.rows r.rows (go tiny r true))
  -- SaddlePointMatrix: block_a, block_b (onto the same part of r), block_d
  | saddle a b d, false =>
    split a.rows d.rows (chain a.cols b.cols (go tiny a false) (go tiny b false)) (onFirst a.cols (go tiny d false))
  | saddle a b d, true =>
    split a.cols b.cols (chain a.rows d.rows (go tiny a true) (go tiny d true)) (onFirst a.rows (go tiny b true))

/-- the instance the driver runs -/
def goQ (M : MetaMat Rat) (tr : Bool) : MetaOp Rat := M.go (tinyRat epsQ) tr

end MetaMat
end FeatModel.LA

/-!
### Tuple/Power vectors as trees

`go` above works on the concatenated pod arrays with explicit offsets – this is literally what the overloads with flat
`DenseVector` operands do (`DenseVector r_first(r, first().rows(), 0), r_rest(r, rest().rows(), first().rows())` …).
The overloads with `TupleVector` / `PowerVector` operands navigate with `first()` / `rest()` instead; `goS` models them on
vector trees.  `FeatModel.Lemmas.C01MetaVec` proves that both agree through `flatten`.
-/
namespace FeatModel.LA

inductive MetaVec (α : Type) where
  | leaf (v : Array α)
  | node (first rest : MetaVec α)

namespace MetaVec
variable {α : Type}
def flatten : MetaVec α → Array α
  | leaf v => v
  | node a b => a.flatten ++ b.flatten
end MetaVec

abbrev MetaOpS (α : Type) := Option α → MetaVec α → MetaVec α → MetaVec α → Bool → Option (MetaVec α)

/-- `first().apply(r, x.first(), y, alpha); rest().apply(r, x.rest(), r, alpha);` -/
def chainS [One α] (F R : MetaOpS α) : MetaOpS α := fun ax x y r ali =>
  match x with
  | .node x1 x2 =>
    match F ax x1 y r ali with
    | none => none
    | some r1 => R (some (ax.getD 1)) x2 r1 r1 true
  | .leaf _ => none

/-- `first().apply(r.first(), x, y.first(), alpha); rest().apply(r.rest(), x, y.rest(), alpha);` -/
def splitS (F R : MetaOpS α) : MetaOpS α := fun ax x y r ali =>
  match r, y with
  | .node r1 r2, .node y1 y2 =>
    match F ax x y1 r1 ali with
    | none => none
    | some r1' =>
      match R ax x y2 r2 ali with
      | none => none
      | some r2' => some (.node r1' r2')
  | _, _ => none

def onFirstS (F : MetaOpS α) : MetaOpS α := fun ax x y r ali =>
  match x with
  | .node x1 _ => F ax x1 y r ali
  | .leaf _ => none

def onRestS (F : MetaOpS α) : MetaOpS α := fun ax x y r ali =>
  match x with
  | .node _ x2 => F ax x2 y r ali
  | .leaf _ => none

/-- a leaf container called with leaf vectors -/
def leafS (f : MetaOp α) : MetaOpS α := fun ax x y r ali =>
  match x, y, r with
  | .leaf x, .leaf y, .leaf r => (f ax x y r ali).map .leaf
  | _, _, _ => none

namespace MetaMat
variable {α : Type}

/-- the members with Tuple/PowerVector operands -/
def goS [Zero α] [One α] [Add α] [Mul α] [Div α] (tiny : α → Bool) : MetaMat α → Bool → MetaOpS α
  | csr A, tr => leafS (go tiny (csr A) tr)
  | bcsr A, tr => leafS (go tiny (bcsr A) tr)
  | dense A, tr => leafS (go tiny (dense A) tr)
  | cscr A, tr => leafS (go tiny (cscr A) tr)
  | banded A, tr => leafS (go tiny (banded A) tr)
  | row f r, false => chainS (goS tiny f false) (goS tiny r false)
  | row f r, true => splitS (goS tiny f true) (goS tiny r true)
  | col f r, false => splitS (goS tiny f false) (goS tiny r false)
  | col f r, true => chainS (goS tiny f true) (goS tiny r true)
  | diag f r, false => splitS (onFirstS (goS tiny f false)) (onRestS (goS tiny r false))
  | diag f r, true => splitS (onFirstS (goS tiny f true)) (onRestS (goS tiny r true))
  | saddle a b d, false => splitS (chainS (goS tiny a false) (goS tiny b false)) (onFirstS (goS tiny d false))
  | saddle a b d, true => splitS (chainS (goS tiny a true) (goS tiny d true)) (onFirstS (goS tiny b true))

/-- the vector `v` has the shape of the compatible L-vector (`tr = false`: result side) / R-vector of `M` -/
def fits : MetaMat α → (left : Bool) → MetaVec α → Bool
  | row f r, true, v => f.fits true v && r.fits true v
  | row f r, false, .node a b => f.fits false a && r.fits false b
  | col f r, true, .node a b => f.fits true a && r.fits true b
  | col f r, false, v => f.fits false v && r.fits false v
  | diag f r, s, .node a b => f.fits s a && r.fits s b
  | saddle a b d, true, .node v w => a.fits true v && d.fits true w && b.fits true v
  | saddle a b d, false, .node v w => a.fits false v && b.fits false w && d.fits false v
  | csr A, s, .leaf v => v.size == (if s then A.rows else A.cols)
  | bcsr A, s, .leaf v => v.size == (if s then A.rows * A.bh else A.cols * A.bw)
  | dense A, s, .leaf v => v.size == (if s then A.rows else A.cols)
  | cscr A, s, .leaf v => v.size == (if s then A.rows else A.cols)
  | banded A, s, .leaf v => v.size == (if s then A.rows else A.cols)
  | _, _, _ => false

/-- the compatible vector with the entries of the flat array `v` (`create_vector_l/r` + fill) -/
def unflatten : MetaMat α → (left : Bool) → Array α → MetaVec α
  | row f _, true, v => f.unflatten true v
  | row f r, false, v => .node (f.unflatten false (slice v 0 f.cols)) (r.unflatten false (slice v f.cols r.cols))
  | col f r, true, v => .node (f.unflatten true (slice v 0 f.rows)) (r.unflatten true (slice v f.rows r.rows))
  | col f _, false, v => f.unflatten false v
  | diag f r, true, v => .node (f.unflatten true (slice v 0 f.rows)) (r.unflatten true (slice v f.rows r.rows))
  | diag f r, false, v => .node (f.unflatten false (slice v 0 f.cols)) (r.unflatten false (slice v f.cols r.cols))
  | saddle a _ d, true, v => .node (a.unflatten true (slice v 0 a.rows)) (d.unflatten true (slice v a.rows d.rows))
  | saddle a b _, false, v => .node (a.unflatten false (slice v 0 a.cols)) (b.unflatten false (slice v a.cols b.cols))
  | _, _, v => .leaf v

def goSQ (M : MetaMat Rat) (tr : Bool) : MetaOpS Rat := M.goS (tinyRat epsQ) tr

end MetaMat
end FeatModel.LA
