/-
Model of the LAFEM vector filters (property C06), core Lean only.

* `UnitF`   = `LAFEM::UnitFilter`          (kernel/lafem/unit_filter.hpp, arch/unit_filter_generic.hpp)
* `UnitBF`  = `LAFEM::UnitFilterBlocked`   (unit_filter_blocked.hpp, arch/unit_filter_blocked_generic.hpp)
* `SlipF`   = `LAFEM::SlipFilter`          (slip_filter.hpp, arch/slip_filter_generic.hpp)
* `MeanF`   = `LAFEM::MeanFilter`          (mean_filter.hpp),  `MeanBF` = `LAFEM::MeanFilterBlocked`
              (mean_filter_blocked.hpp as of the fix 45e34adcb: every volume component is tested)
* `Flt`     = the composition tree: `FilterChain` / `FilterSequence` (members applied in order to the same
              vector) and `TupleFilter` / `PowerFilter` (member `k` applied to component `k`), `NoneFilter`.

Vectors are the pod arrays (`List α`); a blocked vector with block size `b` stores block `i`, component `j`
at position `b*i + j`.  `none` = the real code aborts (XASSERT / division by zero at the exact scalar).
The filter stores its entries in a `SparseVector`: `add(i, x)` appends, the first read access sorts stably by
index and keeps the *last* added entry of equal indices (`normalize`).
-/
namespace FeatModel.LA.Filter

/-! ### the entry list of the underlying `SparseVector(Blocked)` -/

/-- one `add` followed by the (stable, last-wins) sort -/
def insertEntry {β : Type} (e : Nat × β) : List (Nat × β) → List (Nat × β)
  | [] => [e]
  | h :: t => if h.1 < e.1 then h :: insertEntry e t else if h.1 = e.1 then e :: t else e :: h :: t

/-- the stored `(index, value)` arrays after a sequence of `add`s -/
def normalize {β : Type} (adds : List (Nat × β)) : List (Nat × β) :=
  adds.foldl (fun l e => insertEntry e l) []

/-- `for(i < ue) v[idx[i]] = val[i]` -/
def scatter {α : Type} (es : List (Nat × α)) (v : List α) : List α :=
  es.foldl (fun v e => v.set e.1 e.2) v

/-- the last entry of `es` that writes position `i` -/
def lastWrite {α : Type} : List (Nat × α) → Nat → Option α
  | [], _ => none
  | e :: t, i => match lastWrite t i with
    | some x => some x
    | none => if e.1 = i then some e.2 else none

inductive Mode | rhs | sol | defect | cor
  deriving DecidableEq

/-! ### UnitFilter -/

structure UnitF (α : Type) where
  size : Nat
  es : List (Nat × α)

namespace UnitF
variable {α : Type}

/-- `UnitFilter(n)` followed by `add(i, x)` for every element of `adds` -/
def ofAdds (n : Nat) (adds : List (Nat × α)) : UnitF α := { size := n, es := normalize adds }

/-- `UnitFilter(n, values, indices)`: the arrays are taken as they are (`is_sorted = true`); `XASSERT(n != 0)` -/
def ofArrays (n : Nat) (es : List (Nat × α)) : Option (UnitF α) :=
  if n = 0 then none else some { size := n, es := es }

/-- `filter_rhs` = `filter_sol` -/
def filterRhs (f : UnitF α) (v : List α) : Option (List α) :=
  if f.es.isEmpty then some v
  else if f.size != v.length then none
  else some (scatter f.es v)

/-- `filter_def` = `filter_cor` -/
def filterDef [Zero α] (f : UnitF α) (v : List α) : Option (List α) :=
  if f.es.isEmpty then some v
  else if f.size != v.length then none
  else some (scatter (f.es.map fun e => (e.1, (0 : α))) v)

def apply [Zero α] (m : Mode) (f : UnitF α) (v : List α) : Option (List α) :=
  match m with
  | .rhs | .sol => f.filterRhs v
  | .defect | .cor => f.filterDef v

end UnitF

/-! ### UnitFilterBlocked -/

structure UnitBF (α : Type) where
  bs : Nat
  size : Nat
  /-- `_ignore_nans && Math::isnan(x)` -/
  skip : α → Bool
  es : List (Nat × List α)

/-- the pod-level writes of the blocked kernels, in the order of the loops (`i` outer, `j` inner) -/
def podEntries {α : Type} [Zero α] (bs : Nat) (skip : α → Bool) (es : List (Nat × List α)) : List (Nat × α) :=
  es.flatMap fun e => (List.range bs).filterMap fun j =>
    let x := e.2.getD j 0
    if skip x then none else some (bs * e.1 + j, x)

namespace UnitBF
variable {α : Type}

def filterRhs [Zero α] (f : UnitBF α) (v : List α) : Option (List α) :=
  if f.es.isEmpty then some v
  else if f.size * f.bs != v.length then none
  else some (scatter (podEntries f.bs f.skip f.es) v)

def filterDef [Zero α] (f : UnitBF α) (v : List α) : Option (List α) :=
  if f.es.isEmpty then some v
  else if f.size * f.bs != v.length then none
  else some (scatter ((podEntries f.bs f.skip f.es).map fun e => (e.1, (0 : α))) v)

def apply [Zero α] (m : Mode) (f : UnitBF α) (v : List α) : Option (List α) :=
  match m with
  | .rhs | .sol => f.filterRhs v
  | .defect | .cor => f.filterDef v

end UnitBF

/-! ### SlipFilter -/

/-- `DT_ s(0); for(j) s += x[j] * y[j]` -/
def dotL {α : Type} [Zero α] [Add α] [Mul α] (x y : List α) : α :=
  (List.zipWith (fun a b => a * b) x y).foldl (fun s t => s + t) 0

/-- components `b*i .. b*i + b - 1` -/
def readBlock {α : Type} [Zero α] (bs i : Nat) (v : List α) : List α :=
  (List.range bs).map fun j => v.getD (bs * i + j) 0

def blockEntries {α : Type} (bs i : Nat) (blk : List α) : List (Nat × α) :=
  (List.range blk.length).zipWith (fun j x => (bs * i + j, x)) blk

def writeBlock {α : Type} (bs i : Nat) (blk : List α) (v : List α) : List α :=
  scatter (blockEntries bs i blk) v

structure SlipF (α : Type) where
  bs : Nat
  size : Nat
  es : List (Nat × List α)

namespace SlipF
variable {α : Type} [Zero α] [Add α] [Mul α] [Sub α] [Div α] [DecidableEq α]

/-- the normal vector stored for an entry, as `bs` components -/
def normal (bs : Nat) (e : Nat × List α) : List α := (List.range bs).map fun j => e.2.getD j 0

/-- one iteration of the kernel loop: `sp = (v_i · ν) / (ν · ν); v_i -= sp ν`.
    A zero normal divides by zero (`none`). -/
def step (bs : Nat) (v : List α) (e : Nat × List α) : Option (List α) :=
  let nu := normal bs e
  let blk := readBlock bs e.1 v
  let scal := dotL nu nu
  if scal = 0 then none
  else
    let sp := dotL blk nu / scal
    some (writeBlock bs e.1 (List.zipWith (fun b n => b - sp * n) blk nu) v)

def run (bs : Nat) : List (Nat × List α) → List α → Option (List α)
  | [], v => some v
  | e :: t, v => match step bs v e with
    | none => none
    | some v' => run bs t v'

/-- all four `filter_*` members run the same kernel -/
def filter (f : SlipF α) (v : List α) : Option (List α) :=
  if f.size = 0 then some v
  else if f.size * f.bs != v.length then none
  else run f.bs f.es v

end SlipF

/-! ### MeanFilter -/

/-- `r[i] += a * x[i]` -/
def axpyL {α : Type} [Add α] [Mul α] (v x : List α) (a : α) : List α :=
  List.zipWith (fun r xi => r + a * xi) v x

structure MeanF (α : Type) where
  prim : List α
  dual : List α
  vol : α
  sol : α

namespace MeanF
variable {α : Type} [Zero α] [Add α] [Mul α] [Sub α] [Neg α] [Div α]

/-- `MeanFilter(prim, dual, sol_mean)`: `volume = prim.dot(dual)`, `XASSERT(volume > eps)` unless empty -/
def mk3 (gtEps : α → Bool) (prim dual : List α) (sol : α) : Option (MeanF α) :=
  if prim.length != dual.length then none
  else
    let vol := dotL prim dual
    if !prim.isEmpty && !gtEps vol then none
    else some { prim := prim, dual := dual, vol := vol, sol := sol }

/-- `MeanFilter(prim, dual, sol_mean, volume)` -/
def mk4 (gtEps : α → Bool) (prim dual : List α) (sol vol : α) : Option (MeanF α) :=
  if !prim.isEmpty && !gtEps vol then none
  else some { prim := prim, dual := dual, vol := vol, sol := sol }

/-- `vector.axpy(x, a)` where `a` was computed from `vector.dot(w)`; both check the sizes -/
def dotAxpy (v w x : List α) (a : α → α) : Option (List α) :=
  if v.length != w.length then none
  else if v.length != x.length then none
  else some (axpyL v x (a (dotL v w)))

def filterRhs (f : MeanF α) (v : List α) : Option (List α) :=
  if f.prim.isEmpty then some v else dotAxpy v f.prim f.dual fun d => (-d) / f.vol

def filterSol (f : MeanF α) (v : List α) : Option (List α) :=
  if f.prim.isEmpty then some v else dotAxpy v f.dual f.prim fun d => f.sol - d / f.vol

def filterCor (f : MeanF α) (v : List α) : Option (List α) :=
  if f.prim.isEmpty then some v else dotAxpy v f.dual f.prim fun d => (-d) / f.vol

def apply (m : Mode) (f : MeanF α) (v : List α) : Option (List α) :=
  match m with
  | .rhs | .defect => f.filterRhs v
  | .sol => f.filterSol v
  | .cor => f.filterCor v

end MeanF

/-! ### Global::MeanFilter (kernel/global/mean_filter.hpp): the mean filter of a distributed vector.  With a
communicator and a frequency vector the dot products are the frequency-weighted `triple_dot`s followed by an
allreduce (the sum over one rank here); there is no solution mean and NO volume check (commented out in the source),
so a vanishing volume divides by zero. -/

/-- `freq.triple_dot(x, y)`; exact scalars, so the association of the three factors does not matter -/
def tdotL {α : Type} [Zero α] [Add α] [Mul α] (f x y : List α) : α :=
  dotL (List.zipWith (fun a b => a * b) f x) y

structure GMeanF (α : Type) where
  prim : List α
  dual : List α
  freq : List α
  /-- `!freq.empty() && comm != nullptr` -/
  useFreq : Bool
  vol : α

namespace GMeanF
variable {α : Type} [Zero α] [Add α] [Mul α] [Neg α] [Div α] [DecidableEq α]

/-- the weighted dot product of the filter with both size assertions of `dot` / `triple_dot` -/
def wdot (freq : List α) (useFreq : Bool) (x y : List α) : Option α :=
  if useFreq then
    if x.length != freq.length || y.length != freq.length then none else some (tdotL freq x y)
  else
    if y.length != x.length then none else some (dotL x y)

def make (comm : Bool) (prim dual freq : List α) : Option (GMeanF α) :=
  let useFreq := !freq.isEmpty && comm
  match wdot freq useFreq prim dual with
  | none => none
  | some vol => some { prim := prim, dual := dual, freq := freq, useFreq := useFreq, vol := vol }

/-- `integ = <vector, w>; vector.axpy(x, -integ / volume)` -/
def dotAxpy (f : GMeanF α) (v w x : List α) : Option (List α) :=
  if f.prim.isEmpty then some v
  else match wdot f.freq f.useFreq v w with
    | none => none
    | some integ =>
      if f.vol = 0 then none
      else if v.length != x.length then none
      else some (axpyL v x ((-integ) / f.vol))

/-- `filter_rhs` = `filter_def` -/
def filterRhs (f : GMeanF α) (v : List α) : Option (List α) := f.dotAxpy v f.prim f.dual
/-- `filter_sol` = `filter_cor` -/
def filterSol (f : GMeanF α) (v : List α) : Option (List α) := f.dotAxpy v f.dual f.prim

def apply (m : Mode) (f : GMeanF α) (v : List α) : Option (List α) :=
  match m with
  | .rhs | .defect => f.filterRhs v
  | .sol | .cor => f.filterSol v

end GMeanF

/-! ### MeanFilterBlocked -/

/-- component `j` of every block -/
def col {α : Type} [Zero α] (bs j : Nat) (x : List α) : List α :=
  (List.range (x.length / bs)).map fun i => x.getD (i * bs + j) 0

/-- `dot_blocked`: one accumulator per component -/
def dotBlocked {α : Type} [Zero α] [Add α] [Mul α] (bs : Nat) (x y : List α) : List α :=
  (List.range bs).map fun j => dotL (col bs j x) (col bs j y)

/-- `axpy_blocked`: `r[i][j] += a[j] * x[i][j]` -/
def axpyBlocked {α : Type} [Zero α] [Add α] [Mul α] (bs : Nat) (v x a : List α) : List α :=
  (List.zipWith (fun r xi => (r, xi)) v x).zipIdx.map fun p => p.1.1 + a.getD (p.2 % bs) 0 * p.1.2

structure MeanBF (α : Type) where
  bs : Nat
  prim : List α
  dual : List α
  vol : List α
  sol : List α

namespace MeanBF
variable {α : Type} [Zero α] [One α] [Add α] [Mul α] [Sub α] [Neg α] [Div α] [DecidableEq α]

/-- `for(i < BlockSize_) XASSERTM(Math::abs(_volume[i]) > Math::eps<DataType>(), ...)`: every component is tested
    (`absGtEps x` is `|x| > eps`); so a successfully constructed non-empty filter has no vanishing volume component -/
def volOk (absGtEps : α → Bool) (bs : Nat) (vol : List α) : Bool :=
  (List.range bs).all fun i => absGtEps (vol.getD i 0)

def mk3 (absGtEps : α → Bool) (bs : Nat) (prim dual sol : List α) : Option (MeanBF α) :=
  if prim.length != dual.length then none
  else
    let vol := dotBlocked bs prim dual
    if !prim.isEmpty && !volOk absGtEps bs vol then none
    else some { bs := bs, prim := prim, dual := dual, vol := vol, sol := sol }

def mk4 (absGtEps : α → Bool) (bs : Nat) (prim dual sol vol : List α) : Option (MeanBF α) :=
  if !prim.isEmpty && !volOk absGtEps bs vol then none
  else some { bs := bs, prim := prim, dual := dual, vol := vol, sol := sol }

/-- `tmp = vector.dot_blocked(w); tmp(i) = a i tmp(i); vector.axpy_blocked(x, tmp)`.  The loop divides by
    `volume(i)`; the guard (division by zero = `none`) cannot fire for a filter built by `mk3` / `mk4`
    (`C06.meanB_constructed_divisions_defined`) -/
def dotAxpy (f : MeanBF α) (v w x : List α) (a : Nat → α → α) : Option (List α) :=
  if v.length != w.length then none
  else if f.vol.any (fun c => c = 0) then none
  else if v.length != x.length then none
  else
    let tmp := (dotBlocked f.bs v w).zipIdx.map fun p => a p.2 p.1
    some (axpyBlocked f.bs v x tmp)

def filterRhs (f : MeanBF α) (v : List α) : Option (List α) :=
  if f.prim.isEmpty then some v else f.dotAxpy v f.prim f.dual fun i d => d / (-(f.vol.getD i 0))

def filterSol (f : MeanBF α) (v : List α) : Option (List α) :=
  if f.prim.isEmpty then some v
  else f.dotAxpy v f.dual f.prim fun i d => f.sol.getD i 0 - d * (1 / f.vol.getD i 0)

def filterCor (f : MeanBF α) (v : List α) : Option (List α) :=
  if f.prim.isEmpty then some v else f.dotAxpy v f.dual f.prim fun i d => d / (-(f.vol.getD i 0))

def apply (m : Mode) (f : MeanBF α) (v : List α) : Option (List α) :=
  match m with
  | .rhs | .defect => f.filterRhs v
  | .sol => f.filterSol v
  | .cor => f.filterCor v

end MeanBF

/-! ### compositions -/

/-- `DenseVector(Blocked)` leaves, `TupleVector` / `PowerVector` nodes -/
inductive Vec (α : Type) where
  | leaf (data : List α)
  | node (subs : List (Vec α))

inductive Flt (α : Type) where
  | unit (f : UnitF α)
  | unitB (f : UnitBF α)
  | slip (f : SlipF α)
  | mean (f : MeanF α)
  | meanB (f : MeanBF α)
  | none
  /-- `FilterChain<F1, .., Fm>` and `FilterSequence<F>` -/
  | chain (fs : List (Flt α))
  /-- `TupleFilter<F1, .., Fm>` and `PowerFilter<F, m>` -/
  | tuple (fs : List (Flt α))

section Apply
variable {α : Type} [Zero α] [One α] [Add α] [Mul α] [Sub α] [Neg α] [Div α] [DecidableEq α]

mutual
/-- `filter.filter_<mode>(vector)`; a filter / vector type mismatch does not compile in C++ (`none` here) -/
def Flt.apply (m : Mode) : Flt α → Vec α → Option (Vec α)
  | .unit f, .leaf v => (f.apply m v).map Vec.leaf
  | .unitB f, .leaf v => (f.apply m v).map Vec.leaf
  | .slip f, .leaf v => (f.filter v).map Vec.leaf
  | .mean f, .leaf v => (f.apply m v).map Vec.leaf
  | .meanB f, .leaf v => (f.apply m v).map Vec.leaf
  | .none, v => some v
  | .chain fs, v => applyChain m fs v
  | .tuple fs, .node vs => (applyTuple m fs vs).map Vec.node
  | _, _ => Option.none
/-- `first().filter(v); rest().filter(v)` -/
def applyChain (m : Mode) : List (Flt α) → Vec α → Option (Vec α)
  | [], v => some v
  | f :: fs, v => match f.apply m v with
    | Option.none => Option.none
    | some v' => applyChain m fs v'
/-- `first().filter(v.first()); rest().filter(v.rest())` -/
def applyTuple (m : Mode) : List (Flt α) → List (Vec α) → Option (List (Vec α))
  | [], [] => some []
  | f :: fs, v :: vs => match f.apply m v, applyTuple m fs vs with
    | some a, some b => some (a :: b)
    | _, _ => Option.none
  | _, _ => Option.none
end

/-! ### abort classes: WHY a call aborted (`"ABORT"` = an XASSERT fired, `"ABORT:div0"` = the exact scalar divided by
zero; floating point would continue with inf/NaN there).  Only meaningful when the corresponding `apply` is `none`;
the harness prints the same two classes, so a constructor assertion and a later division are told apart. -/

/-- slip filter: after the size assertion the only way to fail is a zero normal -/
def SlipF.failClass (f : SlipF α) (v : List α) : String :=
  if f.size * f.bs != v.length then "ABORT" else "ABORT:div0"

/-- blocked mean filter: size assertion of `dot_blocked`, then the divisions, then the assertion of `axpy_blocked` -/
def MeanBF.failClass (f : MeanBF α) (m : Mode) (v : List α) : String :=
  let w := match m with
    | .rhs | .defect => f.prim
    | .sol | .cor => f.dual
  if v.length != w.length then "ABORT"
  else if f.vol.any (fun c => c = 0) then "ABORT:div0" else "ABORT"

/-- global mean filter: assertions of the products, then the division by the volume, then the assertion of `axpy` -/
def GMeanF.failClass (f : GMeanF α) (m : Mode) (v : List α) : String :=
  let w := match m with
    | .rhs | .defect => f.prim
    | .sol | .cor => f.dual
  match GMeanF.wdot f.freq f.useFreq v w with
  | Option.none => "ABORT"
  | some _ => if f.vol = 0 then "ABORT:div0" else "ABORT"

mutual
def Flt.failClass (m : Mode) : Flt α → Vec α → String
  | .slip f, .leaf v => f.failClass v
  | .meanB f, .leaf v => f.failClass m v
  | .chain fs, v => chainFail m fs v
  | .tuple fs, .node vs => tupleFail m fs vs
  | _, _ => "ABORT"
/-- the class of the first member that aborts -/
def chainFail (m : Mode) : List (Flt α) → Vec α → String
  | [], _ => "ABORT"
  | f :: fs, v => match f.apply m v with
    | Option.none => f.failClass m v
    | some v' => chainFail m fs v'
def tupleFail (m : Mode) : List (Flt α) → List (Vec α) → String
  | f :: fs, v :: vs => match f.apply m v with
    | Option.none => f.failClass m v
    | some _ => tupleFail m fs vs
  | _, _ => "ABORT"
end

end Apply

/-- the leaves in flattening order -/
def Vec.leaves {α : Type} : Vec α → List (List α)
  | .leaf d => [d]
  | .node subs => leavesList subs
where leavesList : List (Vec α) → List (List α)
  | [] => []
  | v :: vs => v.leaves ++ leavesList vs

end FeatModel.LA.Filter
