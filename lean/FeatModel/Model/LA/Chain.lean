import FeatModel.Model.LA.Convert
import FeatModel.Model.LA.Clone
/-
C02: chains of operations on a container of any format (what one case line of harness/c02 executes).
`Mat.step` is the function the driver runs for every operation token; `Mat.run` folds it over a list.
Core Lean only.
-/
namespace FeatModel.LA

namespace Cscr
variable {α : Type}

def isArrayless (A : Cscr α) : Bool := A.rowPtr.isEmpty && A.colInd.isEmpty && A.val.isEmpty && A.rowNumbers.isEmpty

/-- column indices strictly increasing inside every stored row -/
def sortedRows (A : Cscr α) : Bool :=
  (List.range A.usedRows).all fun i =>
    (List.range' (A.rowPtr.getD i 0) (A.rowPtr.getD (i + 1) 0 - A.rowPtr.getD i 0 - 1)).all fun k =>
      A.colInd.getD k 0 < A.colInd.getD (k + 1) 0

def valid (A : Cscr α) : Bool := A.isArrayless || (A.wf && A.sortedRows)

end Cscr

/-- a container of one of the five storage formats -/
inductive Mat (α : Type) where
  | csr (A : Csr α)
  | banded (A : Banded α)
  | cscr (A : Cscr α)
  | dense (A : Dense α)
  | bcsr (A : Bcsr α)

/-- the operations of the harness' op language -/
inductive Op where
  | tocsr | tobanded | tocscr
  | clone (m : CloneMode)
  | layout | graph
  | tr | tri
  | perm (p q : Array Nat)
  | it | dt

/-- outcome of one operation: a new container, a (specified) abort, or "no such operation for this format" -/
inductive Res (α : Type) where
  | ok (m : Mat α)
  | abort
  | bad

namespace Mat
variable {α : Type}

/-- scalar dimensions -/
def rows : Mat α → Nat
  | .csr A => A.rows | .banded A => A.rows | .cscr A => A.rows | .dense A => A.rows | .bcsr A => A.rows * A.bh
def cols : Mat α → Nat
  | .csr A => A.cols | .banded A => A.cols | .cscr A => A.cols | .dense A => A.cols | .bcsr A => A.cols * A.bw

/-- the mathematical matrix -/
def entry [Zero α] [Add α] : Mat α → Nat → Nat → α
  | .csr A => A.entry | .banded A => A.entry | .cscr A => A.entry | .dense A => A.entry | .bcsr A => A.entry

/-- structurally valid layout of whatever format -/
def valid : Mat α → Bool
  | .csr A => A.valid
  | .banded A => A.wf
  | .cscr A => A.valid
  | .dense A => A.wf
  | .bcsr A => A.valid && decide (0 < A.bh) && decide (0 < A.bw)

/-- one operation (clone / layout / graph rebuild / type round trips yield a container with equal arrays; what is
    shared with the source is the business of `Heap.clone`) -/
def step [Zero α] (m : Mat α) : Op → Res α
  | .tocsr =>
    match m with
    | .csr A => .ok (.csr A)
    | .banded B => .ok (.csr B.toCsr)
    | .bcsr B => .ok (.csr B.toCsr)
    | .cscr B => match B.toCsr with
      | some A => .ok (.csr A)
      | none => .abort
    | .dense _ => .bad
  | .tobanded =>
    match m with
    | .csr A => match A.toBanded with
      | some B => .ok (.banded B)
      | none => .abort
    | .banded B => .ok (.banded B)
    | _ => .bad
  | .tocscr =>
    match m with
    | .csr A => .ok (.cscr A.toCscr)
    | .cscr A => .ok (.cscr A)
    | _ => .bad
  | .clone _ => .ok m
  | .layout =>
    match m with
    | .dense _ => .bad
    | _ => .ok m
  | .graph =>
    match m with
    | .csr A => .ok (.csr A)
    | _ => .bad
  | .tr =>
    match m with
    | .csr A => .ok (.csr A.transpose)
    | .dense A => .ok (.dense A.transpose)
    | .bcsr A => .ok (.bcsr A.transpose)
    | _ => .bad
  | .tri =>
    match m with
    | .csr A => .ok (.csr A.transpose)
    | .dense A => .ok (.dense A.transpose)
    | _ => .bad
  | .perm p q =>
    match m with
    | .csr A => match A.permute p q with
      | some B => .ok (.csr B)
      | none => .abort
    | _ => .bad
  | .it => .ok m
  | .dt =>
    match m with
    | .csr _ | .dense _ | .banded _ => .ok m
    | _ => .bad

/-- a chain: `none` as soon as one operation aborts or does not exist -/
def run [Zero α] : List Op → Mat α → Option (Mat α)
  | [], m => some m
  | o :: os, m => match m.step o with
    | .ok m' => run os m'
    | _ => none

end Mat

/-! ### abort freedom: the exact per-step precondition, and the failure classes of the code as it is -/

/-- why one operation of the real code does not yield a container -/
inductive Fail where
  | abortD10       -- CSR::convert(CSCR) of a CSCR matrix without entries (assertion used_elements > 0; open finding D10)
  | abortD7        -- Banded::convert(CSR): CSR matrix without entries (assertion; open finding D7)
  | abortPermSize  -- permute: a permutation whose size is not the matrix dimension (specified assertion)
  | crashD5        -- Graph(as_is, csr) of a matrix without entries and with rows (std::out_of_range; open finding D5)
  | notApplicable  -- the format has no such member
  deriving DecidableEq, Repr

namespace Mat
variable {α : Type}

/-- the failure class of `m.op`, read off the operand alone (format, emptiness, sizes): `none` = the operation
    yields a container -/
def failure (m : Mat α) : Op → Option Fail
  | .tocsr =>
    match m with
    | .cscr B => if B.usedElements = 0 then some .abortD10 else none
    | .dense _ => some .notApplicable
    | _ => none
  | .tobanded =>
    match m with
    | .csr A => if A.usedElements = 0 then some .abortD7 else none
    | .banded _ => none
    | _ => some .notApplicable
  | .tocscr =>
    match m with
    | .csr _ => none
    | .cscr _ => none
    | _ => some .notApplicable
  | .clone _ => none
  | .layout =>
    match m with
    | .dense _ => some .notApplicable
    | _ => none
  | .graph =>
    match m with
    | .csr A => if A.usedElements = 0 ∧ 0 < A.rows then some .crashD5 else none
    | _ => some .notApplicable
  | .tr =>
    match m with
    | .csr _ | .dense _ | .bcsr _ => none
    | _ => some .notApplicable
  | .tri =>
    match m with
    | .csr _ | .dense _ => none
    | _ => some .notApplicable
  | .perm p q =>
    match m with
    | .csr A =>
      if p.size = 0 ∧ q.size = 0 then none
      else if p.size ≠ A.rows ∨ q.size ≠ A.cols then some .abortPermSize
      else none
    | _ => some .notApplicable
  | .it => none
  | .dt =>
    match m with
    | .csr _ | .dense _ | .banded _ => none
    | _ => some .notApplicable

/-- the exact decidable precondition of one step -/
def pre (m : Mat α) (o : Op) : Bool := (m.failure o).isNone

end Mat

/-- outcome of one operation of the code as it is: like `Res`, plus the crash of the open finding D5, where `Mat.step`
    shows the intended result instead -/
inductive ResC (α : Type) where
  | ok (m : Mat α)
  | abort
  | crash
  | bad

namespace Mat
variable {α : Type}

def stepCode [Zero α] (m : Mat α) (o : Op) : ResC α :=
  match m.failure o with
  | some .crashD5 => .crash
  | _ => match m.step o with
    | .ok m' => .ok m'
    | .abort => .abort
    | .bad => .bad

/-- the conjunction of the per-step preconditions along the run -/
def runPre [Zero α] : List Op → Mat α → Bool
  | [], _ => true
  | o :: os, m => m.pre o && (match m.step o with
    | .ok m' => runPre os m'
    | _ => false)

end Mat

/-- the textbook meaning of a chain on (rows, cols, dense matrix) -/
structure Sem (α : Type) where
  rows : Nat
  cols : Nat
  f : Nat → Nat → α

namespace Op

/-- transposes swap, permutations relabel, everything else is the identity -/
def sem {α : Type} (s : Sem α) : Op → Sem α
  | .tr | .tri => ⟨s.cols, s.rows, fun i j => s.f j i⟩
  | .perm p q => if p.size = 0 ∧ q.size = 0 then s else ⟨s.rows, s.cols, fun i j => s.f (p.getD i 0) (q.getD j 0)⟩
  | _ => s

/-- side condition of an operation on a matrix of the given dimensions: permutations are bijections of the index
    sets (or both empty = "no permutation") -/
def okFor (rows cols : Nat) : Op → Bool
  | .perm p q => (p.size == 0 && q.size == 0) ||
      (p.size == rows && q.size == cols && Csr.isPerm p && Csr.isPerm q)
  | _ => true

end Op

/-- all side conditions along a chain, with the dimensions following the textbook meaning -/
def chainOk {α : Type} : List Op → Sem α → Bool
  | [], _ => true
  | o :: os, s => o.okFor s.rows s.cols && chainOk os (o.sem s)

def semRun {α : Type} : List Op → Sem α → Sem α
  | [], s => s
  | o :: os, s => semRun os (o.sem s)

end FeatModel.LA
