import FeatModel.Model.LA.Chain
/-
C02: the two-argument members `target.transpose(source)`, `target.convert(source)`, `target.clone(source, mode)`,
`target.copy(source)` called with the target aliasing the source (same object / shallow clone) or with a
pre-existing, non-fresh target.  Kinds of target (as prepared by harness/c02):
  0 fresh (default constructed)      1 same shape (a deep clone of the source with other values)
  2 transposed shape / layout clone  3 another shape (unrelated small matrix, or same element count in another shape)
  4 shallow clone of the source (shared arrays)
Only `DenseMatrix::transpose` has a buffer-reuse branch (`rows() == x.columns() && columns() == x.rows()`), which is
modelled loop for loop; every other member releases / moves the old content of the target.  Core Lean only.
-/
namespace FeatModel.LA

namespace Dense
variable {α : Type}

/-- `Arch::Transpose::value_generic(r, x, rows_x, cols_x)`: `for i for j: r[j*rows_x + i] = src[i*cols_x + j]`, where
    `src` is `x` itself or — when `r == x` — the temporary copy of `x` made first (the same values) -/
def transposeKernel [Zero α] (r src : Array α) (rows cols : Nat) : Array α :=
  foldRange 0 rows (fun r i => foldRange 0 cols (fun r j => r.setIfInBounds (j * rows + i) (src.getD (i * cols + j) 0)) r) r

/-- `t.transpose(x)`; `shared` = `t` and `x` use the same memory (same object, or `t` a shallow clone of `x`).
    Returns (target afterwards, source afterwards). -/
def transposeInto [Zero α] (t x : Dense α) (shared : Bool) : Dense α × Dense α :=
  if t.rows = x.cols ∧ t.cols = x.rows then
    -- buffer reuse: the kernel writes into the target's array, dimensions stay as they are
    let out := transposeKernel (if shared then x.val else t.val) x.val x.rows x.cols
    (⟨t.rows, t.cols, out⟩, if shared then ⟨x.rows, x.cols, out⟩ else x)
  else
    -- `DenseMatrix r(x.columns(), x.rows()); kernel; this->move(r)`
    let out := transposeKernel (Array.replicate (x.cols * x.rows) 0) x.val x.rows x.cols
    (⟨x.cols, x.rows, out⟩, x)      -- a shallow-clone target only drops its reference; for the same object see `.1`

/-- the target of kind `k` for `t.transpose(x)` and whether it shares memory with `x` (`fill` = its old values) -/
def target (fill : α) (x : Dense α) : Nat → Option (Dense α × Bool)
  | 0 => some (⟨0, 0, #[]⟩, false)
  | 1 => some (⟨x.rows, x.cols, Array.replicate (x.rows * x.cols) fill⟩, false)
  | 2 => some (⟨x.cols, x.rows, Array.replicate (x.cols * x.rows) fill⟩, false)
  | 3 => some (if x.rows = 1 then ⟨x.rows * x.cols, 1, Array.replicate (x.rows * x.cols) fill⟩
               else ⟨1, x.rows * x.cols, Array.replicate (x.rows * x.cols) fill⟩, false)
  | 4 => some (x, true)
  | _ => none

end Dense

inductive Fmt where
  | csr | banded | cscr | dense | bcsr
  deriving DecidableEq, Repr

/-- operations with an aliased or pre-existing target -/
inductive AOp where
  | trs | trt (k : Nat)
  | convs | convt (k : Nat) (f : Fmt)
  | clones (m : CloneMode) | clonet (k : Nat) (m : CloneMode)
  | copys | copyt (k : Nat)

/-- `ok tgt src`: target and source afterwards; `self m`: the one object afterwards -/
inductive ResA (α : Type) where
  | ok (tgt src : Mat α)
  | self (m : Mat α)
  | abort
  | bad

namespace Mat
variable {α : Type}

def fmt : Mat α → Fmt
  | .csr _ => .csr | .banded _ => .banded | .cscr _ => .cscr | .dense _ => .dense | .bcsr _ => .bcsr

/-- kinds of a same-format target the harness can prepare generically -/
def kindSame (k : Nat) : Bool := k == 0 || k == 1 || k == 3 || k == 4

def stepAlias [Zero α] (fill : α) (m : Mat α) : AOp → ResA α
  | .trs =>
    match m with
    | .csr A => .self (.csr A.transpose)                       -- reads `x`, then `this->move(result)`
    | .dense A => .self (.dense (Dense.transposeInto A A true).1)
    | .bcsr A => if A.bh = A.bw then .self (.bcsr A.transpose) else .bad
    | _ => .bad
  | .trt k =>
    match m with
    | .csr A => if k ≤ 4 then .ok (.csr A.transpose) m else .bad
    | .dense A =>
      match Dense.target fill A k with
      | some (t, sh) => .ok (.dense (Dense.transposeInto t A sh).1) (.dense (Dense.transposeInto t A sh).2)
      | none => .bad
    | .bcsr A =>
      if (A.bh = A.bw ∧ k ≤ 4) ∨ (A.bh ≠ A.bw ∧ (k = 0 ∨ k = 2 ∨ k = 3)) then .ok (.bcsr A.transpose) m else .bad
    | _ => .bad
  | .convs => .self m             -- intended; `Container::assign` has no self check and destroys the object (c02-edge:D8)
  | .convt k f =>
    if f = m.fmt then (if kindSame k then .ok m m else .bad)
    else if k == 0 || k == 1 || k == 3 then
      match f, m with
      | .csr, .banded B => .ok (.csr B.toCsr) m
      | .csr, .bcsr B => .ok (.csr B.toCsr) m
      | .csr, .cscr B => match B.toCsr with
        | some A => .ok (.csr A) m
        | none => .abort
      | .banded, .csr A => match A.toBanded with
        | some B => .ok (.banded B) m
        | none => .abort
      | .cscr, .csr A => .ok (.cscr A.toCscr) m
      | _, _ => .bad
    else .bad
  | .clones _ => .abort                                        -- `XABORTM("Trying to self-clone a lafem container!")`
  | .clonet k _ => if kindSame k then .ok m m else .bad        -- `this->clear()` first, then as for a fresh target
  | .copys => .self m                                          -- "avoid self-copy"
  | .copyt k => if k == 1 || k == 2 || k == 4 then .ok m m else .bad

end Mat

/-- the operation with a fresh target that an aliased / pre-existing-target call must agree with -/
def AOp.base (src : Fmt) : AOp → Option Op
  | .trs | .trt _ => some .tr
  | .convs | .copys | .copyt _ => some .it
  | .convt _ f => if f = src then some .it else
      match f with
      | .csr => some .tocsr
      | .banded => some .tobanded
      | .cscr => some .tocscr
      | _ => none
  | .clones _ => none
  | .clonet _ m => some (.clone m)

end FeatModel.LA
