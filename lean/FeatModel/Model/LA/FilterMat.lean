import FeatModel.Model.LA.Csr
import FeatModel.Model.LA.Bcsr
import FeatModel.Model.LA.Filter
/-
Matrix members of the unit filters (property C06), core Lean only:
`UnitFilter::filter_mat / filter_offdiag_row_mat / filter_weak_matrix_rows` on `SparseMatrixCSR`
(kernel/lafem/unit_filter.hpp), the same members of `UnitFilterBlocked<bs>` on `SparseMatrixBCSR<bs, bw>`
(unit_filter_blocked.hpp), `UnitFilter::filter_offdiag_row_mat` on `SparseMatrixBCSR<1, bw>` / `<bh, 1>`, and
`filter_mat` of chains / sequences.  Only the value array changes; the loops are those of the C++.
-/
namespace FeatModel.LA.Filter
open FeatModel.LA

/-- `for(j = s; j < e; ++j) v[j] = g j` -/
def setRange {α : Type} (s e : Nat) (g : Nat → α) (v : Array α) : Array α :=
  foldRange s e (fun v j => v.setIfInBounds j (g j)) v

/-- the loop over all filter entries: row `e.1` of the value array is rewritten with `g e` -/
def rewriteRows {α : Type} (A : Csr α) (es : List (Nat × α)) (g : Nat × α → Nat → α) (v : Array α) : Array α :=
  es.foldl (fun v e => setRange (A.rowBegin e.1) (A.rowEnd e.1) (g e) v) v

namespace UnitF
variable {α : Type} [Zero α] [One α] [Mul α]

/-- `v[j] = (col_idx[j] == ix) ? 1 : 0` -/
def matVals (A : Csr α) (es : List (Nat × α)) : Array α :=
  rewriteRows A es (fun e j => if A.colInd.getD j 0 = e.1 then 1 else 0) A.val

def offdiagVals (A : Csr α) (es : List (Nat × α)) : Array α :=
  rewriteRows A es (fun _ _ => 0) A.val

/-- `val_a[j] = val[i] * val_m[j]` -/
def weakVals (A : Csr α) (valM : Array α) (es : List (Nat × α)) : Array α :=
  rewriteRows A es (fun e j => e.2 * valM.getD j 0) A.val

def filterMat (f : UnitF α) (A : Csr α) : Option (Csr α) :=
  if f.es.isEmpty then some A
  else if f.size != A.rows then none
  else some { A with val := matVals A f.es }

def filterOffdiagRowMat (f : UnitF α) (A : Csr α) : Option (Csr α) :=
  if f.es.isEmpty then some A
  else if f.size != A.rows then none
  else some { A with val := offdiagVals A f.es }

/-- `A` and `M` share their layout (the harness clones the layout of `A`) -/
def filterWeakMatrixRows (f : UnitF α) (A : Csr α) (valM : Array α) : Option (Csr α) :=
  if f.es.isEmpty then some A
  else if f.size != A.rows then none
  else some { A with val := weakVals A valM f.es }

/-- `filter_offdiag_row_mat(SparseMatrixBCSR<1, bw>&)`: `v[j] = DT_(0)` clears the whole `1 x bw` block -/
def filterOffdiagRowMatB1 (f : UnitF α) (A : Bcsr α) : Option (Bcsr α) :=
  if f.es.isEmpty then some A
  else if f.size != A.rows then none
  else some { A with val := f.es.foldl (fun v e =>
    foldRange (A.rowPtr.getD e.1 0) (A.rowPtr.getD (e.1 + 1) 0)
      (fun v j => setRange (j * A.bw) (j * A.bw + A.bw) (fun _ => 0) v) v) A.val }

end UnitF

namespace UnitBF
variable {α : Type} [Zero α] [One α] [Mul α]

/-- pod position of `v[j][k][l]` -/
def pod (A : Bcsr α) (j k l : Nat) : Nat := (j * A.bh + k) * A.bw + l

/-- the loop nest shared by the three members: for every entry, every block `j` of its row, every block row `k` -/
def rewriteBlocks (A : Bcsr α) (es : List (Nat × List α)) (body : Nat × List α → Nat → Nat → Array α → Array α)
    (v : Array α) : Array α :=
  es.foldl (fun v e =>
    foldRange (A.rowPtr.getD e.1 0) (A.rowPtr.getD (e.1 + 1) 0) (fun v j =>
      foldRange 0 A.bh (fun v k => body e j k v) v) v) v

def matVals (skip : α → Bool) (A : Bcsr α) (es : List (Nat × List α)) : Array α :=
  rewriteBlocks A es (fun e j k v =>
    if skip (e.2.getD k 0) then v
    else
      let v := setRange (pod A j k 0) (pod A j k 0 + A.bw) (fun _ => 0) v
      if A.colInd.getD j 0 = e.1 ∧ k < A.bw then v.setIfInBounds (pod A j k k) 1 else v) A.val

def offdiagVals (skip : α → Bool) (A : Bcsr α) (es : List (Nat × List α)) : Array α :=
  rewriteBlocks A es (fun e j k v =>
    if skip (e.2.getD k 0) then v
    else setRange (pod A j k 0) (pod A j k 0 + A.bw) (fun _ => 0) v) A.val

/-- `val_a[j][k][l] = val[i][k] * val_m[j][k][l]` (no NaN test in this member) -/
def weakVals (A : Bcsr α) (valM : Array α) (es : List (Nat × List α)) : Array α :=
  rewriteBlocks A es (fun e j k v =>
    setRange (pod A j k 0) (pod A j k 0 + A.bw) (fun p => e.2.getD k 0 * valM.getD p 0) v) A.val

def filterMat (f : UnitBF α) (A : Bcsr α) : Option (Bcsr α) :=
  if f.es.isEmpty then some A
  else if f.size != A.rows then none
  else some { A with val := matVals f.skip A f.es }

def filterOffdiagRowMat (f : UnitBF α) (A : Bcsr α) : Option (Bcsr α) :=
  if f.es.isEmpty then some A
  else if f.size != A.rows then none
  else some { A with val := offdiagVals f.skip A f.es }

def filterWeakMatrixRows (f : UnitBF α) (A : Bcsr α) (valM : Array α) : Option (Bcsr α) :=
  if f.es.isEmpty then some A
  else if f.size != A.rows then none
  else some { A with val := weakVals A valM f.es }

end UnitBF

section Tree
variable {α : Type} [Zero α] [One α] [Mul α]

mutual
/-- `filter_mat` of the compositions that have one: chains / sequences of unit, mean (no-op) and none (no-op) filters -/
def Flt.filterMat : Flt α → Csr α → Option (Csr α)
  | .unit f, A => f.filterMat A
  | .mean _, A => some A
  | .none, A => some A
  | .chain fs, A => filterMatChain fs A
  | _, _ => Option.none
def filterMatChain : List (Flt α) → Csr α → Option (Csr α)
  | [], A => some A
  | f :: fs, A => match f.filterMat A with
    | Option.none => Option.none
    | some A' => filterMatChain fs A'
end

end Tree

end FeatModel.LA.Filter
