/-
C02: `Container::clone(other, CloneMode)` / `Container::assign` (kernel/lafem/container.hpp) as a small heap model:
arrays live in a heap and containers hold array ids, so "aliases" and "value-independent" are statements about ids
and about reading after a write through the other container.  Core Lean only.
-/
namespace FeatModel.LA

/-- `LAFEM::CloneMode`.  `Layout` leaves the new value arrays and `Allocate` all new arrays uninitialised; the
    harness carries the content over before it looks, which is what the `dup*` functions yield. -/
inductive CloneMode where
  | shallow | layout | weak | deep | allocate
  deriving DecidableEq, Repr

/-- the memory pool: value arrays and index arrays, addressed by id (= position) -/
structure Heap (α : Type) where
  vals : Array (Array α)
  idxs : Array (Array Nat)

/-- a container: ids of its value arrays and of its index arrays (`_elements`, `_indices`) -/
structure Handle where
  vals : List Nat
  idxs : List Nat
  deriving DecidableEq, Repr

namespace Heap
variable {α : Type}

/-- `MemoryPool::allocate_memory` + `copy`: a fresh array with the same content -/
def dupVal (h : Heap α) (id : Nat) : Heap α × Nat :=
  ({ h with vals := h.vals.push (h.vals.getD id #[]) }, h.vals.size)

def dupIdx (h : Heap α) (id : Nat) : Heap α × Nat :=
  ({ h with idxs := h.idxs.push (h.idxs.getD id #[]) }, h.idxs.size)

def dupVals (h : Heap α) : List Nat → Heap α × List Nat
  | [] => (h, [])
  | id :: ids =>
    let (h1, n) := h.dupVal id
    let (h2, ns) := h1.dupVals ids
    (h2, n :: ns)

def dupIdxs (h : Heap α) : List Nat → Heap α × List Nat
  | [] => (h, [])
  | id :: ids =>
    let (h1, n) := h.dupIdx id
    let (h2, ns) := h1.dupIdxs ids
    (h2, n :: ns)

/-- `Container::clone(other, mode)`.  `Layout` allocates the value arrays without copying; the harness then fills
    them from the source, which is what `dupVals` yields. -/
def clone (h : Heap α) (c : Handle) : CloneMode → Heap α × Handle
  | .shallow => (h, c)
  | .layout | .weak =>
    let (h1, vs) := h.dupVals c.vals
    (h1, ⟨vs, c.idxs⟩)
  | .deep | .allocate =>
    let (h1, is) := h.dupIdxs c.idxs
    let (h2, vs) := h1.dupVals c.vals
    (h2, ⟨vs, is⟩)

/-- `MemoryPool::allocate_memory` + `MemoryPool::convert`: a fresh array holding the converted content -/
def convVal (f : α → α) (h : Heap α) (id : Nat) : Heap α × Nat :=
  ({ h with vals := h.vals.push ((h.vals.getD id #[]).map f) }, h.vals.size)

def convVals (f : α → α) (h : Heap α) : List Nat → Heap α × List Nat
  | [] => (h, [])
  | id :: ids =>
    let (h1, n) := h.convVal f id
    let (h2, ns) := h1.convVals f ids
    (h2, n :: ns)

/-- `Container<DT,IT>::assign(const Container<DT2,IT2>& other)`, array by array: an array whose element type changes
    (`dDiff` for the value arrays, `iDiff` for the index arrays) is allocated anew and converted (`f` = the value
    conversion; the index conversion does not change any index that fits), an array of unchanged type is SHARED
    with `other` (reference count increased) -/
def assign (f : α → α) (h : Heap α) (c : Handle) (dDiff iDiff : Bool) : Heap α × Handle :=
  let hv := if dDiff then h.convVals f c.vals else (h, c.vals)
  let hi := if iDiff then hv.1.dupIdxs c.idxs else (hv.1, c.idxs)
  (hi.1, ⟨hv.2, hi.2⟩)

/-- the cross-type clone `X<DT,IT>::clone(const X<DT2,IT2>& other, mode)` =
    `Container t(other.size()); t.assign(other); clone(t, mode);` -/
def xclone (f : α → α) (h : Heap α) (c : Handle) (dDiff iDiff : Bool) (m : CloneMode) : Heap α × Handle :=
  let a := h.assign f c dDiff iDiff
  a.1.clone a.2 m

/-- write `v` at position `k` of the first value array of `c` -/
def write (h : Heap α) (c : Handle) (k : Nat) (v : α) : Heap α :=
  match c.vals with
  | [] => h
  | id :: _ => { h with vals := h.vals.modify id (·.setIfInBounds k v) }

/-- read position `k` of the first value array of `c` -/
def read (h : Heap α) (c : Handle) (k : Nat) (dflt : α) : α :=
  match c.vals with
  | [] => dflt
  | id :: _ => (h.vals.getD id #[]).getD k dflt

/-- size of the first value array -/
def valSize (h : Heap α) (c : Handle) : Nat :=
  match c.vals with
  | [] => 0
  | id :: _ => (h.vals.getD id #[]).size

end Heap

/-- what the harness prints after a clone: `(sv, si, w1, w2)`: value / index arrays are the same memory; a write of
    `mark` (a value that occurs nowhere) through the source is seen by the clone; and vice versa -/
def cloneObservation [DecidableEq α] (h : Heap α) (c : Handle) (m : CloneMode) (mark dflt : α) :
    Bool × Bool × Bool × Bool :=
  let hd := h.clone c m
  let h1 := hd.1
  let d := hd.2
  let sv := !c.vals.isEmpty && c.vals == d.vals
  let si := !c.idxs.isEmpty && c.idxs == d.idxs
  let n := h1.valSize c
  if n = 0 then (sv, si, false, false) else
  let w1 := decide ((h1.write c 0 mark).read d 0 dflt = mark)
  let w2 := decide ((h1.write d (n - 1) mark).read c (n - 1) dflt = mark)
  (sv, si, w1, w2)

/-- number of index arrays (position by position) that are the same memory -/
def sharedIdx (c d : Handle) : Nat := ((c.idxs.zip d.idxs).filter fun p => p.1 == p.2).length

/-- pairwise observation of the harness between two containers of one heap: value array the same memory, number of
    shared index arrays, write through the first seen by the second, and vice versa -/
def pairObservation [DecidableEq α] (h : Heap α) (c d : Handle) (mark dflt : α) : Bool × Nat × Bool × Bool :=
  let sv := !c.vals.isEmpty && !d.vals.isEmpty && c.vals.head? == d.vals.head?
  let n := h.valSize c
  if n = 0 ∨ d.vals.isEmpty then (sv, sharedIdx c d, false, false) else
  (sv, sharedIdx c d, decide ((h.write c 0 mark).read d 0 dflt = mark), decide ((h.write d (n - 1) mark).read c (n - 1) dflt = mark))

end FeatModel.LA
