import FeatModel.Model.LA.Vec
/-
`LAFEM::SparseMatrixBanded` and `Arch::Apply::banded_generic` (`Intern::ApplyBanded::apply_banded_generic`).
Band `k` with offset `off` holds the entries `(l, l + off + 1 - rows)`, stored at `val[k*rows + l]`;
`off = rows - 1` is the main diagonal, `0 ≤ off ≤ rows + cols - 2`.
-/
namespace FeatModel.LA

structure Banded (α : Type) where
  rows : Nat
  cols : Nat
  offsets : Array Nat
  val : Array α

namespace Banded
variable {α : Type}

def noo (A : Banded α) : Nat := A.offsets.size

/-- what the array constructor accepts (else it aborts) plus sortedness of the offsets (class invariant) -/
def wf (A : Banded α) : Bool :=
  A.val.size == A.rows * A.noo
  && A.offsets.all (fun o => o + 2 ≤ A.rows + A.cols)
  && (List.range (A.noo - 1)).all (fun i => A.offsets.getD i 0 < A.offsets.getD (i + 1) 0)

/-- `used_elements()` as computed by the constructor -/
def usedElements (A : Banded α) : Nat :=
  A.offsets.foldl (fun s o => s + (A.cols + min A.rows (A.cols + A.rows - o - 1) - max (A.cols + A.rows - o - 1) A.cols)) 0

/-- dense meaning: sum over the bands that pass through `(i, j)` -/
def entry [Zero α] [Add α] (A : Banded α) (i j : Nat) : α :=
  foldRange 0 A.noo (fun s k => if i + A.offsets.getD k 0 + 1 = j + A.rows then s + A.val.getD (k * A.rows + i) 0 else s) 0

def toDense [Zero α] [Add α] (A : Banded α) : List (List α) :=
  (List.range A.rows).map fun i => (List.range A.cols).map fun j => A.entry i j

/-- `start_offset(i, …)`; `none` is the C++ sentinel `Index(-1)` -/
def startOff (A : Banded α) : Option Nat → Nat
  | none => A.rows
  | some i => if i = A.noo then 0 else max (A.cols + 1) (A.rows + A.cols - A.offsets.getD i 0) - A.cols - 1

/-- `end_offset(i, …) + 1` (the C++ returns `Index(-1)` for "before row 0" and always adds 1 with wrap-around) -/
def endOffP1 (A : Banded α) : Option Nat → Nat
  | none => A.rows
  | some i => if i = A.noo then 0 else min A.rows (A.cols + A.rows - A.offsets.getD i 0 - 1)

/-- `i - 1` on `Index` where `0 - 1` is the sentinel -/
def predIdx (i : Nat) : Option Nat := if i = 0 then none else some (i - 1)

/-- `while (k < noo && offsets[k] + 1 < rows) ++k;` -/
def firstUpper (A : Banded α) : Nat :=
  (List.range A.noo).foldl (fun k c => if k = c ∧ A.offsets.getD c 0 + 1 < A.rows then c + 1 else k) 0

/-- `apply_banded_generic` -/
def bandedLoop [Zero α] [Add α] [Mul α] (A : Banded α) (alpha beta : α) (x r : Array α) : Array α :=
  let k := A.firstUpper
  (List.range (k + 1)).reverse.foldl (fun r i =>
    (List.range (A.noo + 1)).reverse.foldl (fun r j =>
      let start := max (A.startOff (some i)) (A.endOffP1 (some j))
      let stop := min (A.startOff (predIdx i)) (A.endOffP1 (predIdx j))
      foldRange start stop (fun r l =>
        let s := foldRange i j (fun s a => s + A.val.getD (a * A.rows + l) 0 * x.getD (l + A.offsets.getD a 0 + 1 - A.rows) 0) 0
        r.setIfInBounds l (beta * r.getD l 0 + alpha * s)) r) r) r

/-- `Arch::Apply::banded_generic` -/
def kernel [Zero α] [Add α] [Mul α] (tiny : α → Bool) (A : Banded α) (alpha beta : α) (x y r : Array α)
    (alias : Bool) : Array α :=
  A.bandedLoop alpha beta x (initR tiny A.rows beta r y alias)

/-- `SparseMatrixBanded::apply` / `apply_transposed` (`banded_transposed_generic` is `XABORTM("not implemented")`) -/
def apply [Zero α] [One α] [Add α] [Mul α] (tiny : α → Bool) (A : Banded α) (x r : Array α) (transposed : Bool) :
    Option (Array α) :=
  let nr := if transposed then A.cols else A.rows
  let nx := if transposed then A.rows else A.cols
  if r.size != nr || x.size != nx then none
  else if r.size == 0 then some r       -- `if (r.size() == Index(0)) return;` (r untouched), before the aliasing assertion
  else if transposed then none
  else some (A.kernel tiny 1 0 x r r true)

def applyAxpy [Zero α] [One α] [Add α] [Mul α] (tiny : α → Bool) (A : Banded α) (x y r : Array α) (alpha : α)
    (alias transposed : Bool) : Option (Array α) :=
  let nr := if transposed then A.cols else A.rows
  let nx := if transposed then A.rows else A.cols
  if r.size != nr || x.size != nx || y.size != nr then none
  else if r.size == 0 then some r       -- `if (r.size() == Index(0)) return;` (r untouched), before the aliasing assertion
  else if A.usedElements == 0 || tiny alpha then some (if alias then r else y)
  else if transposed then none
  else some (A.kernel tiny alpha 1 x y r alias)

end Banded
end FeatModel.LA

namespace FeatModel.LA.Banded
/-- the instances the driver runs (core `Rat`, eps = 2^-52 like `Q` in the harness) -/
def applyQ (A : Banded Rat) (x r : Array Rat) (transposed : Bool) : Option (Array Rat) :=
  A.apply (tinyRat epsQ) x r transposed
def applyAxpyQ (A : Banded Rat) (x y r : Array Rat) (alpha : Rat) (alias transposed : Bool) : Option (Array Rat) :=
  A.applyAxpy (tinyRat epsQ) x y r alpha alias transposed
end FeatModel.LA.Banded
