import FeatModel.Model.LA.Csr
import FeatModel.Model.LA.Banded
import FeatModel.Model.LA.Cscr
import FeatModel.Model.LA.Bcsr
/-
Where does the index type `IT_ = std::uint32_t` enter the `Apply` kernels?  All index *arithmetic* is done in `Index`
(64 bit: `rows + columns - Index(offsets[i])`, `a * rows + l`, `l + offsets[a] + 1 - rows` with `l : Index`, pointer
arithmetic `bval[i]`), whose largest intermediates are bounded by array sizes resp. `rows + columns + 1`.  The 32-bit
type only (a) stores the arrays `row_ptr`, `col_ind`, `row_numbers`, `offsets`, (b) is the loop variable
`for (IT_ i(row_ptr[row]); i < end; ++i)` (never beyond `end ≤ nnz`), and (c) is the type of the one expression
`offsets[k] + 1 < rows` in `apply_banded_generic` (`uint32 + int` is evaluated in 32 bits).
This file makes (a) and (c) explicit; FeatModel.Lemmas.C01Index32 proves when they are the identity.
-/
namespace FeatModel.LA

/-- storing a value into a `std::uint32_t` array -/
def trunc32 (n : Nat) : Nat := n % 2 ^ 32

namespace Csr
/-- the matrix after its index arrays went through 32-bit storage -/
def store32 (A : Csr α) : Csr α := { A with rowPtr := A.rowPtr.map trunc32, colInd := A.colInd.map trunc32 }
end Csr

namespace Banded
def store32 (A : Banded α) : Banded α := { A with offsets := A.offsets.map trunc32 }

/-- `while (k < noo && offsets[k] + 1 < rows) ++k;` with `offsets[k] + 1` evaluated in 32 bits -/
def firstUpper32 (A : Banded α) : Nat :=
  (List.range A.noo).foldl (fun k c => if k = c ∧ trunc32 (A.offsets.getD c 0 + 1) < A.rows then c + 1 else k) 0
end Banded

end FeatModel.LA

namespace FeatModel.LA
namespace Cscr
def store32 (A : Cscr α) : Cscr α :=
  { A with rowPtr := A.rowPtr.map trunc32, colInd := A.colInd.map trunc32, rowNumbers := A.rowNumbers.map trunc32 }
end Cscr
namespace Bcsr
def store32 (A : Bcsr α) : Bcsr α := { A with rowPtr := A.rowPtr.map trunc32, colInd := A.colInd.map trunc32 }
end Bcsr
end FeatModel.LA
