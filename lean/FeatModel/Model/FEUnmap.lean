import FeatModel.Model.FE
/-
Model of `Trafo::InverseMapping::unmap_point_by_newton` (core Lean, exact rational arithmetic): Newton iteration for
`T(x) = p` on one cell, started at the centre of the reference cell, at most 10 iterations, convergence test
`|T(x) - p|² < tol²` *before* every update (`tol = eps^0.9`; the model uses the rational `2^-47`).
-/
namespace FeatModel.FE

def refCentre : Kind → Nat → List Rat
  | .S, d => List.replicate d (1 / ((d : Rat) + 1))
  | .H, d => List.replicate d 0

def vsub (a b : List Rat) : List Rat := List.zipWith (· - ·) a b

def normSq (a : List Rat) : Rat := (a.map fun t => t * t).foldl (· + ·) 0

/-- `|T(x) - p|²` -/
def defectSq (k : Kind) (d : Nat) (V : List (List Rat)) (p x : List Rat) : Rat :=
  normSq (vsub (mapPoint k d V x) p)

/-- `x - J(x)⁻¹ (T(x) - p)` -/
def newtonStep (k : Kind) (d : Nat) (V : List (List Rat)) (p x : List Rat) : List Rat :=
  let Ji := inv d (jacMat k d V x)
  let df := vsub (mapPoint k d V x) p
  (List.range d).map fun i => x.getD i 0 - sumR ((List.range d).map fun j => mat Ji i j * df.getD j 0)

def newtonTolSq : Rat := 1 / 2 ^ 94

/-- the loop of `unmap_point_by_newton`: `(converged, point)` -/
def newtonLoop (k : Kind) (d : Nat) (V : List (List Rat)) (p : List Rat) : Nat → List Rat → Bool × List Rat
  | 0, x => (false, x)
  | n + 1, x =>
    if defectSq k d V p x < newtonTolSq then (true, x)
    else if det d (jacMat k d V x) = 0 then (false, x)   -- the C++ divides by zero here (inf/nan in double)
    else newtonLoop k d V p n (newtonStep k d V p x)

def unmapNewton (k : Kind) (d : Nat) (V : List (List Rat)) (p : List Rat) : Bool × List Rat :=
  newtonLoop k d V p 10 (refCentre k d)

end FeatModel.FE
