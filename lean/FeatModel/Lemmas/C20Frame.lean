import FeatModel.Lemmas.C20Rel
/-! C20 helper lemmas, part 15: frame — an operation leaves every container slot it does not name untouched -/
namespace FeatModel.Pool

/-- the container slots an operation may replace -/
def Op.targets : Op → List Nat
  | .new a .. => [a] | .mat a .. => [a] | .band a .. => [a] | .adopt a _ => [a] | .range a .. => [a]
  | .clone a .. => [a] | .conv a .. => [a] | .xconv a _ => [a] | .move a b => [a, b] | .clear a => [a]
  | .destroy a => [a] | .format .. => [] | .write .. => [] | .lay .. => [] | .mlay a .. => [a] | .ldrop _ => []
  | .mk a .. => [a] | .copy a .. => [a] | .lmove .. => [] | .lvec _ => []

theorem slot_pool (s : State) (p : Pool) (c : Nat) : ({ s with pool := p } : State).slot c = s.slot c := rfl
theorem slot_setLay (s : State) (l : Nat) (x : Option Layout) (c : Nat) : (s.setLay l x).slot c = s.slot c := rfl

theorem frame1 (s : State) (p : Pool) (a : Nat) (x : Option Cont) (c : Nat) (h : c ∉ [a]) :
    (({ s with pool := p } : State).setSlot a x).slot c = s.slot c := by
  have : a ≠ c := fun e => h (by simp [e])
  rw [slot_setSlot_ne _ a c _ this]; rfl

theorem frame1' (s : State) (a : Nat) (x : Option Cont) (c : Nat) (h : c ∉ [a]) :
    (s.setSlot a x).slot c = s.slot c := frame1 s s.pool a x c h

theorem frame2 (s : State) (p : Pool) (a b : Nat) (x y : Option Cont) (c : Nat) (h : c ∉ [a, b]) :
    ((({ s with pool := p } : State).setSlot a x).setSlot b y).slot c = s.slot c := by
  have h1 : a ≠ c := fun e => h (by simp [e])
  have h2 : b ≠ c := fun e => h (by simp [e])
  rw [slot_setSlot_ne _ b c _ h2, slot_setSlot_ne _ a c _ h1]; rfl

theorem frame2' (s : State) (a b : Nat) (x y : Option Cont) (c : Nat) (h : c ∉ [a, b]) :
    ((s.setSlot a x).setSlot b y).slot c = s.slot c := frame2 s s.pool a b x y c h

theorem step_frame {s s' : State} {op : Op} (h : step s op = .ok s') (c : Nat) (hc : c ∉ op.targets) :
    s'.slot c = s.slot c := by
  cases op <;> (
    unfold step at h
    simp only at h
    simp only [Op.targets] at hc
    repeat' (split at h)
    all_goals first
      | (cases h; done)
      | (injection h with h; subst h
         first
           | rfl
           | exact frame1 _ _ _ _ _ hc
           | exact frame1' _ _ _ _ hc
           | exact frame2 _ _ _ _ _ _ _ hc
           | exact frame2' _ _ _ _ _ _ hc
           | exact slot_setLay _ _ _ _))

end FeatModel.Pool

namespace FeatModel.Pool

/-- the relation between two containers an operation does not name is unchanged -/
theorem shares_frame {s s' : State} {op : Op} (h : step s op = .ok s') {c d : Nat}
    (hc : c ∉ op.targets) (hd : d ∉ op.targets) : Shares s' c d ↔ Shares s c d := by
  unfold Shares
  rw [step_frame h c hc, step_frame h d hd]

theorem ids_owned {s : State} {c : Nat} {cc : Cont} {j : Nat} (hs : s.slot c = some cc) (hf : cc.foreign = false)
    (hj : j ∈ cc.ids) : j ∈ s.ownIds := by
  obtain ⟨off, ho⟩ := mem_idsOf_iff.mp hj
  exact mem_ownIds hs hf ho

theorem ids_split {c : Cont} {j : Nat} (h : j ∈ c.ids) : j ∈ idsOf c.elems ∨ j ∈ idsOf c.inds := by
  unfold Cont.ids Cont.ptrs at h
  rw [idsOf_append] at h
  exact List.mem_append.mp h

theorem ids_of_elems {c : Cont} {j : Nat} (h : j ∈ idsOf c.elems) : j ∈ c.ids := by
  unfold Cont.ids Cont.ptrs; rw [idsOf_append]; exact List.mem_append.mpr (Or.inl h)

theorem ids_of_inds {c : Cont} {j : Nat} (h : j ∈ idsOf c.inds) : j ∈ c.ids := by
  unfold Cont.ids Cont.ptrs; rw [idsOf_append]; exact List.mem_append.mpr (Or.inr h)

theorem fresh_absurd {s : State} (hi : Inv s) {l : List Ptr} (hf : FreshL s.pool.length l) {j : Nat}
    (hj : j ∈ s.ownIds) (hm : j ∈ idsOf l) : False := by
  obtain ⟨off, ho⟩ := mem_idsOf_iff.mp hm
  exact fresh_not_owned hi hf hj ho

/-- clone creates relatives only by inheritance from its source, and only in the sharing modes: if the clone in
    slot `a` shares a chunk with an owning bystander `c`, then the source `b` already shared a chunk with `c` and the
    mode is Shallow, Layout or Weak -/
theorem clone_relatives {s s' : State} {a b mode : Nat} {fill : Int} {cb cc : Cont} {c : Nat} (hi : Inv s)
    (h : step s (.clone a b mode fill) = .ok s') (hb : s.slot b = some cb) (hca : c ≠ a)
    (hsc : s.slot c = some cc) (hf : cc.foreign = false) (hsh : Shares s' a c) :
    Shares s b c ∧ mode ≠ 3 ∧ mode ≠ 4 := by
  obtain ⟨c', ha', _, _, ti, te⟩ := step_clone_table h hb
  obtain ⟨x, y, j, hx, hy, hjx, hjy⟩ := hsh
  rw [ha'] at hx; injection hx with hx; subst hx
  rw [step_frame h c (by simp [Op.targets, hca]), hsc] at hy; injection hy with hy; subst hy
  have hown := ids_owned hsc hf hjy
  rcases ids_split hjx with he | hin
  · by_cases hm : mode = 0
    · simp only [hm, if_true] at te
      by_cases hd : c'.dt = cb.dt
      · simp only [hd, if_true] at te
        rw [te] at he
        exact ⟨⟨cb, cc, j, hb, hsc, ids_of_elems he, hjy⟩, by omega, by omega⟩
      · simp only [hd, if_false] at te; exact (fresh_absurd hi te hown he).elim
    · simp only [hm, if_false] at te; exact (fresh_absurd hi te hown he).elim
  · by_cases hm : mode = 3 ∨ mode = 4
    · simp only [hm, if_true] at ti; exact (fresh_absurd hi ti hown hin).elim
    · simp only [hm, if_false] at ti
      by_cases hd : c'.it = cb.it
      · simp only [hd, if_true] at ti
        rw [ti] at hin
        exact ⟨⟨cb, cc, j, hb, hsc, ids_of_inds hin, hjy⟩, by omega, by omega⟩
      · simp only [hd, if_false] at ti; exact (fresh_absurd hi ti hown hin).elim

/-- convert creates relatives only by inheritance from its source -/
theorem conv_relatives {s s' : State} {a b dt it : Nat} {cb cc : Cont} {c : Nat} (hi : Inv s)
    (h : step s (.conv a b dt it) = .ok s') (hb : s.slot b = some cb) (hab : a ≠ b) (hk : cb.kind < 7) (hca : c ≠ a)
    (hsc : s.slot c = some cc) (hf : cc.foreign = false) (hsh : Shares s' a c) : Shares s b c := by
  obtain ⟨c', ha', _, _, te, ti⟩ := step_conv_table h hb hab hk
  obtain ⟨x, y, j, hx, hy, hjx, hjy⟩ := hsh
  rw [ha'] at hx; injection hx with hx; subst hx
  rw [step_frame h c (by simp [Op.targets, hca]), hsc] at hy; injection hy with hy; subst hy
  have hown := ids_owned hsc hf hjy
  rcases ids_split hjx with he | hin
  · by_cases hd : c'.dt = cb.dt
    · simp only [hd, if_true] at te
      rw [te] at he
      exact ⟨cb, cc, j, hb, hsc, ids_of_elems he, hjy⟩
    · simp only [hd, if_false] at te; exact (fresh_absurd hi te hown he).elim
  · by_cases hd : c'.it = cb.it
    · simp only [hd, if_true] at ti
      rw [ti] at hin
      exact ⟨cb, cc, j, hb, hsc, ids_of_inds hin, hjy⟩
    · simp only [hd, if_false] at ti; exact (fresh_absurd hi ti hown hin).elim

/-- a matrix made from a layout is related to an owning bystander only through the layout's index arrays -/
theorem mlay_relatives {s s' : State} {a l kind dt : Nat} {fill : Int} {L : Layout} {cc : Cont} {c : Nat}
    (hi : Inv s) (h : step s (.mlay a l kind dt fill) = .ok s') (hl : s.lay l = some L) (hca : c ≠ a)
    (hsc : s.slot c = some cc) (hf : cc.foreign = false) (hsh : Shares s' a c) :
    ∃ j, j ∈ idsOf L.inds ∧ j ∈ cc.ids := by
  obtain ⟨c', ha', _, hin', hfe, _⟩ := step_mlay_table h hl
  obtain ⟨x, y, j, hx, hy, hjx, hjy⟩ := hsh
  rw [ha'] at hx; injection hx with hx; subst hx
  rw [step_frame h c (by simp [Op.targets, hca]), hsc] at hy; injection hy with hy; subst hy
  have hown := ids_owned hsc hf hjy
  rcases ids_split hjx with he | hin
  · exact (fresh_absurd hi hfe hown he).elim
  · rw [hin'] at hin; exact ⟨j, hin, hjy⟩

/-- the adopt-data constructor creates relatives only by inheritance from its source -/
theorem adopt_relatives {s s' : State} {a b : Nat} {cb cc : Cont} {c : Nat}
    (h : step s (.adopt a b) = .ok s') (hb : s.slot b = some cb) (hn : cb.size ≠ 0) (hca : c ≠ a)
    (hsc : s.slot c = some cc) (hsh : Shares s' a c) : Shares s b c := by
  obtain ⟨c', ha', _, he', hi', _⟩ := step_adopt_table h hb hn
  obtain ⟨x, y, j, hx, hy, hjx, hjy⟩ := hsh
  rw [ha'] at hx; injection hx with hx; subst hx
  rw [step_frame h c (by simp [Op.targets, hca]), hsc] at hy; injection hy with hy; subst hy
  refine ⟨cb, cc, j, hb, hsc, ?_, hjy⟩
  rcases ids_split hjx with he | hin
  · rw [he'] at he
    apply ids_of_elems
    unfold elemPtr0 at he
    cases hce : cb.elems with
    | nil => rw [hce] at he; simp [idsOf] at he
    | cons q r =>
      rw [hce] at he
      simp only [List.headD] at he
      cases q with
      | null => simp [idsOf] at he
      | «at» i o => simp only [idsOf, List.mem_singleton] at he; subst he; simp [idsOf]
  · rw [hi'] at hin; simp [idsOf] at hin

end FeatModel.Pool
