import FeatModel.Model.MeshFile
/-
C11 — parser soundness for the mesh-file model: an accepted file has the declared counts and all
topology indices in range (`Mesh.wf`).  Core Lean only.
-/
namespace FeatModel.C11

/-! ### auxiliary facts about `mapMOpt` -/

theorem mapMOpt_length {α β : Type} (f : α → Option β) :
    ∀ (l : List α) (bs : List β), mapMOpt f l = some bs → bs.length = l.length
  | [], bs, h => by
    simp [mapMOpt] at h; subst h; rfl
  | a :: as, bs, h => by
    unfold mapMOpt at h
    split at h
    · cases h
    · split at h
      · cases h
      · rename_i bs' hbs
        cases h
        simp [mapMOpt_length f as bs' hbs]

theorem mapMOpt_id_eq {α : Type} :
    ∀ (l : List (Option α)) (ts : List α), mapMOpt id l = some ts → l = ts.map some
  | [], ts, h => by
    simp [mapMOpt] at h; subst h; rfl
  | a :: as, ts, h => by
    unfold mapMOpt at h
    split at h
    · cases h
    · rename_i b hb
      split at h
      · cases h
      · rename_i bs' hbs
        cases h
        simp at hb
        simp [hb, ← mapMOpt_id_eq as bs' hbs]

/-! ### the invariant -/

/-- what is known about an open `<Mesh>` frame -/
def meshOk (sh : Shape) (dim wdim : Nat) (sizes : List Nat) (v : Option (List (List Rat)))
    (t : List (Option (List (List Nat)))) : Prop :=
  sizes.length = dim + 1 ∧ t.length = dim ∧
  (∀ vs, v = some vs → vs.length = sizes.getD 0 0 ∧ ∀ r ∈ vs, r.length = wdim) ∧
  (∀ i ts, t[i]? = some (some ts) →
    tuplesOk (nverts sh (i + 1)) (sizes.getD 0 0) (sizes.getD (i + 1) 0) ts = true)

/-- what is known about a frame sitting directly above a `<Mesh>` frame with entity counts `sizes` -/
def childOk (sh : Shape) (dim wdim : Nat) (sizes : List Nat) : Frame → Prop
  | Frame.verts count acc =>
    count = sizes.getD 0 0 ∧ acc.length ≤ count ∧ ∀ r ∈ acc, r.length = wdim
  | Frame.topo d numIdx bound count acc =>
    1 ≤ d ∧ d ≤ dim ∧ numIdx = nverts sh d ∧ bound = sizes.getD 0 0 ∧ count = sizes.getD d 0 ∧
    acc.length ≤ count ∧ ∀ t ∈ acc, t.length = numIdx ∧ ∀ x ∈ t, x < bound
  | _ => True

def frameOk (sh : Shape) (dim wdim : Nat) : Frame → Prop
  | Frame.mesh sizes v t => meshOk sh dim wdim sizes v t
  | _ => True

def aboveOk (sh : Shape) (dim wdim : Nat) (f : Frame) : List Frame → Prop
  | Frame.mesh sizes _ _ :: _ => childOk sh dim wdim sizes f
  | _ => True

def stackInv (sh : Shape) (dim wdim : Nat) : List Frame → Prop
  | [] => True
  | f :: rest => frameOk sh dim wdim f ∧ aboveOk sh dim wdim f rest ∧ stackInv sh dim wdim rest

/-- the parser-state invariant: shape, shape dimension and world dimension are fixed (also in the node), a stored root mesh is well formed, and every
    open `<Mesh>` frame (with its child on top) is consistent with its declared counts -/
def Inv (sh : Shape) (dim wdim : Nat) (st : St) : Prop :=
  st.shape = sh ∧ st.dim = dim ∧ st.wdim = wdim ∧ st.node.wdim = wdim ∧
  (∀ m, st.node.mesh = some m → m.wf sh dim wdim = true) ∧
  stackInv sh dim wdim st.stack

theorem tuplesOk_iff (numIdx bound count : Nat) (ts : List (List Nat)) :
    tuplesOk numIdx bound count ts = true ↔
      ts.length = count ∧ ∀ t ∈ ts, t.length = numIdx ∧ ∀ x ∈ t, x < bound := by
  simp [tuplesOk]

/-- a completely filled mesh frame yields a well-formed mesh -/
theorem meshOk_wf (sh : Shape) (dim wdim : Nat) (sizes : List Nat) (vs : List (List Rat))
    (ts : List (List (List Nat))) (h : meshOk sh dim wdim sizes (some vs) (ts.map some)) :
    Mesh.wf sh dim wdim { sizes := sizes, verts := vs, topo := ts } = true := by
  obtain ⟨h1, h2, h3, h4⟩ := h
  obtain ⟨h3a, h3b⟩ := h3 vs rfl
  simp only [List.length_map] at h2
  simp only [Mesh.wf, Bool.and_eq_true, beq_iff_eq, List.all_eq_true, List.mem_range]
  refine ⟨⟨⟨⟨h1, h3a⟩, h3b⟩, h2⟩, ?_⟩
  intro i hi
  apply h4
  have : i < ts.length := by omega
  simp [List.getD, this]

/-! ### `contentM` -/

/-- the top frame may be replaced by any frame that is consistent with what lies below it -/
theorem stackInv_replace {sh : Shape} {dim wdim : Nat} {f f' : Frame} {rest : List Frame}
    (h : stackInv sh dim wdim (f :: rest)) (h1 : frameOk sh dim wdim f')
    (h2 : ∀ sizes v t tl, rest = Frame.mesh sizes v t :: tl → childOk sh dim wdim sizes f → childOk sh dim wdim sizes f') :
    stackInv sh dim wdim (f' :: rest) := by
  obtain ⟨_, ha, hr⟩ := h
  refine ⟨h1, ?_, hr⟩
  cases rest with
  | nil => trivial
  | cons g tl =>
    cases g <;> try trivial
    exact h2 _ _ _ _ rfl ha

/-- pushing a frame -/
theorem stackInv_push {sh : Shape} {dim wdim : Nat} {f : Frame} {stack : List Frame}
    (h : stackInv sh dim wdim stack) (h1 : frameOk sh dim wdim f)
    (h2 : ∀ sizes v t tl, stack = Frame.mesh sizes v t :: tl → childOk sh dim wdim sizes f) :
    stackInv sh dim wdim (f :: stack) := by
  refine ⟨h1, ?_, h⟩
  cases stack with
  | nil => trivial
  | cons g tl =>
    cases g <;> try trivial
    exact h2 _ _ _ _ rfl

theorem stackInv_tail {sh : Shape} {dim wdim : Nat} {f : Frame} {rest : List Frame}
    (h : stackInv sh dim wdim (f :: rest)) : stackInv sh dim wdim rest := h.2.2

/-- step lemma: a content line on a `<Vertices>` frame appends one row of `st.wdim` coordinates and never
    exceeds the declared count -/
theorem contentM_verts {st st' : St} {line : Nat} {s : Str} {count : Nat} {acc : List (List Rat)}
    {rest : List Frame} (hs : st.stack = Frame.verts count acc :: rest)
    (h : contentM st line s = .ok st') :
    ∃ v : List Rat, v.length = st.wdim ∧ acc.length + 1 ≤ count ∧
      st' = { st with stack := Frame.verts count (v :: acc) :: rest } := by
  obtain ⟨shape, d, wd, stack, node, links, deduct, unm⟩ := st
  simp only at hs
  subst hs
  simp only [contentM] at h
  split at h
  · simp [cErr] at h
  · split at h
    · simp [cErr] at h
    · split at h
      · simp [cErr] at h
      · rename_i h1 h2 _ v hv
        simp only [Except.ok.injEq] at h
        refine ⟨v, ?_, by omega, h.symm⟩
        have := mapMOpt_length _ _ _ hv
        simp at h2
        show v.length = wd
        omega

/-- step lemma: a content line on a `<Topology>` frame only ever appends a tuple of the right length whose
    entries are all below `bound`, and never exceeds `count` -/
theorem contentM_topo {st st' : St} {line : Nat} {s : Str} {d numIdx bound count : Nat}
    {acc : List (List Nat)} {rest : List Frame}
    (hs : st.stack = Frame.topo d numIdx bound count acc :: rest)
    (h : contentM st line s = .ok st') :
    ∃ v : List Nat, v.length = numIdx ∧ (∀ x ∈ v, x < bound) ∧ acc.length + 1 ≤ count ∧
      st' = { st with stack := Frame.topo d numIdx bound count (v :: acc) :: rest } := by
  obtain ⟨shape, dd, wd, stack, node, links, deduct, unm⟩ := st
  simp only at hs
  subst hs
  simp only [contentM] at h
  split at h
  · simp [cErr] at h
  · split at h
    · simp [cErr] at h
    · split at h
      · simp [cErr] at h
      · split at h
        · simp [cErr] at h
        · rename_i h1 h2 _ v hv h3
          simp only [Except.ok.injEq] at h
          refine ⟨v, ?_, ?_, by omega, h.symm⟩
          · have := mapMOpt_length _ _ _ hv
            simp at h2
            omega
          · intro x hx
            simp at h3
            exact h3 x hx

theorem contentM_inv {sh : Shape} {dim wdim : Nat} {st st' : St} {line : Nat} {s : Str}
    (hI : Inv sh dim wdim st) (h : contentM st line s = .ok st') : Inv sh dim wdim st' := by
  obtain ⟨shape, d, wd, stack, node, links, deduct, unm⟩ := st
  obtain ⟨h1, h2, h2w, hw, h3, h4⟩ := hI
  simp only at h1 h2 h2w hw h3 h4
  subst h1 h2 h2w
  cases stack with
  | nil => simp [contentM, gErr] at h
  | cons f rest =>
    cases f with
    | dummy => simp [contentM] at h; subst h; exact ⟨rfl, rfl, rfl, hw, h3, h4⟩
    | root => simp [contentM, gErr] at h
    | mesh _ _ _ => simp [contentM, gErr] at h
    | part _ => simp [contentM, gErr] at h
    | partition _ _ _ _ _ _ => simp [contentM, gErr] at h
    | chart _ _ => simp [contentM, gErr] at h
    | chartItem => simp [contentM, gErr] at h
    | bezier _ _ _ _ _ => simp [contentM, gErr] at h
    | bezierPoints size read acc =>
      simp only [contentM] at h
      repeat' split at h
      all_goals first
        | (simp [cErr] at h; done)
        | (simp only [Except.ok.injEq] at h; subst h
           exact ⟨rfl, rfl, rfl, hw, h3, stackInv_replace h4 trivial (fun _ _ _ _ _ _ => trivial)⟩)
    | bezierParams size read acc =>
      simp only [contentM] at h
      repeat' split at h
      all_goals first
        | (simp [cErr] at h; done)
        | (simp only [Except.ok.injEq] at h; subst h
           exact ⟨rfl, rfl, rfl, hw, h3, stackInv_replace h4 trivial (fun _ _ _ _ _ _ => trivial)⟩)
    | verts count acc =>
      obtain ⟨v, hv, hc, rfl⟩ := contentM_verts rfl h
      refine ⟨rfl, rfl, rfl, hw, h3, stackInv_replace h4 trivial ?_⟩
      intro sizes _ _ _ _ hc'
      obtain ⟨a, b, c⟩ := hc'
      refine ⟨a, by simp only [List.length_cons]; omega, ?_⟩
      intro r hr
      simp only [List.mem_cons] at hr
      rcases hr with rfl | hr
      · exact hv
      · exact c r hr
    | topo dd numIdx bound count acc =>
      obtain ⟨v, hv, hb, hc, rfl⟩ := contentM_topo rfl h
      refine ⟨rfl, rfl, rfl, hw, h3, stackInv_replace h4 trivial ?_⟩
      intro sizes _ _ _ _ hc'
      obtain ⟨a1, a2, a3, a4, a5, a6, a7⟩ := hc'
      refine ⟨a1, a2, a3, a4, a5, by simp only [List.length_cons]; omega, ?_⟩
      intro r hr
      simp only [List.mem_cons] at hr
      rcases hr with rfl | hr
      · exact ⟨hv, hb⟩
      · exact a7 r hr
    | mapping dd count acc =>
      simp only [contentM] at h
      split at h
      · simp [cErr] at h
      · split at h
        · simp [cErr] at h
        · simp only [Except.ok.injEq] at h
          subst h
          exact ⟨rfl, rfl, rfl, hw, h3, stackInv_replace h4 trivial (fun _ _ _ _ _ _ => trivial)⟩
    | attr name dd count acc =>
      simp only [contentM] at h
      split at h
      · simp [cErr] at h
      · split at h
        · simp [cErr] at h
        · split at h
          · simp [cErr] at h
          · simp only [Except.ok.injEq] at h
            subst h
            exact ⟨rfl, rfl, rfl, hw, h3, stackInv_replace h4 trivial (fun _ _ _ _ _ _ => trivial)⟩
    | patch rank size ne read elems =>
      simp only [contentM] at h
      split at h
      · simp [cErr] at h
      · split at h
        · simp [cErr] at h
        · split at h
          · simp [cErr] at h
          · simp only [Except.ok.injEq] at h
            subst h
            exact ⟨rfl, rfl, rfl, hw, h3, stackInv_replace h4 trivial (fun _ _ _ _ _ _ => trivial)⟩

/-! ### `closeTop` -/

/-- step lemma: `</Vertices>` is only accepted once the declared number of rows has been read -/
theorem closeTop_verts {st st' : St} {line : Nat} {count : Nat} {acc : List (List Rat)}
    {sizes : List Nat} {v : Option (List (List Rat))} {topo : List (Option (List (List Nat)))}
    {rest : List Frame}
    (hs : st.stack = Frame.verts count acc :: Frame.mesh sizes v topo :: rest)
    (h : closeTop st line = .ok st') :
    count ≤ acc.length ∧
      st' = { st with stack := Frame.mesh sizes (some acc.reverse) topo :: rest } := by
  obtain ⟨shape, d, wd, stack, node, links, deduct, unm⟩ := st
  simp only at hs
  subst hs
  simp only [closeTop] at h
  split at h
  · simp [gErr] at h
  · simp only [Except.ok.injEq] at h
    exact ⟨by omega, h.symm⟩

/-- step lemma: `</Topology>` (inside `<Mesh>`) is only accepted once the declared number of tuples has been read -/
theorem closeTop_topo {st st' : St} {line : Nat} {d numIdx bound count : Nat} {acc : List (List Nat)}
    {sizes : List Nat} {v : Option (List (List Rat))} {topo : List (Option (List (List Nat)))}
    {rest : List Frame}
    (hs : st.stack = Frame.topo d numIdx bound count acc :: Frame.mesh sizes v topo :: rest)
    (h : closeTop st line = .ok st') :
    count ≤ acc.length ∧
      st' = { st with stack := Frame.mesh sizes v (topo.set (d - 1) (some acc.reverse)) :: rest } := by
  obtain ⟨shape, dd, wd, stack, node, links, deduct, unm⟩ := st
  simp only at hs
  subst hs
  simp only [closeTop] at h
  split at h
  · simp [gErr] at h
  · simp only [Except.ok.injEq] at h
    exact ⟨by omega, h.symm⟩

theorem closeTop_inv {sh : Shape} {dim wdim : Nat} {st st' : St} {line : Nat}
    (hI : Inv sh dim wdim st) (h : closeTop st line = .ok st') : Inv sh dim wdim st' := by
  obtain ⟨shape, d, wd, stack, node, links, deduct, unm⟩ := st
  obtain ⟨h1, h2, h2w, hw, h3, h4⟩ := hI
  simp only at h1 h2 h2w hw h3 h4
  subst h1 h2 h2w
  cases stack with
  | nil => simp [closeTop, gErr] at h
  | cons f rest =>
    cases f with
    | root => simp [closeTop] at h; subst h; exact ⟨rfl, rfl, rfl, hw, h3, stackInv_tail h4⟩
    | dummy => simp [closeTop] at h; subst h; exact ⟨rfl, rfl, rfl, hw, h3, stackInv_tail h4⟩
    | chartItem => simp [closeTop] at h; subst h; exact ⟨rfl, rfl, rfl, hw, h3, stackInv_tail h4⟩
    | chart name c =>
      cases c with
      | none => simp [closeTop, gErr] at h
      | some ch => simp [closeTop] at h; subst h; exact ⟨rfl, rfl, rfl, hw, h3, stackInv_tail h4⟩
    | bezier sz cl o segs params =>
      cases rest with
      | nil => simp [closeTop, gErr] at h
      | cons g tl =>
        cases g with
        | chart name c =>
          simp only [closeTop, Except.ok.injEq] at h
          subst h
          exact ⟨rfl, rfl, rfl, hw, h3, stackInv_replace (stackInv_tail h4) trivial (fun _ _ _ _ _ _ => trivial)⟩
        | _ => simp [closeTop, gErr] at h
    | bezierPoints size read acc =>
      cases rest with
      | nil => simp [closeTop, gErr] at h
      | cons g tl =>
        cases g with
        | bezier sz cl o segs params =>
          simp only [closeTop] at h
          split at h
          · simp [gErr] at h
          · simp only [Except.ok.injEq] at h
            subst h
            exact ⟨rfl, rfl, rfl, hw, h3, stackInv_replace (stackInv_tail h4) trivial (fun _ _ _ _ _ _ => trivial)⟩
        | _ => simp [closeTop, gErr] at h
    | bezierParams size read acc =>
      cases rest with
      | nil => simp [closeTop, gErr] at h
      | cons g tl =>
        cases g with
        | bezier sz cl o segs params =>
          simp only [closeTop] at h
          split at h
          · simp [gErr] at h
          · simp only [Except.ok.injEq] at h
            subst h
            exact ⟨rfl, rfl, rfl, hw, h3, stackInv_replace (stackInv_tail h4) trivial (fun _ _ _ _ _ _ => trivial)⟩
        | _ => simp [closeTop, gErr] at h
    | mesh sizes v topo =>
      simp only [closeTop] at h
      split at h
      · simp [gErr] at h
      · split at h
        · simp [gErr] at h
        · rename_i vs _ ts hts
          simp only [Except.ok.injEq] at h
          subst h
          refine ⟨rfl, rfl, rfl, hw, ?_, stackInv_tail h4⟩
          intro m hm
          simp only [Option.some.injEq] at hm
          subst hm
          have := mapMOpt_id_eq _ _ hts
          subst this
          exact meshOk_wf _ _ _ _ _ _ h4.1
    | verts count acc =>
      cases rest with
      | nil => simp [closeTop, gErr] at h
      | cons g tl =>
        cases g with
        | mesh sizes v topo =>
          obtain ⟨hc, rfl⟩ := closeTop_verts rfl h
          obtain ⟨_, ha, ht⟩ := h4
          refine ⟨rfl, rfl, rfl, hw, h3, stackInv_replace ht ?_ (fun _ _ _ _ _ _ => trivial)⟩
          obtain ⟨a1, a2, a3⟩ := ha
          obtain ⟨m1, m2, m3, m4⟩ := ht.1
          refine ⟨m1, m2, ?_, m4⟩
          intro vs hvs
          simp only [Option.some.injEq] at hvs
          subst hvs
          refine ⟨by simp only [List.length_reverse]; omega, ?_⟩
          intro r hr
          exact a3 r (by simpa using hr)
        | _ => simp [closeTop, gErr] at h
    | topo dd numIdx bound count acc =>
      cases rest with
      | nil => simp [closeTop, gErr] at h
      | cons g tl =>
        cases g with
        | mesh sizes v topo =>
          obtain ⟨hc, rfl⟩ := closeTop_topo rfl h
          obtain ⟨_, ha, ht⟩ := h4
          refine ⟨rfl, rfl, rfl, hw, h3, stackInv_replace ht ?_ (fun _ _ _ _ _ _ => trivial)⟩
          obtain ⟨a1, a2, a3, a4, a5, a6, a7⟩ := ha
          obtain ⟨m1, m2, m3, m4⟩ := ht.1
          refine ⟨m1, by simpa using m2, m3, ?_⟩
          intro i ts hi
          rw [List.getElem?_set] at hi
          split at hi
          · rename_i hdi
            split at hi
            · simp only [Option.some.injEq] at hi
              subst hi
              have hdd : i + 1 = dd := by omega
              rw [hdd, tuplesOk_iff]
              refine ⟨by simp only [List.length_reverse]; omega, ?_⟩
              intro t ht'
              have := a7 t (by simpa using ht')
              rw [← a3, ← a4]
              exact this
            · cases hi
          · exact m4 i ts hi
        | part p =>
          simp only [closeTop] at h
          split at h
          · simp [gErr] at h
          · simp only [Except.ok.injEq] at h
            subst h
            exact ⟨rfl, rfl, rfl, hw, h3, stackInv_replace (stackInv_tail h4) trivial (fun _ _ _ _ _ _ => trivial)⟩
        | _ => simp [closeTop, gErr] at h
    | mapping dd count acc =>
      cases rest with
      | nil => simp [closeTop, gErr] at h
      | cons g tl =>
        cases g with
        | part p =>
          simp only [closeTop] at h
          split at h
          · simp [gErr] at h
          · simp only [Except.ok.injEq] at h
            subst h
            exact ⟨rfl, rfl, rfl, hw, h3, stackInv_replace (stackInv_tail h4) trivial (fun _ _ _ _ _ _ => trivial)⟩
        | _ => simp [closeTop, gErr] at h
    | attr name dd count acc =>
      cases rest with
      | nil => simp [closeTop, gErr] at h
      | cons g tl =>
        cases g with
        | part p =>
          simp only [closeTop] at h
          split at h
          · simp [gErr] at h
          · simp only [Except.ok.injEq] at h
            subst h
            exact ⟨rfl, rfl, rfl, hw, h3, stackInv_replace (stackInv_tail h4) trivial (fun _ _ _ _ _ _ => trivial)⟩
        | _ => simp [closeTop, gErr] at h
    | patch rank size ne read elems =>
      cases rest with
      | nil => simp [closeTop, gErr] at h
      | cons g tl =>
        cases g with
        | partition name prio level nr ne' patches =>
          simp only [closeTop] at h
          split at h
          · simp [gErr] at h
          · simp only [Except.ok.injEq] at h
            subst h
            exact ⟨rfl, rfl, rfl, hw, h3, stackInv_replace (stackInv_tail h4) trivial (fun _ _ _ _ _ _ => trivial)⟩
        | _ => simp [closeTop, gErr] at h
    | part p =>
      simp only [closeTop] at h
      split at h
      · simp [gErr] at h
      · split at h
        · simp [gErr] at h
        · simp only [Except.ok.injEq] at h
          subst h
          exact ⟨rfl, rfl, rfl, hw, h3, stackInv_tail h4⟩
    | partition name prio level nr ne patches hv =>
      simp only [closeTop] at h
      split at h
      · simp [gErr] at h
      · split at h
        · simp [gErr] at h
        · simp only [Except.ok.injEq] at h
          subst h
          exact ⟨rfl, rfl, rfl, hw, h3, stackInv_tail h4⟩

/-! ### `openM` -/

theorem meshCreate_ok {st : St} {line : Nat} {m : Markup} {f : Frame}
    (h : meshCreate st line m = .ok f) :
    ∃ sizes, sizes.length = st.dim + 1 ∧ f = Frame.mesh sizes none (List.replicate st.dim none) := by
  unfold meshCreate at h
  repeat' split at h
  all_goals first | (simp [cErr, gErr] at h; done) | skip
  simp only at h
  split at h
  · simp [cErr] at h
  · split at h
    · simp [cErr] at h
    · rename_i hl _ sizes hs
      split at h
      · simp [cErr] at h
      · simp only [Except.ok.injEq] at h
        refine ⟨sizes, ?_, h.symm⟩
        have := mapMOpt_length _ _ _ hs
        simp at hl
        omega

theorem topoCreate_ok {st : St} {line : Nat} {m : Markup} {sizes : List Nat}
    {have_ : List (Option (List (List Nat)))} {f : Frame}
    (h : topoCreate st line m sizes have_ = .ok f) :
    m.closed = false ∧ ∃ d, 1 ≤ d ∧ d ≤ have_.length ∧
      f = Frame.topo d (nverts st.shape d) (sizes.getD 0 0) (sizes.getD d 0) [] := by
  unfold topoCreate at h
  repeat' split at h
  all_goals first | (simp [cErr, gErr] at h; done) | skip
  rename_i hc _ _ _ _ d _ hd _
  simp only [Except.ok.injEq] at h
  simp at hc hd
  exact ⟨hc, d, by omega, by omega, h.symm⟩

theorem partitionCreate_ok {line : Nat} {m : Markup} {f : Frame}
    (h : partitionCreate line m = .ok f) :
    ∃ name prio level nr ne patches hv, f = Frame.partition name prio level nr ne patches hv := by
  unfold partitionCreate at h
  repeat' split at h
  all_goals first | (simp [cErr, gErr] at h; done) | skip
  all_goals
    simp only [Except.ok.injEq] at h
    exact ⟨_, _, _, _, _, _, _, h.symm⟩

theorem meshOk_init {sh : Shape} {dim wdim : Nat} {sizes : List Nat} (h : sizes.length = dim + 1) :
    meshOk sh dim wdim sizes none (List.replicate dim none) := by
  refine ⟨h, List.length_replicate, ?_, ?_⟩
  · intro vs hvs; cases hvs
  · intro i ts hi
    rw [List.getElem?_replicate] at hi
    split at hi
    · simp at hi
    · cases hi

theorem push_inv {sh : Shape} {dim wdim : Nat} {st st' : St} {line : Nat} {closed : Bool}
    (hI : Inv sh dim wdim st)
    (h : (if closed = true then closeTop st line else .ok st) = .ok st') : Inv sh dim wdim st' := by
  split at h
  · exact closeTop_inv hI h
  · simp only [Except.ok.injEq] at h
    subst h
    exact hI

theorem openM_inv {sh : Shape} {dim wdim : Nat} {st st' : St} {line : Nat} {m : Markup}
    (hI : Inv sh dim wdim st) (h : openM st line m = .ok st') : Inv sh dim wdim st' := by
  obtain ⟨shape, d, wd, stack, node, links, deduct, unm⟩ := st
  obtain ⟨h1, h2, h2w, hw, h3, h4⟩ := hI
  simp only at h1 h2 h2w hw h3 h4
  subst h1 h2 h2w
  cases stack with
  | nil => simp [openM, gErr] at h
  | cons f rest =>
    cases f with
    | dummy =>
      simp only [openM] at h
      exact push_inv ⟨rfl, rfl, rfl, hw, h3, stackInv_push h4 (by trivial) (fun _ _ _ _ _ => by trivial)⟩ h
    | root =>
      simp only [openM] at h
      repeat' split at h
      all_goals first
        | (simp [gErr, cErr] at h; done)
        | exact closeTop_inv ⟨rfl, rfl, rfl, hw, h3, stackInv_push h4 (by trivial) (fun _ _ _ _ _ => by trivial)⟩ h
        | (simp only [Except.ok.injEq] at h; subst h
           exact ⟨rfl, rfl, rfl, hw, h3, stackInv_push h4 (by trivial) (fun _ _ _ _ _ => by trivial)⟩)
        | (obtain ⟨sizes, hsz, rfl⟩ := meshCreate_ok (by assumption)
           simp only [Except.ok.injEq] at h; subst h
           exact ⟨rfl, rfl, rfl, hw, h3, stackInv_push h4 (meshOk_init hsz) (fun _ _ _ _ hh => by cases hh)⟩)
        | (obtain ⟨_, _, _, _, _, _, _, rfl⟩ := partitionCreate_ok (by assumption)
           exact closeTop_inv ⟨rfl, rfl, rfl, hw, h3, stackInv_push h4 (by trivial) (fun _ _ _ _ _ => by trivial)⟩ h)
        | (obtain ⟨_, _, _, _, _, _, _, rfl⟩ := partitionCreate_ok (by assumption)
           simp only [Except.ok.injEq] at h; subst h
           exact ⟨rfl, rfl, rfl, hw, h3, stackInv_push h4 (by trivial) (fun _ _ _ _ _ => by trivial)⟩)
    | mesh sizes v topo =>
      simp only [openM] at h
      repeat' split at h
      all_goals first
        | (simp [gErr] at h; done)
        | (simp only [Except.ok.injEq] at h; subst h
           exact ⟨rfl, rfl, rfl, hw, h3, stackInv_push h4 (by trivial)
             (fun _ _ _ _ hh => by cases hh; exact ⟨rfl, Nat.zero_le _, fun _ hr => by cases hr⟩)⟩)
        | (obtain ⟨hc, _⟩ := topoCreate_ok (by assumption)
           have hc' : m.closed = true := by assumption
           rw [hc] at hc'; cases hc'; done)
        | (obtain ⟨_, dd, hd1, hd2, rfl⟩ := topoCreate_ok (by assumption)
           have ht : topo.length = d := h4.1.2.1
           simp only [Except.ok.injEq] at h; subst h
           exact ⟨rfl, rfl, rfl, hw, h3, stackInv_push h4 (by trivial)
             (fun _ _ _ _ hh => by
               cases hh
               exact ⟨hd1, by omega, rfl, rfl, rfl, Nat.zero_le _, fun _ hr => by cases hr⟩)⟩)
    | chart name c =>
      have hrest : stackInv shape d wd rest := stackInv_tail h4
      simp only [openM] at h
      repeat' split at h
      all_goals first
        | (simp [gErr] at h; done)
        | exact closeTop_inv ⟨rfl, rfl, rfl, hw, h3,
            stackInv_push (stackInv_push hrest (by trivial) (fun _ _ _ _ _ => by trivial))
              (by trivial) (fun _ _ _ _ hh => by cases hh)⟩ h
        | (simp only [Except.ok.injEq] at h; subst h
           exact ⟨rfl, rfl, rfl, hw, h3, stackInv_push hrest (by trivial) (fun _ _ _ _ _ => by trivial)⟩)
        | (simp only [Except.ok.injEq] at h; subst h
           exact ⟨rfl, rfl, rfl, hw, h3,
            stackInv_push (stackInv_push hrest (by trivial) (fun _ _ _ _ _ => by trivial))
              (by trivial) (fun _ _ _ _ hh => by cases hh)⟩)
    | chartItem => simp [openM, gErr] at h
    | bezierPoints _ _ _ => simp [openM, gErr] at h
    | bezierParams _ _ _ => simp [openM, gErr] at h
    | bezier sz cl o segs params =>
      simp only [openM] at h
      repeat' split at h
      all_goals first
        | (simp [gErr] at h; done)
        | exact closeTop_inv ⟨rfl, rfl, rfl, hw, h3, stackInv_push h4 (by trivial) (fun _ _ _ _ hh => by cases hh)⟩ h
        | (simp only [Except.ok.injEq] at h; subst h
           exact ⟨rfl, rfl, rfl, hw, h3, stackInv_push h4 (by trivial) (fun _ _ _ _ hh => by cases hh)⟩)
    | verts _ _ => simp [openM, gErr] at h
    | topo _ _ _ _ _ => simp [openM, gErr] at h
    | mapping _ _ _ => simp [openM, gErr] at h
    | attr _ _ _ _ => simp [openM, gErr] at h
    | patch _ _ _ _ _ => simp [openM, gErr] at h
    | part p =>
      simp only [openM] at h
      repeat' split at h
      all_goals first
        | (simp [gErr, cErr] at h; done)
        | exact closeTop_inv ⟨rfl, rfl, rfl, hw, h3, stackInv_push h4 (by trivial) (fun _ _ _ _ hh => by cases hh)⟩ h
        | (simp only [Except.ok.injEq] at h; subst h
           exact ⟨rfl, rfl, rfl, hw, h3, stackInv_push h4 (by trivial) (fun _ _ _ _ hh => by cases hh)⟩)
        | (obtain ⟨_, dd, hd1, hd2, rfl⟩ := topoCreate_ok (by assumption)
           exact closeTop_inv ⟨rfl, rfl, rfl, hw, h3, stackInv_push h4 (by trivial) (fun _ _ _ _ hh => by cases hh)⟩ h)
        | (obtain ⟨_, dd, hd1, hd2, rfl⟩ := topoCreate_ok (by assumption)
           simp only [Except.ok.injEq] at h; subst h
           exact ⟨rfl, rfl, rfl, hw, h3, stackInv_push h4 (by trivial) (fun _ _ _ _ hh => by cases hh)⟩)
    | partition name prio level nr ne patches =>
      simp only [openM] at h
      repeat' split at h
      all_goals first
        | (simp [gErr, cErr] at h; done)
        | exact closeTop_inv ⟨rfl, rfl, rfl, hw, h3, stackInv_push h4 (by trivial) (fun _ _ _ _ hh => by cases hh)⟩ h
        | (simp only [Except.ok.injEq] at h; subst h
           exact ⟨rfl, rfl, rfl, hw, h3, stackInv_push h4 (by trivial) (fun _ _ _ _ hh => by cases hh)⟩)

/-! ### the scanner loop and the final theorems -/

theorem scanLoop_inv {sh : Shape} {dim wdim : Nat} (lines : List Str) :
    ∀ (iline : Nat) (names : List Str) (st st' : St),
      Inv sh dim wdim st → scanLoop meshClient lines iline names st = .ok st' → Inv sh dim wdim st' := by
  induction lines with
  | nil =>
    intro iline names st st' _ h
    unfold scanLoop at h
    split at h <;> cases h
  | cons raw rest ih =>
    intro iline names st st' hI h
    unfold scanLoop at h
    simp only at h
    repeat' split at h
    all_goals first
      | (cases h; done)
      | exact ih _ _ _ _ hI h
      | exact ih _ _ _ _ (contentM_inv hI (by assumption)) h
      | exact ih _ _ _ _ (closeTop_inv hI (by assumption)) h
      | exact ih _ _ _ _ (openM_inv hI (by assumption)) h
      | (simp only [Except.ok.injEq] at h; subst h; exact closeTop_inv hI (by assumption))

/-- the initial parser state satisfies the invariant -/
theorem Inv_init (sh : Shape) (dim wdim : Nat) :
    Inv sh dim wdim { shape := sh, dim := dim, wdim := wdim, stack := [Frame.root],
                      node := { mesh := none, parts := [], partitions := [], wdim := wdim },
                      links := [], deduct := [], unmodelled := false } := by
  refine ⟨rfl, rfl, rfl, rfl, ?_, trivial, trivial, trivial⟩
  intro _ hm
  cases hm

/-- the linker's first loop only touches the `chart` fields of the mesh parts -/
theorem resolveLinks_fields : ∀ (links : List (Str × Str)) (n n' : Node), resolveLinks links n = some n' →
    n'.mesh = n.mesh ∧ n'.partitions = n.partitions ∧ n'.charts = n.charts
  | [], n, n', h => by simp [resolveLinks] at h; subst h; exact ⟨rfl, rfl, rfl⟩
  | (pn, cn) :: rest, n, n', h => by
    simp only [resolveLinks] at h
    split at h
    · cases h
    · have := resolveLinks_fields rest _ n' h; exact this

/-- the linker's last loop only touches the `topo` fields of the mesh parts -/
theorem resolveDeduct_fields : ∀ (ded : List Str) (n n' : Node), resolveDeduct ded n = some n' →
    n'.mesh = n.mesh ∧ n'.partitions = n.partitions ∧ n'.charts = n.charts
  | [], n, n', h => by simp [resolveDeduct] at h; subst h; exact ⟨rfl, rfl, rfl⟩
  | pn :: rest, n, n', h => by
    simp only [resolveDeduct] at h
    split at h
    · split at h
      · cases h
      · have := resolveDeduct_fields rest _ n' h; exact this
    · cases h

/-- the linker's first loop keeps the world dimension of the node -/
theorem resolveLinks_wdim : ∀ (links : List (Str × Str)) (n n' : Node), resolveLinks links n = some n' →
    n'.wdim = n.wdim
  | [], n, n', h => by simp [resolveLinks] at h; subst h; rfl
  | (pn, cn) :: rest, n, n', h => by
    simp only [resolveLinks] at h
    split at h
    · cases h
    · have := resolveLinks_wdim rest _ n' h; exact this

/-- the linker's last loop keeps the world dimension of the node -/
theorem resolveDeduct_wdim : ∀ (ded : List Str) (n n' : Node), resolveDeduct ded n = some n' →
    n'.wdim = n.wdim
  | [], n, n', h => by simp [resolveDeduct] at h; subst h; rfl
  | pn :: rest, n, n', h => by
    simp only [resolveDeduct] at h
    split at h
    · split at h
      · cases h
      · have := resolveDeduct_wdim rest _ n' h; exact this
    · cases h

/-- an accepted `parseBody` run, opened up: the final scanner state and the two linker loops -/
theorem parseBody_ok_run {sh sh' : Shape} {dim dim' wdim : Nat} {m : Markup} {iline : Nat} {rest : List Str}
    {n : Node} (h : parseBody sh dim wdim m iline rest = .ok sh' dim' n) :
    sh' = sh ∧ dim' = dim ∧ ∃ (st : St) (n1 : Node),
      scanLoop meshClient rest iline [m.name]
        { shape := sh, dim := dim, wdim := wdim, stack := [Frame.root],
          node := { mesh := none, parts := [], partitions := [], wdim := wdim },
          links := [], deduct := [], unmodelled := false } = .ok st ∧
      st.unmodelled = false ∧ resolveLinks st.links st.node = some n1 ∧ mapOutOfRange n1 = false ∧
      resolveDeduct st.deduct n1 = some n := by
  unfold parseBody at h
  split at h
  · cases h
  · simp only at h
    split at h
    · cases h
    · rename_i st hscan
      split at h
      · cases h
      · rename_i hu
        split at h
        · cases h
        · rename_i n1 hl
          split at h
          · cases h
          · rename_i ho
            split at h
            · cases h
            · rename_i n2 hd
              simp only [Outcome.ok.injEq] at h
              obtain ⟨rfl, rfl, rfl⟩ := h
              exact ⟨rfl, rfl, st, n1, hscan, by simpa using hu, hl, by simpa using ho, hd⟩

/-- an accepted `parseBody` run: the final scanner state satisfies the invariant and supplies the root mesh
    (the linker loops change mesh parts only); the reported shape and dimension are the ones `parseBody` was
    called with, and the node carries the world dimension `parseBody` was called with -/
theorem parseBody_ok_inv {sh sh' : Shape} {dim dim' wdim : Nat} {m : Markup} {iline : Nat} {rest : List Str}
    {n : Node} (h : parseBody sh dim wdim m iline rest = .ok sh' dim' n) :
    sh' = sh ∧ dim' = dim ∧ ∃ st : St, Inv sh dim wdim st ∧ n.mesh = st.node.mesh ∧ n.wdim = wdim := by
  obtain ⟨h1, h2, st, n1, hscan, _, hl, _, hd⟩ := parseBody_ok_run h
  have hI := scanLoop_inv _ _ _ _ _ (Inv_init sh dim wdim) hscan
  refine ⟨h1, h2, st, hI, ?_, ?_⟩
  · rw [(resolveDeduct_fields _ _ _ hd).1, (resolveLinks_fields _ _ _ hl).1]
  · rw [resolveDeduct_wdim _ _ _ hd, resolveLinks_wdim _ _ _ hl]
    exact hI.2.2.2.1

/-- `parseBody` reports exactly the shape and dimension it was called with -/
theorem parseBody_ok_type {sh sh' : Shape} {dim dim' wdim : Nat} {m : Markup} {iline : Nat} {rest : List Str}
    {n : Node} (h : parseBody sh dim wdim m iline rest = .ok sh' dim' n) : sh' = sh ∧ dim' = dim :=
  ⟨(parseBody_ok_inv h).1, (parseBody_ok_inv h).2.1⟩

/-- the node returned by `parseBody` carries the world dimension `parseBody` was called with -/
theorem parseBody_ok_wdim {sh sh' : Shape} {dim dim' wdim : Nat} {m : Markup} {iline : Nat} {rest : List Str}
    {n : Node} (h : parseBody sh dim wdim m iline rest = .ok sh' dim' n) : n.wdim = wdim := by
  obtain ⟨_, _, _, _, _, hw⟩ := parseBody_ok_inv h
  exact hw

/-- parser soundness (general form): the root mesh of an accepted file has the declared counts, all vertices
    have `wdim` coordinates and all topology indices are in range -/
theorem parseBody_mesh_wf' {sh sh' : Shape} {dim dim' wdim : Nat} {m : Markup} {iline : Nat} {rest : List Str}
    {n : Node} {msh : Mesh} (h : parseBody sh dim wdim m iline rest = .ok sh' dim' n)
    (hm : n.mesh = some msh) : msh.wf sh' dim' wdim = true := by
  obtain ⟨rfl, rfl, st, hI, he, _⟩ := parseBody_ok_inv h
  exact hI.2.2.2.2.1 msh (he ▸ hm)

theorem parseBody_mesh_wf (sh : Shape) (dim wdim : Nat) (m : Markup) (iline : Nat) (rest : List Str)
    (n : Node) (msh : Mesh) :
    parseBody sh dim wdim m iline rest = .ok sh dim n → n.mesh = some msh → msh.wf sh dim wdim = true :=
  fun h hm => parseBody_mesh_wf' h hm

/-- the node of an accepted file carries a world dimension for which `(sh, dim, n.wdim)` is one of the nine
    supported mesh types -/
theorem parseMeshFile_supported {text : Str} {sh : Shape} {dim : Nat} {n : Node}
    (h : parseMeshFile text = .ok sh dim n) : supported sh dim n.wdim = true := by
  unfold parseMeshFile at h
  split at h
  · cases h
  · split at h
    · cases h
    · cases h
    · rename_i sh0 sd wd _
      split at h
      · cases h
      · rename_i hsup
        have hsup' : supported sh0 sd wd = true := by simpa using hsup
        obtain ⟨rfl, rfl⟩ := parseBody_ok_type h
        rw [parseBody_ok_wdim h]
        have hsd : (0 : Int) ≤ sd ∧ (0 : Int) ≤ wd := by
          simp only [supported, Bool.or_eq_true, Bool.and_eq_true, beq_iff_eq] at hsup'
          omega
        rw [Int.toNat_of_nonneg hsd.1, Int.toNat_of_nonneg hsd.2]
        exact hsup'

theorem parseMeshFile_mesh_wf (text : Str) (sh : Shape) (dim : Nat) (n : Node) (msh : Mesh) :
    parseMeshFile text = .ok sh dim n → n.mesh = some msh → msh.wf sh dim n.wdim = true := by
  intro h hm
  unfold parseMeshFile at h
  repeat' split at h
  all_goals first
    | (cases h; done)
    | (rw [parseBody_ok_wdim h]; exact parseBody_mesh_wf' h hm)

/-- `Mesh.wf` spelled out as a proposition -/
theorem Mesh.wf_iff (sh : Shape) (dim wdim : Nat) (m : Mesh) :
    m.wf sh dim wdim = true ↔
      m.sizes.length = dim + 1 ∧ m.verts.length = m.sizes.getD 0 0 ∧ (∀ v ∈ m.verts, v.length = wdim) ∧
      m.topo.length = dim ∧
      ∀ i, i < dim → (m.topo.getD i []).length = m.sizes.getD (i + 1) 0 ∧
        ∀ t ∈ m.topo.getD i [], t.length = nverts sh (i + 1) ∧ ∀ x ∈ t, x < m.sizes.getD 0 0 := by
  simp only [Mesh.wf, Bool.and_eq_true, beq_iff_eq, List.all_eq_true, List.mem_range, tuplesOk_iff,
    and_assoc]

/-- parser soundness, spelled out: in an accepted file every topology index refers to an existing vertex -/
theorem parseMeshFile_indices_in_range {text : Str} {sh : Shape} {dim : Nat} {n : Node} {msh : Mesh}
    (h : parseMeshFile text = .ok sh dim n) (hm : n.mesh = some msh) :
    ∀ i, i < dim → ∀ t ∈ msh.topo.getD i [], ∀ x ∈ t, x < msh.verts.length := by
  have hw := (Mesh.wf_iff sh dim n.wdim msh).1 (parseMeshFile_mesh_wf text sh dim n msh h hm)
  intro i hi t ht x hx
  rw [hw.2.1]
  exact ((hw.2.2.2.2 i hi).2 t ht).2 x hx

/-- the world dimension of an accepted file: the triple is supported and every vertex of the root mesh has
    exactly `n.wdim` coordinates -/
theorem parseMeshFile_world_dim {text : Str} {sh : Shape} {dim : Nat} {n : Node}
    (h : parseMeshFile text = .ok sh dim n) :
    supported sh dim n.wdim = true ∧ (∀ m, n.mesh = some m → ∀ v ∈ m.verts, v.length = n.wdim) :=
  ⟨parseMeshFile_supported h, fun m hm =>
    ((Mesh.wf_iff sh dim n.wdim m).1 (parseMeshFile_mesh_wf text sh dim n m h hm)).2.2.1⟩

end FeatModel.C11
