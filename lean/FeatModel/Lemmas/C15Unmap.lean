import FeatModel.Model.FEUnmap
import FeatModel.Lemmas.C15Volume
/-! `InverseMapping::unmap_point_by_newton`: soundness on convergence; exactness on affine (simplex) cells. -/
namespace FeatModel.FE
open FeatModel.Poly

/-- fixed-point property on convergence, every cell geometry: if the iteration reports convergence, the returned
    reference point is mapped to the requested point up to the Newton tolerance -/
theorem newtonLoop_sound (k : Kind) (d : Nat) (V : List (List Rat)) (p : List Rat) (n : Nat) (x r : List Rat)
    (h : newtonLoop k d V p n x = (true, r)) : defectSq k d V p r < newtonTolSq := by
  induction n generalizing x with
  | zero => simp [newtonLoop] at h
  | succ n ih =>
    unfold newtonLoop at h
    by_cases h1 : defectSq k d V p x < newtonTolSq
    · simp only [h1, if_true, Prod.mk.injEq, true_and] at h
      rw [← h]; exact h1
    · simp only [h1, if_false] at h
      by_cases h2 : det d (jacMat k d V x) = 0
      · simp [h2] at h
      · simp only [h2, if_false] at h
        exact ih _ h

/-- the transformation of a triangle in closed form -/
theorem mapPoint_S2 (V : List (List Rat)) (hV : worldDim V = 2) (s t : Rat) :
    mapPoint Kind.S 2 V [s, t]
      = [ (V.getD 0 []).getD 0 0 + s * ((V.getD 1 []).getD 0 0 - (V.getD 0 []).getD 0 0)
            + t * ((V.getD 2 []).getD 0 0 - (V.getD 0 []).getD 0 0),
          (V.getD 0 []).getD 1 0 + s * ((V.getD 1 []).getD 1 0 - (V.getD 0 []).getD 1 0)
            + t * ((V.getD 2 []).getD 1 0 - (V.getD 0 []).getD 1 0) ] := by
  simp only [mapPoint, hV, List.range_succ, List.range_zero, List.nil_append, List.cons_append, List.map_cons,
    List.map_nil, mapPoly, numVerts, Poly.sum, List.foldr_cons, List.foldr_nil, shapeFn, unitMono, List.replicate,
    evalAt, eval_add, eval_smul]
  simp only [eval, monoEval, rpow, pt, List.getD_cons_zero, List.getD_cons_succ, List.cons.injEq, and_true]
  norm_num [rpow]
  constructor <;> ring

/-- the Jacobian of a triangle is constant -/
theorem jacMat_S2 (V : List (List Rat)) (hV : worldDim V = 2) (x : List Rat) :
    jacMat Kind.S 2 V x
      = [ [(V.getD 1 []).getD 0 0 - (V.getD 0 []).getD 0 0, (V.getD 2 []).getD 0 0 - (V.getD 0 []).getD 0 0],
          [(V.getD 1 []).getD 1 0 - (V.getD 0 []).getD 1 0, (V.getD 2 []).getD 1 0 - (V.getD 0 []).getD 1 0] ] := by
  have d := fun i j hi hj => dS Kind.S 2 3 2 _ dShape_S2 i j hi hj
  have e : ∀ a j, a < 2 → j < 2 → evalAt x (FeatModel.Poly.pderiv j (mapPoly Kind.S 2 V a)) = evalAt x (jacPoly Kind.S 2 V a j) :=
    fun a j _ _ => (jacPoly_eval Kind.S 2 V a j x).symm
  simp only [jacMat, hV, List.range_succ, List.range_zero, List.nil_append, List.cons_append, List.map_cons,
    List.map_nil, e 0 0 (by omega) (by omega), e 0 1 (by omega) (by omega), e 1 0 (by omega) (by omega),
    e 1 1 (by omega) (by omega)]
  simp only [jacPoly, numVerts, List.range_succ, List.range_zero, List.nil_append, List.cons_append, List.map_cons,
    List.map_nil, Poly.sum, List.foldr_cons, List.foldr_nil,
    d 0 0 (by omega) (by omega), d 0 1 (by omega) (by omega), d 1 0 (by omega) (by omega), d 1 1 (by omega) (by omega),
    d 2 0 (by omega) (by omega), d 2 1 (by omega) (by omega), List.getD_cons_zero, List.getD_cons_succ,
    evalAt, eval_add, eval_smul]
  simp only [eval, monoEval, rpow, List.cons.injEq, and_true]
  refine ⟨⟨?_, ?_⟩, ⟨?_, ?_⟩⟩ <;> ring

/-- **one Newton step is exact on an affine cell**: from any start `[a, b]`, the step for the target `T(s, t)` lands
    on `(s, t)` -/
theorem newton_step_exact_S2 (V : List (List Rat)) (hV : worldDim V = 2) (s t a b : Rat)
    (hdet : det 2 (jacMat Kind.S 2 V [a, b]) ≠ 0) :
    newtonStep Kind.S 2 V (mapPoint Kind.S 2 V [s, t]) [a, b] = [s, t] := by
  obtain ⟨e00, e01, e10, e11⟩ := inv2_entries (jacMat Kind.S 2 V [a, b])
  have hd : det 2 (jacMat Kind.S 2 V [a, b])
      = mat (jacMat Kind.S 2 V [a, b]) 0 0 * mat (jacMat Kind.S 2 V [a, b]) 1 1
        - mat (jacMat Kind.S 2 V [a, b]) 0 1 * mat (jacMat Kind.S 2 V [a, b]) 1 0 := rfl
  simp only [newtonStep, List.range_succ, List.range_zero, List.nil_append, List.cons_append, List.map_cons,
    List.map_nil, sumR, List.foldl_cons, List.foldl_nil, e00, e01, e10, e11, mapPoint_S2 V hV, vsub,
    List.zipWith_cons_cons, List.zipWith_nil_right, List.getD_cons_zero, List.getD_cons_succ]
  rw [hd] at hdet ⊢
  simp only [jacMat_S2 V hV, mat, List.getD_cons_zero, List.getD_cons_succ] at hdet ⊢
  simp only [List.cons.injEq, and_true]
  generalize hD : ((V.getD 1 []).getD 0 0 - (V.getD 0 []).getD 0 0) * ((V.getD 2 []).getD 1 0 - (V.getD 0 []).getD 1 0) -
      ((V.getD 2 []).getD 0 0 - (V.getD 0 []).getD 0 0) * ((V.getD 1 []).getD 1 0 - (V.getD 0 []).getD 1 0) = D at hdet ⊢
  constructor <;> (field_simp; rw [← hD]; ring)

theorem defectSq_self_S2 (V : List (List Rat)) (hV : worldDim V = 2) (s t : Rat) :
    defectSq Kind.S 2 V (mapPoint Kind.S 2 V [s, t]) [s, t] = 0 := by
  simp [defectSq, normSq, vsub, mapPoint_S2 V hV]

/-- **`unmap(map(x)) = x` on affine cells** (triangles of either orientation, any non-degenerate vertex coordinates):
    the model of `unmap_point_by_newton` applied to `T(s, t)` converges and returns exactly `(s, t)` – unless the
    target is already within the tolerance of the image of the centre, in which case the iteration stops there -/
theorem unmap_map_S2 (V : List (List Rat)) (hV : worldDim V = 2) (s t : Rat)
    (hdet : det 2 (jacMat Kind.S 2 V []) ≠ 0) :
    ∃ r, unmapNewton Kind.S 2 V (mapPoint Kind.S 2 V [s, t]) = (true, r) ∧
      (r = [s, t] ∨ (r = refCentre Kind.S 2 ∧
        defectSq Kind.S 2 V (mapPoint Kind.S 2 V [s, t]) (refCentre Kind.S 2) < newtonTolSq)) := by
  have hc : refCentre Kind.S 2 = [1 / ((2 : Rat) + 1), 1 / ((2 : Rat) + 1)] := rfl
  have hJ : ∀ x y, jacMat Kind.S 2 V x = jacMat Kind.S 2 V y := fun x y => by
    rw [jacMat_S2 V hV x, jacMat_S2 V hV y]
  unfold unmapNewton
  rw [show (10 : Nat) = 9 + 1 from rfl, newtonLoop]
  by_cases h1 : defectSq Kind.S 2 V (mapPoint Kind.S 2 V [s, t]) (refCentre Kind.S 2) < newtonTolSq
  · exact ⟨refCentre Kind.S 2, by simp [h1], Or.inr ⟨rfl, h1⟩⟩
  · have hd2 : det 2 (jacMat Kind.S 2 V (refCentre Kind.S 2)) ≠ 0 := by rw [hJ _ []]; exact hdet
    simp only [h1, if_false, hd2]
    rw [hc] at hd2 ⊢
    rw [newton_step_exact_S2 V hV s t _ _ hd2, show (9 : Nat) = 8 + 1 from rfl, newtonLoop]
    have h0 : defectSq Kind.S 2 V (mapPoint Kind.S 2 V [s, t]) [s, t] < newtonTolSq := by
      rw [defectSq_self_S2 V hV]; norm_num [newtonTolSq]
    exact ⟨[s, t], by simp [h0], Or.inl rfl⟩

end FeatModel.FE
