import FeatModel.Lemmas.C20Step3
/-! C20 helper lemmas, part 8: move, layouts; the step theorem; consequences -/
namespace FeatModel.Pool

theorem inv_move {s s' : State} {a b : Nat} (hi : Inv s) (h : step s (.move a b) = .ok s') : Inv s' := by
  unfold step at h
  simp only at h
  split at h
  · cases h
  · rename_i cb hb
    split at h
    · cases h
    · rename_i hc
      simp only [decide_eq_true_eq, Nat.not_le] at hc
      have hbl := slot_lt hb
      split at h
      · rename_i hsa
        injection h with h; subst h
        have hab : a ≠ b := by intro e; subst e; rw [hsa] at hb; cases hb
        have := inv_setSlot2 (s := s) (p' := s.pool) (x := some cb) (y := some cb.movedFrom) hi hc hbl hab
          (by
            intro j
            rw [hsa, hb]
            simp only [optIds, ownIds_movedFrom, List.count_append, List.count_nil]
            omega) hi.1
        exact this
      · rename_i ca hsa
        split at h
        · cases h
        · split at h
          · injection h with h; subst h; exact hi
          · rename_i hab
            split at h
            · cases h
            · rename_i p1 c1 c2 hm
              injection h with h; subst h
              obtain ⟨d, hp1⟩ := delta_moveAssign hm hi.1
              refine inv_setSlot2 hi hc hbl hab ?_ hp1
              rw [hsa, hb]; exact d

theorem layIds_layoutInds (o : Option Layout) : idsOf (layoutInds o) = layIds o := by
  cases o <;> rfl

theorem inv_lay {s s' : State} {l a : Nat} (hi : Inv s) (h : step s (.lay l a) = .ok s') : Inv s' := by
  unfold step at h
  simp only at h
  split at h
  · cases h
  · rename_i ca hsa
    split at h
    · cases h
    · rename_i hc
      simp only [Bool.or_eq_true, decide_eq_true_eq, not_or, Nat.not_le, Nat.not_lt] at hc
      obtain ⟨hl, _⟩ := hc
      split at h
      · cases h
      · split at h
        · cases h
        · rename_i p1 hinc
          obtain ⟨d1, hp1⟩ := delta_incrAll hinc hi.1
          split at h
          · cases h
          · rename_i p2 hrel
            obtain ⟨d2, hp2⟩ := delta_releaseAll hrel hp1
            injection h with h; subst h
            refine inv_setLay hi hl.1.1 ?_ hp2
            rw [layIds_layoutInds] at d2
            intro j
            have := d1 j; have := d2 j
            simp only [layIds, List.count_nil] at *
            omega

theorem delta_fromLayout {p p' : Pool} {old : Option Cont} {k d : Nat} {L : Layout} {fill : Int} {c' : Cont}
    (h : Cont.fromLayout p old k d L fill = .ok (p', c')) (hp : PoolPos p) (hb : mlayBad old L = false) :
    Delta p p' c'.ownIds (optIds old) ∧ PoolPos p' := by
  unfold Cont.fromLayout at h
  split at h
  · cases h
  · rename_i p0 hpre
    have h0 : Delta p p0 [] (optIds old) ∧ PoolPos p0 := by
      unfold layoutPre at hpre
      split at hpre
      · split at hpre
        · cases hpre
        · injection hpre with e; subst e; exact ⟨Delta.refl p, hp⟩
      · rename_i ca
        have hf : ca.foreign = false := by
          unfold mlayBad at hb; simp only [Bool.or_eq_false_iff] at hb; exact hb.2
        have := delta_releaseAll hpre hp
        simp only [optIds, Cont.ownIds, Cont.owned, hf, Bool.false_eq_true, if_false]
        exact this
    obtain ⟨d0, hp0⟩ := h0
    split at h
    · cases h
    · rename_i p1 hinc
      obtain ⟨d1, hp1⟩ := delta_incrAll hinc hp0
      split at h
      · cases h
      · rename_i ne hne
        injection h with h; injection h with e1 e2; subst e1; subst e2
        refine ⟨?_, posAlloc _ _ _ _ hp1⟩
        intro j
        have := d0 j; have := d1 j; have := delta_alloc' p1 ne (esz d) (iota fill ne) j
        simp only [Cont.ownIds, Cont.owned, Cont.empty, idsOf_append, idsOf_cons,
          idsOf_nil, List.count_append, List.count_nil, Bool.false_eq_true, if_false] at *
        omega

theorem inv_mlay {s s' : State} {a l kind dt : Nat} {fill : Int} (hi : Inv s)
    (h : step s (.mlay a l kind dt fill) = .ok s') : Inv s' := by
  unfold step at h
  simp only at h
  split at h
  · cases h
  · rename_i L hL
    split at h
    · cases h
    · rename_i hc
      simp only [decide_eq_true_eq, Nat.not_le] at hc
      split at h
      · cases h
      · split at h
        · cases h
        · rename_i hbad
          split at h
          · cases h
          · rename_i p1 c1 hr
            injection h with h; subst h
            obtain ⟨d, hp1⟩ := delta_fromLayout hr hi.1 (by simpa using hbad)
            exact inv_setSlot hi hc d hp1

theorem inv_mk {s s' : State} {a kind dt it n : Nat} {v : Int} (hi : Inv s)
    (h : step s (.mk a kind dt it n v) = .ok s') : Inv s' := by
  unfold step at h
  simp only at h
  split at h
  · cases h
  · rename_i hc
    simp only [Bool.or_eq_true, decide_eq_true_eq, not_or, Nat.not_le, Bool.not_eq_true] at hc
    obtain ⟨⟨⟨⟨ha, hs⟩, _⟩, _⟩, _⟩ := hc
    have hn := slot_none_ids hs
    split at h
    · injection h with h; subst h
      have d1 := delta_alloc' s.pool (2 * n) (esz dt) (iota v (2 * n))
      refine inv_setSlot hi ha ?_ (posAlloc _ _ _ _ hi.1)
      rw [hn]
      refine d1.congr ?_ (fun j => rfl)
      intro j
      simp only [optIds, Cont.ownIds, Cont.owned, Cont.empty, idsOf_append, idsOf_cons, idsOf_nil,
        List.count_append, List.count_nil, Bool.false_eq_true, if_false]
      omega
    · split at h
      · injection h with h; subst h
        have d1 := delta_alloc' s.pool n (isz it) ((List.range n).map (fun (i : Nat) => ((i % 2 : Nat) : Int)))
        have p1 := posAlloc s.pool n (isz it) ((List.range n).map (fun (i : Nat) => ((i % 2 : Nat) : Int))) hi.1
        have d2 := delta_alloc' (alloc s.pool n (isz it) ((List.range n).map (fun (i : Nat) => ((i % 2 : Nat) : Int)))).1
          2 (isz it) [0, (n : Int)]
        have p2 := posAlloc _ 2 (isz it) [0, (n : Int)] p1
        have d3 := delta_alloc' (alloc (alloc s.pool n (isz it)
          ((List.range n).map (fun (i : Nat) => ((i % 2 : Nat) : Int)))).1 2 (isz it) [0, (n : Int)]).1 1 (isz it) [0]
        have p3 := posAlloc _ 1 (isz it) [0] p2
        have d4 := delta_alloc' (alloc (alloc (alloc s.pool n (isz it)
          ((List.range n).map (fun (i : Nat) => ((i % 2 : Nat) : Int)))).1 2 (isz it) [0, (n : Int)]).1 1 (isz it)
          [0]).1 n (esz dt) (iota v n)
        have p4 := posAlloc _ n (esz dt) (iota v n) p3
        refine inv_setSlot hi ha ?_ p4
        rw [hn]
        refine (((d1.trans d2).trans d3).trans d4).congr ?_ (fun j => rfl)
        intro j
        simp only [optIds, Cont.ownIds, Cont.owned, Cont.empty, idsOf_append, idsOf_cons, idsOf_nil,
          List.count_append, List.count_nil, Bool.false_eq_true, if_false]
        omega
      · injection h with h; subst h
        have d1 := delta_alloc' s.pool (if kind = 7 then n else 2 * n) (esz dt) (iota v (if kind = 7 then n else 2 * n))
        have p1 := posAlloc s.pool (if kind = 7 then n else 2 * n) (esz dt) (iota v (if kind = 7 then n else 2 * n)) hi.1
        have d2 := delta_alloc' (alloc s.pool (if kind = 7 then n else 2 * n) (esz dt)
          (iota v (if kind = 7 then n else 2 * n))).1 n (isz it) (iota 0 n)
        have p2 := posAlloc _ n (isz it) (iota 0 n) p1
        refine inv_setSlot hi ha ?_ p2
        rw [hn]
        refine (d1.trans d2).congr ?_ (fun j => rfl)
        intro j
        simp only [optIds, Cont.ownIds, Cont.owned, Cont.empty, idsOf_append, idsOf_cons, idsOf_nil,
          List.count_append, List.count_nil, Bool.false_eq_true, if_false]
        omega

theorem inv_copy {s s' : State} {a b full : Nat} (hi : Inv s) (h : step s (.copy a b full) = .ok s') : Inv s' := by
  unfold step at h
  simp only at h
  split at h
  · rename_i ca cb hsa hsb
    split at h
    · cases h
    · split at h
      · injection h with h; subst h; exact hi
      · split at h
        · cases h
        · split at h
          · cases h
          · injection h with h; subst h
            obtain ⟨d1, p1⟩ := delta_copyArrs (if full != 0 then (ca.inds.zip (cb.inds.zip ca.indsSize)) else []) s.pool hi.1
            obtain ⟨d2, p2⟩ := delta_copyArrs (ca.elems.zip (cb.elems.zip ca.elemsSize)) _ p1
            refine inv_setSlot hi (slot_lt hsa) ?_ p2
            intro j
            have := d1 j; have := d2 j
            rw [hsa]
            have e : optIds (some (if full != 0 then { ca with sidx := cb.sidx } else ca)) = optIds (some ca) := by
              split <;> rfl
            rw [e]
            simp only [List.count_nil] at *
            omega
  · cases h

theorem lay_setLay_ne (s : State) (a b : Nat) (x : Option Layout) (h : a ≠ b) :
    (s.setLay a x).lay b = s.lay b := by
  unfold State.setLay State.lay
  simp only
  rw [List.getElem?_set_ne h]

theorem length_setLay (s : State) (a : Nat) (x : Option Layout) : (s.setLay a x).lays.length = s.lays.length := by
  unfold State.setLay; simp

theorem inv_setLay2 {s : State} {p' : Pool} {a b : Nat} {x y : Option Layout} (hi : Inv s)
    (ha : a < s.lays.length) (hb : b < s.lays.length) (hab : a ≠ b)
    (hd : Delta s.pool p' (layIds x ++ layIds y) (layIds (s.lay a) ++ layIds (s.lay b))) (hp : PoolPos p') :
    Inv (({ s with pool := p' }.setLay a x).setLay b y) := by
  refine ⟨hp, ?_⟩
  intro j
  have h1 := own_setLay ({ s with pool := p' } : State) a x ha j
  have h2 := own_setLay (({ s with pool := p' } : State).setLay a x) b y (by rw [length_setLay]; exact hb) j
  rw [lay_setLay_ne ({ s with pool := p' } : State) a b x hab] at h2
  have h3 := hi.2 j
  have h4 := hd j
  have e1 : ({ s with pool := p' } : State).ownIds = s.ownIds := rfl
  have e2 : ({ s with pool := p' } : State).lay a = s.lay a := rfl
  have e3 : ({ s with pool := p' } : State).lay b = s.lay b := rfl
  rw [e1, e2] at h1
  rw [e3] at h2
  simp only [List.count_append] at h4
  show count p' j = _
  omega

theorem inv_lmove {s s' : State} {d src : Nat} (hi : Inv s) (h : step s (.lmove d src) = .ok s') : Inv s' := by
  unfold step at h
  simp only at h
  split at h
  · cases h
  · rename_i Ls hLs
    split at h
    · cases h
    · rename_i hc
      simp only [decide_eq_true_eq, Nat.not_le] at hc
      split at h
      · injection h with h; subst h; exact hi
      · rename_i hne
        split at h
        · cases h
        · split at h
          · cases h
          · rename_i p1 hr
            injection h with h; subst h
            obtain ⟨dl, hp1⟩ := delta_releaseAll hr hi.1
            refine inv_setLay2 hi hc (lay_lt hLs) hne ?_ hp1
            rw [layIds_layoutInds] at dl
            intro j
            have := dl j
            rw [hLs]
            simp only [layIds, Layout.movedFrom, idsOf, List.count_append, List.count_nil] at *
            omega

theorem inv_lvec {s s' : State} {k : Nat} (hi : Inv s) (h : step s (.lvec k) = .ok s') : Inv s' := by
  unfold step at h
  injection h with h; subst h; exact hi

end FeatModel.Pool
