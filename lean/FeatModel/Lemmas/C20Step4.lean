import FeatModel.Lemmas.C20Step3
/-! C20 helper lemmas, part 8: move, layouts; the step theorem; consequences -/
namespace FeatModel.Pool

theorem inv_move {s s' : State} {a b : Nat} (hi : Inv s) (h : step s (.move a b) = .ok s') : Inv s' := by
  unfold step at h
  simp only at h
  split at h
  · cases h
  · rename_i cb hb
    split at h
    · cases h
    · rename_i hc
      simp only [decide_eq_true_eq, Nat.not_le] at hc
      have hbl := slot_lt hb
      split at h
      · rename_i hsa
        injection h with h; subst h
        have hab : a ≠ b := by intro e; subst e; rw [hsa] at hb; cases hb
        have := inv_setSlot2 (s := s) (p' := s.pool) (x := some cb) (y := some cb.movedFrom) hi hc hbl hab
          (by
            intro j
            rw [hsa, hb]
            simp only [optIds, ownIds_movedFrom, List.count_append, List.count_nil]
            omega) hi.1
        exact this
      · rename_i ca hsa
        split at h
        · cases h
        · split at h
          · injection h with h; subst h; exact hi
          · rename_i hab
            split at h
            · cases h
            · rename_i p1 c1 c2 hm
              injection h with h; subst h
              obtain ⟨d, hp1⟩ := delta_moveAssign hm hi.1
              refine inv_setSlot2 hi hc hbl hab ?_ hp1
              rw [hsa, hb]; exact d

theorem layIds_layoutInds (o : Option Layout) : idsOf (layoutInds o) = layIds o := by
  cases o <;> rfl

theorem inv_lay {s s' : State} {l a : Nat} (hi : Inv s) (h : step s (.lay l a) = .ok s') : Inv s' := by
  unfold step at h
  simp only at h
  split at h
  · cases h
  · rename_i ca hsa
    split at h
    · cases h
    · rename_i hc
      simp only [Bool.or_eq_true, decide_eq_true_eq, not_or, Nat.not_le, Nat.not_lt] at hc
      obtain ⟨hl, _⟩ := hc
      split at h
      · cases h
      · split at h
        · cases h
        · rename_i p1 hinc
          obtain ⟨d1, hp1⟩ := delta_incrAll hinc hi.1
          split at h
          · cases h
          · rename_i p2 hrel
            obtain ⟨d2, hp2⟩ := delta_releaseAll hrel hp1
            injection h with h; subst h
            refine inv_setLay hi hl ?_ hp2
            rw [layIds_layoutInds] at d2
            intro j
            have := d1 j; have := d2 j
            simp only [layIds, List.count_nil] at *
            omega

theorem inv_mlay {s s' : State} {a l kind dt : Nat} {fill : Int} (hi : Inv s)
    (h : step s (.mlay a l kind dt fill) = .ok s') : Inv s' := by
  unfold step at h
  simp only at h
  split at h
  · cases h
  · rename_i L hL
    split at h
    · cases h
    · rename_i hc
      simp only [decide_eq_true_eq, Nat.not_le] at hc
      cases hsa : s.slot a with
      | none =>
        simp only [hsa] at h
        split at h
        · cases h
        · split at h
          · cases h
          · split at h
            · cases h
            · rename_i p0 hr0
              have e0 : p0 = s.pool := by
                split at hr0
                · cases hr0
                · injection hr0 with e; exact e.symm
              subst e0
              split at h
              · cases h
              · rename_i p1 hinc
                obtain ⟨d1, hp1⟩ := delta_incrAll hinc hi.1
                split at h
                · cases h
                · rename_i ne hne
                  injection h with h; subst h
                  have d2 := delta_alloc' p1 ne (esz kind.succ.pred) (iota fill ne)
                  refine inv_setSlot hi hc ?_ (posAlloc _ _ _ _ hp1)
                  intro j
                  have := d1 j; have := delta_alloc' p1 ne (esz dt) (iota fill ne) j
                  simp only [hsa, optIds, Cont.ownIds, Cont.owned, Cont.empty, idsOf_append, idsOf_cons,
                    idsOf_nil, List.count_append, List.count_nil, Bool.false_eq_true, if_false] at *
                  omega
      | some ca =>
        simp only [hsa] at h
        split at h
        · cases h
        · split at h
          · cases h
          · rename_i hf
            simp only [Bool.or_eq_true, not_or, Bool.not_eq_true] at hf
            split at h
            · cases h
            · rename_i p0 hr0
              obtain ⟨d0, hp0⟩ := delta_releaseAll hr0 hi.1
              split at h
              · cases h
              · rename_i p1 hinc
                obtain ⟨d1, hp1⟩ := delta_incrAll hinc hp0
                split at h
                · cases h
                · rename_i ne hne
                  injection h with h; subst h
                  refine inv_setSlot hi hc ?_ (posAlloc _ _ _ _ hp1)
                  intro j
                  have := d0 j; have := d1 j; have := delta_alloc' p1 ne (esz ca.dt) (iota fill ne) j
                  simp only [hsa, hf.2, optIds, Cont.ownIds, Cont.owned, Cont.empty, idsOf_append, idsOf_cons,
                    idsOf_nil, List.count_append, List.count_nil, Bool.false_eq_true, if_false] at *
                  omega

end FeatModel.Pool
