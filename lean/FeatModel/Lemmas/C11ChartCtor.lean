import FeatModel.Model.MeshFile
/-! C11 — the chart parsers never reach the assertions of the chart constructors:
`Circle(mid_x, mid_y, radius[, param_l, param_r])` and `Sphere(mid_x, mid_y, mid_z, radius)` assert `radius > 0`
(always-active XASSERTM); `CircleChartParser::create` / `SphereChartParser::create` accept a radius iff it is not below
`CoordType(1E-5)`. -/
namespace FeatModel.C11

/-- the precondition asserted by the chart constructors -/
def Chart.ctorOk : Chart → Prop
  | .circle r _ _ _ => 0 < r
  | .sphere r _ _ _ => 0 < r
  | .bezier _ _ _ _ => True       -- the Bezier constructor asserts nothing about a radius

def Chart.radius : Chart → Rat
  | .circle r _ _ _ => r
  | .sphere r _ _ _ => r
  | .bezier _ _ _ _ => 1          -- no radius (never produced by the Circle / Sphere parsers)

theorem radiusMin_pos : 0 < radiusMin := by
  unfold radiusMin
  decide

theorem circleCreate_radius {line : Nat} {m : Markup} {c : Chart} {deg : Bool}
    (h : circleCreate line m = .ok (c, deg)) :
    ∃ rs r, attrOf m "radius" = some rs ∧ readQ rs = some r ∧ ¬ r < radiusMin ∧ c.radius = r := by
  unfold circleCreate at h
  split at h
  · rename_i rs ms hrs hms
    split at h
    · exact absurd h (by simp [gErr])
    · rename_i r hr
      split at h
      · exact absurd h (by simp [gErr])
      · rename_i hlt
        refine ⟨rs, r, hrs, hr, hlt, ?_⟩
        repeat' split at h
        all_goals first
          | (cases h; rfl)
          | (simp [gErr] at h)
  · exact absurd h (by simp [gErr])

theorem sphereCreate_radius {line : Nat} {m : Markup} {c : Chart}
    (h : sphereCreate line m = .ok c) :
    ∃ rs r, attrOf m "radius" = some rs ∧ readQ rs = some r ∧ ¬ r < radiusMin ∧ c.radius = r := by
  unfold sphereCreate at h
  split at h
  · rename_i rs ms hrs hms
    split at h
    · exact absurd h (by simp [gErr])
    · rename_i r hr
      split at h
      · exact absurd h (by simp [gErr])
      · rename_i hlt
        refine ⟨rs, r, hrs, hr, hlt, ?_⟩
        repeat' split at h
        all_goals first
          | (cases h; rfl)
          | (simp [gErr] at h)
  · exact absurd h (by simp [gErr])

theorem ctorOk_of_radius {c : Chart} (h : ¬ c.radius < radiusMin) : c.ctorOk := by
  have hp := radiusMin_pos
  have : radiusMin ≤ c.radius := Rat.not_lt.mp h
  cases c with
  | circle => exact Std.lt_of_lt_of_le hp this
  | sphere => exact Std.lt_of_lt_of_le hp this
  | bezier => trivial

/-- acceptance by the Circle parser implies the constructor's precondition: the XASSERT is unreachable -/
theorem circleCreate_ctorOk {line : Nat} {m : Markup} {c : Chart} {deg : Bool}
    (h : circleCreate line m = .ok (c, deg)) : c.ctorOk := by
  obtain ⟨_, r, _, _, hlt, hr⟩ := circleCreate_radius h
  exact ctorOk_of_radius (by rw [hr]; exact hlt)

theorem sphereCreate_ctorOk {line : Nat} {m : Markup} {c : Chart}
    (h : sphereCreate line m = .ok c) : c.ctorOk := by
  obtain ⟨_, r, _, _, hlt, hr⟩ := sphereCreate_radius h
  exact ctorOk_of_radius (by rw [hr]; exact hlt)

/-- a radius below the threshold (in particular every negative or zero radius) is rejected with a grammar error -/
theorem circleCreate_small_radius_rejected (line : Nat) (m : Markup) (rs ms : Str) (r : Rat)
    (h1 : attrOf m "radius" = some rs) (h2 : attrOf m "midpoint" = some ms) (h3 : readQ rs = some r)
    (h4 : r < radiusMin) : circleCreate line m = gErr line := by
  unfold circleCreate
  rw [h1, h2]
  simp only [h3, h4, if_true]

theorem sphereCreate_small_radius_rejected (line : Nat) (m : Markup) (rs ms : Str) (r : Rat)
    (h1 : attrOf m "radius" = some rs) (h2 : attrOf m "midpoint" = some ms) (h3 : readQ rs = some r)
    (h4 : r < radiusMin) : sphereCreate line m = gErr line := by
  unfold sphereCreate
  rw [h1, h2]
  simp only [h3, h4, if_true]

theorem nonpositive_radius_below_min (r : Rat) (h : r ≤ 0) : r < radiusMin :=
  Std.lt_of_le_of_lt h radiusMin_pos

end FeatModel.C11
