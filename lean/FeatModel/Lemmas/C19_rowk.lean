import FeatModel.Model.Adjacency
import FeatModel.Model.AdjKernels
import FeatModel.Lemmas.C19_walk
import FeatModel.Lemmas.C19_renders
/-! C19 lemmas, group `rowk` (statements fixed by Props/C19.statements) -/
open FeatModel.Adj

namespace C19L.rowk

/-! ### `renderRows_spec` -/

def psum (f : Nat → Nat) (k : Nat) : Nat := ((List.range k).map f).sum

theorem psum_succ (f : Nat → Nat) (k : Nat) : psum f (k+1) = psum f k + f k := by
  simp [psum, List.range_succ, List.sum_append]

theorem psum_mono (f : Nat → Nat) {k n : Nat} (h : k ≤ n) : psum f k ≤ psum f n := by
  induction n with
  | zero => have : k = 0 := by omega
            subst this; exact Nat.le_refl _
  | succ n ih =>
    rcases Nat.lt_or_ge k (n+1) with h1 | h1
    · have := ih (by omega); rw [psum_succ]; omega
    · have : k = n+1 := by omega
      subst this; exact Nat.le_refl _

theorem prefixSums_append (acc : Nat) (l : List Nat) (x : Nat) :
    Graph.prefixSums acc (l ++ [x]) = Graph.prefixSums acc l ++ [acc + l.sum + x] := by
  induction l generalizing acc with
  | nil => simp [Graph.prefixSums]
  | cons y ys ih => simp [Graph.prefixSums, ih]; omega

theorem prefixSums_range (f : Nat → Nat) (n : Nat) :
    Graph.prefixSums 0 ((List.range n).map f) = (List.range (n+1)).map (psum f) := by
  induction n with
  | zero => simp [Graph.prefixSums, psum]
  | succ n ih =>
    rw [List.range_succ, List.map_append, List.map_singleton, prefixSums_append, ih,
      List.range_succ (n := n+1), List.map_append]
    simp only [List.map_singleton, Nat.zero_add]
    rw [psum_succ]; rfl

def cntPtr (f : Nat → Nat) (n k : Nat) : List Nat :=
  (List.range (n+1)).map (fun j => if j < k then psum f j else 0)

theorem cnt_step (f : Nat → Nat) (n k : Nat) :
    (cntPtr f n k).set k (psum f k) = cntPtr f n (k+1) := by
  apply List.ext_getElem
  · simp [cntPtr]
  · intro i h1 h2
    simp only [cntPtr, List.getElem_set, List.getElem_map, List.getElem_range]
    by_cases h : k = i
    · subst h; simp
    · simp only [h, if_false]
      by_cases h3 : i < k
      · have : i < k + 1 := by omega
        simp [h3, this]
      · have : ¬ i < k + 1 := by omega
        simp [h3, this]

theorem cnt_init (f : Nat → Nat) (n : Nat) : Array.replicate (n+1) 0 = (cntPtr f n 0).toArray := by
  apply Array.ext
  · simp [cntPtr]
  · intro i h1 h2
    simp [cntPtr]

theorem cnt_final (f : Nat → Nat) (n : Nat) :
    (cntPtr f n n).set n (psum f n) = (List.range (n+1)).map (psum f) := by
  rw [cnt_step]
  apply List.ext_getElem
  · simp [cntPtr]
  · intro i h1 h2
    have : i < n + 1 := by simpa [cntPtr] using h1
    simp [cntPtr, this]

theorem write_spec (l pre suf : List Nat) (h : l.length ≤ suf.length) :
    l.foldl (fun (s : Array Nat × Nat) v => (s.1.setIfInBounds s.2 v, s.2+1)) ((pre ++ suf).toArray, pre.length)
      = ((pre ++ l ++ suf.drop l.length).toArray, pre.length + l.length) := by
  induction l generalizing pre suf with
  | nil => simp
  | cons v l ih =>
    cases suf with
    | nil => simp at h
    | cons x suf =>
      simp only [List.foldl_cons]
      have e : ((pre ++ x :: suf).toArray.setIfInBounds pre.length v, pre.length + 1)
          = (((pre ++ [v]) ++ suf).toArray, (pre ++ [v]).length) := by
        simp
      rw [e, ih (pre ++ [v]) suf (by simpa using h)]
      simp
      omega


abbrev mask0 (A : Adjactor) : Kern.Mask := Array.replicate A.nImg false

/-- what `walk_spec` gives for every node of the adjactor (with the all-false mask) -/
def WalkOK (A : Adjactor) (inj : Bool) (R : Nat → List Nat) : Prop :=
  ∀ (σ : Type) (i : Nat), i < A.nDom → ∀ (f : σ → Nat → σ) (s : σ),
    Kern.walk A inj i f (s, mask0 A) = ((R i).foldl f s, mask0 A)

theorem foldl_count (l : List Nat) (n : Nat) : l.foldl (fun (n : Nat) _ => n + 1) n = n + l.length := by
  induction l generalizing n with
  | nil => rfl
  | cons x xs ih => simp [ih]; omega

theorem rowCount_inv (A : Adjactor) (inj : Bool) (R : Nat → List Nat) (hw : WalkOK A inj R) (k : Nat)
    (hk : k ≤ A.nDom) :
    (List.range k).foldl
      (fun (st : Array Nat × Nat × Kern.Mask) i =>
        let ptr := st.1.setIfInBounds i st.2.1
        let r := Kern.walk A inj i (fun (n : Nat) _ => n + 1) (st.2.1, st.2.2)
        (ptr, r.1, r.2))
      (Array.replicate (A.nDom + 1) 0, 0, Array.replicate A.nImg false)
    = ((cntPtr (fun i => (R i).length) A.nDom k).toArray, psum (fun i => (R i).length) k, mask0 A) := by
  induction k with
  | zero => simp [← cnt_init, psum]
  | succ k ih =>
    rw [List.range_succ, List.foldl_append, ih (by omega)]
    simp only [List.foldl_cons, List.foldl_nil]
    rw [hw Nat k (by omega), foldl_count, psum_succ, List.setIfInBounds_toArray, cnt_step]

theorem rowFill_inv (A : Adjactor) (inj : Bool) (R : Nat → List Nat) (hw : WalkOK A inj R)
    (ptr : Array Nat) (hptr : ∀ i, i < A.nDom → ptr.getD i 0 = psum (fun i => (R i).length) i) (k : Nat)
    (hk : k ≤ A.nDom) :
    (List.range k).foldl
      (fun (st : Array Nat × Kern.Mask) i =>
        let r := Kern.walk A inj i (fun (s : Array Nat × Nat) v => (s.1.setIfInBounds s.2 v, s.2 + 1))
          ((st.1, ptr.getD i 0), st.2)
        (r.1.1, r.2))
      (Array.replicate (psum (fun i => (R i).length) A.nDom) 0, mask0 A)
    = ((((List.range k).map R).flatten ++
        List.replicate (psum (fun i => (R i).length) A.nDom - psum (fun i => (R i).length) k) 0).toArray, mask0 A) := by
  induction k with
  | zero =>
    simp [psum]
  | succ k ih =>
    rw [List.range_succ, List.foldl_append, ih (by omega)]
    simp only [List.foldl_cons, List.foldl_nil]
    have hp : ptr.getD k 0 = (((List.range k).map R).flatten).length := by
      rw [hptr k (by omega)]
      simp [List.length_flatten, psum, Function.comp_def]
    have hm := psum_mono (fun i => (R i).length) (show k + 1 ≤ A.nDom by omega)
    rw [psum_succ] at hm
    rw [hw _ k (by omega), hp, write_spec _ _ _ (by simp; omega)]
    simp [List.drop_replicate, psum_succ, Nat.sub_add_eq]

theorem renderRows_core (A : Adjactor) (inj : Bool) (R : Nat → List Nat) (hw : WalkOK A inj R) :
    Kern.renderRows A inj =
      { nImg := A.nImg,
        ptr := (Graph.prefixSums 0 ((List.range A.nDom).map (fun i => (R i).length))).toArray,
        idx := ((List.range A.nDom).map R).flatten.toArray } := by
  have hc := rowCount_inv A inj R hw A.nDom (Nat.le_refl _)
  have hf := rowFill_inv A inj R hw ((List.range (A.nDom+1)).map (psum (fun i => (R i).length))).toArray
    (by intro i hi
        have : i < A.nDom + 1 := by omega
        simp [Array.getD_eq_getD_getElem?, this]) A.nDom (Nat.le_refl _)
  simp only [Kern.renderRows, Kern.rowCount, Kern.rowFill]
  rw [hc]
  simp only [List.setIfInBounds_toArray, cnt_final]
  rw [hf, prefixSums_range]
  simp


theorem wf_images (A : Adjactor) (hwf : A.toGraph.wf = true) (i : Nat) (hi : i < A.nDom) (v : Nat)
    (hv : v ∈ A.images i) : v < A.nImg := by
  simp only [Graph.wf, Adjactor.toGraph, List.all_eq_true, List.mem_map, List.mem_range] at hwf
  exact of_decide_eq_true <| hwf (A.images i) ⟨i, hi, rfl⟩ v hv

theorem walkOK (A : Adjactor) (hA : A.Lawful) (hwf : A.toGraph.wf = true) (inj : Bool) :
    WalkOK A inj (fun i => if inj then Graph.dedup (A.images i) else A.images i) := by
  intro σ i hi f s
  apply C19L.walk.walk_spec A hA inj i f s (mask0 A)
  · intro k
    simp [mask0, Array.getD_eq_getD_getElem?, Array.getElem?_replicate]
    split <;> rfl
  · intro v hv
    simpa [mask0] using wf_images A hwf i hi v hv

theorem renderRows_spec (A : Adjactor) (hA : A.Lawful) (hwf : A.toGraph.wf = true) (inj : Bool) :
    Kern.renderRows A inj = Arrays.ofGraph (if inj then A.toGraph.injectify else A.toGraph) := by
  rw [renderRows_core A inj _ (walkOK A hA hwf inj)]
  cases inj <;>
    simp [Arrays.ofGraph, Graph.domainPtr, Graph.imageIdx, Adjactor.toGraph, Graph.injectify,
      Function.comp_def]


/-! ### `sortSegments_spec` -/

theorem prefixSums_getElem? (acc : Nat) (l : List Nat) (i : Nat) (hi : i ≤ l.length) :
    (Graph.prefixSums acc l)[i]? = some (acc + (l.take i).sum) := by
  induction l generalizing acc i with
  | nil =>
    have : i = 0 := by simpa using hi
    subst this; simp [Graph.prefixSums]
  | cons x xs ih =>
    cases i with
    | zero => simp [Graph.prefixSums]
    | succ i =>
      simp only [Graph.prefixSums, List.getElem?_cons_succ, List.take_succ_cons, List.sum_cons]
      rw [ih (acc + x) i (by simpa using hi)]
      simp; omega

theorem sortList_length (l : List Nat) : (Graph.sortList l).length = l.length :=
  (C19L.renders.sortList_perm l).length_eq

theorem len_comp_sort : (List.length ∘ Graph.sortList) = List.length := funext sortList_length

theorem map_len_sort (adj : List (List Nat)) :
    (adj.map Graph.sortList).map List.length = adj.map List.length := by
  simp [Function.comp_def, sortList_length]

theorem seg_step (pre mid suf : List Nat) :
    (pre ++ mid ++ suf).toArray.extract 0 pre.length
      ++ (Graph.sortList ((pre ++ mid ++ suf).toArray.extract pre.length (pre.length + mid.length)).toList).toArray
      ++ (pre ++ mid ++ suf).toArray.extract (pre.length + mid.length) (pre ++ mid ++ suf).toArray.size
    = (pre ++ Graph.sortList mid ++ suf).toArray := by
  apply Array.toList_inj.1
  simp [List.extract_eq_take_drop]
  apply List.take_of_length_le; omega

theorem seg_inv (adj : List (List Nat)) (k : Nat) (hk : k ≤ adj.length) :
    (List.range k).foldl
      (fun (idx : Array Nat) i =>
        let lo := (Graph.prefixSums 0 (adj.map List.length)).toArray.getD i 0
        let hi := (Graph.prefixSums 0 (adj.map List.length)).toArray.getD (i + 1) 0
        (idx.extract 0 lo ++ (Graph.sortList (idx.extract lo hi).toList).toArray ++ idx.extract hi idx.size))
      adj.flatten.toArray
    = (((adj.take k).map Graph.sortList).flatten ++ (adj.drop k).flatten).toArray := by
  induction k with
  | zero => simp
  | succ k ih =>
    rw [List.range_succ, List.foldl_append, ih (by omega)]
    simp only [List.foldl_cons, List.foldl_nil]
    have hk' : k < adj.length := by omega
    have hlo : (Graph.prefixSums 0 (adj.map List.length)).toArray.getD k 0
        = (((adj.take k).map Graph.sortList).flatten).length := by
      simp [Array.getD_eq_getD_getElem?, prefixSums_getElem? 0 (adj.map List.length) k (by simp; omega),
        List.length_flatten, len_comp_sort, List.map_take]
    have hd : adj.drop k = adj[k] :: adj.drop (k+1) := (List.getElem_cons_drop (h := hk')).symm
    have ht : adj.take (k+1) = adj.take k ++ [adj[k]] := List.take_succ_eq_append_getElem hk'
    have hhi : (Graph.prefixSums 0 (adj.map List.length)).toArray.getD (k+1) 0
        = (((adj.take k).map Graph.sortList).flatten).length + adj[k].length := by
      rw [← hlo]
      simp only [Array.getD_eq_getD_getElem?, List.getElem?_toArray,
        prefixSums_getElem? 0 (adj.map List.length) k (by simp; omega),
        prefixSums_getElem? 0 (adj.map List.length) (k+1) (by simp; omega), ← List.map_take, ht,
        List.map_append, List.sum_append]
      simp
    rw [hlo, hhi, hd, ht, List.flatten_cons, ← List.append_assoc, seg_step, List.map_append,
      List.flatten_append]
    simp

theorem sortSegments_spec (g : Graph) :
    Kern.sortSegments (Arrays.ofGraph g) = some (Arrays.ofGraph g.sortIndices) := by
  have hne : (Arrays.ofGraph g).ptr.isEmpty = false := by
    have := C19L.renders.prefixSums_length 0 (g.adj.map List.length)
    simp only [Arrays.ofGraph, Graph.domainPtr]
    cases h : Graph.prefixSums 0 (g.adj.map List.length) with
    | nil => simp [h] at this
    | cons a b => simp
  have hptr : g.sortIndices.domainPtr = g.domainPtr := by
    simp only [Graph.domainPtr, Graph.sortIndices, map_len_sort]
  unfold Kern.sortSegments
  rw [hne]
  simp only [Bool.false_eq_true, if_false]
  by_cases he : (Arrays.ofGraph g).idx.isEmpty = true
  · rw [if_pos he]
    have h0 : g.adj.flatten = [] := by simpa [Arrays.ofGraph, Graph.imageIdx] using he
    have h1 : (g.adj.map Graph.sortList).flatten = [] := by
      apply List.eq_nil_of_length_eq_zero
      rw [List.length_flatten, map_len_sort, ← List.length_flatten, h0]; rfl
    rw [Arrays.ofGraph, Arrays.ofGraph, hptr]
    simp only [Graph.imageIdx, Graph.sortIndices, h0, h1]
  · rw [if_neg he]
    have hsz : (Arrays.ofGraph g).ptr.size - 1 = g.adj.length := by
      simp [Arrays.ofGraph, Graph.domainPtr, C19L.renders.prefixSums_length]
    rw [hsz]
    have := seg_inv g.adj g.adj.length (Nat.le_refl _)
    simp only [Arrays.ofGraph, Graph.domainPtr, Graph.imageIdx] at this ⊢
    rw [this]
    simp [Graph.sortIndices, len_comp_sort]

end C19L.rowk
