import FeatModel.Model.FETrace
/-! kernel-checked trace conformity of L2 on the hexahedron, faces 2 and 3 in every stored order -/
namespace FeatModel.FE
set_option maxRecDepth 100000 in
theorem trace3H_L2_1 : traceFaces3 .L2 .H [2, 3] = true := by decide +kernel
end FeatModel.FE
