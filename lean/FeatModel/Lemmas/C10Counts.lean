import FeatModel.Model.RefineSpec
/-! C10 helper lemmas: entity counts, Euler characteristic, sizes of the refined index sets (all mesh sizes) -/
namespace FeatModel.Refine
open FeatModel.Gen.Refine

theorem offset_succ (kind : Kind) (nums : List Nat) (f k : Nat) (h : f ≤ k) :
    offset kind nums f (k + 1) = offset kind nums f k + refCount kind k f * nums.getD k 0 := by
  unfold offset
  have e : k + 1 - f = (k - f) + 1 := by omega
  have e2 : f + (k - f) = k := by omega
  rw [e, List.range'_concat, List.map_append, List.sum_append]
  simp [e2]

theorem offset_self (kind : Kind) (nums : List Nat) (f : Nat) : offset kind nums f f = 0 := by
  simp [offset]

theorem offset_mono (kind : Kind) (nums : List Nat) (f : Nat) {a b : Nat} (hfa : f ≤ a) (hab : a ≤ b) :
    offset kind nums f a ≤ offset kind nums f b := by
  obtain ⟨d, rfl⟩ := Nat.exists_eq_add_of_le hab
  induction d with
  | zero => exact Nat.le_refl _
  | succ n ih =>
    have := ih (by omega)
    rw [← Nat.add_assoc, offset_succ kind nums f (a + n) (by omega)]
    omega

/-- every generated table has exactly `refCount` rows (children) and `faceCount` terms per row -/
theorem table_rows (kind : Kind) :
    ∀ s < 4, ∀ c < 4, ∀ f < 4, f < c → c ≤ s → (indexTable kind s c f).length = refCount kind s c := by
  cases kind <;> decide

theorem table_colsB (kind : Kind) :
    ∀ s < 4, ∀ c < 4, ∀ f < 4, f < c → c ≤ s →
      ((indexTable kind s c f).all fun row => row.length == faceCount kind c f) = true := by
  cases kind <;> decide

theorem table_cols (kind : Kind) :
    ∀ s < 4, ∀ c < 4, ∀ f < 4, f < c → c ≤ s → ∀ row ∈ indexTable kind s c f, row.length = faceCount kind c f := by
  intro s hs c hc f hf hfc hcs row hrow
  have h := table_colsB kind s hs c hc f hf hfc hcs
  rw [List.all_eq_true] at h
  simpa using h row hrow

theorem table_shape (kind : Kind) :
    ∀ s < 4, ∀ c < 4, ∀ f < 4, f < c → c ≤ s →
      (indexTable kind s c f).length = refCount kind s c ∧
      ∀ row ∈ indexTable kind s c f, row.length = faceCount kind c f :=
  fun s hs c hc f hf hfc hcs => ⟨table_rows kind s hs c hc f hf hfc hcs, table_cols kind s hs c hc f hf hfc hcs⟩

theorem length_flatMap_const {α β : Type} (l : List α) (g : α → List β) (n : Nat)
    (h : ∀ x ∈ l, (g x).length = n) : (l.flatMap g).length = l.length * n := by
  induction l with
  | nil => simp
  | cons a as ih =>
    simp only [List.flatMap_cons, List.length_append, List.length_cons]
    rw [h a (by simp), ih (fun x hx => h x (by simp [hx]))]
    rw [Nat.succ_mul]; omega

theorem childRows_length (M : Mesh) (s c f i : Nat) (hs : s < 4) (hfc : f < c) (hcs : c ≤ s) :
    (childRows M s c f i).length = refCount M.kind s c := by
  unfold childRows
  rw [List.length_map]
  exact (table_shape M.kind s hs c (by omega) f (by omega) hfc hcs).1

theorem block_length (M : Mesh) (s c f : Nat) (hs : s < 4) (hfc : f < c) (hcs : c ≤ s) :
    ((List.range (M.num s)).flatMap fun i => childRows M s c f i).length = M.num s * refCount M.kind s c := by
  rw [length_flatMap_const _ _ (refCount M.kind s c)]
  · simp
  · intro i _; exact childRows_length M s c f i hs hfc hcs

/-- the refined index set `<c,f>` has exactly `fineCount c` tuples (for every mesh size) -/
theorem fineIdx_length (M : Mesh) (c f : Nat) (hd : M.dim < 4) (hfc : f < c) :
    (fineIdx M c f).length = fineCount M.kind M.nums M.dim c := by
  unfold fineIdx fineCount offset
  rw [List.length_flatMap]
  congr 1
  apply List.map_congr_left
  intro s hs
  rw [List.mem_range'_1] at hs
  rw [block_length M s c f (by omega) hfc hs.1]
  unfold Mesh.num
  exact Nat.mul_comm _ _

theorem mem_fineIdx {M : Mesh} {c f : Nat} {row : List Nat} (h : row ∈ fineIdx M c f) :
    ∃ s i, c ≤ s ∧ s ≤ M.dim ∧ i < M.num s ∧ ∃ r ∈ indexTable M.kind s c f, row = r.map (evalTerm M s f i) := by
  unfold fineIdx at h
  rw [List.mem_flatMap] at h
  obtain ⟨s, hs, h⟩ := h
  rw [List.mem_flatMap] at h
  obtain ⟨i, hi, h⟩ := h
  unfold childRows at h
  rw [List.mem_map] at h
  obtain ⟨r, hr, rfl⟩ := h
  rw [List.mem_range'_1] at hs
  exact ⟨s, i, hs.1, by omega, by simpa using hi, r, hr, rfl⟩

theorem fineIdx_row_length (M : Mesh) (c f : Nat) (hd : M.dim < 4) (hfc : f < c) :
    ∀ row ∈ fineIdx M c f, row.length = faceCount M.kind c f := by
  intro row h
  obtain ⟨s, i, hcs, hsd, _, r, hr, rfl⟩ := mem_fineIdx h
  rw [List.length_map]
  exact (table_shape M.kind s (by omega) c (by omega) f (by omega) hfc hcs).2 r hr

/-- index sets of the refined mesh are the `fineIdx` lists -/
theorem refine_idx (M : Mesh) (c f : Nat) (hc : c ≤ M.dim) (hfc : f < c) :
    (refine M).idx c f = fineIdx M c f := by
  unfold Mesh.idx refine
  simp only [List.getD_eq_getElem?_getD]
  rw [List.getElem?_map, List.getElem?_range (by omega)]
  simp only [Option.map_some, Option.getD_some]
  rw [List.getElem?_map, List.getElem?_range hfc]
  simp

theorem refine_num (M : Mesh) (c : Nat) (hc : c ≤ M.dim) :
    (refine M).num c = fineCount M.kind M.nums M.dim c := by
  unfold Mesh.num refine fineNums
  simp only [List.getD_eq_getElem?_getD]
  rw [List.getElem?_map, List.getElem?_range (by omega)]
  simp

end FeatModel.Refine

namespace FeatModel.Refine
open FeatModel.Gen.Refine

theorem fineNums_1 (kind : Kind) (v e : Nat) : fineNums kind [v, e] 1 = [v + e, 2 * e] := by
  cases kind <;> simp [fineNums, fineCount, offset, refCount, List.range_succ, List.range'_succ] <;> omega

theorem fineNums_tria (v e t : Nat) : fineNums .simplex [v, e, t] 2 = [v + e, 2 * e + 3 * t, 4 * t] := by
  simp [fineNums, fineCount, offset, refCount, List.range_succ, List.range'_succ] <;> omega

theorem fineNums_quad (v e q : Nat) : fineNums .hypercube [v, e, q] 2 = [v + e + q, 2 * e + 4 * q, 4 * q] := by
  simp [fineNums, fineCount, offset, refCount, List.range_succ, List.range'_succ] <;> omega

theorem fineNums_tetra (v e t c : Nat) :
    fineNums .simplex [v, e, t, c] 3 = [v + e + c, 2 * e + 3 * t + 6 * c, 4 * t + 16 * c, 12 * c] := by
  simp [fineNums, fineCount, offset, refCount, List.range_succ, List.range'_succ] <;> omega

theorem fineNums_hexa (v e q c : Nat) :
    fineNums .hypercube [v, e, q, c] 3 = [v + e + q + c, 2 * e + 4 * q + 6 * c, 4 * q + 12 * c, 8 * c] := by
  simp [fineNums, fineCount, offset, refCount, List.range_succ, List.range'_succ] <;> omega

theorem euler_fineNums (kind : Kind) (d : Nat) (hd1 : 1 ≤ d) (hd3 : d ≤ 3) (nums : List Nat)
    (h : nums.length = d + 1) : altSum (fineNums kind nums d) = altSum nums := by
  have hd : d = 1 ∨ d = 2 ∨ d = 3 := by omega
  rcases hd with rfl | rfl | rfl
  · match nums, h with
    | [v, e], _ => rw [fineNums_1]; simp [altSum]; omega
  · match nums, h with
    | [v, e, q], _ =>
      cases kind
      · rw [fineNums_tria]; simp [altSum]; omega
      · rw [fineNums_quad]; simp [altSum]; omega
  · match nums, h with
    | [v, e, q, c], _ =>
      cases kind
      · rw [fineNums_tetra]; simp [altSum]; omega
      · rw [fineNums_hexa]; simp [altSum]; omega

end FeatModel.Refine
