import FeatModel.Lemmas.C10Lift3D
/-! C10 — 3-D global lift, part 2: symbolic check of the generated 3-D tables for every orientation code of the one
sub-entity a term refers to (`faces3Check`, kernel-evaluated), and its soundness (`subVerts3_sound`). -/
namespace FeatModel.Refine
open FeatModel.Gen.Refine

/-- vertex terms (cell context) of the fine `f`-entity addressed by a term of a table `(3,c,f)`; `o` is the
    orientation code of the ONE face the term refers to (ignored by all other terms) -/
def subVerts3 (kind : Kind) (f : Nat) (o : Int) (t : Term) : List Term :=
  match t.src, t.add with
  | none, .const a => (indexTable kind 3 f 0).getD a []
  | some (_, 1, e), .sim _ _ _ b =>
    [⟨0, 1, some (3, 0, ((faceIndexMap kind 3 1 0).getD e []).getD b 0), .const 0⟩, ⟨1, 1, some (3, 1, e), .const 0⟩]
  | some (_, 2, k), .sim _ fd _ j => ((indexTable kind 2 f 0).getD (congLookup kind 2 fd o j) []).map (transl kind k o)
  | some (_, 2, k), .const a => ((indexTable kind 2 f 0).getD a []).map (transl kind k o)
  | _, _ => []

/-- the face a term refers to (0 for terms that refer to no face) -/
def faceOfTerm (t : Term) : Nat :=
  match t.src with
  | some (_, 2, k) => k
  | _ => 0

/-- the kinds of terms of the tables `(3,c,f)`, `f ≥ 1` -/
def cterm3Ok (kind : Kind) (f : Nat) (t : Term) : Bool :=
  match t.src, t.add with
  | none, .const a => t.off == 3 && t.mult == refCount kind 3 f && a < refCount kind 3 f
  | some (a', 1, e), .sim cd fd e' b =>
    a' == 3 && f == 1 && t.off == 1 && t.mult == 2 && cd == 1 && fd == 0 && e' == e && e < faceCount kind 3 1 && b < 2
  | some (a', 2, k), .sim cd fd k' j =>
    a' == 3 && t.off == 2 && t.mult == refCount kind 2 f && cd == 2 && k' == k && k < faceCount kind 3 2 &&
      fd + f == 2 && j < faceCount kind 2 fd
  | some (a', 2, k), .const a =>
    a' == 3 && t.off == 2 && t.mult == refCount kind 2 f && k < faceCount kind 3 2 && a < refCount kind 2 f
  | _, _ => false

/-- the symbolic local check as a Boolean (evaluated by the kernel) -/
def faces3Check (kind : Kind) : Bool :=
  [2, 3].all fun c => (List.range' 1 (c - 1)).all fun f => (List.range (refCount kind 3 c)).all fun r =>
    (List.range (faceCount kind c f)).all fun k' => (goodCodes kind).all fun o =>
      cterm3Ok kind f (((indexTable kind 3 c f).getD r []).getD k' default) &&
      sameTerms (subVerts3 kind f o (((indexTable kind 3 c f).getD r []).getD k' default))
        (((faceIndexMap kind c f 0).getD k' []).map fun j => ((indexTable kind 3 c 0).getD r []).getD j default)

theorem faces3Check_true (kind : Kind) : faces3Check kind = true := by
  cases kind <;> decide +kernel

/-- **symbolic local check of the generated 3-D tables, per sub-entity**: for every child row `r` of a table
    `(3,c,f)`, every local face `k'` and EVERY orientation code `o` of the one face the term refers to, the listed fine
    entity has the vertices of local face `k'` of the child's vertex row.  (6·8 resp. 4·6 face/code cases per term
    instead of the full product — the other sub-entities do not occur in the term.) -/
theorem faces3_table (kind : Kind) (c f r k' : Nat) (o : Int) (hc2 : 2 ≤ c) (hc3 : c ≤ 3) (hf1 : 1 ≤ f) (hfc : f < c)
    (hr : r < refCount kind 3 c) (hk : k' < faceCount kind c f) (ho : o ∈ goodCodes kind) :
    cterm3Ok kind f (((indexTable kind 3 c f).getD r []).getD k' default) = true ∧
    sameTerms (subVerts3 kind f o (((indexTable kind 3 c f).getD r []).getD k' default))
      (((faceIndexMap kind c f 0).getD k' []).map fun j => ((indexTable kind 3 c 0).getD r []).getD j default) = true := by
  have h := faces3Check_true kind
  unfold faces3Check at h
  simp only [List.all_eq_true, List.mem_range, List.mem_range'_1, Bool.and_eq_true] at h
  have hc : c ∈ [2, 3] := by
    have : c = 2 ∨ c = 3 := by omega
    rcases this with rfl | rfl <;> simp
  exact h c hc f ⟨hf1, by omega⟩ r hr k' hk o ho

/-- side facts: child numbers are in range for every good code; rows of `(2,f,0)` consist of admissible terms -/
theorem face_side_facts (kind : Kind) :
    (∀ o ∈ goodCodes kind, ∀ fd < 2, ∀ j < faceCount kind 2 fd, congLookup kind 2 fd o j < refCount kind 2 (2 - fd)) ∧
    (∀ f < 3, 1 ≤ f → ((indexTable kind 2 f 0).all fun r => r.all (fvtermOk kind)) = true) := by
  cases kind <;> decide


theorem edge_pair3 (M : Mesh) (h : Conf3 M) (E : Nat) (hE : E < M.num 1) :
    M.tuple 1 0 E = [M.entry 1 0 E 0, M.entry 1 0 E 1] ∧ M.entry 1 0 E 0 ≠ M.entry 1 0 E 1 := by
  have hl := (shape_facts_g M h.shape 1 0 (by omega) (by rw [h.dim]; omega) (by omega) E hE).1
  have : faceCount M.kind 1 0 = 2 := by cases M.kind <;> rfl
  rw [this] at hl
  have hp := list_len2 hl
  refine ⟨hp, ?_⟩
  have hlen := ((shapeOk_iff M).1 h.shape 1 (by omega) (by rw [h.dim]; omega) 0 (by omega)).1
  have := h.nodup 1 (by omega) (by rw [h.dim]; omega) _ (tuple_mem_idx M 1 0 E (by omega))
  rw [hp, List.nodup_cons] at this
  intro heq
  apply this.1
  have heq' : (M.tuple 1 0 E).getD 0 0 = (M.tuple 1 0 E).getD 1 0 := heq
  rw [heq']
  simp

/-- 3-D: the child `edgesim.map(e,b)` of the cell's `e`-th edge contains the cell's local vertex `FIM[e][b]` -/
theorem sim_child3 (M : Mesh) (h : Conf3 M) (i e b : Nat) (hi : i < M.num 3) (he : e < faceCount M.kind 3 1)
    (hb : b < 2) :
    simMap M 3 1 0 i e b < 2 ∧
    M.entry 1 0 (M.entry 3 1 i e) (simMap M 3 1 0 i e b)
      = M.entry 3 0 i (((faceIndexMap M.kind 3 1 0).getD e []).getD b 0) := by
  have hE : M.entry 3 1 i e < M.num 1 :=
    (shape_facts_g M h.shape 3 1 (by omega) (by rw [h.dim]; omega) (by omega) i hi).2 e he
  obtain ⟨hp, hne⟩ := edge_pair3 M h _ hE
  have hf := h.faces 3 1 (by omega) (by omega) (by omega) i hi e he
  have hl := (fim_len2 M.kind).2 e he
  rw [localFace_map M 3 1 i e (by omega), list_len2 hl, hp] at hf
  simp only [List.map_cons, List.map_nil] at hf
  have key := edge_orient_pure M.kind _ _ _ _ b hne hf hb
  have hsm : simMap M 3 1 0 i e b = congLookup M.kind 1 0
      (FeatModel.Refine.compare M.kind 1 (M.entry 3 0 i (((faceIndexMap M.kind 3 1 0).getD e []).getD 0 0))
        (M.entry 3 0 i (((faceIndexMap M.kind 3 1 0).getD e []).getD 1 0))
        [M.entry 1 0 (M.entry 3 1 i e) 0, M.entry 1 0 (M.entry 3 1 i e) 1]) b := by
    unfold simMap
    simp only [← hp]
    rfl
  have hlt : simMap M 3 1 0 i e b < 2 := by
    rw [hsm]
    apply congLookup_lt M.kind 1 0 _ b 2 (by omega)
    cases M.kind <;> decide
  refine ⟨hlt, ?_⟩
  have hm : ∀ m, m < 2 → M.entry 1 0 (M.entry 3 1 i e) m
      = [M.entry 1 0 (M.entry 3 1 i e) 0, M.entry 1 0 (M.entry 3 1 i e) 1].getD m 0 := by
    intro m hm
    have : m = 0 ∨ m = 1 := by omega
    rcases this with rfl | rfl <;> rfl
  rw [hsm] at hlt ⊢
  rw [hm _ hlt, key]
  have hb' : b = 0 ∨ b = 1 := by omega
  rcases hb' with rfl | rfl <;> rfl

theorem rc3 (kind : Kind) : refCount kind 1 1 = 2 ∧ refCount kind 2 2 = 4 ∧ 0 < refCount kind 2 1 := by
  cases kind <;> decide

/-- soundness of `subVerts3`: the vertex row of the fine entity a term addresses, as a set -/
theorem subVerts3_sound (M : Mesh) (h : Conf3 M) (i f : Nat) (hi : i < M.num 3) (hf1 : 1 ≤ f) (hf2 : f ≤ 2)
    (t : Term) (ht : cterm3Ok M.kind f t = true) :
    sameSet ((refine M).tuple f 0 (evalTerm M 3 f i t))
      ((subVerts3 M.kind f (faceCode M i (faceOfTerm t)) t).map (evalTerm M 3 0 i)) = true := by
  obtain ⟨off, mult, src, add⟩ := t
  have hd3 : M.dim ≤ 3 := by rw [h.dim]; omega
  have hd3' : (3 : Nat) ≤ M.dim := by rw [h.dim]; omega
  obtain ⟨o00, o01, o02⟩ := off0 M.kind M.nums
  obtain ⟨r11, r22, r21⟩ := rc3 M.kind
  cases src with
  | none =>
    cases add with
    | sim _ _ _ _ => simp [cterm3Ok] at ht
    | const a =>
      simp only [cterm3Ok, Bool.and_eq_true, beq_iff_eq, decide_eq_true_eq] at ht
      obtain ⟨⟨rfl, rfl⟩, ha⟩ := ht
      have e1 : evalTerm M 3 f i ⟨3, refCount M.kind 3 f, none, .const a⟩
          = offset M.kind M.nums f 3 + i * refCount M.kind 3 f + a := by
        simp [evalTerm, evalSrc, evalAdd, Nat.mul_comm]
      rw [e1, refine_tuple_child M hd3 f 0 3 i a (by omega) (by omega) hd3' hi ha]
      simp only [subVerts3]
      exact sameSet_refl _
  | some p =>
    obtain ⟨a', d, e⟩ := p
    rcases d with _ | _ | _ | d
    · cases add <;> simp [cterm3Ok] at ht
    · -- a child of an edge of the cell
      cases add with
      | const _ => simp [cterm3Ok] at ht
      | sim cd fd e' b =>
        simp only [cterm3Ok, Bool.and_eq_true, beq_iff_eq, decide_eq_true_eq] at ht
        obtain ⟨⟨⟨⟨⟨⟨⟨⟨rfl, rfl⟩, rfl⟩, rfl⟩, rfl⟩, rfl⟩, rfl⟩, he⟩, hb⟩ := ht
        obtain ⟨hm, hv⟩ := sim_child3 M h i e' b hi he hb
        have hE : M.entry 3 1 i e' < M.num 1 :=
          (shape_facts_g M h.shape 3 1 (by omega) hd3' (by omega) i hi).2 e' he
        have e1 : evalTerm M 3 1 i ⟨1, 2, some (3, 1, e'), .sim 1 0 e' b⟩
            = offset M.kind M.nums 1 1 + M.entry 3 1 i e' * refCount M.kind 1 1 + simMap M 3 1 0 i e' b := by
          simp [evalTerm, evalSrc, evalAdd, Nat.mul_comm, r11]
        rw [e1, refine_tuple_child M hd3 1 0 1 (M.entry 3 1 i e') _ (by omega) (by omega) (by omega) hE
          (by rw [r11]; exact hm), edgeTable]
        have hm' : simMap M 3 1 0 i e' b = 0 ∨ simMap M 3 1 0 i e' b = 1 := by omega
        rw [sameSet_iff]
        rcases hm' with h0 | h0 <;> rw [h0] at hv <;>
          simp [h0, subVerts3, evalTerm, evalSrc, evalAdd, o00, o01, hv]
    · -- a child of a face of the cell
      obtain ⟨sf1, sf2⟩ := face_side_facts M.kind
      have hrows := sf2 f (by omega) hf1
      rw [List.all_eq_true] at hrows
      -- common part: child `m` of face `Q`, its row translated term by term
      have common : ∀ k m, k < faceCount M.kind 3 2 → m < refCount M.kind 2 f →
          (refine M).tuple f 0 (offset M.kind M.nums f 2 + M.entry 3 2 i k * refCount M.kind 2 f + m)
            = (((indexTable M.kind 2 f 0).getD m []).map (transl M.kind k (faceCode M i k))).map (evalTerm M 3 0 i) := by
        intro k m hk hm
        have hQ : M.entry 3 2 i k < M.num 2 :=
          (shape_facts_g M h.shape 3 2 (by omega) hd3' (by omega) i hi).2 k hk
        rw [refine_tuple_child M hd3 f 0 2 (M.entry 3 2 i k) m (by omega) hf2 (by omega) hQ hm, List.map_map]
        apply List.map_congr_left
        intro t ht
        have hlen : m < (indexTable M.kind 2 f 0).length := by
          rw [table_rows M.kind 2 (by omega) f (by omega) 0 (by omega) (by omega) hf2]; exact hm
        have hrow : (indexTable M.kind 2 f 0).getD m [] ∈ indexTable M.kind 2 f 0 := by
          rw [List.getD_eq_getElem?_getD, List.getElem?_eq_getElem hlen]; exact List.getElem_mem hlen
        have hok := hrows _ hrow
        rw [List.all_eq_true] at hok
        exact transl_sound M h i k hi hk t (hok t ht)
      cases add with
      | const a =>
        simp only [cterm3Ok, Bool.and_eq_true, beq_iff_eq, decide_eq_true_eq] at ht
        obtain ⟨⟨⟨⟨rfl, rfl⟩, rfl⟩, hk⟩, ha⟩ := ht
        have e1 : evalTerm M 3 f i ⟨2, refCount M.kind 2 f, some (3, 2, e), .const a⟩
            = offset M.kind M.nums f 2 + M.entry 3 2 i e * refCount M.kind 2 f + a := by
          simp [evalTerm, evalSrc, evalAdd, Nat.mul_comm]
        rw [e1, common e a hk ha]
        simp only [subVerts3, faceOfTerm]
        exact sameSet_refl _
      | sim cd fd k' j =>
        simp only [cterm3Ok, Bool.and_eq_true, beq_iff_eq, decide_eq_true_eq] at ht
        obtain ⟨⟨⟨⟨⟨⟨⟨rfl, rfl⟩, rfl⟩, rfl⟩, rfl⟩, hk⟩, hfd⟩, hj⟩ := ht
        obtain ⟨hgood, _⟩ := h.orient i hi k' hk
        have hm : congLookup M.kind 2 fd (faceCode M i k') j < refCount M.kind 2 f := by
          have := sf1 _ hgood fd (by omega) j hj
          have e : 2 - fd = f := by omega
          rwa [e] at this
        have e1 : evalTerm M 3 f i ⟨2, refCount M.kind 2 f, some (3, 2, k'), .sim 2 fd k' j⟩
            = offset M.kind M.nums f 2 + M.entry 3 2 i k' * refCount M.kind 2 f
              + congLookup M.kind 2 fd (faceCode M i k') j := by
          simp [evalTerm, evalSrc, evalAdd, Nat.mul_comm, simMap, faceCode]
        rw [e1, common k' _ hk hm]
        simp only [subVerts3, faceOfTerm]
        exact sameSet_refl _
    · cases add <;> simp [cterm3Ok] at ht

end FeatModel.Refine
