import FeatModel.Lemmas.C14Refine
import FeatModel.Gen.CubatureMeta
/-! C14: the subdivision identity of the refinery child maps, monomial by monomial (kernel evaluation) -/
namespace FeatModel.Cub

set_option maxRecDepth 100000 in
theorem subdivH2 : subdivAll false 2 Gen.refMapsH2 1 16 = true := by decide +kernel

end FeatModel.Cub
