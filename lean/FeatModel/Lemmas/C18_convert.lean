/-
C18 helper lemmas, part 17: `convert` / `clone` of transfer objects are field-wise; with a value-preserving conversion
(index-type change, clone) the converted object IS the original record, so `R = Pᵀ`, the products and `T·P = 1` are
inherited.  A truncation filled from the restriction matrix is not a left inverse (witness).
-/
import FeatModel.Model.GlobalTransfer
import FeatModel.Lemmas.C18_csr
open FeatModel.GT FeatModel.LA

namespace C18L

theorem csrConvert_id (A : Csr Rat) : csrConvert id A = A := by
  cases A
  simp [csrConvert]

/-- layout and dimensions survive every value conversion -/
theorem csrConvert_layout (cv : Rat → Rat) (A : Csr Rat) :
    (csrConvert cv A).rows = A.rows ∧ (csrConvert cv A).cols = A.cols ∧ (csrConvert cv A).rowPtr = A.rowPtr ∧
    (csrConvert cv A).colInd = A.colInd ∧ (csrConvert cv A).val.size = A.val.size ∧
    ∀ k, k < A.val.size → (csrConvert cv A).val.getD k 0 = cv (A.val.getD k 0) := by
  refine ⟨rfl, rfl, rfl, rfl, by simp [csrConvert], ?_⟩
  intro k hk
  simp [csrConvert, Array.getD, hk]

theorem csrConvert_valid (cv : Rat → Rat) (A : Csr Rat) : (csrConvert cv A).valid = A.valid := by
  have he : (Array.map cv A.val).isEmpty = A.val.isEmpty := by
    simp [Array.isEmpty]
  simp only [Csr.valid, Csr.isArrayless, Csr.wf, Csr.sortedRows, Csr.rowBegin, Csr.rowEnd, csrConvert, he,
    Array.size_map]
  rfl

/-- **convert is field-wise**: prolongation from prolongation, restriction from restriction, truncation from
truncation; each member of the converted object is the member of the converted field -/
theorem transfer_convert_fields (cv : Rat → Rat) (t : Transfer) (vf vc : Array Rat) :
    (t.convert cv).prol = csrConvert cv t.prol ∧ (t.convert cv).rest = csrConvert cv t.rest ∧
    (t.convert cv).trunc = csrConvert cv t.trunc ∧
    (t.convert cv).applyProl vf vc = (csrConvert cv t.prol).applyQ vc vf false ∧
    (t.convert cv).applyRest vf vc = (csrConvert cv t.rest).applyQ vf vc false ∧
    (t.convert cv).applyTrunc vf vc = (csrConvert cv t.trunc).applyQ vf vc false :=
  ⟨rfl, rfl, rfl, rfl, rfl, rfl⟩

/-- value-preserving conversion (index types) and the value-preserving clone modes give back the same record -/
theorem transfer_convert_id (t : Transfer) (m : CloneMode) : t.convert id = t ∧ t.clone m = t := by
  cases t
  simp [Transfer.convert, Transfer.clone, csrConvert_id]

theorem gtransfer_convert_id (g : GTransfer) (mux : Option MuxerM) (m : CloneMode) :
    g.convert mux id = { muxer := mux, locals := g.locals } ∧ g.clone m = g := by
  cases g with
  | mk mx ls =>
    have h1 : ∀ l : List Transfer, l.map (Transfer.convert id) = l := by
      intro l
      induction l with
      | nil => rfl
      | cons a l ih => rw [List.map_cons, ih, (transfer_convert_id a m).1]
    have h2 : ∀ l : List Transfer, l.map (Transfer.clone m) = l := by
      intro l
      induction l with
      | nil => rfl
      | cons a l ih => rw [List.map_cons, ih, (transfer_convert_id a m).2]
    simp [GTransfer.convert, GTransfer.clone, h1 ls, h2 ls]

/-- a truncation that was filled from the restriction matrix: `P = (1,1)ᵀ`, `T := R = Pᵀ`; then
`trunc(prol(x)) = 2x` although `prol` and `rest` are right.  With the proper `T = (1/2 1/2)` the same object gives `x`. -/
def witnessP : Csr Rat := ⟨2, 1, #[0, 1, 2], #[0, 0], #[1, 1]⟩
def witnessT : Csr Rat := ⟨1, 2, #[0, 2], #[0, 1], #[1/2, 1/2]⟩

theorem wrong_source_breaks_left_inverse :
    (Transfer.ofProl witnessP witnessP.transpose).applyTrunc #[3, 3] #[0] = some #[6] ∧
    (Transfer.ofProl witnessP witnessT).applyTrunc #[3, 3] #[0] = some #[3] ∧
    (Transfer.ofProl witnessP witnessT).applyProl #[0, 0] #[3] = some #[3, 3] := by
  decide +kernel

end C18L
