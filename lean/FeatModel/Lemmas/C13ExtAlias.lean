/-
C13 extensions: operand aliasing in the Global layer (`apply(r, x, r, alpha)`, transposed kernel,
aliased `Global::Vector` arithmetic).
-/
import FeatModel.Lemmas.C13ExtSync
open FeatModel.Dist

set_option linter.unusedSectionVars false

namespace FeatModel.C13L

variable {α : Type} [Field α]

/-! ### (A1) the in-place CSR sweep -/

theorem matVec_eq_rowDot (rows : List (List (Nat × α))) (x : List α) :
    matVec rows x = rows.map fun row => rowDot row x := rfl

theorem val_append_length (pre : List α) (y : α) (r : List α) : val (pre ++ y :: r) pre.length = y := by
  simp [val, List.getD_eq_getElem?_getD]

theorem set_append_length (pre : List α) (y v : α) (r : List α) :
    (pre ++ y :: r).set pre.length v = pre ++ v :: r := by
  induction pre with
  | nil => rfl
  | cons a pre ih => simp [ih]

/-- the sweep with the already processed prefix `pre`: row `k + j` reads entry `k + j` before it is written, and
only writes there -/
theorem inPlace_sweep (rows : List (List (Nat × α))) (x : List α) (alpha : α) (pre r : List α)
    (hl : rows.length = r.length) :
    (rows.zipIdx pre.length).foldl (fun acc ri => acc.set ri.2 (val acc ri.2 + alpha * rowDot ri.1 x)) (pre ++ r)
      = pre ++ List.zipWith (fun yi axi => yi + alpha * axi) r (rows.map fun row => rowDot row x) := by
  induction rows generalizing pre r with
  | nil =>
    have : r = [] := List.eq_nil_of_length_eq_zero hl.symm
    subst this; simp
  | cons row rows ih =>
    cases r with
    | nil => simp at hl
    | cons y r =>
      rw [List.zipIdx_cons, List.foldl_cons]
      simp only []
      rw [val_append_length, set_append_length]
      have := ih (pre ++ [y + alpha * rowDot row x]) r (by simpa using hl)
      rw [List.length_append, List.length_singleton, List.append_assoc, List.singleton_append] at this
      rw [this]
      simp

theorem matVecAxpyInPlace_eq (rows : List (List (Nat × α))) (x r : List α) (alpha : α)
    (hl : rows.length = r.length) : matVecAxpyInPlace rows x r alpha = matVecAxpy rows x r alpha := by
  have := inPlace_sweep rows x alpha [] r hl
  simpa [matVecAxpyInPlace, matVecAxpy, matVec_eq_rowDot] using this

/-! ### (A2) the aliased call of `apply(r, x, y, alpha)` -/

theorem gapply2A_eq_gapply2 (ps : List Patch) (ords : List (List Nat)) (mats : List (List (List (Nat × α))))
    (xs ys : List (List α)) (alpha : α) :
    gapply2A false false ps ords mats xs ys alpha = gapply2 ps ords mats xs ys alpha := rfl

theorem gapply2_alias (ps : List Patch) (ords : List (List Nat)) (mats : List (List (List (Nat × α))))
    (xs ys : List (List α)) (alpha : α)
    (hm : ∀ r, r < ps.length → (mats.getD r []).length = (from1to0 (ps.getD r default) (ys.getD r [])).length) :
    gapply2A true false ps ords mats xs ys alpha = gapply2A false false ps ords mats xs ys alpha := by
  unfold gapply2A
  congr 1
  apply List.map_congr_left
  intro r hr
  simp only [Bool.false_eq_true, if_false, if_true]
  exact matVecAxpyInPlace_eq _ _ _ _ (hm r (List.mem_range.1 hr))

theorem gapply2A_transp_alias (ps : List Patch) (ords : List (List Nat)) (mats : List (List (List (Nat × α))))
    (xs ys : List (List α)) (alpha : α) :
    gapply2A true true ps ords mats xs ys alpha = gapply2A false true ps ords mats xs ys alpha := rfl

/-! ### (A3) the transposed kernel -/

/-- the entries of `Aᵀ x` in storage order: `(column, a * x[row])` -/
def tEntries (rows : List (List (Nat × α))) (x : List α) : List (Nat × α) :=
  rows.zipIdx.flatMap fun ri => ri.1.map fun e => (e.1, e.2 * val x ri.2)

/-- `Aᵀ x` with `n` entries: entry `i` sums `a * x[j]` over all rows `j` and all entries `(i, a)` of row `j` -/
def matVecT (rows : List (List (Nat × α))) (x : List α) (n : Nat) : List α :=
  (List.range n).map fun i => (((tEntries rows x).filter fun p => p.1 = i).map (·.2)).sum

theorem matVecT_length (rows : List (List (Nat × α))) (x : List α) (n : Nat) : (matVecT rows x n).length = n := by
  simp [matVecT]

theorem matVecT_val (rows : List (List (Nat × α))) (x : List α) (n i : Nat) (hi : i < n) :
    val (matVecT rows x n) i = (((tEntries rows x).filter fun p => p.1 = i).map (·.2)).sum := by
  unfold matVecT
  rw [val_eq_getElem _ _ (by simpa using hi)]
  simp

theorem matVecTAxpy_flat (rows : List (List (Nat × α))) (x y : List α) (alpha : α) :
    matVecTAxpy rows x y alpha
      = (tEntries rows x).foldl (fun w p => w.modify p.1 (fun t => t + alpha * p.2)) y := by
  unfold matVecTAxpy tEntries
  generalize rows.zipIdx = L
  induction L generalizing y with
  | nil => rfl
  | cons ri L ih =>
    rw [List.foldl_cons, List.flatMap_cons, List.foldl_append, ← ih, List.foldl_map]

theorem matVecTAxpy_length (rows : List (List (Nat × α))) (x y : List α) (alpha : α) :
    (matVecTAxpy rows x y alpha).length = y.length := by
  rw [matVecTAxpy_flat, foldl_modify_length]

theorem matVecTAxpy_val (rows : List (List (Nat × α))) (x y : List α) (alpha : α) (i : Nat) (hi : i < y.length) :
    val (matVecTAxpy rows x y alpha) i
      = val y i + alpha * (((tEntries rows x).filter fun p => p.1 = i).map (·.2)).sum := by
  rw [matVecTAxpy_flat, foldl_modify_val _ _ _ _ hi, sum_map_mul_left']

/-- a local vector `from_1_to_0(y) + alpha * P` followed by `sync_0`, `y` consistent -/
theorem sync0_axpy_type1 [CharZero α] (d : Decomp) (h : d.WF) (W ys P : List (List α)) (alpha : α) (Y : Nat → α)
    (hyl : ∀ r, r < d.np → (ys.getD r []).length = (d.patch r).n)
    (hY : ∀ r, r < d.np → ∀ i, i < (d.patch r).n → val (ys.getD r []) i = Y (d.gdof r i))
    (hWl : ∀ s, s < d.np → (W.getD s []).length = (d.patch s).n)
    (hW : ∀ s, s < d.np → ∀ j, j < (d.patch s).n →
      val (W.getD s []) j = val (from1to0 (d.patch s) (ys.getD s [])) j + alpha * val (P.getD s []) j)
    (ords : List (List Nat))
    (hord : ∀ r, r < d.np → (ords.getD r []).Perm (List.range (d.patch r).nbrs.length))
    (r : Nat) (hr : r < d.np) (i : Nat) (hi : i < (d.patch r).n) :
    val ((sync0 d.patches ords W).getD r []) i
      = Y (d.gdof r i) + alpha * ((List.range d.np).map fun s => (d.sharedVals P s (d.gdof r i)).sum).sum := by
  rw [sync0_sum d h W hWl ords hord r hr i hi]
  have e : ∀ s ∈ List.range d.np, (d.sharedVals W s (d.gdof r i)).sum
      = (d.sharedVals (from1to0All d.patches ys) s (d.gdof r i)).sum
        + alpha * (d.sharedVals P s (d.gdof r i)).sum := by
    intro s hs
    have hs := List.mem_range.1 hs
    apply sharedVals_sum_lin
    intro j hj _
    rw [from1to0All_getD d ys s hs]
    exact hW s hs j (by rw [h.size s hs]; exact hj)
  rw [List.map_congr_left e, sum_map_add_mul,
    sum_sharedVals_from1to0 d h ys hyl
      (fun r s i j hr hs hi hj hg => by rw [hY r hr i hi, hY s hs j hj, hg]) r hr i hi, hY r hr i hi]

theorem gapply2A_transp_eq [CharZero α] (al : Bool) (d : Decomp) (h : d.WF)
    (mats : List (List (List (Nat × α)))) (xs ys : List (List α)) (alpha : α) (Y : Nat → α)
    (hyl : ∀ r, r < d.np → (ys.getD r []).length = (d.patch r).n)
    (hY : ∀ r, r < d.np → ∀ i, i < (d.patch r).n → val (ys.getD r []) i = Y (d.gdof r i))
    (ords : List (List Nat))
    (hord : ∀ r, r < d.np → (ords.getD r []).Perm (List.range (d.patch r).nbrs.length))
    (r : Nat) (hr : r < d.np) (i : Nat) (hi : i < (d.patch r).n) :
    val ((gapply2A al true d.patches ords mats xs ys alpha).getD r []) i
      = Y (d.gdof r i) + alpha * ((List.range d.np).map fun s => (d.sharedVals
          ((List.range d.np).map fun t => matVecT (mats.getD t []) (xs.getD t []) (d.patch t).n) s
            (d.gdof r i)).sum).sum := by
  have hW : ∀ s, s < d.np →
      ((List.range d.patches.length).map fun r =>
        matVecTAxpy (mats.getD r []) (xs.getD r []) (from1to0 (d.patches.getD r default) (ys.getD r [])) alpha).getD s []
      = matVecTAxpy (mats.getD s []) (xs.getD s []) (from1to0 (d.patch s) (ys.getD s [])) alpha :=
    fun s hs => getD_range_map _ _ _ s hs
  have hdef : gapply2A al true d.patches ords mats xs ys alpha
      = sync0 d.patches ords ((List.range d.patches.length).map fun r =>
          matVecTAxpy (mats.getD r []) (xs.getD r []) (from1to0 (d.patches.getD r default) (ys.getD r [])) alpha) := by
    unfold gapply2A; simp
  rw [hdef]
  apply sync0_axpy_type1 d h _ ys _ alpha Y hyl hY _ _ ords hord r hr i hi
  · intro s hs
    rw [hW s hs, matVecTAxpy_length, from1to0_length _ _ (hyl s hs)]
  · intro s hs j hj
    rw [hW s hs, matVecTAxpy_val _ _ _ _ j (by rw [from1to0_length _ _ (hyl s hs)]; exact hj),
      getD_range_map _ _ _ s hs, matVecT_val _ _ _ j hj]

/-! ### (A4) the aliased `Global::Vector` program -/

theorem valiasLocal_getD (a b : α) (ys : List (List α)) (r : Nat) (hr : r < ys.length) :
    (valiasLocal a b ys).getD r []
      = compMul (vScale (vAxpy (ys.getD r []) (ys.getD r []) a) b) (vScale (vAxpy (ys.getD r []) (ys.getD r []) a) b) := by
  unfold valiasLocal
  simp [List.getD_eq_getElem?_getD, hr]

theorem valiasLocal_length (a b : α) (ys : List (List α)) (r : Nat) (hr : r < ys.length) :
    ((valiasLocal a b ys).getD r []).length = (ys.getD r []).length := by
  rw [valiasLocal_getD a b ys r hr]
  simp [compMul, vScale, vAxpy]

theorem valiasLocal_val (a b : α) (ys : List (List α)) (r : Nat) (hr : r < ys.length) (i : Nat)
    (hi : i < (ys.getD r []).length) :
    val ((valiasLocal a b ys).getD r []) i
      = (b * (val (ys.getD r []) i + a * val (ys.getD r []) i))
        * (b * (val (ys.getD r []) i + a * val (ys.getD r []) i)) := by
  have hl : i < (vScale (vAxpy (ys.getD r []) (ys.getD r []) a) b).length := by
    simp [vScale, vAxpy]; exact hi
  rw [valiasLocal_getD a b ys r hr, compMul_val _ _ _ hl hl, vops_val a b _ _ i hi hi]

end FeatModel.C13L
