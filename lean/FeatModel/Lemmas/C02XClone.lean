import FeatModel.Lemmas.C02Clone
/-!
C02: `Container::assign` and the cross-type clone `X<DT,IT>::clone(const X<DT2,IT2>&, mode)` on the small heap model:
the sharing table for every mode and type combination, value independence / aliasing, content, validity of the
result handle.  Core Lean only.
-/
open FeatModel FeatModel.LA
namespace C02L

namespace XCloneAux
variable {α : Type}

/-! ### `convVals` only pushes -/

theorem convVals_idxs (f : α → α) (h : Heap α) (ids : List Nat) : (h.convVals f ids).1.idxs = h.idxs := by
  induction ids generalizing h with
  | nil => rfl
  | cons id ids ih => simp only [Heap.convVals, Heap.convVal]; rw [ih]

theorem convVals_size (f : α → α) (h : Heap α) (ids : List Nat) :
    (h.convVals f ids).1.vals.size = h.vals.size + ids.length := by
  induction ids generalizing h with
  | nil => rfl
  | cons id ids ih =>
    simp only [Heap.convVals, Heap.convVal]; rw [ih]
    simp only [Array.size_push, List.length_cons]; omega

theorem convVals_old (f : α → α) (h : Heap α) (ids : List Nat) (i : Nat) (hi : i < h.vals.size) :
    (h.convVals f ids).1.vals[i]? = h.vals[i]? := by
  induction ids generalizing h with
  | nil => rfl
  | cons id ids ih =>
    simp only [Heap.convVals, Heap.convVal]
    rw [ih _ (by simp only [Array.size_push]; omega)]
    simp only [Array.getElem?_push]
    rw [if_neg (by omega)]

theorem convVals_ids (f : α → α) (h : Heap α) (ids : List Nat) :
    (h.convVals f ids).2 = List.range' h.vals.size ids.length := by
  induction ids generalizing h with
  | nil => rfl
  | cons id ids ih =>
    simp only [Heap.convVals, Heap.convVal]; rw [ih]
    simp only [Array.size_push, List.length_cons, List.range'_succ]

/-- the `t`-th new value array is the converted array `ids[t]` -/
theorem convVals_new (f : α → α) (h : Heap α) (ids : List Nat) (t : Nat) (ht : t < ids.length)
    (hid : ∀ id ∈ ids, id < h.vals.size) :
    (h.convVals f ids).1.vals[h.vals.size + t]? = some ((h.vals.getD ids[t] #[]).map f) := by
  induction ids generalizing h t with
  | nil => simp at ht
  | cons id ids ih =>
    have hidlt : id < h.vals.size := hid id (List.mem_cons_self ..)
    simp only [Heap.convVals, Heap.convVal]
    cases t with
    | zero =>
      rw [convVals_old _ _ _ _ (by simp only [Array.size_push]; omega)]
      simp only [Nat.add_zero, Array.getElem?_push, if_pos, List.getElem_cons_zero]
    | succ t =>
      have ht' : t < ids.length := by simpa using ht
      have := ih (h := { h with vals := h.vals.push ((h.vals.getD id #[]).map f) }) t ht' (by
        intro j hj; have := hid j (List.mem_cons_of_mem _ hj)
        simp only [Array.size_push]; omega)
      simp only [Array.size_push] at this
      rw [show h.vals.size + (t + 1) = h.vals.size + 1 + t by omega, this]
      have hlt : ids[t] < h.vals.size := hid _ (List.mem_cons_of_mem _ (List.getElem_mem ht'))
      simp only [List.getElem_cons_succ, Array.getD_eq_getD_getElem?, Array.getElem?_push]
      rw [if_neg (by omega)]

/-! ### the four type combinations of `assign` -/

theorem assign_ff (f : α → α) (h : Heap α) (c : Handle) : h.assign f c false false = (h, c) := rfl

theorem assign_tf (f : α → α) (h : Heap α) (c : Handle) :
    h.assign f c true false = ((h.convVals f c.vals).1, ⟨(h.convVals f c.vals).2, c.idxs⟩) := rfl

theorem assign_ft (f : α → α) (h : Heap α) (c : Handle) :
    h.assign f c false true = ((h.dupIdxs c.idxs).1, ⟨c.vals, (h.dupIdxs c.idxs).2⟩) := rfl

theorem assign_tt (f : α → α) (h : Heap α) (c : Handle) :
    h.assign f c true true = (((h.convVals f c.vals).1.dupIdxs c.idxs).1,
      ⟨(h.convVals f c.vals).2, ((h.convVals f c.vals).1.dupIdxs c.idxs).2⟩) := rfl

theorem assign_vals_size (f : α → α) (h : Heap α) (c : Handle) (dDiff iDiff : Bool) :
    (h.assign f c dDiff iDiff).1.vals.size = h.vals.size + (if dDiff then c.vals.length else 0) := by
  cases dDiff <;> cases iDiff
  · rfl
  · rw [assign_ft]; simp only [dupIdxs_vals]; rfl
  · rw [assign_tf]; simp only [convVals_size]; rfl
  · rw [assign_tt]; simp only [dupIdxs_vals, convVals_size]; rfl

theorem assign_idxs_size (f : α → α) (h : Heap α) (c : Handle) (dDiff iDiff : Bool) :
    (h.assign f c dDiff iDiff).1.idxs.size = h.idxs.size + (if iDiff then c.idxs.length else 0) := by
  cases dDiff <;> cases iDiff
  · rfl
  · rw [assign_ft]; simp only [dupIdxs_size]; rfl
  · rw [assign_tf]; simp only [convVals_idxs]; rfl
  · rw [assign_tt]; simp only [dupIdxs_size, convVals_idxs]; rfl

theorem assign_vals_size_le (f : α → α) (h : Heap α) (c : Handle) (dDiff iDiff : Bool) :
    h.vals.size ≤ (h.assign f c dDiff iDiff).1.vals.size := by
  rw [assign_vals_size]; omega

theorem assign_idxs_size_le (f : α → α) (h : Heap α) (c : Handle) (dDiff iDiff : Bool) :
    h.idxs.size ≤ (h.assign f c dDiff iDiff).1.idxs.size := by
  rw [assign_idxs_size]; omega

/-- `assign` leaves every existing value array untouched -/
theorem assign_vals_old (f : α → α) (h : Heap α) (c : Handle) (dDiff iDiff : Bool) (i : Nat)
    (hi : i < h.vals.size) : (h.assign f c dDiff iDiff).1.vals[i]? = h.vals[i]? := by
  cases dDiff <;> cases iDiff
  · rfl
  · rw [assign_ft]; simp only [dupIdxs_vals]
  · rw [assign_tf]; exact convVals_old _ _ _ _ hi
  · rw [assign_tt]; simp only [dupIdxs_vals]; exact convVals_old _ _ _ _ hi

/-- `assign` leaves every existing index array untouched -/
theorem assign_idxs_old (f : α → α) (h : Heap α) (c : Handle) (dDiff iDiff : Bool) (i : Nat)
    (hi : i < h.idxs.size) : (h.assign f c dDiff iDiff).1.idxs[i]? = h.idxs[i]? := by
  cases dDiff <;> cases iDiff
  · rfl
  · rw [assign_ft]; exact dupIdxs_old _ _ _ hi
  · rw [assign_tf]; simp only [convVals_idxs]
  · rw [assign_tt]
    rw [dupIdxs_old _ _ _ (by rw [convVals_idxs]; exact hi), convVals_idxs]

theorem assign_vals_same (f : α → α) (h : Heap α) (c : Handle) (iDiff : Bool) :
    (h.assign f c false iDiff).2.vals = c.vals := by
  cases iDiff <;> rfl

theorem assign_idxs_same (f : α → α) (h : Heap α) (c : Handle) (dDiff : Bool) :
    (h.assign f c dDiff false).2.idxs = c.idxs := by
  cases dDiff <;> rfl

theorem assign_vals_diff (f : α → α) (h : Heap α) (c : Handle) (iDiff : Bool) :
    (h.assign f c true iDiff).2.vals = List.range' h.vals.size c.vals.length := by
  cases iDiff
  · rw [assign_tf]; exact convVals_ids _ _ _
  · rw [assign_tt]; exact convVals_ids _ _ _

theorem assign_idxs_diff (f : α → α) (h : Heap α) (c : Handle) (dDiff : Bool) :
    (h.assign f c dDiff true).2.idxs = List.range' h.idxs.size c.idxs.length := by
  cases dDiff
  · rw [assign_ft]; exact dupIdxs_ids _ _
  · rw [assign_tt]; simp only [dupIdxs_ids, convVals_idxs]

/-- the `t`-th converted value array of `assign` -/
theorem assign_vals_new (f : α → α) (h : Heap α) (c : Handle) (hok : Handle.okIn c h) (iDiff : Bool) (t : Nat)
    (ht : t < c.vals.length) :
    (h.assign f c true iDiff).1.vals[h.vals.size + t]? = some ((h.vals.getD c.vals[t] #[]).map f) := by
  cases iDiff
  · rw [assign_tf]; exact convVals_new _ _ _ _ ht hok.1
  · rw [assign_tt]; simp only [dupIdxs_vals]; exact convVals_new _ _ _ _ ht hok.1

/-! ### `clone` keeps handles valid -/

theorem clone_vals_size_le (h : Heap α) (c : Handle) (m : CloneMode) : h.vals.size ≤ (h.clone c m).1.vals.size := by
  cases m <;> simp only [Heap.clone, dupVals_size, dupIdxs_vals] <;> omega

theorem clone_idxs_size_le (h : Heap α) (c : Handle) (m : CloneMode) : h.idxs.size ≤ (h.clone c m).1.idxs.size := by
  cases m <;> simp only [Heap.clone, dupVals_idxs, dupIdxs_size] <;> omega

theorem clone_okIn (h : Heap α) (c : Handle) (hok : Handle.okIn c h) (m : CloneMode) :
    Handle.okIn (h.clone c m).2 (h.clone c m).1 ∧ Handle.okIn c (h.clone c m).1 := by
  refine ⟨?_, fun id hid => Nat.lt_of_lt_of_le (hok.1 id hid) (clone_vals_size_le h c m),
    fun id hid => Nat.lt_of_lt_of_le (hok.2 id hid) (clone_idxs_size_le h c m)⟩
  cases m
  · exact hok
  · refine ⟨fun id hid => ?_, fun id hid => ?_⟩
    · simp only [Heap.clone, dupVals_ids, List.mem_range'_1] at hid
      simp only [Heap.clone, dupVals_size]; omega
    · simp only [Heap.clone] at hid
      simp only [Heap.clone, dupVals_idxs]; exact hok.2 id hid
  · refine ⟨fun id hid => ?_, fun id hid => ?_⟩
    · simp only [Heap.clone, dupVals_ids, List.mem_range'_1] at hid
      simp only [Heap.clone, dupVals_size]; omega
    · simp only [Heap.clone] at hid
      simp only [Heap.clone, dupVals_idxs]; exact hok.2 id hid
  · refine ⟨fun id hid => ?_, fun id hid => ?_⟩
    · simp only [Heap.clone, dupVals_ids, List.mem_range'_1] at hid
      simp only [Heap.clone, dupVals_size]; omega
    · simp only [Heap.clone, dupIdxs_ids, List.mem_range'_1] at hid
      simp only [Heap.clone, dupVals_idxs, dupIdxs_size]; omega
  · refine ⟨fun id hid => ?_, fun id hid => ?_⟩
    · simp only [Heap.clone, dupVals_ids, List.mem_range'_1] at hid
      simp only [Heap.clone, dupVals_size]; omega
    · simp only [Heap.clone, dupIdxs_ids, List.mem_range'_1] at hid
      simp only [Heap.clone, dupVals_idxs, dupIdxs_size]; omega

/-- index arrays of a shallow / layout / weak clone are the source's -/
theorem clone_idxs_shared (h : Heap α) (c : Handle) (m : CloneMode) (hm : m = .shallow ∨ m = .layout ∨ m = .weak) :
    (h.clone c m).2.idxs = c.idxs := by
  rcases hm with rfl | rfl | rfl <;> rfl

/-- index arrays of a deep / allocate clone are fresh -/
theorem clone_idxs_fresh (h : Heap α) (c : Handle) (m : CloneMode) (hm : ¬ (m = .shallow ∨ m = .layout ∨ m = .weak)) :
    ∀ id ∈ (h.clone c m).2.idxs, h.idxs.size ≤ id := by
  cases m
  · exact absurd (Or.inl rfl) hm
  · exact absurd (Or.inr (Or.inl rfl)) hm
  · exact absurd (Or.inr (Or.inr rfl)) hm
  · exact clone_deep_fresh_idx h c
  · exact clone_allocate_fresh_idx h c

/-! ### reads and writes through containers with different first value arrays -/

/-- two containers of one heap, one with valid-in-`n` ids and one with ids `≥ n`: writes are mutually invisible -/
theorem independent_of_lt_le (H : Heap α) (c d : Handle) (n : Nat) (hc : ∀ id ∈ c.vals, id < n)
    (hd : ∀ id ∈ d.vals, n ≤ id) (k k' : Nat) (v dflt : α) :
    (H.write c k v).read d k' dflt = H.read d k' dflt ∧ (H.write d k v).read c k' dflt = H.read c k' dflt := by
  cases hcv : c.vals with
  | nil => exact ⟨by rw [write_of_nil _ hcv], by rw [read_of_nil _ hcv, read_of_nil _ hcv]⟩
  | cons i r =>
    cases hdv : d.vals with
    | nil => exact ⟨by rw [read_of_nil _ hdv, read_of_nil _ hdv], by rw [write_of_nil _ hdv]⟩
    | cons j r' =>
      have h1 := hc i (by rw [hcv]; exact List.mem_cons_self ..)
      have h2 := hd j (by rw [hdv]; exact List.mem_cons_self ..)
      exact ⟨read_write_ne _ hcv hdv (by omega) .., read_write_ne _ hdv hcv (by omega) ..⟩

/-- reading depends on the value ids only -/
theorem read_congr (H : Heap α) {c d : Handle} (hcd : c.vals = d.vals) (k : Nat) (dflt : α) :
    H.read c k dflt = H.read d k dflt := by
  simp only [Heap.read, hcd]

theorem map_getD (f : α → α) (a : Array α) (k : Nat) (dflt : α) (hk : k < a.size) :
    (a.map f).getD k dflt = f (a.getD k dflt) := by
  simp [Array.getD_eq_getD_getElem?, hk]

/-- what the temporary of `assign` reads -/
theorem assign_reads (f : α → α) (h : Heap α) (c : Handle) (hok : Handle.okIn c h) (dDiff iDiff : Bool) (k : Nat)
    (dflt : α) (hk : k < h.valSize c) :
    (h.assign f c dDiff iDiff).1.read (h.assign f c dDiff iDiff).2 k dflt =
      (if dDiff then f (h.read c k dflt) else h.read c k dflt) := by
  cases hcv : c.vals with
  | nil => simp [Heap.valSize, hcv] at hk
  | cons id r =>
    have hid : id < h.vals.size := hok.1 id (by rw [hcv]; exact List.mem_cons_self ..)
    cases dDiff with
    | false =>
      have hv : (h.assign f c false iDiff).2.vals = id :: r := by rw [assign_vals_same, hcv]
      rw [read_of_cons _ hv, read_of_cons _ hcv, assign_vals_old _ _ _ _ _ _ hid]
      rfl
    | true =>
      have hv : (h.assign f c true iDiff).2.vals = h.vals.size :: List.range' (h.vals.size + 1) r.length := by
        rw [assign_vals_diff, hcv]; simp only [List.length_cons, List.range'_succ]
      have hnew := assign_vals_new f h c hok iDiff 0 (by rw [hcv]; simp)
      simp only [Nat.add_zero, hcv, List.getElem_cons_zero] at hnew
      rw [valSize_of_cons _ hcv] at hk
      rw [Array.getD_eq_getD_getElem? (xs := h.vals)] at hnew
      rw [read_of_cons _ hv, read_of_cons _ hcv, hnew]
      simp only [Option.getD_some, if_true]
      exact map_getD _ _ _ _ hk

end XCloneAux

open XCloneAux

section
variable {α : Type} (f : α → α) (h : Heap α) (c : Handle) (hok : Handle.okIn c h) (dDiff iDiff : Bool) (m : CloneMode)

/-! ### 0. `assign` -/

theorem assign_shares :
    (dDiff = false → (h.assign f c dDiff iDiff).2.vals = c.vals) ∧
    (iDiff = false → (h.assign f c dDiff iDiff).2.idxs = c.idxs) ∧
    (dDiff = true → ∀ id ∈ (h.assign f c dDiff iDiff).2.vals, h.vals.size ≤ id) ∧
    (iDiff = true → ∀ id ∈ (h.assign f c dDiff iDiff).2.idxs, h.idxs.size ≤ id) := by
  refine ⟨?_, ?_, ?_, ?_⟩
  · rintro rfl; exact assign_vals_same f h c iDiff
  · rintro rfl; exact assign_idxs_same f h c dDiff
  · rintro rfl id hid
    rw [assign_vals_diff, List.mem_range'_1] at hid
    exact hid.1
  · rintro rfl id hid
    rw [assign_idxs_diff, List.mem_range'_1] at hid
    exact hid.1

include hok

/-- the handle of the temporary is valid in the new heap (and so is the source) -/
theorem assign_okIn : Handle.okIn (h.assign f c dDiff iDiff).2 (h.assign f c dDiff iDiff).1 := by
  refine ⟨fun id hid => ?_, fun id hid => ?_⟩
  · cases dDiff with
    | false =>
      rw [assign_vals_same] at hid
      exact Nat.lt_of_lt_of_le (hok.1 id hid) (assign_vals_size_le ..)
    | true =>
      rw [assign_vals_diff, List.mem_range'_1] at hid
      rw [assign_vals_size]; simp only [if_true]; omega
  · cases iDiff with
    | false =>
      rw [assign_idxs_same] at hid
      exact Nat.lt_of_lt_of_le (hok.2 id hid) (assign_idxs_size_le ..)
    | true =>
      rw [assign_idxs_diff, List.mem_range'_1] at hid
      rw [assign_idxs_size]; simp only [if_true]; omega

theorem assign_source_okIn : Handle.okIn c (h.assign f c dDiff iDiff).1 :=
  ⟨fun id hid => Nat.lt_of_lt_of_le (hok.1 id hid) (assign_vals_size_le ..),
   fun id hid => Nat.lt_of_lt_of_le (hok.2 id hid) (assign_idxs_size_le ..)⟩

/-! ### 1. the sharing table -/

omit hok in
theorem xclone_vals_table :
    (m = .shallow ∧ dDiff = false → (h.xclone f c dDiff iDiff m).2.vals = c.vals) ∧
    (¬ (m = .shallow ∧ dDiff = false) → ∀ id ∈ (h.xclone f c dDiff iDiff m).2.vals, h.vals.size ≤ id) := by
  refine ⟨?_, ?_⟩
  · rintro ⟨rfl, rfl⟩
    exact assign_vals_same f h c iDiff
  · intro hne id hid
    by_cases hm : m = .shallow
    · subst hm
      cases dDiff with
      | false => exact absurd ⟨rfl, rfl⟩ hne
      | true => exact (assign_shares f h c true iDiff).2.2.1 rfl id hid
    · exact Nat.le_trans (assign_vals_size_le f h c dDiff iDiff) (clone_fresh_vals _ _ m hm id hid)

omit hok in
theorem xclone_idxs_table :
    ((m = .shallow ∨ m = .layout ∨ m = .weak) ∧ iDiff = false → (h.xclone f c dDiff iDiff m).2.idxs = c.idxs) ∧
    (¬ ((m = .shallow ∨ m = .layout ∨ m = .weak) ∧ iDiff = false) →
      ∀ id ∈ (h.xclone f c dDiff iDiff m).2.idxs, h.idxs.size ≤ id) := by
  refine ⟨?_, ?_⟩
  · rintro ⟨hm, rfl⟩
    exact (clone_idxs_shared _ _ m hm).trans (assign_idxs_same f h c dDiff)
  · intro hne id hid
    by_cases hm : m = .shallow ∨ m = .layout ∨ m = .weak
    · cases iDiff with
      | false => exact absurd ⟨hm, rfl⟩ hne
      | true =>
        have : (h.xclone f c dDiff true m).2.idxs = (h.assign f c dDiff true).2.idxs := clone_idxs_shared _ _ m hm
        rw [this] at hid
        exact (assign_shares f h c dDiff true).2.2.2 rfl id hid
    · exact Nat.le_trans (assign_idxs_size_le f h c dDiff iDiff) (clone_idxs_fresh _ _ m hm id hid)

/-! ### 2. value independence -/

/-- unless (shallow and same data type), a write through either container is invisible through the other -/
theorem xclone_independent (hne : ¬ (m = .shallow ∧ dDiff = false)) (k k' : Nat) (v dflt : α) :
    let r := h.xclone f c dDiff iDiff m
    (r.1.write c k v).read r.2 k' dflt = r.1.read r.2 k' dflt ∧
      (r.1.write r.2 k v).read c k' dflt = r.1.read c k' dflt := by
  intro r
  exact independent_of_lt_le r.1 c r.2 h.vals.size hok.1 ((xclone_vals_table f h c dDiff iDiff m).2 hne) k k' v dflt

/-- weak / deep / allocate are value independent for every type combination -/
theorem xclone_weak_deep_allocate_independent (hm : m = .weak ∨ m = .deep ∨ m = .allocate) (k k' : Nat)
    (v dflt : α) :
    let r := h.xclone f c dDiff iDiff m
    (r.1.write c k v).read r.2 k' dflt = r.1.read r.2 k' dflt ∧
      (r.1.write r.2 k v).read c k' dflt = r.1.read c k' dflt :=
  xclone_independent f h c hok dDiff iDiff m (by rcases hm with rfl | rfl | rfl <;> simp) k k' v dflt

/-- ... and so is layout -/
theorem xclone_layout_independent (k k' : Nat) (v dflt : α) :
    let r := h.xclone f c dDiff iDiff .layout
    (r.1.write c k v).read r.2 k' dflt = r.1.read r.2 k' dflt ∧
      (r.1.write r.2 k v).read c k' dflt = r.1.read c k' dflt :=
  xclone_independent f h c hok dDiff iDiff .layout (by simp) k k' v dflt

/-- ... and shallow as soon as the data type differs -/
theorem xclone_shallow_dDiff_independent (k k' : Nat) (v dflt : α) :
    let r := h.xclone f c true iDiff .shallow
    (r.1.write c k v).read r.2 k' dflt = r.1.read r.2 k' dflt ∧
      (r.1.write r.2 k v).read c k' dflt = r.1.read c k' dflt :=
  xclone_independent f h c hok true iDiff .shallow (by simp) k k' v dflt

/-! ### 3. aliasing -/

/-- shallow with the same data type (index type arbitrary) aliases the value array -/
theorem xclone_shallow_alias (hd : dDiff = false) (k : Nat) (v dflt : α) (hk : k < h.valSize c) :
    let r := h.xclone f c dDiff iDiff .shallow
    (r.1.write c k v).read r.2 k dflt = v ∧ (r.1.write r.2 k v).read c k dflt = v := by
  intro r
  subst hd
  cases hcv : c.vals with
  | nil => simp [Heap.valSize, hcv] at hk
  | cons id t =>
    have hid : id < h.vals.size := hok.1 id (by rw [hcv]; exact List.mem_cons_self ..)
    have hrv : r.2.vals = id :: t := by
      have : r.2.vals = c.vals := assign_vals_same f h c iDiff
      rw [this, hcv]
    have hold : r.1.vals[id]? = h.vals[id]? := assign_vals_old f h c false iDiff id hid
    have hk1 : k < r.1.valSize c := by
      rw [valSize_of_cons _ hcv, hold, ← valSize_of_cons _ hcv]; exact hk
    have hk2 : k < r.1.valSize r.2 := by
      rw [valSize_of_cons _ hrv, hold, ← valSize_of_cons _ hcv]; exact hk
    exact ⟨read_write_same _ hcv hrv k v dflt hk1, read_write_same _ hrv hcv k v dflt hk2⟩

/-! ### 4. content -/

/-- the clone reads the (converted) source -/
theorem xclone_reads (k : Nat) (dflt : α) (hk : k < h.valSize c) :
    (h.xclone f c dDiff iDiff m).1.read (h.xclone f c dDiff iDiff m).2 k dflt =
      (if dDiff then f (h.read c k dflt) else h.read c k dflt) := by
  have := clone_reads_same _ _ (assign_okIn f h c hok dDiff iDiff) m k dflt
  exact this.trans (assign_reads f h c hok dDiff iDiff k dflt hk)

/-- the source is unchanged -/
theorem xclone_source_unchanged (k : Nat) (dflt : α) :
    (h.xclone f c dDiff iDiff m).1.read c k dflt = h.read c k dflt := by
  cases hcv : c.vals with
  | nil => rw [read_of_nil _ hcv, read_of_nil _ hcv]
  | cons id r =>
    have hid : id < h.vals.size := hok.1 id (by rw [hcv]; exact List.mem_cons_self ..)
    have h1 : (h.xclone f c dDiff iDiff m).1.vals[id]? = (h.assign f c dDiff iDiff).1.vals[id]? :=
      clone_vals_old _ _ m id (Nat.lt_of_lt_of_le hid (assign_vals_size_le ..))
    rw [read_of_cons _ hcv, read_of_cons _ hcv, h1, assign_vals_old _ _ _ _ _ _ hid]

/-! ### 5. validity of the result, so that the theorems compose along a chain -/

theorem xclone_okIn :
    Handle.okIn (h.xclone f c dDiff iDiff m).2 (h.xclone f c dDiff iDiff m).1 ∧
      Handle.okIn c (h.xclone f c dDiff iDiff m).1 := by
  have hA := assign_okIn f h c hok dDiff iDiff
  have hc := assign_source_okIn f h c hok dDiff iDiff
  have hcl := clone_okIn _ _ hA m
  refine ⟨hcl.1, fun id hid => Nat.lt_of_lt_of_le (hc.1 id hid) (clone_vals_size_le ..),
    fun id hid => Nat.lt_of_lt_of_le (hc.2 id hid) (clone_idxs_size_le ..)⟩

end

end C02L
