/-
C18 helper lemmas, part 1: the list-based containers of `Model/GridTransfer.lean` (`tab`, `get`, `vtab`, `sumTo`,
`lsum`) expressed through functions and `Finset` sums.
-/
import FeatModel.Model.GridTransfer
import Mathlib.Algebra.BigOperators.Group.Finset.Basic
import Mathlib.Algebra.BigOperators.Ring.Finset
import Mathlib.Algebra.Order.Field.Rat
import Mathlib.Tactic.Ring
import Mathlib.Tactic.FieldSimp
import Mathlib.Tactic.Linarith
open FeatModel.GT

namespace C18L

theorem get_tab {r c : Nat} (f : Nat → Nat → Rat) {i j : Nat} (hi : i < r) (hj : j < c) :
    get (tab r c f) i j = f i j := by
  simp [FeatModel.GT.get, tab, hi, hj]

theorem get_tab_row_oob {r c : Nat} (f : Nat → Nat → Rat) {i j : Nat} (hi : r ≤ i) :
    get (tab r c f) i j = 0 := by
  simp [FeatModel.GT.get, tab, hi]

theorem tab_length (r c : Nat) (f : Nat → Nat → Rat) : (tab r c f).length = r := by simp [tab]

theorem getD_vtab {n : Nat} (f : Nat → Rat) {i : Nat} (hi : i < n) : (vtab n f).getD i 0 = f i := by
  simp [vtab, List.getD_eq_getElem?_getD, hi]

theorem vtab_length (n : Nat) (f : Nat → Rat) : (vtab n f).length = n := by simp [vtab]

theorem foldl_add_eq (l : List Nat) (f : Nat → Rat) (s : Rat) :
    l.foldl (fun s k => s + f k) s = s + (l.map f).sum := by
  induction l generalizing s with
  | nil => simp
  | cons a l ih => simp [ih, add_assoc]

theorem sumTo_eq (n : Nat) (f : Nat → Rat) : sumTo n f = ∑ k ∈ Finset.range n, f k := by
  unfold sumTo
  rw [foldl_add_eq, zero_add]
  induction n with
  | zero => simp
  | succ n ih => rw [List.range_succ, List.map_append, List.sum_append, ih, Finset.sum_range_succ]; simp

theorem lsum_eq (l : List Rat) : lsum l = l.sum := by
  unfold lsum
  have : ∀ s : Rat, l.foldl (· + ·) s = s + l.sum := by
    induction l with
    | nil => simp
    | cons a l ih => intro s; simp [ih, add_assoc]
  rw [this, zero_add]

end C18L
