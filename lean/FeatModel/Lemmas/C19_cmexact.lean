import FeatModel.Model.Adjacency
import FeatModel.Model.AdjKernels
import FeatModel.Lemmas.C19_cm
import FeatModel.Lemmas.C19_layers
import FeatModel.Lemmas.C19_cmroot
import FeatModel.Lemmas.C19_walk
/-! C19 lemmas, group `cmexact` (statements fixed by Props/C19.statements) -/
open FeatModel.Adj

namespace C19L.cmexact
open C19L.cm C19L.layers

theorem expFold {n : Nat} (perm : List Nat) : ∀ (xs : List Nat), (∀ k, k ∈ xs → k < n) →
    ∀ (pre : List Nat) (acc : List Nat × Array Bool), Inv n (perm ++ acc.1) acc.2 →
      acc.1 = Graph.dedup (pre.filter fun k => !perm.contains k) →
      (xs.foldl expStep acc).1 = Graph.dedup ((pre ++ xs).filter fun k => !perm.contains k) := by
  intro xs
  induction xs with
  | nil => intro _ pre acc _ he; simpa using he
  | cons x t ih =>
    intro hxs pre acc h he
    simp only [List.foldl_cons]
    have hstep : Inv n (perm ++ (expStep acc x).1) (expStep acc x).2 :=
      expRow_inv perm [x] (fun y hy => hxs y (by simp at hy; simp [hy])) acc h
    have hgoal : (expStep acc x).1 = Graph.dedup ((pre ++ [x]).filter fun k => !perm.contains k) := by
      have hm := h.mask_iff x
      unfold expStep
      rw [List.filter_append]
      cases hma : CM.isMasked acc.2 x with
      | true =>
        rw [hma] at hm
        have hin := hm.mp rfl
        simp only [if_true]
        by_cases hp : x ∈ perm
        · simp [hp, he]
        · have hx : x ∈ acc.1 := by
            rcases List.mem_append.mp hin with h1 | h1
            · exact absurd h1 hp
            · exact h1
          rw [he, C19L.renders.mem_dedup] at hx
          have : List.filter (fun k => !perm.contains k) [x] = [x] := by simp [hp]
          rw [this, C19L.walk.dedup_snoc]
          have hx' : x ∈ pre := by simpa [hp] using hx
          simp [hx', hp, he]
      | false =>
        rw [hma] at hm
        have hnin : x ∉ perm ++ acc.1 := fun hin => Bool.noConfusion (hm.mpr hin)
        have hp : x ∉ perm := fun h1 => hnin (List.mem_append.mpr (Or.inl h1))
        have hx : x ∉ acc.1 := fun h1 => hnin (List.mem_append.mpr (Or.inr h1))
        rw [he, C19L.renders.mem_dedup] at hx
        have : List.filter (fun k => !perm.contains k) [x] = [x] := by simp [hp]
        rw [this, C19L.walk.dedup_snoc]
        have hx' : x ∉ pre := by simpa [hp] using hx
        simp [hx', he]
    have := ih (fun y hy => hxs y (by simp [hy])) (pre ++ [x]) (expStep acc x) hstep hgoal
    simpa [List.append_assoc] using this

theorem expandLevel_discovered (g : Graph) (hsq : g.nImg = g.nDom) (hwf : g.wf = true)
    (perm level : List Nat) (mask : Array Bool) (h : Inv g.nDom perm mask) :
    (CM.expandLevel g level mask).1 = CM.discovered g perm level := by
  rw [expandLevel_eq, C19L.walk.foldl_nest g.row expStep ([], mask) level]
  have := expFold (n := g.nDom) perm (level.flatMap g.row) ?_ [] ([], mask) (by simpa using h)
    (by simp [Graph.dedup])
  · simpa [CM.discovered] using this
  · intro k hk
    obtain ⟨nd, _, hnd⟩ := List.mem_flatMap.mp hk
    exact row_lt g hsq hwf nd k hnd


theorem discovered_full (g : Graph) (hsq : g.nImg = g.nDom) (hwf : g.wf = true)
    (perm level : List Nat) (mask : Array Bool) (h : Inv g.nDom perm mask)
    (hlen : ¬ perm.length < g.nDom) : CM.discovered g perm level = [] := by
  unfold CM.discovered
  have : (level.flatMap g.row).filter (fun k => !perm.contains k) = [] := by
    rw [List.filter_eq_nil_iff]
    intro k hk
    obtain ⟨nd, _, hnd⟩ := List.mem_flatMap.mp hk
    have := mem_of_nodup_full h.nodup h.lt (by have := h.length_le; omega) k (row_lt g hsq hwf nd k hnd)
    simp [this]
  rw [this]; rfl

theorem component_exact (g : Graph) (hsq : g.nImg = g.nDom) (hwf : g.wf = true) (st : CM.SortType) :
    ∀ (fuel : Nat) (perm level : List Nat) (mask : Array Bool) (layers : List Nat),
      Inv g.nDom perm mask → g.nDom - perm.length < fuel →
      ∃ levels : List (List Nat),
        (CM.component g st fuel perm level mask layers).1 = perm ++ levels.flatten ∧
        CM.IsLevelChainExact g st perm level levels ∧
        (CM.component g st fuel perm level mask layers).2.2 =
          layers ++ CM.offsets perm.length (levels.map List.length) ∧
        Inv g.nDom (CM.component g st fuel perm level mask layers).1
          (CM.component g st fuel perm level mask layers).2.1 := by
  intro fuel
  induction fuel with
  | zero => intro perm level mask layers _ hf; omega
  | succ fuel ih =>
    intro perm level mask layers h hf
    unfold CM.component
    by_cases hlt : perm.length < g.nDom
    · simp only [hlt, if_true]
      have hexp := expandLevel_inv g hsq hwf perm level mask h
      have hdisc := expandLevel_discovered g hsq hwf perm level mask h
      generalize CM.expandLevel g level mask = r at hexp hdisc
      obtain ⟨fresh, mask'⟩ := r
      simp only at hexp hdisc ⊢
      by_cases hempty : fresh.isEmpty = true
      · simp only [hempty, if_true]
        have : fresh = [] := List.isEmpty_iff.mp hempty
        subst this
        exact ⟨[], by simp, hdisc.symm, by simp [CM.offsets], by simpa using hexp⟩
      · simp only [hempty, Bool.false_eq_true, if_false]
        have hsp := sortLevel_perm g st fresh
        have hinv' : Inv g.nDom (perm ++ CM.sortLevel g st fresh) mask' :=
          hexp.of_perm (List.Perm.append_left perm hsp.symm)
        have hne : CM.sortLevel g st fresh ≠ [] := by
          intro e
          rw [e] at hsp
          have := hsp.length_eq
          cases fresh with
          | nil => simp at hempty
          | cons _ _ => simp at this
        have hlen : 0 < (CM.sortLevel g st fresh).length := List.length_pos_iff.mpr hne
        obtain ⟨levels, h1, h2, h3, h4⟩ := ih (perm ++ CM.sortLevel g st fresh) (CM.sortLevel g st fresh)
          mask' (layers ++ [(perm ++ CM.sortLevel g st fresh).length]) hinv'
          (by simp only [List.length_append]; omega)
        refine ⟨CM.sortLevel g st fresh :: levels, ?_, ⟨hne, ?_, h2⟩, ?_, h4⟩
        · rw [h1]; simp
        · rw [hdisc]
        · rw [h3]; simp [CM.offsets]
    · simp only [hlt, if_false]
      exact ⟨[], by simp, discovered_full g hsq hwf perm level mask h hlt, by simp [CM.offsets], h⟩

theorem component_prefix (g : Graph) (st : CM.SortType) :
    ∀ (fuel k : Nat) (x lvl : List Nat) (mask : Array Bool) (lay : List Nat),
      ∃ (ext : List Nat) (mask' : Array Bool) (lay' : List Nat), ∀ p : List Nat, p.length = k →
        CM.component g st fuel (p ++ x) lvl mask lay = (p ++ ext, mask', lay') := by
  intro fuel
  induction fuel with
  | zero => intro k x lvl mask lay; exact ⟨x, mask, lay, fun p _ => rfl⟩
  | succ fuel ih =>
    intro k x lvl mask lay
    by_cases hlt : k + x.length < g.nDom
    · cases hr : CM.expandLevel g lvl mask with
      | mk fresh mask' =>
        by_cases hempty : fresh.isEmpty = true
        · refine ⟨x, mask', lay, fun p hp => ?_⟩
          unfold CM.component
          have : (p ++ x).length < g.nDom := by simp only [List.length_append]; omega
          simp only [this, if_true, hr, hempty]
        · obtain ⟨ext, m, l, hall⟩ := ih k (x ++ CM.sortLevel g st fresh) (CM.sortLevel g st fresh) mask'
            (lay ++ [k + x.length + (CM.sortLevel g st fresh).length])
          refine ⟨ext, m, l, fun p hp => ?_⟩
          unfold CM.component
          have : (p ++ x).length < g.nDom := by simp only [List.length_append]; omega
          simp only [this, if_true, hr, hempty, Bool.false_eq_true, if_false]
          have hl : (p ++ x ++ CM.sortLevel g st fresh).length = k + x.length + (CM.sortLevel g st fresh).length := by
            simp only [List.length_append]; omega
          rw [hl, List.append_assoc]
          exact hall p hp
    · refine ⟨x, mask, lay, fun p hp => ?_⟩
      unfold CM.component
      have : ¬ (p ++ x).length < g.nDom := by simp only [List.length_append]; omega
      simp only [this, if_false]


theorem outer_pair (g : Graph) (hsq : g.nImg = g.nDom) (hwf : g.wf = true)
    (rt : CM.RootType) (st : CM.SortType) :
    ∀ (fuel : Nat) (permF permT : List Nat) (mask : Array Bool) (layF layT p l : List Nat),
      Inv g.nDom permF mask → permF.Perm permT →
      CM.outer g false rt st fuel permF mask layF = some (p, l) →
      ∃ comps : List (List (List Nat)), CM.AreCmComponents g rt st permF comps ∧
        p = permF ++ comps.flatMap (fun c => c.flatten) ∧
        l = layF ++ CM.offsets permF.length (comps.flatMap fun c => c.map List.length) ∧
        CM.outer g true rt st fuel permT mask layT =
          some (permT ++ comps.flatMap (fun c => c.flatten.reverse),
            layT ++ CM.offsets permT.length (comps.flatMap fun c => c.reverse.map List.length)) := by
  intro fuel
  induction fuel with
  | zero =>
    intro permF permT mask layF layT p l h hp ho
    have hlen := hp.length_eq
    unfold CM.outer at ho ⊢
    by_cases hlt : permF.length < g.nDom
    · simp [hlt] at ho
    · have hlt' : ¬ permT.length < g.nDom := by omega
      simp only [hlt, if_false, Option.some.injEq, Prod.mk.injEq] at ho
      exact ⟨[], trivial, by simp [ho.1], by simp [ho.2, CM.offsets], by simp [hlt', CM.offsets]⟩
  | succ fuel ih =>
    intro permF permT mask layF layT p l h hp ho
    have hlen := hp.length_eq
    unfold CM.outer at ho ⊢
    by_cases hlt : permF.length < g.nDom
    · have hlt' : permT.length < g.nDom := by omega
      simp only [hlt, if_true] at ho
      simp only [hlt', if_true]
      obtain ⟨root, hroot, hrn, hrm⟩ := findRoot_some g rt mask (h.exists_unmasked hlt)
      simp only [hroot] at ho ⊢
      have hdoc : CM.IsDocumentedRoot g rt permF root :=
        (C19L.cmroot.findRoot_spec g rt mask permF (fun j _ => h.mask_iff j)).1 root hroot
      have hpush := h.push hrn hrm
      obtain ⟨levels, hc1, hc2, hc3, hc4⟩ := component_exact g hsq hwf st (g.nDom + 1) (permF ++ [root]) [root]
        (mask.setIfInBounds root true) [permF.length + 1] hpush
        (by simp only [List.length_append, List.length_singleton]; omega)
      obtain ⟨ext, m', l', hpre⟩ := component_prefix g st (g.nDom + 1) permF.length [root] [root]
        (mask.setIfInBounds root true) [permF.length + 1]
      have e1 := hpre permF rfl
      have e2 := hpre permT hlen.symm
      rw [hlen] at e2
      rw [e1] at hc1 hc3 hc4 ho
      rw [e2]
      simp only at hc1 hc3 hc4 ho ⊢
      have hext : ext = [root] ++ levels.flatten := by
        rw [List.append_assoc] at hc1
        exact List.append_cancel_left hc1
      subst hext
      subst hc3
      simp only [Bool.false_eq_true, if_false] at ho ⊢
      have hlay : [permF.length + 1] ++ CM.offsets (permF ++ [root]).length (levels.map List.length) =
          CM.offsets permT.length (([root] :: levels).map List.length) := by
        rw [← hlen]; simp [CM.offsets]
      have htake : (permT ++ ([root] ++ levels.flatten)).take permT.length = permT := by simp
      have hdrop : (permT ++ ([root] ++ levels.flatten)).drop permT.length = [root] ++ levels.flatten := by simp
      rw [hlay] at ho ⊢
      rw [htake, hdrop, reverseLayers_offsets, ← List.map_reverse]
      have hpp : (permF ++ ([root] ++ levels.flatten)).Perm (permT ++ ([root] ++ levels.flatten).reverse) :=
        List.Perm.append hp (List.reverse_perm _).symm
      obtain ⟨comps, ha, hb, hc, hd⟩ := ih _ (permT ++ ([root] ++ levels.flatten).reverse) m' _
        (layT ++ CM.offsets permT.length ((([root] :: levels).reverse).map List.length)) p l hc4 hpp ho
      refine ⟨([root] :: levels) :: comps, ⟨⟨root, levels, rfl, hdoc, hc2⟩, ?_⟩, ?_, ?_, ?_⟩
      · simpa using ha
      · rw [hb]; simp [List.append_assoc]
      · rw [hc, List.flatMap_cons, offsets_append, List.append_assoc, ← hlen]
        congr 3
        simp [List.length_flatten]; omega
      · rw [hd]
        simp only [List.flatMap_cons, offsets_append]
        congr 1
        congr 1
        · simp [List.append_assoc]
        · rw [List.append_assoc]
          congr 3
          simp [List.length_flatten, List.sum_reverse]
    · have hlt' : ¬ permT.length < g.nDom := by omega
      simp only [hlt, if_false, Option.some.injEq, Prod.mk.injEq] at ho
      exact ⟨[], trivial, by simp [ho.1], by simp [ho.2, CM.offsets], by simp [hlt', CM.offsets]⟩


theorem cm_reverse_exact (g : Graph) (hsq : g.nImg = g.nDom) (hwf : g.wf = true) (hn : 0 < g.nDom)
    (rt : CM.RootType) (st : CM.SortType) (pf lf : List Nat)
    (h : CM.compute g false rt st = some (pf, lf)) :
    ∃ comps : List (List (List Nat)), CM.AreCmComponents g rt st [] comps ∧
      pf = comps.flatMap (fun c => c.flatten) ∧
      lf = 0 :: CM.offsets 0 (comps.flatMap fun c => c.map List.length) ++ [g.nDom] ∧
      CM.compute g true rt st = some (comps.flatMap (fun c => c.flatten.reverse),
        0 :: CM.offsets 0 (comps.flatMap fun c => c.reverse.map List.length) ++ [g.nDom]) := by
  unfold CM.compute at h ⊢
  have hn0 : ¬ g.nDom = 0 := by omega
  simp only [hn0, if_false] at h ⊢
  cases ho : CM.outer g false rt st (g.nDom + 1) [] (Array.replicate g.nDom false) [0] with
  | none => simp [ho] at h
  | some pl =>
    obtain ⟨p, l⟩ := pl
    simp only [ho, Option.some.injEq, Prod.mk.injEq] at h
    obtain ⟨comps, ha, hb, hc, hd⟩ := outer_pair g hsq hwf rt st _ [] [] _ [0] [0] p l (inv_init g.nDom)
      (List.Perm.refl _) ho
    refine ⟨comps, ha, ?_, ?_, ?_⟩
    · rw [← h.1, hb]; simp
    · rw [← h.2, hc]; simp
    · rw [hd]; simp

theorem cm_ordering_spec (g : Graph) (hsq : g.nImg = g.nDom) (hwf : g.wf = true) (hn : 0 < g.nDom)
    (rev : Bool) (rt : CM.RootType) (st : CM.SortType) (perm layers : List Nat)
    (h : CM.compute g rev rt st = some (perm, layers)) :
    CM.IsCmOrdering g rev rt st perm layers := by
  have hlen : perm.length = g.nDom := by
    obtain ⟨p, l, h1, h2, _⟩ := cm_bijection g hsq hwf hn rev rt st
    rw [h] at h1
    simp only [Option.some.injEq, Prod.mk.injEq] at h1
    rw [h1.1]; exact h2
  cases rev with
  | false =>
    obtain ⟨comps, ha, hb, hc, _⟩ := cm_reverse_exact g hsq hwf hn rt st perm layers h
    exact ⟨comps, ha, hlen, by simpa using hb, by simpa using hc⟩
  | true =>
    obtain ⟨pf, lf, hf, _, _⟩ := cm_bijection g hsq hwf hn false rt st
    obtain ⟨comps, ha, _, _, hd⟩ := cm_reverse_exact g hsq hwf hn rt st pf lf hf
    rw [h] at hd
    simp only [Option.some.injEq, Prod.mk.injEq] at hd
    exact ⟨comps, ha, hlen, by simpa using hd.1, by simpa using hd.2⟩

end C19L.cmexact
