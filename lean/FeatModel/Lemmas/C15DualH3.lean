import FeatModel.Model.FEDual
/-! kernel-checked duality on the reference hexahedron (canonical orientation; Q1, Q2, P0) -/
namespace FeatModel.FE
set_option maxRecDepth 100000 in
theorem dualH3 : dualKeysH3.all (fun key => dualOk key.1 key.2.1 key.2.2 []) = true := by decide +kernel
end FeatModel.FE
