import FeatModel.Model.Cubature
import FeatModel.Lemmas.C14Tensor
import Mathlib.Tactic.Ring
import Mathlib.Tactic.Linarith
import Mathlib.Data.Nat.Choose.Sum
/-! # C14 helper lemmas: the moments of a refined rule are a fixed linear combination of the moments of the
    input rule (expansion of the monomials pulled back through the affine child maps, in homogeneous coordinates) -/
namespace FeatModel.Cub

theorem ipow_eq (x : Int) (k : Nat) : ipow x k = x ^ k := by
  cases x with
  | ofNat a => simp [ipow]
  | negSucc a =>
    have h : Int.negSucc a = -((a : Int) + 1) := by omega
    simp only [ipow]
    split
    · rename_i hk
      have : Even k := Nat.even_iff.2 hk
      rw [h, this.neg_pow]; simp
    · rename_i hk
      have : Odd k := Nat.odd_iff.2 (by omega)
      rw [h, this.neg_pow]; simp

theorem zipWith_sum_add (f g : Int → List Int → Int) : ∀ (w : List Int) (x : List (List Int)),
    (List.zipWith (fun a p => f a p + g a p) w x).sum = (List.zipWith f w x).sum + (List.zipWith g w x).sum
  | [], _ => by simp
  | _ :: _, [] => by simp
  | a :: w, p :: x => by simp only [List.zipWith_cons_cons, List.sum_cons, zipWith_sum_add f g w x]; ring

theorem zipWith_sum_mul (c : Int) (f : Int → List Int → Int) : ∀ (w : List Int) (x : List (List Int)),
    (List.zipWith (fun a p => c * f a p) w x).sum = c * (List.zipWith f w x).sum
  | [], _ => by simp
  | _ :: _, [] => by simp
  | a :: w, p :: x => by simp only [List.zipWith_cons_cons, List.sum_cons, zipWith_sum_mul c f w x]; ring

theorem zipWith_zero_sum : ∀ (w : List Int) (x : List (List Int)),
    (List.zipWith (fun (_ : Int) (_ : List Int) => (0 : Int)) w x).sum = 0
  | [], _ => by simp
  | _ :: _, [] => by simp
  | _ :: w, _ :: x => by simp [zipWith_zero_sum w x]

/-- integer polynomials in list form: (coefficient, exponent list) -/
abbrev IPoly := List (Int × List Nat)

def ipeval (x : List Int) : IPoly → Int
  | [] => 0
  | t :: p => t.1 * imono x t.2 + ipeval x p

def binom (n k : Nat) : Nat := fact n / (fact k * fact (n - k))

theorem fact_eq : ∀ n, fact n = n.factorial
  | 0 => rfl
  | n + 1 => by simp [fact, Nat.factorial, fact_eq n]

theorem binom_eq {n k : Nat} (h : k ≤ n) : binom n k = n.choose k := by
  unfold binom
  rw [fact_eq, fact_eq, fact_eq, Nat.choose_eq_factorial_div_factorial h]

/-- `(Σ_k row_k x_k)^n`; the exponent lists have the length of `row` and no two terms share a monomial -/
def expandPow : List Int → Nat → IPoly
  | [], n => if n = 0 then [(1, [])] else []
  | a :: as, n =>
    if a = 0 then (expandPow as n).map fun t => (1 * t.1, 0 :: t.2)
    else (List.range (n + 1)).flatMap fun k =>
      (expandPow as (n - k)).map fun t => ((binom n k : Int) * ipow a k * t.1, k :: t.2)

theorem ipeval_append (x : List Int) : ∀ (p q : IPoly), ipeval x (p ++ q) = ipeval x p + ipeval x q
  | [], q => by simp [ipeval]
  | t :: p, q => by simp only [List.cons_append, ipeval, ipeval_append x p q]; ring

theorem ipeval_map_cons (x : Int) (xs : List Int) (c : Int) (k : Nat) :
    ∀ (p : IPoly), ipeval (x :: xs) (p.map fun t => (c * t.1, k :: t.2)) = c * x ^ k * ipeval xs p
  | [] => by simp [ipeval]
  | t :: p => by
    simp only [List.map_cons, ipeval, imono, ipow_eq, ipeval_map_cons x xs c k p]
    ring

theorem ipeval_flatMap (x : List Int) (f : Nat → IPoly) :
    ∀ (l : List Nat), ipeval x (l.flatMap f) = (l.map fun k => ipeval x (f k)).sum
  | [] => by simp [ipeval]
  | a :: l => by simp [List.flatMap_cons, ipeval_append, ipeval_flatMap x f l]

theorem finset_sum_range_eq_list (f : Nat → Int) : ∀ n, ∑ m ∈ Finset.range n, f m = ((List.range n).map f).sum
  | 0 => by simp
  | n + 1 => by
    rw [Finset.sum_range_succ, finset_sum_range_eq_list f n, List.range_succ, List.map_append, List.sum_append]
    simp

theorem ipeval_expandPow : ∀ (row x : List Int) (n : Nat), row.length = x.length →
    ipeval x (expandPow row n) = (dot row x) ^ n
  | [], [], n, _ => by
    unfold expandPow
    split
    · rename_i h; subst h; simp [ipeval, imono, dot]
    · rename_i h; simp [ipeval, dot, h]
  | [], _ :: _, _, h => by simp at h
  | _ :: _, [], _, h => by simp at h
  | a :: as, x :: xs, n, h => by
    have hl : as.length = xs.length := by simpa using h
    unfold expandPow
    split
    · rename_i ha
      rw [ipeval_map_cons, ipeval_expandPow as xs n hl]
      simp [dot, ha]
    · rw [ipeval_flatMap]
      have : ∀ k ∈ List.range (n + 1),
          ipeval (x :: xs) ((expandPow as (n - k)).map fun t => ((binom n k : Int) * ipow a k * t.1, k :: t.2))
            = (a * x) ^ k * (dot as xs) ^ (n - k) * (n.choose k : Int) := by
        intro k hk
        have hk' : k ≤ n := by have := List.mem_range.1 hk; omega
        rw [ipeval_map_cons, ipeval_expandPow as xs (n - k) hl, binom_eq hk', ipow_eq]
        ring
      rw [List.map_congr_left this]
      simp only [dot]
      rw [add_pow, finset_sum_range_eq_list]

/-- exponent-wise sum (the shorter list is padded with zeros) -/
def gadd : List Nat → List Nat → List Nat
  | [], h => h
  | g, [] => g
  | a :: g, b :: h => (a + b) :: gadd g h

theorem imono_gadd : ∀ (x : List Int) (g h : List Nat), imono x (gadd g h) = imono x g * imono x h
  | [], g, h => by cases g <;> cases h <;> simp [imono, gadd]
  | x :: xs, [], h => by cases h <;> simp [imono, gadd]
  | x :: xs, a :: g, [] => by simp [imono, gadd]
  | x :: xs, a :: g, b :: h => by
    simp only [gadd, imono, ipow_eq, imono_gadd xs g h, pow_add]; ring

theorem esum_gadd : ∀ (g h : List Nat), esum (gadd g h) = esum g + esum h
  | [], h => by simp [gadd, esum]
  | a :: g, [] => by simp [gadd, esum]
  | a :: g, b :: h => by simp only [gadd, esum, esum_gadd g h]; omega

def pmul (p q : IPoly) : IPoly := p.flatMap fun s => q.map fun t => (s.1 * t.1, gadd s.2 t.2)

theorem ipeval_pmul_single (x : List Int) (s : Int × List Nat) :
    ∀ (q : IPoly), ipeval x (q.map fun t => (s.1 * t.1, gadd s.2 t.2)) = s.1 * imono x s.2 * ipeval x q
  | [] => by simp [ipeval]
  | t :: q => by
    simp only [List.map_cons, ipeval, imono_gadd, ipeval_pmul_single x s q]; ring

theorem ipeval_pmul (x : List Int) (q : IPoly) : ∀ (p : IPoly), ipeval x (pmul p q) = ipeval x p * ipeval x q
  | [] => by simp [pmul, ipeval]
  | s :: p => by
    have ih := ipeval_pmul x q p
    unfold pmul at ih ⊢
    simp only [List.flatMap_cons, ipeval_append, ipeval_pmul_single, ipeval, ih]; ring

/-- `Π_j (row_j · x)^(e_j)` -/
def expandAll : List (List Int) → List Nat → IPoly
  | row :: rows, k :: ks => pmul (expandPow row k) (expandAll rows ks)
  | _, _ => [(1, [])]

theorem ipeval_expandAll (x : List Int) : ∀ (rows : List (List Int)) (e : List Nat),
    (∀ r ∈ rows, r.length = x.length) → ipeval x (expandAll rows e) = imono (rows.map fun r => dot r x) e
  | [], e, _ => by simp [expandAll, ipeval, imono]
  | _ :: _, [], _ => by simp [expandAll, ipeval, imono]
  | row :: rows, k :: ks, h => by
    simp only [expandAll, ipeval_pmul, List.map_cons, imono, ipow_eq]
    rw [ipeval_expandPow row x k (h row List.mem_cons_self),
      ipeval_expandAll x rows ks (fun r hr => h r (List.mem_cons_of_mem _ hr))]

/-! ## from points to moments -/

/-- value of the moment functional `S` on the homogeneous monomial `g` (first exponent: the scale variable `h`) -/
def homMoment (S : List Nat → Int) (h : Int) : List Nat → Int
  | [] => S []
  | g0 :: g => h ^ g0 * S g

/-- the functional applied term by term -/
def applyTerms (S : List Nat → Int) (h : Int) : IPoly → Int
  | [] => 0
  | t :: p => t.1 * homMoment S h t.2 + applyTerms S h p

theorem isumMono_nil_e : ∀ (w : List Int) (x : List (List Int)) (y : List (List Int)), x.length = y.length →
    isumMono w x [] = isumMono w y []
  | [], _, _, _ => by simp [isumMono]
  | _ :: _, [], [], _ => by simp [isumMono]
  | _ :: _, [], _ :: _, h => by simp at h
  | _ :: _, _ :: _, [], h => by simp at h
  | w :: ws, p :: ps, q :: qs, h => by
    have := isumMono_nil_e ws ps qs (by simpa using h)
    cases p <;> cases q <;> simp [isumMono, imono, this]

theorem isumMono_hom (h : Int) : ∀ (w : List Int) (x : List (List Int)) (g : List Nat),
    isumMono w (x.map (h :: ·)) g = homMoment (isumMono w x) h g
  | [], x, g => by cases g <;> simp [isumMono, homMoment]
  | w :: ws, [], g => by cases g <;> simp [isumMono, homMoment]
  | w :: ws, p :: ps, [] => by
    have := isumMono_hom h ws ps []
    simp only [homMoment] at this ⊢
    cases p <;> simp [isumMono, imono, this]
  | w :: ws, p :: ps, g0 :: g => by
    have := isumMono_hom h ws ps (g0 :: g)
    simp only [homMoment] at this ⊢
    simp only [List.map_cons, isumMono, imono, ipow_eq, this]; ring

theorem isumMono_eq_zipWith (e : List Nat) : ∀ (w : List Int) (x : List (List Int)),
    isumMono w x e = (List.zipWith (fun wi p => wi * imono p e) w x).sum
  | [], _ => by simp [isumMono]
  | _ :: _, [] => by simp [isumMono]
  | a :: w, p :: x => by simp [isumMono, isumMono_eq_zipWith e w x]

/-- `Σ_i w_i P(h, x_i) = Σ_terms coef · (moment of the term)` -/
theorem isum_ipeval (h : Int) (P : IPoly) : ∀ (w : List Int) (x : List (List Int)),
    (List.zipWith (fun wi p => wi * ipeval (h :: p) P) w x).sum = applyTerms (isumMono w x) h P := by
  induction P with
  | nil =>
    intro w x
    simp only [ipeval, mul_zero, zipWith_zero_sum, applyTerms]
  | cons t P ih =>
    intro w x
    have key : ∀ (w : List Int) (x : List (List Int)),
        (List.zipWith (fun wi p => wi * ipeval (h :: p) (t :: P)) w x).sum =
          t.1 * isumMono w (x.map (h :: ·)) t.2 + (List.zipWith (fun wi p => wi * ipeval (h :: p) P) w x).sum := by
      intro w x
      have hf : (fun (wi : Int) (p : List Int) => wi * ipeval (h :: p) (t :: P)) =
          fun wi p => t.1 * (wi * imono (h :: p) t.2) + wi * ipeval (h :: p) P := by
        funext wi p; simp only [ipeval]; ring
      rw [hf, zipWith_sum_add, zipWith_sum_mul, isumMono_eq_zipWith, List.zipWith_map_right]
    rw [key, ih, isumMono_hom]
    simp [applyTerms]

theorem isumMono_map_mul (c : Int) (e : List Nat) : ∀ (w : List Int) (x : List (List Int)),
    isumMono (w.map (c * ·)) x e = c * isumMono w x e
  | [], _ => by simp [isumMono]
  | _ :: _, [] => by simp [isumMono]
  | a :: w, p :: x => by simp only [List.map_cons, isumMono, isumMono_map_mul c e w x]; ring

/-- rows of the child map in homogeneous coordinates: `(b_j, a_j1, .., a_jd)` -/
def RefMap.rows (m : RefMap) : List (List Int) := List.zipWith (fun bi row => bi :: row) m.b m.a

theorem RefMap.apply_eq (m : RefMap) (ec : Nat) (p : List Int) :
    m.apply ec p = m.rows.map fun r => dot r ((2 : Int) ^ ec :: p) := by
  unfold RefMap.apply RefMap.rows
  rw [List.map_zipWith]
  rfl

def RefMap.wf (m : RefMap) (dim : Nat) : Bool :=
  m.b.length == dim && m.a.length == dim && m.a.all (fun r => r.length == dim)

def RefMaps.wf (rm : RefMaps) (dim : Nat) : Bool := rm.maps.all (·.wf dim)

theorem RefMap.rows_length {m : RefMap} {dim : Nat} (h : m.wf dim = true) : ∀ r ∈ m.rows, r.length = dim + 1 := by
  unfold RefMap.wf at h
  simp only [Bool.and_eq_true, beq_iff_eq, List.all_eq_true] at h
  intro r hr
  unfold RefMap.rows at hr
  obtain ⟨i, hi, rfl⟩ := List.mem_iff_getElem.1 hr
  simp only [List.getElem_zipWith, List.length_cons]
  have := h.2 (m.a[i]'(by simp at hi; omega)) (List.getElem_mem _)
  omega

/-- moments of one child block -/
theorem isumMono_child (m : RefMap) (dim : Nat) (hm : m.wf dim = true) (ec : Nat) (e : List Nat)
    (w : List Int) (x : List (List Int)) (hx : ∀ p ∈ x, p.length = dim) :
    isumMono (w.map (m.c * ·)) (x.map (m.apply ec)) e
      = m.c * applyTerms (isumMono w x) ((2 : Int) ^ ec) (expandAll m.rows e) := by
  rw [isumMono_map_mul, ← isum_ipeval, isumMono_eq_zipWith]
  congr 1
  have : ∀ (w : List Int) (x : List (List Int)), (∀ p ∈ x, p.length = dim) →
      List.zipWith (fun wi p => wi * imono p e) w (x.map (m.apply ec)) =
        List.zipWith (fun wi p => wi * ipeval ((2 : Int) ^ ec :: p) (expandAll m.rows e)) w x := by
    intro w
    induction w with
    | nil => simp
    | cons a w ih =>
      intro x hx
      cases x with
      | nil => simp
      | cons p x =>
        simp only [List.map_cons, List.zipWith_cons_cons]
        rw [ih x (fun q hq => hx q (List.mem_cons_of_mem _ hq))]
        congr 2
        rw [m.apply_eq, ipeval_expandAll]
        intro r hr
        have := RefMap.rows_length hm r hr
        have hp := hx p List.mem_cons_self
        simp [this, hp]
  rw [this w x hx]

/-- the moment numerators of the refined rule in terms of those of the input rule -/
def refMoment (S : List Nat → Int) (h : Int) (maps : List RefMap) (e : List Nat) : Int :=
  (maps.map fun m => m.c * applyTerms S h (expandAll m.rows e)).sum

theorem momentNum_refine1 (t : DyTable) (rm : RefMaps) (dim : Nat) (ht : t.wf dim = true) (hrm : rm.wf dim = true)
    (e : List Nat) :
    (t.refine1 rm).momentNum e = refMoment t.momentNum ((2 : Int) ^ t.ec) rm.maps e := by
  unfold DyTable.wf at ht
  rw [Bool.and_eq_true] at ht
  have hlen : t.w.length = t.x.length := by simpa using ht.1
  have hx : ∀ p ∈ t.x, p.length = dim := fun p hp => by simpa using List.all_eq_true.1 ht.2 p hp
  unfold RefMaps.wf at hrm
  have hms := List.all_eq_true.1 hrm
  unfold DyTable.momentNum DyTable.refine1 refMoment
  simp only
  generalize rm.maps = maps at hms
  induction maps with
  | nil => simp [isumMono]
  | cons m ms ih =>
    simp only [List.flatMap_cons, List.map_cons, List.sum_cons]
    rw [isumMono_append _ _ _ _ _ (by simp [hlen]),
      isumMono_child m dim (hms m List.mem_cons_self) t.ec e t.w t.x hx,
      ih (fun q hq => hms q (List.mem_cons_of_mem _ hq))]

theorem wf_refine1 (t : DyTable) (rm : RefMaps) (dim : Nat) (ht : t.wf dim = true) (hrm : rm.wf dim = true) :
    (t.refine1 rm).wf dim = true := by
  unfold DyTable.wf at ht ⊢
  rw [Bool.and_eq_true] at ht ⊢
  have hlen : t.w.length = t.x.length := by simpa using ht.1
  unfold RefMaps.wf at hrm
  have hms := List.all_eq_true.1 hrm
  constructor
  · simp only [DyTable.refine1, beq_iff_eq, List.length_flatMap, List.length_map, hlen]
  · simp only [DyTable.refine1, List.all_eq_true, List.mem_flatMap, List.mem_map]
    rintro q ⟨m, hm, p, _, rfl⟩
    have := hms m hm
    unfold RefMap.wf at this
    simp only [Bool.and_eq_true, beq_iff_eq] at this
    simp [RefMap.apply, List.length_zipWith, this.1.1, this.1.2]

/-! ## the finite part: the subdivision identity `I(e) = Σ_children c · I(x^e ∘ T_c)`, monomial by monomial -/

def cubeDenFact : List Nat → Nat
  | [] => 1
  | k :: ks => fact (k + 1) * cubeDenFact ks

/-- a common denominator of the reference integrals of all monomials occurring in the expansion of `x^e ∘ T` -/
def commonDen (simplex : Bool) (dim : Nat) (e : List Nat) : Nat :=
  if simplex then fact (esum e + dim) else cubeDenFact e

/-- `I(g) · D` as an integer (`refDen g ∣ D` is checked where this is used) -/
def scaledRef (simplex : Bool) (D : Nat) (g : List Nat) : Int :=
  (refNum simplex g : Int) * ((D / refDen simplex g : Nat) : Int)

def absCoef : IPoly → Nat
  | [] => 0
  | t :: p => t.1.natAbs + absCoef p

/-- every term is homogeneous of degree `n` in `dim + 1` variables and its reference integral has denominator | D -/
def termsOK (simplex : Bool) (dim n D : Nat) (p : IPoly) : Bool :=
  p.all fun t => t.2.length == dim + 1 && esum t.2 == n && D % refDen simplex t.2.tail == 0

/-- `Σ_c |c_c| Σ_terms |coef|`: the factor by which moment errors can grow (before scaling) -/
def growthNum (maps : List RefMap) (e : List Nat) : Nat :=
  (maps.map fun m => m.c.natAbs * absCoef (expandAll m.rows e)).sum

/-- one pass over the terms: (side conditions hold, Σ coef · I(g')·D, Σ |coef|) -/
def scan (simplex : Bool) (dim n D : Nat) : IPoly → Bool × Int × Nat
  | [] => (true, 0, 0)
  | t :: p =>
    let r := scan simplex dim n D p
    (t.2.length == dim + 1 && esum t.2 == n && D % refDen simplex t.2.tail == 0 && r.1,
     t.1 * homMoment (scaledRef simplex D) 1 t.2 + r.2.1,
     t.1.natAbs + r.2.2)

theorem scan_eq (simplex : Bool) (dim n D : Nat) : ∀ (p : IPoly),
    scan simplex dim n D p = (termsOK simplex dim n D p, applyTerms (scaledRef simplex D) 1 p, absCoef p)
  | [] => by simp [scan, termsOK, applyTerms, absCoef]
  | t :: p => by
    simp only [scan, scan_eq simplex dim n D p, termsOK, applyTerms, absCoef, List.all_cons]

/-- all children: (side conditions, Σ_c c_c Σ coef · I(g')·D, Σ_c |c_c| Σ |coef|) -/
def scanMaps (simplex : Bool) (dim n D : Nat) (e : List Nat) : List RefMap → Bool × Int × Nat
  | [] => (true, 0, 0)
  | m :: ms =>
    let r := scan simplex dim n D (expandAll m.rows e)
    let q := scanMaps simplex dim n D e ms
    (r.1 && q.1, m.c * r.2.1 + q.2.1, m.c.natAbs * r.2.2 + q.2.2)

theorem scanMaps_eq (simplex : Bool) (dim n D : Nat) (e : List Nat) : ∀ (ms : List RefMap),
    scanMaps simplex dim n D e ms =
      (ms.all (fun m => termsOK simplex dim n D (expandAll m.rows e)),
       refMoment (scaledRef simplex D) 1 ms e, growthNum ms e)
  | [] => by simp [scanMaps, refMoment, growthNum]
  | m :: ms => by
    simp only [scanMaps, scan_eq, scanMaps_eq simplex dim n D e ms, List.all_cons, refMoment, growthNum,
      List.map_cons, List.sum_cons]

/-- the subdivision identity for the monomial `e`, cleared of denominators, plus the side conditions the proof
    needs, plus the bound `growth` on the error amplification -/
def subdivOK (simplex : Bool) (dim : Nat) (rm : RefMaps) (growth : Nat) (e : List Nat) : Bool :=
  let r := scanMaps simplex dim (esum e) (commonDen simplex dim e) e rm.maps
  r.1 &&
  commonDen simplex dim e % refDen simplex e == 0 &&
  r.2.1 == scaledRef simplex (commonDen simplex dim e) e * (2 : Int) ^ (rm.ce + rm.ae * esum e) &&
  decide (r.2.2 ≤ growth * 2 ^ (rm.ce + rm.ae * esum e))

def subdivAll (simplex : Bool) (dim : Nat) (rm : RefMaps) (growth d : Nat) : Bool :=
  rm.wf dim && (monos dim d).all (subdivOK simplex dim rm growth)

end FeatModel.Cub
