import FeatModel.Lemmas.C20Cont
/-! C20 helper lemmas, part 10: the sharing table — for every container-level operation, exactly which arrays of the
    result are the source's arrays (shared) and which are fresh allocations (chunk ids that did not exist before) -/
namespace FeatModel.Pool

theorem releaseOwn_length {p p' : Pool} {c : Cont} (h : c.releaseOwn p = .ok p') : p'.length = p.length :=
  releaseAll_length h

/-- clone between equal types: Shallow shares everything, Layout/Weak share the index arrays only,
    Deep/Allocate share nothing -/
theorem sharing_cloneFrom {p p' : Pool} {self other c' : Cont} {so : Bool} {mode : Nat}
    (h : Cont.cloneFrom p self other so mode = .ok (p', c')) :
    c'.foreign = false ∧ c'.sidx = other.sidx ∧ c'.elemsSize = other.elemsSize ∧ c'.indsSize = other.indsSize ∧
    (if mode = 3 ∨ mode = 4 then FreshL p.length c'.inds else c'.inds = other.inds ∧ AlignedL other.inds) ∧
    (if mode = 0 then c'.elems = other.elems ∧ AlignedL other.elems else FreshL p.length c'.elems) := by
  unfold Cont.cloneFrom at h
  split at h
  · cases h
  · split at h
    · cases h
    · split at h
      · cases h
      · rename_i p0 hr
        have hl0 := releaseOwn_length hr
        dsimp only at h
        split at h
        · rename_i hm
          simp only [Bool.or_eq_true, decide_eq_true_eq] at hm
          injection h with h; injection h with h1 h2; subst h1; subst h2
          have f1 := allocAll_fresh (other.inds.zip other.indsSize) p0 (isz self.it) (decide (mode = 3))
          have l1 := allocAll_length (other.inds.zip other.indsSize) p0 (isz self.it) (decide (mode = 3))
          have f2 := allocAll_fresh (other.elems.zip other.elemsSize)
            (allocAll p0 (isz self.it) (decide (mode = 3)) (other.inds.zip other.indsSize)).1 (esz self.dt)
            (decide (mode = 3))
          have hm0 : ¬ mode = 0 := by omega
          refine ⟨rfl, rfl, rfl, rfl, ?_, ?_⟩
          · simp only [hm, if_true]; rw [← hl0]; exact f1
          · simp only [hm0, if_false]; exact f2.mono (by omega)
        · rename_i hm
          simp only [Bool.or_eq_true, decide_eq_true_eq] at hm
          split at h
          · cases h
          · rename_i p1 hi
            have hl1 := incrAll_length hi
            split at h
            · rename_i hm0
              split at h
              · cases h
              · rename_i p2 he
                injection h with h; injection h with h1 h2; subst h1; subst h2
                refine ⟨rfl, rfl, rfl, rfl, ?_, ?_⟩
                · simp only [hm, if_false]; exact ⟨trivial, incrAll_aligned hi⟩
                · simp only [hm0, if_true]; exact ⟨trivial, incrAll_aligned he⟩
            · rename_i hm0
              injection h with h; injection h with h1 h2; subst h1; subst h2
              have f2 := allocAll_fresh (other.elems.zip other.elemsSize) p1 (esz self.dt) (decide (mode = 2))
              refine ⟨rfl, rfl, rfl, rfl, ?_, ?_⟩
              · simp only [hm, if_false]; exact ⟨trivial, incrAll_aligned hi⟩
              · simp only [hm0, if_false]; exact f2.mono (by omega)

theorem sharing_shareOrConvert {p p' : Pool} {same : Bool} {esz : Nat} {ptrs rs : List Ptr} {sizes : List Nat}
    (h : shareOrConvert p same esz ptrs sizes = .ok (p', rs)) :
    p.length ≤ p'.length ∧ (if same then rs = ptrs ∧ AlignedL ptrs else FreshL p.length rs) := by
  unfold shareOrConvert at h
  split at h
  · rename_i hs
    split at h
    · cases h
    · rename_i p1 hi
      injection h with h; injection h with h1 h2; subst h1; subst h2
      simp only [hs, if_true]
      exact ⟨by rw [incrAll_length hi]; exact Nat.le_refl _, trivial, incrAll_aligned hi⟩
  · rename_i hs
    injection h with h
    have f := allocAll_fresh (ptrs.zip sizes) p esz true
    have l := allocAll_length (ptrs.zip sizes) p esz true
    rw [h] at f l
    simp only [hs]
    exact ⟨l, f⟩

/-- convert (`Container::assign`) between two distinct objects: the arrays whose type agrees are shared, the others
    are fresh converted copies; `x.convert(x)` changes nothing -/
theorem sharing_assign {p p' : Pool} {self other c' : Cont} {so : Bool}
    (h : Cont.assign p self other so = .ok (p', c')) :
    (so = true → p' = p ∧ c' = self) ∧
    (so = false → c'.foreign = false ∧ c'.sidx = other.sidx ∧ p.length ≤ p'.length ∧
      (if self.dt = other.dt then c'.elems = other.elems ∧ AlignedL other.elems else FreshL p.length c'.elems) ∧
      (if self.it = other.it then c'.inds = other.inds ∧ AlignedL other.inds else FreshL p.length c'.inds)) := by
  unfold Cont.assign at h
  split at h
  · rename_i hso
    injection h with h; injection h with h1 h2; subst h1; subst h2
    exact ⟨fun _ => ⟨rfl, rfl⟩, fun hf => by rw [hso] at hf; cases hf⟩
  · rename_i hso
    refine ⟨fun ht => absurd ht hso, fun _ => ?_⟩
    split at h
    · cases h
    · split at h
      · cases h
      · rename_i p0 hr
        have hl0 := releaseOwn_length hr
        split at h
        · cases h
        · rename_i p1 es h1
          obtain ⟨l1, s1⟩ := sharing_shareOrConvert h1
          split at h
          · cases h
          · rename_i p2 is h2
            obtain ⟨l2, s2⟩ := sharing_shareOrConvert h2
            injection h with h; injection h with e1 e2; subst e1; subst e2
            refine ⟨rfl, rfl, by omega, ?_, ?_⟩
            · by_cases hd : self.dt = other.dt
              · simp only [hd, decide_true, if_true] at s1 ⊢; exact s1
              · simp only [hd, decide_false, if_false] at s1 ⊢
                rw [← hl0]; simpa using s1
            · by_cases hd : self.it = other.it
              · simp only [hd, decide_true, if_true] at s2 ⊢; exact s2
              · simp only [hd, decide_false, if_false] at s2 ⊢
                exact FreshL.mono (by simpa using s2) (by omega)

theorem cloneFrom_length {p p' : Pool} {self other c' : Cont} {so : Bool} {mode : Nat}
    (h : Cont.cloneFrom p self other so mode = .ok (p', c')) : p.length ≤ p'.length := by
  unfold Cont.cloneFrom at h
  split at h
  · cases h
  · split at h
    · cases h
    · split at h
      · cases h
      · rename_i p0 hr
        have hl0 := releaseOwn_length hr
        dsimp only at h
        split at h
        · injection h with h; injection h with h1 h2; subst h1
          have l1 := allocAll_length (other.inds.zip other.indsSize) p0 (isz self.it) (decide (mode = 3))
          have l2 := allocAll_length (other.elems.zip other.elemsSize)
            (allocAll p0 (isz self.it) (decide (mode = 3)) (other.inds.zip other.indsSize)).1 (esz self.dt)
            (decide (mode = 3))
          omega
        · split at h
          · cases h
          · rename_i p1 hi
            have hl1 := incrAll_length hi
            split at h
            · split at h
              · cases h
              · rename_i p2 he
                have hl2 := incrAll_length he
                injection h with h; injection h with h1 h2; subst h1; omega
            · injection h with h; injection h with h1 h2; subst h1
              have l2 := allocAll_length (other.elems.zip other.elemsSize) p1 (esz self.dt) (decide (mode = 2))
              omega

/-- clone between DIFFERENT data/index types (through the conversion temporary): only arrays whose element type
    agrees can be shared, and only in the modes that share that kind of array; everything else is fresh -/
theorem sharing_cloneCross {p p' : Pool} {self other c' : Cont} {mode : Nat}
    (h : Cont.cloneCross p self other mode = .ok (p', c')) :
    c'.foreign = false ∧ c'.sidx = other.sidx ∧
    (if mode = 3 ∨ mode = 4 then FreshL p.length c'.inds
     else if self.it = other.it then c'.inds = other.inds ∧ AlignedL other.inds else FreshL p.length c'.inds) ∧
    (if mode = 0 then (if self.dt = other.dt then c'.elems = other.elems ∧ AlignedL other.elems
                       else FreshL p.length c'.elems)
     else FreshL p.length c'.elems) := by
  unfold Cont.cloneCross at h
  dsimp only at h
  split at h
  · cases h
  · rename_i p1 t1 ha
    obtain ⟨_, st⟩ := sharing_assign ha
    obtain ⟨_, hsx, hl1, se, si⟩ := st rfl
    split at h
    · cases h
    · rename_i p2 s hc
      obtain ⟨hf, hs, _, _, ci, ce⟩ := sharing_cloneFrom hc
      split at h
      · cases h
      · rename_i p3 hr
        injection h with h; injection h with e1 e2; subst e1; subst e2
        have e1 : (Cont.empty self.kind self.dt self.it [other.size]).dt = self.dt := rfl
        have e2 : (Cont.empty self.kind self.dt self.it [other.size]).it = self.it := rfl
        rw [e1] at se; rw [e2] at si
        refine ⟨hf, by rw [hs, hsx], ?_, ?_⟩
        · by_cases hm : mode = 3 ∨ mode = 4
          · simp only [hm, if_true] at ci ⊢; exact ci.mono hl1
          · simp only [hm, if_false] at ci ⊢
            by_cases hi : self.it = other.it
            · simp only [hi, if_true] at si ⊢
              exact ⟨by rw [ci.1, si.1], si.2⟩
            · simp only [hi, if_false] at si ⊢
              rw [ci.1]; exact si
        · by_cases hm : mode = 0
          · simp only [hm, if_true] at ce ⊢
            by_cases hd : self.dt = other.dt
            · simp only [hd, if_true] at se ⊢
              exact ⟨by rw [ce.1, se.1], se.2⟩
            · simp only [hd, if_false] at se ⊢
              rw [ce.1]; exact se
          · simp only [hm, if_false] at ce ⊢; exact ce.mono hl1

/-- dense <-> blocked convert: the result shares the (first) data array of the source and nothing else -/
theorem sharing_xconvFrom {p p' : Pool} {self other c' : Cont}
    (h : Cont.xconvFrom p self other = .ok (p', c')) :
    c'.foreign = false ∧ c'.inds = [] ∧ c'.elems = other.elems.take 1 ∧ AlignedL c'.elems := by
  unfold Cont.xconvFrom at h
  split at h
  · cases h
  · split at h
    · cases h
    · rename_i p0 hrel
      dsimp only at h
      split at h
      · rename_i hel
        injection h with h; injection h with e1 e2; subst e1; subst e2
        exact ⟨rfl, rfl, by rw [hel]; rfl, AlignedL.nil⟩
      · rename_i q rest hel
        split at h
        · cases h
        · rename_i p1 hinc
          injection h with h; injection h with e1 e2; subst e1; subst e2
          refine ⟨rfl, rfl, by rw [hel]; rfl, ?_⟩
          intro x hx
          simp only [Cont.empty, List.mem_singleton] at hx
          subst hx; exact incr_aligned hinc

/-- move assignment: the target takes over the source's arrays AND its view flag; the source owns nothing -/
theorem sharing_moveAssign {p p' : Pool} {self other c1 c2 : Cont}
    (h : Cont.moveAssign p self other = .ok (p', c1, c2)) :
    c1.elems = other.elems ∧ c1.inds = other.inds ∧ c1.foreign = other.foreign ∧ c1.sidx = other.sidx ∧
    c2 = other.movedFrom ∧ self.releaseOwn p = .ok p' := by
  unfold Cont.moveAssign at h
  split at h
  · cases h
  · rename_i p0 hr
    injection h with h; injection h with e1 e2; injection e2 with e2 e3; subst e1; subst e2; subst e3
    exact ⟨rfl, rfl, rfl, rfl, rfl, hr⟩

/-! ### alignment of the results -/

theorem owned_aligned_of {c : Cont} (h1 : AlignedL c.elems) (h2 : AlignedL c.inds) : AlignedL c.owned := by
  unfold Cont.owned; split
  · exact AlignedL.nil
  · exact h1.append h2

theorem aligned_cloneFrom {p p' : Pool} {self other c' : Cont} {so : Bool} {mode : Nat}
    (h : Cont.cloneFrom p self other so mode = .ok (p', c')) : AlignedL c'.owned := by
  obtain ⟨_, _, _, _, ci, ce⟩ := sharing_cloneFrom h
  apply owned_aligned_of
  · split at ce
    · rw [ce.1]; exact ce.2
    · exact ce.aligned
  · split at ci
    · exact ci.aligned
    · rw [ci.1]; exact ci.2

theorem aligned_cloneCross {p p' : Pool} {self other c' : Cont} {mode : Nat}
    (h : Cont.cloneCross p self other mode = .ok (p', c')) : AlignedL c'.owned := by
  obtain ⟨_, _, ci, ce⟩ := sharing_cloneCross h
  apply owned_aligned_of
  · split at ce
    · split at ce
      · rw [ce.1]; exact ce.2
      · exact ce.aligned
    · exact ce.aligned
  · split at ci
    · exact ci.aligned
    · split at ci
      · rw [ci.1]; exact ci.2
      · exact ci.aligned

theorem aligned_assign {p p' : Pool} {self other c' : Cont} {so : Bool}
    (h : Cont.assign p self other so = .ok (p', c')) (hs : AlignedL self.owned) : AlignedL c'.owned := by
  obtain ⟨h1, h2⟩ := sharing_assign h
  cases so with
  | true => rw [(h1 rfl).2]; exact hs
  | false =>
    obtain ⟨_, _, _, se, si⟩ := h2 rfl
    apply owned_aligned_of
    · split at se
      · rw [se.1]; exact se.2
      · exact se.aligned
    · split at si
      · rw [si.1]; exact si.2
      · exact si.aligned

theorem aligned_xconvFrom {p p' : Pool} {self other c' : Cont}
    (h : Cont.xconvFrom p self other = .ok (p', c')) : AlignedL c'.owned := by
  obtain ⟨_, hi, _, he⟩ := sharing_xconvFrom h
  apply owned_aligned_of he
  rw [hi]; exact AlignedL.nil

theorem aligned_moveAssign {p p' : Pool} {self other c1 c2 : Cont}
    (h : Cont.moveAssign p self other = .ok (p', c1, c2)) (ho : AlignedL other.owned) :
    AlignedL c1.owned ∧ AlignedL c2.owned := by
  obtain ⟨he, hi, hf, _, h2, _⟩ := sharing_moveAssign h
  constructor
  · unfold Cont.owned at ho ⊢; rw [he, hi, hf]; exact ho
  · subst h2; unfold Cont.owned Cont.movedFrom; split <;> exact AlignedL.nil

theorem aligned_empty (k d i : Nat) (sx : List Nat) : AlignedL (Cont.empty k d i sx).owned := by
  unfold Cont.owned Cont.empty; exact AlignedL.nil

theorem aligned_convertFrom {p p' : Pool} {self other c' : Cont} {so : Bool}
    (h : Cont.convertFrom p self other so = .ok (p', c')) (hs : AlignedL self.owned) : AlignedL c'.owned := by
  unfold Cont.convertFrom at h
  split at h
  · unfold Cont.svConvert at h
    split at h
    · exact aligned_cloneFrom h
    · exact aligned_cloneCross h
  · exact aligned_assign h hs

end FeatModel.Pool
