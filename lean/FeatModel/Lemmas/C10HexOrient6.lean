import FeatModel.Lemmas.C10HexOrientDefs
/-! C10 — hexahedron child orientation, child 6: the Jacobian determinant of the child at each of its corners is one
eighth of the parent's Jacobian determinant at the corresponding point of the parent's 3x3x3 grid (polynomial identity
in the 24 vertex coordinates). -/
namespace FeatModel.Refine
open FeatModel.Gen.Refine

set_option maxHeartbeats 8000000 in
theorem hex_child_jacobian_6 (a0 a1 a2 b0 b1 b2 c0 c1 c2 d0 d1 d2 e0 e1 e2 f0 f1 f2 g0 g1 g2 h0 h1 h2 : Rat) :
    ∀ k < 8,
      hexJacAt (refine (hexMesh [[a0, a1, a2], [b0, b1, b2], [c0, c1, c2], [d0, d1, d2], [e0, e1, e2], [f0, f1, f2], [g0, g1, g2], [h0, h1, h2]]))
        (((refine (hexMesh [[a0, a1, a2], [b0, b1, b2], [c0, c1, c2], [d0, d1, d2], [e0, e1, e2], [f0, f1, f2], [g0, g1, g2], [h0, h1, h2]])).idx 3 0).getD 6 []) (bitR k 0) (bitR k 1) (bitR k 2)
      = 1/8 * hexJacAt (hexMesh [[a0, a1, a2], [b0, b1, b2], [c0, c1, c2], [d0, d1, d2], [e0, e1, e2], [f0, f1, f2], [g0, g1, g2], [h0, h1, h2]]) [0, 1, 2, 3, 4, 5, 6, 7]
          ((bitR 6 0 + bitR k 0) / 2) ((bitR 6 1 + bitR k 1) / 2) ((bitR 6 2 + bitR k 2) / 2) := by
  intro k hk
  rw [hex_rows]
  have hk' : k = 0 ∨ k = 1 ∨ k = 2 ∨ k = 3 ∨ k = 4 ∨ k = 5 ∨ k = 6 ∨ k = 7 := by omega
  rcases hk' with rfl | rfl | rfl | rfl | rfl | rfl | rfl | rfl <;>
    (simp only [hexJacAt, coord]
     simp [refine, hexMesh, fineVerts, midpoint, coord, Mesh.tuple, Mesh.idx, Mesh.num, refCount, faceCount,
       List.range'_succ, List.range_succ, bitOf, bitR]
     ring)

end FeatModel.Refine
