import FeatModel.Model.MGRef
import Mathlib.Algebra.Module.Basic
import Mathlib.Tactic.Abel
import Mathlib.Tactic.Module
/-!
# C09: the textbook operator `mgRef` on a module over a commutative ring

* linearity of one cycle with fixed coarse grid correction, with the exact list of components that must be linear;
* two-grid algebra: with the exact coarse solve of the Galerkin operator the coarse grid correction
  `I - P (R A P)⁻¹ R A` is a projection that annihilates the range of `P`.
-/
namespace FeatModel.MG

variable {K V : Type} [CommRing K] [AddCommGroup V] [Module K V]

/-- the vector operations of a module; the adaptive step lengths are arbitrary functions -/
def modOps (omE : V → V → V → K) (omD : V → V → K) : ROps V K where
  sub := fun x y => x - y
  axpy := fun a x y => y + a • x
  one := 1
  neg := fun w => -w
  omegaE := omE
  omegaD := omD

/-- `f (a x + y) = a f x + f y` -/
def Lin (K : Type) {V : Type} [CommRing K] [AddCommGroup V] [Module K V] (f : V → V) : Prop :=
  ∀ (a : K) (x y : V), f (a • x + y) = a • f x + f y

theorem Lin.comp {f g : V → V} (hf : Lin K f) (hg : Lin K g) : Lin K (fun b => f (g b)) := by
  intro a x y; simp only [hg a x y, hf a (g x) (g y)]

theorem Lin.id : Lin K (fun b : V => b) := fun _ _ _ => rfl

theorem Lin.zero : Lin K (fun _ : V => (0 : V)) := by intro a x y; simp

theorem Lin.sub {f g : V → V} (hf : Lin K f) (hg : Lin K g) : Lin K (fun b => f b - g b) := by
  intro a x y; simp only [hf a x y, hg a x y, smul_sub]; abel

theorem Lin.addsmul {f g : V → V} (hf : Lin K f) (hg : Lin K g) : Lin K (fun b => f b + (1 : K) • g b) := by
  intro a x y; simp only [hf a x y, hg a x y, one_smul, smul_add]; abel

/-- the components of a level that have to be linear -/
structure LinLevel (K : Type) {V : Type} [CommRing K] [AddCommGroup V] [Module K V] (L : RLevel V) : Prop where
  A : Lin K L.A
  Fd : Lin K L.Fd
  Fc : Lin K L.Fc
  R : Lin K L.R
  P : Lin K L.P
  zero : L.zero = 0
  pre : ∀ S, L.pre = some S → Lin K S
  post : ∀ S, L.post = some S → Lin K S
  peak : ∀ S, L.peak = some S → Lin K S
  crs : ∀ S, L.crs = some S → Lin K S

section
variable (omE : V → V → V → K) (omD : V → V → K)

theorem lin_rRes {L : RLevel V} (hL : LinLevel K L) {X : V → V} (hX : Lin K X) :
    Lin K (fun b => rRes (modOps omE omD) L b (X b)) :=
  hL.Fd.comp (Lin.id.sub (hL.A.comp hX))

theorem lin_rSmooth {L : RLevel V} (hL : LinLevel K L) {S : V → V} (hS : Lin K S) {X : V → V} (hX : Lin K X) :
    Lin K (fun b => rSmooth (modOps omE omD) L S b (X b)) :=
  hX.addsmul (hL.Fc.comp (hS.comp (lin_rRes omE omD hL hX)))

theorem lin_rPeak {L : RLevel V} (hL : LinLevel K L) {X : V → V} (hX : Lin K X) :
    Lin K (fun b => rPeak (modOps omE omD) L b (X b)) := by
  unfold rPeak
  cases hpk : L.peak with
  | some S => exact lin_rSmooth omE omD hL (hL.peak S hpk) hX
  | none =>
    cases hpr : L.pre with
    | none =>
      cases hpo : L.post with
      | none => exact hX
      | some S => exact lin_rSmooth omE omD hL (hL.post S hpo) hX
    | some S1 =>
      have h1 := lin_rSmooth omE omD hL (hL.pre S1 hpr) hX
      cases hpo : L.post with
      | none => exact h1
      | some S => exact lin_rSmooth omE omD hL (hL.post S hpo) h1

theorem lin_rCorr {L Lc : RLevel V} (hL : LinLevel K L) (hLc : LinLevel K Lc) {inner : V → V} (hi : Lin K inner)
    {D X : V → V} (hD : Lin K D) (hX : Lin K X) :
    Lin K (fun b => (rCorr (modOps omE omD) .fixed L Lc inner b (D b) (X b)).1) ∧
    Lin K (fun b => (rCorr (modOps omE omD) .fixed L Lc inner b (D b) (X b)).2) := by
  have hc : Lin K (fun b => L.Fc (L.P (inner (Lc.Fd (L.R (D b)))))) :=
    hL.Fc.comp (hL.P.comp (hi.comp (hLc.Fd.comp (hL.R.comp hD))))
  have hx : Lin K (fun b => X b + (1 : K) • L.Fc (L.P (inner (Lc.Fd (L.R (D b)))))) := hX.addsmul hc
  exact ⟨hx, lin_rRes omE omD hL hx⟩

theorem lin_mgBody {L Lc : RLevel V} (hL : LinLevel K L) (hLc : LinLevel K Lc) (tw : Bool) {i1 i2 : V → V}
    (h1 : Lin K i1) (h2 : Lin K i2) : Lin K (mgBody (modOps omE omD) .fixed L Lc tw i1 i2) := by
  have hx0 : Lin K (fun b => match L.pre with | some S => S b | none => L.zero) := by
    cases hp : L.pre with
    | none => rw [hL.zero]; exact Lin.zero
    | some S => exact hL.pre S hp
  have hd0 : Lin K (fun b => match L.pre with
      | some _ => rRes (modOps omE omD) L b (match L.pre with | some S => S b | none => L.zero)
      | none => L.Fd b) := by
    cases hp : L.pre with
    | none => exact hL.Fd
    | some S => exact lin_rRes omE omD hL (hL.pre S hp)
  obtain ⟨r1a, r1b⟩ := lin_rCorr omE omD hL hLc h1 hd0 hx0
  have hy := lin_rPeak omE omD hL r1a
  obtain ⟨r2a, r2b⟩ := lin_rCorr omE omD hL hLc h2 (lin_rRes omE omD hL hy) hy
  unfold mgBody
  cases tw with
  | false =>
    cases hpo : L.post with
    | none => exact r1a
    | some S => exact r1a.addsmul ((hL.post S hpo).comp r1b)
  | true =>
    cases hpo : L.post with
    | none => exact r2a
    | some S => exact r2a.addsmul ((hL.post S hpo).comp r2b)

/-- one cycle with the fixed coarse grid correction is a linear map of the right hand side, provided that on every
    level the system operator, both filters, restriction, prolongation, every *present* smoother and the coarse
    solver are linear and the "format" vector is 0 -/
theorem lin_mgRef (lv : Nat → RLevel V) (h : ∀ l, LinLevel K (lv l)) (crs : Nat) (k : RKind) (d : Nat) :
    Lin K (mgRef (modOps omE omD) lv .fixed crs k d) := by
  induction d generalizing k with
  | zero =>
    show Lin K (fun b => mgCoarse (lv crs) b)
    unfold mgCoarse
    cases hc : (lv crs).crs with
    | none => exact (h crs).Fc
    | some C => exact (h crs).crs C hc
  | succ d ih =>
    show Lin K (fun b => mgBody (modOps omE omD) .fixed (lv (crs - (d + 1))) (lv (crs - (d + 1) + 1)) k.twice
      (mgRef (modOps omE omD) lv .fixed crs k.first d) (mgRef (modOps omE omD) lv .fixed crs k.second d) b)
    exact lin_mgBody omE omD (h _) (h _) k.twice (ih k.first) (ih k.second)

end

/-! ## two-grid algebra -/

section twogrid

/-- With an exact coarse solve `C = (R A P)⁻¹` of the Galerkin operator the coarse grid correction
    `T = I - P C R A` annihilates the range of the prolongation (left inverse suffices, no linearity needed). -/
theorem cgc_annihilates_range {V W : Type} [AddCommGroup V] (A : V → V) (R : V → W) (P : W → V) (C : W → W)
    (hleft : ∀ y, C (R (A (P y))) = y) (y : W) : P y - P (C (R (A (P y)))) = 0 := by
  rw [hleft]; abel

/-- ... and is a projection: `T (T x) = T x`, for additive `A`, `R`, `P`, `C` and a right inverse `C`. -/
theorem cgc_idempotent {V W : Type} [AddCommGroup V] [AddCommGroup W] (A : V → V) (R : V → W) (P : W → V) (C : W → W)
    (hA : ∀ x y, A (x - y) = A x - A y) (hR : ∀ x y, R (x - y) = R x - R y)
    (hP : ∀ x y, P (x - y) = P x - P y) (hC : ∀ x y, C (x - y) = C x - C y)
    (hright : ∀ z, R (A (P (C z))) = z) (x : V) :
    (x - P (C (R (A x)))) - P (C (R (A (x - P (C (R (A x))))))) = x - P (C (R (A x))) := by
  have h0 : R (A (x - P (C (R (A x))))) = 0 := by rw [hA, hR, hright]; abel
  have hC0 : C 0 = 0 := by have := hC 0 0; simpa using this
  have hP0 : P 0 = 0 := by have := hP 0 0; simpa using this
  rw [h0, hC0, hP0]; abel

end twogrid

/-- The two-level V-cycle of `mgRef` without smoothers and filters and with coarse solver `C` is `b ↦ P C R b`,
    so its error propagation operator `e ↦ e - mgRef (A e)` is the coarse grid correction `I - P C R A` of the two
    theorems above. -/
theorem mgRef_twogrid (omE : V → V → V → K) (omD : V → V → K) (lv : Nat → RLevel V) (C : V → V)
    (h0 : (lv 0).pre = none ∧ (lv 0).post = none ∧ (lv 0).zero = 0 ∧ (lv 0).Fd = id ∧ (lv 0).Fc = id)
    (h1 : (lv 1).crs = some C ∧ (lv 1).Fd = id) (b : V) :
    mgRef (modOps omE omD) lv .fixed 1 .V 1 b = (lv 0).P (C ((lv 0).R b)) := by
  obtain ⟨a1, a2, a3, a4, a5⟩ := h0
  obtain ⟨b1, b2⟩ := h1
  simp [mgRef, mgBody, mgCoarse, rCorr, rStep, rRes, modOps, RKind.twice, a1, a2, a3, a4, a5, b1, b2]

end FeatModel.MG
