import FeatModel.Lemmas.C14Basic
import FeatModel.Lemmas.C14Refine
import Mathlib.Tactic.FieldSimp
import Mathlib.Tactic.Positivity
import Mathlib.Tactic.Linarith
import Mathlib.Algebra.Order.Field.Basic
/-! # C14: the statements over `Rat` (moments, reference integrals, tolerance) and the refinement theorem -/
namespace FeatModel.Cub

/-- reference integral of the monomial `x^e` over the reference simplex / cube `[-1,1]^d` -/
def refIntQ (simplex : Bool) (e : List Nat) : Rat := (refNum simplex e : Rat) / (refDen simplex e : Rat)

/-- `Σ_i w_i x_i^e` of the rule as a rational number -/
def DyTable.momentQ (t : DyTable) (e : List Nat) : Rat := (t.momentNum e : Rat) / (2 : Rat) ^ t.momentExp e

/-- the uniform tolerance of all exactness checks: `2^-40` -/
def tolQ : Rat := 1 / (2 : Rat) ^ tolBits

theorem fact_pos : ∀ n, 0 < fact n
  | 0 => by simp [fact]
  | n + 1 => by simp only [fact]; exact Nat.mul_pos (Nat.succ_pos n) (fact_pos n)

theorem cubeDen_pos : ∀ e, 0 < cubeDen e
  | [] => by simp [cubeDen]
  | k :: ks => by simp only [cubeDen]; exact Nat.mul_pos (Nat.succ_pos k) (cubeDen_pos ks)

theorem cubeDenFact_pos : ∀ e, 0 < cubeDenFact e
  | [] => by simp [cubeDenFact]
  | k :: ks => by simp only [cubeDenFact]; exact Nat.mul_pos (fact_pos _) (cubeDenFact_pos ks)

theorem refDen_pos (s : Bool) (e : List Nat) : 0 < refDen s e := by
  unfold refDen; split
  · exact fact_pos _
  · exact cubeDen_pos _

/-- the `Rat` bridge: the cleared-denominator integer inequality IS `|Σ w_i x_i^e − ∫ x^e| ≤ 2^-40` -/
theorem momentOK_iff (t : DyTable) (s : Bool) (e : List Nat) :
    t.MomentOK s e ↔ |t.momentQ e - refIntQ s e| ≤ tolQ := by
  unfold DyTable.MomentOK DyTable.momentQ refIntQ tolQ
  generalize t.momentNum e = S
  generalize t.momentExp e = k
  generalize hp : refNum s e = p
  have hq0 := refDen_pos s e
  generalize refDen s e = q at hq0 ⊢
  have hq : (0 : Rat) < q := by exact_mod_cast hq0
  have hk : (0 : Rat) < (2 : Rat) ^ k := by positivity
  have hT : (0 : Rat) < (2 : Rat) ^ tolBits := by positivity
  have key : (S : Rat) / 2 ^ k - (p : Rat) / q = (((S * q - p * (2 ^ k : Nat) : Int)) : Rat) / (2 ^ k * q) := by
    push_cast; field_simp
  rw [key, abs_div, abs_of_pos (mul_pos hk hq), div_le_div_iff₀ (mul_pos hk hq) hT]
  constructor
  · intro h
    have := (Nat.cast_le (α := Rat)).2 h
    rw [Nat.cast_mul, Nat.cast_natAbs] at this
    push_cast at this ⊢
    linarith
  · intro h
    apply (Nat.cast_le (α := Rat)).1
    rw [Nat.cast_mul, Nat.cast_natAbs]
    push_cast at h ⊢
    linarith

/-- exactness to degree `d` over `Rat`, with tolerance `ε` -/
def DyTable.ExactQ (t : DyTable) (simplex : Bool) (dim d : Nat) (ε : Rat) : Prop :=
  ∀ e : List Nat, e.length = dim → esum e ≤ d → |t.momentQ e - refIntQ simplex e| ≤ ε

theorem exactTo_iff (t : DyTable) (s : Bool) (dim d : Nat) : t.ExactTo s dim d ↔ t.ExactQ s dim d tolQ := by
  unfold DyTable.ExactTo DyTable.ExactQ
  constructor <;> intro h e hl hs
  · exact (momentOK_iff t s e).1 (h e hl hs)
  · exact (momentOK_iff t s e).2 (h e hl hs)

/-! ## refinement -/

/-- a functional on monomials applied term by term (the scale variable's exponent is dropped) -/
def applyQ (F : List Nat → Rat) : IPoly → Rat
  | [] => 0
  | t :: p => (t.1 : Rat) * F t.2.tail + applyQ F p

def mapsQ (F : List Nat → Rat) (maps : List RefMap) (e : List Nat) : Rat :=
  (maps.map fun m => (m.c : Rat) * applyQ F (expandAll m.rows e)).sum

theorem termsOK_cons {simplex : Bool} {dim n D : Nat} {t : Int × List Nat} {p : IPoly}
    (h : termsOK simplex dim n D (t :: p) = true) :
    (∃ g0 g, t.2 = g0 :: g ∧ g.length = dim ∧ g0 + esum g = n ∧ refDen simplex g ∣ D) ∧
      termsOK simplex dim n D p = true := by
  unfold termsOK at h ⊢
  simp only [List.all_cons, Bool.and_eq_true, beq_iff_eq] at h
  refine ⟨?_, h.2⟩
  obtain ⟨⟨hl, hs⟩, hd⟩ := h.1
  match hg : t.2, hl, hs, hd with
  | g0 :: g, hl, hs, hd =>
    exact ⟨g0, g, rfl, by simpa using hl, by simpa [esum] using hs, Nat.dvd_of_mod_eq_zero (by simpa using hd)⟩

theorem applyTerms_cast_moment (S : List Nat → Int) (ew ec dim n D : Nat) (simplex : Bool) : ∀ (p : IPoly),
    termsOK simplex dim n D p = true →
    ((applyTerms S ((2 : Int) ^ ec) p : Int) : Rat) =
      (2 : Rat) ^ (ew + ec * n) * applyQ (fun f => (S f : Rat) / (2 : Rat) ^ (ew + ec * esum f)) p
  | [], _ => by simp [applyTerms, applyQ]
  | t :: p, h => by
    obtain ⟨⟨g0, g, hg, _, hn, _⟩, hp⟩ := termsOK_cons h
    have ih := applyTerms_cast_moment S ew ec dim n D simplex p hp
    simp only [applyTerms, applyQ, hg, homMoment, List.tail_cons]
    push_cast
    rw [ih]
    have h2 : (2 : Rat) ^ (ew + ec * n) = ((2 : Rat) ^ ec) ^ g0 * (2 : Rat) ^ (ew + ec * esum g) := by
      rw [← pow_mul, ← pow_add, ← hn]; congr 1; ring
    have hpos : (2 : Rat) ^ (ew + ec * esum g) ≠ 0 := by positivity
    rw [h2]; field_simp

theorem applyTerms_cast_ref (simplex : Bool) (dim n D : Nat) : ∀ (p : IPoly),
    termsOK simplex dim n D p = true →
    ((applyTerms (scaledRef simplex D) 1 p : Int) : Rat) = (D : Rat) * applyQ (refIntQ simplex) p
  | [], _ => by simp [applyTerms, applyQ]
  | t :: p, h => by
    obtain ⟨⟨g0, g, hg, _, _, hd⟩, hp⟩ := termsOK_cons h
    have ih := applyTerms_cast_ref simplex dim n D p hp
    obtain ⟨c, hc⟩ := hd
    have hdiv : D / refDen simplex g = c := by rw [hc]; exact Nat.mul_div_cancel_left c (refDen_pos simplex g)
    have hDq : (D : Rat) = (refDen simplex g : Rat) * (c : Rat) := by exact_mod_cast hc
    simp only [applyTerms, applyQ, hg, homMoment, List.tail_cons, scaledRef, refIntQ, hdiv]
    push_cast
    rw [ih, hDq]
    have : (refDen simplex g : Rat) ≠ 0 := by exact_mod_cast (refDen_pos simplex g).ne'
    field_simp
    simp [one_pow]

theorem applyQ_diff (F G : List Nat → Rat) (ε : Rat) (simplex : Bool) (dim n D : Nat)
    (hFG : ∀ g : List Nat, g.length = dim → esum g ≤ n → |F g - G g| ≤ ε) : ∀ (p : IPoly),
    termsOK simplex dim n D p = true → |applyQ F p - applyQ G p| ≤ (absCoef p : Rat) * ε
  | [], _ => by simp [applyQ, absCoef]
  | t :: p, h => by
    obtain ⟨⟨g0, g, hg, hl, hn, _⟩, hp⟩ := termsOK_cons h
    have ih := applyQ_diff F G ε simplex dim n D hFG p hp
    have h1 := hFG g hl (by omega)
    simp only [applyQ, absCoef, hg, List.tail_cons]
    have e1 : (t.1 : Rat) * F g + applyQ F p - ((t.1 : Rat) * G g + applyQ G p) =
        (t.1 : Rat) * (F g - G g) + (applyQ F p - applyQ G p) := by ring
    have e2 : |(t.1 : Rat) * (F g - G g)| ≤ (t.1.natAbs : Rat) * ε := by
      rw [abs_mul, Nat.cast_natAbs, Int.cast_abs]
      exact mul_le_mul_of_nonneg_left h1 (abs_nonneg _)
    rw [e1]
    calc _ ≤ |(t.1 : Rat) * (F g - G g)| + |applyQ F p - applyQ G p| := abs_add_le _ _
      _ ≤ (t.1.natAbs : Rat) * ε + (absCoef p : Rat) * ε := add_le_add e2 ih
      _ = _ := by push_cast; ring

theorem refMoment_cons (S : List Nat → Int) (h : Int) (m : RefMap) (ms : List RefMap) (e : List Nat) :
    refMoment S h (m :: ms) e = m.c * applyTerms S h (expandAll m.rows e) + refMoment S h ms e := by
  simp [refMoment]

theorem mapsQ_cons (F : List Nat → Rat) (m : RefMap) (ms : List RefMap) (e : List Nat) :
    mapsQ F (m :: ms) e = (m.c : Rat) * applyQ F (expandAll m.rows e) + mapsQ F ms e := by
  simp [mapsQ]

theorem growthNum_cons (m : RefMap) (ms : List RefMap) (e : List Nat) :
    growthNum (m :: ms) e = m.c.natAbs * absCoef (expandAll m.rows e) + growthNum ms e := by
  simp [growthNum]

theorem refMoment_cast_moment (S : List Nat → Int) (ew ec dim n D : Nat) (simplex : Bool) (e : List Nat) :
    ∀ (ms : List RefMap), ms.all (fun m => termsOK simplex dim n D (expandAll m.rows e)) = true →
    ((refMoment S ((2 : Int) ^ ec) ms e : Int) : Rat) =
      (2 : Rat) ^ (ew + ec * n) * mapsQ (fun f => (S f : Rat) / (2 : Rat) ^ (ew + ec * esum f)) ms e
  | [], _ => by simp [refMoment, mapsQ]
  | m :: ms, h => by
    simp only [List.all_cons, Bool.and_eq_true] at h
    have ih := refMoment_cast_moment S ew ec dim n D simplex e ms h.2
    rw [refMoment_cons, mapsQ_cons]
    push_cast
    rw [ih, applyTerms_cast_moment S ew ec dim n D simplex _ h.1]
    ring

theorem refMoment_cast_ref (simplex : Bool) (dim n D : Nat) (e : List Nat) :
    ∀ (ms : List RefMap), ms.all (fun m => termsOK simplex dim n D (expandAll m.rows e)) = true →
    ((refMoment (scaledRef simplex D) 1 ms e : Int) : Rat) = (D : Rat) * mapsQ (refIntQ simplex) ms e
  | [], _ => by simp [refMoment, mapsQ]
  | m :: ms, h => by
    simp only [List.all_cons, Bool.and_eq_true] at h
    have ih := refMoment_cast_ref simplex dim n D e ms h.2
    rw [refMoment_cons, mapsQ_cons]
    push_cast
    rw [ih, applyTerms_cast_ref simplex dim n D _ h.1]
    ring

theorem mapsQ_diff (F G : List Nat → Rat) (ε : Rat) (simplex : Bool) (dim n D : Nat) (e : List Nat)
    (hFG : ∀ g : List Nat, g.length = dim → esum g ≤ n → |F g - G g| ≤ ε) :
    ∀ (ms : List RefMap), ms.all (fun m => termsOK simplex dim n D (expandAll m.rows e)) = true →
    |mapsQ F ms e - mapsQ G ms e| ≤ (growthNum ms e : Rat) * ε
  | [], _ => by simp [mapsQ, growthNum]
  | m :: ms, h => by
    simp only [List.all_cons, Bool.and_eq_true] at h
    have ih := mapsQ_diff F G ε simplex dim n D e hFG ms h.2
    have h1 := applyQ_diff F G ε simplex dim n D hFG _ h.1
    rw [mapsQ_cons, mapsQ_cons, growthNum_cons]
    set P := expandAll m.rows e
    have e1 : (m.c : Rat) * applyQ F P + mapsQ F ms e - ((m.c : Rat) * applyQ G P + mapsQ G ms e) =
        (m.c : Rat) * (applyQ F P - applyQ G P) + (mapsQ F ms e - mapsQ G ms e) := by ring
    have e2 : |(m.c : Rat) * (applyQ F P - applyQ G P)| ≤ (m.c.natAbs : Rat) * ((absCoef P : Rat) * ε) := by
      rw [abs_mul, Nat.cast_natAbs, Int.cast_abs]
      exact mul_le_mul_of_nonneg_left h1 (abs_nonneg _)
    rw [e1]
    calc _ ≤ |(m.c : Rat) * (applyQ F P - applyQ G P)| + |mapsQ F ms e - mapsQ G ms e| := abs_add_le _ _
      _ ≤ (m.c.natAbs : Rat) * ((absCoef P : Rat) * ε) + (growthNum ms e : Rat) * ε := add_le_add e2 ih
      _ = _ := by push_cast; ring

/-- ONE refinement step, one monomial: if the input rule integrates every monomial of degree ≤ |e| up to `ε`, the
    refined rule integrates `x^e` up to `growth · ε` -/
theorem refine1_error (simplex : Bool) (dim : Nat) (rm : RefMaps) (growth : Nat) (e : List Nat) (t : DyTable)
    (ε : Rat) (hε : 0 ≤ ε) (ht : t.wf dim = true) (hrm : rm.wf dim = true) (hok : subdivOK simplex dim rm growth e = true)
    (H : ∀ f : List Nat, f.length = dim → esum f ≤ esum e → |t.momentQ f - refIntQ simplex f| ≤ ε) :
    |(t.refine1 rm).momentQ e - refIntQ simplex e| ≤ (growth : Rat) * ε := by
  unfold subdivOK at hok
  rw [scanMaps_eq] at hok
  simp only [Bool.and_eq_true, beq_iff_eq, decide_eq_true_eq] at hok
  obtain ⟨⟨⟨hterms, hdiv⟩, hid⟩, hgr⟩ := hok
  set n := esum e
  set D := commonDen simplex dim e
  have hDpos : (0 : Rat) < (D : Rat) := by
    have : 0 < D := by
      rcases Nat.eq_zero_or_pos D with h0 | h0
      · obtain ⟨c, hc⟩ := Nat.dvd_of_mod_eq_zero hdiv
        have := refDen_pos simplex e
        rw [h0] at hc
        rcases Nat.mul_eq_zero.1 hc.symm with h1 | h1
        · omega
        · -- D = 0 is impossible: D is a product of factorials
          exfalso
          have hD : 0 < commonDen simplex dim e := by
            unfold commonDen; split
            · exact fact_pos _
            · exact cubeDenFact_pos _
          omega
      · exact h0
    exact_mod_cast this
  have hB : (0 : Rat) < (2 : Rat) ^ (rm.ce + rm.ae * n) := by positivity
  -- the refined moment
  have hM : (t.refine1 rm).momentQ e =
      mapsQ (fun f => (t.momentNum f : Rat) / (2 : Rat) ^ (t.ew + t.ec * esum f)) rm.maps e /
        (2 : Rat) ^ (rm.ce + rm.ae * n) := by
    unfold DyTable.momentQ
    rw [momentNum_refine1 t rm dim ht hrm e, refMoment_cast_moment t.momentNum t.ew t.ec dim n D simplex e _ hterms]
    have : (t.refine1 rm).momentExp e = (t.ew + t.ec * n) + (rm.ce + rm.ae * n) := by
      simp only [DyTable.momentExp, DyTable.refine1]; ring
    have h1 : (2 : Rat) ^ (t.ew + t.ec * n) ≠ 0 := by positivity
    rw [this, show (2 : Rat) ^ (t.ew + t.ec * n + (rm.ce + rm.ae * n)) =
      (2 : Rat) ^ (t.ew + t.ec * n) * (2 : Rat) ^ (rm.ce + rm.ae * n) from pow_add _ _ _, mul_div_mul_left _ _ h1]
  -- the reference integral
  have hI : refIntQ simplex e = mapsQ (refIntQ simplex) rm.maps e / (2 : Rat) ^ (rm.ce + rm.ae * n) := by
    obtain ⟨c, hcD⟩ := Nat.dvd_of_mod_eq_zero hdiv
    have hdv : D / refDen simplex e = c := by rw [hcD]; exact Nat.mul_div_cancel_left c (refDen_pos simplex e)
    have hDq : (D : Rat) = (refDen simplex e : Rat) * (c : Rat) := by exact_mod_cast hcD
    have hid2 : refMoment (scaledRef simplex D) 1 rm.maps e =
        (refNum simplex e : Int) * (c : Int) * (2 : Int) ^ (rm.ce + rm.ae * n) := by
      rw [hid]; simp only [scaledRef, hdv]
    have hc := congrArg (fun z : Int => (z : Rat)) hid2
    simp only [Int.cast_mul, Int.cast_pow, Int.cast_natCast, Int.cast_ofNat] at hc
    rw [refMoment_cast_ref simplex dim n D e _ hterms, hDq] at hc
    have hq : (refDen simplex e : Rat) ≠ 0 := by exact_mod_cast (refDen_pos simplex e).ne'
    have hcpos : (c : Rat) ≠ 0 := by
      intro h0; rw [h0, mul_zero] at hDq; exact hDpos.ne' hDq
    rw [show refIntQ simplex e = (refNum simplex e : Rat) / (refDen simplex e : Rat) from rfl,
      eq_div_iff hB.ne', div_mul_eq_mul_div, div_eq_iff hq]
    have := mul_left_cancel₀ hcpos (by linarith :
      (c : Rat) * ((refDen simplex e : Rat) * mapsQ (refIntQ simplex) rm.maps e) =
        (c : Rat) * ((refNum simplex e : Rat) * (2 : Rat) ^ (rm.ce + rm.ae * n)))
    linarith
  have hd := mapsQ_diff (fun f => (t.momentNum f : Rat) / (2 : Rat) ^ (t.ew + t.ec * esum f)) (refIntQ simplex) ε
    simplex dim n D e (fun g hl hs => by simpa [DyTable.momentQ, DyTable.momentExp] using H g hl hs) rm.maps hterms
  have hg : (growthNum rm.maps e : Rat) ≤ (growth : Rat) * (2 : Rat) ^ (rm.ce + rm.ae * n) := by exact_mod_cast hgr
  rw [hM, hI, ← sub_div, abs_div, abs_of_pos hB, div_le_iff₀ hB]
  calc _ ≤ (growthNum rm.maps e : Rat) * ε := hd
    _ ≤ ((growth : Rat) * (2 : Rat) ^ (rm.ce + rm.ae * n)) * ε := mul_le_mul_of_nonneg_right hg hε
    _ = _ := by ring

end FeatModel.Cub
