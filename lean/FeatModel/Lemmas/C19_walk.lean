import FeatModel.Model.Adjacency
import FeatModel.Model.AdjKernels
import FeatModel.Lemmas.C19_renders
/-! C19 lemmas, group `walk` (statements fixed by Props/C19.statements; proofs to be filled in) -/
open FeatModel.Adj

namespace C19L.walk

/-! ### generic list facts -/

theorem foldl_snoc (acc xs : List Nat) : xs.foldl (fun l v => l ++ [v]) acc = acc ++ xs := by
  induction xs generalizing acc with
  | nil => simp
  | cons x xs ih => simp [List.foldl_cons, ih]

theorem foldl_nest {σ : Type} (r : Nat → List Nat) (f : σ → Nat → σ) (s : σ) (xs : List Nat) :
    xs.foldl (fun s j => (r j).foldl f s) s = (xs.flatMap r).foldl f s := by
  rw [List.foldl_flatMap]

theorem range_map_getD_self (l : List (List Nat)) :
    (List.range l.length).map (fun i => l.getD i []) = l := by
  apply List.ext_getElem
  · simp
  · intro i h1 h2
    simp [List.getD_eq_getElem?_getD, h2]

theorem range_map_getD_map (l : List (List Nat)) (F : List Nat → List Nat) :
    (List.range l.length).map (fun i => F (l.getD i [])) = l.map F := by
  apply List.ext_getElem
  · simp
  · intro i h1 h2
    have h3 : i < l.length := by simpa using h2
    simp [List.getD_eq_getElem?_getD, h3]

/-! ### the two adjactor instances -/

theorem images_ofGraph (g : Graph) (i : Nat) : (Adjactor.ofGraph g).images i = g.row i := by
  simp only [Adjactor.images, Adjactor.ofGraph]
  rw [foldl_snoc]; simp

theorem adjactor_ofGraph_spec (g : Graph) :
    (Adjactor.ofGraph g).Lawful ∧ (Adjactor.ofGraph g).toGraph = g ∧ ∀ i, (Adjactor.ofGraph g).images i = g.row i := by
  refine ⟨?_, ?_, images_ofGraph g⟩
  · intro σ i f s
    rw [images_ofGraph]
    rfl
  · have e : (Adjactor.ofGraph g).images = g.row := funext (images_ofGraph g)
    simp only [Adjactor.toGraph, e]
    cases g with
    | mk n adj =>
      simp only [Adjactor.ofGraph, Graph.nDom]
      show Graph.mk n ((List.range adj.length).map (fun i => adj.getD i [])) = _
      rw [range_map_getD_self]

theorem images_composite (a b : Graph) (i : Nat) :
    (Adjactor.composite a b).images i = (a.row i).flatMap b.row := by
  simp only [Adjactor.images, Adjactor.composite]
  rw [foldl_nest, foldl_snoc]; simp

theorem adjactor_composite_spec (a b : Graph) :
    (Adjactor.composite a b).Lawful ∧ (Adjactor.composite a b).toGraph = Graph.compose a b ∧
    ∀ i, (Adjactor.composite a b).images i = (a.row i).flatMap b.row := by
  refine ⟨?_, ?_, images_composite a b⟩
  · intro σ i f s
    rw [images_composite]
    simp only [Adjactor.composite]
    rw [foldl_nest]
  · have e : (Adjactor.composite a b).images = fun i => (a.row i).flatMap b.row :=
      funext (images_composite a b)
    simp only [Adjactor.toGraph, e]
    simp only [Adjactor.composite, Graph.compose, Graph.nDom]
    show Graph.mk b.nImg ((List.range a.adj.length).map
      (fun i => (fun l => l.flatMap b.row) (a.adj.getD i []))) = _
    rw [range_map_getD_map a.adj (fun l => l.flatMap b.row)]

/-! ### dedup of a snoc -/

theorem dedup_snoc (xs : List Nat) (v : Nat) :
    Graph.dedup (xs ++ [v]) = Graph.dedup xs ++ (if v ∈ xs then [] else [v]) := by
  induction xs with
  | nil => simp [Graph.dedup]
  | cons x xs ih =>
    simp only [List.cons_append, Graph.dedup, ih, List.filter_append, List.mem_cons]
    by_cases h : v = x
    · subst h
      by_cases h2 : v ∈ xs <;> simp [h2]
    · have h' : (v != x) = true := by simp [h]
      by_cases h2 : v ∈ xs <;> simp [h, h2, h']

/-! ### the mask sweeps -/

theorem getD_setIfInBounds (m : Kern.Mask) (v k : Nat) (b : Bool) :
    (m.setIfInBounds v b).getD k false = if v = k ∧ v < m.size then b else m.getD k false := by
  simp only [Array.getD_eq_getD_getElem?, Array.getElem?_setIfInBounds]
  by_cases h : v = k
  · subst h
    by_cases h2 : v < m.size
    · simp [h2]
    · simp [h2]
  · simp [h]

/-- the set sweep over a list: state is the fold over `dedup`, mask is true exactly on the members -/
theorem set_sweep {σ : Type} (f : σ → Nat → σ) (s : σ) (m : Kern.Mask)
    (hm : ∀ k, m.getD k false = false) (ys : List Nat) (hr : ∀ v, v ∈ ys → v < m.size) :
    ∃ m' : Kern.Mask,
      ys.reverse.foldl (fun (st : σ × Kern.Mask) v =>
        if st.2.getD v false then st else (f st.1 v, st.2.setIfInBounds v true)) (s, m)
        = ((Graph.dedup ys.reverse).foldl f s, m') ∧ m'.size = m.size ∧
      ∀ k, m'.getD k false = decide (k ∈ ys) := by
  induction ys with
  | nil => exact ⟨m, by simp [Graph.dedup], rfl, by simpa using hm⟩
  | cons y ys ih =>
    obtain ⟨m', h1, h2, h3⟩ := ih (fun v hv => hr v (List.mem_cons_of_mem _ hv))
    rw [List.reverse_cons, List.foldl_append, h1, dedup_snoc]
    by_cases hy : y ∈ ys
    · have e : m'.getD y false = true := by rw [h3]; simp [hy]
      refine ⟨m', ?_, h2, ?_⟩
      · simp only [List.foldl_cons, List.foldl_nil, e, if_true, List.mem_reverse, hy, List.append_nil]
      · intro k
        rw [h3]
        by_cases hk : k = y
        · subst hk; simp [hy]
        · simp [hk]
    · have e : m'.getD y false = false := by rw [h3]; simp [hy]
      refine ⟨m'.setIfInBounds y true, ?_, ?_, ?_⟩
      · simp only [List.foldl_cons, List.foldl_nil, e, Bool.false_eq_true, if_false, List.mem_reverse,
          hy, List.foldl_append]
      · simp [h2]
      · intro k
        rw [getD_setIfInBounds, h3]
        have hys : y < m'.size := by rw [h2]; exact hr y (List.mem_cons_self)
        by_cases hk : y = k
        · subst hk; simp [hys]
        · have hk' : ¬ k = y := fun h => hk h.symm
          simp [hk, hk']

theorem reset_sweep (xs : List Nat) (m : Kern.Mask) :
    (xs.foldl (fun (m : Kern.Mask) v => m.setIfInBounds v false) m).size = m.size ∧
    ∀ k, (xs.foldl (fun (m : Kern.Mask) v => m.setIfInBounds v false) m).getD k false
      = if k ∈ xs then false else m.getD k false := by
  induction xs generalizing m with
  | nil => simp
  | cons x xs ih =>
    obtain ⟨h1, h2⟩ := ih (m.setIfInBounds x false)
    rw [List.foldl_cons]
    refine ⟨by rw [h1]; simp, ?_⟩
    intro k
    rw [h2, getD_setIfInBounds]
    by_cases hk : k ∈ xs
    · simp [hk]
    · by_cases hx : x = k
      · subst hx
        by_cases hs : x < m.size
        · simp [hs]
        · simp [hs, hk, Array.getD]
      · have hx' : ¬ k = x := fun h => hx h.symm
        simp [hk, hx, hx']

theorem mask_ext (m1 m2 : Kern.Mask) (hs : m1.size = m2.size)
    (h : ∀ k, m1.getD k false = m2.getD k false) : m1 = m2 := by
  apply Array.ext hs
  intro i h1 h2
  have := h i
  simp only [Array.getD_eq_getD_getElem?] at this
  simpa [h1, h2] using this

theorem walk_spec {σ : Type} (A : Adjactor) (hA : A.Lawful) (inj : Bool) (i : Nat) (f : σ → Nat → σ) (s : σ)
    (m : Kern.Mask) (hm : ∀ k, m.getD k false = false) (hr : ∀ v, v ∈ A.images i → v < m.size) :
    Kern.walk A inj i f (s, m) = ((if inj then Graph.dedup (A.images i) else A.images i).foldl f s, m) := by
  cases inj with
  | false =>
    simp only [Kern.walk, Bool.false_eq_true, if_false]
    rw [hA]
  | true =>
    simp only [Kern.walk, if_true]
    rw [hA (σ × Kern.Mask), hA Kern.Mask]
    obtain ⟨m', h1, h2, h3⟩ := set_sweep f s m hm (A.images i).reverse
      (fun v hv => hr v (by simpa using hv))
    rw [List.reverse_reverse] at h1
    rw [h1]
    simp only
    congr 1
    obtain ⟨r1, r2⟩ := reset_sweep (A.images i) m'
    apply mask_ext
    · rw [r1, h2]
    · intro k
      rw [r2, h3, hm]
      by_cases hk : k ∈ A.images i <;> simp [hk]

/-! ### helper theorems used by the other groups -/

theorem transpose_rows_dedup (adj : List (List Nat)) (i k : Nat) :
    ((adj.map Graph.dedup).zipIdx k).flatMap (C19L.renders.tF i)
      = (adj.zipIdx k).filterMap (C19L.renders.iF i) := by
  induction adj generalizing k with
  | nil => simp
  | cons x xs ih =>
    simp only [List.map_cons, List.zipIdx_cons, List.flatMap_cons, List.filterMap_cons, ih,
      C19L.renders.tF_apply, C19L.renders.iF_apply]
    rw [(C19L.renders.nodup_dedup x).count]
    by_cases h : i ∈ x
    · have h' : i ∈ Graph.dedup x := (C19L.renders.mem_dedup x i).2 h
      simp [h, h']
    · have h' : ¬ i ∈ Graph.dedup x := fun hh => h ((C19L.renders.mem_dedup x i).1 hh)
      simp [h, h']

theorem transpose_map_dedup (nImg : Nat) (adj : List (List Nat)) :
    Graph.transpose ⟨nImg, adj.map Graph.dedup⟩ = Graph.injectifyTranspose ⟨nImg, adj⟩ := by
  simp only [Graph.transpose, Graph.injectifyTranspose, Graph.nDom, List.length_map]
  congr 1
  apply List.map_congr_left
  intro i _
  rw [C19L.renders.transposeRow_eq, C19L.renders.injTransposeRow_eq]
  exact transpose_rows_dedup adj i 0

theorem row_lt_of_wf (b : Graph) (hb : b.wf = true) (j k : Nat) (hk : k ∈ b.row j) : k < b.nImg := by
  simp only [Graph.wf, List.all_eq_true, decide_eq_true_eq] at hb
  simp only [Graph.row, List.getD_eq_getElem?_getD] at hk
  cases h : b.adj[j]? with
  | none => simp [h] at hk
  | some l =>
    simp only [h, Option.getD_some] at hk
    exact hb l (List.mem_of_getElem? h) k hk

theorem compose_wf (a b : Graph) (hb : b.wf = true) : (Graph.compose a b).wf = true := by
  simp only [Graph.wf, Graph.compose, List.all_eq_true, List.mem_map]
  rintro l ⟨l0, _, rfl⟩ k hk
  rw [List.mem_flatMap] at hk
  obtain ⟨j, _, hj⟩ := hk
  exact decide_eq_true (row_lt_of_wf b hb j k hj)

end C19L.walk
