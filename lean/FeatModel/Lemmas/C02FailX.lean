/-
C02: exact classification of the outcomes other than a container of the aliased / pre-existing-target operations
(`Mat.stepAlias`) and of the extension operations (`Mat.stepX`, `Mat.crashesX`).  No validity hypotheses.
-/
import FeatModel.Model.LA.Rebuild
import FeatModel.Lemmas.C02Abort
open FeatModel FeatModel.LA

namespace C02L

variable {α : Type}

theorem bcsr_permute_none_iff [Zero α] (A : Bcsr α) (p q : Array Nat) :
    A.permute p q = none ↔ ¬(p.size = 0 ∧ q.size = 0) ∧ (p.size ≠ A.rows ∨ q.size ≠ A.cols) := by
  unfold Bcsr.permute
  by_cases h1 : p.size = 0 ∧ q.size = 0
  · rw [if_pos h1]; exact ⟨fun h => (by cases h), fun h => absurd h1 h.1⟩
  · rw [if_neg h1]
    by_cases h2 : p.size ≠ A.rows ∨ q.size ≠ A.cols
    · rw [if_pos h2]; exact ⟨fun _ => ⟨h1, h2⟩, fun _ => rfl⟩
    · rw [if_neg h2]
      by_cases h3 : A.isArrayless = true
      · rw [if_pos h3]; exact ⟨fun h => (by cases h), fun h => absurd h.2 h2⟩
      · rw [if_neg h3]
        have hp : A.pattern.permute p q ≠ none := by
          intro hn
          have := (AbortAux.csr_permute_none_iff A.pattern p q).1 hn
          exact h2 this.2
        cases hT : A.pattern.permute p q with
        | none => exact absurd hT hp
        | some T => exact ⟨fun h => (by cases h), fun h => absurd h.2 h2⟩

/-- THE ABORT SET of the aliased / pre-existing-target operations: the documented self-clone assertion, and the
    conversions of an entry-free operand (open findings D7: CSR -> banded, D10: CSCR -> CSR) into a target of kind
    0, 1 or 3 -/
theorem stepAlias_abort_iff [Zero α] (fill : α) (m : Mat α) (a : AOp) :
    m.stepAlias fill a = .abort ↔
      (∃ md, a = .clones md) ∨
      (∃ k B, a = .convt k .csr ∧ m = .cscr B ∧ (k = 0 ∨ k = 1 ∨ k = 3) ∧ B.usedElements = 0) ∨
      (∃ k A, a = .convt k .banded ∧ m = .csr A ∧ (k = 0 ∨ k = 1 ∨ k = 3) ∧ A.usedElements = 0) := by
  cases a with
  | trs => cases m <;> simp [Mat.stepAlias]; split <;> simp
  | trt k =>
    cases m <;> simp [Mat.stepAlias] <;> split <;> simp
  | convs => simp [Mat.stepAlias]
  | convt k f =>
    have hk : ((k == 0 || k == 1 || k == 3) = true) ↔ (k = 0 ∨ k = 1 ∨ k = 3) := by simp [or_assoc]
    by_cases hK : (k = 0 ∨ k = 1 ∨ k = 3)
    · have hK' := hk.2 hK
      cases f <;> cases m <;> simp [Mat.stepAlias, Mat.fmt, hK', hK] <;>
        first
        | (rw [← AbortAux.cscr_toCsr_none_iff]; split <;> simp_all)
        | (rw [← AbortAux.csr_toBanded_none_iff]; split <;> simp_all)
        | (split <;> simp)
    · have hK' : ¬ ((k == 0 || k == 1 || k == 3) = true) := fun h => hK (hk.1 h)
      cases f <;> cases m <;> simp [Mat.stepAlias, Mat.fmt, hK', hK] <;> split <;> simp
  | clones md => simp [Mat.stepAlias]
  | clonet k md => simp [Mat.stepAlias]; split <;> simp
  | copys => simp [Mat.stepAlias]
  | copyt k => simp [Mat.stepAlias]; split <;> simp


/-- when a conversion into a pre-existing target yields containers: the same format into a target of kind 0, 1, 3 or 4
    (nothing changes), or one of the five format pairs into a target of kind 0, 1 or 3 with an operand that has entries
    where the code asserts that (D7, D10) -/
theorem stepAlias_convt_ok_iff [Zero α] (fill : α) (m : Mat α) (k : Nat) (f : Fmt) :
    (∃ t s, m.stepAlias fill (.convt k f) = .ok t s) ↔
      (f = m.fmt ∧ Mat.kindSame k = true) ∨
      ((k = 0 ∨ k = 1 ∨ k = 3) ∧
        ((f = .csr ∧ ∃ B, m = .banded B) ∨ (f = .csr ∧ ∃ B, m = .bcsr B) ∨
         (f = .csr ∧ ∃ B, m = .cscr B ∧ B.usedElements ≠ 0) ∨
         (f = .banded ∧ ∃ A, m = .csr A ∧ A.usedElements ≠ 0) ∨
         (f = .cscr ∧ ∃ A, m = .csr A))) := by
  have hk : ((k == 0 || k == 1 || k == 3) = true) ↔ (k = 0 ∨ k = 1 ∨ k = 3) := by simp [or_assoc]
  by_cases hK : (k = 0 ∨ k = 1 ∨ k = 3)
  · have hK' := hk.2 hK
    have hS : Mat.kindSame k = true := by
      rcases hK with h | h | h <;> subst h <;> rfl
    cases f <;> cases m <;> simp [Mat.stepAlias, Mat.fmt, hK', hK, hS]
    · rename_i B
      have h := AbortAux.cscr_toCsr_none_iff B
      cases hT : B.toCsr with
      | none => rw [hT] at h; simp [h.1 rfl]
      | some T =>
        rw [hT] at h
        have : B.usedElements ≠ 0 := fun h0 => by simpa using h.2 h0
        simp [this]
    · rename_i A
      have h := AbortAux.csr_toBanded_none_iff A
      cases hT : A.toBanded with
      | none => rw [hT] at h; simp [h.1 rfl]
      | some T =>
        rw [hT] at h
        have : A.usedElements ≠ 0 := fun h0 => by simpa using h.2 h0
        simp [this]
  · have hK' : ¬ ((k == 0 || k == 1 || k == 3) = true) := fun h => hK (hk.1 h)
    cases f <;> cases m <;> simp [Mat.stepAlias, Mat.fmt, hK', hK] <;> split <;> simp_all

/-- THE ABORT SET of the extension operations: only a block permutation of the wrong size -/
theorem stepX_abort_iff [Zero α] (round : α → α) (m : Mat α) (x : XOp) :
    m.stepX round x = .abort ↔
      ∃ A p q, x = .bperm p q ∧ m = .bcsr A ∧ ¬(p.size = 0 ∧ q.size = 0) ∧ (p.size ≠ A.rows ∨ q.size ≠ A.cols) := by
  cases x with
  | bperm p q =>
    cases m with
    | bcsr A =>
      have h := bcsr_permute_none_iff A p q
      simp only [Mat.stepX]
      cases hP : A.permute p q with
      | none =>
        rw [hP] at h
        simp only [true_iff]
        exact ⟨A, p, q, rfl, rfl, h.1 rfl⟩
      | some B =>
        rw [hP] at h
        constructor
        · intro h'; cases h'
        · rintro ⟨A', p', q', hx, hm, hc⟩
          cases hx; cases hm
          exact absurd (h.2 hc) (by simp)
    | _ => simp [Mat.stepX]
  | layoutz => simp only [Mat.stepX]; split <;> simp
  | layouta k => simp only [Mat.stepX]; split <;> [split; skip] <;> simp
  | _ => cases m <;> simp [Mat.stepX]

/-- THE CRASH SET of the extension operations in the code as it is (what the driver prints as CRASH): open finding D5 -/
theorem crashesX_iff (m : Mat α) (x : XOp) :
    m.crashesX x = true ↔ ∃ A, x = .graphz ∧ m = .csr A ∧ A.usedElements = 0 ∧ 0 < A.rows := by
  cases x <;> cases m <;> simp [Mat.crashesX]

/-- "no such operation" among the extension operations, by operation and format -/
theorem stepX_bad_iff [Zero α] (round : α → α) (m : Mat α) (x : XOp) :
    m.stepX round x = .bad ↔
      ((x = .dtx ∨ x = .dtw) ∧ (m.fmt = .cscr ∨ m.fmt = .bcsr)) ∨
      (x = .layoutz ∧ m.fmt = .dense) ∨
      (∃ k, x = .layouta k ∧ (m.fmt = .dense ∨ Mat.kindSame k = false)) ∨
      (x = .graphz ∧ m.fmt ≠ .csr) ∨
      (∃ p q, x = .bperm p q ∧ m.fmt ≠ .bcsr) ∨
      (x = .triDense ∧ m.fmt ≠ .dense) := by
  cases x with
  | bperm p q =>
    cases m with
    | bcsr A => simp only [Mat.stepX]; cases A.permute p q <;> simp [Mat.fmt]
    | _ => simp [Mat.stepX, Mat.fmt]
  | layouta k =>
    cases m <;> simp [Mat.stepX, Mat.fmt, Mat.layoutRebuild]
  | _ => cases m <;> simp [Mat.stepX, Mat.fmt, Mat.layoutRebuild]

end C02L
