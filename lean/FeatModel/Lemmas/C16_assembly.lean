import FeatModel.Lemmas.C16_scatter
import FeatModel.Lemmas.C19_renders
/-!
Helper lemmas for C16, part 2: `scatterAxpy` on index maps, well-formed patterns, the cell loop, the symbolic graph.
-/
namespace C16L
open FeatModel.Asm FeatModel.Adj

variable {α : Type} [CommRing α]

/-! ### well-formed offsets give disjoint, bounded segments -/

def rp (p : Pattern) (r : Nat) : Nat := p.rowPtr.getD r 0

structure Mono (p : Pattern) (n : Nat) : Prop where
  step : ∀ r, r < p.rows → rp p r ≤ rp p (r + 1)
  len : p.rowPtr.length = p.rows + 1
  last : rp p p.rows ≤ n

theorem Mono.chain {p : Pattern} {n : Nat} (h : Mono p n) (a b : Nat) (hab : a ≤ b) (hb : b ≤ p.rows) :
    rp p a ≤ rp p b := by
  induction b with
  | zero => have : a = 0 := by omega
            subst this; exact Nat.le_refl _
  | succ b ih =>
    by_cases hab' : a = b + 1
    · subst hab'; exact Nat.le_refl _
    · exact Nat.le_trans (ih (by omega) (by omega)) (h.step b (by omega))

theorem mem_seg {p : Pattern} {n : Nat} (h : Mono p n) (r k : Nat) (hk : k ∈ p.seg r) :
    r < p.rows ∧ rp p r ≤ k ∧ k < rp p (r + 1) := by
  unfold Pattern.seg at hk
  rw [List.mem_range'_1] at hk
  have hr : r < p.rows := by
    by_contra hge
    have : p.rowPtr.getD (r + 1) 0 = 0 := by
      rw [List.getD_eq_getElem?_getD, List.getElem?_eq_none (by rw [h.len]; omega)]; rfl
    omega
  refine ⟨hr, hk.1, ?_⟩
  have := h.step r hr
  unfold rp at *
  omega

theorem Mono.segOK {p : Pattern} {n : Nat} (h : Mono p n) : SegOK p n := by
  refine ⟨fun r r' k hk hk' => ?_, fun r k hk => ?_⟩
  · obtain ⟨hr, h1, h2⟩ := mem_seg h r k hk
    obtain ⟨hr', h1', h2'⟩ := mem_seg h r' k hk'
    by_contra hne
    rcases Nat.lt_or_gt_of_ne hne with hlt | hgt
    · have := h.chain (r + 1) r' (by omega) (by omega); omega
    · have := h.chain (r' + 1) r (by omega) (by omega); omega
  · obtain ⟨hr, _, h2⟩ := mem_seg h r k hk
    have := h.chain (r + 1) p.rows (by omega) (Nat.le_refl _)
    exact Nat.lt_of_lt_of_le h2 (Nat.le_trans this h.last)

theorem wf_mono (p : Pattern) (h : p.wf = true) : Mono p p.colIdx.length := by
  simp only [Pattern.wf, Bool.and_eq_true, beq_iff_eq, List.all_eq_true, List.mem_range, decide_eq_true_eq] at h
  obtain ⟨⟨⟨h1, h2⟩, h3⟩, _⟩ := h
  exact ⟨fun r hr => h2 r hr, h1, by unfold rp; omega⟩

/-! ### `scatterAxpy` on index maps -/

theorem fst_mem_of_mem_zipIdx {β : Type} (l : List β) (k : Nat) (a : β) (i : Nat) (h : (a, i) ∈ l.zipIdx k) : a ∈ l := by
  obtain ⟨_, _, h3⟩ := List.mem_zipIdx h
  rw [h3]
  exact List.getElem_mem _

theorem hasCol_iff (p : Pattern) (r c : Nat) : p.hasCol r c = true ↔ ∃ k ∈ p.seg r, p.col k = c := by
  simp [Pattern.hasCol, List.any_eq_true]

omit [CommRing α] in
theorem covered_iff (c : CellCall α) (p : Pattern) :
    c.covered p = true ↔ (∀ ix ∈ c.rowMap, ∀ jx ∈ c.colMap, ∃ k ∈ p.seg ix, p.col k = jx) ∧ ∀ jx ∈ c.colMap, jx < p.cols := by
  simp only [CellCall.covered, Bool.and_eq_true, List.all_eq_true, hasCol_iff, decide_eq_true_eq]

theorem contrib_eq (c : CellCall α) (x : Nat → α) (r : Nat) :
    c.contrib x r = contribL c.loc c.rowMap.zipIdx c.colMap.zipIdx x r := rfl

theorem scatterAxpy_spec (p : Pattern) (st : ScatterSt α) (c : CellCall α) (hok : SegOK p st.data.size)
    (hcp : st.colPtr.size = p.cols) (hcov : c.covered p = true) :
    ∃ st', scatterAxpy p st c.loc c.rowMap c.colMap c.alpha = some st' ∧ st'.data.size = st.data.size ∧
      st'.colPtr.size = p.cols ∧
      ∀ (x : Nat → α) (r : Nat), p.apply st'.data x r = p.apply st.data x r + c.alpha * c.contrib x r := by
  obtain ⟨h1, h2⟩ := (covered_iff c p).mp hcov
  obtain ⟨st', hs, hd, hc, hsem⟩ := scatterRows_spec p c.alpha c.loc c.colMap.zipIdx c.rowMap.zipIdx st hok
    (fun jx j hj => by rw [hcp]; exact h2 jx (fst_mem_of_mem_zipIdx _ _ _ _ hj))
    (fun ix i hi jx j hj => h1 ix (fst_mem_of_mem_zipIdx _ _ _ _ hi) jx (fst_mem_of_mem_zipIdx _ _ _ _ hj))
  exact ⟨st', hs, hd, by rw [hc, hcp], fun x r => by rw [hsem x r, contrib_eq]⟩

/-! ### the cell loop -/

theorem assembleFrom_spec (p : Pattern) (calls : List (CellCall α)) (st : ScatterSt α) (hok : SegOK p st.data.size)
    (hcp : st.colPtr.size = p.cols) (hcov : ∀ c ∈ calls, c.covered p = true) :
    ∃ st', assembleFrom p calls st = some st' ∧ st'.data.size = st.data.size ∧
      ∀ (x : Nat → α) (r : Nat), p.apply st'.data x r =
        p.apply st.data x r + (calls.map fun c => c.alpha * c.contrib x r).sum := by
  induction calls generalizing st with
  | nil => exact ⟨st, rfl, rfl, fun x r => by simp⟩
  | cons c t ih =>
    obtain ⟨st1, h1, hd1, hc1, hsem1⟩ := scatterAxpy_spec p st c hok hcp (hcov c (List.mem_cons_self ..))
    obtain ⟨st2, h2, hd2, hsem2⟩ := ih st1 (by rw [hd1]; exact hok) hc1 (fun c' hc' => hcov c' (List.mem_cons_of_mem _ hc'))
    refine ⟨st2, ?_, by rw [hd2, hd1], fun x r => ?_⟩
    · simp only [assembleFrom, h1]; exact h2
    · rw [hsem2 x r, hsem1 x r]; simp only [List.map_cons, List.sum_cons]; ring

theorem apply_zero (p : Pattern) (n : Nat) (x : Nat → α) (r : Nat) :
    p.apply (Array.replicate n (0 : α)) x r = 0 := by
  unfold Pattern.apply
  apply List.sum_eq_zero
  intro y hy
  obtain ⟨k, _, rfl⟩ := List.mem_map.mp hy
  have : (Array.replicate n (0 : α)).getD k 0 = 0 := by
    simp only [Array.getD_eq_getD_getElem?, Array.getElem?_replicate]
    split <;> rfl
  rw [this, zero_mul]

theorem assemble_spec (p : Pattern) (calls : List (CellCall α)) (hm : Mono p p.colIdx.length)
    (hcov : ∀ c ∈ calls, c.covered p = true) :
    ∃ st, assemble p calls = some st ∧ st.data.size = p.colIdx.length ∧
      ∀ (x : Nat → α) (r : Nat), p.apply st.data x r = (calls.map fun c => c.alpha * c.contrib x r).sum := by
  obtain ⟨st, h, hd, hsem⟩ := assembleFrom_spec p calls (ScatterSt.fresh p (Array.replicate p.colIdx.length 0))
    (by simpa [ScatterSt.fresh] using hm.segOK) (by simp [ScatterSt.fresh]) hcov
  refine ⟨st, h, by simpa [ScatterSt.fresh] using hd, fun x r => ?_⟩
  rw [hsem x r]
  simp [ScatterSt.fresh, apply_zero]

/-! ### the symbolic graph is a well-formed pattern containing every coupling -/

theorem prefixSums_getD_succ (acc : Nat) (l : List Nat) (i : Nat) (hi : i < l.length) :
    (Graph.prefixSums acc l).getD (i + 1) 0 = (Graph.prefixSums acc l).getD i 0 + l.getD i 0 := by
  induction l generalizing acc i with
  | nil => simp at hi
  | cons x xs ih =>
    cases i with
    | zero =>
      simp only [Graph.prefixSums, Nat.zero_add, List.getD_cons_succ, List.getD_cons_zero,
        C19L.renders.prefixSums_getD_zero]
    | succ i =>
      have := ih (acc + x) i (by simpa using hi)
      simpa [Graph.prefixSums] using this

theorem prefixSums_getD_last (acc : Nat) (l : List Nat) :
    (Graph.prefixSums acc l).getD l.length 0 = acc + l.sum := by
  induction l generalizing acc with
  | nil => simp [Graph.prefixSums]
  | cons x xs ih =>
    simp only [Graph.prefixSums, List.length_cons, List.getD_cons_succ, List.sum_cons]
    rw [ih]; omega

theorem ofGraph_mono (g : Graph) : Mono (Pattern.ofGraph g) (Pattern.ofGraph g).colIdx.length := by
  refine ⟨fun r hr => ?_, ?_, ?_⟩
  · have := prefixSums_getD_succ 0 (g.adj.map List.length) r (by simpa [Pattern.ofGraph, Graph.nDom] using hr)
    simp only [rp, Pattern.ofGraph, Graph.domainPtr]
    omega
  · simp [Pattern.ofGraph, Graph.domainPtr, Graph.nDom, C19L.renders.prefixSums_length]
  · have := prefixSums_getD_last 0 (g.adj.map List.length)
    simp only [rp, Pattern.ofGraph, Graph.domainPtr, Graph.imageIdx, Graph.nDom, List.length_flatten]
    simp only [List.length_map] at this
    omega

/-- an element of row `r` of the graph is a column of row `r` of the pattern -/
theorem ofGraph_hasCol (g : Graph) (r s : Nat) (hr : r < g.nDom) (hs : s ∈ g.row r) :
    ∃ k ∈ (Pattern.ofGraph g).seg r, (Pattern.ofGraph g).col k = s := by
  have hf := (C19L.renders.arrays_faithful g r hr).2
  rw [hf] at hs
  obtain ⟨i, hi, hget⟩ := List.mem_iff_getElem.mp hs
  rw [List.getElem_take, List.getElem_drop] at hget
  have hi' : i < g.domainPtr.getD (r + 1) 0 - g.domainPtr.getD r 0 ∧
      g.domainPtr.getD r 0 + i < g.imageIdx.length := by
    simp only [List.length_take, List.length_drop] at hi
    omega
  refine ⟨g.domainPtr.getD r 0 + i, ?_, ?_⟩
  · simp only [Pattern.seg, Pattern.ofGraph, List.mem_range'_1]; omega
  · simp only [Pattern.col, Pattern.ofGraph]
    rw [List.getD_eq_getElem?_getD, List.getElem?_eq_getElem hi'.2]
    exact hget

/-- membership in the row of the symbolic graph -/
theorem mem_symbolic_row (testG trialG : Graph) (g : Graph)
    (hg : Graph.renderComposite 3 testG.transpose trialG = some g) (r s : Nat) (hr : r < testG.nImg) :
    s ∈ g.row r ↔ ∃ c, r ∈ testG.row c ∧ s ∈ trialG.row c := by
  unfold Graph.renderComposite at hg
  split at hg
  · cases hg
  · simp only [Graph.render, Option.some.injEq] at hg
    subst hg
    have h1 := (C19L.renders.sortIndices_spec (Graph.compose testG.transpose trialG).injectify r).1
    have h2 := (C19L.renders.injectify_spec (Graph.compose testG.transpose trialG) r).2.1
    have h3 := (C19L.renders.compose_spec testG.transpose trialG r).2
    rw [h1.mem_iff, h2 s, h3 s]
    constructor
    · rintro ⟨c, hc, hs⟩
      refine ⟨c, ?_, hs⟩
      have := (C19L.renders.transpose_spec testG r c hr).1
      have hpos : 0 < (testG.transpose.row r).count c := List.count_pos_iff.mpr hc
      rw [this] at hpos
      exact List.count_pos_iff.mp hpos
    · rintro ⟨c, hc, hs⟩
      refine ⟨c, ?_, hs⟩
      have := (C19L.renders.transpose_spec testG r c hr).1
      have hpos : 0 < (testG.row c).count r := List.count_pos_iff.mpr hc
      rw [← this] at hpos
      exact List.count_pos_iff.mp hpos

theorem symbolic_dims (testG trialG : Graph) (g : Graph)
    (hg : Graph.renderComposite 3 testG.transpose trialG = some g) :
    g.nDom = testG.nImg ∧ g.nImg = trialG.nImg := by
  unfold Graph.renderComposite at hg
  split at hg
  · cases hg
  · simp only [Graph.render, Option.some.injEq] at hg
    subst hg
    simp [Graph.sortIndices, Graph.injectify, Graph.compose, Graph.transpose, Graph.nDom]

end C16L
