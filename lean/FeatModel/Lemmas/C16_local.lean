import FeatModel.Model.LocalFE
import FeatModel.Lemmas.C15Poly
import FeatModel.Lemmas.C15Subst
import FeatModel.Lemmas.C15Lift1
import FeatModel.Lemmas.C16_trace
import FeatModel.Lemmas.C16_identities
import Mathlib.Tactic.Ring
/-!
Helper lemmas for C16, part 8: a rule that is exact on a set of monomials integrates every polynomial built from these
monomials exactly (linearity of the cubature sum), on the reference cell and on an affine image of it.
-/
namespace C16L
open FeatModel.Poly FeatModel.LocalFE FeatModel.Asm

theorem quadF_add (r : Rule) (c : Rat) (f g : List Rat → Rat) :
    quadF r c (fun x => f x + g x) = quadF r c f + quadF r c g := by
  unfold quadF
  induction r.w.zip r.x with
  | nil => simp
  | cons q t ih => simp only [List.map_cons, List.sum_cons, ih]; ring

theorem quadF_smul (r : Rule) (c a : Rat) (f : List Rat → Rat) :
    quadF r c (fun x => a * f x) = a * quadF r c f := by
  unfold quadF
  induction r.w.zip r.x with
  | nil => simp
  | cons q t ih => simp only [List.map_cons, List.sum_cons, ih]; ring

theorem quadF_scale (r : Rule) (c : Rat) (f : List Rat → Rat) : quadF r c f = c * quadF r 1 f := by
  unfold quadF
  induction r.w.zip r.x with
  | nil => simp
  | cons q t ih => simp only [List.map_cons, List.sum_cons, ih]; ring

theorem quadF_zero (r : Rule) (c : Rat) : quadF r c (fun _ => 0) = 0 := by
  unfold quadF
  induction r.w.zip r.x with
  | nil => simp
  | cons q t ih => simp only [List.map_cons, List.sum_cons, ih]; ring

theorem localEntry_mono (r : Rule) (m : FeatModel.Poly.Mono) :
    localEntry r 1 [(1, m)] = quadF r 1 (fun x => monoEval (pt x) 0 m) := by
  unfold localEntry
  congr 1
  funext x
  simp [evalAt, eval]

/-- linearity: exact on the monomials of `F` ⇒ exact for `F` -/
theorem local_exact (r : Rule) (simplex : Bool) (d : Nat) (ms : List FeatModel.Poly.Mono) (detJ : Rat) (F : Poly)
    (hex : r.exactOn simplex d ms = true) (hF : monosIn F ms = true) :
    localEntry r detJ F = cellInt simplex d detJ F := by
  have key : localEntry r 1 F = polyInt simplex d F := by
    induction F with
    | nil => simp [localEntry, evalAt, eval, polyInt, quadF_zero]
    | cons t p ih =>
      simp only [monosIn, List.all_cons, Bool.and_eq_true] at hF
      have hp : monosIn p ms = true := hF.2
      have hm : t.2 ∈ ms := by simpa using hF.1
      have hmono : localEntry r 1 [(1, t.2)] = refInt simplex d t.2 := by
        simp only [Rule.exactOn, List.all_eq_true] at hex
        simpa using hex t.2 hm
      have : localEntry r 1 (t :: p) = t.1 * localEntry r 1 [(1, t.2)] + localEntry r 1 p := by
        rw [localEntry_mono]
        unfold localEntry
        rw [← quadF_smul, ← quadF_add]
        congr 1
      rw [this, hmono, ih hp]
      simp [polyInt]
  unfold cellInt
  rw [← key]
  exact quadF_scale r detJ _

/-- the scatter calls as coded equal the calls with the exact integrals -/
theorem asCoded_eq_exact (r : Rule) (simplex : Bool) (d : Nat) (ms : List FeatModel.Poly.Mono) (c : CellData)
    (hex : r.exactOn simplex d ms = true) (hF : ∀ i j, monosIn (c.F i j) ms = true) :
    c.asCoded r = c.exact simplex d := by
  unfold CellData.asCoded CellData.exact
  congr 1
  funext i j
  exact local_exact r simplex d ms c.detJ (c.F i j) hex (hF i j)

theorem quadF_congr (r : Rule) (c : Rat) (f g : List Rat → Rat) (h : ∀ x ∈ r.x, f x = g x) :
    quadF r c f = quadF r c g := by
  unfold quadF
  congr 1
  apply List.map_congr_left
  intro q hq
  rw [h q.2 (List.of_mem_zip hq).2]

theorem rabs_of_nonneg (q : Rat) (h : 0 ≤ q) : FeatModel.FE.rabs q = q := by
  unfold FeatModel.FE.rabs
  split
  · rename_i hlt; exact absurd h (not_le.mpr hlt)
  · rfl

theorem rabs_of_nonpos (q : Rat) (h : q ≤ 0) : FeatModel.FE.rabs q = -q := by
  unfold FeatModel.FE.rabs
  split
  · rfl
  · rename_i hnlt
    have : q = 0 := le_antisymm h (not_lt.mp hnlt)
    simp [this]

/-- point-dependent `jac_det = |det J|`: with a determinant that is non-negative in the cubature points the local entry is
the cubature sum of the polynomial `F · det J` -/
theorem localEntryVar_nonneg (r : Rule) (D F : Poly) (h : r.detNonneg D = true) :
    localEntryVar r D F = localEntry r 1 (mul F D) := by
  unfold localEntryVar localEntry
  apply quadF_congr
  intro x hx
  simp only [Rule.detNonneg, List.all_eq_true, decide_eq_true_eq] at h
  rw [rabs_of_nonneg _ (h x hx)]
  simp [evalAt, eval_mul]

theorem localEntryVar_nonpos (r : Rule) (D F : Poly) (h : r.detNonpos D = true) :
    localEntryVar r D F = localEntry r 1 (mul F (smul (-1) D)) := by
  unfold localEntryVar localEntry
  apply quadF_congr
  intro x hx
  simp only [Rule.detNonpos, List.all_eq_true, decide_eq_true_eq] at h
  rw [rabs_of_nonpos _ (h x hx)]
  simp [evalAt, eval_mul, eval_smul]

open FeatModel.TraceOrient in
/-- facet integral: with the orientation code of the stored facet row the facet local entry as coded is the cubature sum
of the polynomial `(P ∘ stored facet parametrisation) · D_f` over the facet's reference cell, hence its exact integral for a
rule that is exact on the monomials of that polynomial -/
theorem facetEntry_exact (r : Rule) (k : FeatModel.FE.Kind) (l : Nat) (π : List Nat) (c : Nat) (Df P : Poly)
    (hl : l < FeatModel.FE.numFaces k 3 2) (hπ : π ∈ syms k) (hcons : consistentAll k = true)
    (hc : orientCode k (FeatModel.FE.storedRow k 3 2 l π) (canonFace k l) = some c)
    (hdet : r.detNonneg Df = true) (simplex : Bool) (ms : List FeatModel.Poly.Mono)
    (hex : r.exactOn simplex 2 ms = true)
    (hF : monosIn (mul (substL (storedMap k (FeatModel.FE.storedRow k 3 2 l π)) P) Df) ms = true) :
    facetEntry r k l c Df P =
      some (cellInt simplex 2 1 (mul (substL (storedMap k (FeatModel.FE.storedRow k 3 2 l π)) P) Df)) := by
  simp only [consistentAll, List.all_eq_true, List.mem_range] at hcons
  have h1 := hcons l hl π hπ
  simp only [hc] at h1
  unfold facetEntry
  cases hm : facetMap k l c with
  | none => simp [hm] at h1
  | some ps =>
    simp only [hm] at h1
    simp only [Option.map_some, Option.some.injEq]
    rw [← local_exact r simplex 2 ms 1 _ hex hF, ← localEntryVar_nonneg r Df _ hdet]
    unfold localEntryVar
    apply quadF_congr
    intro s _
    rw [polysEq_sound ps _ h1 s, FeatModel.FE.evalAt_substL']

end C16L
