import FeatModel.Model.LocalFE
import FeatModel.Lemmas.C15Poly
import FeatModel.Lemmas.C16_identities
import Mathlib.Tactic.Ring
/-!
Helper lemmas for C16, part 8: a rule that is exact on a set of monomials integrates every polynomial built from these
monomials exactly (linearity of the cubature sum), on the reference cell and on an affine image of it.
-/
namespace C16L
open FeatModel.Poly FeatModel.LocalFE FeatModel.Asm

theorem quadF_add (r : Rule) (c : Rat) (f g : List Rat → Rat) :
    quadF r c (fun x => f x + g x) = quadF r c f + quadF r c g := by
  unfold quadF
  induction r.w.zip r.x with
  | nil => simp
  | cons q t ih => simp only [List.map_cons, List.sum_cons, ih]; ring

theorem quadF_smul (r : Rule) (c a : Rat) (f : List Rat → Rat) :
    quadF r c (fun x => a * f x) = a * quadF r c f := by
  unfold quadF
  induction r.w.zip r.x with
  | nil => simp
  | cons q t ih => simp only [List.map_cons, List.sum_cons, ih]; ring

theorem quadF_scale (r : Rule) (c : Rat) (f : List Rat → Rat) : quadF r c f = c * quadF r 1 f := by
  unfold quadF
  induction r.w.zip r.x with
  | nil => simp
  | cons q t ih => simp only [List.map_cons, List.sum_cons, ih]; ring

theorem quadF_zero (r : Rule) (c : Rat) : quadF r c (fun _ => 0) = 0 := by
  unfold quadF
  induction r.w.zip r.x with
  | nil => simp
  | cons q t ih => simp only [List.map_cons, List.sum_cons, ih]; ring

theorem localEntry_mono (r : Rule) (m : FeatModel.Poly.Mono) :
    localEntry r 1 [(1, m)] = quadF r 1 (fun x => monoEval (pt x) 0 m) := by
  unfold localEntry
  congr 1
  funext x
  simp [evalAt, eval]

/-- linearity: exact on the monomials of `F` ⇒ exact for `F` -/
theorem local_exact (r : Rule) (simplex : Bool) (d : Nat) (ms : List FeatModel.Poly.Mono) (detJ : Rat) (F : Poly)
    (hex : r.exactOn simplex d ms = true) (hF : monosIn F ms = true) :
    localEntry r detJ F = cellInt simplex d detJ F := by
  have key : localEntry r 1 F = polyInt simplex d F := by
    induction F with
    | nil => simp [localEntry, evalAt, eval, polyInt, quadF_zero]
    | cons t p ih =>
      simp only [monosIn, List.all_cons, Bool.and_eq_true] at hF
      have hp : monosIn p ms = true := hF.2
      have hm : t.2 ∈ ms := by simpa using hF.1
      have hmono : localEntry r 1 [(1, t.2)] = refInt simplex d t.2 := by
        simp only [Rule.exactOn, List.all_eq_true] at hex
        simpa using hex t.2 hm
      have : localEntry r 1 (t :: p) = t.1 * localEntry r 1 [(1, t.2)] + localEntry r 1 p := by
        rw [localEntry_mono]
        unfold localEntry
        rw [← quadF_smul, ← quadF_add]
        congr 1
      rw [this, hmono, ih hp]
      simp [polyInt]
  unfold cellInt
  rw [← key]
  exact quadF_scale r detJ _

/-- the scatter calls as coded equal the calls with the exact integrals -/
theorem asCoded_eq_exact (r : Rule) (simplex : Bool) (d : Nat) (ms : List FeatModel.Poly.Mono) (c : CellData)
    (hex : r.exactOn simplex d ms = true) (hF : ∀ i j, monosIn (c.F i j) ms = true) :
    c.asCoded r = c.exact simplex d := by
  unfold CellData.asCoded CellData.exact
  congr 1
  funext i j
  exact local_exact r simplex d ms c.detJ (c.F i j) hex (hF i j)

end C16L
