import FeatModel.Lemmas.C05Bytes
/-! helper lemmas for C05: the checkpoint framing (`_collect_checkpoint_data`, `_restore_checkpoint_data`,
`restore_object`, `load`) finds every record again under exactly its identifier -/
namespace FeatModel.Ser

def keys (l : List (Bytes × Bytes)) : List Bytes := l.map (·.1)

/-- every identifier length and data length fits into its `uint64` word -/
def RecWF (l : List (Bytes × Bytes)) : Prop := ∀ o ∈ l, o.1.length < 256 ^ 8 ∧ o.2.length < 256 ^ 8

/-- what `_restore_checkpoint_data` should compute: identifier ↦ offset of its data-length word -/
def cpIndexSpec : Nat → List (Bytes × Bytes) → List (Bytes × Nat)
  | _, [] => []
  | p, (k, v) :: rest => (k, p + 8 + k.length) :: cpIndexSpec (p + 8 + k.length + 8 + v.length) rest

/-- the part of `restore_object` after the map lookup -/
def restoreAt (buf : Bytes) (off : Nat) : Option Bytes :=
  let size := leNat ((buf.drop off).take 8)
  if off + 8 + size ≤ buf.length then some ((buf.drop (off + 8)).take size) else none

theorem cpRestore_eq (buf name : Bytes) :
    cpRestore buf name = match lookup name (cpIndex buf buf.length 0) with
      | none => none
      | some off => restoreAt buf off := rfl

theorem length_cpRecord (k v : Bytes) : (cpRecord k v).length = 8 + k.length + 8 + v.length := by
  simp [cpRecord, length_leBytes]
  omega

theorem drop_take_mid (pre mid post : Bytes) (off n : Nat) (h1 : pre.length = off) (h2 : mid.length = n) :
    ((pre ++ mid ++ post).drop off).take n = mid := by
  rw [List.append_assoc, List.drop_left' h1, List.take_left' h2]

theorem length_collect_ge : ∀ recs : List (Bytes × Bytes), recs.length ≤ (cpCollectSorted recs).length
  | [] => by simp [cpCollectSorted]
  | (k, v) :: rest => by
    have := length_collect_ge rest
    simp [cpCollectSorted, length_cpRecord]
    omega

/-- the parse loop of `_restore_checkpoint_data` recovers every identifier and offset -/
theorem cpIndex_collect : ∀ (recs : List (Bytes × Bytes)) (pre : Bytes) (fuel : Nat), recs.length ≤ fuel →
    RecWF recs → cpIndex (pre ++ cpCollectSorted recs) fuel pre.length = cpIndexSpec pre.length recs
  | [], pre, fuel, _, _ => by
    cases fuel with
    | zero => simp [cpIndex, cpIndexSpec]
    | succ f => simp [cpIndex, cpIndexSpec, cpCollectSorted]
  | (k, v) :: rest, pre, fuel, hf, hwf => by
    obtain ⟨hk, hv⟩ := hwf (k, v) (by simp)
    have hwf' : RecWF rest := fun o ho => hwf o (by simp [ho])
    cases fuel with
    | zero => simp at hf
    | succ f =>
      have hf' : rest.length ≤ f := by simp at hf; omega
      let T := cpCollectSorted rest
      have f1 : pre ++ cpCollectSorted ((k, v) :: rest)
          = pre ++ leBytes 8 k.length ++ (k ++ leBytes 8 v.length ++ v ++ T) := by
        simp [cpCollectSorted, cpRecord, T, List.append_assoc]
      have f2 : pre ++ cpCollectSorted ((k, v) :: rest)
          = (pre ++ leBytes 8 k.length) ++ k ++ (leBytes 8 v.length ++ v ++ T) := by
        simp [cpCollectSorted, cpRecord, T, List.append_assoc]
      have f3 : pre ++ cpCollectSorted ((k, v) :: rest)
          = (pre ++ leBytes 8 k.length ++ k) ++ leBytes 8 v.length ++ (v ++ T) := by
        simp [cpCollectSorted, cpRecord, T, List.append_assoc]
      have hlt : pre.length < (pre ++ cpCollectSorted ((k, v) :: rest)).length := by
        simp [cpCollectSorted, length_cpRecord]
        omega
      have hs : leNat (((pre ++ cpCollectSorted ((k, v) :: rest)).drop pre.length).take 8) = k.length := by
        rw [f1, drop_take_mid _ _ _ _ _ rfl (length_leBytes 8 _)]
        exact leNat_leBytes 8 _ hk
      have hn : ((pre ++ cpCollectSorted ((k, v) :: rest)).drop (pre.length + 8)).take k.length = k := by
        rw [f2, drop_take_mid _ _ _ _ _ (by simp [length_leBytes]) rfl]
      have hd : leNat (((pre ++ cpCollectSorted ((k, v) :: rest)).drop (pre.length + 8 + k.length)).take 8)
          = v.length := by
        rw [f3, drop_take_mid _ _ _ _ _ (by simp [length_leBytes]; omega) (length_leBytes 8 _)]
        exact leNat_leBytes 8 _ hv
      have ih := cpIndex_collect rest (pre ++ cpRecord k v) f hf' hwf'
      have hl : (pre ++ cpRecord k v).length = pre.length + 8 + k.length + 8 + v.length := by
        simp [length_cpRecord]
        omega
      have hb : pre ++ cpRecord k v ++ cpCollectSorted rest = pre ++ cpCollectSorted ((k, v) :: rest) := by
        simp [cpCollectSorted, List.append_assoc]
      rw [hl, hb] at ih
      simp only [cpIndex, hlt, if_true, hs, hn, hd, cpIndexSpec, ih]

/-- looking an identifier up in the index and cutting its record out of the buffer gives its data -/
theorem restore_spec : ∀ (recs : List (Bytes × Bytes)) (pre post : Bytes), (keys recs).Nodup → RecWF recs →
    ∀ k v, (k, v) ∈ recs → ∃ off, lookup k (cpIndexSpec pre.length recs) = some off ∧
      restoreAt (pre ++ cpCollectSorted recs ++ post) off = some v
  | [], _, _, _, _, _, _, h => by simp at h
  | (k0, v0) :: rest, pre, post, hnd, hwf, k, v, hmem => by
    obtain ⟨hk0, hv0⟩ := hwf (k0, v0) (by simp)
    have hwf' : RecWF rest := fun o ho => hwf o (by simp [ho])
    have hnd' : k0 ∉ keys rest ∧ (keys rest).Nodup := by
      simpa [keys, List.nodup_cons] using hnd
    let T := cpCollectSorted rest ++ post
    by_cases hkk : k = k0
    · -- the first record: by distinctness of identifiers it is the one asked for
      have hv : v = v0 := by
        rcases List.mem_cons.mp hmem with h | h
        · exact (Prod.mk.inj h).2
        · exact absurd (List.mem_map.mpr ⟨(k, v), h, rfl⟩) (hkk ▸ hnd'.1)
      subst hkk
      subst hv
      refine ⟨pre.length + 8 + k.length, by simp [cpIndexSpec, lookup], ?_⟩
      have g3 : pre ++ cpCollectSorted ((k, v) :: rest) ++ post
          = (pre ++ leBytes 8 k.length ++ k) ++ leBytes 8 v.length ++ (v ++ T) := by
        simp [cpCollectSorted, cpRecord, T, List.append_assoc]
      have g4 : pre ++ cpCollectSorted ((k, v) :: rest) ++ post
          = (pre ++ leBytes 8 k.length ++ k ++ leBytes 8 v.length) ++ v ++ T := by
        simp [cpCollectSorted, cpRecord, T, List.append_assoc]
      have hs : leNat (((pre ++ cpCollectSorted ((k, v) :: rest) ++ post).drop (pre.length + 8 + k.length)).take 8)
          = v.length := by
        rw [g3, drop_take_mid _ _ _ _ _ (by simp [length_leBytes]; omega) (length_leBytes 8 _)]
        exact leNat_leBytes 8 _ hv0
      have hd : ((pre ++ cpCollectSorted ((k, v) :: rest) ++ post).drop (pre.length + 8 + k.length + 8)).take v.length
          = v := by
        rw [g4, drop_take_mid _ _ _ _ _ (by simp [length_leBytes]; omega) rfl]
      have hlen : pre.length + 8 + k.length + 8 + v.length
          ≤ (pre ++ cpCollectSorted ((k, v) :: rest) ++ post).length := by
        simp [cpCollectSorted, length_cpRecord]
        omega
      simp only [restoreAt, hs, hd, hlen, if_true]
    · -- a later record: the first identifier differs, the lookup skips it
      have hmem' : (k, v) ∈ rest := by
        rcases List.mem_cons.mp hmem with h | h
        · exact absurd (Prod.mk.inj h).1 hkk
        · exact h
      obtain ⟨off, h1, h2⟩ := restore_spec rest (pre ++ cpRecord k0 v0) post hnd'.2 hwf' k v hmem'
      have hl : (pre ++ cpRecord k0 v0).length = pre.length + 8 + k0.length + 8 + v0.length := by
        simp [length_cpRecord]
        omega
      have hb : pre ++ cpRecord k0 v0 ++ cpCollectSorted rest ++ post
          = pre ++ cpCollectSorted ((k0, v0) :: rest) ++ post := by
        simp [cpCollectSorted, List.append_assoc]
      rw [hl] at h1
      rw [hb] at h2
      exact ⟨off, by simp [cpIndexSpec, lookup, hkk, h1], h2⟩

/-- restore from the sorted record list -/
theorem cpRestore_sorted (recs : List (Bytes × Bytes)) (hnd : (keys recs).Nodup) (hwf : RecWF recs)
    (k v : Bytes) (hmem : (k, v) ∈ recs) : cpRestore (cpCollectSorted recs) k = some v := by
  have hi := cpIndex_collect recs [] (cpCollectSorted recs).length (length_collect_ge recs) hwf
  obtain ⟨off, h1, h2⟩ := restore_spec recs [] [] hnd hwf k v hmem
  simp only [List.nil_append, List.append_nil, List.length_nil] at hi h1 h2
  rw [cpRestore_eq, hi, h1]
  exact h2

/-! ### the `std::map` keeps every registered object exactly once -/

theorem keys_cons (k v : Bytes) (l : List (Bytes × Bytes)) : keys ((k, v) :: l) = k :: keys l := rfl

theorem mapInsert_lt (k v k' v' : Bytes) (rest : List (Bytes × Bytes)) (h : bytesLt k k' = true) :
    mapInsert k v ((k', v') :: rest) = (k, v) :: (k', v') :: rest := by simp [mapInsert, h]

theorem mapInsert_eq (k v v' : Bytes) (rest : List (Bytes × Bytes)) (h : bytesLt k k = false) :
    mapInsert k v ((k, v') :: rest) = (k, v') :: rest := by simp [mapInsert, h]

theorem mapInsert_gt (k v k' v' : Bytes) (rest : List (Bytes × Bytes)) (h : bytesLt k k' = false) (h2 : k ≠ k') :
    mapInsert k v ((k', v') :: rest) = (k', v') :: mapInsert k v rest := by simp [mapInsert, h, h2]

theorem mem_keys_mapInsert (k v : Bytes) : ∀ (m : List (Bytes × Bytes)) (x : Bytes),
    x ∈ keys (mapInsert k v m) ↔ x = k ∨ x ∈ keys m
  | [], x => by simp [mapInsert, keys]
  | (k', v') :: rest, x => by
    have ih := mem_keys_mapInsert k v rest x
    cases h1 : bytesLt k k' with
    | true => rw [mapInsert_lt k v k' v' rest h1, keys_cons, List.mem_cons]
    | false =>
      by_cases h2 : k = k'
      · subst h2
        rw [mapInsert_eq k v v' rest h1, keys_cons, List.mem_cons]
        constructor
        · intro h; exact Or.inr h
        · rintro (h | h)
          · exact Or.inl h
          · exact h
      · rw [mapInsert_gt k v k' v' rest h1 h2, keys_cons, keys_cons, List.mem_cons, List.mem_cons, ih]
        constructor
        · rintro (h | h | h)
          · exact Or.inr (Or.inl h)
          · exact Or.inl h
          · exact Or.inr (Or.inr h)
        · rintro (h | h | h)
          · exact Or.inr (Or.inl h)
          · exact Or.inl h
          · exact Or.inr (Or.inr h)

theorem mem_mapInsert (k v : Bytes) : ∀ (m : List (Bytes × Bytes)), k ∉ keys m →
    ∀ o, o ∈ mapInsert k v m ↔ o = (k, v) ∨ o ∈ m
  | [], _, o => by simp [mapInsert]
  | (k', v') :: rest, hk, o => by
    have hk' : k ≠ k' ∧ k ∉ keys rest := by
      rw [keys_cons, List.mem_cons] at hk
      exact ⟨fun h => hk (Or.inl h), fun h => hk (Or.inr h)⟩
    have ih := mem_mapInsert k v rest hk'.2 o
    cases h1 : bytesLt k k' with
    | true => rw [mapInsert_lt k v k' v' rest h1, List.mem_cons]
    | false =>
      rw [mapInsert_gt k v k' v' rest h1 hk'.1, List.mem_cons, List.mem_cons, ih]
      constructor
      · rintro (h | h | h)
        · exact Or.inr (Or.inl h)
        · exact Or.inl h
        · exact Or.inr (Or.inr h)
      · rintro (h | h | h)
        · exact Or.inr (Or.inl h)
        · exact Or.inl h
        · exact Or.inr (Or.inr h)

theorem nodup_keys_mapInsert (k v : Bytes) : ∀ (m : List (Bytes × Bytes)), k ∉ keys m → (keys m).Nodup →
    (keys (mapInsert k v m)).Nodup
  | [], _, _ => by simp [mapInsert, keys]
  | (k', v') :: rest, hk, hnd => by
    have hk' : k ≠ k' ∧ k ∉ keys rest := by
      rw [keys_cons, List.mem_cons] at hk
      exact ⟨fun h => hk (Or.inl h), fun h => hk (Or.inr h)⟩
    have hnd' : k' ∉ keys rest ∧ (keys rest).Nodup := by
      rw [keys_cons, List.nodup_cons] at hnd
      exact hnd
    cases h1 : bytesLt k k' with
    | true =>
      rw [mapInsert_lt k v k' v' rest h1, keys_cons, List.nodup_cons]
      exact ⟨hk, hnd⟩
    | false =>
      rw [mapInsert_gt k v k' v' rest h1 hk'.1, keys_cons, List.nodup_cons]
      refine ⟨?_, nodup_keys_mapInsert k v rest hk'.2 hnd'.2⟩
      rw [mem_keys_mapInsert]
      rintro (h | h)
      · exact hk'.1 h.symm
      · exact hnd'.1 h

theorem foldl_mapInsert : ∀ (objs acc : List (Bytes × Bytes)), (keys acc ++ keys objs).Nodup →
    (∀ o, o ∈ objs.foldl (fun m kv => mapInsert kv.1 kv.2 m) acc ↔ o ∈ acc ∨ o ∈ objs) ∧
    (keys (objs.foldl (fun m kv => mapInsert kv.1 kv.2 m) acc)).Nodup
  | [], acc, h => by simpa [keys] using h
  | (k, v) :: rest, acc, h => by
    have h' := List.nodup_append.mp h
    have hkacc : k ∉ keys acc := fun hc => h'.2.2 k hc k (by simp [keys]) rfl
    have hrest : k ∉ keys rest ∧ (keys rest).Nodup := by
      have := h'.2.1
      simpa [keys, List.nodup_cons] using this
    have hnew : (keys (mapInsert k v acc) ++ keys rest).Nodup := by
      rw [List.nodup_append]
      refine ⟨nodup_keys_mapInsert k v acc hkacc h'.1, hrest.2, ?_⟩
      intro a ha b hb hab
      rw [mem_keys_mapInsert] at ha
      rcases ha with ha | ha
      · exact hrest.1 (ha ▸ hab ▸ hb)
      · exact h'.2.2 a ha b (by simp [keys] at hb ⊢; exact Or.inr hb) hab
    obtain ⟨ih1, ih2⟩ := foldl_mapInsert rest (mapInsert k v acc) hnew
    refine ⟨fun o => ?_, ih2⟩
    simp only [List.foldl_cons, ih1, mem_mapInsert k v acc hkacc, List.mem_cons]
    constructor
    · rintro ((h | h) | h) <;> simp [h]
    · rintro (h | h | h) <;> simp [h]

theorem mapOf_spec (objs : List (Bytes × Bytes)) (h : (keys objs).Nodup) :
    (∀ o, o ∈ mapOf objs ↔ o ∈ objs) ∧ (keys (mapOf objs)).Nodup := by
  have := foldl_mapInsert objs [] (by simpa [keys] using h)
  simpa [mapOf] using this

/-- `load(BinaryStream&)` after `save(BinaryStream&)` hands the collected buffer to the parser unchanged -/
theorem cpLoad_cpSave (objs : List (Bytes × Bytes)) (h : (cpCollect objs).length < 256 ^ 8) :
    cpLoad (cpSave objs) = cpCollect objs := by
  have h1 : (leBytes 8 (cpCollect objs).length ++ cpCollect objs).take 8 = leBytes 8 (cpCollect objs).length :=
    List.take_left' (length_leBytes 8 _)
  have h2 : (leBytes 8 (cpCollect objs).length ++ cpCollect objs).drop 8 = cpCollect objs :=
    List.drop_left' (length_leBytes 8 _)
  simp only [cpLoad, cpSave, h1, h2, leNat_leBytes 8 _ h, List.take_length, resize, Nat.sub_self,
    List.replicate_zero, List.append_nil]

/-! ### duplicate and missing identifiers are reported -/

theorem lookup_none (k : Bytes) : ∀ (recs : List (Bytes × Bytes)) (p : Nat), k ∉ keys recs →
    lookup k (cpIndexSpec p recs) = none
  | [], _, _ => rfl
  | (k0, v0) :: rest, p, h => by
    rw [keys_cons, List.mem_cons] at h
    have h1 : ¬ k = k0 := fun e => h (Or.inl e)
    simp only [cpIndexSpec, lookup, h1, if_false]
    exact lookup_none k rest _ (fun e => h (Or.inr e))

/-- an identifier that is not in the checkpoint is not found (`restore_object` asserts) -/
theorem cpRestore_missing (recs : List (Bytes × Bytes)) (hwf : RecWF recs) (k : Bytes) (hk : k ∉ keys recs) :
    cpRestore (cpCollectSorted recs) k = none := by
  have hi := cpIndex_collect recs [] (cpCollectSorted recs).length (length_collect_ge recs) hwf
  simp only [List.nil_append, List.length_nil] at hi
  rw [cpRestore_eq, hi, lookup_none k recs 0 hk]

theorem contains_keys (m : List (Bytes × Bytes)) (k : Bytes) : (m.map (·.1)).contains k = true ↔ k ∈ keys m := by
  rw [List.contains_iff_mem]
  rfl

/-- registering objects with pairwise distinct identifiers succeeds and yields the sorted map -/
theorem cpRegisterAll_distinct : ∀ (objs m : List (Bytes × Bytes)), (keys m ++ keys objs).Nodup →
    cpRegisterAll m objs = some (objs.foldl (fun m kv => mapInsert kv.1 kv.2 m) m)
  | [], _, _ => rfl
  | (k, v) :: rest, m, h => by
    have h' := List.nodup_append.mp h
    have hkm : k ∉ keys m := fun hc => h'.2.2 k hc k (by simp [keys]) rfl
    have hrest : k ∉ keys rest ∧ (keys rest).Nodup := by
      have := h'.2.1
      rw [keys_cons, List.nodup_cons] at this
      exact this
    have hnew : (keys (mapInsert k v m) ++ keys rest).Nodup := by
      rw [List.nodup_append]
      refine ⟨nodup_keys_mapInsert k v m hkm h'.1, hrest.2, ?_⟩
      intro a ha b hb hab
      rw [mem_keys_mapInsert] at ha
      rcases ha with ha | ha
      · exact hrest.1 (ha ▸ hab ▸ hb)
      · exact h'.2.2 a ha b (by rw [keys_cons]; exact List.mem_cons_of_mem _ hb) hab
    have hc : (m.map (·.1)).contains k = false := by
      cases hcc : (m.map (·.1)).contains k with
      | false => rfl
      | true => exact absurd ((contains_keys m k).mp hcc) hkm
    simp only [cpRegisterAll, cpRegister, hc, Bool.false_eq_true, if_false, List.foldl_cons]
    exact cpRegisterAll_distinct rest (mapInsert k v m) hnew

/-- a repeated identifier is rejected (the `XASSERTM` of `add_object`): never silently overwritten -/
theorem cpRegisterAll_duplicate : ∀ (objs m : List (Bytes × Bytes)), (keys m).Nodup →
    ¬ (keys m ++ keys objs).Nodup → cpRegisterAll m objs = none
  | [], m, hm, h => by
    exact absurd (by simpa [keys] using hm) h
  | (k, v) :: rest, m, hm, h => by
    by_cases hkm : k ∈ keys m
    · have hc : (m.map (·.1)).contains k = true := (contains_keys m k).mpr hkm
      simp only [cpRegisterAll, cpRegister, hc, if_true]
    · have hc : (m.map (·.1)).contains k = false := by
        cases hcc : (m.map (·.1)).contains k with
        | false => rfl
        | true => exact absurd ((contains_keys m k).mp hcc) hkm
      simp only [cpRegisterAll, cpRegister, hc, Bool.false_eq_true, if_false]
      apply cpRegisterAll_duplicate rest (mapInsert k v m) (nodup_keys_mapInsert k v m hkm hm)
      intro hn
      apply h
      have hn' := List.nodup_append.mp hn
      rw [List.nodup_append]
      refine ⟨hm, ?_, ?_⟩
      · rw [keys_cons, List.nodup_cons]
        refine ⟨fun hk => hn'.2.2 k ((mem_keys_mapInsert k v m k).mpr (Or.inl rfl)) k hk rfl, hn'.2.1⟩
      · intro a ha b hb hab
        rw [keys_cons] at hb
        rcases List.mem_cons.mp hb with hb | hb
        · exact hkm (hb ▸ hab ▸ ha)
        · exact hn'.2.2 a ((mem_keys_mapInsert k v m a).mpr (Or.inr ha)) b hb hab

/-! ### `DistFileIO::write_combined / read_combined`, one process -/

def dfHdr (s b : Bytes) : List Nat := [dfMagic, 40 + b.length + s.length, 1, s.length, b.length]

theorem dfWrite_eq (s b : Bytes) : dfWrite s b = wordsBytes 8 (dfHdr s b) ++ s ++ b := rfl

theorem length_dfHdr (s b : Bytes) : (dfHdr s b).length = 5 := rfl

theorem length_dfHdr_bytes (s b : Bytes) : (wordsBytes 8 (dfHdr s b)).length = 40 := by
  rw [length_wordsBytes, length_dfHdr]

theorem resize_dfWrite (s b : Bytes) : resize 40 (dfWrite s b) = wordsBytes 8 (dfHdr s b) := by
  rw [dfWrite_eq, List.append_assoc, resize, List.take_left' (length_dfHdr_bytes s b)]
  simp only [List.length_append, length_dfHdr_bytes]
  rw [show 40 - (40 + (s.length + b.length)) = 0 by omega]
  simp

theorem dfHdr_lt (s b : Bytes) (h : 40 + b.length + s.length < 256 ^ 8) : ∀ v ∈ dfHdr s b, v < 256 ^ 8 := by
  intro v hv
  simp only [dfHdr, List.mem_cons, List.not_mem_nil, or_false] at hv
  rcases hv with h1 | h1 | h1 | h1 | h1 <;> subst h1
  · decide
  all_goals omega

theorem read_dfHdr_aux (s b : Bytes) (hlt : ∀ v ∈ dfHdr s b, v < 256 ^ 8) :
    readWords ([] ++ wordsBytes 8 (dfHdr s b) ++ []) 8 0 (dfHdr s b).length = some (dfHdr s b) :=
  readWords_at 8 (dfHdr s b) [] [] 0 rfl hlt

theorem read_dfHdr (s b : Bytes) (hlt : ∀ v ∈ dfHdr s b, v < 256 ^ 8) :
    readWords (wordsBytes 8 (dfHdr s b)) 8 0 5 = some (dfHdr s b) := by
  have := read_dfHdr_aux s b hlt
  rw [List.nil_append, List.append_nil, length_dfHdr] at this
  exact this

theorem df_shared (s b : Bytes) : ((dfWrite s b).drop 40).take s.length = s := by
  rw [dfWrite_eq]
  exact drop_take_mid _ _ _ _ _ (length_dfHdr_bytes s b) rfl

theorem df_buffer (s b : Bytes) : ((dfWrite s b).drop (40 + s.length)).take b.length = b := by
  have : dfWrite s b = (wordsBytes 8 (dfHdr s b) ++ s) ++ b ++ [] := by rw [dfWrite_eq, List.append_nil]
  rw [this]
  exact drop_take_mid _ _ _ _ _ (by rw [List.length_append, length_dfHdr_bytes]) rfl

theorem resize_self (l : Bytes) : resize l.length l = l := by
  simp [resize]

theorem dfRead_dfWrite (s b s0 b0 : Bytes) (h : 40 + b.length + s.length < 256 ^ 8) :
    dfRead (dfWrite s b) s0 b0 = some (if s.length > 0 then s else s0, if b.length > 0 then b else b0) := by
  unfold dfRead
  rw [resize_dfWrite, read_dfHdr s b (dfHdr_lt s b h)]
  simp only [dfHdr, ne_eq, not_true_eq_false, or_self, if_false, df_shared, df_buffer, resize_self]

end FeatModel.Ser
