/-
C13, composite vectors: `cfreqs`, `cfrom1to0`, `csync1`, `cgdot` are the flat gate operations on the
flattened patches.
-/
import FeatModel.Lemmas.C13CompGate
open FeatModel.Dist

set_option linter.unusedSectionVars false

namespace FeatModel.C13L

variable {α : Type} [Field α]

theorem map_flat (f : α → α) (v : CVec α) : (v.map f).flat = v.flat.map f := by
  induction v with
  | leaf bs p => rfl
  | pair a b iha ihb => simp [CVec.map, CVec.flat, iha, ihb]

theorem map_sameShape (f : α → α) (v : CVec α) : (v.map f).sameShape v := by
  induction v with
  | leaf bs p => exact ⟨rfl, by simp⟩
  | pair a b iha ihb => exact ⟨iha, ihb⟩

theorem zipWith_flat (f : α → α → α) {v w : CVec α} (h : v.sameShape w) :
    (CVec.zipWith f v w).sameShape v ∧ (CVec.zipWith f v w).flat = List.zipWith f v.flat w.flat := by
  induction v generalizing w with
  | leaf bs p =>
    cases w with
    | leaf bs' q => exact ⟨⟨rfl, by simp [h.2]⟩, rfl⟩
    | pair c d => exact h.elim
  | pair a b iha ihb =>
    cases w with
    | leaf bs' q => exact h.elim
    | pair c d =>
      obtain ⟨a1, a2⟩ := iha h.1
      obtain ⟨b1, b2⟩ := ihb h.2
      refine ⟨⟨a1, b1⟩, ?_⟩
      simp only [CVec.zipWith, CVec.flat]
      rw [a2, b2, List.zipWith_append (sameShape_flat_length h.1)]

theorem cfreqs_flat (p : CPatch α) (hwf : ∀ nb ∈ p.nbrs, nb.2.wf p.tmpl = true) :
    (cfreqs p).sameShape p.tmpl ∧ (cfreqs p).flat = freqs p.flatten := by
  have key := foldl_flat p.nbrs
    (fun nb f => cscatter nb.2 f (List.replicate (nb.2.bufSize f) 1) 1 0)
    (fun nb l => scatterAxpy l (nb.2.flatIdx p.tmpl 0) (List.replicate (nb.2.flatIdx p.tmpl 0).length 1) 1)
    p.tmpl ?_ (p.tmpl.map fun _ => 1) (map_sameShape _ _)
  · unfold cfreqs freqs counts
    refine ⟨sameShape_trans (map_sameShape _ _) key.1, ?_⟩
    simp only []
    rw [map_flat, key.2, map_flat, List.map_const', ← podSize_eq_flat_length]
    simp only [CPatch.flatten, List.foldl_map]
  · intro nb hnb t ht
    refine ⟨sameShape_trans (cscatter_sameShape _ _ _ _ _) ht, ?_⟩
    show (cscatter _ _ _ _ _).flat = _
    rw [cscatter_flat _ _ (by rw [sameShape_wf _ ht]; exact hwf nb hnb), List.drop_zero, sameShape_flatIdx _ ht,
      sameShape_bufSize _ ht, flatIdx_length _ _ (hwf nb hnb)]

theorem flatten_isEmpty (p : CPatch α) : p.flatten.nbrs.isEmpty = p.nbrs.isEmpty := by
  simp [CPatch.flatten]

theorem cfrom1to0_flat (p : CPatch α) (hwf : ∀ nb ∈ p.nbrs, nb.2.wf p.tmpl = true) (v : CVec α)
    (hv : v.sameShape p.tmpl) :
    (cfrom1to0 p v).sameShape p.tmpl ∧ (cfrom1to0 p v).flat = from1to0 p.flatten v.flat := by
  unfold cfrom1to0 from1to0
  rw [flatten_isEmpty]
  by_cases he : p.nbrs.isEmpty = true
  · rw [if_pos he, if_pos he]; exact ⟨hv, rfl⟩
  · rw [if_neg he, if_neg he]
    obtain ⟨c1, c2⟩ := cfreqs_flat p hwf
    obtain ⟨z1, z2⟩ := zipWith_flat (fun a b => a * b) (sameShape_trans hv (sameShape_symm c1))
    exact ⟨sameShape_trans z1 hv, by rw [z2, c2]; rfl⟩

theorem cgdotLocal_flat (p : CPatch α) (hwf : ∀ nb ∈ p.nbrs, nb.2.wf p.tmpl = true) (x y : CVec α) :
    cgdotLocal p x y = gdotLocal p.flatten x.flat y.flat := by
  unfold cgdotLocal gdotLocal
  rw [flatten_isEmpty, (cfreqs_flat p hwf).2]

theorem cgdot_flat (ps : List (CPatch α))
    (hwf : ∀ s, s < ps.length → ∀ nb ∈ (ps.getD s default).nbrs, nb.2.wf (ps.getD s default).tmpl = true)
    (xs ys : List (CVec α)) :
    cgdot ps xs ys = gdot (ps.map CPatch.flatten) (xs.map CVec.flat) (ys.map CVec.flat) := by
  unfold cgdot gdot
  rw [List.length_map]
  congr 1
  apply List.map_congr_left
  intro r hr
  rw [getD_map_flatten, getD_map_flat, getD_map_flat, cgdotLocal_flat _ (hwf r (List.mem_range.1 hr))]

theorem csync1_flat (ps : List (CPatch α)) (vs : List (CVec α)) (hf : CFits ps vs) (ords : List (List Nat))
    (r : Nat) (hr : r < ps.length) :
    ((csync1 ps ords vs).getD r default).sameShape (ps.getD r default).tmpl ∧
    ((csync1 ps ords vs).getD r default).flat
      = (sync1 (ps.map CPatch.flatten) ords (vs.map CVec.flat)).getD r [] := by
  unfold csync1 sync1 csync0 sync0
  rw [List.length_map, getD_map_range _ _ _ _ hr, getD_map_range _ _ _ _ hr]
  have hf' : CFits ps ((List.range ps.length).map fun r => cfrom1to0 (ps.getD r default) (vs.getD r default)) := by
    refine ⟨?_, hf.wf⟩
    intro s hs
    rw [getD_map_range _ _ _ _ hs]
    exact (cfrom1to0_flat _ (hf.wf s hs) _ (hf.shape s hs)).1
  obtain ⟨h1, h2⟩ := csync0Patch_flat ps _ hf' r hr (ords.getD r [])
  refine ⟨h1, ?_⟩
  rw [h2, List.map_map]
  congr 1
  apply List.map_congr_left
  intro s hs
  have hs' := List.mem_range.1 hs
  show (cfrom1to0 _ _).flat = _
  rw [(cfrom1to0_flat _ (hf.wf s hs') _ (hf.shape s hs')).2, getD_map_flatten, getD_map_flat]

end FeatModel.C13L
