import FeatModel.Model.Serialize
/-! helper lemmas for C05: little-endian words, positional reads and writes on byte lists -/
namespace FeatModel.Ser

theorem length_leBytes : ∀ (w v : Nat), (leBytes w v).length = w
  | 0, _ => rfl
  | w + 1, v => by simp [leBytes, length_leBytes w]

theorem leNat_leBytes : ∀ (w v : Nat), v < 256 ^ w → leNat (leBytes w v) = v
  | 0, v, h => by simp at h; simp [leBytes, leNat, h]
  | w + 1, v, h => by
    have h' : v / 256 < 256 ^ w := by
      apply Nat.div_lt_of_lt_mul
      rw [Nat.pow_succ, Nat.mul_comm] at h
      exact h
    simp only [leBytes, leNat, leNat_leBytes w (v / 256) h']
    have : (UInt8.ofNat (v % 256)).toNat = v % 256 := by
      simp [UInt8.toNat_ofNat']
    rw [this]
    omega

theorem length_wordsBytes (w : Nat) : ∀ vs : List Nat, (wordsBytes w vs).length = w * vs.length
  | [] => by simp [wordsBytes]
  | v :: vs => by
    simp [wordsBytes, length_leBytes, length_wordsBytes w vs, Nat.mul_add]
    omega

theorem wordsBytes_append (w : Nat) : ∀ a b : List Nat, wordsBytes w (a ++ b) = wordsBytes w a ++ wordsBytes w b
  | [], b => by simp [wordsBytes]
  | v :: a, b => by simp [wordsBytes, wordsBytes_append w a b]

/-- reading back a block of words that sits at `off = |pre|` -/
theorem readWords_at (w : Nat) : ∀ (vs : List Nat) (pre post : Bytes) (off : Nat), pre.length = off →
    (∀ v ∈ vs, v < 256 ^ w) → readWords (pre ++ wordsBytes w vs ++ post) w off vs.length = some vs
  | [], _, _, _, _, _ => by simp [readWords]
  | v :: vs, pre, post, off, hoff, hlt => by
    have hv : v < 256 ^ w := hlt v (by simp)
    have hvs : ∀ x ∈ vs, x < 256 ^ w := fun x hx => hlt x (by simp [hx])
    have ih := readWords_at w vs (pre ++ leBytes w v) post (off + w)
      (by simp [length_leBytes, hoff]) hvs
    have hbuf : pre ++ wordsBytes w (v :: vs) ++ post = pre ++ leBytes w v ++ wordsBytes w vs ++ post := by
      simp [wordsBytes, List.append_assoc]
    have hlen : off + w ≤ (pre ++ wordsBytes w (v :: vs) ++ post).length := by
      simp [wordsBytes, length_leBytes, hoff]
    have hword : leNat (((pre ++ wordsBytes w (v :: vs) ++ post).drop off).take w) = v := by
      have : pre ++ wordsBytes w (v :: vs) ++ post = pre ++ (leBytes w v ++ (wordsBytes w vs ++ post)) := by
        simp [wordsBytes, List.append_assoc]
      rw [this, List.drop_left' hoff, List.take_left' (length_leBytes w v)]
      exact leNat_leBytes w v hv
    simp only [List.length_cons, readWords, hlen, if_true, hword]
    rw [hbuf, ih]

/-- reading the middle part `ys` of a block of words -/
theorem readWords_mid (w : Nat) (pre : Bytes) (xs ys zs : List Nat) (post : Bytes) (off : Nat)
    (hoff : off = pre.length + w * xs.length) (hlt : ∀ v ∈ ys, v < 256 ^ w) :
    readWords (pre ++ wordsBytes w (xs ++ ys ++ zs) ++ post) w off ys.length = some ys := by
  have h := readWords_at w ys (pre ++ wordsBytes w xs) (wordsBytes w zs ++ post) off
    (by simp [length_wordsBytes, hoff]) hlt
  have e : pre ++ wordsBytes w (xs ++ ys ++ zs) ++ post
      = pre ++ wordsBytes w xs ++ wordsBytes w ys ++ (wordsBytes w zs ++ post) := by
    simp [wordsBytes_append, List.append_assoc]
  rw [e]
  exact h

theorem readArrays_at (w : Nat) : ∀ (arrs : List (List Nat)) (pre post : Bytes) (g : Nat), pre.length = g * w →
    (∀ a ∈ arrs, ∀ v ∈ a, v < 256 ^ w) →
    readArrays (pre ++ wordsBytes w arrs.flatten ++ post) w g (sizes arrs) = some (arrs, g + arrs.flatten.length)
  | [], _, _, _, _, _ => by simp [readArrays, sizes]
  | a :: arrs, pre, post, g, hg, hlt => by
    have ha : ∀ v ∈ a, v < 256 ^ w := hlt a (by simp)
    have harrs : ∀ b ∈ arrs, ∀ v ∈ b, v < 256 ^ w := fun b hb => hlt b (by simp [hb])
    have h1 := readWords_at w a pre (wordsBytes w arrs.flatten ++ post) (g * w) hg ha
    have ih := readArrays_at w arrs (pre ++ wordsBytes w a) post (g + a.length)
      (by simp [length_wordsBytes, hg, Nat.mul_add, Nat.mul_comm]) harrs
    have e : pre ++ wordsBytes w (a :: arrs).flatten ++ post
        = pre ++ wordsBytes w a ++ (wordsBytes w arrs.flatten ++ post) := by
      simp [wordsBytes_append, List.append_assoc]
    have e2 : pre ++ wordsBytes w a ++ (wordsBytes w arrs.flatten ++ post)
        = pre ++ wordsBytes w a ++ wordsBytes w arrs.flatten ++ post := by
      simp [List.append_assoc]
    simp only [sizes, List.map_cons, readArrays]
    rw [e, h1]
    simp only []
    rw [e2]
    have ih' := ih
    simp only [sizes] at ih'
    rw [ih']
    simp [Nat.add_assoc]

/-- reading the arrays `arrs` that follow the words `xs` in one block -/
theorem readArrays_mid (w : Nat) (pre : Bytes) (xs : List Nat) (arrs : List (List Nat)) (post : Bytes) (g : Nat)
    (hg : g * w = pre.length + w * xs.length) (hlt : ∀ a ∈ arrs, ∀ v ∈ a, v < 256 ^ w) :
    readArrays (pre ++ wordsBytes w (xs ++ arrs.flatten) ++ post) w g (sizes arrs)
      = some (arrs, g + arrs.flatten.length) := by
  have h := readArrays_at w arrs (pre ++ wordsBytes w xs) post g (by simp [length_wordsBytes, hg]) hlt
  have e : pre ++ wordsBytes w (xs ++ arrs.flatten) ++ post
      = pre ++ wordsBytes w xs ++ wordsBytes w arrs.flatten ++ post := by
    simp [wordsBytes_append, List.append_assoc]
  rw [e]
  exact h

/-- a write behind the data written so far into a zero-initialised buffer -/
theorem writeAt_zeros (A : Bytes) (k off : Nat) (bs : Bytes) (h1 : A.length ≤ off)
    (h2 : off + bs.length ≤ A.length + k) :
    writeAt (A ++ List.replicate k 0) off bs
      = some (A ++ List.replicate (off - A.length) 0 ++ bs ++ List.replicate (A.length + k - off - bs.length) 0) := by
  have hc : off + bs.length ≤ (A ++ List.replicate k (0 : UInt8)).length := by simp; omega
  have ht : (A ++ List.replicate k (0 : UInt8)).take off = A ++ List.replicate (off - A.length) 0 := by
    rw [List.take_append, List.take_of_length_le h1, List.take_replicate]
    congr 2
    omega
  have hd : (A ++ List.replicate k (0 : UInt8)).drop (off + bs.length)
      = List.replicate (A.length + k - off - bs.length) 0 := by
    rw [List.drop_append, List.drop_eq_nil_of_le (by omega), List.drop_replicate]
    simp
    omega
  simp only [writeAt, hc, if_true, ht, hd]

theorem resize_zeros (X : Bytes) (m n : Nat) (h : X.length ≤ n) :
    resize n (X ++ List.replicate m 0) = X ++ List.replicate (n - X.length) 0 := by
  simp only [resize]
  rw [List.take_append, List.take_of_length_le h, List.take_replicate, List.append_assoc,
    List.replicate_append_replicate]
  congr 2
  simp
  omega

end FeatModel.Ser
