import FeatModel.Lemmas.C08IluCopy
import FeatModel.Lemmas.C08IluFactorAux
/-! C08: the index-faithful `copy_data_csr` (moving pointer `ra` through row `i` of `A`) equals the find-based
formulation `copyDataCsrS` whenever both patterns are sorted and the factor pattern contains the matrix pattern. -/
namespace FeatModel.Solver
open FeatModel.LA

variable {α : Type} [Zero α]

/-! ### small helpers (only `Zero α`) -/

theorem getD_ofFn0 {n : Nat} (f : Fin n → α) (j : Nat) (hj : j < n) : (Array.ofFn f).getD j 0 = f ⟨j, hj⟩ := by
  simp [Array.getD, hj]

theorem array_ext_getD0 (a b : Array α) (hs : a.size = b.size)
    (h : ∀ i, i < a.size → a.getD i 0 = b.getD i 0) : a = b := by
  apply Array.ext hs
  intro i h1 h2
  have := h i h1
  simpa [Array.getD, h1, h2] using this

omit [Zero α] in
theorem IluNum.ext3 (a b : IluNum α) (h1 : a.dataL = b.dataL) (h2 : a.dataU = b.dataU) (h3 : a.dataD = b.dataD) :
    a = b := by
  cases a; cases b; simp_all

theorem foldl_range_induct {β : Type} (P : Nat → β → Prop) (f : β → Nat → β) (n : Nat) (x : β)
    (h0 : P 0 x) (hstep : ∀ m y, m < n → P m y → P (m + 1) (f y m)) : P n ((List.range n).foldl f x) := by
  have := foldRange_induct P f 0 n x (Nat.zero_le _) h0 (fun m y _ hm => hstep m y hm)
  simpa [foldRange, List.range_eq_range'] using this

/-- lookup of a column that is stored at position `r` of a strictly sorted row -/
theorem csrLookup_of_pos (A : Csr α) (i r : Nat) (h1 : A.rowBegin i ≤ r) (h2 : r < A.rowEnd i)
    (hs : ∀ k, A.rowBegin i ≤ k → k + 1 < A.rowEnd i → A.colInd.getD k 0 < A.colInd.getD (k + 1) 0) :
    csrLookup A i (A.colInd.getD r 0) = A.val.getD r 0 := by
  unfold csrLookup
  split
  · rename_i k hf
    obtain ⟨hk1, hk2, hk3⟩ := findPos_some _ _ _ _ _ hf
    have := idx_inj A.colInd _ _ hs hk1 hk2 h1 h2 hk3
    subst this
    rfl
  · rename_i hf
    exact absurd rfl (findPos_none _ _ _ _ hf r h1 h2)

/-- lookup of a column that is not stored in the row -/
theorem csrLookup_of_none (A : Csr α) (i c : Nat)
    (h : ∀ k, A.rowBegin i ≤ k → k < A.rowEnd i → A.colInd.getD k 0 ≠ c) : csrLookup A i c = 0 := by
  unfold csrLookup
  split
  · rename_i k hf
    obtain ⟨hk1, hk2, hk3⟩ := findPos_some _ _ _ _ _ hf
    exact absurd hk3 (h k hk1 hk2)
  · rfl

/-! ### the merge walk -/

/-- invariant of the merge walk after the factor positions `[lb, m)` -/
structure MergeInv (ci : Array Nat) (col : Nat → Nat) (look : Nat → α) (lb a0 a1 : Nat) (d : Array α)
    (m : Nat) (st : Array α × Nat) : Prop where
  lo : a0 ≤ st.2
  hi : st.2 ≤ a1
  sz : st.1.size = d.size
  below : st.2 < a1 → ∀ q, lb ≤ q → q < m → ci.getD q 0 < col st.2
  used : ∀ r, a0 ≤ r → r < st.2 → ∃ q, lb ≤ q ∧ q < m ∧ ci.getD q 0 = col r
  vals : ∀ q, lb ≤ q → q < m → st.1.getD q 0 = look (ci.getD q 0)
  frame : ∀ q, ¬ (lb ≤ q ∧ q < m) → st.1.getD q 0 = d.getD q 0

/-- the abstract merge walk: the factor row `ci[lb, le)` and the matrix row `col[a0, a1)` are strictly increasing,
    the matrix row is contained in the factor row; every factor position receives the looked-up value and the
    pointer ends at `a1` -/
theorem merge_walk (ci : Array Nat) (col : Nat → Nat) (val : Nat → α) (look : Nat → α)
    (f : Array α × Nat → Nat → Array α × Nat) (lb le a0 a1 : Nat) (d : Array α)
    (hlble : lb ≤ le) (ha : a0 ≤ a1) (hled : le ≤ d.size)
    (hci : ∀ q q', lb ≤ q → q < q' → q' < le → ci.getD q 0 < ci.getD q' 0)
    (hcol : ∀ r r', a0 ≤ r → r < r' → r' < a1 → col r < col r')
    (hcov : ∀ r, a0 ≤ r → r < a1 → ∃ q, lb ≤ q ∧ q < le ∧ ci.getD q 0 = col r)
    (hl1 : ∀ r, a0 ≤ r → r < a1 → look (col r) = val r)
    (hl0 : ∀ q, lb ≤ q → q < le → (∀ r, a0 ≤ r → r < a1 → col r ≠ ci.getD q 0) → look (ci.getD q 0) = 0)
    (hf : ∀ y ra j, lb ≤ j → j < le → a0 ≤ ra → ra ≤ a1 →
      f (y, ra) j = if ra < a1 ∧ ci.getD j 0 = col ra then (y.setIfInBounds j (val ra), ra + 1)
        else (y.setIfInBounds j 0, ra)) :
    (foldRange lb le f (d, a0)).2 = a1 ∧ (foldRange lb le f (d, a0)).1.size = d.size ∧
      (∀ q, lb ≤ q → q < le → (foldRange lb le f (d, a0)).1.getD q 0 = look (ci.getD q 0)) ∧
      (∀ q, ¬ (lb ≤ q ∧ q < le) → (foldRange lb le f (d, a0)).1.getD q 0 = d.getD q 0) := by
  have key : MergeInv ci col look lb a0 a1 d le (foldRange lb le f (d, a0)) := by
    apply foldRange_induct (fun m st => MergeInv ci col look lb a0 a1 d m st) f lb le (d, a0) hlble
    · refine ⟨Nat.le_refl _, ha, rfl, ?_, ?_, ?_, fun _ _ => rfl⟩
      · intro _ q h1 h2; omega
      · intro r h1 h2; exact absurd h2 (by show ¬ r < a0; omega)
      · intro q h1 h2; omega
    · rintro m ⟨y, ra⟩ hm1 hm2 ⟨hlo, hhi, hsz, hbelow, hused, hvals, hframe⟩
      simp only at hlo hhi hsz hbelow hused hvals hframe
      have hms : m < y.size := by omega
      rw [hf y ra m hm1 hm2 hlo hhi]
      by_cases hc : ra < a1 ∧ ci.getD m 0 = col ra
      · rw [if_pos hc]
        obtain ⟨hra, hcm⟩ := hc
        refine ⟨by show a0 ≤ ra + 1; omega, by show ra + 1 ≤ a1; omega,
          by show (y.setIfInBounds m (val ra)).size = d.size; rw [Array.size_setIfInBounds]; exact hsz,
          ?_, ?_, ?_, ?_⟩
        · intro hra1 q hq1 hq2
          show ci.getD q 0 < col (ra + 1)
          have h1 := hcol ra (ra + 1) hlo (by omega) hra1
          rcases Nat.lt_or_ge q m with hlt | hge
          · have := hci q m hq1 hlt hm2; omega
          · have : q = m := by omega
            subst this; omega
        · intro r hr1 hr2
          have hr2' : r < ra + 1 := hr2
          rcases Nat.lt_or_ge r ra with hlt | hge
          · obtain ⟨q, hq1, hq2, hq3⟩ := hused r hr1 hlt
            exact ⟨q, hq1, by omega, hq3⟩
          · have : r = ra := by omega
            subst this
            exact ⟨m, hm1, by omega, hcm⟩
        · intro q hq1 hq2
          show (y.setIfInBounds m (val ra)).getD q 0 = _
          rw [getD_setIfInBounds]
          by_cases hqm : m = q
          · subst hqm
            rw [if_pos ⟨rfl, hms⟩, hcm, hl1 ra hlo hra]
          · rw [if_neg (fun h => hqm h.1)]
            exact hvals q hq1 (by omega)
        · intro q hq
          show (y.setIfInBounds m (val ra)).getD q 0 = _
          rw [getD_setIfInBounds, if_neg (fun h => hq ⟨by omega, by omega⟩)]
          exact hframe q (fun h => hq ⟨h.1, by omega⟩)
      · rw [if_neg hc]
        -- the current factor column lies strictly before the current matrix column
        have hlt : ra < a1 → ci.getD m 0 < col ra := by
          intro hra
          rcases Nat.lt_trichotomy (ci.getD m 0) (col ra) with h | h | h
          · exact h
          · exact absurd ⟨hra, h⟩ hc
          · exfalso
            obtain ⟨q0, hq1, hq2, hq3⟩ := hcov ra hlo hra
            rcases Nat.lt_trichotomy q0 m with h' | h' | h'
            · have := hbelow hra q0 hq1 h'; omega
            · subst h'; omega
            · have := hci m q0 hm1 h' hq2; omega
        refine ⟨hlo, hhi,
          by show (y.setIfInBounds m 0).size = d.size; rw [Array.size_setIfInBounds]; exact hsz,
          ?_, ?_, ?_, ?_⟩
        · intro hra q hq1 hq2
          show ci.getD q 0 < col ra
          have hra' : ra < a1 := hra
          rcases Nat.lt_or_ge q m with h | h
          · exact hbelow hra' q hq1 h
          · have : q = m := by omega
            subst this; exact hlt hra'
        · intro r hr1 hr2
          obtain ⟨q, hq1, hq2, hq3⟩ := hused r hr1 hr2
          exact ⟨q, hq1, by omega, hq3⟩
        · intro q hq1 hq2
          show (y.setIfInBounds m 0).getD q 0 = _
          rw [getD_setIfInBounds]
          by_cases hqm : m = q
          · subst hqm
            rw [if_pos ⟨rfl, hms⟩]
            symm
            apply hl0 m hm1 hm2
            intro r hr1 hr2 hcr
            rcases Nat.lt_or_ge r ra with h | h
            · obtain ⟨q, hq1', hq2', hq3'⟩ := hused r hr1 h
              have := hci q m hq1' hq2' hm2
              omega
            · have hra : ra < a1 := by omega
              have h1 := hlt hra
              rcases Nat.lt_or_ge ra r with h' | h'
              · have := hcol ra r hlo h' hr2; omega
              · have : r = ra := by omega
                subst this; omega
          · rw [if_neg (fun h => hqm h.1)]
            exact hvals q hq1 (by omega)
        · intro q hq
          show (y.setIfInBounds m 0).getD q 0 = _
          rw [getD_setIfInBounds, if_neg (fun h => hq ⟨by omega, by omega⟩)]
          exact hframe q (fun h => hq ⟨h.1, by omega⟩)
  refine ⟨?_, key.sz, key.vals, key.frame⟩
  -- the pointer has reached the end
  rcases Nat.lt_or_ge (foldRange lb le f (d, a0)).2 a1 with h | h
  · exfalso
    obtain ⟨q0, hq1, hq2, hq3⟩ := hcov _ key.lo h
    have := key.below h q0 hq1 hq2
    omega
  · have := key.hi
    omega

/-! ### one row -/

theorem copyRow_spec {s : IluSym} (w : s.WFP) {A : Csr α} (hA : SortedDiag A) (hn : s.n = A.rows)
    (hcov : s.covers A = true) {i : Nat} (hi : i < s.n) (d : IluNum α) (hd : d.Sz s) :
    (copyRow s A d i).Sz s ∧
    (∀ q, (copyRow s A d i).dataL.getD q 0 =
        if s.inL i q then csrLookup A i (s.ciL.getD q 0) else d.dataL.getD q 0) ∧
    (∀ q, (copyRow s A d i).dataU.getD q 0 =
        if s.inU i q then csrLookup A i (s.ciU.getD q 0) else d.dataU.getD q 0) ∧
    (∀ r, (copyRow s A d i).dataD.getD r 0 = if r = i then csrLookup A i i else d.dataD.getD r 0) := by
  have hiA : i < A.rows := by omega
  obtain ⟨pd, hp1, hp2, hp3, hlow, hupp⟩ := hA.pos hiA
  have hsm := hA.strictMono hiA
  have hgc : ∀ k, k < A.rowEnd i → A.colInd.getD k A.cols = A.colInd.getD k 0 := fun k hk => hA.getD_cols hiA hk
  have hp1' : A.rowPtr.getD i 0 ≤ pd := hp1
  have hp2' : pd < A.rowPtr.getD (i + 1) 0 := hp2
  simp only [IluSym.covers, List.all_eq_true, List.mem_range, List.mem_range'_1, Bool.or_eq_true, beq_iff_eq,
    Option.isSome_iff_exists] at hcov
  have hcv : ∀ k, A.rowBegin i ≤ k → k < A.rowEnd i →
      (A.colInd.getD k 0 = i ∨ ∃ p, findPos s.ciL (s.rpL.getD i 0) (s.rpL.getD (i + 1) 0) (A.colInd.getD k 0) = some p)
        ∨ ∃ p, findPos s.ciU (s.rpU.getD i 0) (s.rpU.getD (i + 1) 0) (A.colInd.getD k 0) = some p := by
    intro k hk1 hk2
    exact hcov i hi k ⟨hk1, by omega⟩
  obtain ⟨hsl, hsu, hsd⟩ := hd
  -- the `L` part
  obtain ⟨hL1, hL2, hL3, hL4⟩ := merge_walk s.ciL (fun r => A.colInd.getD r A.cols) (fun r => A.val.getD r 0)
    (csrLookup A i) (copyL s A) (s.rpL.getD i 0) (s.rpL.getD (i + 1) 0) (A.rowPtr.getD i 0) pd d.dataL
    (w.monoL i hi) hp1' (by have := w.endL_le hi; omega)
    (fun q q' h1 h2 h3 => w.monoInL hi h1 h2 h3)
    (by
      intro r r' h1 h2 h3
      show A.colInd.getD r A.cols < A.colInd.getD r' A.cols
      rw [hgc r (by omega), hgc r' (by omega)]
      exact hsm r' r h1 h2 (by omega))
    (by
      intro r h1 h2
      show ∃ q, _ ∧ _ ∧ s.ciL.getD q 0 = A.colInd.getD r A.cols
      rw [hgc r (by omega)]
      have hc := hlow r h1 h2
      rcases hcv r h1 (by omega) with (h | ⟨p, hp⟩) | ⟨p, hp⟩
      · omega
      · exact ⟨p, findPos_some _ _ _ _ _ hp⟩
      · obtain ⟨q1, q2, q3⟩ := findPos_some _ _ _ _ _ hp
        have := w.uppU i hi p q1 q2
        omega)
    (by
      intro r h1 h2
      show csrLookup A i (A.colInd.getD r A.cols) = A.val.getD r 0
      rw [hgc r (by omega)]
      exact csrLookup_of_pos A i r h1 (by omega) (hA.sorted i hiA))
    (by
      intro q h1 h2 hno
      apply csrLookup_of_none
      intro k hk1 hk2
      have hq := w.lowL i hi q h1 h2
      rcases Nat.lt_trichotomy k pd with h | h | h
      · have := hno k hk1 h
        rw [hgc k hk2] at this
        exact this
      · subst h; omega
      · have := hupp k h hk2; omega)
    (by
      intro y ra j hj1 hj2 hr1 hr2
      have hlt := w.lowL i hi j hj1 hj2
      by_cases hc : ra < pd ∧ s.ciL.getD j 0 = A.colInd.getD ra A.cols
      · rw [if_pos hc]
        have hb : (s.ciL.getD j 0 == A.colInd.getD ra A.cols) = true := beq_iff_eq.mpr hc.2
        show (if (s.ciL.getD j 0 == A.colInd.getD ra A.cols) = true then
          (y.setIfInBounds j (A.val.getD ra 0), ra + 1) else (y.setIfInBounds j 0, ra)) = _
        rw [if_pos hb]
      · rw [if_neg hc]
        have hne : ¬ (s.ciL.getD j 0 = A.colInd.getD ra A.cols) := by
          intro he
          rcases Nat.lt_or_ge ra pd with h | h
          · exact hc ⟨h, he⟩
          · have : ra = pd := by omega
            subst this
            rw [hgc _ hp2, hp3] at he
            omega
        have hb : ¬ (s.ciL.getD j 0 == A.colInd.getD ra A.cols) = true := fun h => hne (beq_iff_eq.mp h)
        show (if (s.ciL.getD j 0 == A.colInd.getD ra A.cols) = true then
          (y.setIfInBounds j (A.val.getD ra 0), ra + 1) else (y.setIfInBounds j 0, ra)) = _
        rw [if_neg hb])
  -- the `U` part
  obtain ⟨-, hU2, hU3, hU4⟩ := merge_walk s.ciU (fun r => A.colInd.getD r A.cols) (fun r => A.val.getD r 0)
    (csrLookup A i) (copyU s A (A.rowPtr.getD (i + 1) 0)) (s.rpU.getD i 0) (s.rpU.getD (i + 1) 0) (pd + 1)
    (A.rowPtr.getD (i + 1) 0) d.dataU
    (w.monoU i hi) (by omega) (by have := w.endU_le hi; omega)
    (fun q q' h1 h2 h3 => idx_strictMono s.ciU _ _ (w.sortU i hi) q' q h1 h2 h3)
    (by
      intro r r' h1 h2 h3
      show A.colInd.getD r A.cols < A.colInd.getD r' A.cols
      have h3' : r' < A.rowEnd i := h3
      rw [hgc r (by omega), hgc r' h3']
      exact hsm r' r (by omega) h2 h3')
    (by
      intro r h1 h2
      have h2' : r < A.rowEnd i := h2
      show ∃ q, _ ∧ _ ∧ s.ciU.getD q 0 = A.colInd.getD r A.cols
      rw [hgc r h2']
      have hc := hupp r (by omega) h2'
      rcases hcv r (by omega) h2' with (h | ⟨p, hp⟩) | ⟨p, hp⟩
      · omega
      · obtain ⟨q1, q2, q3⟩ := findPos_some _ _ _ _ _ hp
        have := w.lowL i hi p q1 q2
        omega
      · exact ⟨p, findPos_some _ _ _ _ _ hp⟩)
    (by
      intro r h1 h2
      have h2' : r < A.rowEnd i := h2
      show csrLookup A i (A.colInd.getD r A.cols) = A.val.getD r 0
      rw [hgc r h2']
      exact csrLookup_of_pos A i r (by omega) h2' (hA.sorted i hiA))
    (by
      intro q h1 h2 hno
      apply csrLookup_of_none
      intro k hk1 hk2
      have hq := w.uppU i hi q h1 h2
      rcases Nat.lt_trichotomy k pd with h | h | h
      · have := hlow k hk1 h; omega
      · subst h; omega
      · have := hno k (by omega) hk2
        rw [hgc k hk2] at this
        exact this)
    (by
      intro y ra j hj1 hj2 hr1 hr2
      by_cases hc : ra < A.rowPtr.getD (i + 1) 0 ∧ s.ciU.getD j 0 = A.colInd.getD ra A.cols
      · rw [if_pos hc]
        have hb : (decide (ra < A.rowPtr.getD (i + 1) 0) && s.ciU.getD j 0 == A.colInd.getD ra A.cols) = true := by
          simp only [Bool.and_eq_true, decide_eq_true_eq, beq_iff_eq]; exact hc
        show (if (decide (ra < A.rowPtr.getD (i + 1) 0) && s.ciU.getD j 0 == A.colInd.getD ra A.cols) = true then
          (y.setIfInBounds j (A.val.getD ra 0), ra + 1) else (y.setIfInBounds j 0, ra)) = _
        rw [if_pos hb]
      · rw [if_neg hc]
        have hb : ¬ (decide (ra < A.rowPtr.getD (i + 1) 0) && s.ciU.getD j 0 == A.colInd.getD ra A.cols) = true := by
          simp only [Bool.and_eq_true, decide_eq_true_eq, beq_iff_eq]; exact hc
        show (if (decide (ra < A.rowPtr.getD (i + 1) 0) && s.ciU.getD j 0 == A.colInd.getD ra A.cols) = true then
          (y.setIfInBounds j (A.val.getD ra 0), ra + 1) else (y.setIfInBounds j 0, ra)) = _
        rw [if_neg hb])
  have he : copyRow s A d i =
      { dataL := (foldRange (s.rpL.getD i 0) (s.rpL.getD (i + 1) 0) (copyL s A) (d.dataL, A.rowPtr.getD i 0)).1,
        dataU := (foldRange (s.rpU.getD i 0) (s.rpU.getD (i + 1) 0) (copyU s A (A.rowPtr.getD (i + 1) 0))
          (d.dataU, pd + 1)).1,
        dataD := d.dataD.setIfInBounds i (A.val.getD pd 0) } := by
    unfold copyRow
    simp only [hL1]
  rw [he]
  refine ⟨⟨by rw [hL2]; exact hsl, by rw [hU2]; exact hsu,
    by show (d.dataD.setIfInBounds i _).size = s.n; rw [Array.size_setIfInBounds]; exact hsd⟩, ?_, ?_, ?_⟩
  · intro q
    show (foldRange (s.rpL.getD i 0) (s.rpL.getD (i + 1) 0) (copyL s A) (d.dataL, A.rowPtr.getD i 0)).1.getD q 0 = _
    by_cases hq : s.inL i q
    · rw [if_pos hq]; exact hL3 q hq.1 hq.2
    · rw [if_neg hq]; exact hL4 q hq
  · intro q
    show (foldRange (s.rpU.getD i 0) (s.rpU.getD (i + 1) 0) (copyU s A (A.rowPtr.getD (i + 1) 0))
      (d.dataU, pd + 1)).1.getD q 0 = _
    by_cases hq : s.inU i q
    · rw [if_pos hq]; exact hU3 q hq.1 hq.2
    · rw [if_neg hq]; exact hU4 q hq
  · intro r
    show (d.dataD.setIfInBounds i (A.val.getD pd 0)).getD r 0 = _
    rw [getD_setIfInBounds]
    by_cases hr : r = i
    · subst hr
      rw [if_pos ⟨rfl, by omega⟩, if_pos rfl]
      have := csrLookup_of_pos A r pd hp1 hp2 (hA.sorted r hiA)
      rw [hp3] at this
      exact this.symm
    · rw [if_neg (fun h => hr h.1.symm), if_neg hr]

/-! ### all rows -/

/-- state after the rows `< m` -/
def CopyInv (s : IluSym) (A : Csr α) (m : Nat) (y : IluNum α) : Prop :=
  y.Sz s ∧
    (∀ q, q < s.rpL.getD m 0 → y.dataL.getD q 0 = csrLookup A (rowOf s.rpL s.n q) (s.ciL.getD q 0)) ∧
    (∀ q, q < s.rpU.getD m 0 → y.dataU.getD q 0 = csrLookup A (rowOf s.rpU s.n q) (s.ciU.getD q 0)) ∧
    (∀ r, r < m → y.dataD.getD r 0 = csrLookup A r r)

/-- merge walk = column lookup -/
theorem copyDataCsr_eq_S (s : IluSym) (hs : s.wf = true) (hso : s.sorted = true) (A : Csr α)
    (hA : sortedDiag A = true) (hn : s.n = A.rows) (hcov : s.covers A = true) (prev : IluNum α) (hp : prev.Sz s) :
    copyDataCsr s A prev = copyDataCsrS s A := by
  have w := IluSym.WFP.of_bool s hs hso
  have hA' := SortedDiag.of_bool hA
  have key : CopyInv s A s.n (copyDataCsr s A prev) := by
    unfold copyDataCsr
    apply foldl_range_induct (CopyInv s A)
    · refine ⟨hp, ?_, ?_, ?_⟩
      · intro q hq; rw [w.firstL] at hq; omega
      · intro q hq; rw [w.firstU] at hq; omega
      · intro r hr; omega
    · rintro m y hm ⟨hy, hyL, hyU, hyD⟩
      obtain ⟨h1, h2, h3, h4⟩ := copyRow_spec w hA' hn hcov hm y hy
      refine ⟨h1, ?_, ?_, ?_⟩
      · intro q hq
        rw [h2 q]
        by_cases hin : s.inL m q
        · rw [if_pos hin, rowOf_eq s.rpL s.n m q hm (fun i' hi' => by
            have := w.rpL_le (i := i' + 1) (j := m) (by omega) (by omega)
            have := hin.1
            omega) hin.2]
        · rw [if_neg hin]
          apply hyL q
          rcases Nat.lt_or_ge q (s.rpL.getD m 0) with h | h
          · exact h
          · exact absurd ⟨h, hq⟩ hin
      · intro q hq
        rw [h3 q]
        by_cases hin : s.inU m q
        · rw [if_pos hin, rowOf_eq s.rpU s.n m q hm (fun i' hi' => by
            have := w.rpU_le (i := i' + 1) (j := m) (by omega) (by omega)
            have := hin.1
            omega) hin.2]
        · rw [if_neg hin]
          apply hyU q
          rcases Nat.lt_or_ge q (s.rpU.getD m 0) with h | h
          · exact h
          · exact absurd ⟨h, hq⟩ hin
      · intro r hr
        rw [h4 r]
        by_cases hrm : r = m
        · rw [if_pos hrm, hrm]
        · rw [if_neg hrm]
          exact hyD r (by omega)
  obtain ⟨⟨hsl, hsu, hsd⟩, hL, hU, hD⟩ := key
  apply IluNum.ext3
  · apply array_ext_getD0
    · rw [hsl]; simp [copyDataCsrS]
    · intro q hq
      rw [hsl] at hq
      rw [hL q (by rw [w.lastL]; exact hq)]
      show _ = (Array.ofFn (n := s.ciL.size) fun j =>
        csrLookup A (rowOf s.rpL s.n j.val) (s.ciL.getD j.val 0)).getD q 0
      rw [getD_ofFn0 _ q hq]
  · apply array_ext_getD0
    · rw [hsu]; simp [copyDataCsrS]
    · intro q hq
      rw [hsu] at hq
      rw [hU q (by rw [w.lastU]; exact hq)]
      show _ = (Array.ofFn (n := s.ciU.size) fun j =>
        csrLookup A (rowOf s.rpU s.n j.val) (s.ciU.getD j.val 0)).getD q 0
      rw [getD_ofFn0 _ q hq]
  · apply array_ext_getD0
    · rw [hsd]; simp [copyDataCsrS]
    · intro r hr
      rw [hsd] at hr
      rw [hD r hr]
      show _ = (Array.ofFn (n := s.n) fun i => csrLookup A i.val i.val).getD r 0
      rw [getD_ofFn0 _ r hr]

end FeatModel.Solver
