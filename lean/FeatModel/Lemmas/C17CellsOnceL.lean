import FeatModel.Lemmas.C17Layered
import FeatModel.Lemmas.C17Termination
/-
C17: "every cell is assembled exactly once" on the global event log of a complete layered run: the cells of the
`enter` events (and of the `leave` events) of a run from the initial to a final state are a permutation of the
workers' shares.
-/
namespace FeatModel.DA

/-- the cells of the `enter` events of an event list, in log order -/
def enterCells (es : List Ev) : List Nat := es.filterMap fun e => match e with | .enter _ c => some c | _ => none

/-- the cells of the `leave` events of an event list, in log order -/
def leaveCells (es : List Ev) : List Nat := es.filterMap fun e => match e with | .leave _ c => some c | _ => none

/-- the cells worker w has to scatter: positions beg w .. fin w - 1 -/
def LCfg.share (c : LCfg) (w : Nat) : List Nat := (List.range' (c.beg w) (c.fin w - c.beg w)).map c.cell

/-! ## list bookkeeping -/

theorem col_flat_succ (f : Nat → List Nat) (n : Nat) :
    (List.range (n + 1)).flatMap f = (List.range n).flatMap f ++ f n := by
  simp [List.range_succ, List.flatMap_append]

theorem col_flat_same (f g : Nat → List Nat) : ∀ n, (∀ k, k < n → f k = g k) →
    (List.range n).flatMap f = (List.range n).flatMap g := by
  intro n
  induction n with
  | zero => intro _; rfl
  | succ n ih =>
    intro h
    rw [col_flat_succ, col_flat_succ, ih (fun k hk => h k (by omega)), h n (by omega)]

theorem col_flat_app (f g : Nat → List Nat) (l : List Nat) : ∀ n t, t < n → g t = f t ++ l →
    (∀ k, k < n → k ≠ t → g k = f k) →
    ((List.range n).flatMap f ++ l).Perm ((List.range n).flatMap g) := by
  intro n
  induction n with
  | zero => intro t ht; omega
  | succ n ih =>
    intro t ht hg hne
    rw [col_flat_succ, col_flat_succ]
    by_cases htn : t = n
    · subst htn
      rw [col_flat_same g f t (fun k hk => hne k (by omega) (by omega)), hg, List.append_assoc]
    · have h1 := ih t (by omega) hg (fun k hk hkt => hne k (by omega) hkt)
      rw [hne n (by omega) (fun h => htn h.symm)]
      -- (A ++ f n) ++ l ~ (A ++ l) ++ f n ~ A' ++ f n
      have h2 : ((List.range n).flatMap f ++ f n ++ l).Perm ((List.range n).flatMap f ++ l ++ f n) := by
        rw [List.append_assoc, List.append_assoc]
        exact List.Perm.append_left _ List.perm_append_comm
      exact h2.trans (List.Perm.append_right _ h1)

theorem col_range_succ (b p : Nat) (hb : b ≤ p) :
    List.range' b (p + 1 - b) = List.range' b (p - b) ++ [p] := by
  have e : p + 1 - b = (p - b) + 1 := by omega
  rw [e, List.range'_concat]
  have e2 : b + 1 * (p - b) = p := by omega
  rw [e2]

/-! ## base steps indexed by their event -/

inductive COLB (c : LCfg) (s : LSt) : Ev → LSt → Prop
  | mopen : s.ph 0 = .front →
      COLB c s (.fopen 0 0) { s with fence := updB s.fence 0 true, ph := updP s.ph 0 .back }
  | join : s.ph 0 = .back → c.allDone s = true →
      COLB c s .join { s with ph := updP s.ph 0 .done }
  | wfront (t : Nat) : 1 ≤ t → t ≤ c.n → s.ph t = .front → s.fence 0 = true →
      COLB c s (.fwait t 0) { s with ph := updP s.ph t (c.after t (s.pos t)) }
  | wwait (t : Nat) : 1 ≤ t → t ≤ c.n → s.ph t = .idle → c.waitAt t = some (s.pos t) →
      s.fence (t + 1) = true →
      COLB c s (.fwait t (t + 1)) { s with ph := updP s.ph t .ready }
  | enterI (t : Nat) : 1 ≤ t → t ≤ c.n → s.ph t = .idle → c.waitAt t ≠ some (s.pos t) →
      COLB c s (.enter t (c.cell (s.pos t))) { s with ph := updP s.ph t .insc }
  | enterR (t : Nat) : 1 ≤ t → t ≤ c.n → s.ph t = .ready →
      COLB c s (.enter t (c.cell (s.pos t))) { s with ph := updP s.ph t .insc }
  | leaveO (t : Nat) : 1 ≤ t → t ≤ c.n → s.ph t = .insc → c.openAt t = some (s.pos t) →
      COLB c s (.leave t (c.cell (s.pos t))) { s with ph := updP s.ph t .toOpen }
  | leaveN (t : Nat) : 1 ≤ t → t ≤ c.n → s.ph t = .insc → c.openAt t ≠ some (s.pos t) →
      COLB c s (.leave t (c.cell (s.pos t)))
        { s with ph := updP s.ph t (c.after t (s.pos t + 1)), pos := upd s.pos t (s.pos t + 1) }
  | wopen (t : Nat) : 1 ≤ t → t ≤ c.n → s.ph t = .toOpen →
      COLB c s (.fopen t t)
        { s with fence := updB s.fence t true, ph := updP s.ph t (c.after t (s.pos t + 1)),
                 pos := upd s.pos t (s.pos t + 1) }
  | center (t : Nat) : 1 ≤ t → t ≤ c.n → s.ph t = .preComb → s.mutex = false →
      COLB c s (.center t) { s with ph := updP s.ph t .inComb, mutex := true }
  | cleave (t : Nat) : 1 ≤ t → t ≤ c.n → s.ph t = .inComb →
      COLB c s (.cleave t) { s with ph := updP s.ph t .done, mutex := false }

theorem col_step {c : LCfg} {s s' : LSt} {e : Ev} (h : c.step s e = some s') : COLB c s e s' := by
  obtain ⟨hn, hen, rfl⟩ := step_parts h
  by_cases ht : e.thread = 0
  · rw [ht] at hn
    rcases next_zero hn with ⟨hp, rfl⟩ | ⟨hp, rfl⟩
    · simpa [LCfg.apply] using COLB.mopen (c := c) hp
    · simpa [LCfg.apply] using COLB.join hp (by simpa [LCfg.enabled] using hen)
  · generalize hteq : e.thread = t at hn ht
    obtain ⟨hle, hcases⟩ := next_worker ht hn
    have h1 : 1 ≤ t := by omega
    rcases hcases with ⟨hp, rfl⟩ | ⟨hp, hw, rfl⟩ | ⟨hp, hw, rfl⟩ | ⟨hp, rfl⟩ | ⟨hp, rfl⟩ | ⟨hp, rfl⟩ |
      ⟨hp, rfl⟩ | ⟨hp, rfl⟩
    · simpa [LCfg.apply] using COLB.wfront _ h1 hle hp (by simpa [LCfg.enabled] using hen)
    · simpa [LCfg.apply] using COLB.wwait _ h1 hle hp hw (by simpa [LCfg.enabled] using hen)
    · simpa [LCfg.apply] using COLB.enterI _ h1 hle hp hw
    · simpa [LCfg.apply] using COLB.enterR _ h1 hle hp
    · by_cases ho : c.openAt t = some (s.pos t)
      · simpa [LCfg.apply, ho] using COLB.leaveO _ h1 hle hp ho
      · simpa [LCfg.apply, ho] using COLB.leaveN _ h1 hle hp ho
    · simpa [LCfg.apply, ht] using COLB.wopen _ h1 hle hp
    · simpa [LCfg.apply] using COLB.center _ h1 hle hp (by simpa [LCfg.enabled] using hen)
    · simpa [LCfg.apply] using COLB.cleave _ h1 hle hp


/-! ## two more facts about reachable states -/

set_option linter.unusedSimpArgs false

structure COLInv (c : LCfg) (s : LSt) : Prop where
  posLe : ∀ w, 1 ≤ w → w ≤ c.n → s.pos w ≤ c.fin w
  fin0 : s.ph 0 = .done → ∀ w, 1 ≤ w → w ≤ c.n → s.ph w = .done

theorem COLInv_step_posLe {c : LCfg} {s s' : LSt} (li : LInv c s) (hi : COLInv c s)
    (hst : LStep c s s') : ∀ w, 1 ≤ w → w ≤ c.n → s'.pos w ≤ c.fin w := by
  obtain ⟨posLe, fin0⟩ := hi
  have actB := li.actB
  cases hst
  all_goals
    simp only [updP, upd, updB]
    grind

theorem COLInv_step_fin0 {c : LCfg} {s s' : LSt} (hi : COLInv c s)
    (hst : LStep c s s') : s'.ph 0 = .done → ∀ w, 1 ≤ w → w ≤ c.n → s'.ph w = .done := by
  obtain ⟨posLe, fin0⟩ := hi
  have hall := allDone_iff c s
  cases hst
  all_goals
    simp only [updP, upd, updB]
    grind

theorem COLInv_reach {c : LCfg} (wf : LWF c) (hbf : ∀ w, 1 ≤ w → w ≤ c.n → c.beg w ≤ c.fin w)
    {s : LSt} (hs : c.Reach s) : LInv c s ∧ COLInv c s := by
  refine reach_induct (P := fun s => LInv c s ∧ COLInv c s) ⟨LInv_init wf, ?_⟩ ?_ s hs
  · constructor
    · exact hbf
    · simp [LCfg.init]
  · intro s s' ⟨li, hi⟩ hst
    exact ⟨LInv_step li hst, COLInv_step_posLe li hi hst, COLInv_step_fin0 hi hst⟩

theorem col_ofFns_beg_le_fin (n : Nat) (le tl cell : Nat → Nat) (comb : Bool)
    (hle : ∀ i j, i < j → j ≤ tl n → le i < le j) (htl : ∀ i, i < n → tl i + 2 ≤ tl (i + 1)) :
    ∀ w, 1 ≤ w → w ≤ (LCfg.ofFns n le tl cell comb).n →
      (LCfg.ofFns n le tl cell comb).beg w ≤ (LCfg.ofFns n le tl cell comb).fin w := by
  intro w h1 h2
  simp only [LCfg.ofFns] at h2 ⊢
  have h3 := htl (w - 1) (by omega)
  have e : w - 1 + 1 = w := by omega
  rw [e] at h3
  exact le_mono hle (tl (w - 1)) (tl w) (by omega) (tl_le htl w h2)

/-! ## the progress lists -/

def col_enterP : Ph → Bool
  | .insc | .toOpen => true
  | _ => false

def col_leaveP : Ph → Bool
  | .toOpen => true
  | _ => false

/-- the cells worker `w` has started (`P = col_enterP`) resp. finished (`P = col_leaveP`) so far -/
def col_prog (P : Ph → Bool) (c : LCfg) (s : LSt) (w : Nat) : List Nat :=
  (List.range' (c.beg w) (s.pos w - c.beg w)).map c.cell ++ (if P (s.ph w) then [c.cell (s.pos w)] else [])

def col_all (P : Ph → Bool) (c : LCfg) (s : LSt) : List Nat :=
  (List.range c.n).flatMap fun k => col_prog P c s (k + 1)

theorem col_prog_congr (P : Ph → Bool) (c : LCfg) (s s' : LSt) (w : Nat) (h1 : s'.ph w = s.ph w)
    (h2 : s'.pos w = s.pos w) : col_prog P c s' w = col_prog P c s w := by
  simp only [col_prog, h1, h2]

theorem col_master_step (P : Ph → Bool) {c : LCfg} {s s' : LSt}
    (hph : ∀ w, 1 ≤ w → s'.ph w = s.ph w) (hpos : ∀ w, 1 ≤ w → s'.pos w = s.pos w) :
    (col_all P c s ++ []).Perm (col_all P c s') := by
  rw [List.append_nil]
  unfold col_all
  rw [col_flat_same _ _ c.n (fun k _ => col_prog_congr P c s' s (k + 1)
    (by rw [hph (k + 1) (by omega)]) (by rw [hpos (k + 1) (by omega)]))]

theorem col_worker_step (P : Ph → Bool) {c : LCfg} {s s' : LSt} (t : Nat) (h1 : 1 ≤ t) (h2 : t ≤ c.n)
    (hph : ∀ w, w ≠ t → s'.ph w = s.ph w) (hpos : ∀ w, w ≠ t → s'.pos w = s.pos w) (l : List Nat)
    (ht : col_prog P c s' t = col_prog P c s t ++ l) :
    (col_all P c s ++ l).Perm (col_all P c s') := by
  unfold col_all
  refine col_flat_app _ _ l c.n (t - 1) (by omega) ?_ ?_
  · have e : t - 1 + 1 = t := by omega
    simp only [e]; exact ht
  · intro k _ hk
    exact col_prog_congr P c s s' (k + 1) (hph _ (by omega)) (hpos _ (by omega))

/-- one step, `enter` events -/
theorem col_step_enter {c : LCfg} {s s' : LSt} {e : Ev} (li : LInv c s) (hB : COLB c s e s') :
    (col_all col_enterP c s ++ enterCells [e]).Perm (col_all col_enterP c s') := by
  cases hB with
  | mopen h =>
    exact col_master_step _ (fun w hw => by simp [updP]; omega) (fun w hw => by rfl)
  | join h _ =>
    exact col_master_step _ (fun w hw => by simp [updP]; omega) (fun w hw => by rfl)
  | wfront t h1 h2 h _ =>
    refine col_worker_step _ t h1 h2 (fun w hw => by simp [updP, hw]) (fun w hw => by rfl) _ ?_
    rcases after_cases c t (s.pos t) with ⟨ha, _⟩ | ⟨ha, _⟩ | ⟨ha, _⟩ <;>
      simp [col_prog, enterCells, updP, h, ha, col_enterP]
  | wwait t h1 h2 h _ _ =>
    refine col_worker_step _ t h1 h2 (fun w hw => by simp [updP, hw]) (fun w hw => by rfl) _ ?_
    simp [col_prog, enterCells, updP, h, col_enterP]
  | enterI t h1 h2 h _ =>
    refine col_worker_step _ t h1 h2 (fun w hw => by simp [updP, hw]) (fun w hw => by rfl) _ ?_
    simp [col_prog, enterCells, updP, h, col_enterP]
  | enterR t h1 h2 h =>
    refine col_worker_step _ t h1 h2 (fun w hw => by simp [updP, hw]) (fun w hw => by rfl) _ ?_
    simp [col_prog, enterCells, updP, h, col_enterP]
  | leaveO t h1 h2 h _ =>
    refine col_worker_step _ t h1 h2 (fun w hw => by simp [updP, hw]) (fun w hw => by rfl) _ ?_
    simp [col_prog, enterCells, updP, h, col_enterP]
  | leaveN t h1 h2 h _ =>
    refine col_worker_step _ t h1 h2 (fun w hw => by simp [updP, hw]) (fun w hw => by simp [upd, hw]) _ ?_
    have hb := li.posA t h1 h2
    rcases after_cases c t (s.pos t + 1) with ⟨ha, _⟩ | ⟨ha, _⟩ | ⟨ha, _⟩ <;>
      simp [col_prog, enterCells, updP, upd, h, ha, col_enterP, col_range_succ _ _ hb]
  | wopen t h1 h2 h =>
    refine col_worker_step _ t h1 h2 (fun w hw => by simp [updP, hw]) (fun w hw => by simp [upd, hw]) _ ?_
    have hb := li.posA t h1 h2
    rcases after_cases c t (s.pos t + 1) with ⟨ha, _⟩ | ⟨ha, _⟩ | ⟨ha, _⟩ <;>
      simp [col_prog, enterCells, updP, upd, h, ha, col_enterP, col_range_succ _ _ hb]
  | center t h1 h2 h _ =>
    refine col_worker_step _ t h1 h2 (fun w hw => by simp [updP, hw]) (fun w hw => by rfl) _ ?_
    simp [col_prog, enterCells, updP, h, col_enterP]
  | cleave t h1 h2 h =>
    refine col_worker_step _ t h1 h2 (fun w hw => by simp [updP, hw]) (fun w hw => by rfl) _ ?_
    simp [col_prog, enterCells, updP, h, col_enterP]

/-- one step, `leave` events -/
theorem col_step_leave {c : LCfg} {s s' : LSt} {e : Ev} (li : LInv c s) (hB : COLB c s e s') :
    (col_all col_leaveP c s ++ leaveCells [e]).Perm (col_all col_leaveP c s') := by
  cases hB with
  | mopen h =>
    exact col_master_step _ (fun w hw => by simp [updP]; omega) (fun w hw => by rfl)
  | join h _ =>
    exact col_master_step _ (fun w hw => by simp [updP]; omega) (fun w hw => by rfl)
  | wfront t h1 h2 h _ =>
    refine col_worker_step _ t h1 h2 (fun w hw => by simp [updP, hw]) (fun w hw => by rfl) _ ?_
    rcases after_cases c t (s.pos t) with ⟨ha, _⟩ | ⟨ha, _⟩ | ⟨ha, _⟩ <;>
      simp [col_prog, leaveCells, updP, h, ha, col_leaveP]
  | wwait t h1 h2 h _ _ =>
    refine col_worker_step _ t h1 h2 (fun w hw => by simp [updP, hw]) (fun w hw => by rfl) _ ?_
    simp [col_prog, leaveCells, updP, h, col_leaveP]
  | enterI t h1 h2 h _ =>
    refine col_worker_step _ t h1 h2 (fun w hw => by simp [updP, hw]) (fun w hw => by rfl) _ ?_
    simp [col_prog, leaveCells, updP, h, col_leaveP]
  | enterR t h1 h2 h =>
    refine col_worker_step _ t h1 h2 (fun w hw => by simp [updP, hw]) (fun w hw => by rfl) _ ?_
    simp [col_prog, leaveCells, updP, h, col_leaveP]
  | leaveO t h1 h2 h _ =>
    refine col_worker_step _ t h1 h2 (fun w hw => by simp [updP, hw]) (fun w hw => by rfl) _ ?_
    simp [col_prog, leaveCells, updP, h, col_leaveP]
  | leaveN t h1 h2 h _ =>
    refine col_worker_step _ t h1 h2 (fun w hw => by simp [updP, hw]) (fun w hw => by simp [upd, hw]) _ ?_
    have hb := li.posA t h1 h2
    rcases after_cases c t (s.pos t + 1) with ⟨ha, _⟩ | ⟨ha, _⟩ | ⟨ha, _⟩ <;>
      simp [col_prog, leaveCells, updP, upd, h, ha, col_leaveP, col_range_succ _ _ hb]
  | wopen t h1 h2 h =>
    refine col_worker_step _ t h1 h2 (fun w hw => by simp [updP, hw]) (fun w hw => by simp [upd, hw]) _ ?_
    have hb := li.posA t h1 h2
    rcases after_cases c t (s.pos t + 1) with ⟨ha, _⟩ | ⟨ha, _⟩ | ⟨ha, _⟩ <;>
      simp [col_prog, leaveCells, updP, upd, h, ha, col_leaveP, col_range_succ _ _ hb]
  | center t h1 h2 h _ =>
    refine col_worker_step _ t h1 h2 (fun w hw => by simp [updP, hw]) (fun w hw => by rfl) _ ?_
    simp [col_prog, leaveCells, updP, h, col_leaveP]
  | cleave t h1 h2 h =>
    refine col_worker_step _ t h1 h2 (fun w hw => by simp [updP, hw]) (fun w hw => by rfl) _ ?_
    simp [col_prog, leaveCells, updP, h, col_leaveP]

/-! ## runs -/

theorem col_run_perm (P : Ph → Bool) (sel : Ev → Option Nat) {c : LCfg} (wf : LWF c)
    (hstep : ∀ s e s', LInv c s → COLB c s e s' →
      (col_all P c s ++ [e].filterMap sel).Perm (col_all P c s')) :
    ∀ (es : List Ev) (s s' : LSt), c.Reach s → c.run s es = some s' →
      (col_all P c s ++ es.filterMap sel).Perm (col_all P c s') := by
  intro es
  induction es with
  | nil =>
    intro s s' _ h
    simp only [LCfg.run, Option.some.injEq] at h
    subst h
    simp
  | cons e es ih =>
    intro s s' hs h
    simp only [LCfg.run] at h
    split at h
    · next s1 hst =>
      have h1 := hstep s e s1 (LInv_reach wf hs) (col_step hst)
      have h2 := ih s1 s' (LCfg.Reach.step e hs hst) h
      have e1 : (e :: es).filterMap sel = [e].filterMap sel ++ es.filterMap sel := by
        rw [← List.filterMap_append]; rfl
      rw [e1, ← List.append_assoc]
      exact (List.Perm.append_right _ h1).trans h2
    · cases h

theorem col_all_init (P : Ph → Bool) (hP : P .front = false) (c : LCfg) : col_all P c c.init = [] := by
  unfold col_all
  rw [col_flat_same _ (fun _ => []) c.n (fun k _ => by simp [col_prog, LCfg.init, hP])]
  simp

theorem col_all_final (P : Ph → Bool) (hP : P .done = false) {c : LCfg} {s : LSt} (li : LInv c s)
    (hi : COLInv c s) (hf : LCfg.final s = true) :
    col_all P c s = (List.range c.n).flatMap fun k => c.share (k + 1) := by
  unfold col_all
  refine col_flat_same _ _ c.n (fun k hk => ?_)
  have hd := hi.fin0 (by simpa [LCfg.final] using hf) (k + 1) (by omega) (by omega)
  have h1 := li.finC (k + 1) (by omega) (by omega) (by simp [hd])
  have h2 := hi.posLe (k + 1) (by omega) (by omega)
  have e : s.pos (k + 1) = c.fin (k + 1) := by omega
  simp [col_prog, LCfg.share, hd, hP, e]

/-- abstract version -/
theorem col_cells_once (P : Ph → Bool) (sel : Ev → Option Nat) (hP0 : P .front = false)
    (hP1 : P .done = false) {c : LCfg} (wf : LWF c)
    (hbf : ∀ w, 1 ≤ w → w ≤ c.n → c.beg w ≤ c.fin w)
    (hstep : ∀ s e s', LInv c s → COLB c s e s' →
      (col_all P c s ++ [e].filterMap sel).Perm (col_all P c s'))
    (es : List Ev) (s : LSt) (h : c.run c.init es = some s) (hf : LCfg.final s = true) :
    (es.filterMap sel).Perm ((List.range c.n).flatMap fun k => c.share (k + 1)) := by
  have h1 := col_run_perm P sel wf hstep es c.init s LCfg.Reach.init h
  rw [col_all_init P hP0, List.nil_append] at h1
  have hs := term_run_reach es c.init s LCfg.Reach.init h
  obtain ⟨li, hi⟩ := COLInv_reach wf hbf hs
  rw [col_all_final P hP1 li hi hf] at h1
  exact h1

/-- every cell is entered exactly once: the cells of the `enter` events of a complete run are a permutation
    of the workers' shares -/
theorem layered_cells_once (n : Nat) (le tl cell : Nat → Nat) (comb : Bool)
    (hle : ∀ i j, i < j → j ≤ tl n → le i < le j) (htl : ∀ i, i < n → tl i + 2 ≤ tl (i + 1))
    (es : List Ev) (s : LSt)
    (h : (LCfg.ofFns n le tl cell comb).run (LCfg.ofFns n le tl cell comb).init es = some s)
    (hf : LCfg.final s = true) :
    (enterCells es).Perm ((List.range n).flatMap fun k => (LCfg.ofFns n le tl cell comb).share (k + 1)) :=
  col_cells_once col_enterP _ rfl rfl (ofFns_wf n le tl cell comb hle htl)
    (col_ofFns_beg_le_fin n le tl cell comb hle htl)
    (fun _ _ _ li hB => col_step_enter li hB) es s h hf

/-- every cell is left exactly once -/
theorem layered_leaves_once (n : Nat) (le tl cell : Nat → Nat) (comb : Bool)
    (hle : ∀ i j, i < j → j ≤ tl n → le i < le j) (htl : ∀ i, i < n → tl i + 2 ≤ tl (i + 1))
    (es : List Ev) (s : LSt)
    (h : (LCfg.ofFns n le tl cell comb).run (LCfg.ofFns n le tl cell comb).init es = some s)
    (hf : LCfg.final s = true) :
    (leaveCells es).Perm ((List.range n).flatMap fun k => (LCfg.ofFns n le tl cell comb).share (k + 1)) :=
  col_cells_once col_leaveP _ rfl rfl (ofFns_wf n le tl cell comb hle htl)
    (col_ofFns_beg_le_fin n le tl cell comb hle htl)
    (fun _ _ _ li hB => col_step_leave li hB) es s h hf

end FeatModel.DA
