/-
C13 / C12 bridge: DOFs on the entities of ALL dimensions at once (Q2-type numbering).
-/
import FeatModel.Lemmas.C13PartiAll2
open FeatModel.Dist FeatModel.Parti FeatModel.Adj

namespace FeatModel.C13L

/-- global offset of the DOFs of dimension `k`: the number of entities of smaller dimension -/
def dimOffset (m : Mesh) (k : Nat) : Nat := ((List.range k).map m.numOf).sum

/-- DOFs on the entities of dimensions `0 … k`, numbered dimension by dimension -/
def decompOfPartiUpTo (m : Mesh) (p : Parti) : Nat → Decomp
  | 0 => decompOfPartiDim m p 0
  | k + 1 => (decompOfPartiUpTo m p k).append (decompOfPartiDim m p (k + 1)) (dimOffset m (k + 1))

/-- one DOF per entity of every dimension `0 … m.dim` -/
def decompOfPartiAll (m : Mesh) (p : Parti) : Decomp := decompOfPartiUpTo m p m.dim

theorem app_ranks (d1 d2 : Decomp) (off : Nat) (hnp : d1.np = d2.np) (r : Nat) (hr : r < d1.np)
    (hranks : (d1.patch r).nbrs.map (·.1) = (d2.patch r).nbrs.map (·.1)) :
    ((d1.append d2 off).patch r).nbrs.map (·.1) = (d1.patch r).nbrs.map (·.1) := by
  rw [app_patch d1 d2 off hnp r hr]
  apply List.ext_getElem
  · simp [(fst_eq_getElem _ _ hranks).1]
  · intro k k1 k2
    simp

theorem dimOffset_succ (m : Mesh) (k : Nat) : dimOffset m (k + 1) = dimOffset m k + m.numOf k := by
  simp [dimOffset, List.range_succ]

theorem upTo_inv (m : Mesh) (p : Parti) (hm : m.consistent = true) (hf : m.facetsOk = true)
    (hp : isPartition p = true) (k : Nat) (hk : k ≤ m.dim) :
    (decompOfPartiUpTo m p k).WF ∧ (decompOfPartiUpTo m p k).np = p.nDom
    ∧ (∀ r, r < p.nDom → ((decompOfPartiUpTo m p k).patch r).nbrs.map (·.1) = commRanks m p r)
    ∧ (k < m.dim → ∀ r, r < p.nDom → ∀ g ∈ (decompOfPartiUpTo m p k).lmap r, g < dimOffset m (k + 1)) := by
  have hpos := (cons_of_consistent m hm).dim_pos
  induction k with
  | zero =>
    refine ⟨WF_of_partition_facets m p hm hf hp 0 hpos, dop_np m p 0, fun r hr => dop_ranks m p 0 r hr, ?_⟩
    intro _ r hr g hg
    change g ∈ (decompOfPartiDim m p 0).lmap r at hg
    rw [dop_lmap m p 0 r hr] at hg
    rw [dimOffset_succ]
    have := target_lt m _ 0 hpos g hg
    omega
  | succ k ih =>
    obtain ⟨iwf, inp, iranks, ibound⟩ := ih (by omega)
    have hklt : k < m.dim := by omega
    have hwf2 : (decompOfPartiDim m p (k + 1)).WF := by
      rcases Nat.lt_or_eq_of_le hk with h | h
      · exact WF_of_partition_facets m p hm hf hp (k + 1) h
      · rw [h]; exact WF_of_partition_cells m p hm hp
    have hnp : (decompOfPartiUpTo m p k).np = (decompOfPartiDim m p (k + 1)).np := by rw [inp, dop_np]
    have hrk : ∀ r, r < (decompOfPartiUpTo m p k).np →
        ((decompOfPartiUpTo m p k).patch r).nbrs.map (·.1) = ((decompOfPartiDim m p (k + 1)).patch r).nbrs.map (·.1) := by
      intro r hr
      rw [inp] at hr
      rw [iranks r hr, dop_ranks m p (k + 1) r hr]
    have hwf : (decompOfPartiUpTo m p (k + 1)).WF :=
      WF_append _ _ _ iwf hwf2 hnp hrk (fun r hr g hg => ibound hklt r (inp ▸ hr) g hg)
    refine ⟨hwf, ?_, ?_, ?_⟩
    · show ((decompOfPartiUpTo m p k).append _ _).np = _
      rw [app_np _ _ _ hnp, inp]
    · intro r hr
      show (((decompOfPartiUpTo m p k).append _ _).patch r).nbrs.map (·.1) = _
      rw [app_ranks _ _ _ hnp r (inp ▸ hr) (hrk r (inp ▸ hr)), iranks r hr]
    · intro hlt r hr g hg
      change g ∈ ((decompOfPartiUpTo m p k).append _ _).lmap r at hg
      rw [app_lmap _ _ _ iwf hwf2 hnp r (inp ▸ hr), List.mem_append] at hg
      rw [dimOffset_succ m (k + 1)]
      rcases hg with hg | hg
      · have := ibound hklt r hr g hg
        omega
      · obtain ⟨c, hc, rfl⟩ := List.mem_map.1 hg
        rw [dop_lmap m p (k + 1) r hr] at hc
        have := target_lt m _ (k + 1) hlt c hc
        omega

/-- **the all-dimensions decomposition of a partitioned mesh is well-formed** -/
theorem WF_of_partition_all (m : Mesh) (p : Parti) (hm : m.consistent = true) (hf : m.facetsOk = true)
    (hp : isPartition p = true) : (decompOfPartiAll m p).WF :=
  (upTo_inv m p hm hf hp m.dim (Nat.le_refl _)).1

end FeatModel.C13L
