import FeatModel.Model.MeshFile
import FeatModel.Lemmas.C11Num
import FeatModel.Lemmas.C11Xml
import FeatModel.Lemmas.C11Mesh
/-!
C11 — the round trip `parseMeshFile ∘ printMeshFile = id` for a file that holds a root mesh
(vertices and topology; all nine supported mesh types (shape, shape dimension, world dimension), all sizes), and the byte-for-byte corollary
`print ∘ parse ∘ print = print`.

Auxiliary lemmas live in the namespace `FeatModel.C11.RT`; the two main theorems are stated in
`FeatModel.C11`.  Core Lean only.
-/
namespace FeatModel.C11.RT

/-! ## Part 1: lines -/

theorem splitChar_append (d : Char) (l r : Str) (h : d ∉ l) :
    splitChar d (l ++ d :: r) = l :: splitChar d r := by
  induction l with
  | nil => simp [splitChar]
  | cons x xs ih =>
    have hx : (x == d) = false := by
      simp only [List.mem_cons, not_or] at h
      simpa using fun e => h.1 e.symm
    have := ih (fun hm => h (List.mem_cons_of_mem _ hm))
    simp [splitChar, hx, this]

theorem splitChar_flatMap (d : Char) (ls : List Str) (h : ∀ l ∈ ls, d ∉ l) :
    splitChar d (ls.flatMap (fun l => l ++ [d])) = ls ++ [[]] := by
  induction ls with
  | nil => simp [splitChar]
  | cons l ls ih =>
    have := ih (fun x hx => h x (by simp [hx]))
    simp only [List.flatMap_cons, List.append_assoc, List.singleton_append]
    rw [splitChar_append d l _ (h l (by simp)), this]; rfl

/-- characters of printed number tokens -/
def tokChar (c : Char) : Bool := isDigit c || c == '-' || c == '/'

theorem tokChar_showNat (n : Nat) : ∀ c ∈ showNat n, tokChar c = true := by
  intro c hc; simp [tokChar, isDigit_of_mem_showNat n c hc]

theorem tokChar_showInt (z : Int) : ∀ c ∈ showInt z, tokChar c = true := by
  intro c hc
  rw [showInt_eq] at hc
  split at hc
  · exact tokChar_showNat _ c hc
  · rcases List.mem_cons.1 hc with rfl | hc
    · decide
    · exact tokChar_showNat _ c hc

theorem tokChar_showQ (q : Rat) : ∀ c ∈ showQ q, tokChar c = true := by
  intro c hc
  unfold showQ at hc
  simp only [List.mem_append, List.mem_cons] at hc
  rcases hc with hc | rfl | hc
  · exact tokChar_showInt _ c hc
  · decide
  · exact tokChar_showNat _ c hc

theorem tokChar_ne {c : Char} (h : tokChar c = true) :
    c ≠ '<' ∧ c ≠ '>' ∧ c ≠ '\n' ∧ c ≠ '"' ∧ c ≠ ':' ∧ c ≠ ' ' := by
  simp only [tokChar, Bool.or_eq_true, beq_iff_eq, isDigit_iff] at h
  refine ⟨?_, ?_, ?_, ?_, ?_, ?_⟩ <;> (rintro rfl; revert h; decide)

theorem mem_joinSp {c : Char} (ts : List Str) (h : c ∈ joinSp ts) : c = ' ' ∨ ∃ t ∈ ts, c ∈ t := by
  unfold joinSp at h
  rw [space_toList] at h
  induction ts with
  | nil => simp at h
  | cons t ts ih =>
    obtain ⟨j, hj, -, -⟩ := intercalate_space_cons t ts
    rw [hj] at h
    simp only [List.mem_append, List.mem_replicate] at h
    rcases h with h | ⟨-, h⟩ | h
    · exact Or.inr ⟨t, by simp, h⟩
    · exact Or.inl h
    · rcases ih h with h | ⟨u, hu, hc⟩
      · exact Or.inl h
      · exact Or.inr ⟨u, by simp [hu], hc⟩

/-- every character of a blank-separated line of number tokens is a blank or a token character -/
theorem joinSp_chars {ts : List Str} (h : ∀ t ∈ ts, ∀ c ∈ t, tokChar c = true) :
    ∀ c ∈ joinSp ts, c = ' ' ∨ tokChar c = true := by
  intro c hc
  rcases mem_joinSp ts hc with h1 | ⟨t, ht, hct⟩
  · exact Or.inl h1
  · exact Or.inr (h t ht c hct)

theorem joinSp_showNat_chars (ns : List Nat) : ∀ c ∈ joinSp (ns.map showNat), c = ' ' ∨ tokChar c = true := by
  apply joinSp_chars
  intro t ht
  obtain ⟨n, -, rfl⟩ := List.mem_map.mp ht
  exact tokChar_showNat n

theorem joinSp_showQ_chars (qs : List Rat) : ∀ c ∈ joinSp (qs.map showQ), c = ' ' ∨ tokChar c = true := by
  apply joinSp_chars
  intro t ht
  obtain ⟨n, -, rfl⟩ := List.mem_map.mp ht
  exact tokChar_showQ n

/-! ## Part 2: `scan_markup` on a markup with an attribute list -/

theorem scanAttrs_nil (f : Nat) (acc : List (Str × Str)) : scanAttrs (f + 1) [] acc = some acc := by
  simp [scanAttrs]

/-- one round of the attribute loop on ` k="v"` followed by `r2` -/
theorem scanAttrs_step (f : Nat) (k v r2 : Str) (acc : List (Str × Str)) (hk : validName k = true)
    (hv : '"' ∉ v) (htv : trim v = v) (hr2 : ∀ c, r2.getLast? = some c → isWs c = false) :
    scanAttrs (f + 1) (k ++ '=' :: '"' :: (v ++ '"' :: r2)) acc =
      scanAttrs f (trim r2) (mapInsert strLt k v acc) := by
  have hne : (k ++ '=' :: '"' :: (v ++ '"' :: r2)).isEmpty = false := by simp
  have hsplit1 : splitAtChar '=' (k ++ '=' :: '"' :: (v ++ '"' :: r2)) = some (k, '"' :: (v ++ '"' :: r2)) :=
    splitAtChar_append (validName_not_mem hk (by decide))
  have hsplit2 : splitAtChar '"' (v ++ '"' :: r2) = some (v, r2) := splitAtChar_append hv
  have hq : isWs '"' = false := by decide
  have htrimX : trim ('"' :: (v ++ '"' :: r2)) = '"' :: (v ++ '"' :: r2) := by
    rcases List.eq_nil_or_concat r2 with rfl | ⟨r', b, rfl⟩
    · exact xml_trim_eq_self hq (b := '"') (by simp [List.getLast?_eq_head?_reverse]) hq
    · have hb : isWs b = false := hr2 b (by simp)
      exact xml_trim_eq_self hq (b := b) (by simp [List.getLast?_eq_head?_reverse]) hb
  rw [scanAttrs]
  simp only [hne, Bool.false_eq_true, if_false, hsplit1, trim_validName hk, hk, Bool.not_true, htrimX,
    hsplit2, htv]

/-- `scan_markup` on `<nm rest>` where `rest` is a non-empty attribute text ending in `"` -/
theorem scanMarkup_with_attrs {nm rest u : Str} {b : Char} (hnm : validName nm = true)
    (hrest : rest = b :: u) (hb : isWs b = false) (hlast : rest.getLast? = some '"')
    (hlt : '<' ∉ rest) (hgt : '>' ∉ rest) :
    scanMarkup ('<' :: ((nm ++ ' ' :: rest) ++ ['>'])) = markupTail nm rest false false := by
  let inner : Str := nm ++ ' ' :: rest
  obtain ⟨a, t, rfl⟩ : ∃ a t, nm = a :: t := by
    cases nm with
    | nil => simp [validName] at hnm
    | cons a t => exact ⟨a, t, rfl⟩
  have ha : isWs a = false := validName_not_ws hnm a (by simp)
  have hq : isWs '"' = false := by decide
  have hlast_inner : inner.getLast? = some '"' := by
    simp only [inner]
    rw [List.getLast?_append, List.getLast?_cons, hlast]; rfl
  have htrim_inner : trim inner = inner := xml_trim_eq_self ha hlast_inner hq
  have htrim_rest : trim rest = rest := by
    subst hrest; exact xml_trim_eq_self hb hlast hq
  have hnotin : ∀ d : Char, d ∉ (a :: t) → d ≠ ' ' → d ∉ rest → d ∉ inner := by
    intro d h1 h2 h3
    simp only [List.mem_cons, not_or] at h1
    simp [inner, h1, h2, h3]
  have hlt' : '<' ∉ inner := hnotin _ (validName_not_mem hnm (by decide)) (by decide) hlt
  have hgt' : '>' ∉ inner := hnotin _ (validName_not_mem hnm (by decide)) (by decide) hgt
  have hhead : (inner.head? == some '/') = false := by
    have : a ≠ '/' := isAlnum_ne (validName_all hnm a (by simp)) (by decide)
    simp [inner, this]
  have hclosed : (inner.getLast? == some '/') = false := by rw [hlast_inner]; decide
  have htake : inner.takeWhile (fun c => !isWs c) = a :: t :=
    takeWhile_append_stop (fun c hc => by simp [validName_not_ws hnm c hc]) (by decide)
  have hdrop : trim (inner.dropWhile (fun c => !isWs c)) = rest := by
    have : inner.dropWhile (fun c => !isWs c) = ' ' :: rest :=
      dropWhile_append_stop (fun c hc => by simp [validName_not_ws hnm c hc]) (by decide)
    rw [this]
    have : trim (' ' :: rest) = trim rest := by
      simp [trim, trimFront, List.dropWhile, isWs]
    rw [this, htrim_rest]
  exact scanMarkup_bracket inner inner inner (a :: t) rest false false
    htrim_inner (by simp [inner]) hlt' hgt' hhead hclosed rfl (by simpa using htrim_inner) (by simp [inner])
    htake hdrop hnm

/-- two attributes (the `<FeatMeshFile version=… mesh=…>` and `<Mesh type=… size=…>` lines) -/
theorem scanMarkup_two_attr {nm k1 v1 k2 v2 : Str} (hnm : validName nm = true)
    (hk1 : validName k1 = true) (hk2 : validName k2 = true)
    (hv1 : ∀ c ∈ v1, c ≠ '"' ∧ c ≠ '<' ∧ c ≠ '>') (htv1 : trim v1 = v1)
    (hv2 : ∀ c ∈ v2, c ≠ '"' ∧ c ≠ '<' ∧ c ≠ '>') (htv2 : trim v2 = v2) :
    scanMarkup ('<' :: (nm ++ ' ' :: (k1 ++ '=' :: '"' :: (v1 ++ '"' :: ' ' ::
        (k2 ++ '=' :: '"' :: (v2 ++ ['"', '>'])))))) =
      .ok (some { name := nm, attrs := mapInsert strLt k2 v2 [(k1, v1)], closed := false, termin := false }) := by
  let a2 : Str := k2 ++ '=' :: '"' :: (v2 ++ ['"'])
  let rest : Str := k1 ++ '=' :: '"' :: (v1 ++ '"' :: ' ' :: a2)
  have e : '<' :: (nm ++ ' ' :: (k1 ++ '=' :: '"' :: (v1 ++ '"' :: ' ' ::
        (k2 ++ '=' :: '"' :: (v2 ++ ['"', '>']))))) = '<' :: ((nm ++ ' ' :: rest) ++ ['>']) := by
    simp [rest, a2]
  obtain ⟨b, u, hbu⟩ : ∃ b u, k1 = b :: u := by
    cases k1 with
    | nil => simp [validName] at hk1
    | cons b u => exact ⟨b, u, rfl⟩
  obtain ⟨b2, u2, hbu2⟩ : ∃ b u, k2 = b :: u := by
    cases k2 with
    | nil => simp [validName] at hk2
    | cons b u => exact ⟨b, u, rfl⟩
  have hb : isWs b = false := validName_not_ws hk1 b (by simp [hbu])
  have hb2 : isWs b2 = false := validName_not_ws hk2 b2 (by simp [hbu2])
  have hq : isWs '"' = false := by decide
  have hlast_a2 : a2.getLast? = some '"' := by simp [a2, List.getLast?_eq_head?_reverse]
  have hlast : rest.getLast? = some '"' := by simp [rest, a2, List.getLast?_eq_head?_reverse]
  have hnotin : ∀ d : Char, d ∉ k1 → d ∉ k2 → d ≠ ' ' → d ≠ '=' → d ≠ '"' → d ∉ v1 → d ∉ v2 → d ∉ rest := by
    intro d h1 h2 h3 h4 h5 h6 h7
    simp [rest, a2, h1, h2, h3, h4, h5, h6, h7]
  have hlt : '<' ∉ rest :=
    hnotin _ (validName_not_mem hk1 (by decide)) (validName_not_mem hk2 (by decide)) (by decide) (by decide)
      (by decide) (fun hm => (hv1 _ hm).2.1 rfl) (fun hm => (hv2 _ hm).2.1 rfl)
  have hgt : '>' ∉ rest :=
    hnotin _ (validName_not_mem hk1 (by decide)) (validName_not_mem hk2 (by decide)) (by decide) (by decide)
      (by decide) (fun hm => (hv1 _ hm).2.2 rfl) (fun hm => (hv2 _ hm).2.2 rfl)
  have hrest : rest = b :: (u ++ '=' :: '"' :: (v1 ++ '"' :: ' ' :: a2)) := by simp [rest, hbu]
  rw [e, scanMarkup_with_attrs hnm hrest hb hlast hlt hgt]
  have htrim_a2 : trim (' ' :: a2) = a2 := by
    have : trim (' ' :: a2) = trim a2 := by simp [trim, trimFront, List.dropWhile, isWs]
    rw [this]
    have ha2 : a2 = b2 :: (u2 ++ '=' :: '"' :: (v2 ++ ['"'])) := by simp [a2, hbu2]
    rw [ha2] at hlast_a2 ⊢
    exact xml_trim_eq_self hb2 hlast_a2 hq
  obtain ⟨f, hf⟩ : ∃ f, rest.length + 1 = f + 3 := ⟨rest.length - 2, by
    have : 2 ≤ rest.length := by simp [rest, a2]; omega
    omega⟩
  simp only [markupTail, Bool.false_eq_true, if_false]
  rw [hf]
  have s1 := scanAttrs_step (f + 2) k1 v1 (' ' :: a2) [] hk1 (fun hm => (hv1 _ hm).1 rfl) htv1
    (by intro c hc; rw [List.getLast?_cons, hlast_a2] at hc; simp at hc; subst hc; exact hq)
  have s2 := scanAttrs_step (f + 1) k2 v2 [] (mapInsert strLt k1 v1 []) hk2 (fun hm => (hv2 _ hm).1 rfl) htv2
    (by simp)
  have s3 := scanAttrs_nil f (mapInsert strLt k2 v2 (mapInsert strLt k1 v1 []))
  rw [htrim_a2] at s1
  rw [trim_nil] at s2
  have key : scanAttrs (f + 3) rest [] = some (mapInsert strLt k2 v2 (mapInsert strLt k1 v1 [])) := by
    rw [show rest = k1 ++ '=' :: '"' :: (v1 ++ '"' :: ' ' :: a2) from rfl, s1,
      show a2 = k2 ++ '=' :: '"' :: (v2 ++ '"' :: []) from rfl, s2, s3]
  rw [key]
  rfl

/-! ## Part 3: the mesh type string -/

/-- the nine supported mesh types `(shape, shape dimension, world dimension)` -/
theorem supported_cases {sh : Shape} {dim wdim : Nat} (hs : supported sh (dim : Int) (wdim : Int) = true) :
    (sh = .hyper ∧ dim = 1 ∧ wdim = 1) ∨ (sh = .hyper ∧ dim = 2 ∧ wdim = 2) ∨ (sh = .hyper ∧ dim = 3 ∧ wdim = 3) ∨
    (sh = .simplex ∧ dim = 2 ∧ wdim = 2) ∨ (sh = .simplex ∧ dim = 3 ∧ wdim = 3) ∨
    (sh = .hyper ∧ dim = 2 ∧ wdim = 3) ∨ (sh = .simplex ∧ dim = 2 ∧ wdim = 3) ∨
    (sh = .hyper ∧ dim = 1 ∧ wdim = 2) ∨ (sh = .hyper ∧ dim = 1 ∧ wdim = 3) := by
  cases sh <;> simp [supported] at hs <;> simp <;> omega

/-- conversely: each of the nine triples is supported -/
theorem supported_of_cases {sh : Shape} {dim wdim : Nat}
    (h : (sh = .hyper ∧ dim = 1 ∧ wdim = 1) ∨ (sh = .hyper ∧ dim = 2 ∧ wdim = 2) ∨ (sh = .hyper ∧ dim = 3 ∧ wdim = 3) ∨
      (sh = .simplex ∧ dim = 2 ∧ wdim = 2) ∨ (sh = .simplex ∧ dim = 3 ∧ wdim = 3) ∨
      (sh = .hyper ∧ dim = 2 ∧ wdim = 3) ∨ (sh = .simplex ∧ dim = 2 ∧ wdim = 3) ∨
      (sh = .hyper ∧ dim = 1 ∧ wdim = 2) ∨ (sh = .hyper ∧ dim = 1 ∧ wdim = 3)) :
    supported sh (dim : Int) (wdim : Int) = true := by
  rcases h with ⟨rfl, rfl, rfl⟩ | ⟨rfl, rfl, rfl⟩ | ⟨rfl, rfl, rfl⟩ | ⟨rfl, rfl, rfl⟩ | ⟨rfl, rfl, rfl⟩ |
    ⟨rfl, rfl, rfl⟩ | ⟨rfl, rfl, rfl⟩ | ⟨rfl, rfl, rfl⟩ | ⟨rfl, rfl, rfl⟩ <;> decide

theorem supported_pos {sh : Shape} {dim wdim : Nat} (hs : supported sh (dim : Int) (wdim : Int) = true) :
    0 < dim ∧ dim ≤ 3 ∧ 0 < wdim ∧ wdim ≤ 3 := by
  rcases supported_cases hs with ⟨-, rfl, rfl⟩ | ⟨-, rfl, rfl⟩ | ⟨-, rfl, rfl⟩ | ⟨-, rfl, rfl⟩ | ⟨-, rfl, rfl⟩ |
    ⟨-, rfl, rfl⟩ | ⟨-, rfl, rfl⟩ | ⟨-, rfl, rfl⟩ | ⟨-, rfl, rfl⟩ <;> decide

theorem splitByColon_meshTypeStr {sh : Shape} {dim wdim : Nat} (hs : supported sh (dim : Int) (wdim : Int) = true) :
    splitByColon (meshTypeStr sh dim wdim) = ["conformal".toList, sh.name, showNat dim, showNat wdim] := by
  rcases supported_cases hs with ⟨rfl, rfl, rfl⟩ | ⟨rfl, rfl, rfl⟩ | ⟨rfl, rfl, rfl⟩ | ⟨rfl, rfl, rfl⟩ | ⟨rfl, rfl, rfl⟩ |
    ⟨rfl, rfl, rfl⟩ | ⟨rfl, rfl, rfl⟩ | ⟨rfl, rfl, rfl⟩ | ⟨rfl, rfl, rfl⟩ <;> decide

theorem readInt_showNat_dim {sh : Shape} {dim wdim : Nat} (hs : supported sh (dim : Int) (wdim : Int) = true) :
    readInt (showNat dim) = some (dim : Int) ∧ readInt (showNat wdim) = some (wdim : Int) := by
  rcases supported_cases hs with ⟨rfl, rfl, rfl⟩ | ⟨rfl, rfl, rfl⟩ | ⟨rfl, rfl, rfl⟩ | ⟨rfl, rfl, rfl⟩ | ⟨rfl, rfl, rfl⟩ |
    ⟨rfl, rfl, rfl⟩ | ⟨rfl, rfl, rfl⟩ | ⟨rfl, rfl, rfl⟩ | ⟨rfl, rfl, rfl⟩ <;> decide

theorem meshTypeStr_chars {sh : Shape} {dim wdim : Nat} (hs : supported sh (dim : Int) (wdim : Int) = true) :
    ∀ c ∈ meshTypeStr sh dim wdim, c ≠ '"' ∧ c ≠ '<' ∧ c ≠ '>' ∧ c ≠ '\n' ∧ isWs c = false := by
  rcases supported_cases hs with ⟨rfl, rfl, rfl⟩ | ⟨rfl, rfl, rfl⟩ | ⟨rfl, rfl, rfl⟩ | ⟨rfl, rfl, rfl⟩ | ⟨rfl, rfl, rfl⟩ |
    ⟨rfl, rfl, rfl⟩ | ⟨rfl, rfl, rfl⟩ | ⟨rfl, rfl, rfl⟩ | ⟨rfl, rfl, rfl⟩ <;> decide

/-! ## Part 4: stepping the scanner -/

/-- parser states without chart links; the world dimension of the parser is the one stored in the node
    (the parser never changes `node.wdim`) -/
def mkSt (sh : Shape) (dim : Nat) (stack : List Frame) (node : Node) : St :=
  { shape := sh, dim := dim, wdim := node.wdim, stack := stack, node := node, links := [], deduct := [],
    unmodelled := false }

/-- scanning `lines` (followed by anything) takes the parser from `(names, st)` to `(names', st')` -/
def Run (lines : List Str) (names : List Str) (st : St) (names' : List Str) (st' : St) : Prop :=
  ∀ (tail : List Str) (i : Nat), ∃ j,
    scanLoop meshClient (lines ++ tail) i names st = scanLoop meshClient tail j names' st'

theorem Run.nil (names : List Str) (st : St) : Run [] names st names st :=
  fun _ i => ⟨i, rfl⟩

theorem Run.append {l1 l2 : List Str} {n1 n2 n3 : List Str} {s1 s2 s3 : St}
    (h1 : Run l1 n1 s1 n2 s2) (h2 : Run l2 n2 s2 n3 s3) : Run (l1 ++ l2) n1 s1 n3 s3 := by
  intro tail i
  obtain ⟨j, hj⟩ := h1 (l2 ++ tail) i
  obtain ⟨k, hk⟩ := h2 tail j
  exact ⟨k, by rw [List.append_assoc, hj, hk]⟩

theorem not_comment {s : Str} (h : s.head? ≠ some '<') : startsWith s "<!--".toList = false := by
  cases s with
  | nil => simp [startsWith]
  | cons a t =>
    have : a ≠ '<' := by simpa using h
    simp [startsWith, List.isPrefixOf]
    intro h; exact absurd h.symm this

theorem step_content {raw s : Str} {rest : List Str} {i : Nat} {names : List Str} {st st' : St}
    (htrim : trim raw = s) (hne : s ≠ []) (hhead : s.head? ≠ some '<') (hlast : s.getLast? ≠ some '>')
    (hc : contentM st (i + 1) s = .ok st') :
    scanLoop meshClient (raw :: rest) i names st = scanLoop meshClient rest (i + 1) names st' := by
  have he : s.isEmpty = false := by cases s <;> simp_all
  rw [scanLoop]
  simp only [htrim, he, not_comment hhead, scanMarkup_content' hhead hlast, meshClient, hc,
    Bool.false_eq_true, if_false]

theorem step_open {raw s : Str} {rest : List Str} {i : Nat} {names : List Str} {st st' : St} {m : Markup}
    (htrim : trim raw = s) (hne : s ≠ []) (hcom : startsWith s "<!--".toList = false)
    (hs : scanMarkup s = .ok (some m)) (hterm : m.termin = false) (hclosed : m.closed = false)
    (ho : openM st (i + 1) m = .ok st') :
    scanLoop meshClient (raw :: rest) i names st = scanLoop meshClient rest (i + 1) (m.name :: names) st' := by
  have he : s.isEmpty = false := by cases s <;> simp_all
  rw [scanLoop]
  simp only [htrim, he, hcom, hs, hterm, hclosed, meshClient, ho, Bool.false_eq_true, if_false]

theorem step_close {raw s nm : Str} {rest below : List Str} {i : Nat} {st st' : St}
    (htrim : trim raw = s) (hne : s ≠ []) (hcom : startsWith s "<!--".toList = false)
    (hs : scanMarkup s = .ok (some { name := nm, attrs := [], closed := false, termin := true }))
    (hc : closeTop st (i + 1) = .ok st') :
    scanLoop meshClient (raw :: rest) i (nm :: below) st =
      if below.isEmpty then .ok st' else scanLoop meshClient rest (i + 1) below st' := by
  have he : s.isEmpty = false := by cases s <;> simp_all
  rw [scanLoop]
  simp only [htrim, he, hcom, hs, meshClient, hc, Bool.false_eq_true, if_false, if_true, bne_self_eq_false]

/-! ## Part 5: content rows -/

theorem Run.single {raw : Str} {n n' : List Str} {st st' : St}
    (h : ∀ (tail : List Str) (i : Nat),
      scanLoop meshClient (raw :: tail) i n st = scanLoop meshClient tail (i + 1) n' st') :
    Run [raw] n st n' st' :=
  fun tail i => ⟨i + 1, h tail i⟩

theorem Run.cons {raw : Str} {l : List Str} {n1 n2 n3 : List Str} {s1 s2 s3 : St}
    (h1 : Run [raw] n1 s1 n2 s2) (h2 : Run l n2 s2 n3 s3) : Run (raw :: l) n1 s1 n3 s3 :=
  Run.append h1 h2

theorem mapMOpt_map {α β : Type} (f : β → Option α) (g : α → β) (l : List α)
    (h : ∀ a ∈ l, f (g a) = some a) : mapMOpt f (l.map g) = some l := by
  induction l with
  | nil => rfl
  | cons a as ih =>
    simp only [List.map_cons, mapMOpt, h a (by simp), ih (fun b hb => h b (by simp [hb]))]

theorem mapMOpt_id_map_some {α : Type} (l : List α) : mapMOpt id (l.map some) = some l :=
  mapMOpt_map id some l (fun _ _ => rfl)

/-! ### lines of number tokens -/

theorem joinSp_ne_nil {ts : List Str} (hne : ts ≠ []) (h : ∀ t ∈ ts, t ≠ []) : joinSp ts ≠ [] := by
  have := length_le_length_intercalate ts h
  have hl : 0 < ts.length := List.length_pos_iff.mpr hne
  intro e
  unfold joinSp at e
  rw [space_toList] at e
  rw [e, List.length_nil] at this
  omega

theorem tokLine_head {s : Str} (h : ∀ c ∈ s, c = ' ' ∨ tokChar c = true) : s.head? ≠ some '<' := by
  intro e
  rcases h _ (List.mem_of_head? e) with h | h
  · exact absurd h (by decide)
  · exact (tokChar_ne h).1 rfl

theorem tokLine_last {s : Str} (h : ∀ c ∈ s, c = ' ' ∨ tokChar c = true) : s.getLast? ≠ some '>' := by
  intro e
  rcases h _ (List.mem_of_getLast? e) with h | h
  · exact absurd h (by decide)
  · exact (tokChar_ne h).2.1 rfl

theorem splitWs_joinSp_showQ (v : List Rat) : splitWs (joinSp (v.map showQ)) = v.map showQ := by
  have := splitWs_showQ_line 0 v
  unfold joinSp
  simpa only [List.replicate_zero, List.nil_append] using this

theorem splitWs_joinSp_showNat (v : List Nat) : splitWs (joinSp (v.map showNat)) = v.map showNat := by
  have := splitWs_showNat_line 0 v
  unfold joinSp
  simpa only [List.replicate_zero, List.nil_append] using this

theorem trim_sp_joinSp_showQ (k : Nat) (v : List Rat) :
    trim (sp k ++ joinSp (v.map showQ)) = joinSp (v.map showQ) := by
  apply trim_replicate_intercalate
  intro t ht
  obtain ⟨q, -, rfl⟩ := List.mem_map.mp ht
  exact showQ_tok q

theorem trim_sp_joinSp_showNat (k : Nat) (v : List Nat) :
    trim (sp k ++ joinSp (v.map showNat)) = joinSp (v.map showNat) := by
  apply trim_replicate_intercalate
  intro t ht
  obtain ⟨q, -, rfl⟩ := List.mem_map.mp ht
  exact showNat_tok q

theorem joinSp_showQ_ne_nil {v : List Rat} (h : v ≠ []) : joinSp (v.map showQ) ≠ [] := by
  apply joinSp_ne_nil (by simpa using h)
  intro t ht
  obtain ⟨q, -, rfl⟩ := List.mem_map.mp ht
  exact (showQ_tok q).1

theorem joinSp_showNat_ne_nil {v : List Nat} (h : v ≠ []) : joinSp (v.map showNat) ≠ [] := by
  apply joinSp_ne_nil (by simpa using h)
  intro t ht
  obtain ⟨q, -, rfl⟩ := List.mem_map.mp ht
  exact (showNat_tok q).1

/-! ### the client on content rows -/

theorem contentM_vert_row (sh : Shape) (dim count line : Nat) (acc : List (List Rat)) (rs : List Frame)
    (node : Node) (v : List Rat) (hv : v.length = node.wdim) (hc : acc.length < count) :
    contentM (mkSt sh dim (Frame.verts count acc :: rs) node) line (joinSp (v.map showQ)) =
      .ok (mkSt sh dim (Frame.verts count (v :: acc) :: rs) node) := by
  have h1 : ¬ acc.length ≥ count := by omega
  have h2 : mapMOpt readQ (v.map showQ) = some v := mapMOpt_map _ _ _ (fun q _ => readQ_showQ q)
  simp [contentM, mkSt, h1, splitWs_joinSp_showQ, hv, h2]

theorem contentM_topo_row (sh : Shape) (dim d numIdx bound count line : Nat) (acc : List (List Nat))
    (rs : List Frame) (node : Node) (t : List Nat) (ht : t.length = numIdx) (hb : ∀ x ∈ t, x < bound)
    (hbound : bound ≤ 2 ^ 64) (hc : acc.length < count) :
    contentM (mkSt sh dim (Frame.topo d numIdx bound count acc :: rs) node) line (joinSp (t.map showNat)) =
      .ok (mkSt sh dim (Frame.topo d numIdx bound count (t :: acc) :: rs) node) := by
  have h1 : ¬ acc.length ≥ count := by omega
  have h2 : mapMOpt readIndex (t.map showNat) = some t :=
    mapMOpt_map _ _ _ (fun x hx => readIndex_showNat x (by have := hb x hx; omega))
  have h3 : t.any (fun i => decide (i ≥ bound)) = false := by
    simp only [List.any_eq_false, decide_eq_true_eq]
    intro x hx; have := hb x hx; omega
  simp [contentM, mkSt, h1, splitWs_joinSp_showNat, ht, h2, h3]

/-! ## Part 6: the vertex block and the topology tuple block -/

/-- the vertex block: every printed coordinate row is pushed onto the `Vertices` frame -/
theorem Run_vert_rows (sh : Shape) (dim count : Nat) (rs : List Frame) (node : Node) (names : List Str)
    (hdim : 0 < node.wdim) (rows : List (List Rat)) :
    ∀ (acc : List (List Rat)), (∀ v ∈ rows, v.length = node.wdim) → acc.length + rows.length ≤ count →
    Run (rows.map (fun v => sp 6 ++ joinSp (v.map showQ))) names
      (mkSt sh dim (Frame.verts count acc :: rs) node) names
      (mkSt sh dim (Frame.verts count (rows.reverse ++ acc) :: rs) node) := by
  induction rows with
  | nil => intro acc _ _; exact Run.nil _ _
  | cons v rows ih =>
    intro acc hrows hcount
    have hv : v.length = node.wdim := hrows v (by simp)
    have hvne : v ≠ [] := by intro e; subst e; simp at hv; omega
    simp only [List.length_cons] at hcount
    rw [List.map_cons, List.reverse_cons, List.append_assoc, List.singleton_append]
    refine Run.cons (Run.single ?_) (ih (v :: acc) (fun w hw => hrows w (by simp [hw])) (by simp; omega))
    intro tail i
    exact step_content (trim_sp_joinSp_showQ 6 v) (joinSp_showQ_ne_nil hvne)
      (tokLine_head (joinSp_showQ_chars v)) (tokLine_last (joinSp_showQ_chars v))
      (contentM_vert_row sh dim count (i + 1) acc rs node v hv (by omega))

/-- a topology block: every printed index tuple is pushed onto the `Topology` frame -/
theorem Run_topo_rows (sh : Shape) (dim d numIdx bound count ind : Nat) (rs : List Frame) (node : Node)
    (names : List Str) (hnum : 0 < numIdx) (hbound : bound ≤ 2 ^ 64) (rows : List (List Nat)) :
    ∀ (acc : List (List Nat)), (∀ t ∈ rows, t.length = numIdx ∧ ∀ x ∈ t, x < bound) →
    acc.length + rows.length ≤ count →
    Run (rows.map (fun t => sp ind ++ joinSp (t.map showNat))) names
      (mkSt sh dim (Frame.topo d numIdx bound count acc :: rs) node) names
      (mkSt sh dim (Frame.topo d numIdx bound count (rows.reverse ++ acc) :: rs) node) := by
  induction rows with
  | nil => intro acc _ _; exact Run.nil _ _
  | cons v rows ih =>
    intro acc hrows hcount
    have hv := hrows v (by simp)
    have hvne : v ≠ [] := by intro e; subst e; simp at hv; omega
    simp only [List.length_cons] at hcount
    rw [List.map_cons, List.reverse_cons, List.append_assoc, List.singleton_append]
    refine Run.cons (Run.single ?_) (ih (v :: acc) (fun w hw => hrows w (by simp [hw])) (by simp; omega))
    intro tail i
    exact step_content (trim_sp_joinSp_showNat ind v) (joinSp_showNat_ne_nil hvne)
      (tokLine_head (joinSp_showNat_chars v)) (tokLine_last (joinSp_showNat_chars v))
      (contentM_topo_row sh dim d numIdx bound count (i + 1) acc rs node v hv.1 hv.2 hbound (by omega))

/-! ## Part 7: the printed markup lines -/

/-! ### trimming and scanning the printed markup lines -/

theorem trim_markup_line (k : Nat) (body : Str) :
    trim (sp k ++ '<' :: (body ++ ['>'])) = '<' :: (body ++ ['>']) := by
  apply trim_replicate_append
  · intro c hc; simp at hc; subst hc; decide
  · intro c hc
    have : ('<' :: (body ++ ['>'])).getLast? = some '>' := by simp [List.getLast?_eq_head?_reverse]
    rw [this] at hc; simp at hc; subst hc; decide

theorem markup_not_comment {a : Char} {t : Str} (h : a ≠ '!') :
    startsWith ('<' :: a :: t) "<!--".toList = false := by
  simp [startsWith, List.isPrefixOf]
  intro e; exact absurd e.symm h

theorem joinSp_showNat_attr (ns : List Nat) :
    (∀ c ∈ joinSp (ns.map showNat), c ≠ '"' ∧ c ≠ '<' ∧ c ≠ '>') ∧
      trim (joinSp (ns.map showNat)) = joinSp (ns.map showNat) := by
  constructor
  · intro c hc
    rcases joinSp_showNat_chars ns c hc with rfl | h
    · decide
    · exact ⟨(tokChar_ne h).2.2.2.1, (tokChar_ne h).1, (tokChar_ne h).2.1⟩
  · have := trim_sp_joinSp_showNat 0 ns
    simpa only [sp, List.replicate_zero, List.nil_append] using this

theorem showNat_attr (n : Nat) :
    (∀ c ∈ showNat n, c ≠ '"' ∧ c ≠ '<' ∧ c ≠ '>') ∧ trim (showNat n) = showNat n := by
  constructor
  · intro c hc
    have h := tokChar_showNat n c hc
    exact ⟨(tokChar_ne h).2.2.2.1, (tokChar_ne h).1, (tokChar_ne h).2.1⟩
  · exact trim_eq_self_of_noWs _ (showNat_noWs n)

theorem meshTypeStr_attr {sh : Shape} {dim wdim : Nat} (hs : supported sh (dim : Int) (wdim : Int) = true) :
    (∀ c ∈ meshTypeStr sh dim wdim, c ≠ '"' ∧ c ≠ '<' ∧ c ≠ '>') ∧ trim (meshTypeStr sh dim wdim) = meshTypeStr sh dim wdim :=
  ⟨fun c hc => ⟨(meshTypeStr_chars hs c hc).1, (meshTypeStr_chars hs c hc).2.1, (meshTypeStr_chars hs c hc).2.2.1⟩,
   trim_eq_self_of_noWs _ (fun c hc => (meshTypeStr_chars hs c hc).2.2.2.2)⟩

theorem mapInsert_lt {k k' v v' : Str} (h : strLt k k' = true) :
    mapInsert strLt k v [(k', v')] = [(k, v), (k', v')] := by
  simp [mapInsert, h]

/-- the root line -/
theorem scan_root_line {sh : Shape} {dim wdim : Nat} (hs : supported sh (dim : Int) (wdim : Int) = true) :
    scanMarkup ("<FeatMeshFile version=\"1\"".toList ++ (" mesh=".toList ++ q (meshTypeStr sh dim wdim)) ++ ">".toList) =
      .ok (some { name := "FeatMeshFile".toList,
                  attrs := [("mesh".toList, meshTypeStr sh dim wdim), ("version".toList, ['1'])],
                  closed := false, termin := false }) := by
  have e : "<FeatMeshFile version=\"1\"".toList ++ (" mesh=".toList ++ q (meshTypeStr sh dim wdim)) ++ ">".toList =
      '<' :: ("FeatMeshFile".toList ++ ' ' :: ("version".toList ++ '=' :: '"' :: (['1'] ++ '"' :: ' ' ::
        ("mesh".toList ++ '=' :: '"' :: (meshTypeStr sh dim wdim ++ ['"', '>']))))) := by
    simp [q]
  rw [e, scanMarkup_two_attr (by decide) (by decide) (by decide) (by decide) (by decide)
    (meshTypeStr_attr hs).1 (meshTypeStr_attr hs).2]
  rw [mapInsert_lt (by decide)]

/-- the `<Mesh …>` line -/
theorem scan_mesh_line {sh : Shape} {dim wdim : Nat} (hs : supported sh (dim : Int) (wdim : Int) = true)
    (sizes : List Nat) :
    scanMarkup ('<' :: ("Mesh type=".toList ++ q (meshTypeStr sh dim wdim) ++ " size=".toList ++
        q (joinSp (sizes.map showNat))) ++ ['>']) =
      .ok (some { name := "Mesh".toList,
                  attrs := [("size".toList, joinSp (sizes.map showNat)), ("type".toList, meshTypeStr sh dim wdim)],
                  closed := false, termin := false }) := by
  have e : '<' :: ("Mesh type=".toList ++ q (meshTypeStr sh dim wdim) ++ " size=".toList ++
        q (joinSp (sizes.map showNat))) ++ ['>'] =
      '<' :: ("Mesh".toList ++ ' ' :: ("type".toList ++ '=' :: '"' :: (meshTypeStr sh dim wdim ++ '"' :: ' ' ::
        ("size".toList ++ '=' :: '"' :: (joinSp (sizes.map showNat) ++ ['"', '>']))))) := by
    simp [q]
  rw [e, scanMarkup_two_attr (by decide) (by decide) (by decide)
    (meshTypeStr_attr hs).1 (meshTypeStr_attr hs).2 (joinSp_showNat_attr sizes).1 (joinSp_showNat_attr sizes).2]
  rw [mapInsert_lt (by decide)]

/-- the `<Topology dim="d">` line -/
theorem scan_topo_line (d : Nat) :
    scanMarkup ('<' :: ("Topology dim=".toList ++ q (showNat d)) ++ ['>']) =
      .ok (some { name := "Topology".toList, attrs := [("dim".toList, showNat d)],
                  closed := false, termin := false }) := by
  have e : '<' :: ("Topology dim=".toList ++ q (showNat d)) ++ ['>'] =
      '<' :: ("Topology".toList ++ ' ' :: ("dim".toList ++ '=' :: '"' :: (showNat d ++ ['"', '>']))) := by
    simp [q]
  rw [e, scanMarkup_one_attr (by decide) (by decide) (showNat_attr d).1 (showNat_attr d).2]

/-! ## Part 8: the markup parsers on the printed markups -/

theorem readIndex_sizes {sizes : List Nat} (h64 : ∀ s ∈ sizes, s < 2 ^ 64) :
    mapMOpt readIndex (sizes.map showNat) = some sizes :=
  mapMOpt_map _ _ _ (fun x hx => readIndex_showNat x (h64 x hx))

theorem meshCreate_printed {sh : Shape} {dim wdim : Nat} (hs : supported sh (dim : Int) (wdim : Int) = true)
    (sizes : List Nat) (hlen : sizes.length = dim + 1) (h64 : ∀ s ∈ sizes, s < 2 ^ 64)
    (hzb : zeroBelow sizes = false)
    (stack : List Frame) (node : Node) (hnw : node.wdim = wdim) (line : Nat) :
    meshCreate (mkSt sh dim stack node) line
      (⟨"Mesh".toList, [("size".toList, joinSp (sizes.map showNat)), ("type".toList, meshTypeStr sh dim wdim)],
        false, false⟩ : Markup) =
      .ok (Frame.mesh sizes none (List.replicate dim none)) := by
  have a1 : attrOf (⟨"Mesh".toList, [("size".toList, joinSp (sizes.map showNat)), ("type".toList, meshTypeStr sh dim wdim)],
        false, false⟩ : Markup) "type" = some (meshTypeStr sh dim wdim) := by
    have h1 : strLt "type".toList "size".toList = false := by decide
    have h2 : strLt "size".toList "type".toList = true := by decide
    have h3 : strLt "type".toList "type".toList = false := by decide
    simp only [attrOf, mapFind, h1, h2, h3]; rfl
  have a2 : attrOf (⟨"Mesh".toList, [("size".toList, joinSp (sizes.map showNat)), ("type".toList, meshTypeStr sh dim wdim)],
        false, false⟩ : Markup) "size" = some (joinSp (sizes.map showNat)) := by
    have h1 : strLt "size".toList "size".toList = false := by decide
    simp only [attrOf, mapFind, h1]; rfl
  unfold meshCreate
  rw [a1, a2]
  simp only [splitByColon_meshTypeStr hs, (readInt_showNat_dim hs).1, (readInt_showNat_dim hs).2, mkSt, hnw,
    splitWs_joinSp_showNat, List.length_map, hlen, readIndex_sizes h64, hzb]
  simp


theorem String_ofList_toList (s : String) : String.ofList s.toList = s := by simp

theorem openM_mesh {sh : Shape} {dim wdim : Nat} (hs : supported sh (dim : Int) (wdim : Int) = true)
    (sizes : List Nat) (hlen : sizes.length = dim + 1) (h64 : ∀ s ∈ sizes, s < 2 ^ 64)
    (hzb : zeroBelow sizes = false) (line : Nat) :
    openM (mkSt sh dim [Frame.root] { mesh := none, parts := [], partitions := [], wdim := wdim }) line
      (⟨"Mesh".toList, [("size".toList, joinSp (sizes.map showNat)), ("type".toList, meshTypeStr sh dim wdim)],
        false, false⟩ : Markup) =
      .ok (mkSt sh dim [Frame.mesh sizes none (List.replicate dim none), Frame.root]
        { mesh := none, parts := [], partitions := [], wdim := wdim }) := by
  have hc : checkAttribs line (specOf "Mesh")
      [("size".toList, joinSp (sizes.map showNat)), ("type".toList, meshTypeStr sh dim wdim)] = .ok () := by
    simp [checkAttribs, specOf]
  have hm := meshCreate_printed hs sizes hlen h64 hzb [Frame.root]
    { mesh := none, parts := [], partitions := [], wdim := wdim } rfl line
  generalize hst : mkSt sh dim [Frame.root] { mesh := none, parts := [], partitions := [], wdim := wdim } = st at hm ⊢
  generalize hmm : (⟨"Mesh".toList, [("size".toList, joinSp (sizes.map showNat)),
    ("type".toList, meshTypeStr sh dim wdim)], false, false⟩ : Markup) = m at hm ⊢
  have hstack : st.stack = [Frame.root] := by rw [← hst]; rfl
  have hnode : st.node.mesh = none := by rw [← hst]; rfl
  have hn : String.ofList m.name = "Mesh" := by rw [← hmm]; exact String_ofList_toList _
  have ha : m.attrs = [("size".toList, joinSp (sizes.map showNat)), ("type".toList, meshTypeStr sh dim wdim)] := by
    rw [← hmm]
  have hcl : m.closed = false := by rw [← hmm]
  unfold openM
  rw [hstack]
  simp only [hn, ha, hc, hcl, hm, hnode]
  simp [← hst, mkSt]

theorem openM_vertices (sh : Shape) (dim : Nat) (sizes : List Nat) (topo : List (Option (List (List Nat))))
    (rs : List Frame) (node : Node) (line : Nat) :
    openM (mkSt sh dim (Frame.mesh sizes none topo :: rs) node) line
      (⟨"Vertices".toList, [], false, false⟩ : Markup) =
      .ok (mkSt sh dim (Frame.verts (sizes.getD 0 0) [] :: Frame.mesh sizes none topo :: rs) node) := by
  have hc : checkAttribs line (specOf "Vertices") [] = .ok () := by
    simp [checkAttribs, specOf]
  generalize hst : mkSt sh dim (Frame.mesh sizes none topo :: rs) node = st
  generalize hmm : (⟨"Vertices".toList, [], false, false⟩ : Markup) = m
  have hstack : st.stack = Frame.mesh sizes none topo :: rs := by rw [← hst]; rfl
  have hn : String.ofList m.name = "Vertices" := by rw [← hmm]; exact String_ofList_toList _
  have ha : m.attrs = [] := by rw [← hmm]
  have hcl : m.closed = false := by rw [← hmm]
  unfold openM
  rw [hstack]
  simp only [hn, ha, hc, hcl]
  simp [← hst, mkSt]

theorem topoCreate_printed (sh : Shape) (dim : Nat) (stack : List Frame) (node : Node) (line d : Nat)
    (sizes : List Nat) (topo : List (Option (List (List Nat))))
    (hd64 : d < 2 ^ 64) (hd0 : 0 < d) (hdl : d ≤ topo.length) (hnone : topo.getD (d - 1) none = none) :
    topoCreate (mkSt sh dim stack node) line (⟨"Topology".toList, [("dim".toList, showNat d)], false, false⟩ : Markup)
      sizes topo = .ok (Frame.topo d (nverts sh d) (sizes.getD 0 0) (sizes.getD d 0) []) := by
  have a1 : attrOf (⟨"Topology".toList, [("dim".toList, showNat d)], false, false⟩ : Markup) "dim" =
      some (showNat d) := by
    have h1 : strLt "dim".toList "dim".toList = false := by decide
    simp only [attrOf, mapFind, h1]; rfl
  have h1 : ¬ (d > topo.length) := by omega
  have h2 : (d == 0) = false := by simp; omega
  unfold topoCreate
  rw [a1]
  simp only [readIndex_showNat d hd64, hnone, mkSt]
  simp [h1, h2]

theorem openM_topology (sh : Shape) (dim : Nat) (sizes : List Nat) (verts : Option (List (List Rat)))
    (topo : List (Option (List (List Nat)))) (rs : List Frame) (node : Node) (line d : Nat)
    (hd64 : d < 2 ^ 64) (hd0 : 0 < d) (hdl : d ≤ topo.length) (hnone : topo.getD (d - 1) none = none) :
    openM (mkSt sh dim (Frame.mesh sizes verts topo :: rs) node) line
      (⟨"Topology".toList, [("dim".toList, showNat d)], false, false⟩ : Markup) =
      .ok (mkSt sh dim (Frame.topo d (nverts sh d) (sizes.getD 0 0) (sizes.getD d 0) [] ::
        Frame.mesh sizes verts topo :: rs) node) := by
  have hc : checkAttribs line (specOf "Topology") [("dim".toList, showNat d)] = .ok () := by
    simp [checkAttribs, specOf]
  have hm := topoCreate_printed sh dim (Frame.mesh sizes verts topo :: rs) node line d sizes topo hd64 hd0 hdl hnone
  generalize hst : mkSt sh dim (Frame.mesh sizes verts topo :: rs) node = st at hm ⊢
  generalize hmm : (⟨"Topology".toList, [("dim".toList, showNat d)], false, false⟩ : Markup) = m at hm ⊢
  have hstack : st.stack = Frame.mesh sizes verts topo :: rs := by rw [← hst]; rfl
  have hn : String.ofList m.name = "Topology" := by rw [← hmm]; exact String_ofList_toList _
  have ha : m.attrs = [("dim".toList, showNat d)] := by rw [← hmm]
  have hcl : m.closed = false := by rw [← hmm]
  unfold openM
  rw [hstack]
  simp only [hn, ha, hc, hcl, hm]
  simp [← hst, mkSt]

theorem closeTop_verts_frame (sh : Shape) (dim count : Nat) (acc : List (List Rat)) (sizes : List Nat)
    (v : Option (List (List Rat))) (topo : List (Option (List (List Nat)))) (rs : List Frame) (node : Node)
    (line : Nat) (h : count ≤ acc.length) :
    closeTop (mkSt sh dim (Frame.verts count acc :: Frame.mesh sizes v topo :: rs) node) line =
      .ok (mkSt sh dim (Frame.mesh sizes (some acc.reverse) topo :: rs) node) := by
  simp [closeTop, mkSt, Nat.not_lt.mpr h]

theorem closeTop_topo_frame (sh : Shape) (dim d numIdx bound count : Nat) (acc : List (List Nat))
    (sizes : List Nat) (v : Option (List (List Rat))) (topo : List (Option (List (List Nat))))
    (rs : List Frame) (node : Node) (line : Nat) (h : count ≤ acc.length) :
    closeTop (mkSt sh dim (Frame.topo d numIdx bound count acc :: Frame.mesh sizes v topo :: rs) node) line =
      .ok (mkSt sh dim (Frame.mesh sizes v (topo.set (d - 1) (some acc.reverse)) :: rs) node) := by
  simp [closeTop, mkSt, Nat.not_lt.mpr h]

theorem closeTop_mesh_frame (sh : Shape) (dim wdim : Nat) (sizes : List Nat) (vs : List (List Rat))
    (ts : List (List (List Nat))) (rs : List Frame) (line : Nat) :
    closeTop (mkSt sh dim (Frame.mesh sizes (some vs) (ts.map some) :: rs)
        { mesh := none, parts := [], partitions := [], wdim := wdim }) line =
      .ok (mkSt sh dim rs { mesh := some { sizes := sizes, verts := vs, topo := ts }, parts := [], partitions := [], wdim := wdim }) := by
  simp [closeTop, mkSt, mapMOpt_id_map_some]

theorem closeTop_root_frame (sh : Shape) (dim : Nat) (node : Node) (line : Nat) :
    closeTop (mkSt sh dim [Frame.root] node) line = .ok (mkSt sh dim [] node) := by
  simp [closeTop, mkSt]

/-! ## Part 9: markup lines as runs, the Vertices block -/

/-! ### single markup lines as runs -/

theorem Run_open_line {k : Nat} {a : Char} {t : Str} (ha : a ≠ '!') {m : Markup}
    (hs : scanMarkup ('<' :: ((a :: t) ++ ['>'])) = .ok (some m)) (hterm : m.termin = false)
    (hclosed : m.closed = false) {st st' : St} (ho : ∀ line, openM st line m = .ok st') (names : List Str) :
    Run [sp k ++ '<' :: ((a :: t) ++ ['>'])] names st (m.name :: names) st' := by
  apply Run.single
  intro tail i
  exact step_open (trim_markup_line k (a :: t)) (by simp) (markup_not_comment ha) hs hterm hclosed (ho _)

theorem Run_close_line {k : Nat} {nm : Str} (hv : validName nm = true) {st st' : St}
    (hc : ∀ line, closeTop st line = .ok st') (b : Str) (below : List Str) :
    Run [sp k ++ '<' :: (('/' :: nm) ++ ['>'])] (nm :: b :: below) st (b :: below) st' := by
  apply Run.single
  intro tail i
  have := step_close (rest := tail) (below := b :: below) (i := i)
    (trim_markup_line k ('/' :: nm)) (by simp) (markup_not_comment (by decide))
    (scanMarkup_terminator hv) (hc _)
  simpa using this

/-- the final terminator: the scanner returns -/
theorem final_close_line {nm : Str} (hv : validName nm = true) {st st' : St}
    (hc : ∀ line, closeTop st line = .ok st') (tail : List Str) (i : Nat) :
    scanLoop meshClient (('<' :: (('/' :: nm) ++ ['>'])) :: tail) i [nm] st = .ok st' := by
  have := step_close (rest := tail) (below := []) (i := i)
    (trim_markup_line 0 ('/' :: nm)) (by simp) (markup_not_comment (by decide))
    (scanMarkup_terminator hv) (hc _)
  simpa [sp] using this

/-! ### the `<Vertices>` block -/

theorem Run_vertices_block (sh : Shape) (dim : Nat) (sizes : List Nat) (topo : List (Option (List (List Nat))))
    (rs : List Frame) (node : Node) (b : Str) (below : List Str) (verts : List (List Rat))
    (hdim : 0 < node.wdim) (hlen : verts.length = sizes.getD 0 0) (hrows : ∀ v ∈ verts, v.length = node.wdim) :
    Run ([sp 4 ++ "<Vertices>".toList] ++ verts.map (fun v => sp 6 ++ joinSp (v.map showQ)) ++
          [sp 4 ++ "</Vertices>".toList]) (b :: below)
      (mkSt sh dim (Frame.mesh sizes none topo :: rs) node) (b :: below)
      (mkSt sh dim (Frame.mesh sizes (some verts) topo :: rs) node) := by
  have e1 : "<Vertices>".toList = '<' :: (('V' :: "ertices".toList) ++ ['>']) := by decide
  have e2 : "</Vertices>".toList = '<' :: (('/' :: "Vertices".toList) ++ ['>']) := by decide
  rw [e1, e2]
  have hs : scanMarkup ('<' :: (('V' :: "ertices".toList) ++ ['>'])) =
      .ok (some (⟨"Vertices".toList, [], false, false⟩ : Markup)) :=
    scanMarkup_open (nm := "Vertices".toList) (by decide)
  have r1 := Run_open_line (k := 4) (by decide) hs rfl rfl
    (fun line => openM_vertices sh dim sizes topo rs node line) (b :: below)
  have r2 := Run_vert_rows sh dim (sizes.getD 0 0) (Frame.mesh sizes none topo :: rs) node
    ("Vertices".toList :: b :: below) hdim verts [] hrows (by simp [hlen])
  have r3 := Run_close_line (k := 4) (nm := "Vertices".toList) (by decide)
    (fun line => closeTop_verts_frame sh dim (sizes.getD 0 0) (verts.reverse ++ []) sizes none topo rs node line
      (by simp [hlen])) b below
  have := Run.append (Run.append r1 r2) r3
  simpa using this

/-! ## Part 10: the Topology blocks -/

theorem nverts_pos (sh : Shape) (d : Nat) : 0 < nverts sh d := by
  cases sh
  · exact Nat.pow_pos (by decide)
  · exact Nat.succ_pos _

/-- the lines of one topology block as printed by `writeTopo` -/
def topoBlock (ind i : Nat) (tuples : List (List Nat)) : List Str :=
  [sp ind ++ "<Topology dim=".toList ++ q (showNat (i + 1)) ++ ">".toList] ++
    tuples.map (fun t => sp (ind + 2) ++ joinSp (t.map showNat)) ++
    [sp ind ++ "</Topology>".toList]

theorem Run_topo_block (sh : Shape) (dim ind : Nat) (sizes : List Nat) (verts : Option (List (List Rat)))
    (topo : List (Option (List (List Nat)))) (rs : List Frame) (node : Node) (b : Str) (below : List Str)
    (i : Nat) (tuples : List (List Nat)) (hi : i < topo.length) (hi64 : i + 1 < 2 ^ 64)
    (hnone : topo.getD i none = none) (hbound : sizes.getD 0 0 ≤ 2 ^ 64)
    (hlen : tuples.length = sizes.getD (i + 1) 0)
    (hrows : ∀ t ∈ tuples, t.length = nverts sh (i + 1) ∧ ∀ x ∈ t, x < sizes.getD 0 0) :
    Run (topoBlock ind i tuples) (b :: below)
      (mkSt sh dim (Frame.mesh sizes verts topo :: rs) node) (b :: below)
      (mkSt sh dim (Frame.mesh sizes verts (topo.set i (some tuples)) :: rs) node) := by
  have e1 : sp ind ++ "<Topology dim=".toList ++ q (showNat (i + 1)) ++ ">".toList =
      sp ind ++ '<' :: (('T' :: ("opology dim=".toList ++ q (showNat (i + 1)))) ++ ['>']) := by
    simp
  have e2 : "</Topology>".toList = '<' :: (('/' :: "Topology".toList) ++ ['>']) := by decide
  unfold topoBlock
  rw [e1, e2]
  have hs : scanMarkup ('<' :: (('T' :: ("opology dim=".toList ++ q (showNat (i + 1)))) ++ ['>'])) =
      .ok (some (⟨"Topology".toList, [("dim".toList, showNat (i + 1))], false, false⟩ : Markup)) :=
    scan_topo_line (i + 1)
  have r1 := Run_open_line (k := ind) (by decide) hs rfl rfl
    (fun line => openM_topology sh dim sizes verts topo rs node line (i + 1) hi64 (by omega) (by omega)
      (by simpa using hnone)) (b :: below)
  have r2 := Run_topo_rows sh dim (i + 1) (nverts sh (i + 1)) (sizes.getD 0 0) (sizes.getD (i + 1) 0) (ind + 2)
    (Frame.mesh sizes verts topo :: rs) node ("Topology".toList :: b :: below) (nverts_pos _ _) hbound
    tuples [] hrows (by simp [hlen])
  have r3 := Run_close_line (k := ind) (nm := "Topology".toList) (by decide)
    (fun line => closeTop_topo_frame sh dim (i + 1) (nverts sh (i + 1)) (sizes.getD 0 0) (sizes.getD (i + 1) 0)
      (tuples.reverse ++ []) sizes verts topo rs node line (by simp [hlen])) b below
  have := Run.append (Run.append r1 r2) r3
  simpa using this


/-- all topology blocks, dimension `k + 1` onwards -/
def topoBlocks (ind : Nat) : Nat → List (List (List Nat)) → List Str
  | _, [] => []
  | k, t :: ts => topoBlock ind k t ++ topoBlocks ind (k + 1) ts

theorem writeTopo_aux (ind : Nat) (ts : List (List (List Nat))) : ∀ k : Nat,
    ((ts.zipIdx k).map (fun (tuples, i) =>
      if false && tuples.isEmpty then []
      else
        [sp ind ++ "<Topology dim=".toList ++ q (showNat (i + 1)) ++ ">".toList] ++
        tuples.map (fun t => sp (ind + 2) ++ joinSp (t.map showNat)) ++
        [sp ind ++ "</Topology>".toList])).flatten = topoBlocks ind k ts := by
  induction ts with
  | nil => intro k; rfl
  | cons t ts ih =>
    intro k
    rw [List.zipIdx_cons, List.map_cons, List.flatten_cons, ih (k + 1)]
    simp [topoBlocks, topoBlock]

theorem writeTopo_eq (ind : Nat) (ts : List (List (List Nat))) :
    writeTopo ind false ts = topoBlocks ind 0 ts := by
  unfold writeTopo
  exact writeTopo_aux ind ts 0

theorem getD_append_length {α : Type} (l1 : List α) (a : α) (l2 : List α) (d : α) :
    (l1 ++ a :: l2).getD l1.length d = a := by
  induction l1 with
  | nil => rfl
  | cons x xs ih => simp

theorem set_append_length {α : Type} (l1 : List α) (a b : α) (l2 : List α) :
    (l1 ++ a :: l2).set l1.length b = l1 ++ b :: l2 := by
  induction l1 with
  | nil => rfl
  | cons x xs ih => simp

/-- what `Mesh.wf` says about the tuples of dimension `i + 1` -/
def tuplesProp (sh : Shape) (sizes : List Nat) (i : Nat) (t : List (List Nat)) : Prop :=
  t.length = sizes.getD (i + 1) 0 ∧ ∀ tup ∈ t, tup.length = nverts sh (i + 1) ∧ ∀ x ∈ tup, x < sizes.getD 0 0

/-- all topology blocks: the slots of the `Mesh` frame are filled one after the other -/
theorem Run_topo_blocks (sh : Shape) (dim ind : Nat) (sizes : List Nat) (verts : Option (List (List Rat)))
    (rs : List Frame) (node : Node) (b : Str) (below : List Str) (hbound : sizes.getD 0 0 ≤ 2 ^ 64)
    (ts : List (List (List Nat))) :
    ∀ (k : Nat) (done : List (List (List Nat))), done.length = k → k + ts.length < 2 ^ 64 →
    (∀ j, j < ts.length → tuplesProp sh sizes (k + j) (ts.getD j [])) →
    Run (topoBlocks ind k ts) (b :: below)
      (mkSt sh dim (Frame.mesh sizes verts (done.map some ++ List.replicate ts.length none) :: rs) node)
      (b :: below)
      (mkSt sh dim (Frame.mesh sizes verts ((done ++ ts).map some) :: rs) node) := by
  induction ts with
  | nil =>
    intro k done _ _ _
    simpa [topoBlocks] using Run.nil _ _
  | cons t ts ih =>
    intro k done hk h64 hP
    subst hk
    have hP0 : tuplesProp sh sizes done.length t := by simpa using hP 0 (by simp)
    have hlen : (done.map some).length = done.length := by simp
    have r1 := Run_topo_block sh dim ind sizes verts
      (done.map some ++ none :: List.replicate ts.length none) rs node b below done.length t
      (by simp) (by simp at h64; omega)
      (by rw [← hlen]; exact getD_append_length _ _ _ _) hbound hP0.1 hP0.2
    have hset : (done.map some ++ none :: List.replicate ts.length none).set done.length (some t) =
        (done ++ [t]).map some ++ List.replicate ts.length none := by
      rw [← hlen, set_append_length]; simp
    rw [hset] at r1
    have r2 := ih (done.length + 1) (done ++ [t]) (by simp) (by simp at h64; omega)
      (by
        intro j hj
        have := hP (j + 1) (by simp; omega)
        simpa [Nat.add_assoc, Nat.add_comm 1 j] using this)
    have := Run.append r1 r2
    simpa [topoBlocks, List.replicate_succ] using this

/-! ## Part 11: the lines of the printed text -/

/-! ### the printed lines contain no line break -/

theorem nl_sp (k : Nat) : '\n' ∉ sp k := by
  simp [sp]

theorem nl_append {a b : Str} (ha : '\n' ∉ a) (hb : '\n' ∉ b) : '\n' ∉ a ++ b := by
  simp [ha, hb]

theorem nl_q {s : Str} (h : '\n' ∉ s) : '\n' ∉ q s := by
  simp [q, h]

theorem nl_tokLine {s : Str} (h : ∀ c ∈ s, c = ' ' ∨ tokChar c = true) : '\n' ∉ s := by
  intro hm
  rcases h _ hm with h | h
  · exact absurd h (by decide)
  · exact (tokChar_ne h).2.2.1 rfl

theorem nl_showNat (n : Nat) : '\n' ∉ showNat n :=
  nl_tokLine (fun c hc => Or.inr (tokChar_showNat n c hc))

theorem nl_meshTypeStr {sh : Shape} {dim wdim : Nat} (hs : supported sh (dim : Int) (wdim : Int) = true) :
    '\n' ∉ meshTypeStr sh dim wdim :=
  fun hm => (meshTypeStr_chars hs _ hm).2.2.2.1 rfl

theorem nl_topoBlock (ind i : Nat) (t : List (List Nat)) : ∀ l ∈ topoBlock ind i t, '\n' ∉ l := by
  intro l hl
  simp only [topoBlock, List.mem_append, List.mem_singleton, List.mem_map] at hl
  rcases hl with (rfl | ⟨tup, -, rfl⟩) | rfl
  · have h1 := nl_sp ind
    have h2 := nl_q (nl_showNat (i + 1))
    have h3 : '\n' ∉ "<Topology dim=".toList := by decide
    have h4 : '\n' ∉ ">".toList := by decide
    exact nl_append (nl_append (nl_append h1 h3) h2) h4
  · have h1 := nl_sp (ind + 2)
    have h2 := nl_tokLine (joinSp_showNat_chars tup)
    exact nl_append h1 h2
  · have h1 := nl_sp ind
    have h3 : '\n' ∉ "</Topology>".toList := by decide
    exact nl_append h1 h3

theorem nl_topoBlocks (ind : Nat) (ts : List (List (List Nat))) :
    ∀ k, ∀ l ∈ topoBlocks ind k ts, '\n' ∉ l := by
  induction ts with
  | nil => intro k l hl; simp [topoBlocks] at hl
  | cons t ts ih =>
    intro k l hl
    simp only [topoBlocks, List.mem_append] at hl
    rcases hl with hl | hl
    · exact nl_topoBlock ind k t l hl
    · exact ih (k + 1) l hl

theorem nl_writeMesh {sh : Shape} {dim wdim : Nat} (hs : supported sh (dim : Int) (wdim : Int) = true) (m : Mesh) :
    ∀ l ∈ writeMesh sh dim wdim m, '\n' ∉ l := by
  intro l hl
  simp only [writeMesh, writeTopo_eq, List.mem_append, List.mem_cons, List.mem_map, List.not_mem_nil,
    or_false] at hl
  rcases hl with ((((rfl | rfl) | ⟨v, -, rfl⟩) | rfl) | hl) | rfl
  · have h1 := nl_sp 2
    have h2 := nl_q (nl_meshTypeStr hs)
    have h3 : '\n' ∉ "<Mesh type=".toList := by decide
    have h4 : '\n' ∉ " size=".toList := by decide
    have h5 := nl_q (nl_tokLine (joinSp_showNat_chars m.sizes))
    have h6 : '\n' ∉ ">".toList := by decide
    exact nl_append (nl_append (nl_append (nl_append (nl_append h1 h3) h2) h4) h5) h6
  · have h1 := nl_sp 4
    have h3 : '\n' ∉ "<Vertices>".toList := by decide
    exact nl_append h1 h3
  · have h1 := nl_sp 6
    have h2 := nl_tokLine (joinSp_showQ_chars v)
    exact nl_append h1 h2
  · have h1 := nl_sp 4
    have h3 : '\n' ∉ "</Vertices>".toList := by decide
    exact nl_append h1 h3
  · exact nl_topoBlocks 4 m.topo 0 l hl
  · have h1 := nl_sp 2
    have h3 : '\n' ∉ "</Mesh>".toList := by decide
    exact nl_append h1 h3

/-- the root line and the last line of a file with a root mesh only -/
def rootLine (sh : Shape) (dim wdim : Nat) : Str :=
  "<FeatMeshFile version=\"1\"".toList ++ (" mesh=".toList ++ q (meshTypeStr sh dim wdim)) ++ ">".toList

theorem writeLines_mesh (sh : Shape) (dim wdim : Nat) (m : Mesh) :
    writeLines sh dim { mesh := some m, parts := [], partitions := [], wdim := wdim } =
      rootLine sh dim wdim :: (writeMesh sh dim wdim m ++ ["</FeatMeshFile>".toList]) := by
  unfold writeLines rootLine
  dsimp only
  simp only [List.map_nil, List.flatten_nil, List.append_nil, List.cons_append, List.nil_append]

theorem nl_writeLines {sh : Shape} {dim wdim : Nat} (hs : supported sh (dim : Int) (wdim : Int) = true) (m : Mesh) :
    ∀ l ∈ writeLines sh dim { mesh := some m, parts := [], partitions := [], wdim := wdim }, '\n' ∉ l := by
  intro l hl
  rw [writeLines_mesh] at hl
  simp only [List.mem_cons, List.mem_append, List.not_mem_nil, or_false] at hl
  rcases hl with rfl | hl | rfl
  · have h2 := nl_q (nl_meshTypeStr hs)
    have h3 : '\n' ∉ "<FeatMeshFile version=\"1\"".toList := by simp
    have h4 : '\n' ∉ " mesh=".toList := by decide
    have h6 : '\n' ∉ ">".toList := by decide
    exact nl_append (nl_append h3 (nl_append h4 h2)) h6
  · exact nl_writeMesh hs m l hl
  · decide

/-- item (1): the scanner sees exactly the written lines, plus the final empty read -/
theorem splitLines_print {sh : Shape} {dim wdim : Nat} (hs : supported sh (dim : Int) (wdim : Int) = true) (m : Mesh) :
    splitLines (printMeshFile sh dim { mesh := some m, parts := [], partitions := [], wdim := wdim }) =
      rootLine sh dim wdim :: (writeMesh sh dim wdim m ++ ["</FeatMeshFile>".toList]) ++ [[]] := by
  unfold splitLines printMeshFile
  rw [splitChar_flatMap '\n' _ (nl_writeLines hs m), writeLines_mesh]

/-! ## Part 12: assembling the round trip -/

/-- the scanned root markup -/
def rootMarkup (sh : Shape) (dim wdim : Nat) : Markup :=
  ⟨"FeatMeshFile".toList, [("mesh".toList, meshTypeStr sh dim wdim), ("version".toList, ['1'])], false, false⟩

theorem readRoot_print {sh : Shape} {dim wdim : Nat} (hs : supported sh (dim : Int) (wdim : Int) = true)
    (rest : List Str) :
    readRoot (rootLine sh dim wdim :: rest) 0 = .ok (rootMarkup sh dim wdim, 1, rest) := by
  have e : rootLine sh dim wdim = sp 0 ++ '<' :: (("FeatMeshFile version=\"1\"".toList ++
      (" mesh=".toList ++ q (meshTypeStr sh dim wdim))) ++ ['>']) := by
    unfold rootLine
    simp [sp]
  have htrim : trim (rootLine sh dim wdim) = rootLine sh dim wdim := by
    conv => lhs; rw [e]
    rw [trim_markup_line, e]; simp [sp]
  have hne : (rootLine sh dim wdim).isEmpty = false := by rw [e]; simp
  have hs' : scanMarkup (rootLine sh dim wdim) = .ok (some (rootMarkup sh dim wdim)) := scan_root_line hs
  rw [readRoot]
  simp only [htrim, hne, hs', Bool.false_eq_true, if_false]
  have h1 : (rootMarkup sh dim wdim).closed = false := rfl
  have h2 : (rootMarkup sh dim wdim).termin = false := rfl
  simp only [h1, h2, Bool.or_self, Bool.false_eq_true, if_false]

theorem rootType_print {sh : Shape} {dim wdim : Nat} (hs : supported sh (dim : Int) (wdim : Int) = true) (line : Nat) :
    rootType line (rootMarkup sh dim wdim) = .ok (some (sh, (dim : Int), (wdim : Int))) := by
  have a1 : attrOf (rootMarkup sh dim wdim) "version" = some ['1'] := by
    have h1 : strLt "version".toList "mesh".toList = false := by decide
    have h2 : strLt "mesh".toList "version".toList = true := by decide
    have h3 : strLt "version".toList "version".toList = false := by decide
    unfold rootMarkup
    simp only [attrOf, mapFind, h1, h2, h3]; rfl
  have a2 : attrOf (rootMarkup sh dim wdim) "mesh" = some (meshTypeStr sh dim wdim) := by
    have h1 : strLt "mesh".toList "mesh".toList = false := by decide
    unfold rootMarkup
    simp only [attrOf, mapFind, h1]; rfl
  have hn : ((rootMarkup sh dim wdim).name != "FeatMeshFile".toList) = false := by
    show ("FeatMeshFile".toList != "FeatMeshFile".toList) = false
    simp
  have hv : readInt ['1'] = some 1 := by decide
  have hpos : ¬ (dim = 0) := by have := supported_pos hs; omega
  have hposw : ¬ (wdim = 0) := by have := supported_pos hs; omega
  have hsh : (if (sh.name == "simplex".toList) = true then some Shape.simplex
      else if (sh.name == "hypercube".toList) = true then some Shape.hyper else none) = some sh := by
    cases sh <;> decide
  unfold rootType
  simp only [hn, a1, a2, hv, splitByColon_meshTypeStr hs, (readInt_showNat_dim hs).1, (readInt_showNat_dim hs).2, hsh]
  simp [hpos, hposw]


def emptyNode (wdim : Nat) : Node := { mesh := none, parts := [], partitions := [], wdim := wdim }

/-- the whole `<Mesh>` element: from the root frame to the root frame, with the mesh stored in the node -/
theorem Run_writeMesh {sh : Shape} {dim wdim : Nat} (hs : supported sh (dim : Int) (wdim : Int) = true) (m : Mesh)
    (hwf : m.wf sh dim wdim = true) (h64 : ∀ s ∈ m.sizes, s < 2 ^ 64) (hzb : zeroBelow m.sizes = false) (b : Str) (below : List Str) :
    Run (writeMesh sh dim wdim m) (b :: below) (mkSt sh dim [Frame.root] (emptyNode wdim)) (b :: below)
      (mkSt sh dim [Frame.root] { mesh := some m, parts := [], partitions := [], wdim := wdim }) := by
  obtain ⟨hsz, hvl, hvr, htl, htp⟩ := (Mesh.wf_iff sh dim wdim m).1 hwf
  have hdim : 0 < dim ∧ dim ≤ 3 := ⟨(supported_pos hs).1, (supported_pos hs).2.1⟩
  have hwdim : 0 < wdim := (supported_pos hs).2.2.1
  have hbound : m.sizes.getD 0 0 ≤ 2 ^ 64 := by
    cases hm : m.sizes with
    | nil => simp
    | cons a t => have := h64 a (by simp [hm]); simp; omega
  -- the `<Mesh …>` line
  have e1 : sp 2 ++ "<Mesh type=".toList ++ q (meshTypeStr sh dim wdim) ++ " size=".toList ++
      q (joinSp (m.sizes.map showNat)) ++ ">".toList =
      sp 2 ++ '<' :: (('M' :: ("esh type=".toList ++ q (meshTypeStr sh dim wdim) ++ " size=".toList ++
        q (joinSp (m.sizes.map showNat)))) ++ ['>']) := by
    simp
  have hsc : scanMarkup ('<' :: (('M' :: ("esh type=".toList ++ q (meshTypeStr sh dim wdim) ++ " size=".toList ++
        q (joinSp (m.sizes.map showNat)))) ++ ['>'])) =
      .ok (some (⟨"Mesh".toList, [("size".toList, joinSp (m.sizes.map showNat)),
        ("type".toList, meshTypeStr sh dim wdim)], false, false⟩ : Markup)) :=
    scan_mesh_line hs m.sizes
  have r1 := Run_open_line (k := 2) (by decide) hsc rfl rfl
    (fun line => openM_mesh hs m.sizes hsz h64 hzb line) (b :: below)
  -- vertices
  have r2 := Run_vertices_block sh dim m.sizes (List.replicate dim none) [Frame.root] (emptyNode wdim)
    "Mesh".toList (b :: below) m.verts hwdim hvl hvr
  -- topology
  have r3 := Run_topo_blocks sh dim 4 m.sizes (some m.verts) [Frame.root] (emptyNode wdim) "Mesh".toList (b :: below)
    hbound m.topo 0 [] rfl (by rw [htl]; have : (3 : Nat) < 2 ^ 64 := by decide
                               omega)
    (by
      intro j hj
      rw [htl] at hj
      have := htp j hj
      simpa [tuplesProp] using this)
  rw [htl] at r3
  -- `</Mesh>`
  have e4 : "</Mesh>".toList = '<' :: (('/' :: "Mesh".toList) ++ ['>']) := by decide
  have r4 := Run_close_line (k := 2) (nm := "Mesh".toList) (by decide)
    (fun line => closeTop_mesh_frame sh dim wdim m.sizes m.verts m.topo [Frame.root] line) b below
  have hm : ({ sizes := m.sizes, verts := m.verts, topo := m.topo } : Mesh) = m := by cases m; rfl
  rw [hm] at r4
  have := Run.append (Run.append (Run.append r1 r2) r3) r4
  unfold writeMesh
  rw [e1, e4, writeTopo_eq]
  simpa [emptyNode] using this


theorem scanLoop_print {sh : Shape} {dim wdim : Nat} (hs : supported sh (dim : Int) (wdim : Int) = true) (m : Mesh)
    (hwf : m.wf sh dim wdim = true) (h64 : ∀ s ∈ m.sizes, s < 2 ^ 64) (hzb : zeroBelow m.sizes = false) (i : Nat) :
    scanLoop meshClient (writeMesh sh dim wdim m ++ ["</FeatMeshFile>".toList] ++ [[]]) i ["FeatMeshFile".toList]
      (mkSt sh dim [Frame.root] (emptyNode wdim)) =
      .ok (mkSt sh dim [] { mesh := some m, parts := [], partitions := [], wdim := wdim }) := by
  obtain ⟨j, hj⟩ := Run_writeMesh hs m hwf h64 hzb "FeatMeshFile".toList [] (["</FeatMeshFile>".toList] ++ [[]]) i
  rw [List.append_assoc, hj]
  have e : "</FeatMeshFile>".toList = '<' :: (('/' :: "FeatMeshFile".toList) ++ ['>']) := by decide
  rw [e]
  exact final_close_line (by decide) (fun line => closeTop_root_frame sh dim _ line) _ j

theorem parseBody_print {sh : Shape} {dim wdim : Nat} (hs : supported sh (dim : Int) (wdim : Int) = true) (m : Mesh)
    (hwf : m.wf sh dim wdim = true) (h64 : ∀ s ∈ m.sizes, s < 2 ^ 64) (hzb : zeroBelow m.sizes = false) (i : Nat) :
    parseBody sh dim wdim (rootMarkup sh dim wdim) i (writeMesh sh dim wdim m ++ ["</FeatMeshFile>".toList] ++ [[]]) =
      .ok sh dim { mesh := some m, parts := [], partitions := [], wdim := wdim } := by
  have hc : checkAttribs i (specOf "root") (rootMarkup sh dim wdim).attrs = .ok () := by
    unfold rootMarkup
    simp [checkAttribs, specOf]
  have hn : (rootMarkup sh dim wdim).name = "FeatMeshFile".toList := rfl
  have hl := scanLoop_print hs m hwf h64 hzb i
  unfold mkSt emptyNode at hl
  unfold parseBody
  simp only [hc, hn, hl]
  simp [mapOutOfRange, resolveLinks, resolveDeduct]

end FeatModel.C11.RT

/-! ## The main theorems -/

namespace FeatModel.C11

/-- **parse ∘ print = id** for a file with a root mesh (vertices and topology), all nine mesh types
    `(shape, shape dimension, world dimension)` - including surfaces in 3D and curves in 2D / 3D -/
theorem parse_print_mesh (sh : Shape) (dim wdim : Nat) (m : Mesh)
    (hs : supported sh (dim : Int) (wdim : Int) = true)
    (hwf : m.wf sh dim wdim = true)
    (h64 : ∀ s ∈ m.sizes, s < 2 ^ 64)
    (hzb : zeroBelow m.sizes = false) :
    parseMeshFile (printMeshFile sh dim { mesh := some m, parts := [], partitions := [], wdim := wdim })
      = .ok sh dim { mesh := some m, parts := [], partitions := [], wdim := wdim } := by
  unfold parseMeshFile
  rw [RT.splitLines_print hs m, List.cons_append, RT.readRoot_print hs]
  simp only [RT.rootType_print hs, hs, Bool.not_true, Bool.false_eq_true, if_false, Int.toNat_natCast]
  exact RT.parseBody_print hs m hwf h64 hzb 1

/-- **print ∘ parse ∘ print = print** (byte for byte) -/
theorem print_parse_print_mesh (sh : Shape) (dim wdim : Nat) (m : Mesh)
    (hs : supported sh (dim : Int) (wdim : Int) = true)
    (hwf : m.wf sh dim wdim = true)
    (h64 : ∀ s ∈ m.sizes, s < 2 ^ 64)
    (hzb : zeroBelow m.sizes = false) :
    ∀ sh' dim' n', parseMeshFile (printMeshFile sh dim { mesh := some m, parts := [], partitions := [], wdim := wdim })
        = .ok sh' dim' n' →
      printMeshFile sh' dim' n' = printMeshFile sh dim { mesh := some m, parts := [], partitions := [], wdim := wdim } := by
  intro sh' dim' n' h
  rw [parse_print_mesh sh dim wdim m hs hwf h64 hzb] at h
  injection h with h1 h2 h3
  subst h1 h2 h3
  rfl

/-! ## The world dimension in the header, and its checks -/

/-- the printed mesh type string: `conformal:<shape>:<shape dimension>:<world dimension>` -/
theorem meshTypeStr_eq (sh : Shape) (dim wdim : Nat) :
    meshTypeStr sh dim wdim =
      "conformal:".toList ++ sh.name ++ ":".toList ++ showNat dim ++ ":".toList ++ showNat wdim := rfl

/-- the first printed line of a node with a root mesh is the root line carrying the node's world dimension -/
theorem writeLines_head (sh : Shape) (dim : Nat) (n : Node) (m : Mesh) (hm : n.mesh = some m) :
    ∃ rest, writeLines sh dim n = RT.rootLine sh dim n.wdim :: rest := by
  unfold writeLines RT.rootLine
  rw [hm]
  exact ⟨_, rfl⟩

/-- the header field, semantically: the first line printed for a node with a root mesh scans to a markup whose
    `mesh` attribute splits at the colons into `conformal`, the shape name, the SHAPE dimension and the node's WORLD
    dimension, and `read_root_markup` reads exactly that triple from it (all nine supported mesh types) -/
theorem printed_type_string (sh : Shape) (dim : Nat) (n : Node) (m : Mesh) (hm : n.mesh = some m)
    (hs : supported sh (dim : Int) (n.wdim : Int) = true) :
    ∃ (l : Str) (rest : List Str) (mk : Markup) (ty : Str),
      writeLines sh dim n = l :: rest ∧ scanMarkup l = .ok (some mk) ∧ attrOf mk "mesh" = some ty ∧
      splitByColon ty = ["conformal".toList, sh.name, showNat dim, showNat n.wdim] ∧
      readInt (showNat dim) = some (dim : Int) ∧ readInt (showNat n.wdim) = some (n.wdim : Int) ∧
      ∀ line, rootType line mk = .ok (some (sh, (dim : Int), (n.wdim : Int))) := by
  obtain ⟨rest, hr⟩ := writeLines_head sh dim n m hm
  refine ⟨_, rest, RT.rootMarkup sh dim n.wdim, meshTypeStr sh dim n.wdim, hr, RT.scan_root_line hs, ?_,
    RT.splitByColon_meshTypeStr hs, (RT.readInt_showNat_dim hs).1, (RT.readInt_showNat_dim hs).2,
    fun line => RT.rootType_print hs line⟩
  have h1 : strLt "mesh".toList "mesh".toList = false := by decide
  unfold RT.rootMarkup
  simp only [attrOf, mapFind, h1]; rfl

/-- `MeshParser::create`: a `<Mesh type="conformal:<shape>:<d>:<w'>" …>` whose world dimension `w'` is not the one of
    the mesh type being parsed is a content error (the first three components being fine) -/
theorem meshCreate_world_dim_mismatch (st : St) (line : Nat) (m : Markup) (ty sz a b c d : Str) (wd : Int)
    (hty : attrOf m "type" = some ty) (hsz : attrOf m "size" = some sz)
    (hsplit : splitByColon ty = [a, b, c, d]) (ha : a = "conformal".toList) (hb : b = st.shape.name)
    (hc : readInt c = some (st.dim : Int)) (hd : readInt d = some wd) (hne : wd ≠ (st.wdim : Int)) :
    meshCreate st line m = .error ⟨.content, line⟩ := by
  unfold meshCreate
  rw [hty, hsz]
  simp only [hsplit, ha, hb, hc, hd]
  simp [cErr, hne]

/-- conversely, `MeshParser::create` only succeeds if the 3rd and 4th components of the `type` attribute read as the
    shape dimension and the world dimension of the mesh type being parsed -/
theorem meshCreate_ok_type {st : St} {line : Nat} {m : Markup} {f : Frame} (h : meshCreate st line m = .ok f) :
    ∃ ty a b c d, attrOf m "type" = some ty ∧ splitByColon ty = [a, b, c, d] ∧ a = "conformal".toList ∧
      b = st.shape.name ∧ readInt c = some (st.dim : Int) ∧ readInt d = some (st.wdim : Int) := by
  unfold meshCreate at h
  split at h
  · rename_i ty sz hty hsz
    split at h
    · rename_i a b c d hsp
      split at h
      · simp [cErr] at h
      · rename_i ha
        split at h
        · simp [cErr] at h
        · rename_i hb
          split at h
          · simp [cErr] at h
          · rename_i sd hc
            split at h
            · simp [cErr] at h
            · rename_i hsd
              split at h
              · simp [cErr] at h
              · rename_i wd hd
                split at h
                · simp [cErr] at h
                · rename_i hwd
                  refine ⟨ty, a, b, c, d, hty, hsp, by simpa using ha, by simpa using hb, ?_, ?_⟩
                  · rw [hc]; simpa using hsd
                  · rw [hd]; simpa using hwd
    · simp [cErr] at h
  · simp [gErr] at h

/-- `VerticesParser::content`: a vertex line that does not have exactly `world_dim` coordinates is a content error -/
theorem contentM_verts_wrong_coord_count (st : St) (line : Nat) (s : Str) (count : Nat) (acc : List (List Rat))
    (rest : List Frame) (hs : st.stack = Frame.verts count acc :: rest) (hne : (splitWs s).length ≠ st.wdim) :
    contentM st line s = .error ⟨.content, line⟩ := by
  unfold contentM
  rw [hs]
  simp only
  split
  · rfl
  · simp [cErr, hne]

end FeatModel.C11
