import FeatModel.Lemmas.C15ShapeTrace
import FeatModel.Lemmas.C15Geom
import FeatModel.Lemmas.C15Trace2
import FeatModel.Lemmas.C15Trace2L3S
import FeatModel.Lemmas.C15Trace2L3H
import FeatModel.Lemmas.C15Trace3S
import FeatModel.Lemmas.C15Trace3H
import FeatModel.Lemmas.C15TraceGen
import FeatModel.Lemmas.C15Lift2
/-! Assembly of the kernel-checked facet / geometry tables into statements used by `Props/C15.lean`. -/
namespace FeatModel.FE
open FeatModel.Poly

theorem traceAll2_of_key {key : Fam × Kind} (h : key ∈ traceKeys2 ++ traceKeys2L3) : traceAll2 key.1 key.2 = true := by
  rcases List.mem_append.mp h with h | h
  · exact List.all_eq_true.mp trace2 key h
  · simp only [traceKeys2L3, List.mem_cons, List.not_mem_nil, or_false] at h
    rcases h with rfl | rfl
    · exact trace2L3S
    · exact trace2L3H

theorem traceAll3_of_key {key : Fam × Kind} (h : key ∈ traceKeys3) : traceAll3 key.1 key.2 = true := by
  simp only [traceKeys3, List.mem_cons, List.not_mem_nil, or_false] at h
  have hS := trace3S
  have hH := trace3H
  simp only [List.all_cons, List.all_nil, Bool.and_true, Bool.and_eq_true] at hS hH
  rcases h with rfl | rfl | rfl | rfl | rfl
  · exact hS.1
  · exact hS.2
  · exact hH.1
  · exact hH.2.1
  · exact hH.2.2

/-- the reference configurations for which the geometry check is kernel-verified -/
def geomConfig (k : Kind) (dim : Nat) (o : List Nat) : Prop :=
  (dim = 2 ∧ o ∈ allOrients (numFaces k 2 1)) ∨ (k = Kind.H ∧ dim = 1 ∧ o = []) ∨ (dim = 3 ∧ o = [])

theorem geomOk_of_config {k : Kind} {dim : Nat} {o : List Nat} (h : geomConfig k dim o) :
    geomOk (refMesh k dim o) = true ∧ (dim = 1 ∨ dim = 2 ∨ dim = 3) := by
  have g2 := geom2
  have g13 := geom13
  simp only [List.all_cons, List.all_nil, Bool.and_true, Bool.and_eq_true] at g2 g13
  rcases h with ⟨rfl, ho⟩ | ⟨rfl, rfl, rfl⟩ | ⟨rfl, rfl⟩
  · refine ⟨?_, Or.inr (Or.inl rfl)⟩
    cases k
    · exact List.all_eq_true.mp g2.1 o ho
    · exact List.all_eq_true.mp g2.2 o ho
  · exact ⟨g13.1.1, Or.inl rfl⟩
  · refine ⟨?_, Or.inr (Or.inr rfl)⟩
    cases k
    · exact g13.1.2
    · exact g13.2

theorem shapeTrace_of_sym {k : Kind} {dim d l : Nat} {π : List Nat} (hdim : dim = 1 ∨ dim = 2 ∨ dim = 3)
    (hd : 1 ≤ d ∧ d < dim) (hl : l < numFaces k dim d) (hπ : π ∈ shapeSyms k d) :
    shapeTraceOk k dim d (storedRow k dim d l π) = true := by
  have h := shapeTrace_all
  simp only [List.all_cons, List.all_nil, Bool.and_true, Bool.and_eq_true] at h
  have hall : shapeTraceAll k dim = true := by
    cases k <;> rcases hdim with rfl | rfl | rfl <;> simp_all
  simp only [shapeTraceAll, List.all_eq_true, List.mem_range, List.mem_range'_1] at hall
  have := hall d ⟨hd.1, by omega⟩ l hl
  have hne : d ≠ dim := by omega
  simp only [hne, if_false] at this
  exact this π hπ

end FeatModel.FE
