import FeatModel.Lemmas.C10Lift2Dg
import FeatModel.Lemmas.C10Boundary
/-! C10 — the boundary computed on the refined 2-D mesh is the refinement (simple target refiner) of the boundary part
computed on the coarse mesh, for facets and for vertices, every mesh size. -/
namespace FeatModel.Refine
open FeatModel.Gen.Refine

/-- the boundary of `M` as a mesh part without topology (what `BoundaryFactory` builds) -/
def boundaryPart (M : Mesh) : Part := { targets := boundary M ++ [[]], topo := none }

theorem boundaryPart_target (M : Mesh) (hd : M.dim = 2) :
    (boundaryPart M).target 0 = (boundary M).getD 0 [] ∧ (boundaryPart M).target 1 = (boundary M).getD 1 [] ∧
    (boundaryPart M).target 2 = [] := by
  have hl : (boundary M).length = 2 := by unfold boundary; simp [hd]
  unfold boundaryPart Part.target
  simp only
  match hb : boundary M, hl with
  | [a, b], _ => simp

/-- 2-D, facets: the boundary computed on the refined mesh = the refinement of the coarse boundary part -/
theorem boundary_refine_part1 (M : Mesh) (h : Ok2 M) (x : Nat) :
    x ∈ (boundary (refine M)).getD 1 [] ↔ x ∈ simpleTargets M (boundaryPart M) 1 := by
  obtain ⟨t0, t1, t2⟩ := boundaryPart_target M h.dim
  obtain ⟨o00, o01, o02, o11, o12, o22⟩ := off2 M.kind M.nums
  obtain ⟨r11, r22, r10, f10, r21⟩ := rc2 M.kind
  rw [boundary_refine2 M h x, mem_simpleTargets]
  have hb := boundary_facets M (by rw [h.dim]; omega)
  rw [h.dim, show (2 : Nat) - 1 = 1 from rfl] at hb
  constructor
  · rintro ⟨hx, hE⟩
    refine ⟨1, by omega, by rw [h.dim]; omega, x / 2, by rw [t1]; exact hE, x % 2, by rw [r11]; omega, ?_⟩
    rw [o11, r11]; omega
  · rintro ⟨s, hs1, hs2, t, ht, j, hj, rfl⟩
    rw [h.dim] at hs2
    have hs : s = 1 ∨ s = 2 := by omega
    rcases hs with rfl | rfl
    · rw [t1] at ht
      rw [r11] at hj
      have htl : t < M.num 1 := by
        rw [hb, List.mem_filter, List.mem_range] at ht; exact ht.1
      rw [o11, r11]
      refine ⟨by omega, ?_⟩
      have : (0 + t * 2 + j) / 2 = t := by omega
      rw [this]; exact ht
    · rw [t2] at ht; simp at ht


theorem fine_edge_child_tuple (M : Mesh) (h : Ok2 M) (E m : Nat) (hE : E < M.num 1) (hm : m < 2) :
    (refine M).tuple 1 0 (2 * E + m) =
      if m = 0 then [M.entry 1 0 E 0, M.num 0 + E] else [M.num 0 + E, M.entry 1 0 E 1] := by
  obtain ⟨o00, o01, o02, o11, o12, o22⟩ := off2 M.kind M.nums
  obtain ⟨r11, r22, r10, f10, r21⟩ := rc2 M.kind
  have := refine_tuple_child M (by rw [h.dim]; omega) 1 0 1 E m (by omega) (by omega) (by rw [h.dim]; omega) hE
    (by rw [r11]; exact hm)
  rw [o11, r11, edgeTable] at this
  have e : 0 + E * 2 + m = 2 * E + m := by omega
  rw [e] at this
  rw [this]
  have hm' : m = 0 ∨ m = 1 := by omega
  rcases hm' with rfl | rfl <;> simp [evalTerm, evalSrc, evalAdd, o00, o01, Mesh.num]

theorem fine_num0_ge (M : Mesh) (h : Ok2 M) : M.num 0 + M.num 1 ≤ (refine M).num 0 := by
  obtain ⟨o00, o01, o02, o11, o12, o22⟩ := off2 M.kind M.nums
  rw [refine_num M 0 (by omega)]
  unfold fineCount
  rw [h.dim, offset_succ _ _ 0 2 (by omega), o02]
  unfold Mesh.num
  omega

/-- 2-D, vertices: the boundary vertices computed on the refined mesh = the refinement of the coarse boundary part
    (coarse boundary vertices and the midpoints of the coarse boundary edges) -/
theorem boundary_refine_part0 (M : Mesh) (h : Ok2 M) (x : Nat) :
    x ∈ (boundary (refine M)).getD 0 [] ↔ x ∈ simpleTargets M (boundaryPart M) 0 := by
  obtain ⟨t0, t1, t2⟩ := boundaryPart_target M h.dim
  obtain ⟨o00, o01, o02, o11, o12, o22⟩ := off2 M.kind M.nums
  obtain ⟨r11, r22, r10, f10, r21⟩ := rc2 M.kind
  have r00 : refCount M.kind 0 0 = 1 := by simp [refCount]
  have hbf := boundary_faces (refine M) 0 x (by rw [refine_dim, h.dim]; omega)
  rw [refine_dim, h.dim, show (2 : Nat) - 1 = 1 from rfl] at hbf
  have hb1 := boundary_facets M (by rw [h.dim]; omega)
  rw [h.dim, show (2 : Nat) - 1 = 1 from rfl] at hb1
  have hb0 : ∀ v, v ∈ (boundary M).getD 0 [] ↔
      v < M.num 0 ∧ ∃ q, q < M.num 1 ∧ M.facetCount q = 1 ∧ v ∈ M.tuple 1 0 q := by
    intro v
    have := boundary_faces M 0 v (by rw [h.dim]; omega)
    rw [h.dim, show (2 : Nat) - 1 = 1 from rfl] at this
    exact this
  have hv : ∀ F, F < M.num 1 → ∀ j, j < 2 → M.entry 1 0 F j < M.num 0 := by
    intro F hF j hj
    exact (shape_facts M h 1 0 (by omega) (by omega) (by omega) F hF).2 j (by rw [f10]; exact hj)
  obtain ⟨hn1, _, _⟩ := fine_sizes2 M h
  have hn0 := fine_num0_ge M h
  rw [hbf, mem_simpleTargets]
  constructor
  · rintro ⟨_, q, hq, hc, hxq⟩
    obtain ⟨c1, c2⟩ := facetCount_refine2_cases M h q hq
    have hlo : q < 2 * M.num 1 := by
      apply Classical.byContradiction
      intro hn
      rw [c2 (by omega)] at hc; omega
    rw [c1 hlo] at hc
    have hE : q / 2 < M.num 1 := by omega
    have hq2 : q = 2 * (q / 2) + q % 2 := by omega
    rw [hq2, fine_edge_child_tuple M h (q / 2) (q % 2) hE (by omega)] at hxq
    have hEb : q / 2 ∈ (boundary M).getD 1 [] := by
      rw [hb1, List.mem_filter, List.mem_range]; exact ⟨hE, by simp [hc]⟩
    have hpair := edge_pair M h (q / 2) hE
    by_cases hm : q % 2 = 0
    · rw [if_pos hm] at hxq
      simp only [List.mem_cons, List.not_mem_nil, or_false] at hxq
      rcases hxq with rfl | rfl
      · refine ⟨0, by omega, by omega, M.entry 1 0 (q / 2) 0, ?_, 0, by rw [r00]; omega, by rw [o00, r00]; omega⟩
        rw [t0, hb0]
        exact ⟨hv _ hE 0 (by omega), q / 2, hE, hc, by rw [hpair]; simp⟩
      · exact ⟨1, by omega, by rw [h.dim]; omega, q / 2, by rw [t1]; exact hEb, 0, by rw [r10]; omega,
          by rw [o01, r10]; unfold Mesh.num; omega⟩
    · rw [if_neg hm] at hxq
      simp only [List.mem_cons, List.not_mem_nil, or_false] at hxq
      rcases hxq with rfl | rfl
      · exact ⟨1, by omega, by rw [h.dim]; omega, q / 2, by rw [t1]; exact hEb, 0, by rw [r10]; omega,
          by rw [o01, r10]; unfold Mesh.num; omega⟩
      · refine ⟨0, by omega, by omega, M.entry 1 0 (q / 2) 1, ?_, 0, by rw [r00]; omega, by rw [o00, r00]; omega⟩
        rw [t0, hb0]
        exact ⟨hv _ hE 1 (by omega), q / 2, hE, hc, by rw [hpair]; simp⟩
  · rintro ⟨s, _, hs2, t, ht, j, hj, rfl⟩
    rw [h.dim] at hs2
    have hs : s = 0 ∨ s = 1 ∨ s = 2 := by omega
    rcases hs with rfl | rfl | rfl
    · rw [t0, hb0] at ht
      obtain ⟨htv, E, hE, hc, htE⟩ := ht
      rw [r00] at hj
      have hj0 : j = 0 := by omega
      subst hj0
      rw [o00, r00]
      rw [edge_pair M h E hE] at htE
      simp only [List.mem_cons, List.not_mem_nil, or_false] at htE
      refine ⟨by omega, ?_⟩
      rcases htE with rfl | rfl
      · refine ⟨2 * E + 0, by rw [hn1]; omega, ?_, ?_⟩
        · rw [(facetCount_refine2_cases M h (2 * E + 0) (by rw [hn1]; omega)).1 (by omega)]
          have : (2 * E + 0) / 2 = E := by omega
          rw [this]; exact hc
        · rw [fine_edge_child_tuple M h E 0 hE (by omega)]; simp
      · refine ⟨2 * E + 1, by rw [hn1]; omega, ?_, ?_⟩
        · rw [(facetCount_refine2_cases M h (2 * E + 1) (by rw [hn1]; omega)).1 (by omega)]
          have : (2 * E + 1) / 2 = E := by omega
          rw [this]; exact hc
        · rw [fine_edge_child_tuple M h E 1 hE (by omega)]; simp
    · rw [t1, hb1, List.mem_filter, List.mem_range] at ht
      obtain ⟨hE, hc⟩ := ht
      rw [r10] at hj
      have hj0 : j = 0 := by omega
      subst hj0
      rw [o01, r10]
      have hn : M.nums.getD 0 0 = M.num 0 := rfl
      rw [hn]
      refine ⟨by omega, 2 * t + 0, by rw [hn1]; omega, ?_, ?_⟩
      · rw [(facetCount_refine2_cases M h (2 * t + 0) (by rw [hn1]; omega)).1 (by omega)]
        have : (2 * t + 0) / 2 = t := by omega
        rw [this]; simpa using hc
      · rw [fine_edge_child_tuple M h t 0 hE (by omega)]; simp
    · rw [t2] at ht; simp at ht

end FeatModel.Refine
