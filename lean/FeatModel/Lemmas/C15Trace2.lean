import FeatModel.Model.FETrace
/-! kernel-checked trace conformity in 2-D, all edge orientations (families with one DOF per edge) -/
namespace FeatModel.FE
set_option maxRecDepth 100000 in
theorem trace2 : traceKeys2.all (fun key => traceAll2 key.1 key.2) = true := by decide +kernel
end FeatModel.FE
