import FeatModel.Model.Adjacency
import FeatModel.Model.AdjKernels
import FeatModel.Lemmas.C19_cm
/-! C19 lemmas, group `layers` (statements fixed by Props/C19.statements; proofs to be filled in) -/
open FeatModel.Adj

namespace C19L.layers

open C19L.cm

/-! ### `offsets` arithmetic -/

theorem offsets_append : ∀ (l1 l2 : List Nat) (b : Nat),
    CM.offsets b (l1 ++ l2) = CM.offsets b l1 ++ CM.offsets (b + l1.sum) l2 := by
  intro l1
  induction l1 with
  | nil => intro l2 b; simp [CM.offsets]
  | cons s ss ih =>
    intro l2 b
    simp only [List.cons_append, CM.offsets, ih, List.sum_cons, Nat.add_assoc]

theorem zip_diff_offsets : ∀ (sizes : List Nat) (b : Nat),
    ((CM.offsets b sizes).zip (b :: CM.offsets b sizes)).map (fun (p : Nat × Nat) => p.1 - p.2) = sizes := by
  intro sizes
  induction sizes with
  | nil => intro b; simp [CM.offsets]
  | cons s ss ih =>
    intro b
    simp only [CM.offsets, List.zip_cons_cons, List.map_cons, ih]
    congr 1
    omega

theorem foldl_offsets : ∀ (l acc : List Nat) (b : Nat),
    (l.foldl (fun (acc : List Nat × Nat) s => (acc.1 ++ [acc.2 + s], acc.2 + s)) (acc, b)).1 =
      acc ++ CM.offsets b l := by
  intro l
  induction l with
  | nil => intro acc b; simp [CM.offsets]
  | cons s ss ih =>
    intro acc b
    simp only [List.foldl_cons, ih, CM.offsets, List.append_assoc, List.singleton_append]

theorem reverseLayers_offsets (b : Nat) (sizes : List Nat) :
    CM.reverseLayers b (CM.offsets b sizes) = CM.offsets b sizes.reverse := by
  unfold CM.reverseLayers
  have h := zip_diff_offsets sizes b
  simp only [h, foldl_offsets, List.nil_append]

/-! ### congruence of the specification vocabulary in `seen` -/

theorem isNextLevel_congr (g : Graph) {seen seen' : List Nat} (h : ∀ k, k ∈ seen ↔ k ∈ seen')
    (lv nx : List Nat) : CM.IsNextLevel g seen lv nx → CM.IsNextLevel g seen' lv nx := by
  intro ⟨h1, h2⟩
  refine ⟨h1, fun k => ?_⟩
  rw [h2 k, h k]

theorem isLevelChain_congr (g : Graph) : ∀ (levels : List (List Nat)) (seen seen' lv : List Nat),
    (∀ k, k ∈ seen ↔ k ∈ seen') → CM.IsLevelChain g seen lv levels → CM.IsLevelChain g seen' lv levels := by
  intro levels
  induction levels with
  | nil =>
    intro seen seen' lv h hc
    exact isNextLevel_congr g h lv [] hc
  | cons nx rest ih =>
    intro seen seen' lv h hc
    obtain ⟨h1, h2, h3⟩ := hc
    refine ⟨h1, isNextLevel_congr g h lv nx h2, ih _ _ nx ?_ h3⟩
    intro k
    simp only [List.mem_append, h k]

theorem areBfsComponents_congr (g : Graph) : ∀ (comps : List (List (List Nat))) (seen seen' : List Nat),
    (∀ k, k ∈ seen ↔ k ∈ seen') → CM.AreBfsComponents g seen comps → CM.AreBfsComponents g seen' comps := by
  intro comps
  induction comps with
  | nil => intro _ _ _ _; trivial
  | cons c cs ih =>
    intro seen seen' h hc
    obtain ⟨⟨root, rest, hc1, hc2, hc3, hc4⟩, hc5⟩ := hc
    refine ⟨⟨root, rest, hc1, fun hin => hc2 ((h root).mpr hin), hc3, ?_⟩, ?_⟩
    · refine isLevelChain_congr g rest _ _ [root] ?_ hc4
      intro k; simp only [List.mem_append, h k]
    · refine ih _ _ ?_ hc5
      intro k; simp only [List.mem_append, h k]

/-! ### `expandLevel`: exactly the unseen neighbours -/

theorem expRow_mem {n : Nat} (perm : List Nat) : ∀ (row : List Nat), (∀ k, k ∈ row → k < n) →
    ∀ (acc : List Nat × Array Bool), Inv n (perm ++ acc.1) acc.2 →
      ∀ k, k ∈ (row.foldl expStep acc).1 ↔ k ∈ acc.1 ∨ (k ∉ perm ∧ k ∈ row) := by
  intro row
  induction row with
  | nil => intro _ acc _ k; simp
  | cons a t ih =>
    intro hrow acc h k
    simp only [List.foldl_cons]
    have hstep : Inv n (perm ++ (expStep acc a).1) (expStep acc a).2 :=
      expRow_inv perm [a] (fun x hx => hrow x (by simp at hx; simp [hx])) acc h
    rw [ih (fun x hx => hrow x (by simp [hx])) _ hstep k]
    have hm := h.mask_iff a
    unfold expStep
    cases hma : CM.isMasked acc.2 a with
    | true =>
      rw [hma] at hm
      have := hm.mp rfl
      simp only [if_true, List.mem_cons]
      grind
    | false =>
      rw [hma] at hm
      have : a ∉ perm ++ acc.1 := fun hin => Bool.noConfusion (hm.mpr hin)
      simp only [Bool.false_eq_true, if_false, List.mem_cons, List.mem_append]
      grind

theorem expLevel_mem (g : Graph) (hsq : g.nImg = g.nDom) (hwf : g.wf = true) (perm : List Nat) :
    ∀ (level : List Nat) (acc : List Nat × Array Bool), Inv g.nDom (perm ++ acc.1) acc.2 →
      ∀ k, k ∈ (level.foldl (fun acc nd => (g.row nd).foldl expStep acc) acc).1 ↔
        k ∈ acc.1 ∨ (k ∉ perm ∧ ∃ nd, nd ∈ level ∧ k ∈ g.row nd) := by
  intro level
  induction level with
  | nil => intro acc _ k; simp
  | cons nd t ih =>
    intro acc h k
    simp only [List.foldl_cons]
    have hrow : ∀ k, k ∈ g.row nd → k < g.nDom := fun k hk => row_lt g hsq hwf nd k hk
    rw [ih _ (expRow_inv perm (g.row nd) hrow acc h) k, expRow_mem perm (g.row nd) hrow acc h k]
    simp only [List.mem_cons]
    grind

theorem expandLevel_next (g : Graph) (hsq : g.nImg = g.nDom) (hwf : g.wf = true)
    (perm level : List Nat) (mask : Array Bool) (h : Inv g.nDom perm mask) :
    CM.IsNextLevel g perm level (CM.expandLevel g level mask).1 := by
  have hinv := expandLevel_inv g hsq hwf perm level mask h
  refine ⟨(List.nodup_append.mp hinv.nodup).2.1, fun k => ?_⟩
  rw [expandLevel_eq, expLevel_mem g hsq hwf perm level ([], mask) (by simpa using h) k]
  simp

/-! ### `component` -/

theorem component_spec (g : Graph) (hsq : g.nImg = g.nDom) (hwf : g.wf = true) (st : CM.SortType) :
    ∀ (fuel : Nat) (perm level : List Nat) (mask : Array Bool) (layers : List Nat),
      Inv g.nDom perm mask → g.nDom - perm.length < fuel →
      ∃ levels : List (List Nat),
        (CM.component g st fuel perm level mask layers).1 = perm ++ levels.flatten ∧
        CM.IsLevelChain g perm level levels ∧
        (CM.component g st fuel perm level mask layers).2.2 =
          layers ++ CM.offsets perm.length (levels.map List.length) ∧
        Inv g.nDom (CM.component g st fuel perm level mask layers).1
          (CM.component g st fuel perm level mask layers).2.1 := by
  intro fuel
  induction fuel with
  | zero => intro perm level mask layers _ hf; omega
  | succ fuel ih =>
    intro perm level mask layers h hf
    unfold CM.component
    by_cases hlt : perm.length < g.nDom
    · simp only [hlt, if_true]
      have hexp := expandLevel_inv g hsq hwf perm level mask h
      have hnext := expandLevel_next g hsq hwf perm level mask h
      generalize CM.expandLevel g level mask = r at hexp hnext
      obtain ⟨fresh, mask'⟩ := r
      simp only at hexp hnext ⊢
      by_cases hempty : fresh.isEmpty = true
      · simp only [hempty, if_true]
        have : fresh = [] := List.isEmpty_iff.mp hempty
        subst this
        exact ⟨[], by simp, hnext, by simp [CM.offsets], by simpa using hexp⟩
      · simp only [hempty, Bool.false_eq_true, if_false]
        have hsp := sortLevel_perm g st fresh
        have hinv' : Inv g.nDom (perm ++ CM.sortLevel g st fresh) mask' :=
          hexp.of_perm (List.Perm.append_left perm hsp.symm)
        have hne : CM.sortLevel g st fresh ≠ [] := by
          intro e
          rw [e] at hsp
          have := hsp.length_eq
          cases fresh with
          | nil => simp at hempty
          | cons _ _ => simp at this
        have hlen : 0 < (CM.sortLevel g st fresh).length := List.length_pos_iff.mpr hne
        obtain ⟨levels, h1, h2, h3, h4⟩ := ih (perm ++ CM.sortLevel g st fresh) (CM.sortLevel g st fresh)
          mask' (layers ++ [(perm ++ CM.sortLevel g st fresh).length]) hinv'
          (by simp only [List.length_append]; omega)
        refine ⟨CM.sortLevel g st fresh :: levels, ?_, ⟨hne, ?_, h2⟩, ?_, h4⟩
        · rw [h1]; simp
        · exact ⟨hsp.symm.nodup hnext.1, fun k => by rw [hsp.mem_iff]; exact hnext.2 k⟩
        · rw [h3]; simp [CM.offsets]
    · simp only [hlt, if_false]
      refine ⟨[], by simp, ?_, by simp [CM.offsets], h⟩
      refine ⟨List.nodup_nil, fun k => ?_⟩
      simp only [List.not_mem_nil, false_iff, not_and, not_exists]
      intro hk nd hnd
      exact fun hrow => hk (mem_of_nodup_full h.nodup h.lt (by have := h.length_le; omega) k
        (row_lt g hsq hwf nd k hrow))

/-! ### outer loop -/

theorem outer_layers (g : Graph) (hsq : g.nImg = g.nDom) (hwf : g.wf = true)
    (rev : Bool) (rt : CM.RootType) (st : CM.SortType) :
    ∀ (fuel : Nat) (perm : List Nat) (mask : Array Bool) (layers p l : List Nat),
      Inv g.nDom perm mask → CM.outer g rev rt st fuel perm mask layers = some (p, l) →
      ∃ comps : List (List (List Nat)), CM.AreBfsComponents g perm comps ∧
        p = perm ++ comps.flatMap (fun c => if rev then c.flatten.reverse else c.flatten) ∧
        l = layers ++ CM.offsets perm.length (comps.flatMap fun c =>
          if rev then c.reverse.map List.length else c.map List.length) := by
  intro fuel
  induction fuel with
  | zero =>
    intro perm mask layers p l h ho
    unfold CM.outer at ho
    by_cases hlt : perm.length < g.nDom
    · simp [hlt] at ho
    · simp only [hlt, if_false, Option.some.injEq, Prod.mk.injEq] at ho
      exact ⟨[], trivial, by simp [ho.1], by simp [ho.2, CM.offsets]⟩
  | succ fuel ih =>
    intro perm mask layers p l h ho
    unfold CM.outer at ho
    by_cases hlt : perm.length < g.nDom
    · simp only [hlt, if_true] at ho
      obtain ⟨root, hroot, hrn, hrm⟩ := findRoot_some g rt mask (h.exists_unmasked hlt)
      simp only [hroot] at ho
      have hrp : root ∉ perm := fun hin => by
        have := (h.mask_iff root).mpr hin
        rw [hrm] at this; exact Bool.noConfusion this
      have hpush := h.push hrn hrm
      obtain ⟨levels, hc1, hc2, hc3, hc4⟩ := component_spec g hsq hwf st (g.nDom + 1) (perm ++ [root]) [root]
        (mask.setIfInBounds root true) [perm.length + 1] hpush (by simp only [List.length_append, List.length_singleton]; omega)
      generalize CM.component g st (g.nDom + 1) (perm ++ [root]) [root]
        (mask.setIfInBounds root true) [perm.length + 1] = r at hc1 hc3 hc4 ho
      obtain ⟨perm', mask', lay⟩ := r
      simp only at hc1 hc3 hc4 ho
      subst hc1
      have htake : (perm ++ [root] ++ levels.flatten).take perm.length = perm := by
        rw [List.append_assoc]; simp
      have hdrop : (perm ++ [root] ++ levels.flatten).drop perm.length = ([root] :: levels).flatten := by
        rw [List.append_assoc]; simp
      have hlay : lay = CM.offsets perm.length (([root] :: levels).map List.length) := by
        rw [hc3]; simp [CM.offsets]
      rw [htake, hdrop, hlay, reverseLayers_offsets, ← List.map_reverse] at ho
      have hpp : (perm ++ [root] ++ levels.flatten).Perm
          (if rev = true then perm ++ ([root] :: levels).flatten.reverse
            else perm ++ [root] ++ levels.flatten) := by
        cases rev with
        | false => simp
        | true =>
          simp only [if_true]
          rw [List.append_assoc]
          exact List.Perm.append_left perm (by simpa using (List.reverse_perm ([root] ++ levels.flatten)).symm)
      obtain ⟨comps, ha, hb, hc⟩ := ih _ mask' _ p l (hc4.of_perm hpp) ho
      refine ⟨([root] :: levels) :: comps, ⟨⟨root, levels, rfl, hrp, hrn, hc2⟩, ?_⟩, ?_, ?_⟩
      · refine areBfsComponents_congr g comps _ _ ?_ ha
        intro k
        rw [← hpp.mem_iff]
        simp [List.append_assoc]
      · rw [hb]
        cases rev <;> simp [List.append_assoc]
      · rw [hc, List.flatMap_cons, offsets_append, List.append_assoc]
        have hl := hpp.length_eq
        cases rev
        · simp only [Bool.false_eq_true, if_false] at hl ⊢
          congr 3
          simp [List.length_flatten]; omega
        · simp only [if_true] at hl ⊢
          congr 3
          rw [← hl]
          simp [List.length_flatten, List.sum_reverse]
    · simp only [hlt, if_false, Option.some.injEq, Prod.mk.injEq] at ho
      exact ⟨[], trivial, by simp [ho.1], by simp [ho.2, CM.offsets]⟩

theorem cm_layers_are_bfs_levels (g : Graph) (hsq : g.nImg = g.nDom) (hwf : g.wf = true) (hn : 0 < g.nDom)
    (rev : Bool) (rt : CM.RootType) (st : CM.SortType) (perm layers : List Nat)
    (h : CM.compute g rev rt st = some (perm, layers)) :
    CM.LayersAreBfsLevels g rev perm layers := by
  unfold CM.compute at h
  have hn0 : ¬ g.nDom = 0 := by omega
  simp only [hn0, if_false] at h
  cases ho : CM.outer g rev rt st (g.nDom + 1) [] (Array.replicate g.nDom false) [0] with
  | none => simp [ho] at h
  | some pl =>
    obtain ⟨p, l⟩ := pl
    simp only [ho, Option.some.injEq, Prod.mk.injEq] at h
    obtain ⟨comps, ha, hb, hc⟩ := outer_layers g hsq hwf rev rt st _ _ _ _ p l (inv_init g.nDom) ho
    refine ⟨comps, ha, ?_, ?_⟩
    · rw [← h.1, hb]; simp
    · rw [← h.2, hc]; simp

end C19L.layers
