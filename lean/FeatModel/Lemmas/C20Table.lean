import FeatModel.Lemmas.C20Aligned
/-! C20 helper lemmas, part 12: consequences of (Inv ∧ Aligned); position-wise visibility of writes -/
namespace FeatModel.Pool

theorem writeList_single (l : List Int) (k : Nat) (v : Int) : writeList l k [v] = l.set k v := rfl

/-- position-wise: after writing `v` at element `K` of chunk `id`, the `k`-th element seen through a view
    `(id', off', n')` is `v` iff it is the same address (same chunk, `off' + k = K`), otherwise unchanged -/
theorem read_after_write (p : Pool) (id K id' off' n' k : Nat) (v : Int) (c : Chunk)
    (hg : get p id = some c) (hK : K < c.vals.length) :
    (readArr (writeArr p (.at id K) [v]) (.at id' off') n')[k]? =
      if id = id' ∧ off' + k = K ∧ k < n' then some v else (readArr p (.at id' off') n')[k]? := by
  by_cases hid : id = id'
  · subst hid
    unfold readArr writeArr
    simp only [hg, writeList_single]
    rw [get_set_self p id _ (get_lt hg)]
    simp only [List.getElem?_take, List.getElem?_drop, List.getElem?_set]
    by_cases hk : k < n'
    · by_cases he : off' + k = K
      · subst he; simp [hk, hK]
      · have : ¬ K = off' + k := fun h => he h.symm
        simp [hk, he, this]
    · simp [hk]
  · rw [write_other_chunk p id K id' off' n' [v] hid]
    simp [hid]

theorem ownIds_slot_le {s : State} {a : Nat} {c : Cont} (hs : s.slot a = some c) (j : Nat) :
    c.ownIds.count j ≤ (s.ownIds).count j := by
  have := own_setSlot s a none (slot_lt hs) j
  rw [hs] at this
  simp only [optIds, List.count_nil] at this
  omega

theorem layIds_le {s : State} {l : Nat} {L : Layout} (hs : s.lay l = some L) (j : Nat) :
    (idsOf L.inds).count j ≤ (s.ownIds).count j := by
  have := own_setLay s l none (lay_lt hs) j
  rw [hs] at this
  simp only [layIds, List.count_nil] at this
  omega

/-- an owner can always release everything it owns: no abort, no double free -/
theorem releaseOwn_ok {s : State} (hi : Inv s) (hal : Aligned s) {a : Nat} {c : Cont} (hs : s.slot a = some c) :
    ∃ p', c.releaseOwn s.pool = .ok p' := by
  apply releaseAll_ok hi.1 (slot_aligned hal hs)
  intro j
  have := ownIds_slot_le hs j
  rw [hi.2 j]
  exact this

theorem layRelease_ok {s : State} (hi : Inv s) (hal : Aligned s) {l : Nat} {L : Layout} (hs : s.lay l = some L) :
    ∃ p', releaseAll s.pool L.inds = .ok p' := by
  apply releaseAll_ok hi.1 (lay_aligned hal hs)
  intro j
  rw [hi.2 j]
  exact layIds_le hs j

theorem destroy_ok {s : State} (hi : Inv s) (hal : Aligned s) {a : Nat} {c : Cont} (hs : s.slot a = some c) :
    ∃ s', step s (.destroy a) = .ok s' := by
  obtain ⟨p', hp⟩ := releaseOwn_ok hi hal hs
  refine ⟨{ s with pool := p' }.setSlot a none, ?_⟩
  unfold step; simp only [hs, hp]

theorem clear_ok {s : State} (hi : Inv s) (hal : Aligned s) {a : Nat} {c : Cont} (hs : s.slot a = some c) :
    ∃ s', step s (.clear a) = .ok s' := by
  obtain ⟨p', hp⟩ := releaseOwn_ok hi hal hs
  refine ⟨{ s with pool := p' }.setSlot a (some (Cont.empty c.kind c.dt c.it [])), ?_⟩
  unfold step Cont.clear; simp only [hs, hp]

theorem ldrop_ok {s : State} (hi : Inv s) (hal : Aligned s) {l : Nat} {L : Layout} (hs : s.lay l = some L) :
    ∃ s', step s (.ldrop l) = .ok s' := by
  obtain ⟨p', hp⟩ := layRelease_ok hi hal hs
  refine ⟨{ s with pool := p' }.setLay l none, ?_⟩
  unfold step; simp only [hs, hp]

theorem aligned_run {ops : List Op} {s s' : State} (hi : Aligned s) (h : run s ops = .ok s') : Aligned s' := by
  induction ops generalizing s with
  | nil => unfold run at h; injection h with h; subst h; exact hi
  | cons op ops ih =>
    unfold run at h
    split at h
    · cases h
    · rename_i s1 hs
      exact ih (aligned_step hi hs) h

/-- a freshly allocated pointer refers to a chunk that did not exist: it aliases nothing that was owned before -/
theorem fresh_not_owned {s : State} (hi : Inv s) {l : List Ptr} (hf : FreshL s.pool.length l) {j off : Nat}
    (hj : j ∈ s.ownIds) : Ptr.at j off ∉ l := by
  intro hm
  obtain ⟨c, hc⟩ := owned_present hi hj
  have hlt := get_lt hc
  rcases hf _ hm with h | ⟨id, h, hle⟩
  · cases h
  · injection h with h1 _; omega

theorem slotsIds_replicate (n : Nat) : slotsIds (List.replicate n none) = [] := by
  induction n with
  | zero => rfl
  | succ n ih => simp [List.replicate_succ, slotsIds, optIds, ih]

theorem laysIds_replicate (n : Nat) : laysIds (List.replicate n none) = [] := by
  induction n with
  | zero => rfl
  | succ n ih => simp [List.replicate_succ, laysIds, layIds, ih]

theorem inv_initN (n m : Nat) : Inv (State.initN n m) := by
  refine ⟨?_, ?_⟩
  · intro id c h; unfold State.initN get at h; simp at h
  · intro j
    simp [State.initN, State.ownIds, slotsIds_replicate, laysIds_replicate, count, get]

theorem aligned_initN (n m : Nat) : Aligned (State.initN n m) := by
  constructor
  · intro x hx; simp [State.initN] at hx; obtain ⟨_, hx⟩ := hx; subst hx; trivial
  · intro x hx; simp [State.initN] at hx; obtain ⟨_, hx⟩ := hx; subst hx; trivial

end FeatModel.Pool
