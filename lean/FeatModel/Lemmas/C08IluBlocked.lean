import FeatModel.Lemmas.C08Blocked
import FeatModel.Lemmas.C08Ilu
import FeatModel.Lemmas.C08IluApply
import Mathlib.Tactic.Abel
/-! C08: the two triangular solves of the ILU core over an arbitrary (non-commutative) ring — the blocked
`ILUCoreBlocked::solve_il / solve_du` are the scalar model functions `solveIl` / `solveDu` run at the ring of bs×bs
blocks (vector blocks embedded as first columns).  Port of `C08Ilu.lean`; `D_i` is any left inverse of the stored
inverted pivot block `dinv_i`. -/
open Finset
namespace FeatModel.Solver.BlkIlu
open FeatModel.LA FeatModel.Solver

section Helpers
variable {β : Type} [Ring β]

theorem foldl_range'_sub (f : Nat → β) : ∀ (n s : Nat) (init : β),
    (List.range' s n).foldl (fun acc k => acc - f k) init = init - ∑ k ∈ range n, f (s + k)
  | 0, s, init => by simp
  | n + 1, s, init => by
    rw [List.range'_succ, List.foldl_cons, foldl_range'_sub f n (s + 1) (init - f s), Finset.sum_range_succ']
    have : ∀ k, f (s + 1 + k) = f (s + (k + 1)) := fun k => by congr 1; omega
    simp only [this, Nat.add_zero]
    abel

/-- `for (k = s; k < e; ++k) acc -= f k` -/
theorem foldRange_sub (f : Nat → β) (s e : Nat) (init : β) :
    foldRange s e (fun acc k => acc - f k) init = init - ∑ k ∈ Ico s e, f k := by
  unfold foldRange
  rw [foldl_range'_sub, Finset.sum_Ico_eq_sum_range]

omit [Ring β] in
theorem getD_setIfInBounds_self [Zero β] (x : Array β) (i : Nat) (v : β) (hi : i < x.size) :
    (x.setIfInBounds i v).getD i 0 = v := by
  simp [Array.getD, hi]

omit [Ring β] in
theorem getD_setIfInBounds_ne [Zero β] (x : Array β) (i j : Nat) (v : β) (h : i ≠ j) :
    (x.setIfInBounds i v).getD j 0 = x.getD j 0 := by
  rw [Array.getD_eq_getD_getElem?, Array.getD_eq_getD_getElem?, Array.getElem?_setIfInBounds_ne h]

/-- invariant of the ascending sweep: after rows `0..m-1` these rows satisfy their (stored-entry) equation -/
theorem solveIl_inv (L : Csr β)
    (hlow : ∀ i, i < L.rows → ∀ k, L.rowBegin i ≤ k → k < L.rowEnd i → L.colInd.getD k 0 < i)
    (b x0 : Array β) (hx0 : x0.size = L.rows) : ∀ m, m ≤ L.rows →
    ((List.range m).foldl (solveIlStep L b) x0).size = L.rows ∧
    ∀ i, i < m →
      ((List.range m).foldl (solveIlStep L b) x0).getD i 0
        + ∑ k ∈ Ico (L.rowBegin i) (L.rowEnd i),
            L.val.getD k 0 * ((List.range m).foldl (solveIlStep L b) x0).getD (L.colInd.getD k 0) 0
        = b.getD i 0 := by
  intro m
  induction m with
  | zero => intro _; exact ⟨by simpa using hx0, fun i hi => absurd hi (Nat.not_lt_zero i)⟩
  | succ m ih =>
    intro hm
    obtain ⟨hs, he⟩ := ih (by omega)
    rw [List.range_succ, List.foldl_append]
    simp only [List.foldl_cons, List.foldl_nil]
    generalize (List.range m).foldl (solveIlStep L b) x0 = x at hs he
    have key : ∀ j, j < m → (solveIlStep L b x m).getD j 0 = x.getD j 0 :=
      fun j hj => getD_setIfInBounds_ne _ _ _ _ (by omega)
    refine ⟨by unfold solveIlStep; rw [Array.size_setIfInBounds]; exact hs, ?_⟩
    intro i hi
    rcases Nat.lt_or_ge i m with hlt | hge
    · rw [key i hlt, ← he i hlt]
      congr 1
      apply Finset.sum_congr rfl
      intro k hk
      rw [Finset.mem_Ico] at hk
      rw [key _ (Nat.lt_trans (hlow i (by omega) k hk.1 hk.2) hlt)]
    · have : i = m := by omega
      subst this
      have h1 : (solveIlStep L b x i).getD i 0 = b.getD i 0
          - ∑ k ∈ Ico (L.rowBegin i) (L.rowEnd i), L.val.getD k 0 * x.getD (L.colInd.getD k 0) 0 := by
        unfold solveIlStep
        rw [getD_setIfInBounds_self _ _ _ (by omega), foldRange_sub]
      have h2 : ∑ k ∈ Ico (L.rowBegin i) (L.rowEnd i),
            L.val.getD k 0 * (solveIlStep L b x i).getD (L.colInd.getD k 0) 0
          = ∑ k ∈ Ico (L.rowBegin i) (L.rowEnd i), L.val.getD k 0 * x.getD (L.colInd.getD k 0) 0 := by
        apply Finset.sum_congr rfl
        intro k hk
        rw [Finset.mem_Ico] at hk
        rw [key _ (hlow i (by omega) k hk.1 hk.2)]
      rw [h1, h2, sub_add_cancel]

end Helpers

variable {α : Type} [Ring α]

set_option linter.unusedVariables false in -- `hsq`, `hb` belong to the interface but are not needed
/-- `solve_il`: `(I + L) y = b` for a strictly lower triangular CSR matrix `L`; the previous content `x0` of the
    output array is irrelevant -/
theorem solveIl_spec (L : Csr α) (hL : L.WF) (hsq : L.rows = L.cols)
    (hlow : ∀ i, i < L.rows → ∀ k, L.rowBegin i ≤ k → k < L.rowEnd i → L.colInd.getD k 0 < i)
    (b x0 : Array α) (hb : b.size = L.rows) (hx0 : x0.size = L.rows) :
    (solveIl L b x0).size = L.rows ∧
    ∀ i, i < L.rows →
      (solveIl L b x0).getD i 0 + ∑ j ∈ range L.cols, L.entry i j * (solveIl L b x0).getD j 0 = b.getD i 0 := by
  have h := solveIl_inv L hlow b x0 hx0 L.rows (Nat.le_refl _)
  refine ⟨h.1, ?_⟩
  intro i hi
  have e := Blk.sum_row_eq (R := α) (V := α) hL (fun j => (solveIl L b x0).getD j 0) hi
  simp only [smul_eq_mul] at e
  rw [← e]
  exact h.2 i hi

/-- invariant of the descending in-place sweep: if rows `≥ m` of `x` already satisfy their (stored-entry) equation and
    rows `< m` still hold the right-hand side, then after the remaining rows `m-1, …, 0` all rows do -/
theorem solveDu_inv (U : Csr α)
    (hupp : ∀ i, i < U.rows → ∀ k, U.rowBegin i ≤ k → k < U.rowEnd i → i < U.colInd.getD k 0)
    (dinv : Array α) (Dm : Nat → α) (hd : ∀ i, i < U.rows → Dm i * dinv.getD i 0 = 1) (y : Array α) :
    ∀ m, m ≤ U.rows → ∀ x : Array α, x.size = U.rows →
    (∀ i, i < m → x.getD i 0 = y.getD i 0) →
    (∀ i, m ≤ i → i < U.rows →
      Dm i * x.getD i 0
        + ∑ k ∈ Ico (U.rowBegin i) (U.rowEnd i), U.val.getD k 0 * x.getD (U.colInd.getD k 0) 0 = y.getD i 0) →
    ((List.range m).reverse.foldl (solveDuStep U dinv) x).size = U.rows ∧
    ∀ i, i < U.rows →
      Dm i * ((List.range m).reverse.foldl (solveDuStep U dinv) x).getD i 0
        + ∑ k ∈ Ico (U.rowBegin i) (U.rowEnd i),
            U.val.getD k 0 * ((List.range m).reverse.foldl (solveDuStep U dinv) x).getD (U.colInd.getD k 0) 0
        = y.getD i 0 := by
  intro m
  induction m with
  | zero =>
    intro _ x hs _ h
    simp only [List.range_zero, List.reverse_nil, List.foldl_nil]
    exact ⟨hs, fun i hi => h i (Nat.zero_le _) hi⟩
  | succ m ih =>
    intro hm x hs hlt hge
    rw [List.range_succ, List.reverse_append, List.reverse_singleton, List.singleton_append, List.foldl_cons]
    have key : ∀ j, m < j → (solveDuStep U dinv x m).getD j 0 = x.getD j 0 :=
      fun j hj => getD_setIfInBounds_ne _ _ _ _ (by omega)
    apply ih (by omega) (solveDuStep U dinv x m)
    · unfold solveDuStep; rw [Array.size_setIfInBounds]; exact hs
    · intro i hi
      rw [show (solveDuStep U dinv x m).getD i 0 = x.getD i 0 from getD_setIfInBounds_ne _ _ _ _ (by omega)]
      exact hlt i (by omega)
    · intro i hmi hi
      have h2 : ∑ k ∈ Ico (U.rowBegin i) (U.rowEnd i),
            U.val.getD k 0 * (solveDuStep U dinv x m).getD (U.colInd.getD k 0) 0
          = ∑ k ∈ Ico (U.rowBegin i) (U.rowEnd i), U.val.getD k 0 * x.getD (U.colInd.getD k 0) 0 := by
        apply Finset.sum_congr rfl
        intro k hk
        rw [Finset.mem_Ico] at hk
        rw [key _ (Nat.lt_of_le_of_lt hmi (hupp i hi k hk.1 hk.2))]
      rw [h2]
      rcases Nat.eq_or_lt_of_le hmi with heq | hlt'
      · subst heq
        have h1 : (solveDuStep U dinv x m).getD m 0 = dinv.getD m 0 * (y.getD m 0
            - ∑ k ∈ Ico (U.rowBegin m) (U.rowEnd m), U.val.getD k 0 * x.getD (U.colInd.getD k 0) 0) := by
          unfold solveDuStep
          rw [getD_setIfInBounds_self _ _ _ (by omega), foldRange_sub, hlt m (by omega)]
        rw [h1, ← mul_assoc, hd m hi, one_mul, sub_add_cancel]
      · rw [key i hlt']
        exact hge i (by omega) hi

set_option linter.unusedVariables false in -- `hsq` belongs to the interface but is not needed
/-- `solve_du` in place: `(D + U) z = y` with `D = diag(1 / dinv)` for a strictly upper triangular `U` -/
theorem solveDu_spec (U : Csr α) (hU : U.WF) (hsq : U.rows = U.cols)
    (hupp : ∀ i, i < U.rows → ∀ k, U.rowBegin i ≤ k → k < U.rowEnd i → i < U.colInd.getD k 0)
    (dinv : Array α) (Dm : Nat → α) (hd : ∀ i, i < U.rows → Dm i * dinv.getD i 0 = 1)
    (y : Array α) (hy : y.size = U.rows) :
    (solveDu U dinv y).size = U.rows ∧
    ∀ i, i < U.rows →
      Dm i * (solveDu U dinv y).getD i 0
          + ∑ j ∈ range U.cols, U.entry i j * (solveDu U dinv y).getD j 0 = y.getD i 0 := by
  have h := solveDu_inv U hupp dinv Dm hd y U.rows (Nat.le_refl _) y hy (fun _ _ => rfl)
    (fun i hi hi' => absurd hi' (Nat.not_lt.mpr hi))
  refine ⟨h.1, ?_⟩
  intro i hi
  have e := Blk.sum_row_eq (R := α) (V := α) hU (fun j => (solveDu U dinv y).getD j 0) hi
  simp only [smul_eq_mul] at e
  rw [← e]
  exact h.2 i hi



/-- `solve_il` followed by the in-place `solve_du`: for a well-shaped symbolic factorisation (`IluSym.wf`), data arrays
    of matching sizes and non-zero stored inverse pivots, the result `z` satisfies, row by row,
    `(D+U) z = y` and `(I+L) y = b`, i.e. `(I+L)(D+U) z = b` with `D = diag(1 / dataD)` -/
theorem iluSolve_spec_ring (s : IluSym) (hs : s.wf = true) (d : IluNum α)
    (hl : d.dataL.size = s.ciL.size) (hu : d.dataU.size = s.ciU.size)
    (Dm : Nat → α) (hd : ∀ i, i < s.n → Dm i * d.dataD.getD i 0 = 1) (b x0 : Array α) (hb : b.size = s.n) (hx0 : x0.size = s.n) :
    (iluSolve s d b x0).size = s.n ∧
    ∃ y : Array α, y.size = s.n ∧
      (∀ i, i < s.n → y.getD i 0 + ∑ j ∈ range s.n, (s.matL d).entry i j * y.getD j 0 = b.getD i 0) ∧
      (∀ i, i < s.n → Dm i * (iluSolve s d b x0).getD i 0
          + ∑ j ∈ range s.n, (s.matU d).entry i j * (iluSolve s d b x0).getD j 0 = y.getD i 0) := by
  simp only [IluSym.wf, Bool.and_eq_true, beq_iff_eq, List.all_eq_true, List.mem_range, List.mem_range'_1,
    decide_eq_true_eq, Array.all_eq_true] at hs
  obtain ⟨⟨⟨⟨⟨⟨⟨⟨h1, h2⟩, h3⟩, h4⟩, h5⟩, h6⟩, h7⟩, h8⟩, h9⟩ := hs
  have hcL : ∀ k, k < s.ciL.size → s.ciL.getD k 0 < s.n := by
    intro k hk
    have := h7 k hk
    simpa [Array.getD, hk] using this
  have hcU : ∀ k, k < s.ciU.size → s.ciU.getD k 0 < s.n := by
    intro k hk
    have := h8 k hk
    simpa [Array.getD, hk] using this
  have hL : (s.matL d).WF :=
    ⟨h1, h3, by show s.rpL.getD s.n 0 = d.dataL.size; rw [h5, hl], by show s.ciL.size = d.dataL.size; rw [hl],
      fun i hi => (h9 i hi).1.1.1, hcL⟩
  have hU : (s.matU d).WF :=
    ⟨h2, h4, by show s.rpU.getD s.n 0 = d.dataU.size; rw [h6, hu], by show s.ciU.size = d.dataU.size; rw [hu],
      fun i hi => (h9 i hi).1.1.2, hcU⟩
  have hlow : ∀ i, i < (s.matL d).rows → ∀ k, (s.matL d).rowBegin i ≤ k → k < (s.matL d).rowEnd i →
      (s.matL d).colInd.getD k 0 < i := by
    intro i hi k hk1 hk2
    have hks : k < s.ciL.size := Nat.lt_of_lt_of_le hk2 (Csr.rowEnd_le hL hi)
    have hm := (h9 i hi).1.1.1
    have := (h9 i hi).1.2 k ⟨hk1, by
      have hk2' : k < s.rpL.getD (i + 1) 0 := hk2
      omega⟩
    show s.ciL.getD k 0 < i
    rw [Csr.getD_eq_of_lt _ hks 0 s.n]
    exact this
  have hupp : ∀ i, i < (s.matU d).rows → ∀ k, (s.matU d).rowBegin i ≤ k → k < (s.matU d).rowEnd i →
      i < (s.matU d).colInd.getD k 0 := by
    intro i hi k hk1 hk2
    have hm := (h9 i hi).1.1.2
    exact ((h9 i hi).2 k ⟨hk1, by
      have hk2' : k < s.rpU.getD (i + 1) 0 := hk2
      omega⟩).1
  obtain ⟨hy, hyeq⟩ := BlkIlu.solveIl_spec (s.matL d) hL rfl hlow b x0 hb hx0
  obtain ⟨hz, hzeq⟩ := BlkIlu.solveDu_spec (s.matU d) hU rfl hupp d.dataD Dm hd (solveIl (s.matL d) b x0) hy
  exact ⟨hz, solveIl (s.matL d) b x0, hy, hyeq, hzeq⟩

end FeatModel.Solver.BlkIlu
