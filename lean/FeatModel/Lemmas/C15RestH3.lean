import FeatModel.Model.FEDual
/-! kernel-checked: shape, gradient and Hessian identities of the 3-D tensor tables; the 1-D tables are one-variable -/
namespace FeatModel.FE
open FeatModel.Poly FeatModel.Gen
set_option maxRecDepth 100000 in
theorem rest_l2 : (BasisH3.l2.shapeOk && BasisH3.l2.gradOk && BasisH3.l2.hessOk) = true := by decide +kernel
set_option maxRecDepth 100000 in
theorem rest_b2 : (BasisH3.b2.shapeOk && BasisH3.b2.gradOk && BasisH3.b2.hessOk) = true := by decide +kernel
set_option maxRecDepth 100000 in
theorem shape_l3 : BasisH3.l3.shapeOk = true := by decide +kernel
set_option maxRecDepth 100000 in
theorem onevar_h1 : (oneVarTab BasisH1.l2 && oneVarTab BasisH1.l3 && oneVarTab BasisH1.b2) = true := by decide +kernel
end FeatModel.FE
