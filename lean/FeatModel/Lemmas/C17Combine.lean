import FeatModel.Lemmas.C17Layered
import FeatModel.Lemmas.C17NoScatter
import FeatModel.Lemmas.C17Cover
import FeatModel.Lemmas.C17Colored
/-
C17: the combine phase in detail (`XEv`, `XSt`, `xstep`): lock acquire / `combine()` body / release.
Generic part over a protocol machine `(step, ph)` that satisfies `XCSpec`; instances for the layered and the
no-scatter machine: simulation, mutual exclusion of the bodies, the log invariant, "every worker combines
exactly once", and order-independence of the combined result.
-/
namespace FeatModel.DA

/-! ## generic part -/

/-- what the refinement needs to know about the protocol machine: `R` = an inductive invariant of the machine
(e.g. reachability), `n` = number of workers, `comb` = `need_combine` -/
structure XCSpec {σ : Type} (step : σ → Ev → Option σ) (ph : σ → Nat → Ph) (R : σ → Prop)
    (n : Nat) (comb : Bool) : Prop where
  step_reach : ∀ s e s', R s → step s e = some s' → R s'
  center_ph : ∀ s t s', R s → step s (.center t) = some s' →
    ph s t = .preComb ∧ ph s' t = .inComb ∧ ∀ w, w ≠ t → ph s' w = ph s w
  cleave_ph : ∀ s t s', R s → step s (.cleave t) = some s' →
    ph s t = .inComb ∧ ph s' t = .done ∧ ∀ w, w ≠ t → ph s' w = ph s w
  other_inComb : ∀ s e s', R s → isCombEv e = false → step s e = some s' →
    ∀ w, (ph s' w = .inComb ↔ ph s w = .inComb)
  other_done : ∀ s e s', R s → isCombEv e = false → step s e = some s' → comb = true →
    ∀ w, 1 ≤ w → w ≤ n → (ph s' w = .done ↔ ph s w = .done)
  inComb_range : ∀ s t, R s → ph s t = .inComb → 1 ≤ t ∧ t ≤ n ∧ comb = true
  mutex : ∀ s a b, R s → ph s a = .inComb → ph s b = .inComb → a = b

/-- reachability of the refined machine, generic -/
inductive XCReach {σ : Type} (step : σ → Ev → Option σ) (ph : σ → Nat → Ph) (s0 : σ) : XSt σ → Prop
  | init : XCReach step ph s0 (xinit s0)
  | step {s s' : XSt σ} (e : XEv) : XCReach step ph s0 s → xstep step ph s e = some s' →
      XCReach step ph s0 s'

structure XCInv {σ : Type} (ph : σ → Nat → Ph) (R : σ → Prop) (n : Nat) (comb : Bool) (s : XSt σ) :
    Prop where
  base : R s.base
  nodup : s.log.Nodup
  mem : ∀ t, t ∈ s.log ↔ (1 ≤ t ∧ t ≤ n ∧ comb = true ∧
    ((ph s.base t = .inComb ∧ s.sub t = 2) ∨ ph s.base t = .done))

theorem xc_inv_init {σ : Type} (ph : σ → Nat → Ph) (R : σ → Prop) (n : Nat) (comb : Bool) (s0 : σ)
    (hR : R s0) (h0 : comb = true → ∀ w, 1 ≤ w → w ≤ n → ph s0 w ≠ .done) :
    XCInv ph R n comb (xinit s0) := by
  refine ⟨hR, by simp [xinit], ?_⟩
  intro t
  simp only [xinit, List.not_mem_nil, false_iff]
  intro ⟨h1, h2, hc, h⟩
  rcases h with ⟨_, h⟩ | h
  · omega
  · exact h0 hc t h1 h2 h

theorem xc_inv_step {σ : Type} {step : σ → Ev → Option σ} {ph : σ → Nat → Ph} {R : σ → Prop}
    {n : Nat} {comb : Bool} (spec : XCSpec step ph R n comb) {s s' : XSt σ} {e : XEv}
    (hi : XCInv ph R n comb s) (h : xstep step ph s e = some s') : XCInv ph R n comb s' := by
  obtain ⟨hR, hnd, hmem⟩ := hi
  cases e with
  | base e =>
    simp only [xstep] at h
    split at h
    · cases h
    · next hce =>
      have hce' : isCombEv e = false := by simpa using hce
      simp only [Option.map_eq_some_iff] at h
      obtain ⟨b, hb, rfl⟩ := h
      have hI := spec.other_inComb _ _ _ hR hce' hb
      have hD := spec.other_done _ _ _ hR hce' hb
      refine ⟨spec.step_reach _ _ _ hR hb, hnd, ?_⟩
      intro t
      rw [hmem t]
      simp only
      constructor
      · intro ⟨h1, h2, hc, hx⟩
        refine ⟨h1, h2, hc, ?_⟩
        rw [hI t, hD hc t h1 h2]; exact hx
      · intro ⟨h1, h2, hc, hx⟩
        refine ⟨h1, h2, hc, ?_⟩
        rw [hI t, hD hc t h1 h2] at hx; exact hx
  | lock t =>
    simp only [xstep, Option.map_eq_some_iff] at h
    obtain ⟨b, hb, rfl⟩ := h
    obtain ⟨hp, hp', hoth⟩ := spec.center_ph _ _ _ hR hb
    refine ⟨spec.step_reach _ _ _ hR hb, hnd, ?_⟩
    intro w
    rw [hmem w]
    simp only [upd]
    by_cases hw : w = t
    · subst hw; simp [hp, hp']
    · simp [hw, hoth w hw]
  | cbeg t =>
    simp only [xstep] at h
    split at h
    · next hc =>
      injection h with h; subst h
      refine ⟨hR, hnd, ?_⟩
      intro w
      rw [hmem w]
      simp only [upd]
      by_cases hw : w = t
      · subst hw; simp [hc.1, hc.2]
      · simp [hw]
    · cases h
  | cend t =>
    simp only [xstep] at h
    split at h
    · next hc =>
      injection h with h; subst h
      obtain ⟨h1, h2, hcb⟩ := spec.inComb_range _ _ hR hc.1
      have hnot : t ∉ s.log := by
        rw [hmem t]; simp [hc.1, hc.2]
      refine ⟨hR, ?_, ?_⟩
      · rw [List.nodup_append]
        refine ⟨hnd, by simp, ?_⟩
        intro a ha b hb
        simp only [List.mem_singleton] at hb
        subst hb
        intro hab; subst hab; exact hnot ha
      · intro w
        simp only [List.mem_append, List.mem_singleton, upd]
        rw [hmem w]
        by_cases hw : w = t
        · subst hw; simp [hc.1, h1, h2, hcb]
        · simp [hw]
    · cases h
  | unlock t =>
    simp only [xstep] at h
    split at h
    · next hc =>
      simp only [Option.map_eq_some_iff] at h
      obtain ⟨b, hb, rfl⟩ := h
      obtain ⟨hp, hp', hoth⟩ := spec.cleave_ph _ _ _ hR hb
      refine ⟨spec.step_reach _ _ _ hR hb, hnd, ?_⟩
      intro w
      rw [hmem w]
      simp only [upd]
      by_cases hw : w = t
      · subst hw; simp [hp, hp', hc]
      · simp [hw, hoth w hw]
    · cases h

theorem xc_inv_reach {σ : Type} {step : σ → Ev → Option σ} {ph : σ → Nat → Ph} {R : σ → Prop}
    {n : Nat} {comb : Bool} (spec : XCSpec step ph R n comb) (s0 : σ) (hR : R s0)
    (h0 : comb = true → ∀ w, 1 ≤ w → w ≤ n → ph s0 w ≠ .done) (s : XSt σ)
    (hs : XCReach step ph s0 s) : XCInv ph R n comb s := by
  induction hs with
  | init => exact xc_inv_init ph R n comb s0 hR h0
  | step e _ h ih => exact xc_inv_step spec ih h

theorem xc_body_exclusive {σ : Type} {step : σ → Ev → Option σ} {ph : σ → Nat → Ph} {R : σ → Prop}
    {n : Nat} {comb : Bool} (spec : XCSpec step ph R n comb) {s : XSt σ} (hi : XCInv ph R n comb s)
    (a b : Nat) (hA : inBody ph s a) (hB : inBody ph s b) : a = b :=
  spec.mutex _ a b hi.base hA.1 hB.1

theorem xc_lock_exclusive {σ : Type} {step : σ → Ev → Option σ} {ph : σ → Nat → Ph} {R : σ → Prop}
    {n : Nat} {comb : Bool} (spec : XCSpec step ph R n comb) {s : XSt σ} (hi : XCInv ph R n comb s)
    (a b : Nat) (hA : holdsLock ph s a) (hB : holdsLock ph s b) : a = b :=
  spec.mutex _ a b hi.base hA hB

theorem xc_workers_nodup (n : Nat) : ((List.range n).map (· + 1)).Nodup :=
  List.Pairwise.map _ (fun a b hab => by omega) List.nodup_range

theorem xc_mem_workers (n t : Nat) : t ∈ (List.range n).map (· + 1) ↔ 1 ≤ t ∧ t ≤ n := by
  simp only [List.mem_map, List.mem_range]
  constructor
  · rintro ⟨k, hk, rfl⟩; omega
  · intro h; exact ⟨t - 1, by omega, by omega⟩

/-- when all workers are done, the log is a permutation of the workers (with combine), resp. empty -/
theorem xc_combine_once {σ : Type} {ph : σ → Nat → Ph} {R : σ → Prop} {n : Nat} {comb : Bool}
    {s : XSt σ} (hi : XCInv ph R n comb s) (hall : ∀ w, 1 ≤ w → w ≤ n → ph s.base w = .done) :
    s.log.Perm (if comb then (List.range n).map (· + 1) else []) := by
  cases comb with
  | false =>
    have : s.log = [] := by
      apply List.eq_nil_iff_forall_not_mem.2
      intro t ht
      have := (hi.mem t).1 ht
      simp at this
    simp [this]
  | true =>
    simp only [if_true]
    rw [List.perm_ext_iff_of_nodup hi.nodup (xc_workers_nodup n)]
    intro t
    rw [hi.mem t, xc_mem_workers]
    constructor
    · intro h; exact ⟨h.1, h.2.1⟩
    · intro h; exact ⟨h.1, h.2, rfl, Or.inr (hall t h.1 h.2)⟩

theorem xc_result {α : Type} (op : α → α → α) (hc : ∀ a b, op a b = op b a)
    (ha : ∀ a b c, op (op a b) c = op a (op b c)) (z : α) (loc : Nat → α) (log ws : List Nat)
    (h : log.Perm ws) : combinedResult op z loc log = combinedResult op z loc ws :=
  threaded_eq_serial op hc ha loc z log ws h

/-! ## layered: base steps indexed by their event, and the base invariant -/

inductive XCLB (c : LCfg) (s : LSt) : Ev → LSt → Prop
  | mopen : s.ph 0 = .front →
      XCLB c s (.fopen 0 0) { s with fence := updB s.fence 0 true, ph := updP s.ph 0 .back }
  | join : s.ph 0 = .back → c.allDone s = true →
      XCLB c s .join { s with ph := updP s.ph 0 .done }
  | wfront (t : Nat) : 1 ≤ t → t ≤ c.n → s.ph t = .front → s.fence 0 = true →
      XCLB c s (.fwait t 0) { s with ph := updP s.ph t (c.after t (s.pos t)) }
  | wwait (t : Nat) : 1 ≤ t → t ≤ c.n → s.ph t = .idle → c.waitAt t = some (s.pos t) →
      s.fence (t + 1) = true →
      XCLB c s (.fwait t (t + 1)) { s with ph := updP s.ph t .ready }
  | enterI (t : Nat) : 1 ≤ t → t ≤ c.n → s.ph t = .idle → c.waitAt t ≠ some (s.pos t) →
      XCLB c s (.enter t (c.cell (s.pos t))) { s with ph := updP s.ph t .insc }
  | enterR (t : Nat) : 1 ≤ t → t ≤ c.n → s.ph t = .ready →
      XCLB c s (.enter t (c.cell (s.pos t))) { s with ph := updP s.ph t .insc }
  | leaveO (t : Nat) : 1 ≤ t → t ≤ c.n → s.ph t = .insc → c.openAt t = some (s.pos t) →
      XCLB c s (.leave t (c.cell (s.pos t))) { s with ph := updP s.ph t .toOpen }
  | leaveN (t : Nat) : 1 ≤ t → t ≤ c.n → s.ph t = .insc → c.openAt t ≠ some (s.pos t) →
      XCLB c s (.leave t (c.cell (s.pos t)))
        { s with ph := updP s.ph t (c.after t (s.pos t + 1)), pos := upd s.pos t (s.pos t + 1) }
  | wopen (t : Nat) : 1 ≤ t → t ≤ c.n → s.ph t = .toOpen →
      XCLB c s (.fopen t t)
        { s with fence := updB s.fence t true, ph := updP s.ph t (c.after t (s.pos t + 1)),
                 pos := upd s.pos t (s.pos t + 1) }
  | center (t : Nat) : 1 ≤ t → t ≤ c.n → s.ph t = .preComb → s.mutex = false →
      XCLB c s (.center t) { s with ph := updP s.ph t .inComb, mutex := true }
  | cleave (t : Nat) : 1 ≤ t → t ≤ c.n → s.ph t = .inComb →
      XCLB c s (.cleave t) { s with ph := updP s.ph t .done, mutex := false }

theorem xc_l_step {c : LCfg} {s s' : LSt} {e : Ev} (h : c.step s e = some s') : XCLB c s e s' := by
  obtain ⟨hn, hen, rfl⟩ := step_parts h
  by_cases ht : e.thread = 0
  · rw [ht] at hn
    rcases next_zero hn with ⟨hp, rfl⟩ | ⟨hp, rfl⟩
    · simpa [LCfg.apply] using XCLB.mopen (c := c) hp
    · simpa [LCfg.apply] using XCLB.join hp (by simpa [LCfg.enabled] using hen)
  · generalize hteq : e.thread = t at hn ht
    obtain ⟨hle, hcases⟩ := next_worker ht hn
    have h1 : 1 ≤ t := by omega
    rcases hcases with ⟨hp, rfl⟩ | ⟨hp, hw, rfl⟩ | ⟨hp, hw, rfl⟩ | ⟨hp, rfl⟩ | ⟨hp, rfl⟩ | ⟨hp, rfl⟩ |
      ⟨hp, rfl⟩ | ⟨hp, rfl⟩
    · simpa [LCfg.apply] using XCLB.wfront _ h1 hle hp (by simpa [LCfg.enabled] using hen)
    · simpa [LCfg.apply] using XCLB.wwait _ h1 hle hp hw (by simpa [LCfg.enabled] using hen)
    · simpa [LCfg.apply] using XCLB.enterI _ h1 hle hp hw
    · simpa [LCfg.apply] using XCLB.enterR _ h1 hle hp
    · by_cases ho : c.openAt t = some (s.pos t)
      · simpa [LCfg.apply, ho] using XCLB.leaveO _ h1 hle hp ho
      · simpa [LCfg.apply, ho] using XCLB.leaveN _ h1 hle hp ho
    · simpa [LCfg.apply, ht] using XCLB.wopen _ h1 hle hp
    · simpa [LCfg.apply] using XCLB.center _ h1 hle hp (by simpa [LCfg.enabled] using hen)
    · simpa [LCfg.apply] using XCLB.cleave _ h1 hle hp


theorem xc_after_cases (c : LCfg) (w p : Nat) :
    c.after w p = .idle ∨ (c.after w p = .preComb ∧ c.comb = true) ∨
    (c.after w p = .done ∧ c.comb = false) := by
  unfold LCfg.after
  by_cases h1 : p < c.fin w
  · simp [h1]
  · by_cases h2 : c.comb = true
    · simp [h1, h2]
    · simp [h1, h2]

set_option linter.unusedSimpArgs false

structure XCLInv (c : LCfg) (s : LSt) : Prop where
  pre : ∀ t, (s.ph t = .preComb ∨ s.ph t = .inComb) → 1 ≤ t ∧ t ≤ c.n ∧ c.comb = true
  fin : s.ph 0 = .done → ∀ w, 1 ≤ w → w ≤ c.n → s.ph w = .done

theorem XCLInv_init (c : LCfg) : XCLInv c c.init := by
  constructor <;> simp [LCfg.init]

theorem XCLInv_step_pre {c : LCfg} {s s' : LSt} (hi : XCLInv c s) (hst : LStep c s s') :
    ∀ t, (s'.ph t = .preComb ∨ s'.ph t = .inComb) → 1 ≤ t ∧ t ≤ c.n ∧ c.comb = true := by
  obtain ⟨pre, fin⟩ := hi
  cases hst
  all_goals
    simp only [updP, upd, updB]
    grind [xc_after_cases]

theorem XCLInv_step_fin {c : LCfg} {s s' : LSt} (hi : XCLInv c s) (hst : LStep c s s') :
    s'.ph 0 = .done → ∀ w, 1 ≤ w → w ≤ c.n → s'.ph w = .done := by
  obtain ⟨pre, fin⟩ := hi
  have hall := allDone_iff c s
  cases hst
  all_goals
    simp only [updP, upd, updB]
    grind

theorem XCLInv_reach {c : LCfg} {s : LSt} (hs : c.Reach s) : XCLInv c s :=
  reach_induct (XCLInv_init c)
    (fun _ _ hi hst => ⟨XCLInv_step_pre hi hst, XCLInv_step_fin hi hst⟩) s hs

theorem xc_l_other_inComb {c : LCfg} {s s' : LSt} {e : Ev} (he : isCombEv e = false)
    (hB : XCLB c s e s') : ∀ w, (s'.ph w = .inComb ↔ s.ph w = .inComb) := by
  cases hB
  all_goals
    simp only [updP, upd, updB, isCombEv] at he ⊢
    grind [xc_after_cases]

theorem xc_l_other_done {c : LCfg} {s s' : LSt} {e : Ev} (he : isCombEv e = false)
    (hB : XCLB c s e s') (hc : c.comb = true) :
    ∀ w, 1 ≤ w → w ≤ c.n → (s'.ph w = .done ↔ s.ph w = .done) := by
  cases hB
  all_goals
    simp only [updP, upd, updB, isCombEv] at he ⊢
    grind [xc_after_cases]

theorem xc_l_spec (c : LCfg) : XCSpec c.step (fun s => s.ph) c.Reach c.n c.comb where
  step_reach := fun _ e _ hR h => LCfg.Reach.step e hR h
  center_ph := by
    intro s t s' _ h
    have hB := xc_l_step h
    cases hB with
    | center _ _ _ hp _ => exact ⟨hp, by simp [updP], fun w hw => by simp [updP, hw]⟩
  cleave_ph := by
    intro s t s' _ h
    have hB := xc_l_step h
    cases hB with
    | cleave _ _ _ hp => exact ⟨hp, by simp [updP], fun w hw => by simp [updP, hw]⟩
  other_inComb := fun _ _ _ _ he h => xc_l_other_inComb he (xc_l_step h)
  other_done := fun _ _ _ _ he h hc => xc_l_other_done he (xc_l_step h) hc
  inComb_range := fun s t hR hp => (XCLInv_reach hR).pre t (Or.inr hp)
  mutex := fun s a b hR hA hB =>
    (reach_induct (MInv_init c) (fun _ _ hi hst => MInv_step hi hst) s hR).m2 a b hA hB

theorem xc_l_reach (c : LCfg) (s : XSt LSt) (hs : c.XReach s) :
    XCReach c.step (fun s => s.ph) c.init s := by
  induction hs with
  | init => exact XCReach.init
  | step e _ h ih => exact XCReach.step e ih h

theorem xc_l_inv (c : LCfg) (s : XSt LSt) (hs : c.XReach s) :
    XCInv (fun s => s.ph) c.Reach c.n c.comb s :=
  xc_inv_reach (xc_l_spec c) c.init LCfg.Reach.init (by intro _ w _ _; simp [LCfg.init]) s
    (xc_l_reach c s hs)

/-! ## layered: the theorems -/

/-- the base component of a refined-reachable state is reachable in the protocol machine (simulation) -/
theorem layered_x_base_reach (c : LCfg) (s : XSt LSt) (hs : c.XReach s) : c.Reach s.base :=
  (xc_l_inv c s hs).base

/-- combine() bodies are mutually exclusive -/
theorem layered_x_body_exclusive (c : LCfg) (s : XSt LSt) (hs : c.XReach s) (a b : Nat)
    (ha : 1 ≤ a ∧ a ≤ c.n) (hb : 1 ≤ b ∧ b ≤ c.n)
    (hA : inBody (fun s => s.ph) s a) (hB : inBody (fun s => s.ph) s b) : a = b :=
  have _ := ha
  have _ := hb
  xc_body_exclusive (xc_l_spec c) (xc_l_inv c s hs) a b hA hB

/-- at most one worker holds the mutex; a body only runs while its worker holds it (`inBody → holdsLock`) -/
theorem layered_x_lock_exclusive (c : LCfg) (s : XSt LSt) (hs : c.XReach s) (a b : Nat)
    (ha : 1 ≤ a ∧ a ≤ c.n) (hb : 1 ≤ b ∧ b ≤ c.n)
    (hA : holdsLock (fun s => s.ph) s a) (hB : holdsLock (fun s => s.ph) s b) : a = b :=
  have _ := ha
  have _ := hb
  xc_lock_exclusive (xc_l_spec c) (xc_l_inv c s hs) a b hA hB

/-- at every time: nobody is in the log twice, and a worker is in the log iff its body has completed -/
theorem layered_x_log_inv (c : LCfg) (s : XSt LSt) (hs : c.XReach s) :
    s.log.Nodup ∧ ∀ t, t ∈ s.log ↔ (1 ≤ t ∧ t ≤ c.n ∧ c.comb = true ∧
      ((s.base.ph t = .inComb ∧ s.sub t = 2) ∨ s.base.ph t = .done)) :=
  ⟨(xc_l_inv c s hs).nodup, (xc_l_inv c s hs).mem⟩

/-- every worker combines exactly once per job: when the job is finished the log is a permutation of the
    workers 1..n (with combine), resp. empty (without) -/
theorem layered_x_combine_once (c : LCfg) (s : XSt LSt) (hs : c.XReach s)
    (hf : LCfg.final s.base = true) :
    s.log.Perm (if c.comb then (List.range c.n).map (· + 1) else []) := by
  have hi := xc_l_inv c s hs
  refine xc_combine_once hi ?_
  exact (XCLInv_reach hi.base).fin (by simpa [LCfg.final] using hf)

/-- the combined result does not depend on the order in which the workers combine -/
theorem layered_x_result (c : LCfg) (s : XSt LSt) (hs : c.XReach s) (hf : LCfg.final s.base = true)
    {α : Type} (op : α → α → α) (hc : ∀ a b, op a b = op b a)
    (ha : ∀ a b c, op (op a b) c = op a (op b c)) (z : α) (loc : Nat → α) (hcomb : c.comb = true) :
    combinedResult op z loc s.log = combinedResult op z loc ((List.range c.n).map (· + 1)) := by
  have h := layered_x_combine_once c s hs hf
  rw [hcomb] at h
  exact xc_result op hc ha z loc _ _ h

/-! ## no-scatter -/

inductive XCNB (c : NCfg) (s : NSt) : Ev → NSt → Prop
  | mopen : s.mph = .front → XCNB c s (.fopen 0 0) { s with front := true, mph := .back }
  | join : s.mph = .back → c.allDone s = true → XCNB c s .join { s with mph := .done }
  | center (t : Nat) : 1 ≤ t → t ≤ c.n → s.ph t = .preComb → s.mutex = false →
      XCNB c s (.center t) { s with ph := updP s.ph t .inComb, mutex := true }
  | cleave (t : Nat) : 1 ≤ t → t ≤ c.n → s.ph t = .inComb →
      XCNB c s (.cleave t) { s with ph := updP s.ph t .done, mutex := false }

theorem xc_n_step {c : NCfg} {s s' : NSt} {e : Ev} (h : c.step s e = some s') : XCNB c s e s' := by
  obtain ⟨hn, hen, rfl⟩ := ns_step_parts h
  by_cases ht : e.thread = 0
  · rw [ht] at hn
    rcases ns_next_zero hn with ⟨hp, rfl⟩ | ⟨hp, rfl⟩
    · simpa [NCfg.apply] using XCNB.mopen (c := c) hp
    · simpa [NCfg.apply] using XCNB.join hp (by simpa [NCfg.enabled] using hen)
  · generalize hteq : e.thread = t at hn ht
    obtain ⟨hle, hcases⟩ := ns_next_worker ht hn
    have h1 : 1 ≤ t := by omega
    rcases hcases with ⟨hp, rfl⟩ | ⟨hp, rfl⟩
    · simpa [NCfg.apply] using XCNB.center _ h1 hle hp (by simpa [NCfg.enabled] using hen)
    · simpa [NCfg.apply] using XCNB.cleave _ h1 hle hp

structure XCNInv (c : NCfg) (s : NSt) : Prop where
  pre : ∀ t, s.ph t = .preComb → c.comb = true
  inc : ∀ t, s.ph t = .inComb → 1 ≤ t ∧ t ≤ c.n ∧ c.comb = true
  fin : s.mph = .done → ∀ w, 1 ≤ w → w ≤ c.n → s.ph w = .done

theorem XCNInv_init (c : NCfg) : XCNInv c c.init := by
  obtain ⟨n, comb⟩ := c
  cases comb <;> constructor <;> simp [NCfg.init]

theorem XCNInv_step {c : NCfg} {s s' : NSt} (hi : XCNInv c s) (hst : NStep c s s') : XCNInv c s' := by
  obtain ⟨pre, inc, fin⟩ := hi
  have hall := ns_allDone_iff c s
  cases hst
  all_goals
    constructor
    all_goals
      simp only [updP]
      grind

theorem XCNInv_reach {c : NCfg} {s : NSt} (hs : c.Reach s) : XCNInv c s :=
  ns_reach_induct (XCNInv_init c) (fun _ _ hi hst => XCNInv_step hi hst) s hs

theorem xc_n_spec (c : NCfg) : XCSpec c.step (fun s => s.ph) c.Reach c.n c.comb where
  step_reach := fun _ e _ hR h => NCfg.Reach.step e hR h
  center_ph := by
    intro s t s' _ h
    have hB := xc_n_step h
    cases hB with
    | center _ _ _ hp _ => exact ⟨hp, by simp [updP], fun w hw => by simp [updP, hw]⟩
  cleave_ph := by
    intro s t s' _ h
    have hB := xc_n_step h
    cases hB with
    | cleave _ _ _ hp => exact ⟨hp, by simp [updP], fun w hw => by simp [updP, hw]⟩
  other_inComb := by
    intro s e s' _ he h w
    have hB := xc_n_step h
    cases hB <;> simp_all [isCombEv]
  other_done := by
    intro s e s' _ he h _ w _ _
    have hB := xc_n_step h
    cases hB <;> simp_all [isCombEv]
  inComb_range := fun s t hR hp => (XCNInv_reach hR).inc t hp
  mutex := fun s a b hR hA hB => (NInv_reach hR).m2 a b hA hB

theorem xc_n_reach (c : NCfg) (s : XSt NSt) (hs : c.XReach s) :
    XCReach c.step (fun s => s.ph) c.init s := by
  induction hs with
  | init => exact XCReach.init
  | step e _ h ih => exact XCReach.step e ih h

theorem xc_n_inv (c : NCfg) (s : XSt NSt) (hs : c.XReach s) :
    XCInv (fun s => s.ph) c.Reach c.n c.comb s :=
  xc_inv_reach (xc_n_spec c) c.init NCfg.Reach.init
    (by intro hc w _ _; simp [NCfg.init, hc]) s (xc_n_reach c s hs)

/-- the base component of a refined-reachable state is reachable in the protocol machine (simulation) -/
theorem noscatter_x_base_reach (c : NCfg) (s : XSt NSt) (hs : c.XReach s) : c.Reach s.base :=
  (xc_n_inv c s hs).base

/-- combine() bodies are mutually exclusive -/
theorem noscatter_x_body_exclusive (c : NCfg) (s : XSt NSt) (hs : c.XReach s) (a b : Nat)
    (ha : 1 ≤ a ∧ a ≤ c.n) (hb : 1 ≤ b ∧ b ≤ c.n)
    (hA : inBody (fun s => s.ph) s a) (hB : inBody (fun s => s.ph) s b) : a = b :=
  have _ := ha
  have _ := hb
  xc_body_exclusive (xc_n_spec c) (xc_n_inv c s hs) a b hA hB

/-- at most one worker holds the mutex -/
theorem noscatter_x_lock_exclusive (c : NCfg) (s : XSt NSt) (hs : c.XReach s) (a b : Nat)
    (ha : 1 ≤ a ∧ a ≤ c.n) (hb : 1 ≤ b ∧ b ≤ c.n)
    (hA : holdsLock (fun s => s.ph) s a) (hB : holdsLock (fun s => s.ph) s b) : a = b :=
  have _ := ha
  have _ := hb
  xc_lock_exclusive (xc_n_spec c) (xc_n_inv c s hs) a b hA hB

/-- at every time: nobody is in the log twice, and a worker is in the log iff its body has completed -/
theorem noscatter_x_log_inv (c : NCfg) (s : XSt NSt) (hs : c.XReach s) :
    s.log.Nodup ∧ ∀ t, t ∈ s.log ↔ (1 ≤ t ∧ t ≤ c.n ∧ c.comb = true ∧
      ((s.base.ph t = .inComb ∧ s.sub t = 2) ∨ s.base.ph t = .done)) :=
  ⟨(xc_n_inv c s hs).nodup, (xc_n_inv c s hs).mem⟩

/-- every worker combines exactly once per job -/
theorem noscatter_x_combine_once (c : NCfg) (s : XSt NSt) (hs : c.XReach s)
    (hf : NCfg.final s.base = true) :
    s.log.Perm (if c.comb then (List.range c.n).map (· + 1) else []) := by
  have hi := xc_n_inv c s hs
  refine xc_combine_once hi ?_
  exact (XCNInv_reach hi.base).fin (by simpa [NCfg.final] using hf)

/-- the combined result does not depend on the order in which the workers combine -/
theorem noscatter_x_result (c : NCfg) (s : XSt NSt) (hs : c.XReach s) (hf : NCfg.final s.base = true)
    {α : Type} (op : α → α → α) (hc : ∀ a b, op a b = op b a)
    (ha : ∀ a b c, op (op a b) c = op a (op b c)) (z : α) (loc : Nat → α) (hcomb : c.comb = true) :
    combinedResult op z loc s.log = combinedResult op z loc ((List.range c.n).map (· + 1)) := by
  have h := noscatter_x_combine_once c s hs hf
  rw [hcomb] at h
  exact xc_result op hc ha z loc _ _ h

/-! ## colored -/

theorem xc_c_next {c : CCfg} {s : CSt} {t : Nat} {e : Ev} (h : c.next s t = some e) :
    (∀ u, e = .center u → u = t ∧ s.ph t = .preComb) ∧ (∀ u, e = .cleave u → u = t ∧ s.ph t = .inComb) ∧
    (isCombEv e = false → t ≠ 0 → s.ph t ≠ .inComb ∧ s.ph t ≠ .preComb ∧ s.ph t ≠ .done) ∧
    (∀ u x, e = .enter u x ∨ e = .leave u x → t ≠ 0) := by
  unfold CCfg.next at h
  by_cases ht : t = 0
  · subst ht
    simp only [if_true] at h
    split at h <;> cases h <;> simp_all [isCombEv]
  · rw [if_neg ht] at h
    by_cases hn : c.n < t
    · rw [if_pos hn] at h; cases h
    · rw [if_neg hn] at h
      split at h <;> cases h <;> simp_all [isCombEv]

theorem xc_c_parts {c : CCfg} {s s' : CSt} {e : Ev} (h : c.step s e = some s') :
    c.next s e.thread = some e ∧ s' = c.apply s e := by
  unfold CCfg.step at h
  split at h
  · next hc => exact ⟨hc.1, by injection h with h; exact h.symm⟩
  · cases h

theorem xc_c_other_inComb {c : CCfg} {s s' : CSt} {e : Ev} (h : c.step s e = some s')
    (he : isCombEv e = false) : ∀ w, (s'.ph w = .inComb ↔ s.ph w = .inComb) := by
  obtain ⟨hn, rfl⟩ := xc_c_parts h
  have h3 := (xc_c_next hn).2.2.1 he
  have h4 := (xc_c_next hn).2.2.2
  clear h hn
  intro w
  cases e <;> simp only [CCfg.apply, Ev.thread, isCombEv] at * <;> (repeat' split) <;>
    simp only [updP, CCfg.afterElem] <;> grind

theorem xc_c_other_done {c : CCfg} {s s' : CSt} {e : Ev} (h : c.step s e = some s')
    (he : isCombEv e = false) (hc : c.comb = true) :
    ∀ w, 1 ≤ w → w ≤ c.n → (s'.ph w = .done ↔ s.ph w = .done) := by
  obtain ⟨hn, rfl⟩ := xc_c_parts h
  have h3 := (xc_c_next hn).2.2.1 he
  have h4 := (xc_c_next hn).2.2.2
  clear h hn
  intro w _ _
  cases e <;> simp only [CCfg.apply, Ev.thread, isCombEv] at * <;> (repeat' split) <;>
    simp only [updP, CCfg.afterElem] <;> grind

theorem xc_c_center {c : CCfg} {s s' : CSt} {t : Nat} (h : c.step s (.center t) = some s') :
    s.ph t = .preComb ∧ s'.ph t = .inComb ∧ ∀ w, w ≠ t → s'.ph w = s.ph w := by
  obtain ⟨hn, rfl⟩ := xc_c_parts h
  have h1 := (xc_c_next hn).1 t rfl
  exact ⟨h1.2, by simp [CCfg.apply, updP], fun w hw => by simp [CCfg.apply, updP, hw]⟩

theorem xc_c_cleave {c : CCfg} {s s' : CSt} {t : Nat} (h : c.step s (.cleave t) = some s') :
    s.ph t = .inComb ∧ s'.ph t = .done ∧ ∀ w, w ≠ t → s'.ph w = s.ph w := by
  obtain ⟨hn, rfl⟩ := xc_c_parts h
  have h1 := (xc_c_next hn).2.1 t rfl
  exact ⟨h1.2, by simp [CCfg.apply, updP], fun w hw => by simp [CCfg.apply, updP, hw]⟩

theorem xc_c_allDone_iff (c : CCfg) (s : CSt) :
    c.allDone s = true ↔ ∀ w, 1 ≤ w → w ≤ c.n → s.ph w = .done := by
  simp only [CCfg.allDone, List.all_eq_true, List.mem_range, beq_iff_eq]
  constructor
  · intro h w h1 h2
    have := h (w - 1) (by omega)
    have e : w - 1 + 1 = w := by omega
    rw [e] at this; exact this
  · intro h k hk
    exact h (k + 1) (by omega) (by omega)

structure XCCInv (c : CCfg) (s : CSt) : Prop where
  pre : ∀ t, s.ph t = .preComb → c.comb = true
  inc : ∀ t, s.ph t = .inComb → 1 ≤ t ∧ t ≤ c.n ∧ c.comb = true
  fin : s.mph = .done → ∀ w, 1 ≤ w → w ≤ c.n → s.ph w = .done

theorem XCCInv_init (c : CCfg) : XCCInv c c.init := by
  constructor <;> grind [CCfg.init]

theorem XCCInv_step {c : CCfg} {s s' : CSt} (hi : XCCInv c s) (tr : CTr c s s') : XCCInv c s' := by
  obtain ⟨pre, inc, fin⟩ := hi
  have hall := xc_c_allDone_iff c s
  refine ⟨?_, ?_, ?_⟩
  · cases tr <;> grind [updP, CCfg.afterElem]
  · cases tr <;> grind [updP, CCfg.afterElem]
  · cases tr <;> grind [updP, CCfg.afterElem]

theorem XCCInv_reach {c : CCfg} {s : CSt} (hs : c.Reach s) : XCCInv c s :=
  CCfg.reach_induct (XCCInv_init c) (fun _ _ h tr => XCCInv_step h tr) hs

theorem xc_c_spec (c : CCfg) : XCSpec c.step (fun s => s.ph) c.Reach c.n c.comb where
  step_reach := fun _ e _ hR h => CCfg.Reach.step e hR h
  center_ph := fun _ _ _ _ h => xc_c_center h
  cleave_ph := fun _ _ _ _ h => xc_c_cleave h
  other_inComb := fun _ _ _ _ he h => xc_c_other_inComb h he
  other_done := fun _ _ _ _ he h hc => xc_c_other_done h he hc
  inComb_range := fun _ t hR hp => (XCCInv_reach hR).inc t hp
  mutex := fun _ a b hR hA hB => (CMInv.reach hR).uniq a b hA hB

theorem xc_c_reach (c : CCfg) (s : XSt CSt) (hs : c.XReach s) :
    XCReach c.step (fun s => s.ph) c.init s := by
  induction hs with
  | init => exact XCReach.init
  | step e _ h ih => exact XCReach.step e ih h

theorem xc_c_inv (c : CCfg) (s : XSt CSt) (hs : c.XReach s) :
    XCInv (fun s => s.ph) c.Reach c.n c.comb s :=
  xc_inv_reach (xc_c_spec c) c.init CCfg.Reach.init
    (by intro hc w _ _; simp only [CCfg.init, hc]; split <;> simp) s (xc_c_reach c s hs)

/-- the base component of a refined-reachable state is reachable in the protocol machine (simulation) -/
theorem colored_x_base_reach (c : CCfg) (s : XSt CSt) (hs : c.XReach s) : c.Reach s.base :=
  (xc_c_inv c s hs).base

/-- combine() bodies are mutually exclusive -/
theorem colored_x_body_exclusive (c : CCfg) (s : XSt CSt) (hs : c.XReach s) (a b : Nat)
    (ha : 1 ≤ a ∧ a ≤ c.n) (hb : 1 ≤ b ∧ b ≤ c.n)
    (hA : inBody (fun s => s.ph) s a) (hB : inBody (fun s => s.ph) s b) : a = b :=
  have _ := ha
  have _ := hb
  xc_body_exclusive (xc_c_spec c) (xc_c_inv c s hs) a b hA hB

/-- at most one worker holds the mutex -/
theorem colored_x_lock_exclusive (c : CCfg) (s : XSt CSt) (hs : c.XReach s) (a b : Nat)
    (ha : 1 ≤ a ∧ a ≤ c.n) (hb : 1 ≤ b ∧ b ≤ c.n)
    (hA : holdsLock (fun s => s.ph) s a) (hB : holdsLock (fun s => s.ph) s b) : a = b :=
  have _ := ha
  have _ := hb
  xc_lock_exclusive (xc_c_spec c) (xc_c_inv c s hs) a b hA hB

/-- at every time: nobody is in the log twice, and a worker is in the log iff its body has completed -/
theorem colored_x_log_inv (c : CCfg) (s : XSt CSt) (hs : c.XReach s) :
    s.log.Nodup ∧ ∀ t, t ∈ s.log ↔ (1 ≤ t ∧ t ≤ c.n ∧ c.comb = true ∧
      ((s.base.ph t = .inComb ∧ s.sub t = 2) ∨ s.base.ph t = .done)) :=
  ⟨(xc_c_inv c s hs).nodup, (xc_c_inv c s hs).mem⟩

/-- every worker combines exactly once per job -/
theorem colored_x_combine_once (c : CCfg) (s : XSt CSt) (hs : c.XReach s)
    (hf : CCfg.final s.base = true) :
    s.log.Perm (if c.comb then (List.range c.n).map (· + 1) else []) := by
  have hi := xc_c_inv c s hs
  refine xc_combine_once hi ?_
  exact (XCCInv_reach hi.base).fin (by simpa [CCfg.final] using hf)

/-- the combined result does not depend on the order in which the workers combine -/
theorem colored_x_result (c : CCfg) (s : XSt CSt) (hs : c.XReach s) (hf : CCfg.final s.base = true)
    {α : Type} (op : α → α → α) (hc : ∀ a b, op a b = op b a)
    (ha : ∀ a b c, op (op a b) c = op a (op b c)) (z : α) (loc : Nat → α) (hcomb : c.comb = true) :
    combinedResult op z loc s.log = combinedResult op z loc ((List.range c.n).map (· + 1)) := by
  have h := colored_x_combine_once c s hs hf
  rw [hcomb] at h
  exact xc_result op hc ha z loc _ _ h

end FeatModel.DA
