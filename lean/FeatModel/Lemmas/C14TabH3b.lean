import FeatModel.Gen.CubatureH3
/-! C14: a slice of the generated tables of shape h3 (split so that lake checks the slices in parallel) -/
namespace FeatModel.Cub

set_option maxRecDepth 100000 in
theorem tabH3b : ((Gen.tablesH3.drop 5).take 8).all (tableObligation .h3) = true := by decide +kernel

end FeatModel.Cub
