import FeatModel.Lemmas.C02Convert
import FeatModel.Lemmas.C02Banded
/-
C02: the CSR <-> banded conversions on RECTANGULAR matrices.  The band of the entry `(i, j)` of an `r x c` matrix is
`j - i + r - 1`: it depends on the number of ROWS only.  (`cols - 1` in its place is the same number for square
matrices and a different one for every tall or wide matrix.)
-/
open FeatModel FeatModel.LA
namespace C02L

/-- the band of entry `(i, j)` of an `r x c` matrix, for EVERY shape: `offset = j - i + r - 1` (natural-number form);
    the number of columns does not occur -/
theorem bandOff_eq {α : Type} (A : Csr α) (i j : Nat) (hi : i < A.rows) : A.bandOff i j + i + 1 = j + A.rows := by
  unfold Csr.bandOff
  omega

/-- the band offset is the same for all column counts -/
theorem bandOff_cols_irrelevant {α : Type} (r c c' : Nat) (p q : Array Nat) (v w : Array α) (i j : Nat) :
    (Csr.mk r c p q v).bandOff i j = (Csr.mk r c' p q w).bandOff i j := rfl

/-- the band computed with `cols` in the place of `rows` (`o + i + 1 = j + cols`) is a DIFFERENT band whenever the
    matrix is not square -/
theorem bandOff_ne_cols_variant {α : Type} (A : Csr α) (i j o : Nat) (hi : i < A.rows) (hne : A.rows ≠ A.cols)
    (ho : o + i + 1 = j + A.cols) : A.bandOff i j ≠ o := by
  have := bandOff_eq A i j hi
  omega

/-- which bands pass through `(i, j)`: exactly those with `i + offsets[k] + 1 = j + rows`; a matrix none of whose
    bands satisfies the equation has the entry `0` there -/
theorem band_position_none {α : Type} [Zero α] [Add α] (B : Banded α) (i j : Nat)
    (hno : ∀ k, k < B.noo → i + B.offsets.getD k 0 + 1 ≠ j + B.rows) : B.entry i j = 0 := by
  unfold Banded.entry foldRange
  rw [Conv.foldl_if_none]
  intro k hk
  rw [List.mem_range'_1] at hk
  exact hno k (by omega)

/-- the one band through `(i, j)` of a well-formed banded matrix (strictly increasing offsets) is the band `k` with
    `i + offsets[k] + 1 = j + rows`, and the entry is the value stored at `k * rows + i` -/
theorem band_position {α : Type} [Zero α] [Add α] (B : Banded α) (h : B.wf = true) (i j k : Nat)
    (hk : k < B.noo) (hpos : i + B.offsets.getD k 0 + 1 = j + B.rows) :
    B.entry i j = 0 + B.val.getD (k * B.rows + i) 0 := by
  have hw := (Banded.wf_iff B).mp h
  unfold Banded.entry foldRange
  apply Conv.foldl_if_one (fun a => i + B.offsets.getD a 0 + 1 = j + B.rows)
    (fun a => B.val.getD (a * B.rows + i) 0) k hpos
  · exact List.mem_range'_1.mpr (by omega)
  · exact List.nodup_range' 1
  · intro a ha hca
    have ha' : a < B.noo := by have := List.mem_range'_1.mp ha; omega
    exact BandedAux.off_inj hw ha' hk (by omega)

/-- the offsets of the converted matrix are EXACTLY the bands `j - i + rows - 1` of the stored entries, strictly
    increasing, all inside the matrix (`offset + 2 ≤ rows + cols`) -/
theorem csr_toBanded_offsets {α : Type} [Zero α] (A : Csr α) (h : A.wf = true) (hnz : 0 < A.usedElements) :
    ∃ B, A.toBanded = some B ∧ B.rows = A.rows ∧ B.cols = A.cols ∧
      B.offsets.toList.Pairwise (· < ·) ∧
      (∀ o, o ∈ B.offsets.toList ↔
        ∃ i k, i < A.rows ∧ A.rowBegin i ≤ k ∧ k < A.rowEnd i ∧ o + i + 1 = A.colInd.getD k 0 + A.rows) ∧
      (∀ o, o ∈ B.offsets.toList → o + 2 ≤ A.rows + A.cols) := by
  obtain ⟨hs, hm, hb⟩ := Conv.offsetSet_spec A h
  refine ⟨_, Conv.toBanded_eq A hnz, rfl, rfl, hs, ?_, hb⟩
  intro o
  show o ∈ A.offsetSet ↔ _
  rw [hm]
  constructor
  · rintro ⟨i, k, h1, h2, h3, rfl⟩
    exact ⟨i, k, h1, h2, h3, bandOff_eq A i _ h1⟩
  · rintro ⟨i, k, h1, h2, h3, h4⟩
    refine ⟨i, k, h1, h2, h3, ?_⟩
    have := bandOff_eq A i (A.colInd.getD k 0) h1
    omega

/-- CSR -> banded -> CSR, any shape (tall, wide, square) -/
theorem csr_banded_csr {α : Type} [Zero α] [Add α] (h0 : (0 : α) + 0 = 0) (A : Csr α) (h : A.valid = true)
    (hnz : 0 < A.usedElements) :
    ∃ B, A.toBanded = some B ∧ B.toCsr.rows = A.rows ∧ B.toCsr.cols = A.cols ∧ B.toCsr.valid = true ∧
      ∀ i j, i < A.rows → j < A.cols → B.toCsr.entry i j = A.entry i j := by
  obtain ⟨B, hB, hr, hc, hwf, he⟩ := Conv.csr_toBanded_spec A h hnz h0
  obtain ⟨r1, r2, r3, r4⟩ := banded_toCsr_spec B hwf
  refine ⟨B, hB, r1.trans hr, r2.trans hc, r3, ?_⟩
  intro i j hi hj
  rw [r4 i j (hr ▸ hi) (hc ▸ hj), he i j hi hj]

/-- banded -> CSR -> banded, any shape -/
theorem banded_csr_banded {α : Type} [Zero α] [Add α] (h0 : (0 : α) + 0 = 0) (B : Banded α) (h : B.wf = true)
    (hnz : 0 < B.toCsr.usedElements) :
    ∃ B', B.toCsr.toBanded = some B' ∧ B'.rows = B.rows ∧ B'.cols = B.cols ∧ B'.wf = true ∧
      ∀ i j, i < B.rows → j < B.cols → B'.entry i j = B.entry i j := by
  obtain ⟨r1, r2, r3, r4⟩ := banded_toCsr_spec B h
  obtain ⟨B', hB, hr, hc, hwf, he⟩ := Conv.csr_toBanded_spec B.toCsr r3 hnz h0
  refine ⟨B', hB, hr.trans r1, hc.trans r2, hwf, ?_⟩
  intro i j hi hj
  rw [he i j (r1 ▸ hi) (r2 ▸ hj), r4 i j hi hj]

/-- an entry-free banded matrix converts to an entry-free CSR matrix (which `toBanded` then rejects) -/
theorem banded_toCsr_usedElements_zero {α : Type} [Zero α] (B : Banded α) (h : B.usedElements = 0) :
    B.toCsr.usedElements = 0 := by
  rw [BandedAux.toCsr_eq, if_pos h]
  rfl

theorem sum_map_ne_zero (t : Nat → Nat) : ∀ (L : List Nat), (L.map t).sum ≠ 0 → ∃ o, o ∈ L ∧ t o ≠ 0
  | [], h => by simp at h
  | a :: L, h => by
    rw [List.map_cons, List.sum_cons] at h
    by_cases ha : t a = 0
    · obtain ⟨o, ho, hto⟩ := sum_map_ne_zero t L (by omega)
      exact ⟨o, List.mem_cons_of_mem _ ho, hto⟩
    · exact ⟨a, List.mem_cons_self, ha⟩

/-- a banded matrix with entries converts to a CSR matrix with entries -/
theorem banded_toCsr_usedElements_pos {α : Type} [Zero α] (B : Banded α) (h : B.wf = true)
    (hne : B.usedElements ≠ 0) : 0 < B.toCsr.usedElements := by
  have hw := (Banded.wf_iff B).mp h
  have hinv := BandedAux.loopSt_inv (α := α) hw
  rw [BandedAux.toCsr_eq, if_neg hne]
  show 0 < (BandedAux.loopSt B).2.2.size
  rw [hinv.vSize]
  -- some band has a row inside the matrix
  have hne' := hne
  unfold Banded.usedElements at hne'
  rw [← Array.foldl_toList, Banded.foldl_add_eq_sum (fun o => B.cols + min B.rows (B.cols + B.rows - o - 1)
    - max (B.cols + B.rows - o - 1) B.cols), Nat.zero_add] at hne'
  obtain ⟨o, ho, hto⟩ := sum_map_ne_zero _ _ hne'
  obtain ⟨a, ha, hao⟩ := List.mem_iff_getElem.mp ho
  rw [Array.length_toList] at ha
  have hao' : B.offsets.getD a 0 = o := by
    rw [← hao]; simp [Array.getD, ha]
  have hoff := hw.offLe a ha
  rw [hao'] at hoff
  have hex : ∃ t, t < B.rows ∧ BandedAux.inM B t a := by
    unfold BandedAux.inM
    rw [hao']
    by_cases hc : o + 1 ≤ B.rows
    · exact ⟨B.rows - o - 1, by omega, by omega, by omega⟩
    · exact ⟨0, by omega, by omega, by omega⟩
  obtain ⟨t, ht, hin⟩ := hex
  obtain ⟨lo, hi, _, e1, e2, e3, _⟩ := hinv.row t ht
  have := (e3 a ha).mp hin
  omega

theorem banded_toCsr_usedElements_iff {α : Type} [Zero α] (B : Banded α) (h : B.wf = true) :
    B.toCsr.usedElements = 0 ↔ B.usedElements = 0 := by
  constructor
  · intro h0
    by_contra hne
    have := banded_toCsr_usedElements_pos B h hne
    omega
  · exact banded_toCsr_usedElements_zero B

/-- banded -> CSR -> banded, any shape, the premise on the banded matrix itself -/
theorem banded_csr_banded' {α : Type} [Zero α] [Add α] (h0 : (0 : α) + 0 = 0) (B : Banded α) (h : B.wf = true)
    (hnz : B.usedElements ≠ 0) :
    ∃ B', B.toCsr.toBanded = some B' ∧ B'.rows = B.rows ∧ B'.cols = B.cols ∧ B'.wf = true ∧
      ∀ i j, i < B.rows → j < B.cols → B'.entry i j = B.entry i j :=
  banded_csr_banded h0 B h (banded_toCsr_usedElements_pos B h hnz)

/-- … and an entry-free banded matrix cannot make the round trip: `toBanded` aborts on its CSR image -/
theorem banded_csr_banded_entryFree {α : Type} [Zero α] (B : Banded α) (h : B.usedElements = 0) :
    B.toCsr.toBanded = none := by
  unfold Csr.toBanded
  rw [if_pos (banded_toCsr_usedElements_zero B h)]

/-! ### concrete rectangular witnesses (kernel-evaluated) -/

/-- TALL 3x2: entries (0,0), (1,1), (2,0) lie on the bands `j - i + 3 - 1` = 2, 2, 0 -/
theorem toBanded_tall_example :
    (Csr.toBanded (⟨3, 2, #[0,1,2,3], #[0,1,0], #[5,7,9]⟩ : Csr Nat)).map
      (fun B => (B.rows, B.cols, B.offsets, B.val)) = some (3, 2, #[0, 2], #[0, 0, 9, 5, 7, 0]) := by
  decide +kernel

/-- its three bands by `bandOff`; the `cols - 1` variant `j - i + 2 - 1` gives 1, 1 for the first two entries and has
    no natural-number value for the entry (2, 0) (the unsigned C++ index wraps around) -/
theorem toBanded_tall_bands :
    let A : Csr Nat := ⟨3, 2, #[0,1,2,3], #[0,1,0], #[5,7,9]⟩
    A.bandOff 0 0 = 2 ∧ A.bandOff 1 1 = 2 ∧ A.bandOff 2 0 = 0 ∧
    A.toBanded.map (·.offsets) ≠ some #[1] ∧ ¬ ∃ o, o + 2 + 1 = 0 + A.cols := by
  refine ⟨rfl, rfl, rfl, by decide +kernel, ?_⟩
  rintro ⟨o, ho⟩
  simp only at ho
  omega

/-- WIDE 2x3: entries (0,0), (0,2), (1,1) lie on the bands `j - i + 2 - 1` = 1, 3, 1 -/
theorem toBanded_wide_example :
    (Csr.toBanded (⟨2, 3, #[0,2,3], #[0,2,1], #[5,7,9]⟩ : Csr Nat)).map
      (fun B => (B.rows, B.cols, B.offsets, B.val)) = some (2, 3, #[1, 3], #[5, 9, 7, 0]) := by
  decide +kernel

/-- the `cols - 1` variant would have produced the bands `j - i + 3 - 1` = 2, 4, 2 instead -/
theorem toBanded_wide_not_cols :
    (Csr.toBanded (⟨2, 3, #[0,2,3], #[0,2,1], #[5,7,9]⟩ : Csr Nat)).map (·.offsets) ≠ some #[2, 4] := by
  decide +kernel

/-- both matrices come back unchanged from the round trip -/
theorem roundtrip_tall_example :
    (Csr.toBanded (⟨3, 2, #[0,1,2,3], #[0,1,0], #[5,7,9]⟩ : Csr Nat)).map
      (fun B => (B.toCsr.rows, B.toCsr.cols, B.toCsr.rowPtr, B.toCsr.colInd, B.toCsr.val))
      = some (3, 2, #[0,1,2,3], #[0,1,0], #[5,7,9]) := by
  decide +kernel

theorem roundtrip_wide_example :
    (Csr.toBanded (⟨2, 3, #[0,2,3], #[0,2,1], #[5,7,9]⟩ : Csr Nat)).map
      (fun B => (B.toCsr.rows, B.toCsr.cols, B.toCsr.rowPtr, B.toCsr.colInd, B.toCsr.val))
      = some (2, 3, #[0,2,3], #[0,2,1], #[5,7,9]) := by
  decide +kernel

end C02L
