import FeatModel.Model.Poly
import FeatModel.Lemmas.C15Subst
/-! `tensor_table_correct`: a tensor-product table evaluates to products of 1-D evaluations, so its sample check
    reduces to the cheap `fastSamplesOk` — generically, for every 1-D table, dimension, index list and sample set. -/
namespace FeatModel.Poly

theorem prodR_eq (n : Nat) (g : Nat → Rat) : prodR n g = ((List.range n).map g).prod := rfl

theorem eval_prod (x : Nat → Rat) (l : List Poly) : eval x (prod l) = (l.map (eval x)).prod := by
  induction l with
  | nil => simp [prod, eval_const]
  | cons p l ih =>
    have : prod (p :: l) = mul p (prod l) := rfl
    rw [this, eval_mul, ih]; simp

theorem monoEval_range' (x : Nat → Rat) (g : Nat → Nat) (j m : Nat) :
    monoEval x j ((List.range' j m).map g) = ((List.range' j m).map fun i => rpow (x i) (g i)).prod := by
  induction m generalizing j with
  | zero => simp [monoEval]
  | succ m ih => simp [List.range'_succ, monoEval, ih]

theorem prod_ones (l : List Nat) : (l.map fun _ => (1 : Rat)).prod = 1 := by
  induction l with
  | nil => simp
  | cons a l ih => simp [ih]

theorem prod_single (n k : Nat) (a : Rat) (hk : k < n) :
    ((List.range n).map fun i => if i = k then a else 1).prod = a := by
  induction n with
  | zero => omega
  | succ n ih =>
    rw [List.range_succ, List.map_append, List.prod_append]
    by_cases h : k = n
    · subst h
      have : ((List.range k).map fun i => if i = k then a else (1 : Rat)) = (List.range k).map fun _ => 1 := by
        apply List.map_congr_left
        intro i hi
        have := List.mem_range.mp hi
        simp [Nat.ne_of_lt this]
      rw [this, prod_ones]; simp
    · have hk' : k < n := by omega
      rw [ih hk']
      have : n ≠ k := fun hh => h hh.symm
      simp [this]

theorem eval_shiftVars (x : Nat → Rat) (n k : Nat) (hk : k < n) (p : Poly) (hp : oneVar p = true) :
    eval x (shiftVars n k p) = eval (fun _ => x k) p := by
  induction p with
  | nil => rfl
  | cons t p ih =>
    simp only [oneVar, List.all_cons, Bool.and_eq_true, beq_iff_eq] at hp
    have ih' := ih (by simpa [oneVar] using hp.2)
    have hcons : shiftVars n k (t :: p)
        = (t.1, (List.range n).map fun i => if i = k then t.2.getD 0 0 else 0) :: shiftVars n k p := rfl
    rw [hcons, eval_cons, eval_cons, ih']
    congr 1
    obtain ⟨c, m⟩ := t
    simp only at hp ⊢
    cases m with
    | nil => simp at hp
    | cons e es =>
      have : es = [] := by
        have := hp.1; simp at this; exact this
      subst this
      simp only [List.getD_cons_zero, monoEval]
      rw [List.range_eq_range', monoEval_range', ← List.range_eq_range']
      have : ((List.range n).map fun i => rpow (x i) (if i = k then e else 0))
          = (List.range n).map fun i => if i = k then rpow (x k) e else 1 := by
        apply List.map_congr_left
        intro i _
        by_cases h : i = k <;> simp [h, rpow]
      rw [this, prod_single n k _ hk]; ring

theorem eval_oneVar_congr (x y : Nat → Rat) (h0 : x 0 = y 0) (p : Poly) (hp : oneVar p = true) :
    eval x p = eval y p := by
  induction p with
  | nil => rfl
  | cons t p ih =>
    simp only [oneVar, List.all_cons, Bool.and_eq_true, beq_iff_eq] at hp
    rw [eval_cons, eval_cons, ih (by simpa [oneVar] using hp.2)]
    congr 1
    obtain ⟨c, m⟩ := t
    cases m with
    | nil => simp at hp
    | cons e es =>
      have : es = [] := by
        have := hp.1; simp at this; exact this
      subst this
      simp [monoEval, h0]

/-- a tensor product of one-variable polynomials evaluates to the product of their 1-D evaluations -/
theorem evalAt_tprod (n : Nat) (q : Nat → Poly) (hq : ∀ k, k < n → oneVar (q k) = true) (l : List Rat) :
    evalAt l (tprod n q) = prodR n fun k => evalAt [l.getD k 0] (q k) := by
  simp only [evalAt, tprod, eval_normalize, eval_prod, List.map_map, prodR_eq]
  congr 1
  apply List.map_congr_left
  intro k hk
  have hk' := List.mem_range.mp hk
  simp only [Function.comp]
  rw [eval_shiftVars _ n k hk' _ (hq k hk')]
  apply eval_oneVar_congr _ _ _ _ (hq k hk')
  simp [pt]

theorem getD_map_lt' {α β : Type} (l : List α) (g : α → β) (m : Nat) (a : α) (b : β) (h : m < l.length) :
    (l.map g).getD m b = g (l.getD m a) := by
  simp [List.getD_eq_getElem?_getD, List.getElem?_map, List.getElem?_eq_getElem h]

theorem getD_all_oneVar (l : List Poly) (h : l.all oneVar = true) (i : Nat) : oneVar (l.getD i []) = true := by
  rw [List.getD_eq_getElem?_getD]
  cases hh : l[i]? with
  | none => rfl
  | some p =>
    simp only [Option.getD_some]
    exact List.all_eq_true.mp h p (List.mem_of_getElem? hh)

theorem getD_all_all_oneVar (l : List (List Poly)) (h : l.all (·.all oneVar) = true) (i k : Nat) :
    oneVar ((l.getD i []).getD k []) = true := by
  apply getD_all_oneVar
  rw [List.getD_eq_getElem?_getD]
  cases hh : l[i]? with
  | none => rfl
  | some p =>
    simp only [Option.getD_some]
    exact List.all_eq_true.mp h p (List.mem_of_getElem? hh)

theorem oneVarTab_facts {t1 : BasisTab} (h : oneVarTab t1 = true) (i a b : Nat) :
    oneVar (t1.val i) = true ∧ oneVar (t1.grad i a) = true ∧ oneVar (t1.hes i a b) = true := by
  simp only [oneVarTab, Bool.and_eq_true] at h
  exact ⟨getD_all_oneVar _ h.1.1 i, getD_all_all_oneVar _ h.1.2 i a, getD_all_all_oneVar _ h.2 i _⟩

/-- every row of a tensor table is the cheap product formula -/
theorem tensorTab_row (t1 : BasisTab) (n : Nat) (hG hH : Bool) (idx : List (List Nat))
    (samples : List (List Rat × List Nat × List Rat)) (h1 : oneVarTab t1 = true) (l : List Rat) (i : Nat)
    (hi : i < idx.length) :
    (tensorTab t1 n hG hH idx samples).row l i = fastRow t1 n hG hH idx l i := by
  have hv : ∀ (q : Nat → Poly), (∀ k, oneVar (q k) = true) →
      evalAt l (tprod n q) = prodR n fun k => evalAt [l.getD k 0] (q k) :=
    fun q hq => evalAt_tprod n q (fun k _ => hq k) l
  have hval : evalAt l ((tensorTab t1 n hG hH idx samples).val i)
      = prodR n fun k => evalAt [l.getD k 0] (t1.val ((idx.getD i []).getD k 0)) := by
    simp only [BasisTab.val, tensorTab]
    rw [getD_map_lt' idx (tensorVal t1 n) i [] [] hi]
    exact hv _ (fun k => (oneVarTab_facts h1 _ 0 0).1)
  have hgrad : hG = true → ∀ a, a < n → evalAt l ((tensorTab t1 n hG hH idx samples).grad i a)
      = prodR n fun k => if k = a then evalAt [l.getD k 0] (t1.grad ((idx.getD i []).getD k 0) 0)
          else evalAt [l.getD k 0] (t1.val ((idx.getD i []).getD k 0)) := by
    intro hg a ha
    simp only [BasisTab.grad, tensorTab, hg, if_true]
    rw [getD_map_lt' idx _ i [] [] hi,
      getD_map_lt' (List.range n) _ a 0 [] (by simpa using ha)]
    have : (List.range n).getD a 0 = a := by simp [List.getD_eq_getElem?_getD, List.getElem?_range ha]
    rw [this, tensorGrad, hv]
    · congr 1; funext k; split <;> rfl
    · intro k; split
      · exact (oneVarTab_facts h1 _ 0 0).2.1
      · exact (oneVarTab_facts h1 _ 0 0).1
  have hhess : hH = true → ∀ ab, ab < n * n →
      evalAt l (((tensorTab t1 n hG hH idx samples).hess.getD i []).getD ab [])
      = prodR n fun k =>
          if ab / n = ab % n then
            (if k = ab / n then evalAt [l.getD k 0] (t1.hes ((idx.getD i []).getD k 0) 0 0)
             else evalAt [l.getD k 0] (t1.val ((idx.getD i []).getD k 0)))
          else (if k = ab / n ∨ k = ab % n then evalAt [l.getD k 0] (t1.grad ((idx.getD i []).getD k 0) 0)
                else evalAt [l.getD k 0] (t1.val ((idx.getD i []).getD k 0))) := by
    intro hh ab hab
    simp only [tensorTab, hh, if_true]
    rw [getD_map_lt' idx _ i [] [] hi,
      getD_map_lt' (List.range (n * n)) _ ab 0 [] (by simpa using hab)]
    have : (List.range (n * n)).getD ab 0 = ab := by simp [List.getD_eq_getElem?_getD, List.getElem?_range hab]
    rw [this, tensorHess, hv]
    · congr 1; funext k
      split
      · split <;> rfl
      · split <;> rfl
    · intro k
      split
      · split
        · exact (oneVarTab_facts h1 _ 0 0).2.2
        · exact (oneVarTab_facts h1 _ 0 0).1
      · split
        · exact (oneVarTab_facts h1 _ 0 0).2.1
        · exact (oneVarTab_facts h1 _ 0 0).1
  have hnv : (tensorTab t1 n hG hH idx samples).nvars = n := rfl
  have hgf : (tensorTab t1 n hG hH idx samples).hasGrad = hG := rfl
  have hhf : (tensorTab t1 n hG hH idx samples).hasHess = hH := rfl
  unfold BasisTab.row fastRow
  rw [hnv, hgf, hhf, hval]
  congr 1
  congr 1
  · cases hG with
    | false => rfl
    | true =>
      simp only [if_true]
      apply List.map_congr_left
      intro a ha
      exact hgrad rfl a (List.mem_range.mp ha)
  · cases hH with
    | false => rfl
    | true =>
      simp only [if_true]
      apply List.map_congr_left
      intro ab hab
      exact hhess rfl ab (List.mem_range.mp hab)

theorem flatMap_congr'' {α β : Type} {l : List α} {g h : α → List β} (H : ∀ a ∈ l, g a = h a) :
    l.flatMap g = l.flatMap h := by
  induction l with
  | nil => rfl
  | cons a l ih =>
    simp only [List.flatMap_cons]
    rw [H a (List.mem_cons_self), ih (fun b hb => H b (List.mem_cons_of_mem a hb))]

/-- **tensor_table_correct**: if the 1-D table consists of one-variable polynomials and the samples of the real
    n-D evaluator are the products of the 1-D table's evaluations (`fastSamplesOk`), then the tensor table reproduces
    all samples (`samplesOk`) -/
theorem tensor_table_correct (t1 : BasisTab) (n : Nat) (hG hH : Bool) (idx : List (List Nat))
    (samples : List (List Rat × List Nat × List Rat)) (h1 : oneVarTab t1 = true)
    (hf : fastSamplesOk t1 n hG hH idx samples = true) :
    (tensorTab t1 n hG hH idx samples).samplesOk = true := by
  simp only [fastSamplesOk, List.all_eq_true] at hf
  simp only [BasisTab.samplesOk, List.all_eq_true]
  intro s hs
  have hrows : (List.range (tensorTab t1 n hG hH idx samples).nloc).flatMap
        ((tensorTab t1 n hG hH idx samples).row s.1)
      = (List.range idx.length).flatMap (fastRow t1 n hG hH idx s.1) := by
    show (List.range idx.length).flatMap _ = _
    apply flatMap_congr''
    intro i hi
    exact tensorTab_row t1 n hG hH idx samples h1 s.1 i (List.mem_range.mp hi)
  have hsamp : (tensorTab t1 n hG hH idx samples).samples = samples := rfl
  rw [hsamp] at hs
  have := hf s hs
  simp only [hrows]
  exact this

end FeatModel.Poly
