import FeatModel.Lemmas.C12Split
import FeatModel.Lemmas.C12RefineK
/-! C12 helper lemmas for the completeness of the split (two-layer) halos. -/
namespace FeatModel.Parti
open FeatModel.Adj

theorem patchMeshP_dim (m : Mesh) (cells : List Nat) : (patchMeshP m cells).dim = m.dim := rfl

theorem patchMeshP_numOf (m : Mesh) (cells : List Nat) (d : Nat) (hd : d ≤ m.dim) :
    (patchMeshP m cells).numOf d = (m.target cells d).length := by
  simp only [patchMeshP, Mesh.numOf, List.getD_eq_getElem?_getD, List.getElem?_map]
  rw [List.getElem?_range (by omega)]
  simp

theorem mem_childCells_lt (cells childOf : List Nat) (ch u : Nat) (h : u ∈ childCells cells childOf ch) :
    u < cells.length := by
  have := mem_zipIdx_filterMap_lt (fun c => childOf.getD c 0 == ch) cells 0 u h
  omega

/-- the child's patch part refers to existing entities of the parent patch -/
theorem mem_childTarget_lt (m : Mesh) (cells childOf : List Nat) (ch d u : Nat) (hd : d ≤ m.dim)
    (h : u ∈ childTarget m cells childOf ch d) : u < (m.target cells d).length := by
  unfold childTarget at h
  rcases Nat.lt_or_eq_of_le hd with hlt | heq
  · rw [target_succ (patchMeshP m cells) _ d (by rw [patchMeshP_dim]; exact hlt), mem_deductStep] at h
    rw [← patchMeshP_numOf m cells d hd]
    exact h.1
  · subst heq
    have e : (patchMeshP m cells).target (childCells cells childOf ch) m.dim = childCells cells childOf ch :=
      target_dim (patchMeshP m cells) _
    rw [e] at h
    rw [target_dim]
    exact mem_childCells_lt cells childOf ch u h

theorem mem_halo_lt (m : Mesh) (p : Parti) (r s d i : Nat) (h : i ∈ halo m p r s d) :
    i < (m.target (p.row r) d).length := by
  have := mem_zipIdx_filterMap_lt (fun b => hasRank m p d b s) (m.target (p.row r) d) 0 i h
  omega

theorem getD_mem_of_lt (l : List Nat) (i : Nat) (h : i < l.length) : l.getD i 0 ∈ l := by
  simp [List.getD, h]

end FeatModel.Parti
