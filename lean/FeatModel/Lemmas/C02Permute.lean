/-
C02: correctness of the model of `SparseMatrixCSR::permute` (`FeatModel.LA.Csr.permute`), for all sizes.
Helper lemmas live in `C02L.PermuteAux`, the statements in `C02L` (`permute_spec`, `entry_eq_rowList`) and
`C02L.Permute` (`ofRows_entry`, `ofRows_wf`).
-/
import FeatModel.Model.LA.Convert
import Mathlib.Data.List.Perm.Subperm
import Mathlib.Data.Fintype.Card
import Mathlib.Data.Fintype.Fin
open FeatModel FeatModel.LA

namespace C02L
namespace PermuteAux

/-! ### `isPerm` / `invPerm` -/

theorem isPerm_lt {q : Array Nat} (h : Csr.isPerm q = true) {i : Nat} (hi : i < q.size) : q.getD i 0 < q.size := by
  simp only [Csr.isPerm, Bool.and_eq_true, Array.all_eq_true, decide_eq_true_eq] at h
  have := h.1 i hi
  simpa [Array.getD, hi] using this

theorem isPerm_inj {q : Array Nat} (h : Csr.isPerm q = true) {i j : Nat} (hi : i < q.size) (hj : j < q.size)
    (hij : q.getD i 0 = q.getD j 0) : i = j := by
  simp only [Csr.isPerm, Bool.and_eq_true, List.all_eq_true, List.mem_range, Bool.or_eq_true, beq_iff_eq,
    bne_iff_ne, ne_eq] at h
  rcases h.2 i hi j hj with h1 | h1
  · exact h1
  · exact absurd hij h1

theorem isPerm_surj {q : Array Nat} (h : Csr.isPerm q = true) {c : Nat} (hc : c < q.size) :
    ∃ j, j < q.size ∧ q.getD j 0 = c := by
  let f : Fin q.size → Fin q.size := fun i => ⟨q.getD i.1 0, isPerm_lt h i.2⟩
  have hf : Function.Injective f := by
    intro a b hab
    apply Fin.ext
    exact isPerm_inj h a.2 b.2 (by simpa [f] using congrArg Fin.val hab)
  obtain ⟨j, hj⟩ := (Finite.injective_iff_surjective.1 hf) ⟨c, hc⟩
  exact ⟨j.1, j.2, by simpa [f] using congrArg Fin.val hj⟩

theorem invFold_size (q : Array Nat) (l : List Nat) (a : Array Nat) :
    (l.foldl (fun a i => a.setIfInBounds (q.getD i 0) i) a).size = a.size := by
  induction l generalizing a with
  | nil => rfl
  | cons x xs ih => rw [List.foldl_cons, ih, Array.size_setIfInBounds]

theorem invPerm_size (q : Array Nat) : (Csr.invPerm q).size = q.size := by
  unfold Csr.invPerm
  rw [invFold_size, Array.size_replicate]

theorem invFold_getD {q : Array Nat} (h : Csr.isPerm q = true) (a : Array Nat) (ha : a.size = q.size) :
    ∀ m, m ≤ q.size → ∀ j, j < m →
      ((List.range m).foldl (fun a i => a.setIfInBounds (q.getD i 0) i) a).getD (q.getD j 0) 0 = j
  | 0, _, j, hj => absurd hj (Nat.not_lt_zero _)
  | m + 1, hm, j, hj => by
    rw [List.range_succ, List.foldl_append, List.foldl_cons, List.foldl_nil]
    have hsz := invFold_size q (List.range m) a
    rcases Nat.lt_or_ge j m with hlt | hge
    · have ih := invFold_getD h a ha m (by omega) j hlt
      have hne : q.getD m 0 ≠ q.getD j 0 := fun e => by
        have := isPerm_inj h (by omega) (by omega) e; omega
      rw [Array.getD_eq_getD_getElem?, Array.getElem?_setIfInBounds_ne hne, ← Array.getD_eq_getD_getElem?, ih]
    · have : j = m := by omega
      subst this
      have hlt : q.getD j 0 < q.size := isPerm_lt h (by omega)
      rw [Array.getD_eq_getD_getElem?, Array.getElem?_setIfInBounds_self_of_lt (by rw [hsz, ha]; exact hlt)]
      rfl

/-- `q⁻¹[q[j]] = j` -/
theorem invPerm_left {q : Array Nat} (h : Csr.isPerm q = true) {j : Nat} (hj : j < q.size) :
    (Csr.invPerm q).getD (q.getD j 0) 0 = j := by
  unfold Csr.invPerm
  exact invFold_getD h _ (by simp) q.size (Nat.le_refl _) j hj

/-- `q[q⁻¹[c]] = c` and `q⁻¹[c]` is in range -/
theorem invPerm_right {q : Array Nat} (h : Csr.isPerm q = true) {c : Nat} (hc : c < q.size) :
    (Csr.invPerm q).getD c 0 < q.size ∧ q.getD ((Csr.invPerm q).getD c 0) 0 = c := by
  obtain ⟨j, hj, rfl⟩ := isPerm_surj h hc
  rw [invPerm_left h hj]
  exact ⟨hj, rfl⟩

theorem invPerm_eq_iff {q : Array Nat} (h : Csr.isPerm q = true) {c j : Nat} (hc : c < q.size) (hj : j < q.size) :
    (Csr.invPerm q).getD c 0 = j ↔ c = q.getD j 0 := by
  constructor
  · intro e
    rw [← e, (invPerm_right h hc).2]
  · intro e
    rw [e, invPerm_left h hj]

theorem invPerm_inj {q : Array Nat} (h : Csr.isPerm q = true) {c d : Nat} (hc : c < q.size) (hd : d < q.size)
    (e : (Csr.invPerm q).getD c 0 = (Csr.invPerm q).getD d 0) : c = d := by
  rw [← (invPerm_right h hc).2, e, (invPerm_right h hd).2]

/-! ### the in-row insertion sort -/
section sort
variable {α : Type}

/-- sorted by key (non-strictly) -/
def SortedK (l : List (Nat × α)) : Prop := l.Pairwise (fun a b => a.1 ≤ b.1)

theorem insSorted_perm (x : Nat × α) (l : List (Nat × α)) : (Csr.insSorted x l).Perm (x :: l) := by
  induction l with
  | nil => exact List.Perm.refl _
  | cons y ys ih =>
    unfold Csr.insSorted
    split
    · exact List.Perm.refl _
    · exact (List.Perm.cons y ih).trans (List.Perm.swap x y ys)

theorem insSorted_sorted (x : Nat × α) (l : List (Nat × α)) (h : SortedK l) : SortedK (Csr.insSorted x l) := by
  induction l with
  | nil => exact List.pairwise_singleton _ _
  | cons y ys ih =>
    unfold Csr.insSorted
    have h' := List.pairwise_cons.1 h
    split
    · rename_i hlt
      refine List.pairwise_cons.2 ⟨?_, h⟩
      intro a ha
      rcases List.mem_cons.1 ha with rfl | ha
      · omega
      · have := h'.1 a ha; omega
    · rename_i hge
      refine List.pairwise_cons.2 ⟨?_, ih h'.2⟩
      intro a ha
      rcases List.mem_cons.1 ((insSorted_perm x ys).mem_iff.1 ha) with rfl | ha
      · omega
      · exact h'.1 a ha

/-- stability of one insertion: among equal keys the new element goes last -/
theorem insSorted_filter (j : Nat) (x : Nat × α) (l : List (Nat × α)) (h : SortedK l) :
    (Csr.insSorted x l).filter (fun cv => cv.1 = j) = l.filter (fun cv => cv.1 = j) ++ [x].filter (fun cv => cv.1 = j) := by
  induction l with
  | nil => simp [Csr.insSorted]
  | cons y ys ih =>
    unfold Csr.insSorted
    have h' := List.pairwise_cons.1 h
    split
    · rename_i hlt
      by_cases hx : x.1 = j
      · have hnone : (y :: ys).filter (fun cv => cv.1 = j) = [] := by
          rw [List.filter_eq_nil_iff]
          intro a ha
          rcases List.mem_cons.1 ha with rfl | ha
          · simp; omega
          · have := h'.1 a ha; simp; omega
        rw [List.filter_cons, hnone]
        simp [hx]
      · simp [List.filter_cons, hx]
    · rw [List.filter_cons, ih h'.2, List.filter_cons (x := y)]
      split <;> simp

theorem isortFold_spec (j : Nat) (l : List (Nat × α)) : ∀ (acc : List (Nat × α)), SortedK acc →
    SortedK (l.foldl (fun acc x => Csr.insSorted x acc) acc) ∧
    (l.foldl (fun acc x => Csr.insSorted x acc) acc).Perm (acc ++ l) ∧
    (l.foldl (fun acc x => Csr.insSorted x acc) acc).filter (fun cv => cv.1 = j)
      = acc.filter (fun cv => cv.1 = j) ++ l.filter (fun cv => cv.1 = j) := by
  induction l with
  | nil => intro acc h; simp [h]
  | cons x xs ih =>
    intro acc h
    obtain ⟨h1, h2, h3⟩ := ih (Csr.insSorted x acc) (insSorted_sorted x acc h)
    rw [List.foldl_cons]
    refine ⟨h1, ?_, ?_⟩
    · refine h2.trans ?_
      refine ((insSorted_perm x acc).append_right xs).trans ?_
      simp
      exact List.perm_middle.symm
    · rw [h3, insSorted_filter j x acc h, List.append_assoc, ← List.filter_append]
      rfl

theorem isort_sorted (l : List (Nat × α)) : SortedK (Csr.isort l) :=
  (isortFold_spec 0 l [] List.Pairwise.nil).1

theorem isort_perm (l : List (Nat × α)) : (Csr.isort l).Perm l := by
  simpa [Csr.isort] using (isortFold_spec 0 l [] List.Pairwise.nil).2.1

/-- the insertion sort is stable -/
theorem isort_filter (j : Nat) (l : List (Nat × α)) :
    (Csr.isort l).filter (fun cv => cv.1 = j) = l.filter (fun cv => cv.1 = j) := by
  simpa [Csr.isort] using (isortFold_spec j l [] List.Pairwise.nil).2.2

/-- distinct keys: the sorted list is strictly sorted -/
theorem isort_strict (l : List (Nat × α)) (hnd : (l.map Prod.fst).Nodup) :
    ((Csr.isort l).map Prod.fst).Pairwise (· < ·) := by
  have hs : ((Csr.isort l).map Prod.fst).Pairwise (· ≤ ·) := by
    rw [List.pairwise_map]; exact isort_sorted l
  have hn : ((Csr.isort l).map Prod.fst).Nodup := ((isort_perm l).map Prod.fst).nodup_iff.2 hnd
  exact (hs.and hn).imp (fun h => Nat.lt_of_le_of_ne h.1 h.2)

end sort

/-! ### the row fold -/
section fold
variable {α : Type} [Add α]

/-- `entry` on a row list -/
def rowFold (j : Nat) (l : List (Nat × α)) (init : α) : α :=
  l.foldl (fun s cv => if cv.1 = j then s + cv.2 else s) init

theorem rowFold_filter (j : Nat) (l : List (Nat × α)) (init : α) :
    rowFold j (l.filter (fun cv => cv.1 = j)) init = rowFold j l init := by
  induction l generalizing init with
  | nil => rfl
  | cons x xs ih =>
    by_cases hx : x.1 = j
    · simp only [List.filter_cons, hx, decide_true, if_true]
      simp only [rowFold, List.foldl_cons, hx, if_true] at ih ⊢
      exact ih _
    · simp only [List.filter_cons, hx, decide_false]
      simp only [rowFold, List.foldl_cons, hx, if_false] at ih ⊢
      exact ih _

theorem rowFold_isort (j : Nat) (l : List (Nat × α)) (init : α) :
    rowFold j (Csr.isort l) init = rowFold j l init := by
  rw [← rowFold_filter, isort_filter, rowFold_filter]

/-- renaming the keys with a map that is injective where it matters -/
theorem rowFold_map (f : Nat → Nat) (j j' : Nat) (l : List (Nat × α)) (init : α)
    (hf : ∀ cv ∈ l, f cv.1 = j' ↔ cv.1 = j) :
    rowFold j' (l.map fun cv => (f cv.1, cv.2)) init = rowFold j l init := by
  induction l generalizing init with
  | nil => rfl
  | cons x xs ih =>
    have hx := hf x (List.mem_cons_self ..)
    have ih' := fun init => ih init (fun cv hcv => hf cv (List.mem_cons_of_mem _ hcv))
    simp only [rowFold, List.map_cons, List.foldl_cons] at ih' ⊢
    rw [ih']
    by_cases h : x.1 = j
    · rw [if_pos h, if_pos (hx.2 h)]
    · rw [if_neg h, if_neg (fun e => h (hx.1 e))]

end fold

/-! ### `offsets` / `ofRows` / `rowList` -/
section rows

theorem offsets_length {β : Type} (rs : List (List β)) : ∀ s, (Csr.offsets s rs).length = rs.length + 1 := by
  induction rs with
  | nil => intro s; rfl
  | cons r rs ih => intro s; simp [Csr.offsets, ih]

theorem offsets_getD {β : Type} (rs : List (List β)) : ∀ (s i : Nat), i ≤ rs.length →
    (Csr.offsets s rs).getD i 0 = s + (rs.take i).flatten.length := by
  induction rs with
  | nil => intro s i hi; have : i = 0 := by simpa using hi
           subst this; simp [Csr.offsets]
  | cons r rs ih =>
    intro s i hi
    cases i with
    | zero => simp [Csr.offsets]
    | succ i =>
      have := ih (s + r.length) i (by simpa using hi)
      simp only [Csr.offsets, List.getD_cons_succ, this, List.take_succ_cons, List.flatten_cons, List.length_append]
      omega

theorem flatten_split {β : Type} (rs : List (List β)) (i : Nat) (hi : i < rs.length) :
    rs.flatten = (rs.take i).flatten ++ rs[i] ++ (rs.drop (i + 1)).flatten := by
  have h : rs = rs.take i ++ rs[i] :: rs.drop (i + 1) := by
    rw [← List.drop_eq_getElem_cons hi, List.take_append_drop]
  exact (congrArg List.flatten h).trans (by
    rw [List.flatten_append, List.flatten_cons, List.append_assoc])

variable {α : Type}

theorem slice_pairs [Zero α] (L1 R L2 : List (Nat × α)) :
    (List.range' L1.length R.length).map (fun k =>
      (((L1 ++ R ++ L2).map Prod.fst).toArray.getD k 0, ((L1 ++ R ++ L2).map Prod.snd).toArray.getD k 0)) = R := by
  apply List.ext_getElem
  · simp
  · intro k h1 h2
    have hk : k < R.length := by simpa using h1
    have hk' : k < R.length + L2.length := by omega
    simp [Array.getD, List.getElem_append_right, List.getElem_append_left, hk, hk']

theorem take_succ_flatten_length {β : Type} (rs : List (List β)) (i : Nat) (hi : i < rs.length) :
    (rs.take (i + 1)).flatten.length = (rs.take i).flatten.length + rs[i].length := by
  rw [List.take_succ_eq_append_getElem hi, List.flatten_append, List.length_append]
  simp only [List.flatten_cons, List.flatten_nil, List.append_nil]

theorem ofRows_rowBegin (rows cols : Nat) (rs : List (List (Nat × α))) (i : Nat) (hi : i ≤ rs.length) :
    (Csr.ofRows rows cols rs).rowBegin i = (rs.take i).flatten.length := by
  have := offsets_getD rs 0 i hi
  simpa [Csr.ofRows, Csr.rowBegin] using this

theorem ofRows_rowEnd (rows cols : Nat) (rs : List (List (Nat × α))) (i : Nat) (hi : i < rs.length) :
    (Csr.ofRows rows cols rs).rowEnd i = (rs.take i).flatten.length + rs[i].length := by
  have := offsets_getD rs 0 (i + 1) hi
  rw [take_succ_flatten_length rs i hi] at this
  simpa [Csr.ofRows, Csr.rowEnd] using this

/-- the rows of `ofRows … rs` are the lists `rs` -/
theorem ofRows_rowList [Zero α] (rows cols : Nat) (rs : List (List (Nat × α))) (i : Nat) (hi : i < rs.length) :
    (Csr.ofRows rows cols rs).rowList i = rs[i] := by
  unfold Csr.rowList
  rw [ofRows_rowEnd rows cols rs i hi, ofRows_rowBegin rows cols rs i (Nat.le_of_lt hi), Nat.add_sub_cancel_left]
  have := slice_pairs (rs.take i).flatten rs[i] (rs.drop (i + 1)).flatten
  rw [← flatten_split rs i hi] at this
  exact this

end rows

/-! ### well-formedness, sortedness -/
section wf
variable {α : Type}

/-- `Csr.wf` spelled out -/
structure WF (A : Csr α) : Prop where
  size : A.rowPtr.size = A.rows + 1
  first : A.rowPtr.getD 0 0 = 0
  last : A.rowPtr.getD A.rows 0 = A.val.size
  colSize : A.colInd.size = A.val.size
  mono : ∀ i, i < A.rows → A.rowPtr.getD i 0 ≤ A.rowPtr.getD (i + 1) 0
  colLt : ∀ k, k < A.colInd.size → A.colInd.getD k 0 < A.cols

theorem wf_iff (A : Csr α) : A.wf = true ↔ WF A := by
  constructor
  · intro h
    simp only [Csr.wf, Bool.and_eq_true, beq_iff_eq, List.all_eq_true, List.mem_range, decide_eq_true_eq,
      Array.all_eq_true] at h
    obtain ⟨⟨⟨⟨⟨h1, h2⟩, h3⟩, h4⟩, h5⟩, h6⟩ := h
    refine ⟨h1, h2, h3, h4, h5, ?_⟩
    intro k hk
    have := h6 k hk
    simpa [Array.getD, hk] using this
  · intro h
    simp only [Csr.wf, Bool.and_eq_true, beq_iff_eq, List.all_eq_true, List.mem_range, decide_eq_true_eq,
      Array.all_eq_true]
    refine ⟨⟨⟨⟨⟨h.size, h.first⟩, h.last⟩, h.colSize⟩, h.mono⟩, ?_⟩
    intro k hk
    have := h.colLt k hk
    simpa [Array.getD, hk] using this

theorem rowPtr_mono {A : Csr α} (h : WF A) : ∀ j i, i ≤ j → j ≤ A.rows → A.rowPtr.getD i 0 ≤ A.rowPtr.getD j 0
  | 0, i, hij, _ => by
    have : i = 0 := by omega
    subst this; exact Nat.le_refl _
  | j + 1, i, hij, hj => by
    rcases Nat.lt_or_ge i (j + 1) with hlt | hge
    · exact Nat.le_trans (rowPtr_mono h j i (by omega) (by omega)) (h.mono j (by omega))
    · have : i = j + 1 := by omega
      subst this; exact Nat.le_refl _

theorem rowEnd_le {A : Csr α} (h : WF A) {i : Nat} (hi : i < A.rows) : A.rowEnd i ≤ A.colInd.size := by
  have := rowPtr_mono h A.rows (i + 1) (by omega) (Nat.le_refl _)
  rw [h.last, ← h.colSize] at this
  exact this

theorem entry_eq_rowFold [Zero α] [Add α] (A : Csr α) (i j : Nat) (h : A.rowEnd i ≤ A.colInd.size) :
    A.entry i j = rowFold j (A.rowList i) 0 := by
  unfold Csr.entry Csr.rowList rowFold foldRange
  rw [List.foldl_map]
  apply List.foldl_ext
  intro s k hk
  have hk' : k < A.colInd.size := by
    rw [List.mem_range'_1] at hk; omega
  simp [Array.getD, hk']

theorem rowList_col_lt [Zero α] {A : Csr α} (h : WF A) {i : Nat} (hi : i < A.rows) :
    ∀ cv ∈ A.rowList i, cv.1 < A.cols := by
  intro cv hcv
  unfold Csr.rowList at hcv
  obtain ⟨k, hk, rfl⟩ := List.mem_map.1 hcv
  rw [List.mem_range'_1] at hk
  have := rowEnd_le h hi
  exact h.colLt k (by omega)

theorem sortedRows_iff (A : Csr α) : A.sortedRows = true ↔
    ∀ i, i < A.rows → ∀ k, A.rowBegin i ≤ k → k + 1 < A.rowEnd i → A.colInd.getD k 0 < A.colInd.getD (k + 1) 0 := by
  simp only [Csr.sortedRows, List.all_eq_true, List.mem_range, List.mem_range'_1, decide_eq_true_eq]
  constructor
  · intro h i hi k h1 h2
    exact h i hi k ⟨h1, by omega⟩
  · intro h i hi k hk
    exact h i hi k hk.1 (by omega)

theorem chain_to_pairwise (C : Nat → Nat) (b e : Nat) (h : ∀ k, b ≤ k → k + 1 < e → C k < C (k + 1)) (k1 : Nat)
    (hb : b ≤ k1) : ∀ k2, k1 < k2 → k2 < e → C k1 < C k2
  | 0, h1, _ => absurd h1 (Nat.not_lt_zero _)
  | k2 + 1, h1, h2 => by
    rcases Nat.lt_or_ge k1 k2 with hlt | hge
    · exact Nat.lt_trans (chain_to_pairwise C b e h k1 hb k2 hlt (by omega)) (h k2 (by omega) h2)
    · have : k1 = k2 := by omega
      subst this
      exact h k1 hb h2

theorem rowList_keys (A : Csr α) [Zero α] (i : Nat) :
    (A.rowList i).map Prod.fst = (List.range' (A.rowBegin i) (A.rowEnd i - A.rowBegin i)).map (fun k => A.colInd.getD k 0) := by
  unfold Csr.rowList
  rw [List.map_map]
  rfl

theorem sortedRows_pairwise [Zero α] {A : Csr α} (h : A.sortedRows = true) {i : Nat} (hi : i < A.rows) :
    ((A.rowList i).map Prod.fst).Pairwise (· < ·) := by
  rw [rowList_keys, List.pairwise_iff_getElem]
  intro x y hx hy hxy
  simp only [List.length_map, List.length_range'] at hx hy
  simp only [List.getElem_map, List.getElem_range', Nat.one_mul]
  exact chain_to_pairwise (fun k => A.colInd.getD k 0) (A.rowBegin i) (A.rowEnd i)
    ((sortedRows_iff A).1 h i hi) _ (by omega) _ (by omega) (by omega)

theorem sortedRows_of_pairwise [Zero α] {A : Csr α}
    (h : ∀ i, i < A.rows → ((A.rowList i).map Prod.fst).Pairwise (· < ·)) : A.sortedRows = true := by
  rw [sortedRows_iff]
  intro i hi k h1 h2
  have hp := h i hi
  rw [rowList_keys, List.pairwise_iff_getElem] at hp
  have := hp (k - A.rowBegin i) (k - A.rowBegin i + 1) (by simp; omega) (by simp; omega) (by omega)
  simp only [List.getElem_map, List.getElem_range', Nat.one_mul] at this
  have e1 : A.rowBegin i + (k - A.rowBegin i) = k := by omega
  have e2 : A.rowBegin i + (k - A.rowBegin i + 1) = k + 1 := by omega
  rw [e1, e2] at this
  exact this

theorem take_flatten_length_le {β : Type} (rs : List (List β)) (m : Nat) :
    (rs.take m).flatten.length ≤ rs.flatten.length := by
  conv => rhs; rw [← List.take_append_drop m rs, List.flatten_append, List.length_append]
  omega

theorem ofRows_rowEnd_le (rows cols : Nat) (rs : List (List (Nat × α))) (i : Nat) (hi : i < rs.length) :
    (Csr.ofRows rows cols rs).rowEnd i ≤ (Csr.ofRows rows cols rs).colInd.size := by
  rw [ofRows_rowEnd rows cols rs i hi, ← take_succ_flatten_length rs i hi]
  have := take_flatten_length_le rs (i + 1)
  have e : (Csr.ofRows rows cols rs).colInd.size = rs.flatten.length := by
    simp only [Csr.ofRows, List.size_toArray, List.length_map]
  rw [e]
  exact this

end wf

end PermuteAux

open PermuteAux

/- `ofRows_entry` / `ofRows_wf` sit in `C02L.Permute` because `C02Convert.lean` declares `C02L.ofRows_entry` /
   `C02L.ofRows_wf` (with a slightly different signature); this way both files can be imported together. -/
namespace Permute

/-- generic: a matrix built by `ofRows` from `rows` row lists has the expected entries -/
theorem ofRows_entry {α : Type} [Zero α] [Add α] (rows cols : Nat) (rs : List (List (Nat × α)))
    (hlen : rs.length = rows) (i j : Nat) (hi : i < rows) :
    (Csr.ofRows rows cols rs).entry i j
      = (rs.getD i []).foldl (fun s cv => if cv.1 = j then s + cv.2 else s) 0 := by
  have hi' : i < rs.length := by omega
  rw [entry_eq_rowFold _ i j (ofRows_rowEnd_le rows cols rs i hi'), ofRows_rowList rows cols rs i hi']
  simp only [List.getD_eq_getElem?_getD, List.getElem?_eq_getElem hi', Option.getD_some]
  rfl

/-- `ofRows` builds a well-formed matrix when every stored column index is `< cols` -/
theorem ofRows_wf {α : Type} (rows cols : Nat) (rs : List (List (Nat × α))) (hlen : rs.length = rows)
    (hc : ∀ r ∈ rs, ∀ cv ∈ r, cv.1 < cols) : (Csr.ofRows rows cols rs).wf = true := by
  rw [wf_iff]
  refine ⟨?_, ?_, ?_, ?_, ?_, ?_⟩
  · simp only [Csr.ofRows, List.size_toArray, offsets_length, hlen]
  · exact (ofRows_rowBegin rows cols rs 0 (Nat.zero_le _)).trans (by simp)
  · have := ofRows_rowBegin rows cols rs rows (by omega)
    rw [List.take_of_length_le (by omega)] at this
    have e : (Csr.ofRows rows cols rs).val.size = rs.flatten.length := by
      simp only [Csr.ofRows, List.size_toArray, List.length_map]
    exact this.trans e.symm
  · simp only [Csr.ofRows, List.size_toArray, List.length_map]
  · intro i hi
    change i < rows at hi
    have h1 := ofRows_rowBegin rows cols rs i (by omega)
    have h2 := ofRows_rowBegin rows cols rs (i + 1) (by omega)
    rw [take_succ_flatten_length rs i (by omega)] at h2
    simp only [Csr.rowBegin] at h1 h2
    omega
  · intro k hk
    have hk' : k < (rs.flatten.map Prod.fst).length := by
      simpa only [Csr.ofRows, List.size_toArray] using hk
    have hmem : (rs.flatten.map Prod.fst)[k] ∈ rs.flatten.map Prod.fst := List.getElem_mem hk'
    have e : (Csr.ofRows rows cols rs).colInd.getD k 0 = (rs.flatten.map Prod.fst)[k] := by
      show (rs.flatten.map Prod.fst).toArray.getD k 0 = _
      rw [Array.getD_eq_getD_getElem?]
      simp only [List.getElem?_toArray, List.getElem?_eq_getElem hk', Option.getD_some]
    rw [e]
    obtain ⟨cv, hcv, e2⟩ := List.mem_map.1 hmem
    obtain ⟨r, hr, hcr⟩ := List.mem_flatten.1 hcv
    rw [← e2]
    exact hc r hr cv hcr

end Permute
open Permute

/-- the dense meaning of a row is the fold over its stored (column, value) pairs -/
theorem entry_eq_rowList {α : Type} [Zero α] [Add α] (A : Csr α) (hA : A.wf = true) (i j : Nat) (hi : i < A.rows) :
    A.entry i j = (A.rowList i).foldl (fun s cv => if cv.1 = j then s + cv.2 else s) 0 :=
  entry_eq_rowFold A i j (rowEnd_le ((wf_iff A).1 hA) hi)

theorem permute_spec {α : Type} [Zero α] [Add α] (A : Csr α) (p q : Array Nat)
    (hA : A.valid = true) (hne : A.isArrayless = false)
    (hp : Csr.isPerm p = true) (hq : Csr.isPerm q = true) (hps : p.size = A.rows) (hqs : q.size = A.cols) :
    ∃ B, A.permute p q = some B ∧ B.rows = A.rows ∧ B.cols = A.cols ∧ B.valid = true ∧
      ∀ i j, i < A.rows → j < A.cols → B.entry i j = A.entry (p.getD i 0) (q.getD j 0) := by
  unfold Csr.permute
  by_cases h0 : p.size = 0 ∧ q.size = 0
  · rw [if_pos h0]
    refine ⟨A, rfl, rfl, rfl, hA, ?_⟩
    intro i j hi
    omega
  rw [if_neg h0, if_neg (by omega), hne]
  simp only [Bool.false_eq_true, if_false]
  -- the source matrix
  have hA' : A.wf = true ∧ A.sortedRows = true := by
    simpa [Csr.valid, hne] using hA
  have hwf := (wf_iff A).1 hA'.1
  have hpi : ∀ i, i < A.rows → p.getD i 0 < A.rows := fun i hi => by
    rw [← hps]; exact isPerm_lt hp (by omega)
  -- the rows of the result
  have hlen : ((List.range A.rows).map (A.permRow p (Csr.invPerm q))).length = A.rows := by simp
  have hrow : ∀ i (hi : i < A.rows),
      ((List.range A.rows).map (A.permRow p (Csr.invPerm q)))[i]'(by rw [hlen]; exact hi)
        = A.permRow p (Csr.invPerm q) i := by
    intro i hi; simp
  have hcols : ∀ i, i < A.rows → ∀ cv ∈ A.permRow p (Csr.invPerm q) i, cv.1 < A.cols := by
    intro i hi cv hcv
    unfold Csr.permRow at hcv
    rw [(isort_perm _).mem_iff] at hcv
    obtain ⟨c, hc, rfl⟩ := List.mem_map.1 hcv
    have := rowList_col_lt hwf (hpi i hi) c hc
    rw [← hqs] at this ⊢
    exact (invPerm_right hq this).1
  refine ⟨_, rfl, rfl, rfl, ?_, ?_⟩
  · -- validity
    have hwfB := ofRows_wf A.rows A.cols _ hlen (by
      intro r hr
      obtain ⟨i, hi, rfl⟩ := List.mem_map.1 hr
      exact hcols i (List.mem_range.1 hi))
    have hsB : (Csr.ofRows A.rows A.cols ((List.range A.rows).map (A.permRow p (Csr.invPerm q)))).sortedRows = true := by
      apply sortedRows_of_pairwise
      intro i hi
      change i < A.rows at hi
      rw [ofRows_rowList _ _ _ i (by rw [hlen]; exact hi), hrow i hi]
      unfold Csr.permRow
      apply isort_strict
      rw [List.map_map]
      have hnd : ((A.rowList (p.getD i 0)).map Prod.fst).Nodup :=
        (sortedRows_pairwise hA'.2 (hpi i hi)).imp (fun h => Nat.ne_of_lt h)
      have : (Prod.fst ∘ fun cv : Nat × α => ((Csr.invPerm q).getD cv.1 0, cv.2))
          = (fun c => (Csr.invPerm q).getD c 0) ∘ Prod.fst := rfl
      rw [this, ← List.map_map]
      apply List.Nodup.map_on _ hnd
      intro x hx y hy hxy
      obtain ⟨cx, hcx, rfl⟩ := List.mem_map.1 hx
      obtain ⟨cy, hcy, rfl⟩ := List.mem_map.1 hy
      have h1 := rowList_col_lt hwf (hpi i hi) cx hcx
      have h2 := rowList_col_lt hwf (hpi i hi) cy hcy
      rw [← hqs] at h1 h2
      exact invPerm_inj hq h1 h2 hxy
    simp [Csr.valid, hwfB, hsB]
  · -- entries
    intro i j hi hj
    have hi' : i < ((List.range A.rows).map (A.permRow p (Csr.invPerm q))).length := by rw [hlen]; exact hi
    rw [entry_eq_rowFold _ i j (ofRows_rowEnd_le _ _ _ i hi'), ofRows_rowList _ _ _ i hi', hrow i hi,
      entry_eq_rowFold A _ _ (rowEnd_le hwf (hpi i hi))]
    unfold Csr.permRow
    rw [rowFold_isort]
    refine rowFold_map (fun c => (Csr.invPerm q).getD c 0) (q.getD j 0) j _ 0 ?_
    intro cv hcv
    have h1 := rowList_col_lt hwf (hpi i hi) cv hcv
    rw [← hqs] at h1 hj
    exact invPerm_eq_iff hq h1 hj

end C02L
