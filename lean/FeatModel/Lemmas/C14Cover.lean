import FeatModel.Model.CubatureTables
import FeatModel.Lemmas.C14Names
/-! # C14: every rule the factories can create (driver × admissible count × shape) is covered by a theorem:
    either its table is generated (→ `C14.tables_exact` / `C14.driver_degree`) or it is a tensor-product rule whose
    scalar table is generated (→ `C14.tensor_exact`) -/
namespace FeatModel.Cub

def ruleCovered (s : Shape) (f : Factory) (n : Nat) : Bool :=
  let key := if f.variadic then n else 0
  (findTable (tablesOf s) f.name key).isSome ||
    (decide (f.kind = .tensor) && (findTable (tablesOf .h1) f.name key).isSome)

def allRulesCovered (s : Shape) : Bool :=
  (Gen.factoriesOf s).all fun f => (List.range (f.maxP - f.minP + 1)).all fun i => ruleCovered s f (f.minP + i)

/-- rules without a generated table of their own (only through their scalar table): how many per shape -/
def tensorOnlyCount (s : Shape) : Nat :=
  ((Gen.factoriesOf s).map fun f => ((List.range (f.maxP - f.minP + 1)).filter fun i =>
    !(findTable (tablesOf s) f.name (if f.variadic then f.minP + i else 0)).isSome).length).sum

theorem allRulesCovered_all : allShapes.all allRulesCovered = true := by decide +kernel

theorem tensorOnlyCount_all : allShapes.map tensorOnlyCount = [0, 0, 0, 0, 9, 20] := by decide +kernel

end FeatModel.Cub
