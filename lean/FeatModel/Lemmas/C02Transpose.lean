import FeatModel.Model.LA.Convert
/-!
C02: correctness of the loop-faithful CSR transpose (`FeatModel.LA.Csr.transpose`: histogram, partial prefix sum,
scatter with pointer bump, pointer shift) for all sizes.  Core Lean only, no algebraic laws on the scalars.
-/
namespace C02L
open FeatModel FeatModel.LA

/-! ### array access -/

theorem getD_setIfInBounds {β : Type} (a : Array β) (i q : Nat) (v d : β) :
    (a.setIfInBounds i v).getD q d = if i = q ∧ q < a.size then v else a.getD q d := by
  simp only [Array.getD_eq_getD_getElem?, Array.getElem?_setIfInBounds]
  grind

theorem getD_modify (a : Array Nat) (i q : Nat) (f : Nat → Nat) :
    (a.modify i f).getD q 0 = if i = q ∧ q < a.size then f (a.getD q 0) else a.getD q 0 := by
  simp only [Array.getD_eq_getD_getElem?, Array.getElem?_modify]
  grind

theorem getD_default {β : Type} (a : Array β) {k : Nat} (hk : k < a.size) (d e : β) : a.getD k d = a.getD k e := by
  simp [Array.getD, hk]

theorem getD_replicate {β : Type} (n q : Nat) (v : β) : (Array.replicate n v).getD q v = v := by
  simp only [Array.getD_eq_getD_getElem?, Array.getElem?_replicate]
  split <;> rfl

/-! ### loops with invariants -/

theorem foldl_range'_inv {β : Type} (P : Nat → β → Prop) (f : β → Nat → β) :
    ∀ (n s : Nat) (init : β), P s init → (∀ m st, s ≤ m → m < s + n → P m st → P (m + 1) (f st m)) →
      P (s + n) ((List.range' s n).foldl f init)
  | 0, s, init, h0, _ => by simpa using h0
  | n + 1, s, init, h0, hs => by
    rw [List.range'_succ, List.foldl_cons]
    have := foldl_range'_inv P f n (s + 1) (f init s) (hs s init (Nat.le_refl _) (by omega) h0)
      (fun m st h1 h2 => hs m st (by omega) (by omega))
    rwa [show s + 1 + n = s + (n + 1) by omega] at this

theorem foldRange_inv {β : Type} (P : Nat → β → Prop) (f : β → Nat → β) (s e : Nat) (init : β) (hse : s ≤ e)
    (h0 : P s init) (hs : ∀ m st, s ≤ m → m < e → P m st → P (m + 1) (f st m)) : P e (foldRange s e f init) := by
  unfold foldRange
  have := foldl_range'_inv P f (e - s) s init h0 (fun m st h1 h2 => hs m st h1 (by omega))
  rwa [show s + (e - s) = e by omega] at this

theorem foldRange_ge {β : Type} (f : β → Nat → β) (s e : Nat) (init : β) (hse : e ≤ s) :
    foldRange s e f init = init := by
  unfold foldRange
  rw [show e - s = 0 by omega]
  rfl

theorem range_foldl_inv {β : Type} (P : Nat → β → Prop) (f : β → Nat → β) (n : Nat) (init : β)
    (h0 : P 0 init) (hs : ∀ m st, m < n → P m st → P (m + 1) (f st m)) : P n ((List.range n).foldl f init) := by
  rw [List.range_eq_range']
  have := foldl_range'_inv P f n 0 init h0 (fun m st _ h2 => hs m st (by omega))
  rwa [Nat.zero_add] at this

/-- a guarded accumulation without any hit leaves the accumulator alone -/
theorem foldl_range'_nohit {β : Type} (c : Nat → Prop) [DecidablePred c] (g : β → Nat → β) :
    ∀ (n s : Nat) (init : β), (∀ k, s ≤ k → k < s + n → ¬ c k) →
      (List.range' s n).foldl (fun acc k => if c k then g acc k else acc) init = init
  | 0, _, _, _ => rfl
  | n + 1, s, init, h => by
    rw [List.range'_succ, List.foldl_cons, if_neg (h s (Nat.le_refl _) (by omega))]
    exact foldl_range'_nohit c g n (s + 1) init (fun k h1 h2 => h k (by omega) (by omega))

/-- a guarded accumulation with exactly one hit `k0` performs exactly that step -/
theorem foldl_range'_onehit {β : Type} (c : Nat → Prop) [DecidablePred c] (g : β → Nat → β) (k0 : Nat) (hc : c k0) :
    ∀ (n s : Nat) (init : β), s ≤ k0 → k0 < s + n → (∀ k, s ≤ k → k < s + n → c k → k = k0) →
      (List.range' s n).foldl (fun acc k => if c k then g acc k else acc) init = g init k0
  | 0, _, _, _, h2, _ => by omega
  | n + 1, s, init, h1, h2, h => by
    rw [List.range'_succ, List.foldl_cons]
    by_cases hs : s = k0
    · subst hs
      rw [if_pos hc]
      apply foldl_range'_nohit
      intro k h3 h4 h5
      have := h k (by omega) (by omega) h5
      omega
    · have : ¬ c s := fun h5 => hs (h s (Nat.le_refl _) (by omega) h5)
      rw [if_neg this]
      exact foldl_range'_onehit c g k0 hc n (s + 1) init (by omega) (by omega)
        (fun k h3 h4 => h k (by omega) (by omega))

theorem foldRange_nohit {β : Type} (c : Nat → Prop) [DecidablePred c] (g : β → Nat → β) (s e : Nat) (init : β)
    (h : ∀ k, s ≤ k → k < e → ¬ c k) : foldRange s e (fun acc k => if c k then g acc k else acc) init = init := by
  unfold foldRange
  exact foldl_range'_nohit c g _ _ _ (fun k h1 h2 => h k h1 (by omega))

theorem foldRange_onehit {β : Type} (c : Nat → Prop) [DecidablePred c] (g : β → Nat → β) (s e : Nat) (init : β)
    (k0 : Nat) (hc : c k0) (h1 : s ≤ k0) (h2 : k0 < e) (h : ∀ k, s ≤ k → k < e → c k → k = k0) :
    foldRange s e (fun acc k => if c k then g acc k else acc) init = g init k0 := by
  unfold foldRange
  exact foldl_range'_onehit c g k0 hc _ _ _ h1 (by omega) (fun k h3 h4 => h k h3 (by omega))

/-! ### counting -/

/-- `#{k < m | c k = l}` -/
def cnt (c : Nat → Nat) (l : Nat) : Nat → Nat
  | 0 => 0
  | m + 1 => cnt c l m + (if c m = l then 1 else 0)

/-- `#{k < m | c k < l}` -/
def below (c : Nat → Nat) (l : Nat) : Nat → Nat
  | 0 => 0
  | m + 1 => below c l m + (if c m < l then 1 else 0)

theorem cnt_mono (c : Nat → Nat) (l : Nat) {m m' : Nat} (h : m ≤ m') : cnt c l m ≤ cnt c l m' := by
  induction m' with
  | zero => have : m = 0 := by omega
            subst this; exact Nat.le_refl _
  | succ n ih =>
    rcases Nat.lt_or_ge m (n + 1) with h1 | h1
    · have := ih (by omega)
      simp only [cnt]; omega
    · have : m = n + 1 := by omega
      subst this; exact Nat.le_refl _

theorem cnt_lt (c : Nat → Nat) {l k m : Nat} (hk : k < m) (hc : c k = l) : cnt c l k < cnt c l m := by
  have h1 : cnt c l (k + 1) = cnt c l k + 1 := by simp [cnt, hc]
  have h2 := cnt_mono c l (show k + 1 ≤ m by omega)
  omega

theorem below_succ (c : Nat → Nat) (l m : Nat) : below c (l + 1) m = below c l m + cnt c l m := by
  induction m with
  | zero => rfl
  | succ n ih =>
    simp only [below, cnt, ih]
    by_cases h1 : c n < l
    · have h2 : c n < l + 1 := by omega
      have h3 : c n ≠ l := by omega
      simp [h1, h2, h3]; omega
    · by_cases h3 : c n = l
      · simp [h3]; omega
      · have h2 : ¬ c n < l + 1 := by omega
        simp [h1, h2, h3]

theorem below_zero (c : Nat → Nat) (m : Nat) : below c 0 m = 0 := by
  induction m with
  | zero => rfl
  | succ n ih => simp [below, ih]

theorem below_mono (c : Nat → Nat) (m : Nat) {l l' : Nat} (h : l ≤ l') : below c l m ≤ below c l' m := by
  induction l' with
  | zero => have : l = 0 := by omega
            subst this; exact Nat.le_refl _
  | succ n ih =>
    rcases Nat.lt_or_ge l (n + 1) with h1 | h1
    · have := ih (by omega)
      rw [below_succ]; omega
    · have : l = n + 1 := by omega
      subst this; exact Nat.le_refl _

theorem below_all (c : Nat → Nat) (L : Nat) : ∀ m, (∀ k, k < m → c k < L) → below c L m = m
  | 0, _ => rfl
  | m + 1, h => by
    simp only [below, below_all c L m (fun k hk => h k (by omega)), h m (by omega), if_true]

theorem below_le (c : Nat → Nat) (l : Nat) : ∀ m, below c l m ≤ m
  | 0 => Nat.le_refl _
  | m + 1 => by
    have := below_le c l m
    simp only [below]; split <;> omega

theorem cnt_surj (c : Nat → Nat) (l : Nat) : ∀ (m t : Nat), t < cnt c l m → ∃ k, k < m ∧ c k = l ∧ cnt c l k = t
  | 0, t, h => by simp [cnt] at h
  | m + 1, t, h => by
    simp only [cnt] at h
    by_cases h1 : t < cnt c l m
    · obtain ⟨k, hk, h2, h3⟩ := cnt_surj c l m t h1
      exact ⟨k, by omega, h2, h3⟩
    · by_cases h2 : c m = l
      · rw [if_pos h2] at h
        exact ⟨m, by omega, h2, by omega⟩
      · rw [if_neg h2] at h
        omega

theorem exists_bucket (c : Nat → Nat) (m q : Nat) : ∀ L, q < below c L m →
    ∃ j, j < L ∧ below c j m ≤ q ∧ q < below c (j + 1) m
  | 0, h => by rw [below_zero] at h; omega
  | L + 1, h => by
    by_cases h1 : q < below c L m
    · obtain ⟨j, hj, h2⟩ := exists_bucket c m q L h1
      exact ⟨j, by omega, h2⟩
    · exact ⟨L, by omega, by omega, h⟩

/-- target position of entry `k` in the counting sort of `c 0 … c (n-1)` -/
def cpos (c : Nat → Nat) (n k : Nat) : Nat := below c (c k) n + cnt c (c k) k

theorem cpos_lt_next (c : Nat → Nat) {n k : Nat} (hk : k < n) : cpos c n k < below c (c k + 1) n := by
  have := cnt_lt c hk rfl
  rw [below_succ]; unfold cpos; omega

theorem cpos_lt (c : Nat → Nat) {n k : Nat} (hk : k < n) : cpos c n k < n := by
  have := cpos_lt_next c hk
  have := below_le c (c k + 1) n
  omega

theorem cpos_ge (c : Nat → Nat) (n k : Nat) : below c (c k) n ≤ cpos c n k := by
  unfold cpos; omega

theorem cpos_ne_of_lt (c : Nat → Nat) {n k k' : Nat} (h : k < k') (hk' : k' < n) : cpos c n k ≠ cpos c n k' := by
  rcases Nat.lt_trichotomy (c k) (c k') with h1 | h1 | h1
  · have h2 := cpos_lt_next c (show k < n by omega)
    have h3 := below_mono c n (show c k + 1 ≤ c k' by omega)
    have h4 := cpos_ge c n k'
    omega
  · have h2 := cnt_lt c h h1
    unfold cpos
    rw [h1]; omega
  · have h2 := cpos_lt_next c hk'
    have h3 := below_mono c n (show c k' + 1 ≤ c k by omega)
    have h4 := cpos_ge c n k
    omega

theorem cpos_inj (c : Nat → Nat) {n k k' : Nat} (hk : k < n) (hk' : k' < n) (h : cpos c n k = cpos c n k') : k = k' := by
  rcases Nat.lt_trichotomy k k' with h1 | h1 | h1
  · exact absurd h (cpos_ne_of_lt c h1 hk')
  · exact h1
  · exact absurd h.symm (cpos_ne_of_lt c h1 hk)

/-- every slot of bucket `j` is the target of exactly the entries with `c k = j` -/
theorem cpos_surj (c : Nat → Nat) {n j q : Nat} (h1 : below c j n ≤ q) (h2 : q < below c (j + 1) n) :
    ∃ k, k < n ∧ c k = j ∧ cpos c n k = q := by
  rw [below_succ] at h2
  obtain ⟨k, hk, h3, h4⟩ := cnt_surj c j n (q - below c j n) (by omega)
  refine ⟨k, hk, h3, ?_⟩
  unfold cpos
  rw [h3, h4]; omega


/-! ### the structural part of `valid` as a `Prop` -/
variable {α : Type}

structure V (A : Csr α) : Prop where
  size : A.rowPtr.size = A.rows + 1
  first : A.rowPtr.getD 0 0 = 0
  last : A.rowPtr.getD A.rows 0 = A.val.size
  colSize : A.colInd.size = A.val.size
  mono : ∀ i, i < A.rows → A.rowPtr.getD i 0 ≤ A.rowPtr.getD (i + 1) 0
  colLt : ∀ k, k < A.val.size → A.colInd.getD k 0 < A.cols
  sorted : ∀ i, i < A.rows → ∀ k, A.rowPtr.getD i 0 ≤ k → k + 1 < A.rowPtr.getD (i + 1) 0 →
    A.colInd.getD k 0 < A.colInd.getD (k + 1) 0

theorem V_of {A : Csr α} (h1 : A.wf = true) (h2 : A.sortedRows = true) : V A := by
  simp only [Csr.wf, Bool.and_eq_true, beq_iff_eq, List.all_eq_true, List.mem_range, decide_eq_true_eq,
    Array.all_eq_true] at h1
  obtain ⟨⟨⟨⟨⟨a, b⟩, c⟩, d⟩, e⟩, f⟩ := h1
  simp only [Csr.sortedRows, List.all_eq_true, List.mem_range, List.mem_range'_1, decide_eq_true_eq,
    Csr.rowBegin, Csr.rowEnd] at h2
  refine ⟨a, b, c, d, e, ?_, ?_⟩
  · intro k hk
    have hk' : k < A.colInd.size := by omega
    have := f k hk'
    simpa [Array.getD, hk'] using this
  · intro i hi k h3 h4
    exact h2 i hi k ⟨h3, by omega⟩

theorem V_to {A : Csr α} (h : V A) : A.wf = true ∧ A.sortedRows = true := by
  constructor
  · simp only [Csr.wf, Bool.and_eq_true, beq_iff_eq, List.all_eq_true, List.mem_range, decide_eq_true_eq,
      Array.all_eq_true]
    refine ⟨⟨⟨⟨⟨h.size, h.first⟩, h.last⟩, h.colSize⟩, h.mono⟩, ?_⟩
    intro k hk
    have := h.colLt k (by rw [← h.colSize]; exact hk)
    simpa [Array.getD, hk] using this
  · simp only [Csr.sortedRows, List.all_eq_true, List.mem_range, List.mem_range'_1, decide_eq_true_eq,
      Csr.rowBegin, Csr.rowEnd]
    intro i hi k hk
    exact h.sorted i hi k hk.1 (by omega)

theorem valid_cases {A : Csr α} (h : A.valid = true) : A.isArrayless = true ∨ V A := by
  simp only [Csr.valid, Bool.or_eq_true, Bool.and_eq_true] at h
  rcases h with h | ⟨h1, h2⟩
  · exact Or.inl h
  · exact Or.inr (V_of h1 h2)

theorem rowPtr_mono {A : Csr α} (h : V A) : ∀ j i, i ≤ j → j ≤ A.rows → A.rowPtr.getD i 0 ≤ A.rowPtr.getD j 0
  | 0, i, hij, _ => by
    have : i = 0 := by omega
    subst this; exact Nat.le_refl _
  | j + 1, i, hij, hj => by
    rcases Nat.lt_or_ge i (j + 1) with hlt | hge
    · exact Nat.le_trans (rowPtr_mono h j i (by omega) (by omega)) (h.mono j (by omega))
    · have : i = j + 1 := by omega
      subst this; exact Nat.le_refl _

theorem rowPtr_le {A : Csr α} (h : V A) {i : Nat} (hi : i ≤ A.rows) : A.rowPtr.getD i 0 ≤ A.val.size := by
  have := rowPtr_mono h A.rows i hi (Nat.le_refl _)
  rwa [h.last] at this

/-- storage position `k` belongs to row `i` -/
def inRow (A : Csr α) (i k : Nat) : Prop := A.rowPtr.getD i 0 ≤ k ∧ k < A.rowPtr.getD (i + 1) 0

theorem inRow_le {A : Csr α} (h : V A) {i i' k k' : Nat} (hi : i < A.rows)
    (h1 : inRow A i k) (h2 : inRow A i' k') (hk : k ≤ k') : i ≤ i' := by
  rcases Nat.lt_or_ge i' i with h3 | h3
  · have := rowPtr_mono h i (i' + 1) (by omega) (by omega)
    unfold inRow at h1 h2
    omega
  · exact h3

theorem inRow_unique {A : Csr α} (h : V A) {i i' k : Nat} (hi : i < A.rows) (hi' : i' < A.rows)
    (h1 : inRow A i k) (h2 : inRow A i' k) : i = i' :=
  Nat.le_antisymm (inRow_le h hi h1 h2 (Nat.le_refl _)) (inRow_le h hi' h2 h1 (Nat.le_refl _))

theorem inRow_lt_size {A : Csr α} (h : V A) {i k : Nat} (hi : i < A.rows) (h1 : inRow A i k) : k < A.val.size := by
  have := rowPtr_le h (show i + 1 ≤ A.rows by omega)
  unfold inRow at h1
  omega

/-- column indices are strictly increasing along a row -/
theorem sorted_lt {A : Csr α} (h : V A) {i : Nat} (hi : i < A.rows) {k1 : Nat} (h1 : A.rowPtr.getD i 0 ≤ k1) :
    ∀ k2, k1 < k2 → k2 < A.rowPtr.getD (i + 1) 0 → A.colInd.getD k1 0 < A.colInd.getD k2 0
  | 0, h2, _ => by omega
  | k2 + 1, h2, h3 => by
    have h4 := h.sorted i hi k2 (by omega) h3
    rcases Nat.lt_or_ge k1 k2 with h5 | h5
    · exact Nat.lt_trans (sorted_lt h hi h1 k2 h5 (by omega)) h4
    · have : k1 = k2 := by omega
      subst this; exact h4

theorem sorted_inj {A : Csr α} (h : V A) {i k1 k2 : Nat} (hi : i < A.rows) (h1 : inRow A i k1) (h2 : inRow A i k2)
    (hc : A.colInd.getD k1 0 = A.colInd.getD k2 0) : k1 = k2 := by
  unfold inRow at h1 h2
  rcases Nat.lt_trichotomy k1 k2 with h3 | h3 | h3
  · have := sorted_lt h hi h1.1 k2 h3 h2.2
    omega
  · exact h3
  · have := sorted_lt h hi h2.1 k1 h3 h1.2
    omega

/-! ### the entry fold with at most one hit -/

theorem entry_nohit [Zero α] [Add α] (B : Csr α) (i j : Nat)
    (h : ∀ k, inRow B i k → B.colInd.getD k B.cols ≠ j) : B.entry i j = 0 := by
  unfold Csr.entry Csr.rowBegin Csr.rowEnd
  exact foldRange_nohit (fun k => B.colInd.getD k B.cols = j) (fun s k => s + B.val.getD k 0) _ _ _
    (fun k h1 h2 => h k ⟨h1, h2⟩)

theorem entry_onehit [Zero α] [Add α] (B : Csr α) (i j k0 : Nat) (h0 : inRow B i k0)
    (hc : B.colInd.getD k0 B.cols = j)
    (h : ∀ k, inRow B i k → B.colInd.getD k B.cols = j → k = k0) : B.entry i j = 0 + B.val.getD k0 0 := by
  unfold Csr.entry Csr.rowBegin Csr.rowEnd
  exact foldRange_onehit (fun k => B.colInd.getD k B.cols = j) (fun s k => s + B.val.getD k 0) _ _ _ k0 hc
    h0.1 h0.2 (fun k h1 h2 => h k ⟨h1, h2⟩)


/-! ### the loops of `transpose` -/

abbrev col (A : Csr α) (k : Nat) : Nat := A.colInd.getD k 0
/-- first slot of bucket (transposed row) `l` -/
abbrev start (A : Csr α) (l : Nat) : Nat := below (col A) l A.val.size
abbrev pos (A : Csr α) (k : Nat) : Nat := cpos (col A) A.val.size k

theorem trHistogram_spec (A : Csr α) :
    A.trHistogram.size = A.cols + 1 ∧ A.trHistogram.getD 0 0 = 0 ∧
    ∀ l, l < A.cols → A.trHistogram.getD (l + 1) 0 = cnt (col A) l A.val.size := by
  unfold Csr.trHistogram Csr.usedElements
  apply foldRange_inv
    (fun m (p : Array Nat) => p.size = A.cols + 1 ∧ p.getD 0 0 = 0 ∧ ∀ l, l < A.cols → p.getD (l + 1) 0 = cnt (col A) l m)
  · omega
  · refine ⟨by simp, getD_replicate _ _ _, fun l _ => ?_⟩
    rw [getD_replicate]; rfl
  · intro m p _ hm ⟨h1, h2, h3⟩
    refine ⟨by rw [Array.size_modify]; exact h1, ?_, ?_⟩
    · rw [getD_modify, if_neg (by omega)]; exact h2
    · intro l hl
      rw [getD_modify, cnt, h3 l hl]
      by_cases h : A.colInd.getD m 0 = l
      · rw [if_pos ⟨by omega, by omega⟩, if_pos h]
      · rw [if_neg (by omega), if_neg h]; rfl

theorem trPrefix_spec {A : Csr α} (hc : 0 < A.cols) (p : Array Nat) (h1 : p.size = A.cols + 1)
    (h2 : p.getD 0 0 = 0) (h3 : ∀ l, l < A.cols → p.getD (l + 1) 0 = cnt (col A) l A.val.size) :
    (A.trPrefix p).size = A.cols + 1 ∧ ∀ l, l < A.cols → (A.trPrefix p).getD l 0 = start A l := by
  have key : ∀ i (p' : Array Nat), (p'.size = A.cols + 1 ∧ (∀ l, l ≤ i → l < A.cols → p'.getD l 0 = start A l) ∧
      (∀ l, i ≤ l → l < A.cols → p'.getD (l + 1) 0 = cnt (col A) l A.val.size)) → A.cols - 1 ≤ i →
      p'.size = A.cols + 1 ∧ ∀ l, l < A.cols → p'.getD l 0 = start A l :=
    fun i p' h hi => ⟨h.1, fun l hl => h.2.1 l (by omega) hl⟩
  have h0 : p.size = A.cols + 1 ∧ (∀ l, l ≤ 1 → l < A.cols → p.getD l 0 = start A l) ∧
      (∀ l, 1 ≤ l → l < A.cols → p.getD (l + 1) 0 = cnt (col A) l A.val.size) := by
    refine ⟨h1, ?_, fun l _ hl => h3 l hl⟩
    intro l hl hl'
    rcases Nat.eq_zero_or_pos l with h | h
    · subst h; rw [h2]; exact (below_zero _ _).symm
    · have : l = 1 := by omega
      subst this
      rw [h3 0 hc]
      show _ = below _ (0 + 1) _
      rw [below_succ, below_zero]; omega
  unfold Csr.trPrefix
  rcases Nat.lt_or_ge (A.cols - 1) 1 with hlt | hge
  · rw [foldRange_ge _ _ _ _ (by omega)]
    exact key 1 p h0 (by omega)
  · apply key (A.cols - 1) _ _ (Nat.le_refl _)
    apply foldRange_inv
      (fun i (p' : Array Nat) => p'.size = A.cols + 1 ∧ (∀ l, l ≤ i → l < A.cols → p'.getD l 0 = start A l) ∧
        (∀ l, i ≤ l → l < A.cols → p'.getD (l + 1) 0 = cnt (col A) l A.val.size)) _ _ _ _ hge h0
    intro i p' hi1 hi2 ⟨g1, g2, g3⟩
    refine ⟨by rw [Array.size_modify]; exact g1, ?_, ?_⟩
    · intro l hl hl'
      rw [getD_modify]
      by_cases h : i + 1 = l
      · subst h
        rw [if_pos ⟨rfl, by omega⟩, g3 i (Nat.le_refl _) (by omega), g2 i (Nat.le_refl _) (by omega)]
        show _ = below _ (i + 1) _
        rw [below_succ]; unfold start; omega
      · rw [if_neg (by omega)]
        exact g2 l (by omega) hl'
    · intro l hl hl'
      rw [getD_modify, if_neg (by omega)]
      exact g3 l (by omega) hl'

/-- invariant of the scatter after the first `m` stored entries -/
structure SInv (A : Csr α) (m : Nat) (st : Array Nat × Array Nat × Array α) : Prop where
  psize : st.1.size = A.cols + 1
  p : ∀ l, l < A.cols → st.1.getD l 0 = start A l + cnt (col A) l m
  cisize : st.2.1.size = A.val.size
  vsize : st.2.2.size = A.val.size
  done : ∀ k, k < m → ∃ i, i < A.rows ∧ inRow A i k ∧ st.2.1.getD (pos A k) 0 = i ∧
    ∀ d, st.2.2.getD (pos A k) d = A.val.getD k d

theorem trStep_inv [Zero α] {A : Csr α} (hv : V A) {m i : Nat} {st : Array Nat × Array Nat × Array α}
    (h : SInv A m st) (hm : m < A.val.size) (hi : i < A.rows) (hr : inRow A i m) :
    SInv A (m + 1) (A.trStep i st m) := by
  have hl := hv.colLt m hm
  have hj : st.1.getD (A.colInd.getD m 0) 0 = pos A m := h.p _ hl
  have e1 : (A.trStep i st m).1 = st.1.modify (A.colInd.getD m 0) (· + 1) := rfl
  have e2 : (A.trStep i st m).2.1 = st.2.1.setIfInBounds (pos A m) i := by rw [← hj]; rfl
  have e3 : (A.trStep i st m).2.2 = st.2.2.setIfInBounds (pos A m) (A.val.getD m 0) := by rw [← hj]; rfl
  have hpm : pos A m < A.val.size := cpos_lt _ hm
  refine ⟨by rw [e1, Array.size_modify]; exact h.psize, ?_, by rw [e2, Array.size_setIfInBounds]; exact h.cisize,
    by rw [e3, Array.size_setIfInBounds]; exact h.vsize, ?_⟩
  · intro l hl'
    rw [e1, getD_modify, cnt, h.p l hl']
    by_cases hh : A.colInd.getD m 0 = l
    · rw [if_pos ⟨hh, by rw [h.psize]; omega⟩, if_pos hh]; omega
    · rw [if_neg (by omega), if_neg hh]; rfl
  · intro k hk
    rw [e2, e3]
    rcases Nat.lt_or_ge k m with hkm | hkm
    · obtain ⟨i', hi', hr', g1, g2⟩ := h.done k hkm
      have hne : ¬ (pos A m = pos A k ∧ pos A k < st.2.1.size) := fun hh => cpos_ne_of_lt _ hkm hm hh.1.symm
      have hne' : ¬ (pos A m = pos A k ∧ pos A k < st.2.2.size) := fun hh => cpos_ne_of_lt _ hkm hm hh.1.symm
      refine ⟨i', hi', hr', ?_, fun d => ?_⟩
      · rw [getD_setIfInBounds, if_neg hne]; exact g1
      · rw [getD_setIfInBounds, if_neg hne']; exact g2 d
    · have : k = m := by omega
      subst this
      refine ⟨i, hi, hr, ?_, fun d => ?_⟩
      · rw [getD_setIfInBounds, if_pos ⟨rfl, by rw [h.cisize]; exact hpm⟩]
      · rw [getD_setIfInBounds, if_pos ⟨rfl, by rw [h.vsize]; exact hpm⟩]
        exact getD_default _ hm _ _

theorem trScatter_inv [Zero α] {A : Csr α} (hv : V A) (p : Array Nat) (h1 : p.size = A.cols + 1)
    (h2 : ∀ l, l < A.cols → p.getD l 0 = start A l) : SInv A A.val.size (A.trScatter p) := by
  unfold Csr.trScatter
  have := range_foldl_inv (fun i (st : Array Nat × Array Nat × Array α) => SInv A (A.rowPtr.getD i 0) st)
    (fun st i => foldRange (A.rowBegin i) (A.rowEnd i) (A.trStep i) st) A.rows
    (p, Array.replicate A.usedElements 0, Array.replicate A.usedElements 0) ?_ ?_
  · rwa [hv.last] at this
  · show SInv A (A.rowPtr.getD 0 0) _
    rw [hv.first]
    exact ⟨h1, fun l hl => h2 l hl, Array.size_replicate .., Array.size_replicate .., fun k hk => by omega⟩
  · intro i st hi hinv
    apply foldRange_inv (fun m (st : Array Nat × Array Nat × Array α) => SInv A m st) (A.trStep i) (A.rowBegin i) (A.rowEnd i) st (hv.mono i hi) hinv
    intro m st' hm1 hm2 hinv'
    have hr : inRow A i m := ⟨hm1, hm2⟩
    exact trStep_inv hv hinv' (inRow_lt_size hv hi hr) hi hr

theorem shift_fold : ∀ (m : Nat) (p : Array Nat), m < p.size →
    ((List.range m).reverse.foldl (fun p i => p.setIfInBounds (i + 1) (p.getD i 0)) p).size = p.size ∧
    ∀ q, ((List.range m).reverse.foldl (fun p i => p.setIfInBounds (i + 1) (p.getD i 0)) p).getD q 0
      = if 1 ≤ q ∧ q ≤ m then p.getD (q - 1) 0 else p.getD q 0
  | 0, p, _ => ⟨rfl, fun q => by rw [if_neg (by omega)]; rfl⟩
  | m + 1, p, hm => by
    rw [List.range_succ, List.reverse_append, List.reverse_singleton, List.singleton_append, List.foldl_cons]
    obtain ⟨g1, g2⟩ := shift_fold m (p.setIfInBounds (m + 1) (p.getD m 0))
      (by rw [Array.size_setIfInBounds]; omega)
    refine ⟨by rw [g1, Array.size_setIfInBounds], fun q => ?_⟩
    rw [g2, getD_setIfInBounds, getD_setIfInBounds]
    by_cases h : 1 ≤ q ∧ q ≤ m
    · rw [if_pos h, if_neg (by omega), if_pos ⟨h.1, by omega⟩]
    · rw [if_neg h]
      by_cases h' : m + 1 = q
      · subst h'
        rw [if_pos ⟨rfl, hm⟩, if_pos ⟨by omega, by omega⟩]; rfl
      · rw [if_neg (by omega), if_neg (by omega)]

theorem trShift_spec (A : Csr α) (p : Array Nat) (h1 : p.size = A.cols + 1) :
    (A.trShift p).size = A.cols + 1 ∧ (A.trShift p).getD 0 0 = 0 ∧
    ∀ l, l < A.cols → (A.trShift p).getD (l + 1) 0 = p.getD l 0 := by
  obtain ⟨g1, g2⟩ := shift_fold A.cols p (by omega)
  unfold Csr.trShift
  refine ⟨by rw [Array.size_setIfInBounds, g1, h1], ?_, fun l hl => ?_⟩
  · rw [getD_setIfInBounds, if_pos ⟨rfl, by rw [g1]; omega⟩]
  · rw [getD_setIfInBounds, if_neg (by omega), g2, if_pos ⟨by omega, by omega⟩]; rfl


/-! ### the result -/

theorem cpos_lt_imp (c : Nat → Nat) {n k1 k2 : Nat} (hc : c k1 = c k2) (h : cpos c n k1 < cpos c n k2) : k1 < k2 := by
  rcases Nat.lt_or_ge k1 k2 with h1 | h1
  · exact h1
  · have := cnt_mono c (c k2) h1
    unfold cpos at h
    rw [hc] at h
    omega

/-- what the four loops establish (for a matrix with stored entries) -/
structure TPost (A T : Csr α) : Prop where
  rows : T.rows = A.cols
  cols : T.cols = A.rows
  psize : T.rowPtr.size = A.cols + 1
  ptr : ∀ l, l ≤ A.cols → T.rowPtr.getD l 0 = start A l
  cisize : T.colInd.size = A.val.size
  vsize : T.val.size = A.val.size
  done : ∀ k, k < A.val.size → ∃ i, i < A.rows ∧ inRow A i k ∧ T.colInd.getD (pos A k) 0 = i ∧
    ∀ d, T.val.getD (pos A k) d = A.val.getD k d

theorem transpose_post [Zero α] {A : Csr α} (hv : V A) (hn : A.usedElements ≠ 0) : TPost A A.transpose := by
  have hn' : A.val.size ≠ 0 := hn
  have hc : 0 < A.cols := by
    have := hv.colLt 0 (by omega)
    omega
  obtain ⟨a1, a2, a3⟩ := trHistogram_spec A
  obtain ⟨b1, b2⟩ := trPrefix_spec hc _ a1 a2 a3
  have S := trScatter_inv hv _ b1 b2
  obtain ⟨c1, c2, c3⟩ := trShift_spec A _ S.psize
  unfold Csr.transpose
  rw [if_neg hn]
  refine ⟨rfl, rfl, c1, ?_, S.cisize, S.vsize, S.done⟩
  intro l hl
  rcases Nat.eq_zero_or_pos l with h | h
  · subst h
    show (A.trShift _).getD 0 0 = _
    rw [c2]; exact (below_zero _ _).symm
  · obtain ⟨l', rfl⟩ : ∃ l', l = l' + 1 := ⟨l - 1, by omega⟩
    show (A.trShift _).getD (l' + 1) 0 = _
    rw [c3 l' (by omega), S.p l' (by omega)]
    show _ = below _ (l' + 1) _
    rw [below_succ]

theorem tpost_V {A T : Csr α} (hv : V A) (ht : TPost A T) : V T := by
  have hall : below (col A) A.cols A.val.size = A.val.size := below_all _ _ _ hv.colLt
  refine ⟨by rw [ht.psize, ht.rows], ?_, ?_, ht.cisize.trans ht.vsize.symm, ?_, ?_, ?_⟩
  · rw [ht.ptr 0 (Nat.zero_le _)]; exact below_zero _ _
  · rw [ht.rows, ht.ptr _ (Nat.le_refl _), ht.vsize]; exact hall
  · intro i hi
    rw [ht.rows] at hi
    rw [ht.ptr i (by omega), ht.ptr (i + 1) (by omega)]
    exact below_mono _ _ (by omega)
  · intro q hq
    rw [ht.vsize, ← hall] at hq
    obtain ⟨j, hj, h1, h2⟩ := exists_bucket _ _ _ _ hq
    obtain ⟨k', hk', h3, h4⟩ := cpos_surj _ h1 h2
    obtain ⟨i, hi, _, g, _⟩ := ht.done k' hk'
    have e : pos A k' = q := h4
    rw [e] at g
    rw [ht.cols]; omega
  · intro j hj q hq1 hq2
    rw [ht.rows] at hj
    rw [ht.ptr j (by omega)] at hq1
    rw [ht.ptr (j + 1) (by omega)] at hq2
    have hb := below_mono (col A) A.val.size (show j ≤ j + 1 by omega)
    obtain ⟨k1, hk1, c1, p1⟩ := cpos_surj (col A) (n := A.val.size) (j := j) (q := q) hq1 (by unfold start at hq2; omega)
    obtain ⟨k2, hk2, c2, p2⟩ := cpos_surj (col A) (n := A.val.size) (j := j) (q := q + 1)
      (by unfold start at hq1; omega) hq2
    have hlt : k1 < k2 := cpos_lt_imp (col A) (n := A.val.size) (by rw [c1, c2]) (by omega)
    obtain ⟨i1, hi1, r1, g1, _⟩ := ht.done k1 hk1
    obtain ⟨i2, hi2, r2, g2, _⟩ := ht.done k2 hk2
    have e1 : pos A k1 = q := p1
    have e2 : pos A k2 = q + 1 := p2
    rw [e1] at g1
    rw [e2] at g2
    have hle := inRow_le hv hi1 r1 r2 (Nat.le_of_lt hlt)
    have hne : i1 ≠ i2 := by
      intro h
      subst h
      have := sorted_inj hv hi1 r1 r2 (c1.trans c2.symm)
      omega
    omega

theorem tpost_entry [Zero α] [Add α] {A T : Csr α} (hv : V A) (ht : TPost A T) {i j : Nat} (hi : i < A.rows)
    (hj : j < A.cols) : T.entry j i = A.entry i j := by
  have hTrow : ∀ q, inRow T j q → q < A.val.size ∧ ∃ k, k < A.val.size ∧ col A k = j ∧ pos A k = q := by
    intro q hq
    unfold inRow at hq
    rw [ht.ptr j (by omega), ht.ptr (j + 1) (by omega)] at hq
    obtain ⟨k, hk, h3, h4⟩ := cpos_surj _ hq.1 hq.2
    exact ⟨by rw [← h4]; exact cpos_lt _ hk, k, hk, h3, h4⟩
  have hcolA : ∀ k, k < A.val.size → A.colInd.getD k A.cols = col A k :=
    fun k hk => getD_default _ (by rw [hv.colSize]; exact hk) _ _
  have hcolT : ∀ q, q < A.val.size → T.colInd.getD q T.cols = T.colInd.getD q 0 :=
    fun q hq => getD_default _ (by rw [ht.cisize]; exact hq) _ _
  -- a hit in transposed row `j` with row index `i` comes from a stored entry `(i, j)` of `A`
  have hback : ∀ q, inRow T j q → T.colInd.getD q T.cols = i → ∃ k, inRow A i k ∧ col A k = j ∧ pos A k = q := by
    intro q hq hqi
    obtain ⟨hqn, k, hk, h3, h4⟩ := hTrow q hq
    obtain ⟨i', hi', r', g, _⟩ := ht.done k hk
    rw [h4, ← hcolT q hqn, hqi] at g
    subst g
    exact ⟨k, r', h3, h4⟩
  by_cases hex : ∃ k0, inRow A i k0 ∧ col A k0 = j
  · obtain ⟨k0, hr0, hc0⟩ := hex
    have hk0 := inRow_lt_size hv hi hr0
    obtain ⟨i0, hi0, hr0', g1, g2⟩ := ht.done k0 hk0
    have e0 : i0 = i := inRow_unique hv hi0 hi hr0' hr0
    rw [e0] at g1
    have hpn : pos A k0 < A.val.size := cpos_lt _ hk0
    have hrT : inRow T j (pos A k0) := by
      unfold inRow
      rw [ht.ptr j (by omega), ht.ptr (j + 1) (by omega)]
      have a1 := cpos_ge (col A) A.val.size k0
      have a2 := cpos_lt_next (col A) hk0
      rw [hc0] at a1 a2
      exact ⟨a1, a2⟩
    rw [entry_onehit A i j k0 hr0 (by rw [hcolA k0 hk0]; exact hc0) ?_,
      entry_onehit T j i (pos A k0) hrT (by rw [hcolT _ hpn]; exact g1) ?_, g2]
    · intro q hq hqi
      obtain ⟨k, r, h3, h4⟩ := hback q hq hqi
      have : k = k0 := sorted_inj hv hi r hr0 (h3.trans hc0.symm)
      rw [← h4, this]
    · intro k r hkc
      rw [hcolA k (inRow_lt_size hv hi r)] at hkc
      exact sorted_inj hv hi r hr0 (hkc.trans hc0.symm)
  · rw [entry_nohit A i j ?_, entry_nohit T j i ?_]
    · intro q hq hqi
      obtain ⟨k, r, h3, _⟩ := hback q hq hqi
      exact hex ⟨k, r, h3⟩
    · intro k r hkc
      rw [hcolA k (inRow_lt_size hv hi r)] at hkc
      exact hex ⟨k, r, hkc⟩

/-! ### the entry-free cases -/

theorem entryFree_entry [Zero α] [Add α] (r c i j : Nat) : (Csr.entryFree r c : Csr α).entry i j = 0 := by
  apply entry_nohit
  intro k hk
  simp [inRow, Csr.entryFree] at hk

theorem arrayless_entry [Zero α] [Add α] {A : Csr α} (h : A.isArrayless = true) (i j : Nat) : A.entry i j = 0 := by
  apply entry_nohit
  intro k hk
  simp only [Csr.isArrayless, Bool.and_eq_true, Array.isEmpty_iff] at h
  simp [inRow, h.1.1] at hk

theorem empty_entry [Zero α] [Add α] {A : Csr α} (hv : V A) (h0 : A.usedElements = 0) {i : Nat} (hi : i < A.rows)
    (j : Nat) : A.entry i j = 0 := by
  apply entry_nohit
  intro k hk
  have := inRow_lt_size hv hi hk
  have h0' : A.val.size = 0 := h0
  omega

theorem arrayless_usedElements {A : Csr α} (h : A.isArrayless = true) : A.usedElements = 0 := by
  simp only [Csr.isArrayless, Bool.and_eq_true, Array.isEmpty_iff] at h
  simp [Csr.usedElements, h.2]

theorem entryFree_valid (r c : Nat) : (Csr.entryFree r c : Csr α).valid = true := by
  simp [Csr.valid, Csr.isArrayless, Csr.entryFree]

/-! ### main theorems -/

theorem transpose_spec {α : Type} [Zero α] [Add α] (A : Csr α) (h : A.valid = true) :
    A.transpose.rows = A.cols ∧ A.transpose.cols = A.rows ∧ A.transpose.valid = true ∧
    ∀ i j, i < A.rows → j < A.cols → A.transpose.entry j i = A.entry i j := by
  by_cases h0 : A.usedElements = 0
  · have e : A.transpose = Csr.entryFree A.cols A.rows := if_pos h0
    rw [e]
    refine ⟨rfl, rfl, entryFree_valid _ _, fun i j hi _ => ?_⟩
    rw [entryFree_entry]
    rcases valid_cases h with ha | hv
    · exact (arrayless_entry ha i j).symm
    · exact (empty_entry hv h0 hi j).symm
  · rcases valid_cases h with ha | hv
    · exact absurd (arrayless_usedElements ha) h0
    · have ht := transpose_post hv h0
      have hvT := V_to (tpost_V hv ht)
      refine ⟨ht.rows, ht.cols, ?_, fun i j hi hj => tpost_entry hv ht hi hj⟩
      simp [Csr.valid, hvT.1, hvT.2]

theorem transpose_transpose {α : Type} [Zero α] [Add α] (A : Csr α) (h : A.valid = true) :
    A.transpose.transpose.rows = A.rows ∧ A.transpose.transpose.cols = A.cols ∧
    A.transpose.transpose.valid = true ∧
    ∀ i j, i < A.rows → j < A.cols → A.transpose.transpose.entry i j = A.entry i j := by
  obtain ⟨a1, a2, a3, a4⟩ := transpose_spec A h
  obtain ⟨b1, b2, b3, b4⟩ := transpose_spec A.transpose a3
  refine ⟨b1.trans a2, b2.trans a1, b3, fun i j hi hj => ?_⟩
  rw [b4 j i (by rw [a1]; exact hj) (by rw [a2]; exact hi)]
  exact a4 i j hi hj

end C02L
