import FeatModel.Model.FEVolume
import FeatModel.Lemmas.C15Subst
import FeatModel.Lemmas.C15Hess
import FeatModel.Lemmas.C15Hermite
import Mathlib.Tactic.Ring
import Mathlib.Tactic.FieldSimp
import Mathlib.Tactic.NormNum
import Mathlib.Algebra.Order.Field.Rat
/-! The Jacobian determinant integrates to the signed cell volume (polynomial identities in the vertex coordinates),
    the quadrature of the `volq` op is exact, `volume()` is the absolute value of the signed volume. -/
namespace FeatModel.FE
open FeatModel.Poly

theorem dShape_S2 : (List.range 3).map (fun i => (List.range 2).map (dShape Kind.S 2 i))
    = [[[(-1, [0, 0])], [(-1, [0, 0])]], [[(1, [0, 0])], []], [[], [(1, [0, 0])]]] := by decide +kernel

theorem dShape_H2 : (List.range 4).map (fun i => (List.range 2).map (dShape Kind.H 2 i))
    = [[[(-(1 : Rat) / 4, [0, 0]), ((1 : Rat) / 4, [0, 1])], [(-(1 : Rat) / 4, [0, 0]), ((1 : Rat) / 4, [1, 0])]],
       [[((1 : Rat) / 4, [0, 0]), (-(1 : Rat) / 4, [0, 1])], [(-(1 : Rat) / 4, [0, 0]), (-(1 : Rat) / 4, [1, 0])]],
       [[(-(1 : Rat) / 4, [0, 0]), (-(1 : Rat) / 4, [0, 1])], [((1 : Rat) / 4, [0, 0]), (-(1 : Rat) / 4, [1, 0])]],
       [[((1 : Rat) / 4, [0, 0]), ((1 : Rat) / 4, [0, 1])], [((1 : Rat) / 4, [0, 0]), ((1 : Rat) / 4, [1, 0])]]] := by
  decide +kernel

theorem dS (k : Kind) (d n m : Nat) (T : List (List Poly)) (h : (List.range n).map (fun i => (List.range m).map (dShape k d i)) = T)
    (i j : Nat) (hi : i < n) (hj : j < m) : dShape k d i j = (T.getD i []).getD j [] := by
  subst h
  simp [List.getD_eq_getElem?_getD, List.getElem?_map, List.getElem?_range hi, List.getElem?_range hj]

theorem integral_detJ_S2 (V : List (List Rat)) :
    integrateRef Kind.S 2 (detJPoly Kind.S 2 V) = signedVolume Kind.S 2 V := by
  have d := fun i j hi hj => dS Kind.S 2 3 2 _ dShape_S2 i j hi hj
  simp only [detJPoly, jacPoly, numVerts, List.range_succ, List.range_zero, List.nil_append, List.cons_append,
    List.map_cons, List.map_nil, Poly.sum, List.foldr_cons, List.foldr_nil,
    d 0 0 (by omega) (by omega), d 0 1 (by omega) (by omega), d 1 0 (by omega) (by omega), d 1 1 (by omega) (by omega),
    d 2 0 (by omega) (by omega), d 2 1 (by omega) (by omega), List.getD_cons_zero, List.getD_cons_succ]
  simp only [smul, add, mul, List.map_cons, List.map_nil, List.flatMap_cons, List.flatMap_nil, List.cons_append,
    List.nil_append, List.append_nil, monoMul, integrateRef, monoIntS, fact, List.foldl_cons, List.foldl_nil,
    signedVolume]
  norm_num
  ring

theorem integral_detJ_H2 (V : List (List Rat)) :
    integrateRef Kind.H 2 (detJPoly Kind.H 2 V) = signedVolume Kind.H 2 V := by
  have d := fun i j hi hj => dS Kind.H 2 4 2 _ dShape_H2 i j hi hj
  simp only [detJPoly, jacPoly, numVerts, Nat.reducePow, List.range_succ, List.range_zero, List.nil_append, List.cons_append,
    List.map_cons, List.map_nil, Poly.sum, List.foldr_cons, List.foldr_nil,
    d 0 0 (by omega) (by omega), d 0 1 (by omega) (by omega), d 1 0 (by omega) (by omega), d 1 1 (by omega) (by omega), d 2 0 (by omega) (by omega), d 2 1 (by omega) (by omega), d 3 0 (by omega) (by omega), d 3 1 (by omega) (by omega), List.getD_cons_zero, List.getD_cons_succ]
  simp only [smul, add, mul, List.map_cons, List.map_nil, List.flatMap_cons, List.flatMap_nil, List.cons_append,
    List.nil_append, List.append_nil, monoMul, integrateRef, monoIntH, powIntH, List.length_cons, List.length_nil,
    signedVolume]
  norm_num
  ring

theorem dShape_H1 : (List.range 2).map (fun i => (List.range 1).map (dShape Kind.H 1 i))
    = [[[(-(1 : Rat) / 2, [0])]], [[((1 : Rat) / 2, [0])]]] := by decide +kernel

theorem integral_detJ_H1 (V : List (List Rat)) :
    integrateRef Kind.H 1 (detJPoly Kind.H 1 V) = signedVolume Kind.H 1 V := by
  have d := fun i j hi hj => dS Kind.H 1 2 1 _ dShape_H1 i j hi hj
  simp only [detJPoly, jacPoly, numVerts, Nat.reducePow, List.range_succ, List.range_zero, List.nil_append, List.cons_append,
    List.map_cons, List.map_nil, Poly.sum, List.foldr_cons, List.foldr_nil,
    d 0 0 (by omega) (by omega), d 1 0 (by omega) (by omega), List.getD_cons_zero, List.getD_cons_succ]
  simp only [smul, add, mul, List.map_cons, List.map_nil, List.flatMap_cons, List.flatMap_nil, List.cons_append,
    List.nil_append, List.append_nil, monoMul, integrateRef, monoIntH, powIntH, List.length_cons, List.length_nil,
    signedVolume]
  norm_num
  ring

theorem dShape_S3 : (List.range 4).map (fun i => (List.range 3).map (dShape Kind.S 3 i))
    = [[[(-1, [0, 0, 0])], [(-1, [0, 0, 0])], [(-1, [0, 0, 0])]], [[(1, [0, 0, 0])], [], []],
       [[], [(1, [0, 0, 0])], []], [[], [], [(1, [0, 0, 0])]]] := by decide +kernel

theorem integral_detJ_S3 (V : List (List Rat)) :
    integrateRef Kind.S 3 (detJPoly Kind.S 3 V) = signedVolume Kind.S 3 V := by
  have d := fun i j hi hj => dS Kind.S 3 4 3 _ dShape_S3 i j hi hj
  simp only [detJPoly, jacPoly, numVerts, List.range_succ, List.range_zero, List.nil_append, List.cons_append,
    List.map_cons, List.map_nil, Poly.sum, List.foldr_cons, List.foldr_nil,
    d 0 0 (by omega) (by omega), d 0 1 (by omega) (by omega), d 0 2 (by omega) (by omega), d 1 0 (by omega) (by omega), d 1 1 (by omega) (by omega), d 1 2 (by omega) (by omega), d 2 0 (by omega) (by omega), d 2 1 (by omega) (by omega), d 2 2 (by omega) (by omega), d 3 0 (by omega) (by omega), d 3 1 (by omega) (by omega), d 3 2 (by omega) (by omega), List.getD_cons_zero, List.getD_cons_succ]
  simp only [smul, add, mul, List.map_cons, List.map_nil, List.flatMap_cons, List.flatMap_nil, List.cons_append,
    List.nil_append, List.append_nil, monoMul, integrateRef, monoIntS, fact, List.foldl_cons, List.foldl_nil,
    signedVolume]
  norm_num
  ring

/-! ### `detJPoly` is the determinant of the model Jacobian at every point -/

theorem eval_pderiv_sum (x : Nat → Rat) (j : Nat) (l : List Poly) :
    eval x (FeatModel.Poly.pderiv j (Poly.sum l)) = (l.map fun p => eval x (FeatModel.Poly.pderiv j p)).sum := by
  induction l with
  | nil => simp [Poly.sum, FeatModel.Poly.pderiv, eval]
  | cons p l ih =>
    have : Poly.sum (p :: l) = add p (Poly.sum l) := rfl
    rw [this, eval_pderiv_add, ih]; simp

theorem jacPoly_eval (k : Kind) (d : Nat) (V : List (List Rat)) (a j : Nat) (x : List Rat) :
    evalAt x (jacPoly k d V a j) = evalAt x (FeatModel.Poly.pderiv j (mapPoly k d V a)) := by
  simp only [evalAt, jacPoly, mapPoly, eval_sum, eval_pderiv_sum, List.map_map]
  congr 1
  apply List.map_congr_left
  intro i _
  simp only [Function.comp, eval_smul, eval_pderiv_smul, dShape, eval_normalize]

theorem jacMat_entry (k : Kind) (d : Nat) (V : List (List Rat)) (x : List Rat) (a j : Nat)
    (ha : a < worldDim V) (hj : j < d) : mat (jacMat k d V x) a j = evalAt x (jacPoly k d V a j) := by
  rw [jacPoly_eval]
  simp [mat, jacMat, List.getD_eq_getElem?_getD, List.getElem?_map, List.getElem?_range ha, List.getElem?_range hj]

/-- at every reference point the polynomial `detJPoly` is the determinant of the Jacobian the model (and the `ev`,
    `trcfg`, `vol` ops) computes -/
theorem detJPoly_eval (k : Kind) (d : Nat) (hd : d = 1 ∨ d = 2 ∨ d = 3) (V : List (List Rat)) (hV : worldDim V = d)
    (x : List Rat) : evalAt x (detJPoly k d V) = det d (jacMat k d V x) := by
  have e := fun a j (ha : a < d) (hj : j < d) => jacMat_entry k d V x a j (by omega) hj
  rcases hd with rfl | rfl | rfl
  · simp only [detJPoly, det, e 0 0 (by omega) (by omega)]
  · simp only [detJPoly, det, evalAt, eval_add, eval_mul, eval_smul,
      e 0 0 (by omega) (by omega), e 0 1 (by omega) (by omega), e 1 0 (by omega) (by omega), e 1 1 (by omega) (by omega)]
    ring
  · simp only [detJPoly, det, evalAt, eval_add, eval_mul, eval_smul,
      e 0 0 (by omega) (by omega), e 0 1 (by omega) (by omega), e 0 2 (by omega) (by omega),
      e 1 0 (by omega) (by omega), e 1 1 (by omega) (by omega), e 1 2 (by omega) (by omega),
      e 2 0 (by omega) (by omega), e 2 1 (by omega) (by omega), e 2 2 (by omega) (by omega)]
    ring

theorem rabs_nonneg_eq (q : Rat) (h : 0 ≤ q) : rabs q = q := by
  unfold rabs; split
  · exact absurd h (not_le.mpr ‹q < 0›)
  · rfl

/-- the `volq` sum (with `jac_det = |det J|`) is the signed sum whenever `det J ≥ 0` at the points of the rule -/
theorem volQuad_eq_signed (k : Kind) (d : Nat) (hd : d = 1 ∨ d = 2 ∨ d = 3) (V : List (List Rat)) (hV : worldDim V = d)
    (hpos : ∀ xw ∈ volRule k d, 0 ≤ det d (jacMat k d V xw.1)) : volQuad k d V = volQuadSigned k d V := by
  unfold volQuad volQuadSigned
  congr 1
  apply List.map_congr_left
  intro xw hxw
  obtain ⟨x, w⟩ := xw
  simp only
  rw [rabs_nonneg_eq _ (hpos (x, w) hxw), detJPoly_eval k d hd V hV]

theorem quad_exact_S2 (V : List (List Rat)) :
    volQuadSigned Kind.S 2 V = integrateRef Kind.S 2 (detJPoly Kind.S 2 V) := by
  rw [integral_detJ_S2]
  have d := fun i j hi hj => dS Kind.S 2 3 2 _ dShape_S2 i j hi hj
  simp only [volQuadSigned, volRule, fact, List.range_succ, List.range_zero, List.nil_append, List.cons_append,
    List.foldl_cons, List.foldl_nil, List.flatMap_cons, List.flatMap_nil, List.map_cons, List.map_nil, List.append_nil,
    List.replicate, detJPoly, jacPoly, numVerts, Nat.reducePow, Poly.sum, List.foldr_cons, List.foldr_nil,
    d 0 0 (by omega) (by omega), d 0 1 (by omega) (by omega), d 1 0 (by omega) (by omega), d 1 1 (by omega) (by omega), d 2 0 (by omega) (by omega), d 2 1 (by omega) (by omega), List.getD_cons_zero, List.getD_cons_succ]
  simp only [smul, add, mul, List.map_cons, List.map_nil, List.flatMap_cons, List.flatMap_nil, List.cons_append,
    List.nil_append, List.append_nil, monoMul, evalAt, eval, monoEval, rpow, pt, List.getD_cons_zero,
    List.getD_cons_succ, signedVolume]
  norm_num
  ring

theorem quad_exact_H1 (V : List (List Rat)) :
    volQuadSigned Kind.H 1 V = integrateRef Kind.H 1 (detJPoly Kind.H 1 V) := by
  rw [integral_detJ_H1]
  have d := fun i j hi hj => dS Kind.H 1 2 1 _ dShape_H1 i j hi hj
  simp only [volQuadSigned, volRule, fact, List.range_succ, List.range_zero, List.nil_append, List.cons_append,
    List.foldl_cons, List.foldl_nil, List.flatMap_cons, List.flatMap_nil, List.map_cons, List.map_nil, List.append_nil,
    List.replicate, detJPoly, jacPoly, numVerts, Nat.reducePow, Poly.sum, List.foldr_cons, List.foldr_nil,
    d 0 0 (by omega) (by omega), d 1 0 (by omega) (by omega), List.getD_cons_zero, List.getD_cons_succ]
  simp only [smul, add, mul, List.map_cons, List.map_nil, List.flatMap_cons, List.flatMap_nil, List.cons_append,
    List.nil_append, List.append_nil, monoMul, evalAt, eval, monoEval, rpow, pt, List.getD_cons_zero,
    List.getD_cons_succ, signedVolume]
  norm_num
  ring

theorem quad_exact_H2 (V : List (List Rat)) :
    volQuadSigned Kind.H 2 V = integrateRef Kind.H 2 (detJPoly Kind.H 2 V) := by
  rw [integral_detJ_H2]
  have d := fun i j hi hj => dS Kind.H 2 4 2 _ dShape_H2 i j hi hj
  simp only [volQuadSigned, volRule, fact, List.range_succ, List.range_zero, List.nil_append, List.cons_append,
    List.foldl_cons, List.foldl_nil, List.flatMap_cons, List.flatMap_nil, List.map_cons, List.map_nil, List.append_nil,
    List.replicate, detJPoly, jacPoly, numVerts, Nat.reducePow, Poly.sum, List.foldr_cons, List.foldr_nil,
    d 0 0 (by omega) (by omega), d 0 1 (by omega) (by omega), d 1 0 (by omega) (by omega), d 1 1 (by omega) (by omega), d 2 0 (by omega) (by omega), d 2 1 (by omega) (by omega), d 3 0 (by omega) (by omega), d 3 1 (by omega) (by omega), List.getD_cons_zero, List.getD_cons_succ]
  simp only [smul, add, mul, List.map_cons, List.map_nil, List.flatMap_cons, List.flatMap_nil, List.cons_append,
    List.nil_append, List.append_nil, monoMul, evalAt, eval, monoEval, rpow, pt, List.getD_cons_zero,
    List.getD_cons_succ, signedVolume]
  norm_num
  ring

theorem quad_exact_S3 (V : List (List Rat)) :
    volQuadSigned Kind.S 3 V = integrateRef Kind.S 3 (detJPoly Kind.S 3 V) := by
  rw [integral_detJ_S3]
  have d := fun i j hi hj => dS Kind.S 3 4 3 _ dShape_S3 i j hi hj
  simp only [volQuadSigned, volRule, fact, List.range_succ, List.range_zero, List.nil_append, List.cons_append,
    List.foldl_cons, List.foldl_nil, List.flatMap_cons, List.flatMap_nil, List.map_cons, List.map_nil, List.append_nil,
    List.replicate, detJPoly, jacPoly, numVerts, Nat.reducePow, Poly.sum, List.foldr_cons, List.foldr_nil,
    d 0 0 (by omega) (by omega), d 0 1 (by omega) (by omega), d 0 2 (by omega) (by omega), d 1 0 (by omega) (by omega), d 1 1 (by omega) (by omega), d 1 2 (by omega) (by omega), d 2 0 (by omega) (by omega), d 2 1 (by omega) (by omega), d 2 2 (by omega) (by omega), d 3 0 (by omega) (by omega), d 3 1 (by omega) (by omega), d 3 2 (by omega) (by omega), List.getD_cons_zero, List.getD_cons_succ]
  simp only [smul, add, mul, List.map_cons, List.map_nil, List.flatMap_cons, List.flatMap_nil, List.cons_append,
    List.nil_append, List.append_nil, monoMul, evalAt, eval, monoEval, rpow, pt, List.getD_cons_zero,
    List.getD_cons_succ, signedVolume]
  norm_num
  ring

theorem detJ_centre_S2 (V : List (List Rat)) :
    evalAt [0, 0] (detJPoly Kind.S 2 V) = 2 * signedVolume Kind.S 2 V := by
  have d := fun i j hi hj => dS Kind.S 2 3 2 _ dShape_S2 i j hi hj
  simp only [detJPoly, jacPoly, numVerts, Nat.reducePow, List.range_succ, List.range_zero, List.nil_append,
    List.cons_append, List.map_cons, List.map_nil, Poly.sum, List.foldr_cons, List.foldr_nil,
    d 0 0 (by omega) (by omega), d 0 1 (by omega) (by omega), d 1 0 (by omega) (by omega), d 1 1 (by omega) (by omega), d 2 0 (by omega) (by omega), d 2 1 (by omega) (by omega), List.getD_cons_zero, List.getD_cons_succ]
  simp only [smul, add, mul, List.map_cons, List.map_nil, List.flatMap_cons, List.flatMap_nil, List.cons_append,
    List.nil_append, List.append_nil, monoMul, evalAt, eval, monoEval, rpow, pt, List.getD_cons_zero,
    List.getD_cons_succ, signedVolume]
  norm_num
  ring

theorem detJ_centre_S3 (V : List (List Rat)) :
    evalAt [0, 0, 0] (detJPoly Kind.S 3 V) = 6 * signedVolume Kind.S 3 V := by
  have d := fun i j hi hj => dS Kind.S 3 4 3 _ dShape_S3 i j hi hj
  simp only [detJPoly, jacPoly, numVerts, Nat.reducePow, List.range_succ, List.range_zero, List.nil_append,
    List.cons_append, List.map_cons, List.map_nil, Poly.sum, List.foldr_cons, List.foldr_nil,
    d 0 0 (by omega) (by omega), d 0 1 (by omega) (by omega), d 0 2 (by omega) (by omega), d 1 0 (by omega) (by omega), d 1 1 (by omega) (by omega), d 1 2 (by omega) (by omega), d 2 0 (by omega) (by omega), d 2 1 (by omega) (by omega), d 2 2 (by omega) (by omega), d 3 0 (by omega) (by omega), d 3 1 (by omega) (by omega), d 3 2 (by omega) (by omega), List.getD_cons_zero, List.getD_cons_succ]
  simp only [smul, add, mul, List.map_cons, List.map_nil, List.flatMap_cons, List.flatMap_nil, List.cons_append,
    List.nil_append, List.append_nil, monoMul, evalAt, eval, monoEval, rpow, pt, List.getD_cons_zero,
    List.getD_cons_succ, signedVolume]
  norm_num
  ring

theorem detJ_centre_H2 (V : List (List Rat)) :
    evalAt [0, 0] (detJPoly Kind.H 2 V) = signedVolume Kind.H 2 V / 4 := by
  have d := fun i j hi hj => dS Kind.H 2 4 2 _ dShape_H2 i j hi hj
  simp only [detJPoly, jacPoly, numVerts, Nat.reducePow, List.range_succ, List.range_zero, List.nil_append,
    List.cons_append, List.map_cons, List.map_nil, Poly.sum, List.foldr_cons, List.foldr_nil,
    d 0 0 (by omega) (by omega), d 0 1 (by omega) (by omega), d 1 0 (by omega) (by omega), d 1 1 (by omega) (by omega), d 2 0 (by omega) (by omega), d 2 1 (by omega) (by omega), d 3 0 (by omega) (by omega), d 3 1 (by omega) (by omega), List.getD_cons_zero, List.getD_cons_succ]
  simp only [smul, add, mul, List.map_cons, List.map_nil, List.flatMap_cons, List.flatMap_nil, List.cons_append,
    List.nil_append, List.append_nil, monoMul, evalAt, eval, monoEval, rpow, pt, List.getD_cons_zero,
    List.getD_cons_succ, signedVolume]
  norm_num
  ring

theorem rabs_mul_pos (c q : Rat) (hc : 0 < c) : rabs (c * q) = c * rabs q := by
  unfold rabs
  by_cases h : q < 0
  · have : c * q < 0 := mul_neg_of_pos_of_neg hc h
    simp [h, this]
  · have : ¬ c * q < 0 := not_lt.mpr (mul_nonneg hc.le (not_lt.mp h))
    simp [h, this]

/-- `Evaluator::volume()` (the `vol` op) is the absolute value of the signed volume -/
theorem cellVolume_S2 (V : List (List Rat)) (hV : worldDim V = 2) :
    cellVolume Kind.S 2 V = rabs (signedVolume Kind.S 2 V) := by
  have h := detJPoly_eval Kind.S 2 (Or.inr (Or.inl rfl)) V hV [0, 0]
  rw [detJ_centre_S2] at h
  simp only [cellVolume, List.replicate, ← h, fact]
  rw [rabs_mul_pos 2 _ (by norm_num)]
  norm_num

theorem cellVolume_S3 (V : List (List Rat)) (hV : worldDim V = 3) :
    cellVolume Kind.S 3 V = rabs (signedVolume Kind.S 3 V) := by
  have h := detJPoly_eval Kind.S 3 (Or.inr (Or.inr rfl)) V hV [0, 0, 0]
  rw [detJ_centre_S3] at h
  simp only [cellVolume, List.replicate, ← h, fact]
  rw [rabs_mul_pos 6 _ (by norm_num)]
  norm_num

theorem cellVolume_H2 (V : List (List Rat)) (hV : worldDim V = 2) :
    cellVolume Kind.H 2 V = rabs (signedVolume Kind.H 2 V) := by
  have h := detJPoly_eval Kind.H 2 (Or.inr (Or.inl rfl)) V hV [0, 0]
  rw [detJ_centre_H2] at h
  simp only [cellVolume, ← h]
  have : signedVolume Kind.H 2 V / 4 = (1 / 4 : Rat) * signedVolume Kind.H 2 V := by ring
  rw [this, rabs_mul_pos (1 / 4) _ (by norm_num)]
  ring

end FeatModel.FE
