import FeatModel.Lemmas.C10Lift2De
/-! C10 — global 2-D lift, last clause, part 2: rows generated for cells are determined by their vertex sets. -/
namespace FeatModel.Refine
open FeatModel.Gen.Refine

def ctrT : Term := ⟨2, 1, none, .const 0⟩
def edgeV (e : Nat) : Term := ⟨1, 1, some (2, 1, e), .const 0⟩

/-- table facts about the vertex rows `(2,c,0)`, `c = 1, 2` -/
theorem vrows_facts (kind : Kind) : ∀ c < 3, 1 ≤ c →
    ((indexTable kind 2 c 0).all fun r => (indexTable kind 2 c 0).all fun r' => !sameTerms r r' || r == r') = true ∧
    (kind = .hypercube → ((indexTable kind 2 c 0).all fun r => r.contains ctrT) = true) ∧
    (kind = .simplex → ((indexTable kind 2 c 0).all fun r =>
      (List.range 3).any fun e1 => (List.range 3).any fun e2 =>
        e1 != e2 && r.contains (edgeV e1) && r.contains (edgeV e2)) = true) := by
  cases kind <;> decide

theorem fim_cover_tria : ∀ e1 < 3, ∀ e2 < 3, e1 ≠ e2 → ∀ j < 3,
    (((faceIndexMap .simplex 2 1 0).getD e1 []).contains j || ((faceIndexMap .simplex 2 1 0).getD e2 []).contains j) = true := by
  decide

/-- value of an admissible vertex term -/
theorem vterm_val (M : Mesh) (h : Inv2 M) (i : Nat) (hi : i < M.num 2) (t : Term) (ht : vtermOk M.kind t = true) :
    (evalTerm M 2 0 i t < M.num 0) ∨
    (∃ e, e < faceCount M.kind 2 1 ∧ t = edgeV e ∧ evalTerm M 2 0 i t = M.num 0 + M.entry 2 1 i e ∧
      M.entry 2 1 i e < M.num 1) ∨
    (t = ctrT ∧ evalTerm M 2 0 i t = M.num 0 + M.num 1 + i) := by
  obtain ⟨o00, o01, o02, o11, o12, o22⟩ := off2 M.kind M.nums
  obtain ⟨off, mult, src, add⟩ := t
  simp only [vtermOk, Bool.and_eq_true, beq_iff_eq] at ht
  obtain ⟨⟨rfl, rfl⟩, hs⟩ := ht
  cases src with
  | none =>
    simp only [beq_iff_eq] at hs; subst hs
    right; right
    exact ⟨rfl, by simp [evalTerm, evalSrc, evalAdd, o02, Mesh.num]⟩
  | some p =>
    obtain ⟨a, b, j⟩ := p
    simp only [Bool.and_eq_true, Bool.or_eq_true, beq_iff_eq, decide_eq_true_eq] at hs
    obtain ⟨rfl, hs⟩ := hs
    rcases hs with ⟨⟨rfl, rfl⟩, hj⟩ | ⟨⟨rfl, rfl⟩, hj⟩
    · left
      have := (shape_facts M h.toOk2 2 0 (by omega) (by omega) (by omega) i hi).2 j hj
      simpa [evalTerm, evalSrc, evalAdd, o00] using this
    · right; left
      have := (shape_facts M h.toOk2 2 1 (by omega) (by omega) (by omega) i hi).2 j hj
      exact ⟨j, hj, rfl, by simp [evalTerm, evalSrc, evalAdd, o01, Mesh.num], this⟩

theorem cell_key_inj (M : Mesh) (h : Inv2 M) (hdis : M.distinctOk = true) (i i' : Nat) (hi : i < M.num 2)
    (hi' : i' < M.num 2) (hk : setKey (M.num 0) (M.tuple 2 0 i) = setKey (M.num 0) (M.tuple 2 0 i')) : i = i' := by
  unfold Mesh.distinctOk at hdis
  rw [List.all_eq_true] at hdis
  have := hdis 2 (by rw [List.mem_range'_1, h.dim]; omega)
  rw [Bool.and_eq_true] at this
  have hnd := (allDistinct_iff _).1 this.2
  have hlen := ((shapeOk_iff M).1 h.shape 2 (by omega) (by rw [h.dim]; omega) 0 (by omega)).1
  have hl : ((M.idx 2 0).map (setKey (M.num 0))).length = M.num 2 := by rw [List.length_map, hlen]
  have e : ∀ k, k < M.num 2 → ((M.idx 2 0).map (setKey (M.num 0))).getD k 0 = setKey (M.num 0) (M.tuple 2 0 k) := by
    intro k hk
    unfold Mesh.tuple
    simp [List.getD_eq_getElem?_getD, List.getElem?_eq_getElem (show k < (M.idx 2 0).length by omega)]
  exact (List.getD_inj (fallback := 0) (by omega) (by omega) hnd).1 (by rw [e i hi, e i' hi', hk])

theorem tuple_entries (M : Mesh) (c f i : Nat) (x : Nat) (hx : x ∈ M.tuple c f i) :
    ∃ j, j < (M.tuple c f i).length ∧ M.entry c f i j = x := mem_tuple_entry _ _ hx

theorem entry_mem_tuple (M : Mesh) (c f i j : Nat) (hj : j < (M.tuple c f i).length) :
    M.entry c f i j ∈ M.tuple c f i := getD_mem_self hj

/-- triangles: a cell sharing two different edges of cell `i` contains all vertices of `i` -/
theorem shared_edges_subset (M : Mesh) (h : Inv2 M) (hk : M.kind = .simplex) (i i' e1 e2 e1' e2' : Nat)
    (hi : i < M.num 2) (hi' : i' < M.num 2) (he1 : e1 < 3) (he2 : e2 < 3) (he1' : e1' < 3) (he2' : e2' < 3)
    (hne : e1 ≠ e2) (h1 : M.entry 2 1 i e1 = M.entry 2 1 i' e1') (h2 : M.entry 2 1 i e2 = M.entry 2 1 i' e2') :
    ∀ x ∈ M.tuple 2 0 i, x ∈ M.tuple 2 0 i' := by
  have hc := h.conf
  have fc1 : faceCount M.kind 2 1 = 3 := by rw [hk]; rfl
  have fc0 : faceCount M.kind 2 0 = 3 := by rw [hk]; rfl
  have hl := (shape_facts M h.toOk2 2 0 (by omega) (by omega) (by omega) i hi).1
  have hl' := (shape_facts M h.toOk2 2 0 (by omega) (by omega) (by omega) i' hi').1
  rw [fc0] at hl hl'
  -- vertices of local edge e of i lie in any cell i' that has the same edge as its local edge e'
  have key : ∀ e e', e < 3 → e' < 3 → M.entry 2 1 i e = M.entry 2 1 i' e' →
      ∀ b, b < 2 → M.entry 2 0 i (((faceIndexMap M.kind 2 1 0).getD e []).getD b 0) ∈ M.tuple 2 0 i' := by
    intro e e' he he' heq b hb
    have f1 := hc.faces i hi e (by omega)
    have f2 := hc.faces i' hi' e' (by omega)
    rw [← heq] at f2
    have f3 := sameSet_trans (sameSet_symm f1) f2
    rw [localFace_pair M i e (by omega), localFace_pair M i' e' (by omega), sameSet_iff] at f3
    have hmem := f3.1 (M.entry 2 0 i (((faceIndexMap M.kind 2 1 0).getD e []).getD b 0)) (by
      have : b = 0 ∨ b = 1 := by omega
      rcases this with rfl | rfl <;> simp)
    simp only [List.mem_cons, List.not_mem_nil, or_false] at hmem
    rcases hmem with hm | hm
    · rw [hm]; apply entry_mem_tuple; rw [hl']
      have := fim2_lt M.kind e' (by omega) 0 (by omega); omega
    · rw [hm]; apply entry_mem_tuple; rw [hl']
      have := fim2_lt M.kind e' (by omega) 1 (by omega); omega
  intro x hx
  obtain ⟨j, hj, rfl⟩ := tuple_entries M 2 0 i x hx
  rw [hl] at hj
  have hcov := fim_cover_tria e1 he1 e2 he2 hne j hj
  rw [← hk] at hcov
  rw [Bool.or_eq_true, List.contains_iff_mem, List.contains_iff_mem] at hcov
  rcases hcov with hj1 | hj2
  · obtain ⟨b, hb, hbj⟩ := mem_tuple_entry _ _ hj1
    rw [fim2_len M.kind e1 (by omega)] at hb
    rw [← hbj]
    exact key e1 e1' he1 he1' h1 b hb
  · obtain ⟨b, hb, hbj⟩ := mem_tuple_entry _ _ hj2
    rw [fim2_len M.kind e2 (by omega)] at hb
    rw [← hbj]
    exact key e2 e2' he2 he2' h2 b hb


theorem vrow_terms_ok (kind : Kind) (c : Nat) (hc1 : 1 ≤ c) (hc : c < 3) (r : List Term)
    (hr : r ∈ indexTable kind 2 c 0) : ∀ t ∈ r, vtermOk kind t = true := by
  have htab := vrows_table kind c hc hc1
  rw [List.all_eq_true] at htab
  have := htab r hr
  rw [Bool.and_eq_true, List.all_eq_true] at this
  exact this.1

/-- an edge midpoint of cell `i` occurring in a row of cell `i'` is the midpoint of an edge of `i'` -/
theorem edge_value_in_row (M : Mesh) (h : Inv2 M) (i i' e : Nat) (hi : i < M.num 2) (hi' : i' < M.num 2)
    (he : e < faceCount M.kind 2 1) (r' : List Term) (hok : ∀ t ∈ r', vtermOk M.kind t = true)
    (hmem : evalTerm M 2 0 i (edgeV e) ∈ r'.map (evalTerm M 2 0 i')) :
    ∃ e', e' < faceCount M.kind 2 1 ∧ M.entry 2 1 i e = M.entry 2 1 i' e' := by
  obtain ⟨t', ht', hv⟩ := List.mem_map.1 hmem
  have hval : evalTerm M 2 0 i (edgeV e) = M.num 0 + M.entry 2 1 i e := by
    obtain ⟨o00, o01, o02, o11, o12, o22⟩ := off2 M.kind M.nums
    simp [edgeV, evalTerm, evalSrc, evalAdd, o01, Mesh.num]
  have hb := (shape_facts M h.toOk2 2 1 (by omega) (by omega) (by omega) i hi).2 e he
  rcases vterm_val M h i' hi' t' (hok t' ht') with hlt | ⟨e', he', _, hv', _⟩ | ⟨_, hv'⟩
  · omega
  · exact ⟨e', he', by omega⟩
  · omega

theorem rows2_inj (M : Mesh) (h : Inv2 M) (hdis : M.distinctOk = true) (c : Nat) (hc1 : 1 ≤ c) (hc : c < 3)
    (i i' : Nat) (hi : i < M.num 2) (hi' : i' < M.num 2) (r r' : List Term)
    (hr : r ∈ indexTable M.kind 2 c 0) (hr' : r' ∈ indexTable M.kind 2 c 0)
    (hs : sameSet (r.map (evalTerm M 2 0 i)) (r'.map (evalTerm M 2 0 i')) = true) : i = i' ∧ r = r' := by
  have hok := vrow_terms_ok M.kind c hc1 hc r hr
  have hok' := vrow_terms_ok M.kind c hc1 hc r' hr'
  obtain ⟨T1, T2, T3⟩ := vrows_facts M.kind c hc hc1
  rw [sameSet_iff] at hs
  have hii : i = i' := by
    cases hk : M.kind with
    | hypercube =>
      have t2 := T2 hk
      rw [List.all_eq_true] at t2
      have hctr : ctrT ∈ r := by simpa using t2 r hr
      have hm := hs.1 _ (List.mem_map.2 ⟨ctrT, hctr, rfl⟩)
      obtain ⟨t', ht', hv⟩ := List.mem_map.1 hm
      have hval : evalTerm M 2 0 i ctrT = M.num 0 + M.num 1 + i := by
        obtain ⟨o00, o01, o02, o11, o12, o22⟩ := off2 M.kind M.nums
        simp [ctrT, evalTerm, evalSrc, evalAdd, o02, Mesh.num]
      rcases vterm_val M h i' hi' t' (hok' t' ht') with hlt | ⟨e', he', _, hv', hb⟩ | ⟨_, hv'⟩ <;> omega
    | simplex =>
      have t3 := T3 hk
      rw [List.all_eq_true] at t3
      have := t3 r hr
      simp only [List.any_eq_true, List.mem_range, Bool.and_eq_true, bne_iff_ne, ne_eq,
        List.contains_iff_mem] at this
      obtain ⟨e1, he1, e2, he2, ⟨hne, hm1⟩, hm2⟩ := this
      have fc1 : faceCount M.kind 2 1 = 3 := by rw [hk]; rfl
      obtain ⟨e1', he1', q1⟩ := edge_value_in_row M h i i' e1 hi hi' (by omega) r' hok'
        (hs.1 _ (List.mem_map.2 ⟨_, hm1, rfl⟩))
      obtain ⟨e2', he2', q2⟩ := edge_value_in_row M h i i' e2 hi hi' (by omega) r' hok'
        (hs.1 _ (List.mem_map.2 ⟨_, hm2, rfl⟩))
      rw [fc1] at he1' he2'
      have hne' : e1' ≠ e2' := by
        intro heq
        subst heq
        exact hne (cell_edge_inj M h i e1 e2 hi (by omega) (by omega) (q1.trans q2.symm))
      have s1 := shared_edges_subset M h hk i i' e1 e2 e1' e2' hi hi' he1 he2 he1' he2' hne q1 q2
      have s2 := shared_edges_subset M h hk i' i e1' e2' e1 e2 hi' hi he1' he2' he1 he2 hne' q1.symm q2.symm
      have hlen2 := ((shapeOk_iff M).1 h.shape 2 (by omega) (by rw [h.dim]; omega) 0 (by omega)).1
      have n1 := h.nodup 2 (by omega) (by rw [h.dim]; omega) _ (tuple_mem_idx M 2 0 i (by omega))
      have n2 := h.nodup 2 (by omega) (by rw [h.dim]; omega) _ (tuple_mem_idx M 2 0 i' (by omega))
      exact cell_key_inj M h hdis i i' hi hi'
        (setKey_of_sameSet _ _ _ n1 n2 ((sameSet_iff _ _).2 ⟨s1, s2⟩))
  subst hii
  refine ⟨rfl, ?_⟩
  have sub : ∀ a b : List Term, (∀ t ∈ a, vtermOk M.kind t = true) → (∀ t ∈ b, vtermOk M.kind t = true) →
      (∀ x ∈ a.map (evalTerm M 2 0 i), x ∈ b.map (evalTerm M 2 0 i)) → ∀ t ∈ a, t ∈ b := by
    intro a b ha hb hsub t ht
    obtain ⟨t', ht', hv⟩ := List.mem_map.1 (hsub _ (List.mem_map.2 ⟨t, ht, rfl⟩))
    have := vterm_inj M h i hi t' t (hb t' ht') (ha t ht) hv
    rw [← this]; exact ht'
  have hst : sameTerms r r' = true := by
    simp only [sameTerms, Bool.and_eq_true, List.all_eq_true, List.contains_iff_mem]
    exact ⟨sub r r' hok hok' hs.1, sub r' r hok' hok hs.2⟩
  rw [List.all_eq_true] at T1
  have := T1 r hr
  rw [List.all_eq_true] at this
  have := this r' hr'
  simpa [hst] using this

theorem inner_rows_no_vertex (kind : Kind) :
    ((indexTable kind 2 1 0).all fun r => r.all fun t => t.off != 0) = true := by
  cases kind <;> decide

/-- values of the two rows generated for coarse edge `E` -/
theorem edge_rows (M : Mesh) (E : Nat) (r : List Term) (hr : r ∈ indexTable M.kind 1 1 0) :
    (r = (indexTable M.kind 1 1 0).getD 0 [] ∧ r.map (evalTerm M 1 0 E) = [M.entry 1 0 E 0, M.num 0 + E]) ∨
    (r = (indexTable M.kind 1 1 0).getD 1 [] ∧ r.map (evalTerm M 1 0 E) = [M.num 0 + E, M.entry 1 0 E 1]) := by
  obtain ⟨o00, o01, o02, o11, o12, o22⟩ := off2 M.kind M.nums
  rw [edgeTable] at hr ⊢
  simp only [List.mem_cons, List.not_mem_nil, or_false] at hr
  rcases hr with rfl | rfl
  · left; exact ⟨rfl, by simp [evalTerm, evalSrc, evalAdd, o00, o01, Mesh.num]⟩
  · right; exact ⟨rfl, by simp [evalTerm, evalSrc, evalAdd, o00, o01, Mesh.num]⟩

theorem rows1_inj (M : Mesh) (h : Inv2 M) (E E' : Nat) (hE : E < M.num 1) (hE' : E' < M.num 1) (r r' : List Term)
    (hr : r ∈ indexTable M.kind 1 1 0) (hr' : r' ∈ indexTable M.kind 1 1 0)
    (hs : sameSet (r.map (evalTerm M 1 0 E)) (r'.map (evalTerm M 1 0 E')) = true) : E = E' ∧ r = r' := by
  have hv : ∀ F, F < M.num 1 → ∀ j, j < 2 → M.entry 1 0 F j < M.num 0 := by
    intro F hF j hj
    exact (shape_facts M h.toOk2 1 0 (by omega) (by omega) (by omega) F hF).2 j
      (by rw [(rc2 M.kind).2.2.2.1]; exact hj)
  have a0 := hv E hE 0 (by omega); have a1 := hv E hE 1 (by omega)
  have b0 := hv E' hE' 0 (by omega); have b1 := hv E' hE' 1 (by omega)
  have hne := h.conf.edgeNodup E hE
  rw [sameSet_iff] at hs
  rcases edge_rows M E r hr with ⟨rfl, e1⟩ | ⟨rfl, e1⟩ <;>
    rcases edge_rows M E' r' hr' with ⟨rfl, e2⟩ | ⟨rfl, e2⟩ <;>
    rw [e1, e2] at hs <;>
    simp only [List.mem_cons, List.not_mem_nil, or_false, forall_eq_or_imp, forall_eq] at hs <;>
    obtain ⟨⟨h1, h2⟩, h3, h4⟩ := hs
  · have : E = E' := by omega
    exact ⟨this, rfl⟩
  · have : E = E' := by omega
    subst this
    exfalso; omega
  · have : E = E' := by omega
    subst this
    exfalso; omega
  · have : E = E' := by omega
    exact ⟨this, rfl⟩

theorem rows12_disjoint (M : Mesh) (h : Inv2 M) (E i : Nat) (hE : E < M.num 1) (hi : i < M.num 2)
    (r r' : List Term) (hr : r ∈ indexTable M.kind 1 1 0) (hr' : r' ∈ indexTable M.kind 2 1 0)
    (hs : sameSet (r.map (evalTerm M 1 0 E)) (r'.map (evalTerm M 2 0 i)) = true) : False := by
  have hok' := vrow_terms_ok M.kind 1 (by omega) (by omega) r' hr'
  have hnov := inner_rows_no_vertex M.kind
  rw [List.all_eq_true] at hnov
  have hnov' := hnov r' hr'
  rw [List.all_eq_true] at hnov'
  have hv : ∀ j, j < 2 → M.entry 1 0 E j < M.num 0 := by
    intro j hj
    exact (shape_facts M h.toOk2 1 0 (by omega) (by omega) (by omega) E hE).2 j
      (by rw [(rc2 M.kind).2.2.2.1]; exact hj)
  rw [sameSet_iff] at hs
  -- the coarse vertex of the edge child would have to be a value of the inner row
  have big : ∀ x, x < M.num 0 → x ∈ r'.map (evalTerm M 2 0 i) → False := by
    intro x hx hmem
    obtain ⟨t', ht', hvv⟩ := List.mem_map.1 hmem
    have hoff := hnov' t' ht'
    rcases vterm_val M h i hi t' (hok' t' ht') with hlt | ⟨e', _, _, hv', _⟩ | ⟨_, hv'⟩
    · -- a value < nv needs a vertex term, which inner rows do not have
      obtain ⟨off, mult, src, add⟩ := t'
      have hk := hok' _ ht'
      simp only [vtermOk, Bool.and_eq_true, beq_iff_eq] at hk
      obtain ⟨⟨rfl, rfl⟩, hsrc⟩ := hk
      obtain ⟨o00, o01, o02, o11, o12, o22⟩ := off2 M.kind M.nums
      cases src with
      | none =>
        simp only [beq_iff_eq] at hsrc; subst hsrc
        simp [evalTerm, evalSrc, evalAdd, o02, Mesh.num] at hlt
        omega
      | some p =>
        obtain ⟨a, b, j⟩ := p
        simp only [Bool.and_eq_true, Bool.or_eq_true, beq_iff_eq, decide_eq_true_eq] at hsrc
        obtain ⟨rfl, hsrc⟩ := hsrc
        rcases hsrc with ⟨⟨rfl, rfl⟩, hj⟩ | ⟨⟨rfl, rfl⟩, hj⟩
        · simp at hoff
        · simp [evalTerm, evalSrc, evalAdd, o01, Mesh.num] at hlt
          omega
    · omega
    · omega
  rcases edge_rows M E r hr with ⟨rfl, e1⟩ | ⟨rfl, e1⟩ <;> rw [e1] at hs
  · exact big _ (hv 0 (by omega)) (hs.1 _ (by simp))
  · exact big _ (hv 1 (by omega)) (hs.1 _ (by simp))


end FeatModel.Refine
