import FeatModel.Lemmas.C06Mat
import FeatModel.Lemmas.C06Slip
import FeatModel.Lemmas.C02Convert
/-! helper lemmas for the C06 theorems about the matrix members of `UnitFilterBlocked` on `SparseMatrixBCSR`:
the three nested loops (entries, blocks of the row, block rows) read position-wise -/
namespace FeatModel.LA.Filter
open FeatModel.LA C02L.Conv

section Generic
variable {α β : Type}

/-- a loop whose steps act on position `q` through a function of the old value only -/
theorem foldl_pointwise (g : Array α → β → Array α) (q : Nat) (d : α) (φ : β → α → α)
    (hsz : ∀ v t, (g v t).size = v.size)
    (hstep : ∀ v t, q < v.size → (g v t).getD q d = φ t (v.getD q d)) :
    ∀ (l : List β) (v : Array α), q < v.size →
      (l.foldl g v).getD q d = l.foldl (fun x t => φ t x) (v.getD q d) ∧ (l.foldl g v).size = v.size
  | [], _, _ => ⟨rfl, rfl⟩
  | t :: l, v, hq => by
    have := foldl_pointwise g q d φ hsz hstep l (g v t) (by rw [hsz]; exact hq)
    simp only [List.foldl_cons]
    rw [this.1, this.2, hstep v t hq, hsz]
    exact ⟨rfl, rfl⟩

theorem foldl_size_of (g : Array α → β → Array α) (hsz : ∀ v t, (g v t).size = v.size) :
    ∀ (l : List β) (v : Array α), (l.foldl g v).size = v.size
  | [], _ => rfl
  | t :: l, v => by simp only [List.foldl_cons]; rw [foldl_size_of g hsz l, hsz]

theorem foldl_fun_none (ψ : β → α → α) : ∀ (l : List β) (x : α), (∀ t ∈ l, ∀ y, ψ t y = y) →
    l.foldl (fun x t => ψ t x) x = x
  | [], _, _ => rfl
  | t :: l, x, h => by
    simp only [List.foldl_cons]
    rw [h t List.mem_cons_self, foldl_fun_none ψ l x (fun t' ht' => h t' (List.mem_cons_of_mem _ ht'))]

theorem foldl_fun_one (ψ : β → α → α) (t0 : β) : ∀ (l : List β) (x : α), l.Nodup → t0 ∈ l →
    (∀ t ∈ l, t ≠ t0 → ∀ y, ψ t y = y) → l.foldl (fun x t => ψ t x) x = ψ t0 x
  | [], _, _, h0, _ => by simp at h0
  | t :: l, x, hn, h0, h => by
    simp only [List.foldl_cons]
    rw [List.nodup_cons] at hn
    by_cases ht : t = t0
    · subst ht
      exact foldl_fun_none ψ l _ (fun t' ht' => h t' (List.mem_cons_of_mem _ ht') (fun heq => hn.1 (heq ▸ ht')))
    · rw [h t List.mem_cons_self ht]
      have h0' : t0 ∈ l := by
        rcases List.mem_cons.mp h0 with hh | hh
        · exact absurd hh.symm ht
        · exact hh
      exact foldl_fun_one ψ t0 l x hn.2 h0' (fun t' ht' => h t' (List.mem_cons_of_mem _ ht'))

end Generic

section Cells
/-- the position segments of different (block, block row) pairs are disjoint -/
theorem cell_disjoint (bh bw j k j0 k0 l0 : Nat) (hk : k < bh) (hk0 : k0 < bh) (hl0 : l0 < bw)
    (hne : ¬ (j = j0 ∧ k = k0)) :
    ¬ ((j * bh + k) * bw ≤ (j0 * bh + k0) * bw + l0 ∧ (j0 * bh + k0) * bw + l0 < (j * bh + k) * bw + bw) := by
  have hcell : j0 * bh + k0 ≠ j * bh + k := by
    intro heq
    apply hne
    rcases Nat.lt_trichotomy j j0 with h | h | h
    · have := Nat.mul_le_mul_right bh (Nat.succ_le_of_lt h)
      rw [Nat.succ_mul] at this
      omega
    · subst h; exact ⟨rfl, by omega⟩
    · have := Nat.mul_le_mul_right bh (Nat.succ_le_of_lt h)
      rw [Nat.succ_mul] at this
      omega
  have := block_disjoint bw (j * bh + k) (j0 * bh + k0) l0 hcell hl0
  rw [Nat.mul_comm bw, Nat.mul_comm bw] at this
  exact this
end Cells

section Loops
variable {α : Type} [Zero α]

theorem bcsr_rows_disjoint {A : Bcsr α} (W : BcsrWF A) {i i' : Nat} (hi : i < A.rows) (hi' : i' < A.rows) (hne : i' ≠ i)
    {j : Nat} (hj : A.rowPtr.getD i 0 ≤ j ∧ j < A.rowPtr.getD (i + 1) 0) :
    ¬ (A.rowPtr.getD i' 0 ≤ j ∧ j < A.rowPtr.getD (i' + 1) 0) := by
  rcases Nat.lt_or_gt_of_ne hne with hlt | hgt
  · have := bcsr_rowPtr_mono W i (i' + 1) (by omega) (by omega)
    omega
  · have := bcsr_rowPtr_mono W i' (i + 1) (by omega) (by omega)
    omega

theorem size_rewriteBlocks (A : Bcsr α) (es : List (Nat × List α))
    (body : Nat × List α → Nat → Nat → Array α → Array α) (hsz : ∀ e j k v, (body e j k v).size = v.size)
    (v : Array α) : (UnitBF.rewriteBlocks A es body v).size = v.size := by
  unfold UnitBF.rewriteBlocks foldRange
  apply foldl_size_of
  intro v e
  apply foldl_size_of
  intro v j
  apply foldl_size_of
  intro v k
  exact hsz e j k v

/-- the three nested loops, read at one position `q` of cell `(j0, k0)` (block `j0` of block row `i0`, block-row
    component `k0`): only the step `(e, j0, k0)` of the entry `e` for block row `i0` acts on it -/
theorem getD_rewriteBlocks {A : Bcsr α} (W : BcsrWF A) (es : List (Nat × List α)) (hn : (es.map Prod.fst).Nodup)
    (hes : ∀ e ∈ es, e.1 < A.rows) (body : Nat × List α → Nat → Nat → Array α → Array α)
    (φ : Nat × List α → Nat → Nat → α → α) (q : Nat)
    (hsz : ∀ e j k v, (body e j k v).size = v.size)
    (hbody : ∀ e j k (v : Array α), q < v.size → (body e j k v).getD q 0 = φ e j k (v.getD q 0))
    (j0 k0 : Nat) (hk0 : k0 < A.bh)
    (hloc : ∀ e j k, k < A.bh → ¬ (j = j0 ∧ k = k0) → ∀ y, φ e j k y = y)
    (i0 : Nat) (hi0 : i0 < A.rows) (hj0 : A.rowPtr.getD i0 0 ≤ j0 ∧ j0 < A.rowPtr.getD (i0 + 1) 0)
    (v : Array α) (hq : q < v.size) :
    (∀ e0 ∈ es, e0.1 = i0 → (UnitBF.rewriteBlocks A es body v).getD q 0 = φ e0 j0 k0 (v.getD q 0)) ∧
    ((∀ e ∈ es, e.1 ≠ i0) → (UnitBF.rewriteBlocks A es body v).getD q 0 = v.getD q 0) := by
  -- level k
  have hK : ∀ e j (v : Array α), q < v.size →
      (foldRange 0 A.bh (fun v k => body e j k v) v).getD q 0 =
        (if j = j0 then φ e j0 k0 (v.getD q 0) else v.getD q 0) ∧
      (foldRange 0 A.bh (fun v k => body e j k v) v).size = v.size := by
    intro e j v hv
    unfold foldRange
    have := foldl_pointwise (fun v k => body e j k v) q 0 (fun k => φ e j k) (fun v k => hsz e j k v)
      (fun v k hv => hbody e j k v hv) (List.range' 0 (A.bh - 0)) v hv
    refine ⟨?_, this.2⟩
    rw [this.1]
    by_cases hj : j = j0
    · subst hj
      rw [if_pos rfl]
      apply foldl_fun_one (fun k => φ e j k) k0 _ _ (List.nodup_range' 1)
      · rw [List.mem_range'_1]; omega
      · intro k hk hne y
        rw [List.mem_range'_1] at hk
        exact hloc e j k (by omega) (fun hh => hne hh.2) y
    · rw [if_neg hj]
      apply foldl_fun_none
      intro k hk y
      rw [List.mem_range'_1] at hk
      exact hloc e j k (by omega) (fun hh => hj hh.1) y
  -- level j
  have hJ : ∀ e (v : Array α), e.1 < A.rows → q < v.size →
      (foldRange (A.rowPtr.getD e.1 0) (A.rowPtr.getD (e.1 + 1) 0)
          (fun v j => foldRange 0 A.bh (fun v k => body e j k v) v) v).getD q 0 =
        (if e.1 = i0 then φ e j0 k0 (v.getD q 0) else v.getD q 0) ∧
      (foldRange (A.rowPtr.getD e.1 0) (A.rowPtr.getD (e.1 + 1) 0)
          (fun v j => foldRange 0 A.bh (fun v k => body e j k v) v) v).size = v.size := by
    intro e v he hv
    have hstep := foldl_pointwise (fun v j => foldRange 0 A.bh (fun v k => body e j k v) v) q 0
      (fun j x => if j = j0 then φ e j0 k0 x else x) (fun v j => by
        unfold foldRange; exact foldl_size_of _ (fun v k => hsz e j k v) _ v)
      (fun v j hv => (hK e j v hv).1)
      (List.range' (A.rowPtr.getD e.1 0) (A.rowPtr.getD (e.1 + 1) 0 - A.rowPtr.getD e.1 0)) v hv
    unfold foldRange at hstep ⊢
    refine ⟨?_, hstep.2⟩
    rw [hstep.1]
    by_cases hei : e.1 = i0
    · rw [if_pos hei]
      have := foldl_fun_one (fun j x => if j = j0 then φ e j0 k0 x else x) j0
        (List.range' (A.rowPtr.getD e.1 0) (A.rowPtr.getD (e.1 + 1) 0 - A.rowPtr.getD e.1 0)) (v.getD q 0)
        (List.nodup_range' 1) (by rw [List.mem_range'_1, hei]; omega)
        (fun j _ hne y => by simp [hne])
      rw [this]
      simp
    · rw [if_neg hei]
      apply foldl_fun_none
      intro j hj y
      rw [List.mem_range'_1] at hj
      have hd := bcsr_rows_disjoint W hi0 he hei hj0
      have : j ≠ j0 := by
        intro hh
        subst hh
        exact hd ⟨hj.1, by omega⟩
      simp [this]
  -- level e
  have hE := fun (l : List (Nat × List α)) (hl : ∀ e ∈ l, e.1 < A.rows) =>
    foldl_pointwise (β := {e : Nat × List α // e.1 < A.rows})
      (fun v e => foldRange (A.rowPtr.getD e.1.1 0) (A.rowPtr.getD (e.1.1 + 1) 0)
        (fun v j => foldRange 0 A.bh (fun v k => body e.1 j k v) v) v) q 0
      (fun e x => if e.1.1 = i0 then φ e.1 j0 k0 x else x)
      (fun v e => by
        unfold foldRange
        apply foldl_size_of; intro v j; apply foldl_size_of; intro v k; exact hsz e.1 j k v)
      (fun v e hv => (hJ e.1 v e.2 hv).1)
  have hattach : ∀ (l : List (Nat × List α)) (hl : ∀ e ∈ l, e.1 < A.rows) (v : Array α),
      UnitBF.rewriteBlocks A l body v =
        (l.attach.map fun e => (⟨e.1, hl e.1 e.2⟩ : {e : Nat × List α // e.1 < A.rows})).foldl
          (fun v e => foldRange (A.rowPtr.getD e.1.1 0) (A.rowPtr.getD (e.1.1 + 1) 0)
            (fun v j => foldRange 0 A.bh (fun v k => body e.1 j k v) v) v) v := by
    intro l hl v
    unfold UnitBF.rewriteBlocks
    rw [List.foldl_map, List.foldl_attach (l := l)
      (f := fun v e => foldRange (A.rowPtr.getD e.1 0) (A.rowPtr.getD (e.1 + 1) 0)
        (fun v j => foldRange 0 A.bh (fun v k => body e j k v) v) v)]
  have hfold := (hE es hes (es.attach.map fun e => (⟨e.1, hes e.1 e.2⟩ : {e : Nat × List α // e.1 < A.rows})) v hq).1
  rw [← hattach es hes v] at hfold
  rw [hfold, List.foldl_map, List.foldl_attach (l := es) (f := fun x e => if e.1 = i0 then φ e j0 k0 x else x)]
  constructor
  · intro e0 he0 hei
    have hnd : es.Nodup := List.Nodup.of_map Prod.fst hn
    have := foldl_fun_one (fun (e : Nat × List α) x => if e.1 = i0 then φ e j0 k0 x else x) e0 es (v.getD q 0) hnd he0
      (fun e he hne y => by
        have : e.1 ≠ i0 := by
          intro hh
          apply hne
          -- equal block rows in a list with pairwise different block rows
          have h1 : e.1 = e0.1 := by rw [hh, hei]
          exact (List.inj_on_of_nodup_map hn he he0 h1)
        simp [this])
    rw [this]
    simp [hei]
  · intro hfree
    apply foldl_fun_none
    intro e he y
    simp [hfree e he]

theorem getD_setIfInBounds (v : Array α) (i q : Nat) (a d : α) :
    (v.setIfInBounds i a).getD q d = if i = q ∧ q < v.size then a else v.getD q d := by
  simp only [Array.getD_eq_getD_getElem?, Array.getElem?_setIfInBounds]
  by_cases h : i = q
  · subst h
    by_cases hl : i < v.size
    · simp [hl]
    · have : v[i]? = none := by simp; omega
      simp [hl, this]
  · simp [h]

/-- a stored position of a well-formed BCSR matrix lies inside the value array -/
theorem pod_lt {A : Bcsr α} (W : BcsrWF A) {i j k l : Nat} (hi : i < A.rows)
    (hj : j < A.rowPtr.getD (i + 1) 0) (hk : k < A.bh) (hl : l < A.bw) : UnitBF.pod A j k l < A.val.size := by
  have hjc : j < A.colInd.size := Nat.lt_of_lt_of_le hj (bcsr_rowEnd_le W hi)
  unfold UnitBF.pod
  rw [W.valSize]
  have h1 := Nat.mul_le_mul_right A.bh (Nat.succ_le_of_lt hjc)
  rw [Nat.succ_mul] at h1
  have h2 : (j * A.bh + k + 1) * A.bw ≤ A.colInd.size * A.bh * A.bw := Nat.mul_le_mul_right A.bw (by omega)
  rw [Nat.succ_mul] at h2
  omega

end Loops

section Bodies
variable {α : Type} [Zero α] [One α] [Mul α]

/-- the loop body of `filter_mat` (one block row `k` of one block `j`) -/
def bodyMat (skip : α → Bool) (A : Bcsr α) (e : Nat × List α) (j k : Nat) (v : Array α) : Array α :=
  if skip (e.2.getD k 0) then v
  else
    let v := setRange (UnitBF.pod A j k 0) (UnitBF.pod A j k 0 + A.bw) (fun _ => 0) v
    if A.colInd.getD j 0 = e.1 ∧ k < A.bw then v.setIfInBounds (UnitBF.pod A j k k) 1 else v

def phiMat (skip : α → Bool) (A : Bcsr α) (q : Nat) (e : Nat × List α) (j k : Nat) (x : α) : α :=
  if skip (e.2.getD k 0) then x
  else if (A.colInd.getD j 0 = e.1 ∧ k < A.bw) ∧ UnitBF.pod A j k k = q then 1
  else if UnitBF.pod A j k 0 ≤ q ∧ q < UnitBF.pod A j k 0 + A.bw then 0 else x

theorem matVals_eq (skip : α → Bool) (A : Bcsr α) (es : List (Nat × List α)) :
    UnitBF.matVals skip A es = UnitBF.rewriteBlocks A es (bodyMat skip A) A.val := rfl

theorem size_bodyMat (skip : α → Bool) (A : Bcsr α) (e : Nat × List α) (j k : Nat) (v : Array α) :
    (bodyMat skip A e j k v).size = v.size := by
  unfold bodyMat
  split
  · rfl
  · simp only
    split <;> simp [size_setRange]

theorem getD_bodyMat (skip : α → Bool) (A : Bcsr α) (q : Nat) (e : Nat × List α) (j k : Nat) (v : Array α)
    (hq : q < v.size) : (bodyMat skip A e j k v).getD q 0 = phiMat skip A q e j k (v.getD q 0) := by
  unfold bodyMat phiMat
  by_cases hs : skip (e.2.getD k 0)
  · simp only [hs, if_true]
  · simp only [hs, Bool.false_eq_true, if_false]
    by_cases hd : A.colInd.getD j 0 = e.1 ∧ k < A.bw
    · simp only [hd, and_self, if_true, true_and]
      rw [getD_setIfInBounds, size_setRange, getD_setRange]
      by_cases hp : UnitBF.pod A j k k = q
      · rw [if_pos ⟨hp, hq⟩, if_pos hp]
      · rw [if_neg (fun hh => hp hh.1), if_neg hp]
        by_cases hseg : UnitBF.pod A j k 0 ≤ q ∧ q < UnitBF.pod A j k 0 + A.bw
        · rw [if_pos ⟨hseg.1, hseg.2, hq⟩, if_pos hseg]
        · rw [if_neg (fun hh => hseg ⟨hh.1, hh.2.1⟩), if_neg hseg]
    · simp only [hd, if_false, false_and]
      rw [getD_setRange]
      by_cases hseg : UnitBF.pod A j k 0 ≤ q ∧ q < UnitBF.pod A j k 0 + A.bw
      · rw [if_pos ⟨hseg.1, hseg.2, hq⟩, if_pos hseg]
      · rw [if_neg (fun hh => hseg ⟨hh.1, hh.2.1⟩), if_neg hseg]

/-- the loop body of `filter_offdiag_row_mat` -/
def bodyOff (skip : α → Bool) (A : Bcsr α) (e : Nat × List α) (j k : Nat) (v : Array α) : Array α :=
  if skip (e.2.getD k 0) then v
  else setRange (UnitBF.pod A j k 0) (UnitBF.pod A j k 0 + A.bw) (fun _ => 0) v

def phiOff (skip : α → Bool) (A : Bcsr α) (q : Nat) (e : Nat × List α) (j k : Nat) (x : α) : α :=
  if skip (e.2.getD k 0) then x
  else if UnitBF.pod A j k 0 ≤ q ∧ q < UnitBF.pod A j k 0 + A.bw then 0 else x

theorem offdiagVals_eq (skip : α → Bool) (A : Bcsr α) (es : List (Nat × List α)) :
    UnitBF.offdiagVals skip A es = UnitBF.rewriteBlocks A es (bodyOff skip A) A.val := rfl

theorem size_bodyOff (skip : α → Bool) (A : Bcsr α) (e : Nat × List α) (j k : Nat) (v : Array α) :
    (bodyOff skip A e j k v).size = v.size := by
  unfold bodyOff
  split <;> simp [size_setRange]

theorem getD_bodyOff (skip : α → Bool) (A : Bcsr α) (q : Nat) (e : Nat × List α) (j k : Nat) (v : Array α)
    (hq : q < v.size) : (bodyOff skip A e j k v).getD q 0 = phiOff skip A q e j k (v.getD q 0) := by
  unfold bodyOff phiOff
  by_cases hs : skip (e.2.getD k 0)
  · simp only [hs, if_true]
  · simp only [hs, Bool.false_eq_true, if_false]
    rw [getD_setRange]
    by_cases hseg : UnitBF.pod A j k 0 ≤ q ∧ q < UnitBF.pod A j k 0 + A.bw
    · rw [if_pos ⟨hseg.1, hseg.2, hq⟩, if_pos hseg]
    · rw [if_neg (fun hh => hseg ⟨hh.1, hh.2.1⟩), if_neg hseg]

/-- the loop body of `filter_weak_matrix_rows` -/
def bodyWeak (A : Bcsr α) (valM : Array α) (e : Nat × List α) (j k : Nat) (v : Array α) : Array α :=
  setRange (UnitBF.pod A j k 0) (UnitBF.pod A j k 0 + A.bw) (fun p => e.2.getD k 0 * valM.getD p 0) v

def phiWeak (A : Bcsr α) (valM : Array α) (q : Nat) (e : Nat × List α) (j k : Nat) (x : α) : α :=
  if UnitBF.pod A j k 0 ≤ q ∧ q < UnitBF.pod A j k 0 + A.bw then e.2.getD k 0 * valM.getD q 0 else x

theorem weakVals_eq (A : Bcsr α) (valM : Array α) (es : List (Nat × List α)) :
    UnitBF.weakVals A valM es = UnitBF.rewriteBlocks A es (bodyWeak A valM) A.val := rfl

theorem getD_bodyWeak (A : Bcsr α) (valM : Array α) (q : Nat) (e : Nat × List α) (j k : Nat) (v : Array α)
    (hq : q < v.size) : (bodyWeak A valM e j k v).getD q 0 = phiWeak A valM q e j k (v.getD q 0) := by
  unfold bodyWeak phiWeak
  rw [getD_setRange]
  by_cases hseg : UnitBF.pod A j k 0 ≤ q ∧ q < UnitBF.pod A j k 0 + A.bw
  · rw [if_pos ⟨hseg.1, hseg.2, hq⟩, if_pos hseg]
  · rw [if_neg (fun hh => hseg ⟨hh.1, hh.2.1⟩), if_neg hseg]

/-- a position of cell `(j0, k0)` is outside the segment of every other cell -/
theorem seg_other (A : Bcsr α) {j k j0 k0 l0 : Nat} (hk : k < A.bh) (hk0 : k0 < A.bh) (hl0 : l0 < A.bw)
    (hne : ¬ (j = j0 ∧ k = k0)) :
    ¬ (UnitBF.pod A j k 0 ≤ UnitBF.pod A j0 k0 l0 ∧ UnitBF.pod A j0 k0 l0 < UnitBF.pod A j k 0 + A.bw) := by
  unfold UnitBF.pod
  have := cell_disjoint A.bh A.bw j k j0 k0 l0 hk hk0 hl0 hne
  simpa using this

end Bodies

section ScalarB1
variable {α : Type} [Zero α] [One α] [Mul α]

theorem foldl_fun_zero {β : Type} (ψ : β → α → α) (t0 : β) : ∀ (l : List β) (x : α), t0 ∈ l →
    (∀ t ∈ l, ∀ y, ψ t y = y ∨ ψ t y = 0) → (∀ y, ψ t0 y = 0) → l.foldl (fun x t => ψ t x) x = 0
  | [], _, h0, _, _ => by simp at h0
  | t :: l, x, h0, h, hz => by
    simp only [List.foldl_cons]
    rcases List.mem_cons.mp h0 with hh | hh
    · subst hh
      rw [hz x]
      have : ∀ (l' : List β), (∀ t ∈ l', ∀ y, ψ t y = y ∨ ψ t y = 0) → l'.foldl (fun x t => ψ t x) (0 : α) = 0 := by
        intro l'
        induction l' with
        | nil => intro _; rfl
        | cons a l'' ih =>
          intro hh'
          simp only [List.foldl_cons]
          have h0' : ψ a 0 = 0 := by rcases hh' a List.mem_cons_self 0 with h1 | h1 <;> exact h1
          rw [h0']
          exact ih (fun t ht => hh' t (List.mem_cons_of_mem _ ht))
      exact this l (fun t' ht' => h t' (List.mem_cons_of_mem _ ht'))
    · exact foldl_fun_zero ψ t0 l _ hh (fun t' ht' => h t' (List.mem_cons_of_mem _ ht')) hz

/-- `UnitFilter::filter_offdiag_row_mat(SparseMatrixBCSR<1, bw>&)`, read at the stored scalar `l0` of block `j0` of
    block row `i0` -/
theorem getD_offdiagB1 {A : Bcsr α} (W : BcsrWF A) (es : List (Nat × α)) (hes : ∀ e ∈ es, e.1 < A.rows)
    (i0 j0 l0 : Nat) (hi0 : i0 < A.rows) (hj0 : A.rowPtr.getD i0 0 ≤ j0 ∧ j0 < A.rowPtr.getD (i0 + 1) 0)
    (hl0 : l0 < A.bw) (v : Array α) (hq : j0 * A.bw + l0 < v.size) :
    let res := es.foldl (fun v e => foldRange (A.rowPtr.getD e.1 0) (A.rowPtr.getD (e.1 + 1) 0)
      (fun v j => setRange (j * A.bw) (j * A.bw + A.bw) (fun _ => (0 : α)) v) v) v
    ((∃ e ∈ es, e.1 = i0) → res.getD (j0 * A.bw + l0) 0 = 0) ∧
    ((∀ e ∈ es, e.1 ≠ i0) → res.getD (j0 * A.bw + l0) 0 = v.getD (j0 * A.bw + l0) 0) := by
  intro res
  -- one block
  have hJ : ∀ (v : Array α) (j : Nat), j0 * A.bw + l0 < v.size →
      (setRange (j * A.bw) (j * A.bw + A.bw) (fun _ => (0 : α)) v).getD (j0 * A.bw + l0) 0 =
        (if j = j0 then 0 else v.getD (j0 * A.bw + l0) 0) := by
    intro v j hv
    rw [getD_setRange]
    by_cases hj : j = j0
    · subst hj
      rw [if_pos ⟨by omega, by omega, hv⟩, if_pos rfl]
    · have hd := block_disjoint A.bw j j0 l0 (fun hh => hj hh.symm) hl0
      rw [Nat.mul_comm A.bw, Nat.mul_comm A.bw] at hd
      rw [if_neg (fun hh => hd ⟨hh.1, hh.2.1⟩), if_neg hj]
  -- one entry
  have hE : ∀ (e : Nat × α) (v : Array α), e.1 < A.rows → j0 * A.bw + l0 < v.size →
      (foldRange (A.rowPtr.getD e.1 0) (A.rowPtr.getD (e.1 + 1) 0)
        (fun v j => setRange (j * A.bw) (j * A.bw + A.bw) (fun _ => (0 : α)) v) v).getD (j0 * A.bw + l0) 0 =
        (if e.1 = i0 then 0 else v.getD (j0 * A.bw + l0) 0) ∧
      (foldRange (A.rowPtr.getD e.1 0) (A.rowPtr.getD (e.1 + 1) 0)
        (fun v j => setRange (j * A.bw) (j * A.bw + A.bw) (fun _ => (0 : α)) v) v).size = v.size := by
    intro e v he hv
    unfold foldRange
    have := foldl_pointwise (fun v j => setRange (j * A.bw) (j * A.bw + A.bw) (fun _ => (0 : α)) v) (j0 * A.bw + l0) 0
      (fun j x => if j = j0 then 0 else x) (fun v j => size_setRange _ _ _ _) (fun v j hv => hJ v j hv)
      (List.range' (A.rowPtr.getD e.1 0) (A.rowPtr.getD (e.1 + 1) 0 - A.rowPtr.getD e.1 0)) v hv
    refine ⟨?_, this.2⟩
    rw [this.1]
    by_cases hei : e.1 = i0
    · rw [if_pos hei]
      apply foldl_fun_zero (fun j x => if j = j0 then 0 else x) j0
      · rw [List.mem_range'_1, hei]; omega
      · intro j _ y; by_cases hj : j = j0 <;> simp [hj]
      · intro y; simp
    · rw [if_neg hei]
      apply foldl_fun_none
      intro j hj y
      rw [List.mem_range'_1] at hj
      have hd := bcsr_rows_disjoint W hi0 he hei hj0
      have : j ≠ j0 := by
        intro hh; subst hh; exact hd ⟨hj.1, by omega⟩
      simp [this]
  have hfold := foldl_pointwise (β := {e : Nat × α // e.1 < A.rows})
      (fun v e => foldRange (A.rowPtr.getD e.1.1 0) (A.rowPtr.getD (e.1.1 + 1) 0)
        (fun v j => setRange (j * A.bw) (j * A.bw + A.bw) (fun _ => (0 : α)) v) v) (j0 * A.bw + l0) 0
      (fun e x => if e.1.1 = i0 then 0 else x)
      (fun v e => by unfold foldRange; exact foldl_size_of _ (fun v j => size_setRange _ _ _ _) _ v)
      (fun v e hv => (hE e.1 v e.2 hv).1)
      (es.attach.map fun e => (⟨e.1, hes e.1 e.2⟩ : {e : Nat × α // e.1 < A.rows})) v hq
  have hres : res = (es.attach.map fun e => (⟨e.1, hes e.1 e.2⟩ : {e : Nat × α // e.1 < A.rows})).foldl
      (fun v e => foldRange (A.rowPtr.getD e.1.1 0) (A.rowPtr.getD (e.1.1 + 1) 0)
        (fun v j => setRange (j * A.bw) (j * A.bw + A.bw) (fun _ => (0 : α)) v) v) v := by
    show es.foldl _ v = _
    rw [List.foldl_map, List.foldl_attach (l := es)
      (f := fun v e => foldRange (A.rowPtr.getD e.1 0) (A.rowPtr.getD (e.1 + 1) 0)
        (fun v j => setRange (j * A.bw) (j * A.bw + A.bw) (fun _ => (0 : α)) v) v)]
  rw [hres, hfold.1, List.foldl_map, List.foldl_attach (l := es) (f := fun x e => if e.1 = i0 then 0 else x)]
  constructor
  · intro ⟨e0, he0, hei⟩
    apply foldl_fun_zero (fun (e : Nat × α) x => if e.1 = i0 then 0 else x) e0 es _ he0
    · intro e _ y; by_cases h : e.1 = i0 <;> simp [h]
    · intro y; simp [hei]
  · intro hfree
    apply foldl_fun_none
    intro e he y
    simp [hfree e he]

end ScalarB1

end FeatModel.LA.Filter
