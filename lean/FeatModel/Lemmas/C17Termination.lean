import FeatModel.Lemmas.C17Layered
import FeatModel.Lemmas.C17NoScatter
/-
C17: termination of the layered and of the no-scatter protocol by a variant function.  Every thread's program
is straight-line, so the total remaining work strictly decreases with every step; together with
deadlock-freedom every maximal run ends in a final state, and no run is longer than the initial measure.
-/
namespace FeatModel.DA

/-! ## sums over `List.range` -/

theorem term_sum_le (f g : Nat → Nat) : ∀ n, (∀ k, k < n → f k ≤ g k) →
    ((List.range n).map f).sum ≤ ((List.range n).map g).sum := by
  intro n
  induction n with
  | zero => intro _; simp
  | succ n ih =>
    intro h
    have h1 := ih (fun k hk => h k (by omega))
    have h2 := h n (by omega)
    simp only [List.range_succ, List.map_append, List.sum_append, List.map_cons, List.map_nil,
      List.sum_cons, List.sum_nil]
    omega

theorem term_sum_lt (f g : Nat → Nat) : ∀ n, (∀ k, k < n → f k ≤ g k) → ∀ j, j < n → f j < g j →
    ((List.range n).map f).sum < ((List.range n).map g).sum := by
  intro n
  induction n with
  | zero => intro _ j hj; omega
  | succ n ih =>
    intro h j hj hlt
    have h2 := h n (by omega)
    simp only [List.range_succ, List.map_append, List.sum_append, List.map_cons, List.map_nil,
      List.sum_cons, List.sum_nil]
    by_cases hjn : j = n
    · subst hjn
      have h1 := term_sum_le f g j (fun k hk => h k (by omega))
      omega
    · have h1 := ih (fun k hk => h k (by omega)) j (by omega) hlt
      omega

/-- the form in which the two lemmas are used: one summand (index `t - 1`) decreases, the others are equal -/
theorem term_sum_worker (f g : Nat → Nat) (n t : Nat) (h1 : 1 ≤ t) (h2 : t ≤ n)
    (hlt : f t < g t) (heq : ∀ w, w ≠ t → f w = g w) :
    ((List.range n).map fun k => f (k + 1)).sum < ((List.range n).map fun k => g (k + 1)).sum := by
  refine term_sum_lt (fun k => f (k + 1)) (fun k => g (k + 1)) n ?_ (t - 1) (by omega) ?_
  · intro k _
    by_cases e : k + 1 = t
    · subst e; exact Nat.le_of_lt hlt
    · exact Nat.le_of_eq (heq (k + 1) e)
  · have e : t - 1 + 1 = t := by omega
    simp only [e]; exact hlt

theorem term_sum_same (f g : Nat → Nat) (n : Nat) (heq : ∀ w, 1 ≤ w → f w = g w) :
    ((List.range n).map fun k => f (k + 1)).sum = ((List.range n).map fun k => g (k + 1)).sum := by
  have : (fun k => f (k + 1)) = (fun k => g (k + 1)) := funext (fun k => heq (k + 1) (by omega))
  rw [this]

/-! ## layered: runs and the variant -/

/-- executes a list of events -/
def LCfg.run (c : LCfg) : LSt → List Ev → Option LSt
  | s, [] => some s
  | s, e :: es => match c.step s e with | some s' => LCfg.run c s' es | none => none

/-- remaining work of worker w: at most 4 steps per element left, plus the tail -/
def LCfg.wMeasure (c : LCfg) (s : LSt) (w : Nat) : Nat :=
  match s.ph w with
  | .front => 4 * (c.fin w - s.pos w) + 4
  | .idle => 4 * (c.fin w - s.pos w) + 3
  | .ready => 4 * (c.fin w - s.pos w) + 2
  | .insc => 4 * (c.fin w - s.pos w) + 1
  | .toOpen => 4 * (c.fin w - s.pos w)
  | .preComb => 2 | .inComb => 1 | _ => 0

def LCfg.mMeasure (s : LSt) : Nat := match s.ph 0 with | .front => 2 | .back => 1 | _ => 0

def LCfg.measure (c : LCfg) (s : LSt) : Nat :=
  LCfg.mMeasure s + ((List.range c.n).map fun k => c.wMeasure s (k + 1)).sum

theorem term_wMeasure_congr (c : LCfg) (s s' : LSt) (w : Nat) (h1 : s'.ph w = s.ph w)
    (h2 : s'.pos w = s.pos w) : c.wMeasure s' w = c.wMeasure s w := by
  simp only [LCfg.wMeasure, h1, h2]

theorem term_mMeasure_congr (s s' : LSt) (h1 : s'.ph 0 = s.ph 0) :
    LCfg.mMeasure s' = LCfg.mMeasure s := by
  simp only [LCfg.mMeasure, h1]

/-- a master step decreases the master's measure and leaves the workers alone -/
def TermMasterDec (c : LCfg) (s s' : LSt) : Prop :=
  LCfg.mMeasure s' < LCfg.mMeasure s ∧ ∀ w, 1 ≤ w → c.wMeasure s' w = c.wMeasure s w

/-- a worker step decreases that worker's measure and leaves the others alone -/
def TermWorkerDec (c : LCfg) (s s' : LSt) : Prop :=
  LCfg.mMeasure s' = LCfg.mMeasure s ∧
    ∃ t, 1 ≤ t ∧ t ≤ c.n ∧ c.wMeasure s' t < c.wMeasure s t ∧
      ∀ w, w ≠ t → c.wMeasure s' w = c.wMeasure s w

theorem term_dec_measure {c : LCfg} {s s' : LSt} (h : TermMasterDec c s s' ∨ TermWorkerDec c s s') :
    c.measure s' < c.measure s := by
  unfold LCfg.measure
  rcases h with ⟨hm, hw⟩ | ⟨hm, t, h1, h2, hlt, heq⟩
  · have := term_sum_same (c.wMeasure s') (c.wMeasure s) c.n hw
    omega
  · have := term_sum_worker (c.wMeasure s') (c.wMeasure s) c.n t h1 h2 hlt heq
    omega

/-- the shape of every worker step, as far as the measure is concerned -/
theorem term_worker_dec {c : LCfg} {s s' : LSt} (t : Nat) (h1 : 1 ≤ t) (h2 : t ≤ c.n)
    (hph : ∀ w, w ≠ t → s'.ph w = s.ph w) (hpos : ∀ w, w ≠ t → s'.pos w = s.pos w)
    (hlt : c.wMeasure s' t < c.wMeasure s t) : TermWorkerDec c s s' :=
  ⟨term_mMeasure_congr s s' (hph 0 (by omega)), t, h1, h2, hlt,
    fun w hw => term_wMeasure_congr c s s' w (hph w hw) (hpos w hw)⟩

theorem term_step_dec {c : LCfg} {s s' : LSt} (inv : LInv c s) (hst : LStep c s s') :
    TermMasterDec c s s' ∨ TermWorkerDec c s s' := by
  cases hst with
  | mopen h =>
    left
    refine ⟨by simp [LCfg.mMeasure, updP, h], fun w hw => term_wMeasure_congr _ _ _ _ ?_ rfl⟩
    simp [updP]; omega
  | join h _ =>
    left
    refine ⟨by simp [LCfg.mMeasure, updP, h], fun w hw => term_wMeasure_congr _ _ _ _ ?_ rfl⟩
    simp [updP]; omega
  | wfront t h1 h2 h _ =>
    right
    refine term_worker_dec t h1 h2 (fun w hw => by simp [updP, hw]) (fun w hw => rfl) ?_
    rcases after_cases c t (s.pos t) with ⟨ha, hb⟩ | ⟨ha, hb⟩ | ⟨ha, hb⟩ <;>
      simp [LCfg.wMeasure, updP, h, ha]
  | wwait t h1 h2 h _ _ =>
    right
    refine term_worker_dec t h1 h2 (fun w hw => by simp [updP, hw]) (fun w hw => rfl) ?_
    simp [LCfg.wMeasure, updP, h]
  | enterI t h1 h2 h _ =>
    right
    refine term_worker_dec t h1 h2 (fun w hw => by simp [updP, hw]) (fun w hw => rfl) ?_
    simp [LCfg.wMeasure, updP, h]
  | enterR t h1 h2 h =>
    right
    refine term_worker_dec t h1 h2 (fun w hw => by simp [updP, hw]) (fun w hw => rfl) ?_
    simp [LCfg.wMeasure, updP, h]
  | leaveO t h1 h2 h _ =>
    right
    refine term_worker_dec t h1 h2 (fun w hw => by simp [updP, hw]) (fun w hw => rfl) ?_
    simp [LCfg.wMeasure, updP, h]
  | leaveN t h1 h2 h _ =>
    right
    refine term_worker_dec t h1 h2 (fun w hw => by simp [updP, hw]) (fun w hw => by simp [upd, hw]) ?_
    have hp := inv.actB t h1 h2 (by simp [h])
    rcases after_cases c t (s.pos t + 1) with ⟨ha, hb⟩ | ⟨ha, hb⟩ | ⟨ha, hb⟩ <;>
      simp [LCfg.wMeasure, updP, upd, h, ha] <;> omega
  | wopen t h1 h2 h =>
    right
    refine term_worker_dec t h1 h2 (fun w hw => by simp [updP, hw]) (fun w hw => by simp [upd, hw]) ?_
    have hp := inv.actB t h1 h2 (by simp [h])
    rcases after_cases c t (s.pos t + 1) with ⟨ha, hb⟩ | ⟨ha, hb⟩ | ⟨ha, hb⟩ <;>
      simp [LCfg.wMeasure, updP, upd, h, ha] <;> omega
  | center t h1 h2 h _ =>
    right
    refine term_worker_dec t h1 h2 (fun w hw => by simp [updP, hw]) (fun w hw => rfl) ?_
    simp [LCfg.wMeasure, updP, h]
  | cleave t h1 h2 h =>
    right
    refine term_worker_dec t h1 h2 (fun w hw => by simp [updP, hw]) (fun w hw => rfl) ?_
    simp [LCfg.wMeasure, updP, h]

/-- abstract version: the variant decreases with every step from a state that satisfies the invariant -/
theorem term_variant_decreases {c : LCfg} {s s' : LSt} {e : Ev} (inv : LInv c s)
    (h : c.step s e = some s') : c.measure s' < c.measure s :=
  term_dec_measure (term_step_dec inv (step_LStep h))

theorem term_run_reach {c : LCfg} : ∀ (es : List Ev) (s s' : LSt), c.Reach s → c.run s es = some s' →
    c.Reach s' := by
  intro es
  induction es with
  | nil => intro s s' hs h; simp only [LCfg.run, Option.some.injEq] at h; subst h; exact hs
  | cons e es ih =>
    intro s s' hs h
    simp only [LCfg.run] at h
    split at h
    · next s1 hst => exact ih s1 s' (LCfg.Reach.step e hs hst) h
    · cases h

theorem term_runs_bounded {c : LCfg} (wf : LWF c) : ∀ (es : List Ev) (s s' : LSt), c.Reach s →
    c.run s es = some s' → es.length + c.measure s' ≤ c.measure s := by
  intro es
  induction es with
  | nil => intro s s' _ h; simp only [LCfg.run, Option.some.injEq] at h; subst h; simp
  | cons e es ih =>
    intro s s' hs h
    simp only [LCfg.run] at h
    split at h
    · next s1 hst =>
      have h1 := ih s1 s' (LCfg.Reach.step e hs hst) h
      have h2 := term_variant_decreases (LInv_reach wf hs) hst
      simp only [List.length_cons]
      omega
    · cases h

theorem term_terminates {c : LCfg}
    (hnd : ∀ s, c.Reach s → LCfg.final s = false → ∃ e s', c.step s e = some s')
    (hdec : ∀ s e s', c.Reach s → c.step s e = some s' → c.measure s' < c.measure s) :
    ∀ (m : Nat) (s : LSt), c.Reach s → c.measure s ≤ m →
      ∃ es s', c.run s es = some s' ∧ LCfg.final s' = true := by
  intro m
  induction m with
  | zero =>
    intro s hs hm
    by_cases hf : LCfg.final s = true
    · exact ⟨[], s, rfl, hf⟩
    · obtain ⟨e, s1, hst⟩ := hnd s hs (by simpa using hf)
      have := hdec s e s1 hs hst
      omega
  | succ m ih =>
    intro s hs hm
    by_cases hf : LCfg.final s = true
    · exact ⟨[], s, rfl, hf⟩
    · obtain ⟨e, s1, hst⟩ := hnd s hs (by simpa using hf)
      have hlt := hdec s e s1 hs hst
      obtain ⟨es, s', hrun, hfin⟩ := ih s1 (LCfg.Reach.step e hs hst) (by omega)
      exact ⟨e :: es, s', by simp [LCfg.run, hst, hrun], hfin⟩

/-- the variant strictly decreases with every step -/
theorem layered_variant_decreases (n : Nat) (le tl cell : Nat → Nat) (comb : Bool)
    (hle : ∀ i j, i < j → j ≤ tl n → le i < le j)
    (htl : ∀ i, i < n → tl i + 2 ≤ tl (i + 1))
    (s : LSt) (hs : (LCfg.ofFns n le tl cell comb).Reach s) (e : Ev) (s' : LSt)
    (h : (LCfg.ofFns n le tl cell comb).step s e = some s') :
    (LCfg.ofFns n le tl cell comb).measure s' < (LCfg.ofFns n le tl cell comb).measure s :=
  term_variant_decreases (LInv_reach (ofFns_wf n le tl cell comb hle htl) hs) h

/-- no run is longer than the measure of its first state -/
theorem layered_runs_bounded (n : Nat) (le tl cell : Nat → Nat) (comb : Bool)
    (hle : ∀ i j, i < j → j ≤ tl n → le i < le j)
    (htl : ∀ i, i < n → tl i + 2 ≤ tl (i + 1))
    (s : LSt) (hs : (LCfg.ofFns n le tl cell comb).Reach s) (es : List Ev) (s' : LSt)
    (h : (LCfg.ofFns n le tl cell comb).run s es = some s') :
    es.length + (LCfg.ofFns n le tl cell comb).measure s' ≤ (LCfg.ofFns n le tl cell comb).measure s :=
  term_runs_bounded (ofFns_wf n le tl cell comb hle htl) es s s' hs h

/-- every run that cannot be extended has reached the final state -/
theorem layered_maximal_run_final (n : Nat) (le tl cell : Nat → Nat) (comb : Bool)
    (hle : ∀ i j, i < j → j ≤ tl n → le i < le j)
    (htl : ∀ i, i < n → tl i + 2 ≤ tl (i + 1))
    (s : LSt) (hs : (LCfg.ofFns n le tl cell comb).Reach s)
    (hmax : ∀ e, (LCfg.ofFns n le tl cell comb).step s e = none) : LCfg.final s = true := by
  by_cases hf : LCfg.final s = true
  · exact hf
  · obtain ⟨e, s1, hst⟩ := layered_no_deadlock n le tl cell comb hle htl s hs (by simpa using hf)
    rw [hmax e] at hst; cases hst

/-- from every reachable state a final state is reachable -/
theorem layered_terminates (n : Nat) (le tl cell : Nat → Nat) (comb : Bool)
    (hle : ∀ i j, i < j → j ≤ tl n → le i < le j)
    (htl : ∀ i, i < n → tl i + 2 ≤ tl (i + 1))
    (s : LSt) (hs : (LCfg.ofFns n le tl cell comb).Reach s) :
    ∃ es s', (LCfg.ofFns n le tl cell comb).run s es = some s' ∧ LCfg.final s' = true :=
  term_terminates (fun s hs hf => layered_no_deadlock n le tl cell comb hle htl s hs hf)
    (fun s e s' hs h => layered_variant_decreases n le tl cell comb hle htl s hs e s' h)
    _ s hs (Nat.le_refl _)

/-! ## no-scatter -/

/-- executes a list of events -/
def NCfg.run (c : NCfg) : NSt → List Ev → Option NSt
  | s, [] => some s
  | s, e :: es => match c.step s e with | some s' => NCfg.run c s' es | none => none

def NCfg.wMeasure (s : NSt) (w : Nat) : Nat :=
  match s.ph w with | .preComb => 2 | .inComb => 1 | _ => 0

def NCfg.mMeasure (s : NSt) : Nat := match s.mph with | .front => 2 | .back => 1 | _ => 0

def NCfg.measure (c : NCfg) (s : NSt) : Nat :=
  NCfg.mMeasure s + ((List.range c.n).map fun k => NCfg.wMeasure s (k + 1)).sum

theorem term_ns_step_dec {c : NCfg} {s s' : NSt} (hst : NStep c s s') :
    c.measure s' < c.measure s := by
  unfold NCfg.measure
  cases hst with
  | mopen h => simp [NCfg.mMeasure, NCfg.wMeasure, h]
  | join h _ => simp [NCfg.mMeasure, NCfg.wMeasure, h]
  | center t h1 h2 h _ =>
    have := term_sum_worker
      (NCfg.wMeasure { s with ph := updP s.ph t .inComb, mutex := true }) (NCfg.wMeasure s) c.n t h1 h2
      (by simp [NCfg.wMeasure, updP, h]) (fun w hw => by simp [NCfg.wMeasure, updP, hw])
    simp only [NCfg.mMeasure]
    omega
  | cleave t h1 h2 h =>
    have := term_sum_worker
      (NCfg.wMeasure { s with ph := updP s.ph t .done, mutex := false }) (NCfg.wMeasure s) c.n t h1 h2
      (by simp [NCfg.wMeasure, updP, h]) (fun w hw => by simp [NCfg.wMeasure, updP, hw])
    simp only [NCfg.mMeasure]
    omega

/-- the variant strictly decreases with every step -/
theorem noscatter_variant_decreases (c : NCfg) (s : NSt) (hs : c.Reach s) (e : Ev) (s' : NSt)
    (h : c.step s e = some s') : c.measure s' < c.measure s :=
  have _ := hs
  term_ns_step_dec (ns_step_NStep h)

theorem term_ns_run_reach {c : NCfg} : ∀ (es : List Ev) (s s' : NSt), c.Reach s →
    c.run s es = some s' → c.Reach s' := by
  intro es
  induction es with
  | nil => intro s s' hs h; simp only [NCfg.run, Option.some.injEq] at h; subst h; exact hs
  | cons e es ih =>
    intro s s' hs h
    simp only [NCfg.run] at h
    split at h
    · next s1 hst => exact ih s1 s' (NCfg.Reach.step e hs hst) h
    · cases h

/-- no run is longer than the measure of its first state -/
theorem noscatter_runs_bounded (c : NCfg) (s : NSt) (hs : c.Reach s) (es : List Ev) (s' : NSt)
    (h : c.run s es = some s') : es.length + c.measure s' ≤ c.measure s := by
  induction es generalizing s with
  | nil => simp only [NCfg.run, Option.some.injEq] at h; subst h; simp
  | cons e es ih =>
    simp only [NCfg.run] at h
    split at h
    · next s1 hst =>
      have h1 := ih s1 (NCfg.Reach.step e hs hst) h
      have h2 := noscatter_variant_decreases c s hs e s1 hst
      simp only [List.length_cons]
      omega
    · cases h

/-- every run that cannot be extended has reached the final state -/
theorem noscatter_maximal_run_final (c : NCfg) (s : NSt) (hs : c.Reach s)
    (hmax : ∀ e, c.step s e = none) : NCfg.final s = true := by
  by_cases hf : NCfg.final s = true
  · exact hf
  · obtain ⟨e, s1, hst⟩ := noscatter_no_deadlock c s hs (by simpa using hf)
    rw [hmax e] at hst; cases hst

theorem term_ns_terminates (c : NCfg) : ∀ (m : Nat) (s : NSt), c.Reach s → c.measure s ≤ m →
    ∃ es s', c.run s es = some s' ∧ NCfg.final s' = true := by
  intro m
  induction m with
  | zero =>
    intro s hs hm
    by_cases hf : NCfg.final s = true
    · exact ⟨[], s, rfl, hf⟩
    · obtain ⟨e, s1, hst⟩ := noscatter_no_deadlock c s hs (by simpa using hf)
      have := noscatter_variant_decreases c s hs e s1 hst
      omega
  | succ m ih =>
    intro s hs hm
    by_cases hf : NCfg.final s = true
    · exact ⟨[], s, rfl, hf⟩
    · obtain ⟨e, s1, hst⟩ := noscatter_no_deadlock c s hs (by simpa using hf)
      have hlt := noscatter_variant_decreases c s hs e s1 hst
      obtain ⟨es, s', hrun, hfin⟩ := ih s1 (NCfg.Reach.step e hs hst) (by omega)
      exact ⟨e :: es, s', by simp [NCfg.run, hst, hrun], hfin⟩

/-- from every reachable state a final state is reachable -/
theorem noscatter_terminates (c : NCfg) (s : NSt) (hs : c.Reach s) :
    ∃ es s', c.run s es = some s' ∧ NCfg.final s' = true :=
  term_ns_terminates c _ s hs (Nat.le_refl _)

end FeatModel.DA
