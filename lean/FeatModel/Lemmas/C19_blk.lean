import FeatModel.Model.Adjacency
import FeatModel.Model.AdjKernels
import FeatModel.Lemmas.C19_perms
/-! C19 lemmas, group `blk` (statements fixed by Props/C19.statements) -/
open FeatModel.Adj

namespace C19L.blk

theorem chunk_length (bs n : Nat) (x : List Nat) : (Perm.chunk bs n x).length = n := by
  induction n generalizing x with
  | zero => rfl
  | succ n ih => simp [Perm.chunk, ih]

theorem blocked_apply_spec (p s : List Nat) (h : Perm.isBijection p = true) (hs : Perm.swapFromPerm p = some s)
    (bs : Nat) (x : List Nat) :
    (Perm.applySwaps s (Perm.chunk bs p.length x).toArray).toList = Perm.applyPerm p (Perm.chunk bs p.length x) ∧
    Perm.applySwapsInv s (Perm.applySwaps s (Perm.chunk bs p.length x).toArray) = (Perm.chunk bs p.length x).toArray ∧
    (Perm.chunk bs p.length x).length = p.length := by
  refine ⟨?_, (C19L.perms.inverse_swaps_undo s _).1, chunk_length _ _ _⟩
  have := C19L.perms.swap_perm_agree (α := List Nat) p s h hs (Perm.chunk bs p.length x).toArray
    (by simp [chunk_length])
  simpa using this

theorem indexSetPermute_is_graph_permuted (p q : List Nat) (tuples : List (List Nat)) (nImg : Nat) :
    Perm.indexSetPermute p q tuples = (Graph.permuted ⟨nImg, tuples⟩ p q).adj := by
  unfold Perm.indexSetPermute Perm.applyPerm Graph.permuted Graph.row
  simp only [List.map_map]
  rfl

end C19L.blk
