import FeatModel.Model.VecOps
import Mathlib.Data.List.Perm.Basic
import Mathlib.Data.List.Nodup
import Mathlib.Tactic.Linarith
/-! lemmas for the sparse-vector part of C04: the append buffer, `_insertion_sort`, duplicate marking and
compaction preserve the denotation "last write wins" -/
namespace FeatModel.Vec
open SVec

variable {β : Type}

abbrev keys (l : List (Nat × β)) : List Nat := l.map Prod.fst

/-! ### `lookupLast` -/

theorem lookupLast_append (a b : List (Nat × β)) (i : Nat) :
    lookupLast (a ++ b) i = (lookupLast b i).or (lookupLast a i) := by
  induction a with
  | nil => simp [lookupLast]
  | cons p t ih =>
    obtain ⟨k, v⟩ := p
    simp only [List.cons_append, lookupLast, ih, Option.or_assoc]

theorem lookupLast_eq_none (l : List (Nat × β)) (i : Nat) (h : ∀ p ∈ l, p.1 ≠ i) : lookupLast l i = none := by
  induction l with
  | nil => rfl
  | cons p t ih =>
    obtain ⟨k, v⟩ := p
    have hk : k ≠ i := h (k, v) (by simp)
    simp [lookupLast, ih (fun q hq => h q (by simp [hq])), hk]

theorem lookupLast_isSome (l : List (Nat × β)) (i : Nat) : (lookupLast l i).isSome ↔ ∃ p ∈ l, p.1 = i := by
  induction l with
  | nil => simp [lookupLast]
  | cons p t ih =>
    obtain ⟨k, v⟩ := p
    simp only [lookupLast, Option.isSome_or, Bool.or_eq_true, ih, List.mem_cons]
    constructor
    · rintro (⟨q, hq, rfl⟩ | h)
      · exact ⟨q, Or.inr hq, rfl⟩
      · by_cases hk : k = i
        · exact ⟨(k, v), Or.inl rfl, hk⟩
        · simp [hk] at h
    · rintro ⟨q, rfl | hq, hqi⟩
      · right
        have hk : k = i := hqi
        simp [hk]
      · left; exact ⟨q, hq, hqi⟩

/-! ### one insertion step -/

theorem insSorted_perm (k : Nat) (v : β) (l : List (Nat × β)) : (insSorted k v l).Perm ((k, v) :: l) := by
  induction l with
  | nil => exact List.Perm.refl _
  | cons p t ih =>
    obtain ⟨k', v'⟩ := p
    unfold insSorted
    split
    · exact List.Perm.refl _
    · exact (List.Perm.cons _ ih).trans (List.Perm.swap _ _ _)

theorem insSorted_sorted (k : Nat) (v : β) (l : List (Nat × β)) (h : (keys l).Pairwise (· ≤ ·)) :
    (keys (insSorted k v l)).Pairwise (· ≤ ·) := by
  induction l with
  | nil => simp [insSorted]
  | cons p t ih =>
    obtain ⟨k', v'⟩ := p
    simp only [keys, List.map_cons, List.pairwise_cons] at h
    unfold insSorted
    split
    · next hlt =>
      simp only [keys, List.map_cons, List.pairwise_cons]
      refine ⟨?_, h.1, h.2⟩
      intro a ha
      rcases List.mem_cons.mp ha with rfl | ha
      · exact Nat.le_of_lt hlt
      · exact Nat.le_trans (Nat.le_of_lt hlt) (h.1 a ha)
    · next hge =>
      simp only [keys, List.map_cons, List.pairwise_cons]
      refine ⟨?_, ih h.2⟩
      intro a ha
      obtain ⟨q, hq, rfl⟩ := List.mem_map.mp ha
      rcases List.mem_cons.mp ((insSorted_perm k v t).mem_iff.mp hq) with rfl | hq
      · exact Nat.le_of_not_lt hge
      · exact h.1 _ (List.mem_map.mpr ⟨q, hq, rfl⟩)

theorem insSorted_lookup (k : Nat) (v : β) (l : List (Nat × β)) (h : (keys l).Pairwise (· ≤ ·)) (i : Nat) :
    lookupLast (insSorted k v l) i = lookupLast (l ++ [(k, v)]) i := by
  induction l with
  | nil => rfl
  | cons p t ih =>
    obtain ⟨k', v'⟩ := p
    simp only [keys, List.map_cons, List.pairwise_cons] at h
    unfold insSorted
    split
    · next hlt =>
      rw [lookupLast_append]
      by_cases hk : k = i
      · have hn : lookupLast ((k', v') :: t) i = none := by
          apply lookupLast_eq_none
          intro q hq
          rcases List.mem_cons.mp hq with rfl | hq
          · simp only; omega
          · have := h.1 q.1 (List.mem_map.mpr ⟨q, hq, rfl⟩); omega
        simp [lookupLast, hk, hn] at hn ⊢
        simp [hn]
      · simp [lookupLast, hk]
    · simp only [List.cons_append, lookupLast, ih h.2]

/-! ### `_insertion_sort` -/

theorem foldl_ins_spec (l acc : List (Nat × β)) (h : (keys acc).Pairwise (· ≤ ·)) :
    (keys (l.foldl (fun acc p => insSorted p.1 p.2 acc) acc)).Pairwise (· ≤ ·) ∧
    (l.foldl (fun acc p => insSorted p.1 p.2 acc) acc).Perm (acc ++ l) ∧
    ∀ i, lookupLast (l.foldl (fun acc p => insSorted p.1 p.2 acc) acc) i = lookupLast (acc ++ l) i := by
  induction l generalizing acc with
  | nil => simp [h]
  | cons p t ih =>
    obtain ⟨k, v⟩ := p
    simp only [List.foldl_cons]
    obtain ⟨h1, h2, h3⟩ := ih (insSorted k v acc) (insSorted_sorted k v acc h)
    refine ⟨h1, ?_, ?_⟩
    · refine h2.trans ?_
      have := (insSorted_perm k v acc).append_right t
      refine this.trans ?_
      simp only [List.cons_append]
      exact List.perm_middle.symm
    · intro i
      rw [h3 i, lookupLast_append, insSorted_lookup k v acc h i, lookupLast_append, lookupLast_append]
      simp [lookupLast, Option.or_assoc]

theorem insertionSort_sorted (l : List (Nat × β)) : (keys (insertionSort l)).Pairwise (· ≤ ·) :=
  (foldl_ins_spec l [] (by simp)).1

theorem insertionSort_perm (l : List (Nat × β)) : (insertionSort l).Perm l := by
  unfold insertionSort
  simpa using (foldl_ins_spec l [] (by simp)).2.1

theorem insertionSort_lookup (l : List (Nat × β)) (i : Nat) : lookupLast (insertionSort l) i = lookupLast l i := by
  unfold insertionSort
  simpa using (foldl_ins_spec l [] (by simp)).2.2 i

/-! ### duplicate marking -/

theorem markDups_length (l : List (Nat × β)) : (markDups l).length = l.length := by
  induction l with
  | nil => rfl
  | cons p t ih =>
    cases t with
    | nil => rfl
    | cons q u => simp only [markDups, List.length_cons] at ih ⊢; omega

/-- every key of the marked list is the maximal index or a key of the original list -/
theorem markDups_keys (l : List (Nat × β)) : ∀ a ∈ keys (markDups l), a = idxMax ∨ a ∈ keys l := by
  induction l with
  | nil => simp [markDups]
  | cons p t ih =>
    cases t with
    | nil => intro a ha; right; simpa [markDups] using ha
    | cons q u =>
      intro a ha
      simp only [markDups, keys, List.map_cons, List.mem_cons] at ha
      rcases ha with rfl | ha
      · split
        · left; rfl
        · right; simp
      · rcases ih a (by simpa [keys] using ha) with h | h
        · left; exact h
        · right; simp only [keys, List.map_cons, List.mem_cons] at h ⊢; exact Or.inr h

theorem markDups_lookup (l : List (Nat × β)) (h : (keys l).Pairwise (· ≤ ·)) (i : Nat) (hi : i ≠ idxMax) :
    lookupLast (markDups l) i = lookupLast l i := by
  induction l with
  | nil => rfl
  | cons p t ih =>
    cases t with
    | nil => rfl
    | cons q u =>
      obtain ⟨k, v⟩ := p
      simp only [keys, List.map_cons, List.pairwise_cons] at h
      have ih' := ih (by simpa [keys] using h.2)
      simp only [markDups, lookupLast] at ih' ⊢
      rw [ih']
      by_cases hkq : k = q.1
      · simp only [hkq, beq_self_eq_true, if_true]
        by_cases hqi : q.1 = i
        · obtain ⟨kq, vq⟩ := q
          simp only at hqi
          subst hqi
          have : idxMax ≠ kq := fun e => hi e.symm
          simp [this]
        · have : idxMax ≠ i := fun e => hi e.symm
          simp [this, hqi]
      · have : (k == q.1) = false := by simpa using hkq
        simp [this]

/-- the unmarked keys are pairwise different -/
theorem markDups_nodup (l : List (Nat × β)) (h : (keys l).Pairwise (· ≤ ·)) (hm : ∀ a ∈ keys l, a ≠ idxMax) :
    ((keys (markDups l)).filter (· ≠ idxMax)).Nodup := by
  induction l with
  | nil => simp [markDups]
  | cons p t ih =>
    cases t with
    | nil =>
      simp only [markDups, keys, List.map_cons, List.map_nil]
      exact List.Nodup.sublist List.filter_sublist (List.nodup_singleton _)
    | cons q u =>
      obtain ⟨k, v⟩ := p
      simp only [keys, List.map_cons, List.pairwise_cons] at h
      have ih' := ih (by simpa [keys] using h.2) (fun a ha => hm a (by simp only [keys, List.map_cons, List.mem_cons] at ha ⊢; exact Or.inr ha))
      simp only [markDups, keys, List.map_cons] at ih' ⊢
      by_cases hkq : k = q.1
      · simp only [hkq, beq_self_eq_true, if_true]
        rw [List.filter_cons_of_neg (by simp)]
        exact ih'
      · have hb : (k == q.1) = false := by simpa using hkq
        simp only [hb, Bool.false_eq_true, if_false]
        have hkm : k ≠ idxMax := hm k (by simp [keys])
        rw [List.filter_cons_of_pos (by simpa using hkm)]
        refine List.nodup_cons.mpr ⟨?_, ih'⟩
        intro hmem
        have hmem' := (List.mem_filter.mp hmem).1
        have hne : k ≠ idxMax := hkm
        rcases markDups_keys (q :: u) k (by simpa [keys, markDups] using hmem') with h' | h'
        · exact hne h'
        · have h'' : k = q.1 ∨ k ∈ List.map Prod.fst u := by simpa [keys] using h'
          have hq : k ≤ q.1 := h.1 q.1 (by simp)
          rcases h'' with h' | h'
          · exact hkq h'
          · have hle : q.1 ≤ k := h.2.1 k h'
            exact hkq (Nat.le_antisymm hq hle)

/-! ### compaction: the marked entries form the tail of the sorted array -/

theorem sorted_split (e : List (Nat × β)) (h : (keys e).Pairwise (· ≤ ·)) (hm : ∀ a ∈ keys e, a ≤ idxMax) :
    e = e.filter (fun p => p.1 != idxMax) ++ e.filter (fun p => p.1 == idxMax) := by
  induction e with
  | nil => rfl
  | cons p t ih =>
    simp only [keys, List.map_cons, List.pairwise_cons] at h
    have iht := ih h.2 (fun a ha => hm a (by simp only [keys, List.map_cons, List.mem_cons]; exact Or.inr ha))
    by_cases hp : p.1 = idxMax
    · -- everything that follows is marked as well
      have hall : ∀ q ∈ t, q.1 = idxMax := by
        intro q hq
        have h1 := h.1 q.1 (List.mem_map.mpr ⟨q, hq, rfl⟩)
        have h2 := hm q.1 (by simp only [keys, List.map_cons, List.mem_cons]; exact Or.inr (List.mem_map.mpr ⟨q, hq, rfl⟩))
        omega
      have hf1 : (p :: t).filter (fun p => p.1 != idxMax) = [] := by
        apply List.filter_eq_nil_iff.mpr
        intro q hq
        rcases List.mem_cons.mp hq with rfl | hq
        · simp [hp]
        · simp [hall q hq]
      have hf2 : (p :: t).filter (fun p => p.1 == idxMax) = p :: t := by
        apply List.filter_eq_self.mpr
        intro q hq
        rcases List.mem_cons.mp hq with rfl | hq
        · simp [hp]
        · simp [hall q hq]
      rw [hf1, hf2]; rfl
    · rw [List.filter_cons_of_pos (by simpa using hp), List.filter_cons_of_neg (by simpa using hp)]
      simp only [List.cons_append]
      exact congrArg _ iht

theorem trailingMax_spec (e : List (Nat × β)) (h : (keys e).Pairwise (· ≤ ·)) (hm : ∀ a ∈ keys e, a ≤ idxMax) :
    e.take (e.length - trailingMax e) = e.filter (fun p => p.1 != idxMax) := by
  have hs := sorted_split e h hm
  set a := e.filter (fun p => p.1 != idxMax) with ha
  set b := e.filter (fun p => p.1 == idxMax) with hb
  have hbm : ∀ q ∈ b.reverse, (fun p : Nat × β => p.1 == idxMax) q = true := by
    intro q hq
    exact (List.mem_filter.mp (List.mem_reverse.mp hq)).2
  have ham : ∀ q ∈ a, (fun p : Nat × β => p.1 == idxMax) q = false := by
    intro q hq
    have := (List.mem_filter.mp hq).2
    simpa using this
  have htw : (a.reverse).takeWhile (fun p => p.1 == idxMax) = [] := by
    cases hr : a.reverse with
    | nil => rfl
    | cons q u =>
      have hq : q ∈ a := List.mem_reverse.mp (by rw [hr]; simp)
      have := ham q hq
      simp only at this
      simp [List.takeWhile, this]
  have ht : trailingMax e = b.length := by
    unfold trailingMax
    rw [hs, List.reverse_append, List.takeWhile_append_of_pos hbm, htw]
    simp
  rw [ht]
  have hl : e.length = a.length + b.length := by rw [hs]; simp
  rw [hl, hs]
  simp

/-! ### more `lookupLast` facts -/

theorem lookupLast_filter (l : List (Nat × β)) (f : Nat × β → Bool) (i : Nat) (h : ∀ p ∈ l, p.1 = i → f p = true) :
    lookupLast (l.filter f) i = lookupLast l i := by
  induction l with
  | nil => rfl
  | cons p t ih =>
    obtain ⟨k, v⟩ := p
    have iht := ih (fun q hq => h q (by simp [hq]))
    by_cases hf : f (k, v) = true
    · rw [List.filter_cons_of_pos hf]; simp [lookupLast, iht]
    · rw [List.filter_cons_of_neg hf]
      have hk : k ≠ i := fun e => hf (h (k, v) (by simp) e)
      simp [lookupLast, iht, hk]

theorem lookupLast_map (l : List (Nat × β)) (g : β → β) (i : Nat) :
    lookupLast (l.map fun p => (p.1, g p.2)) i = (lookupLast l i).map g := by
  induction l with
  | nil => rfl
  | cons p t ih =>
    obtain ⟨k, v⟩ := p
    simp only [List.map_cons, lookupLast, ih]
    cases lookupLast t i <;> by_cases hk : k = i <;> simp [hk]

theorem sparseGet_eq (zero : β) (l : List (Nat × β)) (h : (keys l).Pairwise (· < ·)) (i : Nat) :
    sparseGet zero l i = (lookupLast l i).getD zero := by
  induction l with
  | nil => rfl
  | cons p t ih =>
    obtain ⟨k, v⟩ := p
    simp only [keys, List.map_cons, List.pairwise_cons] at h
    have iht := ih h.2
    unfold sparseGet at iht ⊢
    by_cases hik : i ≤ k
    · have hn : lookupLast t i = none := by
        apply lookupLast_eq_none
        intro q hq
        have := h.1 q.1 (List.mem_map.mpr ⟨q, hq, rfl⟩)
        omega
      simp only [List.find?_cons, hik, decide_true, lookupLast, hn, Option.none_or]
      by_cases hki : k = i
      · simp [hki]
      · have : (k == i) = false := by simpa using hki
        simp [hki, this]
    · have hki : k ≠ i := by omega
      simp only [List.find?_cons, hik, decide_false, lookupLast, hki, if_false, Option.or_none]
      exact iht

/-! ### the container state -/

theorem set_length_append (a b : List β) (c x : β) : (a ++ c :: b).set a.length x = a ++ x :: b := by
  induction a with
  | nil => rfl
  | cons y t ih => simp [ih]

theorem take_succ_append (a b : List β) (x : β) : (a ++ x :: b).take (a.length + 1) = a ++ [x] := by
  induction a with
  | nil => simp
  | cons y t ih => simp [ih]

/-- well-formed states: what every member function preserves -/
structure SWF (s : SVec β) : Prop where
  used_le : s.used ≤ s.buf.length
  keys_lt : ∀ p ∈ s.entries, p.1 < idxMax
  strict : s.sorted = true → (keys s.entries).Pairwise (· < ·)
  inc_pos : 0 < s.inc

theorem swf_empty (size : Nat) (h : 0 < size) : SWF (SVec.empty size : SVec β) := by
  refine ⟨by simp [SVec.empty], by simp [SVec.empty, entries], by simp [SVec.empty, entries], ?_⟩
  simp only [SVec.empty]; omega

theorem lookup_empty (size : Nat) (i : Nat) : (SVec.empty size : SVec β).lookup i = none := by
  simp [SVec.empty, lookup, entries, lookupLast]

theorem take_succ_set (l : List β) (n : Nat) (x : β) (h : n < l.length) :
    (l.set n x).take (n + 1) = l.take n ++ [x] := by
  induction l generalizing n with
  | nil => simp at h
  | cons y t ih =>
    cases n with
    | zero => simp
    | succ m => simp only [List.set_cons_succ, List.take_succ_cons, List.cons_append]; rw [ih m (by simpa using h)]

/-- appending: the stored entries of the new state are the old ones followed by the new pair -/
theorem entries_write (fillv : β) (s : SVec β) (h : SWF s) (i : Nat) (v : β) :
    (s.write fillv i v).entries = s.entries ++ [(i, v)] ∧ (s.write fillv i v).used ≤ (s.write fillv i v).buf.length := by
  unfold write
  split
  · next he =>
    have hb : s.buf = [] := by simpa using he
    obtain ⟨n, hn⟩ : ∃ n, s.inc = n + 1 := ⟨s.inc - 1, by have := h.inc_pos; omega⟩
    simp [entries, hb, hn, List.replicate_succ]
  · split
    · next _ hlt =>
      simp only [entries]
      exact ⟨take_succ_set _ _ _ hlt, by simp; omega⟩
    · next _ hge =>
      have hu : s.used = s.buf.length := by have := h.used_le; omega
      have hl : (s.buf.take s.used).length = s.used := by simp; omega
      have hip := h.inc_pos
      simp only [entries]
      constructor
      · rw [take_succ_set _ _ _ (by simp; omega)]
        congr 1
        rw [List.take_append_of_le_length (by omega)]
        rw [List.take_take, Nat.min_self]
      · simp; omega

theorem swf_write (fillv : β) (s : SVec β) (h : SWF s) (i : Nat) (v : β) (hi : i < idxMax) :
    SWF (s.write fillv i v) := by
  obtain ⟨he, hle⟩ := entries_write fillv s h i v
  refine ⟨hle, ?_, ?_, ?_⟩
  · intro p hp
    rw [he] at hp
    rcases List.mem_append.mp hp with hp | hp
    · exact h.keys_lt p hp
    · simp at hp; subst hp; exact hi
  · intro hs
    unfold write at hs
    split at hs <;> [skip; split at hs] <;> simp at hs
  · unfold write
    split <;> [skip; split] <;> exact h.inc_pos

theorem lookup_write (fillv : β) (s : SVec β) (h : SWF s) (i : Nat) (v : β) (j : Nat) :
    (s.write fillv i v).lookup j = if j = i then some v else s.lookup j := by
  unfold lookup
  rw [(entries_write fillv s h i v).1, lookupLast_append]
  by_cases hij : j = i
  · subst hij; simp [lookupLast]
  · have : i ≠ j := fun e => hij e.symm
    simp [lookupLast, hij, this]

theorem write_size (fillv : β) (s : SVec β) (i : Nat) (v : β) : (s.write fillv i v).size = s.size := by
  unfold write; split <;> [rfl; split] <;> rfl

/-- `sort()` keeps the denotation and establishes the strictly sorted, duplicate-free layout -/
theorem sort_spec (s : SVec β) (h : SWF s) : SWF s.sort ∧ s.sort.sorted = true ∧ (∀ j, s.sort.lookup j = s.lookup j)
    ∧ s.sort.size = s.size := by
  unfold sort
  split
  · next hs => exact ⟨h, hs, fun _ => rfl, rfl⟩
  · next hs =>
    split
    · next hu =>
      have hu' : s.used = 0 := by simpa using hu
      refine ⟨⟨h.used_le, h.keys_lt, ?_, h.inc_pos⟩, rfl, fun _ => rfl, rfl⟩
      intro _
      simp [entries, hu']
    · next hu =>
      set ent := s.buf.take s.used with hent
      set e := insertionSort (markDups (insertionSort ent)) with he
      have hentl : ent.length = s.used := by simp [hent]; exact h.used_le
      have hperm1 : (insertionSort ent).Perm ent := insertionSort_perm ent
      have hperm2 : e.Perm (markDups (insertionSort ent)) := insertionSort_perm _
      have hel : e.length = s.used := by
        rw [hperm2.length_eq, markDups_length, hperm1.length_eq, hentl]
      have hs1 : (keys (insertionSort ent)).Pairwise (· ≤ ·) := insertionSort_sorted ent
      have hse : (keys e).Pairwise (· ≤ ·) := insertionSort_sorted _
      have hk1 : ∀ a ∈ keys (insertionSort ent), a < idxMax := by
        intro a ha
        obtain ⟨q, hq, rfl⟩ := List.mem_map.mp ha
        exact h.keys_lt q (hperm1.mem_iff.mp hq)
      have hke : ∀ a ∈ keys e, a ≤ idxMax := by
        intro a ha
        obtain ⟨q, hq, rfl⟩ := List.mem_map.mp ha
        have hq' := hperm2.mem_iff.mp hq
        rcases markDups_keys (insertionSort ent) q.1 (List.mem_map.mpr ⟨q, hq', rfl⟩) with h' | h'
        · omega
        · exact Nat.le_of_lt (hk1 _ h')
      have htm := trailingMax_spec e hse hke
      have hentries : ({ s with buf := e ++ s.buf.drop s.used, used := s.used - trailingMax e, sorted := true } : SVec β).entries
          = e.filter (fun p => p.1 != idxMax) := by
        simp only [entries]
        rw [← htm, hel, List.take_append_of_le_length (by rw [hel]; omega)]
      refine ⟨⟨?_, ?_, ?_, h.inc_pos⟩, rfl, ?_, rfl⟩
      · simp only [List.length_append, List.length_drop, hel]
        have := h.used_le
        omega
      · intro p hp
        rw [hentries] at hp
        obtain ⟨hp1, hp2⟩ := List.mem_filter.mp hp
        have h1 := hke p.1 (List.mem_map.mpr ⟨p, hp1, rfl⟩)
        have h2 : p.1 ≠ idxMax := by simpa using hp2
        omega
      · intro _
        rw [hentries]
        have hkf : keys (e.filter (fun p => p.1 != idxMax)) = (keys e).filter (· ≠ idxMax) := by
          simp only [keys, List.filter_map]
          congr 1
          apply List.filter_congr
          intro p _
          by_cases hp : p.1 = idxMax <;> simp [hp]
        rw [hkf]
        have hle : ((keys e).filter (· ≠ idxMax)).Pairwise (· ≤ ·) := hse.sublist List.filter_sublist
        have hnd : ((keys e).filter (· ≠ idxMax)).Nodup := by
          have hp : ((keys e).filter (· ≠ idxMax)).Perm ((keys (markDups (insertionSort ent))).filter (· ≠ idxMax)) :=
            (hperm2.map Prod.fst).filter _
          exact hp.nodup_iff.mpr (markDups_nodup _ hs1 (fun a ha => Nat.ne_of_lt (hk1 a ha)))
        exact (hle.and hnd).imp (fun hab => Nat.lt_of_le_of_ne hab.1 hab.2)
      · intro j
        simp only [lookup]
        rw [hentries]
        by_cases hj : j = idxMax
        · subst hj
          rw [lookupLast_eq_none, lookupLast_eq_none]
          · intro p hp
            exact Nat.ne_of_lt (h.keys_lt p hp)
          · intro p hp
            have := (List.mem_filter.mp hp).2
            simpa using this
        · rw [lookupLast_filter _ _ _ (by intro p _ hpj; simp [hpj, hj]),
            insertionSort_lookup, markDups_lookup _ hs1 _ hj, insertionSort_lookup]
          rfl

theorem get_spec (zero : β) (s : SVec β) (h : SWF s) (i : Nat) :
    (s.get zero i).1 = (s.lookup i).getD zero ∧ SWF (s.get zero i).2 ∧
    (∀ j, (s.get zero i).2.lookup j = s.lookup j) ∧ (s.get zero i).2.size = s.size := by
  unfold SVec.get
  split
  · next he =>
    have hb : s.buf = [] := by simpa using he
    refine ⟨?_, h, fun _ => rfl, rfl⟩
    simp [lookup, entries, hb, lookupLast]
  · obtain ⟨h1, h2, h3, h4⟩ := sort_spec s h
    refine ⟨?_, h1, h3, h4⟩
    simp only
    rw [sparseGet_eq zero _ (h1.strict h2), ← h3 i, lookup]

theorem format_spec (setv : β → β) (s : SVec β) (h : SWF s) :
    SWF (s.format setv) ∧ (∀ j, (s.format setv).lookup j = (s.lookup j).map setv) ∧ (s.format setv).size = s.size := by
  have he : (s.format setv).entries = s.entries.map fun p => (p.1, setv p.2) := by
    simp [format, entries, List.map_take]
  have hk : keys (s.format setv).entries = keys s.entries := by
    rw [he]; simp [keys, List.map_map, Function.comp_def]
  refine ⟨⟨by simpa [format] using h.used_le, ?_, ?_, h.inc_pos⟩, ?_, rfl⟩
  · intro p hp
    rw [he] at hp
    obtain ⟨q, hq, rfl⟩ := List.mem_map.mp hp
    exact h.keys_lt q hq
  · intro hs
    rw [hk]
    exact h.strict hs
  · intro j
    simp only [lookup, he, lookupLast_map]

/-- a script step is admissible when a written index is below the maximal index (true for every index of a
vector whose size fits `Index`) -/
def SOp.ok : SOp β → Prop
  | .write i _ => i < idxMax
  | _ => True

theorem runScript_spec (fillv zero : β) (setv : β → β) (ops : List (SOp β)) (s : SVec β) (h : SWF s)
    (hops : ∀ op ∈ ops, op.ok) :
    (runScript fillv zero setv ops s).1 = (specScript zero setv ops s.lookup).1 ∧
    (∀ j, (runScript fillv zero setv ops s).2.lookup j = (specScript zero setv ops s.lookup).2 j) ∧
    SWF (runScript fillv zero setv ops s).2 ∧ (runScript fillv zero setv ops s).2.size = s.size := by
  induction ops generalizing s with
  | nil => exact ⟨rfl, fun _ => rfl, h, rfl⟩
  | cons op t ih =>
    have ht : ∀ op ∈ t, op.ok := fun o ho => hops o (by simp [ho])
    cases op with
    | write i v =>
      have hi : i < idxMax := hops (.write i v) (by simp)
      have hm : (s.write fillv i v).lookup = fun j => if j = i then some v else s.lookup j :=
        funext (lookup_write fillv s h i v)
      obtain ⟨h1, h2, h3, h4⟩ := ih (s.write fillv i v) (swf_write fillv s h i v hi) ht
      simp only [runScript, specScript]
      rw [hm] at h1 h2
      exact ⟨h1, h2, h3, by rw [h4, write_size]⟩
    | read i =>
      obtain ⟨g1, g2, g3, g4⟩ := get_spec zero s h i
      have hm : (s.get zero i).2.lookup = s.lookup := funext g3
      obtain ⟨h1, h2, h3, h4⟩ := ih (s.get zero i).2 g2 ht
      simp only [runScript, specScript]
      rw [hm] at h1 h2
      exact ⟨by rw [g1, h1], h2, h3, by rw [h4, g4]⟩
    | format =>
      obtain ⟨g1, g2, g3⟩ := format_spec setv s h
      have hm : (s.format setv).lookup = fun j => (s.lookup j).map setv := funext g2
      obtain ⟨h1, h2, h3, h4⟩ := ih (s.format setv) g1 ht
      simp only [runScript, specScript]
      rw [hm] at h1 h2
      exact ⟨h1, h2, h3, by rw [h4, g3]⟩
    | used =>
      obtain ⟨g1, _, g3, g4⟩ := sort_spec s h
      have hm : s.sort.lookup = s.lookup := funext g3
      obtain ⟨h1, h2, h3, h4⟩ := ih s.sort g1 ht
      simp only [runScript, specScript, usedElements]
      rw [hm] at h1 h2
      exact ⟨h1, h2, h3, by rw [h4, g4]⟩

end FeatModel.Vec
