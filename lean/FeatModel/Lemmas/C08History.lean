import FeatModel.Model.Solver.History
import FeatModel.Lemmas.C08IluOffs
/-! C08: the state machine — `init_numeric` overwrites every piece of value-dependent data, so the next `apply`
reflects the current matrix values whatever happened before. -/
namespace FeatModel.Solver
open FeatModel.LA

variable {α : Type}

/-- two solver states agree on what `init_symbolic` produced -/
def SymEq (st st' : PState α) : Prop := st.invD.size = st'.invD.size ∧ st.iluS = st'.iluS

/-- what `init_symbolic` guarantees about the ILU part of the object: proper offset arrays and data arrays of the
    matching sizes (`alloc_data`) — kept by every later step -/
def StOk (st : PState α) : Prop := ∀ s, st.iluS = some s → s.OffsOk ∧ st.iluN.Sz s

/-- two matrices share layout and pattern -/
def SamePattern (A B : Csr α) : Prop :=
  A.rows = B.rows ∧ A.cols = B.cols ∧ A.rowPtr = B.rowPtr ∧ A.colInd = B.colInd

/-- steps that leave the symbolic state alone -/
def Step.numericPhase : Step α → Bool
  | .initNumeric | .apply _ | .update _ | .doneNumeric | .applyIn _ => true
  | _ => false

theorem SymEq.refl (st : PState α) : SymEq st st := ⟨rfl, rfl⟩
theorem SymEq.trans {a b c : PState α} (h1 : SymEq a b) (h2 : SymEq b c) : SymEq a c :=
  ⟨h1.1.trans h2.1, h1.2.trans h2.2⟩

theorem samePattern_update (A : Csr α) (v : Array α) : SamePattern { A with val := v } A := ⟨rfl, rfl, rfl, rfl⟩

theorem update_eq_of_samePattern {A B : Csr α} (h : SamePattern A B) (v : Array α) :
    { A with val := v } = { B with val := v } := by
  obtain ⟨h1, h2, h3, h4⟩ := h
  cases A; cases B
  simp only at h1 h2 h3 h4
  subst h1 h2 h3 h4
  rfl

section
variable [Zero α] [One α] [Add α] [Sub α] [Mul α] [Div α] [Neg α] [OfNat α 777] [DecidableEq α]

theorem invDiag_size (ω : α) (A : Csr α) : (invDiag ω A).size = A.rows := by
  simp [invDiag, extractDiag]

/-- `init_numeric` keeps the symbolic state -/
theorem initNumeric_symEq (c : Cfg α) (A : Csr α) (st st' : PState α) (h : initNumeric c A st = .ok st') :
    SymEq st' st := by
  unfold initNumeric at h
  have hjp : ∀ (h : (if (st.invD.size != A.rows || A.rows != A.cols) = true then Except.error Stop.abort
        else if ((extractDiag A).any fun x => decide (x = 0)) = true then Except.error Stop.abort
        else Except.ok { st with invD := invDiag c.ω A }) = Except.ok st'), SymEq st' st := by
    intro h
    by_cases h1 : (st.invD.size != A.rows || A.rows != A.cols) = true
    · rw [if_pos h1] at h; cases h
    · rw [if_neg h1] at h
      by_cases h2 : ((extractDiag A).any fun x => decide (x = 0)) = true
      · rw [if_pos h2] at h; cases h
      · rw [if_neg h2] at h
        cases h
        simp only [bne_iff_ne, ne_eq, Bool.or_eq_true, not_or, Decidable.not_not] at h1
        exact ⟨by simp only [invDiag_size]; exact h1.1.symm, rfl⟩
  cases hk : c.kind <;> simp only [hk] at h
  · exact hjp h
  · cases h; exact SymEq.refl _
  · cases h; exact SymEq.refl _
  · exact hjp h
  · cases hs : st.iluS with
    | none => simp only [hs] at h; cases h; exact SymEq.refl _
    | some s =>
      simp only [hs] at h
      split at h
      · cases h
      · cases h; exact ⟨rfl, hs.symm ▸ rfl⟩
  · cases h; exact SymEq.refl _
  · cases h; exact SymEq.refl _
  · cases h; exact SymEq.refl _

/-- the heart of the refresh property: `init_numeric; apply` depends on the previous state only through its
    symbolic part — stale factors / stale inverted diagonals cannot survive an `init_numeric` -/
theorem initNumeric_apply_indep (tiny : α → Bool) (c : Cfg α) (A : Csr α) (st st' : PState α) (h : SymEq st st')
    (hok : StOk st) (hok' : StOk st') (x : Array α) :
    (initNumeric c A st).bind (fun s => applyStep tiny c A s x)
      = (initNumeric c A st').bind (fun s => applyStep tiny c A s x) := by
  obtain ⟨h1, h2⟩ := h
  unfold initNumeric
  cases hk : c.kind <;> simp only [h1, h2]
  · -- jacobi
    split
    · rfl
    · split
      · rfl
      · simp only [Except.bind, applyStep, applyCore, hk]
  · simp only [Except.bind, applyStep, applyCore, hk]
  · simp only [Except.bind, applyStep, applyCore, hk]
  · -- polynomial
    split
    · rfl
    · split
      · rfl
      · simp only [Except.bind, applyStep, applyCore, hk]
  · -- ilu
    cases hs : st'.iluS with
    | none => simp only [Except.bind, applyStep, applyCore, hk]; rw [h2, hs]
    | some s =>
      have e : copyDataCsr s A st.iluN = copyDataCsr s A st'.iluN :=
        copy_resets_fill s (hok' s hs).1 A _ _ (hok s (h2.trans hs)).2 (hok' s hs).2
      simp only [e]
      split
      · rfl
      · simp only [Except.bind, applyStep, applyCore, hk]
  · simp only [Except.bind, applyStep, applyCore, hk]
  · simp only [Except.bind, applyStep, applyCore, hk]
  · simp only [Except.bind, applyStep, applyCore, hk]

/-- the part of the symbolic state that the kind of the object actually uses -/
def SymEqK (c : Cfg α) (st st' : PState α) : Prop :=
  ((c.kind = .jacobi ∨ ∃ m, c.kind = .poly m) → st.invD.size = st'.invD.size) ∧
  ((∃ p, c.kind = .ilu p) → st.iluS = st'.iluS)

theorem SymEq.toK {c : Cfg α} {st st' : PState α} (h : SymEq st st') : SymEqK c st st' :=
  ⟨fun _ => h.1, fun _ => h.2⟩

/-- `initNumeric_apply_indep` with the kind-relative equivalence (an object of another kind never touches the
    fields it does not use, so they may differ arbitrarily) -/
theorem initNumeric_apply_indepK (tiny : α → Bool) (c : Cfg α) (A : Csr α) (st st' : PState α) (h : SymEqK c st st')
    (hok : StOk st) (hok' : StOk st') (x : Array α) :
    (initNumeric c A st).bind (fun s => applyStep tiny c A s x)
      = (initNumeric c A st').bind (fun s => applyStep tiny c A s x) := by
  unfold initNumeric
  cases hk : c.kind
  case jacobi =>
    have h1 := h.1 (Or.inl hk)
    simp only [h1]
    split
    · rfl
    · split
      · rfl
      · simp only [Except.bind, applyStep, applyCore, hk]
  case poly m =>
    have h1 := h.1 (Or.inr ⟨m, hk⟩)
    simp only [h1]
    split
    · rfl
    · split
      · rfl
      · simp only [Except.bind, applyStep, applyCore, hk]
  case ilu p =>
    have h2 := h.2 ⟨p, hk⟩
    simp only [h2]
    cases hs : st'.iluS with
    | none => simp only [Except.bind, applyStep, applyCore, hk]; rw [h2, hs]
    | some s =>
      have e : copyDataCsr s A st.iluN = copyDataCsr s A st'.iluN :=
        copy_resets_fill s (hok' s hs).1 A _ _ (hok s (h2.trans hs)).2 (hok' s hs).2
      simp only [e]
      split
      · rfl
      · simp only [Except.bind, applyStep, applyCore, hk]
  all_goals simp only [Except.bind, applyStep, applyCore, hk]

/-- `init_symbolic` succeeds or fails independently of the previous state, and the part of the state the kind uses
    is the same -/
theorem initSymbolic_ok_indep (c : Cfg α) (A : Csr α) (st st' s : PState α) (h : initSymbolic c A st = .ok s) :
    ∃ s', initSymbolic c A st' = .ok s' ∧ SymEqK c s s' := by
  unfold initSymbolic at h ⊢
  cases hk : c.kind <;> simp only [hk] at h ⊢
  case ilu p =>
    split at h
    · cases h
    · rename_i hsq
      rw [if_neg hsq]
      cases hs0 : setStructCsr A.rows A.rowPtr A.colInd with
      | none => simp only [hs0] at h; cases h
      | some s0 =>
        simp only [hs0] at h ⊢
        cases h
        exact ⟨_, rfl, fun h' => by rcases h' with h' | ⟨m, h'⟩ <;> simp [hk] at h', fun _ => rfl⟩
  case jacobi =>
    cases h
    exact ⟨_, rfl, fun _ => by simp, fun ⟨p, hp⟩ => by simp [hk] at hp⟩
  case poly m =>
    cases h
    exact ⟨_, rfl, fun _ => by simp, fun ⟨p, hp⟩ => by simp [hk] at hp⟩
  all_goals
    cases h
    exact ⟨_, rfl, fun h' => by rcases h' with h' | ⟨m, h'⟩ <;> simp [hk] at h', fun ⟨p, hp⟩ => by simp [hk] at hp⟩

/-- `init_numeric` keeps the invariant (`copy_data` and the factorisation work in place on arrays of fixed size) -/
theorem initNumeric_stOk (c : Cfg α) (A : Csr α) (st st' : PState α) (h : initNumeric c A st = .ok st')
    (hok : StOk st) : StOk st' := by
  unfold initNumeric at h
  cases hk : c.kind <;> simp only [hk] at h
  case sor => cases h; exact hok
  case ssor => cases h; exact hok
  case matrix => cases h; exact hok
  case scale => cases h; exact hok
  case diagonal => cases h; exact hok
  case ilu p =>
    cases hs : st.iluS with
    | none => simp only [hs] at h; cases h; exact hok
    | some s =>
      simp only [hs] at h
      split at h
      · cases h
      · cases h
        intro s' hs'
        cases hs'
        exact ⟨(hok s hs).1, factorizeNumeric_sz s _ (copyDataCsr_sz s A _ (hok s hs).2)⟩
  all_goals
    split at h
    · cases h
    · split at h
      · cases h
      · cases h; exact hok

/-- `init_symbolic` establishes the invariant, whatever the matrix is -/
theorem initSymbolic_stOk (c : Cfg α) (A : Csr α) (st st' : PState α) (h : initSymbolic c A st = .ok st')
    (hok : StOk st) : StOk st' := by
  unfold initSymbolic at h
  cases hk : c.kind <;> simp only [hk] at h
  case ilu p =>
    split at h
    · cases h
    · cases hs0 : setStructCsr A.rows A.rowPtr A.colInd with
      | none => simp only [hs0] at h; cases h
      | some s0 =>
        simp only [hs0] at h
        cases h
        intro s' hs'
        simp only [Option.some.injEq] at hs'
        subst hs'
        exact ⟨(factorizeSymbolic_offsOk s0 (setStructCsr_offsOk _ _ _ s0 hs0).1 p).1, allocData_sz _⟩
  all_goals (cases h; exact hok)

/-- `init_symbolic` looks at the layout and the pattern only -/
theorem initSymbolic_pattern (c : Cfg α) {A B : Csr α} (h : SamePattern A B) (st : PState α) :
    initSymbolic c A st = initSymbolic c B st := by
  obtain ⟨h1, h2, h3, h4⟩ := h
  unfold initSymbolic
  simp only [h1, h2, h3, h4]

/-- a stretch of `init_numeric` / `apply` / value-update steps either stops abnormally or hands over to the rest
    of the history with the same pattern and the same symbolic state -/
theorem runSteps_numericPhase (tiny : α → Bool) (c : Cfg α) (rest : List (Step α)) :
    ∀ (hist : List (Step α)), (∀ s ∈ hist, s.numericPhase = true) → ∀ (A : Csr α) (st : PState α) (acc : List (Array α)),
      StOk st →
      (∃ e, runSteps tiny c A st (hist ++ rest) acc = .error e) ∨
      ∃ A' st' acc', SamePattern A' A ∧ SymEq st' st ∧ StOk st' ∧
        runSteps tiny c A st (hist ++ rest) acc = runSteps tiny c A' st' rest acc'
  | [], _, A, st, acc, hok => Or.inr ⟨A, st, acc, ⟨rfl, rfl, rfl, rfl⟩, SymEq.refl _, hok, rfl⟩
  | s :: hist, hall, A, st, acc, hok => by
    have hs := hall s (List.mem_cons_self ..)
    have hrest : ∀ t ∈ hist, t.numericPhase = true := fun t ht => hall t (List.mem_cons_of_mem _ ht)
    cases s with
    | initSymbolic => simp [Step.numericPhase] at hs
    | done => simp [Step.numericPhase] at hs
    | initNumeric =>
      simp only [List.cons_append, runSteps]
      cases hn : initNumeric c A st with
      | error e => exact Or.inl ⟨e, rfl⟩
      | ok st1 =>
        rcases runSteps_numericPhase tiny c rest hist hrest A st1 acc (initNumeric_stOk c A st st1 hn hok) with
          ⟨e, he⟩ | ⟨A', st', acc', hp, hq, hk, hr⟩
        · exact Or.inl ⟨e, he⟩
        · exact Or.inr ⟨A', st', acc', hp, hq.trans (initNumeric_symEq c A st st1 hn), hk, hr⟩
    | apply x =>
      simp only [List.cons_append, runSteps]
      cases hn : applyStep tiny c A st x with
      | error e => exact Or.inl ⟨e, rfl⟩
      | ok y => exact runSteps_numericPhase tiny c rest hist hrest A st (y :: acc) hok
    | doneNumeric =>
      simp only [List.cons_append, runSteps]
      exact runSteps_numericPhase tiny c rest hist hrest A st acc hok
    | applyIn x =>
      simp only [List.cons_append, runSteps]
      cases hn : applyInStep tiny c A st x with
      | error e => exact Or.inl ⟨e, rfl⟩
      | ok y => exact runSteps_numericPhase tiny c rest hist hrest A st (y :: acc) hok
    | update v =>
      simp only [List.cons_append, runSteps]
      rcases runSteps_numericPhase tiny c rest hist hrest { A with val := v } st acc hok with
        ⟨e, he⟩ | ⟨A', st', acc', hp, hq, hk, hr⟩
      · exact Or.inl ⟨e, he⟩
      · refine Or.inr ⟨A', st', acc', ?_, hq, hk, hr⟩
        obtain ⟨p1, p2, p3, p4⟩ := hp
        exact ⟨p1, p2, p3, p4⟩

/-- the final `update v; init_numeric; apply x` of a history, spelled out -/
theorem runSteps_tail (tiny : α → Bool) (c : Cfg α) (A : Csr α) (st : PState α) (acc : List (Array α))
    (v x : Array α) :
    runSteps tiny c A st [.update v, .initNumeric, .apply x] acc
      = ((initNumeric c { A with val := v } st).bind (fun s => applyStep tiny c { A with val := v } s x)).map
          (fun y => (y :: acc).reverse) := by
  simp only [runSteps]
  cases initNumeric c { A with val := v } st with
  | error e => rfl
  | ok s =>
    simp only [Except.bind]
    cases applyStep tiny c { A with val := v } s x with
    | error e => rfl
    | ok y => rfl

/-- **refresh theorem.** On one solver object, after `init_symbolic` and ANY sequence of `init_numeric` / `apply` /
    value-update steps, the steps `update v; init_numeric; apply x` produce exactly the output of a brand-new object
    that is initialised on the matrix with the values `v` and applied to `x`. -/
theorem history_refresh (tiny : α → Bool) (c : Cfg α) (A : Csr α) (hist : List (Step α))
    (hnum : ∀ s ∈ hist, s.numericPhase = true) (v x : Array α) (outs : List (Array α))
    (hrun : runSteps tiny c A PState.empty (.initSymbolic :: (hist ++ [.update v, .initNumeric, .apply x])) []
      = .ok outs) :
    ∃ y, outs.getLast? = some y ∧
      runSteps tiny c { A with val := v } PState.empty [.initSymbolic, .initNumeric, .apply x] [] = .ok [y] := by
  simp only [runSteps] at hrun
  have hpat : initSymbolic c { A with val := v } PState.empty = initSymbolic c A (PState.empty : PState α) :=
    initSymbolic_pattern c (samePattern_update A v) _
  cases hsym : initSymbolic c A (PState.empty : PState α) with
  | error e => rw [hsym] at hrun; cases hrun
  | ok st0 =>
    rw [hsym] at hrun
    simp only at hrun
    have hempty : StOk (PState.empty : PState α) := fun s hs => by simp [PState.empty] at hs
    have hok0 : StOk st0 := initSymbolic_stOk c A _ st0 hsym hempty
    rcases runSteps_numericPhase tiny c [.update v, .initNumeric, .apply x] hist hnum A st0 [] hok0 with
      ⟨e, he⟩ | ⟨A', st', acc', hp, hq, hk, hr⟩
    · rw [he] at hrun; cases hrun
    · rw [hr, runSteps_tail, update_eq_of_samePattern hp v,
        initNumeric_apply_indep tiny c _ st' st0 hq hk hok0 x] at hrun
      have hfresh : runSteps tiny c { A with val := v } PState.empty [.initSymbolic, .initNumeric, .apply x] []
          = ((initNumeric c { A with val := v } st0).bind
              (fun s => applyStep tiny c { A with val := v } s x)).map (fun y => [y]) := by
        simp only [runSteps, hpat, hsym]
        cases initNumeric c { A with val := v } st0 with
        | error e => rfl
        | ok s =>
          simp only [Except.bind]
          cases applyStep tiny c { A with val := v } s x with
          | error e => rfl
          | ok y => rfl
      rw [hfresh]
      cases hb : (initNumeric c { A with val := v } st0).bind (fun s => applyStep tiny c { A with val := v } s x) with
      | error e => rw [hb] at hrun; cases hrun
      | ok y =>
        rw [hb] at hrun
        simp only [Except.map] at hrun
        cases hrun
        exact ⟨y, by simp, rfl⟩

/-- the matrix after the value updates of a history -/
def matAfter (A : Csr α) : List (Step α) → Csr α
  | [] => A
  | .update v :: r => matAfter { A with val := v } r
  | _ :: r => matAfter A r

theorem matAfter_append : ∀ (h : List (Step α)) (B : Csr α) (r : List (Step α)),
    matAfter B (h ++ r) = matAfter (matAfter B h) r
  | [], _, _ => rfl
  | s :: h, B, r => by
    cases s <;> simp only [List.cons_append, matAfter] <;> exact matAfter_append h _ r

/-- steps that only apply the preconditioner -/
def Step.applyOnly : Step α → Bool
  | .apply _ | .applyIn _ => true
  | _ => false

theorem matAfter_pattern : ∀ (h : List (Step α)) (A : Csr α), SamePattern (matAfter A h) A
  | [], A => ⟨rfl, rfl, rfl, rfl⟩
  | s :: r, A => by
    cases s <;> simp only [matAfter]
    all_goals first
      | exact matAfter_pattern r A
      | (obtain ⟨p1, p2, p3, p4⟩ := matAfter_pattern r { A with val := _ }; exact ⟨p1, p2, p3, p4⟩)

theorem doneSymbolic_stOk (c : Cfg α) (st : PState α) (hok : StOk st) : StOk (doneSymbolic c st) := by
  unfold doneSymbolic
  cases c.kind <;> simp only
  all_goals first
    | exact hok
    | (intro s hs; simp [PState.empty] at hs)

/-- any stretch of steps either stops abnormally or hands over with the updated matrix and a state that still
    satisfies the invariant; if the stretch contains no `init_symbolic` / `done_symbolic`, the symbolic state is kept -/
theorem runSteps_phase (tiny : α → Bool) (c : Cfg α) (rest : List (Step α)) :
    ∀ (hist : List (Step α)) (A : Csr α) (st : PState α) (acc : List (Array α)), StOk st →
      (∃ e, runSteps tiny c A st (hist ++ rest) acc = .error e) ∨
      ∃ st' acc', StOk st' ∧ ((∀ s ∈ hist, s.numericPhase = true) → SymEq st' st) ∧
        runSteps tiny c A st (hist ++ rest) acc = runSteps tiny c (matAfter A hist) st' rest acc'
  | [], A, st, acc, hok => Or.inr ⟨st, acc, hok, fun _ => SymEq.refl _, rfl⟩
  | s :: hist, A, st, acc, hok => by
    have keep : ∀ (B : Csr α) (st1 : PState α) (acc1 : List (Array α)), StOk st1 →
        ((s.numericPhase = true) → SymEq st1 st) → matAfter A (s :: hist) = matAfter B hist →
        runSteps tiny c A st (s :: hist ++ rest) acc = runSteps tiny c B st1 (hist ++ rest) acc1 →
        (∃ e, runSteps tiny c A st (s :: hist ++ rest) acc = .error e) ∨
        ∃ st' acc', StOk st' ∧ ((∀ t ∈ s :: hist, t.numericPhase = true) → SymEq st' st) ∧
          runSteps tiny c A st (s :: hist ++ rest) acc = runSteps tiny c (matAfter A (s :: hist)) st' rest acc' := by
      intro B st1 acc1 hok1 hsym hmat hrun
      rcases runSteps_phase tiny c rest hist B st1 acc1 hok1 with ⟨e, he⟩ | ⟨st', acc', hk, hq, hr⟩
      · exact Or.inl ⟨e, hrun.trans he⟩
      · refine Or.inr ⟨st', acc', hk, ?_, ?_⟩
        · intro hall
          exact (hq (fun t ht => hall t (List.mem_cons_of_mem _ ht))).trans (hsym (hall s (List.mem_cons_self ..)))
        · rw [hmat]; exact hrun.trans hr
    cases s with
    | initSymbolic =>
      simp only [List.cons_append, runSteps]
      cases hn : initSymbolic c A st with
      | error e => exact Or.inl ⟨e, rfl⟩
      | ok st1 =>
        have := keep A st1 acc (initSymbolic_stOk c A st st1 hn hok) (fun h => by simp [Step.numericPhase] at h) rfl
          (by simp only [List.cons_append, runSteps, hn])
        simpa only [List.cons_append, runSteps, hn] using this
    | initNumeric =>
      simp only [List.cons_append, runSteps]
      cases hn : initNumeric c A st with
      | error e => exact Or.inl ⟨e, rfl⟩
      | ok st1 =>
        have := keep A st1 acc (initNumeric_stOk c A st st1 hn hok) (fun _ => initNumeric_symEq c A st st1 hn) rfl
          (by simp only [List.cons_append, runSteps, hn])
        simpa only [List.cons_append, runSteps, hn] using this
    | apply x =>
      simp only [List.cons_append, runSteps]
      cases hn : applyStep tiny c A st x with
      | error e => exact Or.inl ⟨e, rfl⟩
      | ok y =>
        have := keep A st (y :: acc) hok (fun _ => SymEq.refl _) rfl (by simp only [List.cons_append, runSteps, hn])
        simpa only [List.cons_append, runSteps, hn] using this
    | applyIn x =>
      simp only [List.cons_append, runSteps]
      cases hn : applyInStep tiny c A st x with
      | error e => exact Or.inl ⟨e, rfl⟩
      | ok y =>
        have := keep A st (y :: acc) hok (fun _ => SymEq.refl _) rfl (by simp only [List.cons_append, runSteps, hn])
        simpa only [List.cons_append, runSteps, hn] using this
    | update v =>
      have := keep { A with val := v } st acc hok (fun _ => SymEq.refl _) rfl (by simp only [List.cons_append, runSteps])
      simpa only [List.cons_append, runSteps] using this
    | done =>
      have := keep A (doneSymbolic c st) acc (doneSymbolic_stOk c st hok) (fun h => by simp [Step.numericPhase] at h) rfl
        (by simp only [List.cons_append, runSteps])
      simpa only [List.cons_append, runSteps] using this
    | doneNumeric =>
      have := keep A st acc hok (fun _ => SymEq.refl _) rfl (by simp only [List.cons_append, runSteps])
      simpa only [List.cons_append, runSteps] using this

/-- a stretch of `apply` steps changes neither the matrix nor the state -/
theorem runSteps_applyOnly (tiny : α → Bool) (c : Cfg α) (rest : List (Step α)) :
    ∀ (tail : List (Step α)), (∀ s ∈ tail, s.applyOnly = true) → ∀ (A : Csr α) (st : PState α) (acc : List (Array α)),
      (∃ e, runSteps tiny c A st (tail ++ rest) acc = .error e) ∨
      ∃ acc', runSteps tiny c A st (tail ++ rest) acc = runSteps tiny c A st rest acc'
  | [], _, A, st, acc => Or.inr ⟨acc, rfl⟩
  | s :: tail, hall, A, st, acc => by
    have hs := hall s (List.mem_cons_self ..)
    have hrest : ∀ t ∈ tail, t.applyOnly = true := fun t ht => hall t (List.mem_cons_of_mem _ ht)
    cases s with
    | apply x =>
      simp only [List.cons_append, runSteps]
      cases hn : applyStep tiny c A st x with
      | error e => exact Or.inl ⟨e, rfl⟩
      | ok y => exact runSteps_applyOnly tiny c rest tail hrest A st (y :: acc)
    | applyIn x =>
      simp only [List.cons_append, runSteps]
      cases hn : applyInStep tiny c A st x with
      | error e => exact Or.inl ⟨e, rfl⟩
      | ok y => exact runSteps_applyOnly tiny c rest tail hrest A st (y :: acc)
    | initSymbolic => simp [Step.applyOnly] at hs
    | initNumeric => simp [Step.applyOnly] at hs
    | update v => simp [Step.applyOnly] at hs
    | done => simp [Step.applyOnly] at hs
    | doneNumeric => simp [Step.applyOnly] at hs

/-- **history theorem.**  Take ANY history on one solver object of the form
    `pre ++ init_symbolic :: mid ++ init_numeric :: tail ++ [apply x]`, where `pre` is arbitrary (earlier life of the
    object, including `done` / re-initialisation and value changes), `mid` contains no `init_symbolic` / `done_symbolic`
    (but any `init_numeric`, `done_numeric`, `apply`, value changes) and `tail` only applies — i.e. the last
    `init_numeric` follows the last value change and no new `init_symbolic` was needed.  Then the last output is exactly
    what a brand-new object returns for `x` on the CURRENT matrix `matAfter A (pre ++ init_symbolic :: mid)`. -/
theorem history_full (tiny : α → Bool) (c : Cfg α) (A : Csr α) (pre mid tail : List (Step α))
    (hmid : ∀ s ∈ mid, s.numericPhase = true) (htail : ∀ s ∈ tail, s.applyOnly = true) (x : Array α)
    (outs : List (Array α))
    (hrun : runSteps tiny c A PState.empty
      (pre ++ (.initSymbolic :: (mid ++ (.initNumeric :: (tail ++ [.apply x]))))) [] = .ok outs) :
    ∃ y, outs.getLast? = some y ∧
      runSteps tiny c (matAfter A (pre ++ (.initSymbolic :: mid))) PState.empty
        [.initSymbolic, .initNumeric, .apply x] [] = .ok [y] := by
  have hempty : StOk (PState.empty : PState α) := fun s hs => by simp [PState.empty] at hs
  have hmat : matAfter A (pre ++ (.initSymbolic :: mid)) = matAfter (matAfter A pre) mid := by
    rw [matAfter_append]; rfl
  rcases runSteps_phase tiny c _ pre A PState.empty [] hempty with ⟨e, he⟩ | ⟨st1, acc1, hok1, _, hr1⟩
  · rw [he] at hrun; cases hrun
  rw [hr1] at hrun
  simp only [runSteps] at hrun
  cases hsym : initSymbolic c (matAfter A pre) st1 with
  | error e => rw [hsym] at hrun; cases hrun
  | ok st2 =>
    rw [hsym] at hrun
    simp only at hrun
    have hok2 := initSymbolic_stOk c _ st1 st2 hsym hok1
    rcases runSteps_phase tiny c _ mid (matAfter A pre) st2 acc1 hok2 with ⟨e, he⟩ | ⟨st3, acc3, hok3, hq3, hr3⟩
    · rw [he] at hrun; cases hrun
    rw [hr3] at hrun
    simp only [runSteps] at hrun
    rw [← hmat] at hrun
    generalize hB : matAfter A (pre ++ (.initSymbolic :: mid)) = B at hrun ⊢
    cases hnum : initNumeric c B st3 with
    | error e => rw [hnum] at hrun; cases hrun
    | ok st4 =>
      rw [hnum] at hrun
      simp only at hrun
      rcases runSteps_applyOnly tiny c [.apply x] tail htail B st4 acc3 with ⟨e, he⟩ | ⟨acc4, hr4⟩
      · rw [he] at hrun; cases hrun
      rw [hr4] at hrun
      simp only [runSteps] at hrun
      -- the fresh object on the current matrix
      have hpatB : SamePattern B (matAfter A pre) := by
        rw [← hB, hmat]; exact matAfter_pattern mid _
      obtain ⟨st0, hs0, hk0⟩ := initSymbolic_ok_indep c (matAfter A pre) st1 PState.empty st2 hsym
      have hs0' : initSymbolic c B (PState.empty : PState α) = .ok st0 := by
        rw [initSymbolic_pattern c hpatB]; exact hs0
      have hok0 : StOk st0 := initSymbolic_stOk c _ _ st0 hs0 hempty
      have hK : SymEqK c st3 st0 :=
        ⟨fun h => ((hq3 hmid).1).trans (hk0.1 h), fun h => ((hq3 hmid).2).trans (hk0.2 h)⟩
      have hind := initNumeric_apply_indepK tiny c B st3 st0 hK hok3 hok0 x
      rw [hnum] at hind
      have hind' : applyStep tiny c B st4 x = (initNumeric c B st0).bind (fun s => applyStep tiny c B s x) := hind
      have hfresh : runSteps tiny c B PState.empty [.initSymbolic, .initNumeric, .apply x] []
          = ((initNumeric c B st0).bind (fun s => applyStep tiny c B s x)).map (fun y => [y]) := by
        simp only [runSteps, hs0']
        cases initNumeric c B st0 with
        | error e => rfl
        | ok s =>
          simp only [Except.bind]
          cases applyStep tiny c B s x with
          | error e => rfl
          | ok y => rfl
      rw [hfresh, ← hind']
      cases hap : applyStep tiny c B st4 x with
      | error e => rw [hap] at hrun; cases hrun
      | ok y =>
        rw [hap] at hrun
        simp only at hrun
        cases hrun
        exact ⟨y, by simp, rfl⟩

end

end FeatModel.Solver