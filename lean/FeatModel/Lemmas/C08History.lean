import FeatModel.Model.Solver.History
import FeatModel.Lemmas.C08IluOffs
/-! C08: the state machine — `init_numeric` overwrites every piece of value-dependent data, so the next `apply`
reflects the current matrix values whatever happened before. -/
namespace FeatModel.Solver
open FeatModel.LA

variable {α : Type}

/-- two solver states agree on what `init_symbolic` produced -/
def SymEq (st st' : PState α) : Prop := st.invD.size = st'.invD.size ∧ st.iluS = st'.iluS

/-- what `init_symbolic` guarantees about the ILU part of the object: proper offset arrays and data arrays of the
    matching sizes (`alloc_data`) — kept by every later step -/
def StOk (st : PState α) : Prop := ∀ s, st.iluS = some s → s.OffsOk ∧ st.iluN.Sz s

/-- two matrices share layout and pattern -/
def SamePattern (A B : Csr α) : Prop :=
  A.rows = B.rows ∧ A.cols = B.cols ∧ A.rowPtr = B.rowPtr ∧ A.colInd = B.colInd

/-- steps that leave the symbolic state alone -/
def Step.numericPhase : Step α → Bool
  | .initNumeric | .apply _ | .update _ => true
  | _ => false

theorem SymEq.refl (st : PState α) : SymEq st st := ⟨rfl, rfl⟩
theorem SymEq.trans {a b c : PState α} (h1 : SymEq a b) (h2 : SymEq b c) : SymEq a c :=
  ⟨h1.1.trans h2.1, h1.2.trans h2.2⟩

theorem samePattern_update (A : Csr α) (v : Array α) : SamePattern { A with val := v } A := ⟨rfl, rfl, rfl, rfl⟩

theorem update_eq_of_samePattern {A B : Csr α} (h : SamePattern A B) (v : Array α) :
    { A with val := v } = { B with val := v } := by
  obtain ⟨h1, h2, h3, h4⟩ := h
  cases A; cases B
  simp only at h1 h2 h3 h4
  subst h1 h2 h3 h4
  rfl

section
variable [Zero α] [One α] [Add α] [Sub α] [Mul α] [Div α] [Neg α] [OfNat α 777] [DecidableEq α]

theorem invDiag_size (ω : α) (A : Csr α) : (invDiag ω A).size = A.rows := by
  simp [invDiag, extractDiag]

/-- `init_numeric` keeps the symbolic state -/
theorem initNumeric_symEq (c : Cfg α) (A : Csr α) (st st' : PState α) (h : initNumeric c A st = .ok st') :
    SymEq st' st := by
  unfold initNumeric at h
  have hjp : ∀ (h : (if (st.invD.size != A.rows || A.rows != A.cols) = true then Except.error Stop.abort
        else if ((extractDiag A).any fun x => decide (x = 0)) = true then Except.error Stop.abort
        else Except.ok { st with invD := invDiag c.ω A }) = Except.ok st'), SymEq st' st := by
    intro h
    by_cases h1 : (st.invD.size != A.rows || A.rows != A.cols) = true
    · rw [if_pos h1] at h; cases h
    · rw [if_neg h1] at h
      by_cases h2 : ((extractDiag A).any fun x => decide (x = 0)) = true
      · rw [if_pos h2] at h; cases h
      · rw [if_neg h2] at h
        cases h
        simp only [bne_iff_ne, ne_eq, Bool.or_eq_true, not_or, Decidable.not_not] at h1
        exact ⟨by simp only [invDiag_size]; exact h1.1.symm, rfl⟩
  cases hk : c.kind <;> simp only [hk] at h
  · exact hjp h
  · cases h; exact SymEq.refl _
  · cases h; exact SymEq.refl _
  · exact hjp h
  · cases hs : st.iluS with
    | none => simp only [hs] at h; cases h; exact SymEq.refl _
    | some s =>
      simp only [hs] at h
      split at h
      · cases h
      · cases h; exact ⟨rfl, hs.symm ▸ rfl⟩
  · cases h; exact SymEq.refl _

/-- the heart of the refresh property: `init_numeric; apply` depends on the previous state only through its
    symbolic part — stale factors / stale inverted diagonals cannot survive an `init_numeric` -/
theorem initNumeric_apply_indep (tiny : α → Bool) (c : Cfg α) (A : Csr α) (st st' : PState α) (h : SymEq st st')
    (hok : StOk st) (hok' : StOk st') (x : Array α) :
    (initNumeric c A st).bind (fun s => applyStep tiny c A s x)
      = (initNumeric c A st').bind (fun s => applyStep tiny c A s x) := by
  obtain ⟨h1, h2⟩ := h
  unfold initNumeric
  cases hk : c.kind <;> simp only [h1, h2]
  · -- jacobi
    split
    · rfl
    · split
      · rfl
      · simp only [Except.bind, applyStep, hk]
  · simp only [Except.bind, applyStep, hk]
  · simp only [Except.bind, applyStep, hk]
  · -- polynomial
    split
    · rfl
    · split
      · rfl
      · simp only [Except.bind, applyStep, hk]
  · -- ilu
    cases hs : st'.iluS with
    | none => simp only [Except.bind, applyStep, hk]; rw [h2, hs]
    | some s =>
      have e : copyDataCsr s A st.iluN = copyDataCsr s A st'.iluN :=
        copy_resets_fill s (hok' s hs).1 A _ _ (hok s (h2.trans hs)).2 (hok' s hs).2
      simp only [e]
      split
      · rfl
      · simp only [Except.bind, applyStep, hk]
  · simp only [Except.bind, applyStep, hk]

/-- `init_numeric` keeps the invariant (`copy_data` and the factorisation work in place on arrays of fixed size) -/
theorem initNumeric_stOk (c : Cfg α) (A : Csr α) (st st' : PState α) (h : initNumeric c A st = .ok st')
    (hok : StOk st) : StOk st' := by
  unfold initNumeric at h
  cases hk : c.kind <;> simp only [hk] at h
  case sor => cases h; exact hok
  case ssor => cases h; exact hok
  case matrix => cases h; exact hok
  case ilu p =>
    cases hs : st.iluS with
    | none => simp only [hs] at h; cases h; exact hok
    | some s =>
      simp only [hs] at h
      split at h
      · cases h
      · cases h
        intro s' hs'
        cases hs'
        exact ⟨(hok s hs).1, factorizeNumeric_sz s _ (copyDataCsr_sz s A _ (hok s hs).2)⟩
  all_goals
    split at h
    · cases h
    · split at h
      · cases h
      · cases h; exact hok

/-- `init_symbolic` establishes the invariant, whatever the matrix is -/
theorem initSymbolic_stOk (c : Cfg α) (A : Csr α) (st st' : PState α) (h : initSymbolic c A st = .ok st')
    (hok : StOk st) : StOk st' := by
  unfold initSymbolic at h
  cases hk : c.kind <;> simp only [hk] at h
  case ilu p =>
    split at h
    · cases h
    · cases hs0 : setStructCsr A.rows A.rowPtr A.colInd with
      | none => simp only [hs0] at h; cases h
      | some s0 =>
        simp only [hs0] at h
        cases h
        intro s' hs'
        simp only [Option.some.injEq] at hs'
        subst hs'
        exact ⟨(factorizeSymbolic_offsOk s0 (setStructCsr_offsOk _ _ _ s0 hs0).1 p).1, allocData_sz _⟩
  all_goals (cases h; exact hok)

/-- `init_symbolic` looks at the layout and the pattern only -/
theorem initSymbolic_pattern (c : Cfg α) {A B : Csr α} (h : SamePattern A B) (st : PState α) :
    initSymbolic c A st = initSymbolic c B st := by
  obtain ⟨h1, h2, h3, h4⟩ := h
  unfold initSymbolic
  simp only [h1, h2, h3, h4]

/-- a stretch of `init_numeric` / `apply` / value-update steps either stops abnormally or hands over to the rest
    of the history with the same pattern and the same symbolic state -/
theorem runSteps_numericPhase (tiny : α → Bool) (c : Cfg α) (rest : List (Step α)) :
    ∀ (hist : List (Step α)), (∀ s ∈ hist, s.numericPhase = true) → ∀ (A : Csr α) (st : PState α) (acc : List (Array α)),
      StOk st →
      (∃ e, runSteps tiny c A st (hist ++ rest) acc = .error e) ∨
      ∃ A' st' acc', SamePattern A' A ∧ SymEq st' st ∧ StOk st' ∧
        runSteps tiny c A st (hist ++ rest) acc = runSteps tiny c A' st' rest acc'
  | [], _, A, st, acc, hok => Or.inr ⟨A, st, acc, ⟨rfl, rfl, rfl, rfl⟩, SymEq.refl _, hok, rfl⟩
  | s :: hist, hall, A, st, acc, hok => by
    have hs := hall s (List.mem_cons_self ..)
    have hrest : ∀ t ∈ hist, t.numericPhase = true := fun t ht => hall t (List.mem_cons_of_mem _ ht)
    cases s with
    | initSymbolic => simp [Step.numericPhase] at hs
    | done => simp [Step.numericPhase] at hs
    | initNumeric =>
      simp only [List.cons_append, runSteps]
      cases hn : initNumeric c A st with
      | error e => exact Or.inl ⟨e, rfl⟩
      | ok st1 =>
        rcases runSteps_numericPhase tiny c rest hist hrest A st1 acc (initNumeric_stOk c A st st1 hn hok) with
          ⟨e, he⟩ | ⟨A', st', acc', hp, hq, hk, hr⟩
        · exact Or.inl ⟨e, he⟩
        · exact Or.inr ⟨A', st', acc', hp, hq.trans (initNumeric_symEq c A st st1 hn), hk, hr⟩
    | apply x =>
      simp only [List.cons_append, runSteps]
      cases hn : applyStep tiny c A st x with
      | error e => exact Or.inl ⟨e, rfl⟩
      | ok y => exact runSteps_numericPhase tiny c rest hist hrest A st (y :: acc) hok
    | update v =>
      simp only [List.cons_append, runSteps]
      rcases runSteps_numericPhase tiny c rest hist hrest { A with val := v } st acc hok with
        ⟨e, he⟩ | ⟨A', st', acc', hp, hq, hk, hr⟩
      · exact Or.inl ⟨e, he⟩
      · refine Or.inr ⟨A', st', acc', ?_, hq, hk, hr⟩
        obtain ⟨p1, p2, p3, p4⟩ := hp
        exact ⟨p1, p2, p3, p4⟩

/-- the final `update v; init_numeric; apply x` of a history, spelled out -/
theorem runSteps_tail (tiny : α → Bool) (c : Cfg α) (A : Csr α) (st : PState α) (acc : List (Array α))
    (v x : Array α) :
    runSteps tiny c A st [.update v, .initNumeric, .apply x] acc
      = ((initNumeric c { A with val := v } st).bind (fun s => applyStep tiny c { A with val := v } s x)).map
          (fun y => (y :: acc).reverse) := by
  simp only [runSteps]
  cases initNumeric c { A with val := v } st with
  | error e => rfl
  | ok s =>
    simp only [Except.bind]
    cases applyStep tiny c { A with val := v } s x with
    | error e => rfl
    | ok y => rfl

/-- **refresh theorem.** On one solver object, after `init_symbolic` and ANY sequence of `init_numeric` / `apply` /
    value-update steps, the steps `update v; init_numeric; apply x` produce exactly the output of a brand-new object
    that is initialised on the matrix with the values `v` and applied to `x`. -/
theorem history_refresh (tiny : α → Bool) (c : Cfg α) (A : Csr α) (hist : List (Step α))
    (hnum : ∀ s ∈ hist, s.numericPhase = true) (v x : Array α) (outs : List (Array α))
    (hrun : runSteps tiny c A PState.empty (.initSymbolic :: (hist ++ [.update v, .initNumeric, .apply x])) []
      = .ok outs) :
    ∃ y, outs.getLast? = some y ∧
      runSteps tiny c { A with val := v } PState.empty [.initSymbolic, .initNumeric, .apply x] [] = .ok [y] := by
  simp only [runSteps] at hrun
  have hpat : initSymbolic c { A with val := v } PState.empty = initSymbolic c A (PState.empty : PState α) :=
    initSymbolic_pattern c (samePattern_update A v) _
  cases hsym : initSymbolic c A (PState.empty : PState α) with
  | error e => rw [hsym] at hrun; cases hrun
  | ok st0 =>
    rw [hsym] at hrun
    simp only at hrun
    have hempty : StOk (PState.empty : PState α) := fun s hs => by simp [PState.empty] at hs
    have hok0 : StOk st0 := initSymbolic_stOk c A _ st0 hsym hempty
    rcases runSteps_numericPhase tiny c [.update v, .initNumeric, .apply x] hist hnum A st0 [] hok0 with
      ⟨e, he⟩ | ⟨A', st', acc', hp, hq, hk, hr⟩
    · rw [he] at hrun; cases hrun
    · rw [hr, runSteps_tail, update_eq_of_samePattern hp v,
        initNumeric_apply_indep tiny c _ st' st0 hq hk hok0 x] at hrun
      have hfresh : runSteps tiny c { A with val := v } PState.empty [.initSymbolic, .initNumeric, .apply x] []
          = ((initNumeric c { A with val := v } st0).bind
              (fun s => applyStep tiny c { A with val := v } s x)).map (fun y => [y]) := by
        simp only [runSteps, hpat, hsym]
        cases initNumeric c { A with val := v } st0 with
        | error e => rfl
        | ok s =>
          simp only [Except.bind]
          cases applyStep tiny c { A with val := v } s x with
          | error e => rfl
          | ok y => rfl
      rw [hfresh]
      cases hb : (initNumeric c { A with val := v } st0).bind (fun s => applyStep tiny c { A with val := v } s x) with
      | error e => rw [hb] at hrun; cases hrun
      | ok y =>
        rw [hb] at hrun
        simp only [Except.map] at hrun
        cases hrun
        exact ⟨y, by simp, rfl⟩

end

end FeatModel.Solver
