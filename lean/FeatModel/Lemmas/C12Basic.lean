import FeatModel.Model.Partition
/-! Helper lemmas for C12: list facts about the graph kernels used by `extract_patch`. -/
namespace FeatModel.Parti
open FeatModel.Adj

theorem mem_dedup (x : Nat) : ∀ l : List Nat, x ∈ Graph.dedup l ↔ x ∈ l
  | [] => by simp [Graph.dedup]
  | y :: ys => by
    have ih := mem_dedup x ys
    simp only [Graph.dedup, List.mem_cons, List.mem_filter, ih]
    constructor
    · rintro (h | ⟨h, _⟩)
      · exact Or.inl h
      · exact Or.inr h
    · intro h
      by_cases hxy : x = y
      · exact Or.inl hxy
      · rcases h with h | h
        · exact Or.inl h
        · exact Or.inr ⟨h, by simpa using hxy⟩

theorem dedup_nodup : ∀ l : List Nat, (Graph.dedup l).Nodup
  | [] => by simp [Graph.dedup]
  | y :: ys => by
    have ih := dedup_nodup ys
    simp only [Graph.dedup, List.nodup_cons, List.mem_filter]
    refine ⟨?_, ih.filter _⟩
    rintro ⟨_, h⟩
    simp at h

theorem mem_transposeRow (adj : List (List Nat)) (i j : Nat) :
    j ∈ Graph.transposeRow adj i ↔ i ∈ adj.getD j [] := by
  unfold Graph.transposeRow
  simp only [List.mem_flatMap, List.mem_map, List.mem_filter, Prod.exists, List.mem_zipIdx_iff_getElem?]
  constructor
  · rintro ⟨l, k, hk, _, ⟨_, hi⟩, rfl⟩
    have : i = _ := (beq_iff_eq.mp hi).symm
    subst this
    simp [List.getD, hk]
    assumption
  · intro h
    by_cases hj : j < adj.length
    · refine ⟨adj[j], j, by simp [hj], i, ⟨?_, by simp⟩, rfl⟩
      simpa [List.getD, hj] using h
    · simp [List.getD, List.getElem?_eq_none (Nat.le_of_not_lt hj)] at h

theorem row_map (adj : List (List Nat)) (nImg : Nat) (f : List Nat → List Nat) (hf : f [] = []) (i : Nat) :
    Graph.row { nImg := nImg, adj := adj.map f } i = f (Graph.row { nImg := nImg, adj := adj } i) := by
  simp only [Graph.row, List.getD, List.getElem?_map]
  cases adj[i]? <;> simp [hf]

theorem mem_row_transpose (g : Graph) (i j : Nat) :
    j ∈ g.transpose.row i ↔ i < g.nImg ∧ i ∈ g.row j := by
  simp only [Graph.transpose, Graph.row, List.getD, List.getElem?_map]
  by_cases hi : i < g.nImg
  · simp [hi, mem_transposeRow, List.getD]
  · simp [hi]

theorem mem_row_compose_injectify (a b : Graph) (i k : Nat) :
    k ∈ (Graph.compose a b).injectify.row i ↔ ∃ j, j ∈ a.row i ∧ k ∈ b.row j := by
  have h1 : (Graph.compose a b).injectify
      = { nImg := b.nImg, adj := a.adj.map (fun l => Graph.dedup (l.flatMap b.row)) } := by
    simp [Graph.compose, Graph.injectify, List.map_map, Function.comp_def]
  rw [h1, row_map a.adj b.nImg (fun l => Graph.dedup (l.flatMap b.row)) (by simp [Graph.dedup])]
  simp [mem_dedup, List.mem_flatMap, Graph.row]

/-- the patch-local indices selected by a test, mapped back through the list, are the filtered list -/
theorem zipIdx_filterMap_getD (f : Nat → Bool) : ∀ (T pre : List Nat),
    ((T.zipIdx pre.length).filterMap (fun (bi : Nat × Nat) => if f bi.1 then some bi.2 else none)).map
      (fun i => (pre ++ T).getD i 0) = T.filter f
  | [], _ => by simp
  | x :: xs, pre => by
    have ih := zipIdx_filterMap_getD f xs (pre ++ [x])
    simp only [List.length_append, List.length_cons, List.length_nil, Nat.zero_add, List.append_assoc,
      List.cons_append, List.nil_append] at ih
    simp only [List.zipIdx_cons, List.filterMap_cons, List.filter_cons]
    by_cases hx : f x
    · simp only [hx, if_true, List.map_cons, ih]
      congr 1
      simp [List.getD]
    · simp only [hx]
      simpa [List.getD] using ih

theorem filter_range_pairwise (n : Nat) (P : Nat → Bool) : ((List.range n).filter P).Pairwise (· < ·) :=
  List.Pairwise.filter _ List.pairwise_lt_range

theorem nodup_of_pairwise_lt {l : List Nat} (h : l.Pairwise (· < ·)) : l.Nodup :=
  h.imp (fun hab => Nat.ne_of_lt hab)

end FeatModel.Parti

namespace FeatModel.Parti
/-- the selected patch-local indices ascend -/
theorem zipIdx_filterMap_pairwise (f : Nat → Bool) : ∀ (T : List Nat) (k : Nat),
    ((T.zipIdx k).filterMap (fun (bi : Nat × Nat) => if f bi.1 then some bi.2 else none)).Pairwise (· < ·) ∧
    ∀ i, i ∈ (T.zipIdx k).filterMap (fun (bi : Nat × Nat) => if f bi.1 then some bi.2 else none) → k ≤ i
  | [], k => by simp
  | x :: xs, k => by
    obtain ⟨ih1, ih2⟩ := zipIdx_filterMap_pairwise f xs (k + 1)
    simp only [List.zipIdx_cons, List.filterMap_cons]
    by_cases hx : f x
    · simp only [hx, if_true, List.pairwise_cons, List.mem_cons]
      refine ⟨⟨fun i hi => ?_, ih1⟩, ?_⟩
      · have := ih2 i hi; omega
      · rintro i (rfl | hi)
        · exact Nat.le_refl _
        · have := ih2 i hi; omega
    · simp only [hx]
      refine ⟨by simpa using ih1, fun i hi => ?_⟩
      have := ih2 i (by simpa using hi); omega
end FeatModel.Parti

namespace FeatModel.Parti
theorem nodup_getD_inj {l : List Nat} (hn : l.Nodup) (i j : Nat) (hi : i < l.length) (hj : j < l.length)
    (h : l.getD i 0 = l.getD j 0) : i = j := by
  have hp := List.pairwise_iff_getElem.mp hn
  simp only [List.getD, List.getElem?_eq_getElem hi, List.getElem?_eq_getElem hj, Option.getD_some] at h
  rcases Nat.lt_trichotomy i j with hlt | heq | hgt
  · exact absurd h (hp i j hi hj hlt)
  · exact heq
  · exact absurd h.symm (hp j i hj hi hgt)
end FeatModel.Parti

namespace FeatModel.Parti
/-- the split mesh part, mapped back to base indices, is the parent part restricted to the patch (same order) -/
theorem splitTarget_toBase (ts : List Nat) : ∀ part : List Nat,
    (splitTarget ts part).map (fun i => ts.getD i 0) = part.filter (fun b => ts.contains b)
  | [] => by simp [splitTarget]
  | b :: bs => by
    have ih := splitTarget_toBase ts bs
    simp only [splitTarget] at ih ⊢
    simp only [List.filterMap_cons, List.filter_cons]
    by_cases hb : ts.contains b
    · simp only [hb, if_true, List.map_cons, ih]
      congr 1
      have hm : b ∈ ts := by simpa using hb
      have hlt := List.idxOf_lt_length_of_mem hm
      simp [List.getD, hlt]
    · simp only [hb]
      simpa [List.getD] using ih
end FeatModel.Parti
