import FeatModel.Lemmas.C12RefineCover
/-! C12 helper lemmas: the entities two patches share are preserved by the simple target refiner (completeness of
the refined halos, neighbour completeness after refinement). -/
namespace FeatModel.Parti
open FeatModel.Adj FeatModel.Refine FeatModel.Gen.Refine

theorem mem_simpleTargets_block (M : Refine.Mesh) (P : Part) (c x : Nat) :
    x ∈ simpleTargets M P c ↔ ∃ s, c ≤ s ∧ s ≤ M.dim ∧ x ∈ stBlock M P c s := by
  have hst : simpleTargets M P c = (List.range' c (M.dim + 1 - c)).flatMap (stBlock M P c) := rfl
  rw [hst, List.mem_flatMap]
  simp only [List.mem_range'_1]
  constructor
  · rintro ⟨s, ⟨h1, h2⟩, hx⟩; exact ⟨s, h1, by omega, hx⟩
  · rintro ⟨s, h1, h2, hx⟩; exact ⟨s, ⟨h1, by omega⟩, hx⟩

/-- a refined entity lying in the refinements of two parts comes from a common entity of the two parts -/
theorem stBlock_common (M : Refine.Mesh) (P Q : Part) (c s s' x : Nat) (hcs : c ≤ s) (hcs' : c ≤ s')
    (hP : ∀ t ∈ P.target s, t < M.nums.getD s 0) (hQ : ∀ t ∈ Q.target s', t < M.nums.getD s' 0)
    (hx : x ∈ stBlock M P c s) (hx' : x ∈ stBlock M Q c s') :
    s = s' ∧ ∃ t, t ∈ P.target s ∧ t ∈ Q.target s ∧
      offset M.kind M.nums c s + t * refCount M.kind s c ≤ x ∧
      x < offset M.kind M.nums c s + t * refCount M.kind s c + refCount M.kind s c := by
  have b1 := stBlock_bounds M P c s x hcs hP hx
  have b2 := stBlock_bounds M Q c s' x hcs' hQ hx'
  have hss : s = s' := by
    rcases Nat.lt_trichotomy s s' with h | h | h
    · have := offset_mono M.kind M.nums c (show c ≤ s + 1 by omega) (show s + 1 ≤ s' by omega); omega
    · exact h
    · have := offset_mono M.kind M.nums c (show c ≤ s' + 1 by omega) (show s' + 1 ≤ s by omega); omega
  subst hss
  refine ⟨rfl, ?_⟩
  obtain ⟨t, ht, h1, h2⟩ := (mem_stBlock M P c s x).1 hx
  obtain ⟨t', ht', h1', h2'⟩ := (mem_stBlock M Q c s x).1 hx'
  have htt : t = t' := by
    rcases Nat.lt_trichotomy t t' with h | h | h
    · have : (t + 1) * refCount M.kind s c ≤ t' * refCount M.kind s c := Nat.mul_le_mul_right _ h
      rw [Nat.succ_mul] at this; omega
    · exact h
    · have : (t' + 1) * refCount M.kind s c ≤ t * refCount M.kind s c := Nat.mul_le_mul_right _ h
      rw [Nat.succ_mul] at this; omega
  subst htt
  exact ⟨t, ht, ht', h1, h2⟩

/-- `H` lists exactly the common entities of `P` and `Q` -/
def IsInter (H P Q : Part) : Prop := ∀ s t, t ∈ H.target s ↔ t ∈ P.target s ∧ t ∈ Q.target s

theorem isInter_step (M : Refine.Mesh) (H P Q : Part) (hP : PartOk M P) (hQ : PartOk M Q) (h : IsInter H P Q) :
    IsInter (simplePart M H) (simplePart M P) (simplePart M Q) := by
  intro c x
  simp only [simplePart_target]
  by_cases hc : c ≤ M.dim
  · simp only [if_pos hc]
    constructor
    · intro hx
      obtain ⟨s, hcs, hsd, hxs⟩ := (mem_simpleTargets_block M H c x).1 hx
      obtain ⟨t, ht, h1, h2⟩ := (mem_stBlock M H c s x).1 hxs
      obtain ⟨htP, htQ⟩ := (h s t).1 ht
      exact ⟨(mem_simpleTargets_block M P c x).2 ⟨s, hcs, hsd, (mem_stBlock M P c s x).2 ⟨t, htP, h1, h2⟩⟩,
        (mem_simpleTargets_block M Q c x).2 ⟨s, hcs, hsd, (mem_stBlock M Q c s x).2 ⟨t, htQ, h1, h2⟩⟩⟩
    · rintro ⟨hxP, hxQ⟩
      obtain ⟨s, hcs, hsd, hxs⟩ := (mem_simpleTargets_block M P c x).1 hxP
      obtain ⟨s', hcs', _, hxs'⟩ := (mem_simpleTargets_block M Q c x).1 hxQ
      obtain ⟨rfl, t, htP, htQ, h1, h2⟩ :=
        stBlock_common M P Q c s s' x hcs hcs' (hP.bound s) (hQ.bound s') hxs hxs'
      exact (mem_simpleTargets_block M H c x).2
        ⟨s, hcs, hsd, (mem_stBlock M H c s x).2 ⟨t, (h s t).2 ⟨htP, htQ⟩, h1, h2⟩⟩
  · simp [if_neg hc]

theorem isInter_steps : ∀ (k : Nat) (M : Refine.Mesh) (H P Q : Part), PartOk M P → PartOk M Q → IsInter H P Q →
    IsInter (partSteps k (M, H)).2 (partSteps k (M, P)).2 (partSteps k (M, Q)).2
  | 0, _, _, _, _, _, _, h => h
  | k + 1, M, H, P, Q, hP, hQ, h =>
    isInter_steps k (refine M) (simplePart M H) (simplePart M P) (simplePart M Q)
      (partOk_step M P hP) (partOk_step M Q hQ) (isInter_step M H P Q hP hQ h)

/-- a part has an entity in some dimension `≤ dim` -/
def NonemptyUpTo (H : Part) (dim : Nat) : Prop := ∃ d x, d ≤ dim ∧ x ∈ H.target d

theorem nonempty_step (M : Refine.Mesh) (H : Part) (hd : M.dim ≤ 3) :
    NonemptyUpTo (simplePart M H) M.dim ↔ NonemptyUpTo H M.dim := by
  constructor
  · rintro ⟨c, x, hc, hx⟩
    rw [simplePart_target, if_pos hc] at hx
    obtain ⟨s, _, hsd, t, ht, _⟩ := (mem_simpleTargets M H c x).1 hx
    exact ⟨s, t, hsd, ht⟩
  · rintro ⟨s, t, hs, ht⟩
    have hrc := refCount_top_pos M.kind s (by omega)
    refine ⟨s, offset M.kind M.nums s s + t * refCount M.kind s s + 0, hs, ?_⟩
    rw [simplePart_target, if_pos hs]
    exact (mem_simpleTargets M H s _).2 ⟨s, Nat.le_refl _, hs, t, ht, 0, hrc, rfl⟩

theorem nonempty_steps : ∀ (k : Nat) (M : Refine.Mesh) (H : Part), M.dim ≤ 3 →
    (NonemptyUpTo (partSteps k (M, H)).2 M.dim ↔ NonemptyUpTo H M.dim)
  | 0, _, _, _ => Iff.rfl
  | k + 1, M, H, hd => by
    have ih := nonempty_steps k (refine M) (simplePart M H) hd
    rw [refine_dim] at ih
    exact ih.trans (nonempty_step M H hd)

/-- coarse vertices keep their number in every refinement -/
theorem vertex_persists : ∀ (k : Nat) (M : Refine.Mesh) (P : Part) (v : Nat), v ∈ P.target 0 →
    v ∈ (partSteps k (M, P)).2.target 0
  | 0, _, _, _, h => h
  | k + 1, M, P, v, h => by
    apply vertex_persists k (refine M) (simplePart M P) v
    rw [simplePart_target, if_pos (Nat.zero_le _)]
    refine (mem_simpleTargets M P 0 v).2 ⟨0, Nat.le_refl _, Nat.zero_le _, v, h, 0, ?_, ?_⟩
    · simp [refCount]
    · simp [refCount, offset_self]

end FeatModel.Parti
