import FeatModel.Model.RefineSpec
/-! C10 local refinement lemma, hexahedron, covering family part a (see `cell3`): kernel evaluation of the
generated tables. -/
namespace FeatModel.Refine
set_option maxRecDepth 100000

theorem local_hexa_a : ∀ j < 4, (refine (cell3 .hypercube (j + 0))).consistent = true := by decide +kernel

theorem local_hexa_input_a : ∀ j < 4, (cell3 .hypercube (j + 0)).consistent = true := by decide +kernel

end FeatModel.Refine
