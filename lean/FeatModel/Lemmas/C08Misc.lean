import FeatModel.Model.Solver.History
/-! C08: small links — the polynomial preconditioner with a general defect filter reduces to the unit-filter version,
and `apply(vec_cor, vec_def)` returns the defect vector unchanged. -/
namespace FeatModel.Solver
open FeatModel.LA

variable {α : Type} [Zero α] [One α] [Add α] [Sub α] [Mul α] [Div α] [Neg α]

theorem polyStepF_some (tiny : α → Bool) (fidx : List Nat) (A : Csr α) (invD aux3 cor : Array α) :
    polyStepF tiny fidx some A invD aux3 cor = polyStep tiny fidx A invD aux3 cor := by
  unfold polyStepF polyStep
  cases A.apply tiny cor (Array.replicate A.rows 0) false <;> rfl

theorem polyLoopF_some (tiny : α → Bool) (fidx : List Nat) (A : Csr α) (invD aux3 : Array α) :
    ∀ (m : Nat) (cor : Array α), polyLoopF tiny fidx some A invD aux3 m cor = polyLoop tiny fidx A invD aux3 m cor
  | 0, _ => rfl
  | m + 1, cor => by
    simp only [polyLoopF, polyLoop, polyStepF_some]
    cases polyStep tiny fidx A invD aux3 cor with
    | none => rfl
    | some c => exact polyLoopF_some tiny fidx A invD aux3 m c

/-- with the unit / none filter types (`filter_def` of the extra filter = identity) the general polynomial
    preconditioner is the one of `C08.polynomial_spec` -/
theorem polyApplyF_some (tiny : α → Bool) (m : Nat) (fidx : List Nat) (A : Csr α) (invD x : Array α) :
    polyApplyF tiny m fidx some A invD x = polyApply tiny m fidx A invD x := by
  unfold polyApplyF polyApply
  simp only [polyLoopF_some]

variable [OfNat α 777]

/-- **the input is not modified**: the out-of-place call `apply(vec_cor, vec_def)` returns the defect vector exactly as
    it was passed in, for every kind, state and filter; the first component is the result of `applyStep` -/
theorem applyIO_input_unchanged (tiny : α → Bool) (c : Cfg α) (A : Csr α) (st : PState α) (x y x' : Array α)
    (h : applyIO tiny c A st false x = .ok (y, x')) : x' = x ∧ applyStep tiny c A st x = .ok y := by
  unfold applyIO at h
  simp only [Bool.false_eq_true, if_false] at h
  cases hs : applyStep tiny c A st x with
  | error e => rw [hs] at h; cases h
  | ok z =>
    rw [hs] at h
    simp only [Except.ok.injEq, Prod.mk.injEq] at h
    exact ⟨h.2.symm, by rw [h.1]⟩

end FeatModel.Solver
