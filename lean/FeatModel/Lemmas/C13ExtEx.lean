/- C13 extensions: concrete data for the non-vacuity examples (ordered rationals, a consistent unit filter). -/
import Mathlib.Algebra.Order.Field.Rat
import Mathlib.Algebra.Order.Ring.Rat
import FeatModel.Lemmas.C13Examples
import FeatModel.Lemmas.C13ExtExpand
import FeatModel.Lemmas.C13ExtSync
import FeatModel.Lemmas.C13ExtMinMaxEnum
import FeatModel.Lemmas.C13ExtFilter
import FeatModel.Lemmas.C13ExtSplitter
open FeatModel.Dist

namespace FeatModel.C13L

/-- a unit filter on `exDecomp`: global DOF 0 (shared by all three patches) is set to 9, global DOF 3 to 4 -/
def exFs : List (List (Nat × ℚ)) := [[(0, 9)], [(2, 4), (1, 9)], [(1, 9)]]

/-- base splitter on `exDecomp`: identity root mirrors, patch mirrors = the local-to-global maps, 5 base DOFs -/
def exRm : List (List Nat) := [[0, 1, 2], [0, 1, 2], [0, 1]]
def exBm : List (List Nat) := [[0, 1, 2], [1, 0, 3], [4, 0]]

theorem exSplitterOK : SplitterOK exDecomp exRm exBm 3 5 :=
  ⟨exDecomp_wf, by decide, by decide, by decide, by decide, by decide, by decide, by decide, by decide⟩

end FeatModel.C13L
