import FeatModel.Lemmas.C02Permute
/-
C02: permuting with `(p, q)` and then with the inverse permutations restores the matrix (corollary of
`C02L.permute_spec`), for all sizes.
-/
open FeatModel FeatModel.LA
namespace C02L
namespace ChainsAux
open PermuteAux

theorem isPerm_of {q : Array Nat} (h1 : ∀ i, i < q.size → q.getD i 0 < q.size)
    (h2 : ∀ i j, i < q.size → j < q.size → q.getD i 0 = q.getD j 0 → i = j) : Csr.isPerm q = true := by
  simp only [Csr.isPerm, Bool.and_eq_true, Array.all_eq_true, decide_eq_true_eq, List.all_eq_true, List.mem_range,
    Bool.or_eq_true, beq_iff_eq, bne_iff_ne, ne_eq]
  refine ⟨?_, ?_⟩
  · intro i hi
    have := h1 i hi
    simpa [Array.getD, hi] using this
  · intro i hi j hj
    by_cases e : i = j
    · exact Or.inl e
    · exact Or.inr (fun he => e (h2 i j hi hj he))

theorem isPerm_invPerm {q : Array Nat} (h : Csr.isPerm q = true) : Csr.isPerm (Csr.invPerm q) = true := by
  apply isPerm_of
  · intro i hi
    rw [invPerm_size] at hi ⊢
    exact (invPerm_right h hi).1
  · intro i j hi hj e
    rw [invPerm_size] at hi hj
    exact invPerm_inj h hi hj e

theorem offsets_ne_nil {β : Type} (s : Nat) (rs : List (List β)) : Csr.offsets s rs ≠ [] := by
  cases rs <;> simp [Csr.offsets]

theorem permute_not_arrayless {α : Type} [Zero α] (A B : Csr α) (p q : Array Nat) (hne : A.isArrayless = false)
    (h : A.permute p q = some B) : B.isArrayless = false := by
  unfold Csr.permute at h
  split at h
  · cases h; exact hne
  · split at h
    · cases h
    · rw [hne] at h
      simp only [Bool.false_eq_true, if_false, Option.some.injEq] at h
      subst h
      have := offsets_ne_nil 0 ((List.range A.rows).map (A.permRow p (Csr.invPerm q)))
      simp [Csr.ofRows, Csr.isArrayless, this]

end ChainsAux
open ChainsAux PermuteAux

/-- permute, then permute with the inverse permutations: the same matrix again -/
theorem permute_inverse {α : Type} [Zero α] [Add α] (A : Csr α) (p q : Array Nat)
    (hA : A.valid = true) (hne : A.isArrayless = false)
    (hp : Csr.isPerm p = true) (hq : Csr.isPerm q = true) (hps : p.size = A.rows) (hqs : q.size = A.cols) :
    ∃ B C, A.permute p q = some B ∧ B.permute (Csr.invPerm p) (Csr.invPerm q) = some C ∧
      C.rows = A.rows ∧ C.cols = A.cols ∧ C.valid = true ∧
      ∀ i j, i < A.rows → j < A.cols → C.entry i j = A.entry i j := by
  obtain ⟨B, hB, hBr, hBc, hBv, hBe⟩ := permute_spec A p q hA hne hp hq hps hqs
  have hBne := permute_not_arrayless A B p q hne hB
  obtain ⟨C, hC, hCr, hCc, hCv, hCe⟩ := permute_spec B (Csr.invPerm p) (Csr.invPerm q) hBv hBne
    (isPerm_invPerm hp) (isPerm_invPerm hq) (by rw [invPerm_size, hBr, hps]) (by rw [invPerm_size, hBc, hqs])
  refine ⟨B, C, hB, hC, by rw [hCr, hBr], by rw [hCc, hBc], hCv, ?_⟩
  intro i j hi hj
  have hi' : i < p.size := by omega
  have hj' : j < q.size := by omega
  have h1 := invPerm_right hp hi'
  have h2 := invPerm_right hq hj'
  rw [hCe i j (by omega) (by omega), hBe _ _ (by omega) (by omega), h1.2, h2.2]

end C02L
