import FeatModel.Model.Blocked
/-!
Helper lemmas for C16, part 6: reading one block component of the blocked (BCSR) assembly gives the scalar (CSR)
assembly of that component of the local matrices. Core Lean only.
-/
namespace C16L
open FeatModel.Asm

variable {α : Type} [Add α] [Mul α] [Zero α]

/-- all blocks of the array have `n` entries -/
def BlkLen (n : Nat) (d : Array (List α)) : Prop := ∀ (i : Nat) (b : List α), d[i]? = some b → b.length = n

omit [Zero α] in
theorem blkAxpy_length (b x : List α) (a : α) (n : Nat) (hb : b.length = n) (hx : x.length = n) :
    (blkAxpy b a x).length = n := by
  simp [blkAxpy, hb, hx]

theorem blkAxpy_getD (b x : List α) (a : α) (n e : Nat) (hb : b.length = n) (hx : x.length = n) (he : e < n) :
    (blkAxpy b a x).getD e 0 = b.getD e 0 + a * x.getD e 0 := by
  have h1 : e < b.length := by omega
  have h2 : e < x.length := by omega
  simp [blkAxpy, List.getD_eq_getElem?_getD, List.getElem?_zipWith, List.getElem?_eq_getElem h1,
    List.getElem?_eq_getElem h2]

omit [Zero α] in
theorem blkLen_modify (n : Nat) (d : Array (List α)) (k : Nat) (a : α) (x : List α) (hd : BlkLen n d)
    (hx : x.length = n) : BlkLen n (d.modify k (fun b => blkAxpy b a x)) := by
  intro i b hb
  rw [Array.getElem?_modify] at hb
  split at hb
  · cases hdi : d[i]? with
    | none => simp [hdi] at hb
    | some b0 =>
      simp only [hdi, Option.map_some, Option.some.injEq] at hb
      subst hb
      exact blkAxpy_length b0 x a n (hd i b0 hdi) hx
  · exact hd i b hb

/-- projecting after a block update = scalar update of the projection -/
theorem map_modify (n e : Nat) (he : e < n) (d : Array (List α)) (k : Nat) (a : α) (x : List α) (hd : BlkLen n d)
    (hx : x.length = n) :
    (d.modify k (fun b => blkAxpy b a x)).map (fun b => b.getD e 0) =
      (d.map fun b => b.getD e 0).modify k (· + a * x.getD e 0) := by
  apply Array.ext_getElem?
  intro i
  simp only [Array.getElem?_map, Array.getElem?_modify]
  split
  · cases hdi : d[i]? with
    | none => simp
    | some b0 =>
      simp only [Option.map_some]
      rw [blkAxpy_getD b0 x a n e (hd i b0 hdi) hx he]
  · rfl

theorem scatterColsB_proj (n e : Nat) (he : e < n) (cp : Array (Option Nat)) (alpha : α) (f : Nat → List α)
    (hf : ∀ j, (f j).length = n) (cols : List (Nat × Nat)) (d : Array (List α)) (hd : BlkLen n d) :
    (scatterColsB cp alpha f cols d).map (fun d' => d'.map fun b => b.getD e 0) =
      scatterCols cp alpha (fun j => (f j).getD e 0) cols (d.map fun b => b.getD e 0) ∧
    ∀ d', scatterColsB cp alpha f cols d = some d' → BlkLen n d' := by
  induction cols generalizing d with
  | nil => exact ⟨rfl, fun d' h => by cases h; exact hd⟩
  | cons c t ih =>
    obtain ⟨jx, j⟩ := c
    simp only [scatterColsB, scatterCols]
    cases hcp : cp.getD jx none with
    | none => exact ⟨rfl, fun d' h => by cases h⟩
    | some k =>
      simp only []
      have := ih (d.modify k (fun b => blkAxpy b alpha (f j))) (blkLen_modify n d k alpha (f j) hd (hf j))
      rw [map_modify n e he d k alpha (f j) hd (hf j)] at this
      exact this

/-- the projected state -/
def projSt (e : Nat) (st : ScatterStB α) : ScatterSt α := ⟨st.colPtr, st.data.map fun b => b.getD e 0⟩

theorem scatterRowsB_proj (n e : Nat) (he : e < n) (p : Pattern) (alpha : α) (loc : Nat → Nat → List α)
    (hloc : ∀ i j, (loc i j).length = n) (cols rows : List (Nat × Nat)) (st : ScatterStB α) (hd : BlkLen n st.data) :
    (scatterRowsB p alpha loc cols rows st).map (projSt e) =
      scatterRowsG (buildColPtr p) alpha (fun i j => (loc i j).getD e 0) cols rows (projSt e st) ∧
    ∀ st', scatterRowsB p alpha loc cols rows st = some st' → BlkLen n st'.data := by
  induction rows generalizing st with
  | nil => exact ⟨rfl, fun st' h => by cases h; exact hd⟩
  | cons c t ih =>
    obtain ⟨ix, i⟩ := c
    obtain ⟨h1, h2⟩ := scatterColsB_proj n e he (buildColPtr p ix st.colPtr) alpha (loc i) (hloc i) cols st.data hd
    simp only [scatterRowsB, scatterRowsG, projSt] at h1 ⊢
    cases hsc : scatterColsB (buildColPtr p ix st.colPtr) alpha (loc i) cols st.data with
    | none =>
      rw [hsc] at h1
      simp only [Option.map_none] at h1
      rw [← h1]
      exact ⟨rfl, fun st' h => by cases h⟩
    | some d' =>
      rw [hsc] at h1
      simp only [Option.map_some] at h1
      rw [← h1]
      exact ih ⟨buildColPtr p ix st.colPtr, d'⟩ (h2 d' hsc)

theorem assembleFromB_proj (n e : Nat) (he : e < n) (p : Pattern) (calls : List (CellCallB α))
    (hloc : ∀ c ∈ calls, ∀ i j, (c.loc i j).length = n) (st : ScatterStB α) (hd : BlkLen n st.data) :
    (assembleFromB p calls st).map (projSt e) = assembleFrom p (calls.map fun c => c.comp e) (projSt e st) := by
  induction calls generalizing st with
  | nil => rfl
  | cons c t ih =>
    obtain ⟨h1, h2⟩ := scatterRowsB_proj n e he p c.alpha c.loc (hloc c (List.mem_cons_self ..))
      c.colMap.zipIdx c.rowMap.zipIdx st hd
    simp only [assembleFromB, assembleFrom, List.map_cons, scatterAxpyB, scatterAxpy, scatterRows, CellCallB.comp] at h1 ⊢
    cases hs : scatterRowsB p c.alpha c.loc c.colMap.zipIdx c.rowMap.zipIdx st with
    | none =>
      rw [hs] at h1
      simp only [Option.map_none] at h1
      rw [← h1]; rfl
    | some st' =>
      rw [hs] at h1
      simp only [Option.map_some] at h1
      rw [← h1]
      exact ih (fun c' hc' => hloc c' (List.mem_cons_of_mem _ hc')) st' (h2 st' hs)

theorem assembleB_proj (n e : Nat) (he : e < n) (p : Pattern) (calls : List (CellCallB α))
    (hloc : ∀ c ∈ calls, ∀ i j, (c.loc i j).length = n) :
    (assembleB p n calls).map (fun st => st.data.map fun b => b.getD e 0) =
      (assemble p (calls.map fun c => c.comp e)).map (·.data) := by
  have hd : BlkLen n (Array.replicate p.colIdx.length (List.replicate n (0 : α))) := by
    intro i b hb
    rw [Array.getElem?_replicate] at hb
    split at hb
    · cases hb; simp
    · cases hb
  have := assembleFromB_proj n e he p calls hloc
    ⟨Array.replicate p.cols none, Array.replicate p.colIdx.length (List.replicate n 0)⟩ hd
  have hinit : projSt e ⟨Array.replicate p.cols none, Array.replicate p.colIdx.length (List.replicate n (0 : α))⟩ =
      ScatterSt.fresh p (Array.replicate p.colIdx.length 0) := by
    simp [projSt, ScatterSt.fresh, he]
  unfold assembleB assemble
  rw [← hinit, ← this]
  cases assembleFromB p calls ⟨Array.replicate p.cols none, Array.replicate p.colIdx.length (List.replicate n 0)⟩ <;> rfl

end C16L
