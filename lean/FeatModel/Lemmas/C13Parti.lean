/-
C13 / C12 bridge: the decomposition (local-to-global maps + gate mirrors) that C12's patch extraction produces
for the DOFs sitting on the entities of one dimension is well-formed in the sense of `Decomp.WF`.
-/
import FeatModel.Props.C12
import FeatModel.Lemmas.C13Decomp
open FeatModel.Dist FeatModel.Parti FeatModel.Adj

namespace FeatModel.C13L

/-- one DOF per `d`-dimensional entity: local-to-global map = patch target set of dimension `d`, one gate
neighbour per `comm_ranks` entry with the halo of dimension `d` as mirror -/
def decompOfPartiDim (m : Mesh) (p : Parti) (d : Nat) : Decomp :=
  { maps := (List.range p.nDom).map fun r => m.target (p.row r) d,
    patches := (List.range p.nDom).map fun r =>
      { n := (m.target (p.row r) d).length, nbrs := (commRanks m p r).map fun s => (s, halo m p r s d) } }

/-- Lagrange-1: DOFs = vertices -/
def decompOfParti (m : Mesh) (p : Parti) : Decomp := decompOfPartiDim m p 0

theorem dop_np (m : Mesh) (p : Parti) (d : Nat) : (decompOfPartiDim m p d).np = p.nDom := by
  simp [decompOfPartiDim, Decomp.np]

theorem dop_patch (m : Mesh) (p : Parti) (d r : Nat) (hr : r < p.nDom) :
    (decompOfPartiDim m p d).patch r
      = { n := (m.target (p.row r) d).length, nbrs := (commRanks m p r).map fun s => (s, halo m p r s d) } := by
  simp [decompOfPartiDim, Decomp.patch, List.getD_eq_getElem?_getD, hr]

theorem dop_lmap (m : Mesh) (p : Parti) (d r : Nat) (hr : r < p.nDom) :
    (decompOfPartiDim m p d).lmap r = m.target (p.row r) d := by
  simp [decompOfPartiDim, Decomp.lmap, List.getD_eq_getElem?_getD, hr]

theorem dop_gdof (m : Mesh) (p : Parti) (d r i : Nat) (hr : r < p.nDom) :
    (decompOfPartiDim m p d).gdof r i = toBase m p r d i := by
  unfold Decomp.gdof toBase
  rw [dop_lmap m p d r hr]

/-- halo indices are patch-local indices -/
theorem halo_lt (m : Mesh) (p : Parti) (r s d i : Nat) (hi : i ∈ halo m p r s d) :
    i < (m.target (p.row r) d).length := by
  unfold halo at hi
  obtain ⟨⟨b, j⟩, hmem, hf⟩ := List.mem_filterMap.1 hi
  have := List.mem_zipIdx hmem
  by_cases hb : hasRank m p d b s = true
  · simp [hb] at hf; omega
  · simp [hb] at hf

theorem mem_row_lt (p : Parti) (r c : Nat) (h : c ∈ p.row r) : r < p.nDom := by
  by_contra hr
  simp [Graph.row, List.getD_eq_getElem?_getD, List.getElem?_eq_none (Nat.le_of_not_lt hr)] at h

theorem wf_of_isPartition (p : Parti) (hp : isPartition p = true) : p.wf = true := by
  simp only [isPartition, Bool.and_eq_true] at hp
  exact hp.1

/-- **the decomposition of a partitioned mesh is well-formed** (DOFs on the entities of dimension `d < dim`);
`hsv`: two cells with a common `d`-entity have a common vertex (trivial for `d = 0`, from `facetsOk` in general) -/
theorem WF_of_partition_dim (m : Mesh) (p : Parti) (hm : m.consistent = true) (hp : isPartition p = true)
    (d : Nat) (hd : d < m.dim)
    (hsv : ∀ c1 c2 b, b ∈ m.sub m.dim d c1 → b ∈ m.sub m.dim d c2 →
      ∃ v, v ∈ m.sub m.dim 0 c1 ∧ v ∈ m.sub m.dim 0 c2) :
    (decompOfPartiDim m p d).WF := by
  have hwf := wf_of_isPartition p hp
  have hnb : ∀ r s, s ∈ commRanks m p r → s ≠ r ∧ s < p.nDom := by
    intro r s hs
    obtain ⟨hne, v, c1, c2, h1, h2, _, _⟩ := (C12.neighbour_complete m p hm hwf r s).1 hs
    exact ⟨hne, mem_row_lt p s c2 h2⟩
  refine ⟨?_, ?_, ?_, ?_, ?_, ?_, ?_, ?_, ?_⟩
  · simp [decompOfPartiDim]
  · intro r hr
    rw [dop_np] at hr
    rw [dop_patch m p d r hr, dop_lmap m p d r hr]
  · intro r hr
    rw [dop_np] at hr
    rw [dop_lmap m p d r hr]
    exact C12.patch_injective m p hp r d (Nat.le_of_lt hd)
  · intro r hr
    rw [dop_np] at hr
    rw [dop_patch m p d r hr]
    simp only [List.map_map]
    have : ((fun x : Nat × List Nat => x.1) ∘ fun s => (s, halo m p r s d)) = id := rfl
    rw [this, List.map_id]
    exact C12.neighbours_nodup m p r
  · intro r hr nb hnbm
    rw [dop_np] at hr ⊢
    rw [dop_patch m p d r hr] at hnbm
    obtain ⟨s, hs, rfl⟩ := List.mem_map.1 hnbm
    exact hnb r s hs
  · intro r hr nb hnbm
    rw [dop_np] at hr
    rw [dop_patch m p d r hr] at hnbm
    obtain ⟨s, hs, rfl⟩ := List.mem_map.1 hnbm
    exact nodup_of_pairwise_lt (C12.halo_ascending m p r s d).1
  · intro r hr nb hnbm i hi
    rw [dop_np] at hr
    rw [dop_patch m p d r hr] at hnbm ⊢
    obtain ⟨s, hs, rfl⟩ := List.mem_map.1 hnbm
    exact halo_lt m p r s d i hi
  · intro r hr nb hnbm
    rw [dop_np] at hr
    rw [dop_patch m p d r hr] at hnbm
    obtain ⟨s, hs, rfl⟩ := List.mem_map.1 hnbm
    obtain ⟨hne, hsn⟩ := hnb r s hs
    have hrs : r ∈ commRanks m p s := (C12.neighbour_symm m p hm hwf r s).1 hs
    refine ⟨(r, halo m p s r d), ?_, rfl, ?_, ?_⟩
    · show _ ∈ ((decompOfPartiDim m p d).patch s).nbrs
      rw [dop_patch m p d s hsn]
      exact List.mem_map.2 ⟨r, hrs, rfl⟩
    · show (halo m p s r d).map ((decompOfPartiDim m p d).gdof s) = (halo m p r s d).map ((decompOfPartiDim m p d).gdof r)
      have e1 : (halo m p s r d).map ((decompOfPartiDim m p d).gdof s) = haloBase m p s r d := by
        unfold haloBase
        apply List.map_congr_left
        intro i _
        exact dop_gdof m p d s i hsn
      have e2 : (halo m p r s d).map ((decompOfPartiDim m p d).gdof r) = haloBase m p r s d := by
        unfold haloBase
        apply List.map_congr_left
        intro i _
        exact dop_gdof m p d r i hr
      rw [e1, e2]
      exact (C12.halo_agree m p hm hp r s d (fun h => hne h.symm) (Nat.le_of_lt hd)).symm
    · intro j hj
      show j < ((decompOfPartiDim m p d).patch s).n
      rw [dop_patch m p d s hsn]
      exact halo_lt m p s r d j hj
  · intro r hr s hs hsr i hi j hj hg
    rw [dop_np] at hr hs
    rw [dop_patch m p d r hr] at hi ⊢
    rw [dop_patch m p d s hs] at hj
    rw [dop_gdof m p d r i hr, dop_gdof m p d s j hs] at hg
    have hi' : i < (m.target (p.row r) d).length := hi
    have hj' : j < (m.target (p.row s) d).length := hj
    have hbr : toBase m p r d i ∈ m.target (p.row r) d := by
      simp [toBase, List.getD_eq_getElem?_getD, hi']
    have hbs : toBase m p r d i ∈ m.target (p.row s) d := by
      rw [hg]; simp [toBase, List.getD_eq_getElem?_getD, hj']
    obtain ⟨c1, hc1, hb1⟩ := (C12.patch_entities m p hm r d _ hd).1 hbr
    obtain ⟨c2, hc2, hb2⟩ := (C12.patch_entities m p hm s d _ hd).1 hbs
    obtain ⟨v, hv1, hv2⟩ := hsv c1 c2 _ hb1 hb2
    have hsr' : s ∈ commRanks m p r :=
      (C12.neighbour_complete m p hm hwf r s).2 ⟨hsr, v, c1, c2, hc1, hc2, hv1, hv2⟩
    refine ⟨(s, halo m p r s d), List.mem_map.2 ⟨s, hsr', rfl⟩, rfl, ?_⟩
    have hmem : toBase m p r d i ∈ haloBase m p r s d :=
      (C12.halo_spec m p hm hwf r s d _ hd).2 ⟨⟨c1, hc1, hb1⟩, ⟨c2, hc2, hb2⟩⟩
    unfold haloBase at hmem
    obtain ⟨i', hi'm, he⟩ := List.mem_map.1 hmem
    have : i' = i := C12.toBase_injective m p hp r d (Nat.le_of_lt hd) i' i (halo_lt m p r s d i' hi'm) hi' he
    rw [← this]; exact hi'm

theorem WF_of_partition (m : Mesh) (p : Parti) (hm : m.consistent = true) (hp : isPartition p = true) :
    (decompOfParti m p).WF :=
  WF_of_partition_dim m p hm hp 0 (cons_of_consistent m hm).dim_pos (fun _ _ b h1 h2 => ⟨b, h1, h2⟩)

theorem WF_of_partition_facets (m : Mesh) (p : Parti) (hm : m.consistent = true) (hf : m.facetsOk = true)
    (hp : isPartition p = true) (d : Nat) (hd : d < m.dim) : (decompOfPartiDim m p d).WF :=
  WF_of_partition_dim m p hm hp d hd
    (fun c1 c2 b h1 h2 => shared_vertex_of_shared m (cons_of_consistent m hm) hf c1 c2 d hd b h1 h2)

end FeatModel.C13L
