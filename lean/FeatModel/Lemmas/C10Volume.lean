import FeatModel.Model.RefineSpec
import Mathlib.Tactic.Ring
import Mathlib.Tactic.Linarith
import Mathlib.Algebra.Ring.Rat
/-! C10 — volume and orientation as polynomial identities in the vertex coordinates (tier B, local form): the four
children of one straight triangle / one bilinear quadrilateral with ARBITRARY rational vertex coordinates tile the
parent: equal quarter areas with the parent's sign (triangle), areas summing to the parent's area (quadrilateral).
The child vertex rows and coordinates are those computed by the model's `refine` (tables + vertex refiner). -/
namespace FeatModel.Refine
open FeatModel.Gen.Refine

theorem tri_rows (x0 y0 x1 y1 x2 y2 : Rat) :
    (refine (triMesh x0 y0 x1 y1 x2 y2)).idx 2 0 = [[0, 5, 4], [5, 1, 3], [4, 3, 2], [3, 4, 5]] := by
  rfl

theorem tri_verts (x0 y0 x1 y1 x2 y2 : Rat) :
    (refine (triMesh x0 y0 x1 y1 x2 y2)).verts =
      [[x0, y0], [x1, y1], [x2, y2], [0 + 1/2 * x1 + 1/2 * x2, 0 + 1/2 * y1 + 1/2 * y2],
       [0 + 1/2 * x2 + 1/2 * x0, 0 + 1/2 * y2 + 1/2 * y0], [0 + 1/2 * x0 + 1/2 * x1, 0 + 1/2 * y0 + 1/2 * y1]] := by
  simp [refine, triMesh, fineVerts, midpoint, coord, Mesh.tuple, Mesh.idx, Mesh.num, refCount, faceCount,
    List.range'_succ, List.range_succ]

/-- every child of a straight triangle has exactly a quarter of the parent's signed area (so the children tile the
    parent in area and positive orientation is preserved) -/
theorem tri_children_area (x0 y0 x1 y1 x2 y2 : Rat) :
    ∀ t ∈ (refine (triMesh x0 y0 x1 y1 x2 y2)).idx 2 0,
      triArea2 (refine (triMesh x0 y0 x1 y1 x2 y2)) t = 1/4 * triArea2 (triMesh x0 y0 x1 y1 x2 y2) [0, 1, 2] := by
  intro t ht
  rw [tri_rows] at ht
  simp only [List.mem_cons, List.not_mem_nil, or_false] at ht
  rcases ht with rfl | rfl | rfl | rfl <;>
    (simp only [triArea2, coord, tri_verts]; simp [triMesh]; ring)

theorem quad_rows (x0 y0 x1 y1 x2 y2 x3 y3 : Rat) :
    (refine (quadMesh x0 y0 x1 y1 x2 y2 x3 y3)).idx 2 0
      = [[0, 4, 6, 8], [4, 1, 8, 7], [6, 8, 2, 5], [8, 7, 5, 3]] := by
  rfl

theorem quad_verts (x0 y0 x1 y1 x2 y2 x3 y3 : Rat) :
    (refine (quadMesh x0 y0 x1 y1 x2 y2 x3 y3)).verts =
      [[x0, y0], [x1, y1], [x2, y2], [x3, y3],
       [0 + 1/2 * x0 + 1/2 * x1, 0 + 1/2 * y0 + 1/2 * y1], [0 + 1/2 * x2 + 1/2 * x3, 0 + 1/2 * y2 + 1/2 * y3],
       [0 + 1/2 * x0 + 1/2 * x2, 0 + 1/2 * y0 + 1/2 * y2], [0 + 1/2 * x1 + 1/2 * x3, 0 + 1/2 * y1 + 1/2 * y3],
       [0 + 1/4 * x0 + 1/4 * x1 + 1/4 * x2 + 1/4 * x3, 0 + 1/4 * y0 + 1/4 * y1 + 1/4 * y2 + 1/4 * y3]] := by
  simp [refine, quadMesh, fineVerts, midpoint, coord, Mesh.tuple, Mesh.idx, Mesh.num, refCount, faceCount,
    List.range'_succ, List.range_succ]

/-- the four children of a bilinear quadrilateral have areas that sum to the parent's area, as an identity in the
    eight vertex coordinates -/
theorem quad_children_area (x0 y0 x1 y1 x2 y2 x3 y3 : Rat) :
    (((refine (quadMesh x0 y0 x1 y1 x2 y2 x3 y3)).idx 2 0).map
        (quadArea2 (refine (quadMesh x0 y0 x1 y1 x2 y2 x3 y3)))).sum
      = quadArea2 (quadMesh x0 y0 x1 y1 x2 y2 x3 y3) [0, 1, 2, 3] := by
  rw [quad_rows]
  simp only [List.map_cons, List.map_nil, List.sum_cons, List.sum_nil, quadArea2, coord, quad_verts]
  simp [quadMesh]
  ring

/-- orientation of the children of a bilinear quadrilateral: if the Jacobian determinant is positive at the four
    corners of the parent, it is positive at the four corners of every child (the determinant of a bilinear map is
    affine, the child corners sit at the parent's 3×3 grid points) -/
theorem quad_children_orientation (x0 y0 x1 y1 x2 y2 x3 y3 : Rat)
    (hpos : ∀ k < 4, 0 < quadJac (quadMesh x0 y0 x1 y1 x2 y2 x3 y3) [0, 1, 2, 3] k) :
    ∀ t ∈ (refine (quadMesh x0 y0 x1 y1 x2 y2 x3 y3)).idx 2 0, ∀ k < 4,
      0 < quadJac (refine (quadMesh x0 y0 x1 y1 x2 y2 x3 y3)) t k := by
  have p0 := hpos 0 (by omega); have p1 := hpos 1 (by omega)
  have p2 := hpos 2 (by omega); have p3 := hpos 3 (by omega)
  simp only [quadJac, coord] at p0 p1 p2 p3
  simp [quadMesh] at p0 p1 p2 p3
  intro t ht k hk
  rw [quad_rows] at ht
  simp only [List.mem_cons, List.not_mem_nil, or_false] at ht
  have hk' : k = 0 ∨ k = 1 ∨ k = 2 ∨ k = 3 := by omega
  rcases ht with rfl | rfl | rfl | rfl <;> rcases hk' with rfl | rfl | rfl | rfl <;>
    (simp only [quadJac, coord, quad_verts]; simp; nlinarith [p0, p1, p2, p3])

theorem tet_rows (v : List (List Rat)) :
    (refine (tetMesh v)).idx 3 0 =
      [[4, 6, 5, 0], [4, 5, 6, 10], [4, 7, 8, 1], [4, 8, 7, 10], [5, 9, 7, 2], [5, 7, 9, 10], [6, 8, 9, 3],
       [6, 9, 8, 10], [7, 8, 9, 10], [5, 9, 6, 10], [4, 6, 8, 10], [4, 7, 5, 10]] := by
  rfl

theorem tet_verts (a0 a1 a2 b0 b1 b2 c0 c1 c2 d0 d1 d2 : Rat) :
    (refine (tetMesh [[a0, a1, a2], [b0, b1, b2], [c0, c1, c2], [d0, d1, d2]])).verts =
      [[a0, a1, a2], [b0, b1, b2], [c0, c1, c2], [d0, d1, d2],
       [0 + 1/2 * a0 + 1/2 * b0, 0 + 1/2 * a1 + 1/2 * b1, 0 + 1/2 * a2 + 1/2 * b2],
       [0 + 1/2 * a0 + 1/2 * c0, 0 + 1/2 * a1 + 1/2 * c1, 0 + 1/2 * a2 + 1/2 * c2],
       [0 + 1/2 * a0 + 1/2 * d0, 0 + 1/2 * a1 + 1/2 * d1, 0 + 1/2 * a2 + 1/2 * d2],
       [0 + 1/2 * b0 + 1/2 * c0, 0 + 1/2 * b1 + 1/2 * c1, 0 + 1/2 * b2 + 1/2 * c2],
       [0 + 1/2 * b0 + 1/2 * d0, 0 + 1/2 * b1 + 1/2 * d1, 0 + 1/2 * b2 + 1/2 * d2],
       [0 + 1/2 * c0 + 1/2 * d0, 0 + 1/2 * c1 + 1/2 * d1, 0 + 1/2 * c2 + 1/2 * d2],
       [0 + 1/4 * a0 + 1/4 * b0 + 1/4 * c0 + 1/4 * d0, 0 + 1/4 * a1 + 1/4 * b1 + 1/4 * c1 + 1/4 * d1,
        0 + 1/4 * a2 + 1/4 * b2 + 1/4 * c2 + 1/4 * d2]] := by
  simp [refine, tetMesh, fineVerts, midpoint, coord, Mesh.tuple, Mesh.idx, Mesh.num, refCount, faceCount,
    List.range'_succ, List.range_succ]

/-- the twelve children of a straight tetrahedron (FEAT's centroid refinement) with arbitrary rational vertex
    coordinates: the four corner children have 1/8, the eight children at the centroid 1/16 of the parent's signed
    volume — they tile the parent (4/8 + 8/16 = 1) and keep its orientation -/
theorem tet_children_volume (a0 a1 a2 b0 b1 b2 c0 c1 c2 d0 d1 d2 : Rat) :
    ((refine (tetMesh [[a0, a1, a2], [b0, b1, b2], [c0, c1, c2], [d0, d1, d2]])).idx 3 0).map
        (tetVol6 (refine (tetMesh [[a0, a1, a2], [b0, b1, b2], [c0, c1, c2], [d0, d1, d2]]))) =
      [1/8, 1/16, 1/8, 1/16, 1/8, 1/16, 1/8, 1/16, 1/16, 1/16, 1/16, 1/16].map
        (· * tetVol6 (tetMesh [[a0, a1, a2], [b0, b1, b2], [c0, c1, c2], [d0, d1, d2]]) [0, 1, 2, 3]) := by
  rw [tet_rows]
  simp only [List.map_cons, List.map_nil, tetVol6, coord, tet_verts]
  simp [tetMesh]
  refine ⟨?_, ?_, ?_, ?_, ?_, ?_, ?_, ?_, ?_, ?_, ?_, ?_⟩ <;> ring

/-! ### hexahedron: exact trilinear volume -/

theorem hex_rows (v : List (List Rat)) :
    (refine (hexMesh v)).idx 3 0 =
      [[0, 8, 12, 20, 16, 22, 24, 26], [8, 1, 20, 13, 22, 17, 26, 25], [12, 20, 2, 9, 24, 26, 18, 23],
       [20, 13, 9, 3, 26, 25, 23, 19], [16, 22, 24, 26, 4, 10, 14, 21], [22, 17, 26, 25, 10, 5, 21, 15],
       [24, 26, 18, 23, 14, 21, 6, 11], [26, 25, 23, 19, 21, 15, 11, 7]] := by
  rfl

set_option maxHeartbeats 1600000 in
theorem hex_children_volume (a0 a1 a2 b0 b1 b2 c0 c1 c2 d0 d1 d2 e0 e1 e2 f0 f1 f2 g0 g1 g2 h0 h1 h2 : Rat) :
    (((refine (hexMesh [[a0, a1, a2], [b0, b1, b2], [c0, c1, c2], [d0, d1, d2], [e0, e1, e2], [f0, f1, f2],
        [g0, g1, g2], [h0, h1, h2]])).idx 3 0).map
      (hexVol12 (refine (hexMesh [[a0, a1, a2], [b0, b1, b2], [c0, c1, c2], [d0, d1, d2], [e0, e1, e2], [f0, f1, f2],
        [g0, g1, g2], [h0, h1, h2]])))).sum
    = hexVol12 (hexMesh [[a0, a1, a2], [b0, b1, b2], [c0, c1, c2], [d0, d1, d2], [e0, e1, e2], [f0, f1, f2],
        [g0, g1, g2], [h0, h1, h2]]) [0, 1, 2, 3, 4, 5, 6, 7] := by
  rw [hex_rows]
  simp only [List.map_cons, List.map_nil, List.sum_cons, List.sum_nil, hexVol12, coord]
  simp [refine, hexMesh, fineVerts, midpoint, coord, Mesh.tuple, Mesh.idx, Mesh.num, refCount, faceCount,
    List.range'_succ, List.range_succ]
  ring

set_option maxHeartbeats 4000000 in
/-- Grandy's closed form equals twelve times the tensor Simpson rule of the Jacobian determinant, for every mesh and
    every vertex tuple (identity in the 24 coordinates).  The Simpson rule is exact for `det J` because the Jacobian
    determinant of a trilinear map has degree at most 2 in each reference coordinate (not proved here). -/
theorem hexVol12_eq_simpson (M : Mesh) (t : List Nat) : hexVol12 M t = hexVolSimpson12 M t := by
  unfold hexVol12 hexVolSimpson12 hexJacAt
  simp [List.range_succ, bitOf]
  ring

end FeatModel.Refine
