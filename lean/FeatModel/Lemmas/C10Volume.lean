import FeatModel.Model.RefineSpec
import Mathlib.Tactic.Ring
import Mathlib.Algebra.Ring.Rat
/-! C10 — volume and orientation as polynomial identities in the vertex coordinates (tier B, local form): the four
children of one straight triangle / one bilinear quadrilateral with ARBITRARY rational vertex coordinates tile the
parent: equal quarter areas with the parent's sign (triangle), areas summing to the parent's area (quadrilateral).
The child vertex rows and coordinates are those computed by the model's `refine` (tables + vertex refiner). -/
namespace FeatModel.Refine
open FeatModel.Gen.Refine

theorem tri_rows (x0 y0 x1 y1 x2 y2 : Rat) :
    (refine (triMesh x0 y0 x1 y1 x2 y2)).idx 2 0 = [[0, 5, 4], [5, 1, 3], [4, 3, 2], [3, 4, 5]] := by
  rfl

theorem tri_verts (x0 y0 x1 y1 x2 y2 : Rat) :
    (refine (triMesh x0 y0 x1 y1 x2 y2)).verts =
      [[x0, y0], [x1, y1], [x2, y2], [0 + 1/2 * x1 + 1/2 * x2, 0 + 1/2 * y1 + 1/2 * y2],
       [0 + 1/2 * x2 + 1/2 * x0, 0 + 1/2 * y2 + 1/2 * y0], [0 + 1/2 * x0 + 1/2 * x1, 0 + 1/2 * y0 + 1/2 * y1]] := by
  simp [refine, triMesh, fineVerts, midpoint, coord, Mesh.tuple, Mesh.idx, Mesh.num, refCount, faceCount,
    List.range'_succ, List.range_succ]

/-- every child of a straight triangle has exactly a quarter of the parent's signed area (so the children tile the
    parent in area and positive orientation is preserved) -/
theorem tri_children_area (x0 y0 x1 y1 x2 y2 : Rat) :
    ∀ t ∈ (refine (triMesh x0 y0 x1 y1 x2 y2)).idx 2 0,
      triArea2 (refine (triMesh x0 y0 x1 y1 x2 y2)) t = 1/4 * triArea2 (triMesh x0 y0 x1 y1 x2 y2) [0, 1, 2] := by
  intro t ht
  rw [tri_rows] at ht
  simp only [List.mem_cons, List.not_mem_nil, or_false] at ht
  rcases ht with rfl | rfl | rfl | rfl <;>
    (simp only [triArea2, coord, tri_verts]; simp [triMesh]; ring)

theorem quad_rows (x0 y0 x1 y1 x2 y2 x3 y3 : Rat) :
    (refine (quadMesh x0 y0 x1 y1 x2 y2 x3 y3)).idx 2 0
      = [[0, 4, 6, 8], [4, 1, 8, 7], [6, 8, 2, 5], [8, 7, 5, 3]] := by
  rfl

theorem quad_verts (x0 y0 x1 y1 x2 y2 x3 y3 : Rat) :
    (refine (quadMesh x0 y0 x1 y1 x2 y2 x3 y3)).verts =
      [[x0, y0], [x1, y1], [x2, y2], [x3, y3],
       [0 + 1/2 * x0 + 1/2 * x1, 0 + 1/2 * y0 + 1/2 * y1], [0 + 1/2 * x2 + 1/2 * x3, 0 + 1/2 * y2 + 1/2 * y3],
       [0 + 1/2 * x0 + 1/2 * x2, 0 + 1/2 * y0 + 1/2 * y2], [0 + 1/2 * x1 + 1/2 * x3, 0 + 1/2 * y1 + 1/2 * y3],
       [0 + 1/4 * x0 + 1/4 * x1 + 1/4 * x2 + 1/4 * x3, 0 + 1/4 * y0 + 1/4 * y1 + 1/4 * y2 + 1/4 * y3]] := by
  simp [refine, quadMesh, fineVerts, midpoint, coord, Mesh.tuple, Mesh.idx, Mesh.num, refCount, faceCount,
    List.range'_succ, List.range_succ]

/-- the four children of a bilinear quadrilateral have areas that sum to the parent's area, as an identity in the
    eight vertex coordinates -/
theorem quad_children_area (x0 y0 x1 y1 x2 y2 x3 y3 : Rat) :
    (((refine (quadMesh x0 y0 x1 y1 x2 y2 x3 y3)).idx 2 0).map
        (quadArea2 (refine (quadMesh x0 y0 x1 y1 x2 y2 x3 y3)))).sum
      = quadArea2 (quadMesh x0 y0 x1 y1 x2 y2 x3 y3) [0, 1, 2, 3] := by
  rw [quad_rows]
  simp only [List.map_cons, List.map_nil, List.sum_cons, List.sum_nil, quadArea2, coord, quad_verts]
  simp [quadMesh]
  ring

end FeatModel.Refine
