/-
C13 extensions: `max_abs_element` of a consistent vector as a maximum over the enumeration of the global DOFs.
-/
import FeatModel.Lemmas.C13ExtMinMax
import FeatModel.Lemmas.C13Dot
open FeatModel.Dist

set_option linter.unusedSectionVars false

namespace FeatModel.C13L

variable {α : Type} [Field α] [LinearOrder α] [IsStrictOrderedRing α]

theorem mem_lmap_gdof (d : Decomp) (r g : Nat) (hg : g ∈ d.lmap r) :
    ∃ i, i < (d.lmap r).length ∧ d.gdof r i = g := by
  obtain ⟨i, hi, hig⟩ := List.getElem_of_mem hg
  exact ⟨i, hi, by simp [Decomp.gdof, List.getD_eq_getElem?_getD, hi, hig]⟩

theorem gdof_mem_lmap (d : Decomp) (r i : Nat) (hi : i < (d.lmap r).length) : d.gdof r i ∈ d.lmap r := by
  simp [Decomp.gdof, List.getD_eq_getElem?_getD, hi]

theorem gMaxAbs_enum (d : Decomp) (h : d.WF) (xs : List (List α)) (X : Nat → α)
    (hn : xs.length = d.np)
    (hxl : ∀ r, r < d.np → (xs.getD r []).length = (d.patch r).n)
    (hX : ∀ r, r < d.np → ∀ i, i < (d.patch r).n → val (xs.getD r []) i = X (d.gdof r i)) :
    gMaxAbs xs = ((d.maps.flatten.dedup).map fun g => absOf (X g)).foldl maxOf 0 := by
  rw [List.foldl_map]
  have hlt : ∀ r i, i < (xs.getD r []).length → r < d.np := by
    intro r i hi
    by_contra hr
    rw [← hn] at hr
    rw [List.getD_eq_getElem?_getD, List.getElem?_eq_none (Nat.not_lt.1 hr)] at hi
    simp at hi
  apply le_antisymm
  · by_cases hne : ∃ r0, 0 < (xs.getD r0 []).length
    · obtain ⟨r0, h0⟩ := hne
      obtain ⟨r, i, hi, he⟩ := gMaxAbs_attained xs r0 h0
      have hr := hlt r i hi
      have hi' : i < (d.patch r).n := by rw [← hxl r hr]; exact hi
      rw [he, hX r hr i hi']
      apply foldl_max_ge (fun g => absOf (X g))
      rw [mem_flatten_dedup d h]
      exact ⟨r, hr, gdof_mem_lmap d r i (by rw [← h.size r hr]; exact hi')⟩
    · have hz : gMaxAbs xs = 0 := by
        cases hxs : xs with
        | nil => rfl
        | cons v t =>
          obtain ⟨w, hw, hm⟩ := List.mem_map.1 (allMax_mem ((v :: t).map localMaxAbs) (by simp))
          obtain ⟨r, hr, rfl⟩ := List.mem_iff_getElem.1 hw
          have : (v :: t)[r] = [] := by
            apply List.eq_nil_of_length_eq_zero
            by_contra hc
            apply hne
            refine ⟨r, ?_⟩
            rw [hxs, List.getD_eq_getElem?_getD, List.getElem?_eq_getElem hr]
            exact Nat.pos_of_ne_zero hc
          unfold gMaxAbs
          rw [← hm, this]; rfl
      rw [hz]
      exact foldl_max_init_le (fun g => absOf (X g)) _ 0
  · rcases foldl_max_attained (fun g => absOf (X g)) d.maps.flatten.dedup 0 with hz | ⟨g, hg, hm⟩
    · rw [hz]; exact gMaxAbs_nonneg xs
    · rw [hm]
      obtain ⟨r, hr, hgr⟩ := (mem_flatten_dedup d h g).1 hg
      obtain ⟨i, hi, rfl⟩ := mem_lmap_gdof d r g hgr
      have hi' : i < (d.patch r).n := by rw [h.size r hr]; exact hi
      rw [← hX r hr i hi']
      exact gMaxAbs_ge xs r i (by rw [hxl r hr]; exact hi')

end FeatModel.C13L
