import FeatModel.Model.FETrace
/-! kernel-checked trace conformity of L2 on the hexahedron, faces 0 and 1 in every stored order -/
namespace FeatModel.FE
set_option maxRecDepth 100000 in
theorem trace3H_L2_0 : traceFaces3 .L2 .H [0, 1] = true := by decide +kernel
end FeatModel.FE
