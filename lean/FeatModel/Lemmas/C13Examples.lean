/- C13: concrete rational data for the non-vacuity examples of Props/C13.lean. -/
import Mathlib.Data.Rat.Cast.CharZero
import Mathlib.Algebra.Field.Rat
import FeatModel.Lemmas.C13Dot
open FeatModel.Dist

namespace FeatModel.C13L

/-- a consistent (type-1) vector on `exDecomp`: global values 0↦5, 1↦7, 2↦1, 3↦2, 4↦3 -/
def exVs : List (List ℚ) := [[5, 7, 1], [7, 5, 2], [3, 5]]

/-- local matrices (CSR rows) on `exDecomp` -/
def exMats : List (List (List (Nat × ℚ))) :=
  [[[(0, 2), (1, -1)], [(0, -1), (1, 2)], [(2, 1)]],
   [[(0, 2), (1, -1)], [(0, -1), (1, 1)], [(2, 4), (1, 1)]],
   [[(0, 3)], [(1, 1), (0, -1)]]]

theorem exDecomp_wf : exDecomp.WF := by
  refine ⟨?_, ?_, ?_, ?_, ?_, ?_, ?_, ?_, ?_⟩
  case refine_9 =>
    intro r hr s hs
    have hr' : r = 0 ∨ r = 1 ∨ r = 2 := by change r < 3 at hr; omega
    have hs' : s = 0 ∨ s = 1 ∨ s = 2 := by change s < 3 at hs; omega
    rcases hr' with rfl | rfl | rfl <;> rcases hs' with rfl | rfl | rfl <;> decide
  all_goals decide

end FeatModel.C13L
