/-
C18 helper lemmas, part 10: for a positive definite input (`xᵀ A x > 0` for `x ≠ 0`; symmetry is not needed) the
diagonal pivot search of `Math::invert_matrix` never meets a zero pivot, so the inversion succeeds.  The local mass
matrices `M = Σ_k ω_k φ(x_k) φ(x_k)ᵀ` of a rule with positive weights on a unisolvent point set are positive definite.

Idea: with the exchange invariant `T w = z` of `C18_inv` one has `xᵀ A x = wᵀ z = wᵀ T w`; the map `x ↦ w` stays
surjective from step to step, so `T` is positive definite as a quadratic form in every step, in particular `T_qq > 0`.
-/
import FeatModel.Lemmas.C18_inv
import FeatModel.Lemmas.C18_prol
open FeatModel.GT Finset

namespace C18L

def PosDef (n : Nat) (A : Nat → Nat → Rat) : Prop :=
  ∀ x : Nat → Rat, (∃ i, i < n ∧ x i ≠ 0) → 0 < ∑ i ∈ range n, x i * (∑ l ∈ range n, A i l * x l)

open Classical in
/-- every exchange vector `w` is reached: `x ↦ (y on the pivoted indices, -x elsewhere)` is onto -/
def Surj (n : Nat) (A : Nat → Nat → Rat) (k : Nat) (p : List Nat) : Prop :=
  ∀ w : Nat → Rat, ∃ x : Nat → Rat, ∀ j, j < n →
    (if Pivoted p k j then (∑ l ∈ range n, A j l * x l) else -(x j)) = w j

theorem Surj_init (n : Nat) (A : Nat → Nat → Rat) (p : List Nat) : Surj n A 0 p := by
  classical
  intro w
  refine ⟨fun j => -(w j), ?_⟩
  intro j _
  have hno : ¬ Pivoted p 0 j := by rintro ⟨m, hm, _⟩; omega
  simp [hno]

theorem PD_step {n : Nat} {A : Nat → Nat → Rat} {k : Nat} {st : InvState} (hk : k < n)
    (hpd : PosDef n A) (hinv : Inv n A k st) (hsurj : Surj n A k st.p) :
    ∃ st', invStep n st k = some st' ∧ Surj n A (k + 1) st'.p := by
  classical
  obtain ⟨hp, hx⟩ := hinv
  have hrange := pivotSearch_range st.a st.p hk
  set i0 := pivotSearch st.a st.p k n with hi0
  have hp' : PInv n (swapPiv st.p k i0) := PInv_swapPiv hp hk hrange.1 hrange.2
  set p' := swapPiv st.p k i0 with hp'def
  set q := p'.getD k 0 with hqdef
  have hq : q < n := hp'.2.1 k hk
  have hlen : st.p.length = n := hp.1
  have hbelow : ∀ m, m < k → p'.getD m 0 = st.p.getD m 0 := fun m hm =>
    swapPiv_below st.p (by omega) (by omega) hrange.1 hm
  have hnotq : ¬ Pivoted st.p k q := by
    rintro ⟨m, hm, hmq⟩
    have : p'.getD m 0 = p'.getD k 0 := by rw [hbelow m hm, hmq]
    have := hp'.2.2 m k (by omega) hk this
    omega
  have hpiv : ∀ j, Pivoted p' (k + 1) j ↔ (Pivoted st.p k j ∨ j = q) := by
    intro j
    constructor
    · rintro ⟨m, hm, hmj⟩
      by_cases hmk : m = k
      · right; rw [← hmj, hmk]
      · left; exact ⟨m, by omega, by rw [← hbelow m (by omega)]; exact hmj⟩
    · rintro (⟨m, hm, hmj⟩ | hj)
      · exact ⟨m, by omega, by rw [hbelow m hm]; exact hmj⟩
      · exact ⟨k, by omega, by rw [hj]⟩
  -- the pivot is positive
  have hpos : 0 < FeatModel.GT.get st.a q q := by
    obtain ⟨x, hxw⟩ := hsurj (fun j => if j = q then 1 else 0)
    have hxq : x q = -1 := by
      have := hxw q hq
      rw [if_neg hnotq] at this
      simp at this
      linarith
    have hrow := hx x q hq
    rw [if_neg hnotq] at hrow
    have hT : ∑ j ∈ range n, FeatModel.GT.get st.a q j *
        (if Pivoted st.p k j then (∑ l ∈ range n, A j l * x l) else -(x j)) = FeatModel.GT.get st.a q q := by
      rw [Finset.sum_eq_single q]
      · rw [hxw q hq]; simp
      · intro j hj hjq
        rw [hxw j (Finset.mem_range.1 hj)]; simp [hjq]
      · intro hn; exact absurd (Finset.mem_range.2 hq) hn
    have hquad : ∑ i ∈ range n, x i * (∑ l ∈ range n, A i l * x l)
        = -(∑ l ∈ range n, A q l * x l) := by
      -- x_i y_i = w_i z_i termwise, and w = e_q
      have e : ∀ i ∈ range n, x i * (∑ l ∈ range n, A i l * x l)
          = (if i = q then 1 else 0) * (if Pivoted st.p k i then x i else -(∑ l ∈ range n, A i l * x l)) := by
        intro i hi
        have hw := hxw i (Finset.mem_range.1 hi)
        by_cases hpi : Pivoted st.p k i
        · rw [if_pos hpi] at hw ⊢
          rw [hw]; ring
        · rw [if_neg hpi] at hw ⊢
          have : x i = -(if i = q then 1 else 0) := by linarith
          rw [this]; ring
      rw [Finset.sum_congr rfl e, Finset.sum_eq_single q]
      · rw [if_neg hnotq]; simp
      · intro j _ hjq; simp [hjq]
      · intro hn; exact absurd (Finset.mem_range.2 hq) hn
    have := hpd x ⟨q, hq, by rw [hxq]; norm_num⟩
    rw [hquad, ← hrow, hT] at this
    exact this
  have hd : FeatModel.GT.get st.a q q ≠ 0 := ne_of_gt hpos
  refine ⟨{ a := sweep n q st.a, p := p', det := st.det * FeatModel.GT.get st.a q q }, ?_, ?_⟩
  · unfold invStep
    simp only [← hi0, ← hp'def, ← hqdef, hd, if_false]
  · -- surjectivity after the exchange at q
    intro w'
    set T := FeatModel.GT.get st.a with hT
    let wq : Rat := (-(w' q) - ∑ j ∈ (range n).erase q, T q j * w' j) / T q q
    obtain ⟨x, hxw⟩ := hsurj (Function.update w' q wq)
    refine ⟨x, ?_⟩
    intro j hj
    by_cases hjq : j = q
    · rw [hjq, if_pos ((hpiv q).2 (Or.inr rfl))]
      have hrow := hx x q hq
      rw [if_neg hnotq] at hrow
      have e : ∑ j ∈ range n, T q j *
          (if Pivoted st.p k j then (∑ l ∈ range n, A j l * x l) else -(x j))
          = T q q * wq + ∑ j ∈ (range n).erase q, T q j * w' j := by
        rw [← Finset.add_sum_erase _ _ (Finset.mem_range.2 hq)]
        congr 1
        · rw [hxw q hq, Function.update_self]
        · apply Finset.sum_congr rfl
          intro j hj
          have hjne : j ≠ q := (Finset.mem_erase.1 hj).1
          rw [hxw j (Finset.mem_range.1 (Finset.mem_erase.1 hj).2), Function.update_of_ne hjne]
      rw [hT] at e
      rw [e] at hrow
      have : T q q * wq = -(w' q) - ∑ j ∈ (range n).erase q, T q j * w' j := by
        simp only [wq]; field_simp
      rw [hT] at this
      linarith
    · have h1 : Pivoted p' (k + 1) j ↔ Pivoted st.p k j := by rw [hpiv j]; simp [hjq]
      have := hxw j hj
      rw [Function.update_of_ne hjq] at this
      rw [← this]
      by_cases hpj : Pivoted st.p k j
      · rw [if_pos (h1.2 hpj), if_pos hpj]
      · rw [if_neg (fun h => hpj (h1.1 h)), if_neg hpj]

theorem PD_loop {n : Nat} {A : Nat → Nat → Rat} (hpd : PosDef n A) (m : Nat) : ∀ (k : Nat) (st : InvState),
    k + m = n → Inv n A k st → Surj n A k st.p → ∃ st', invLoop n (List.range' k m) st = some st' := by
  induction m with
  | zero => intro k st _ _ _; exact ⟨st, by simp [invLoop]⟩
  | succ m ih =>
    intro k st hkm hinv hsurj
    obtain ⟨st1, h1, hs1⟩ := PD_step (by omega) hpd hinv hsurj
    obtain ⟨st', h'⟩ := ih (k + 1) st1 (by omega) (Inv_step (by omega) hinv h1) hs1
    refine ⟨st', ?_⟩
    rw [List.range'_succ]
    unfold invLoop
    rw [h1]
    exact h'

/-- **no zero pivot for positive definite input**: `invert_matrix` succeeds -/
theorem invert_posdef_succeeds {n : Nat} (a : Mat) (hn : 0 < n) (hpd : PosDef n (FeatModel.GT.get a)) :
    ∃ det b p, invertMatrix n n a = some (det, b, p) := by
  unfold invertMatrix
  have h0 : ¬ (n = 0 ∨ n < n) := by omega
  simp only [h0, if_false]
  by_cases h1 : n = 1
  · subst h1
    simp only [if_true]
    have hd : FeatModel.GT.get a 0 0 ≠ 0 := by
      have := hpd (fun _ => 1) ⟨0, by omega, by norm_num⟩
      simp at this
      exact ne_of_gt this
    simp [hd]
  · simp only [h1, if_false]
    obtain ⟨st', h'⟩ := PD_loop hpd n 0 _ (by omega) (Inv_init n a) (Surj_init n _ _)
    rw [← List.range_eq_range'] at h'
    rw [h']
    exact ⟨_, _, _, rfl⟩

theorem list_sum_map_mul_left {α : Type} (l : List α) (f : α → Rat) (c : Rat) :
    c * (l.map f).sum = (l.map fun p => c * f p).sum := by
  induction l with
  | nil => simp
  | cons a l ih => simp [← ih]; ring

theorem list_sum_nonneg (l : List Rat) (h : ∀ v ∈ l, 0 ≤ v) : 0 ≤ l.sum := by
  induction l with
  | nil => simp
  | cons a l ih =>
    rw [List.sum_cons]
    have := h a (by simp)
    have := ih (fun v hv => h v (by simp [hv]))
    linarith

/-- mass matrices: positive weights and a unisolvent point set give a positive definite `M = Σ_k ω_k φ φᵀ` -/
theorem massF_posdef (nfl : Nat) (pts : List Pt) (hw : ∀ p ∈ pts, 0 < p.w)
    (huni : ∀ x : Nat → Rat, (∃ i, i < nfl ∧ x i ≠ 0) → ∃ p ∈ pts, ∑ i ∈ range nfl, x i * p.f.getD i 0 ≠ 0) :
    PosDef nfl (FeatModel.GT.get (massF nfl pts)) := by
  intro x hx
  have e : ∑ i ∈ range nfl, x i * (∑ l ∈ range nfl, FeatModel.GT.get (massF nfl pts) i l * x l)
      = (pts.map fun p => p.w * (∑ i ∈ range nfl, x i * p.f.getD i 0) ^ 2).sum := by
    have e1 : ∀ i ∈ range nfl, x i * (∑ l ∈ range nfl, FeatModel.GT.get (massF nfl pts) i l * x l)
        = (pts.map fun p => p.w * (x i * p.f.getD i 0) * (∑ l ∈ range nfl, x l * p.f.getD l 0)).sum := by
      intro i hi
      have e2 : ∀ l ∈ range nfl, FeatModel.GT.get (massF nfl pts) i l * x l
          = (pts.map fun p => p.w * p.f.getD i 0 * p.f.getD l 0 * x l).sum := by
        intro l hl
        unfold massF
        rw [get_tab _ (Finset.mem_range.1 hi) (Finset.mem_range.1 hl), lsum_eq, ← list_sum_map_mul_right]
      rw [Finset.sum_congr rfl e2, ← list_sum_map_finset, list_sum_map_mul_left]
      congr 1
      apply List.map_congr_left
      intro p _
      rw [Finset.mul_sum, Finset.mul_sum]
      apply Finset.sum_congr rfl
      intro l _
      ring
    rw [Finset.sum_congr rfl e1, ← list_sum_map_finset]
    congr 1
    apply List.map_congr_left
    intro p _
    rw [← Finset.sum_mul, ← Finset.mul_sum]
    ring
  rw [e]
  obtain ⟨p0, hp0, hne⟩ := huni x hx
  -- a sum of non-negative terms with one positive term
  have hnonneg : ∀ p ∈ pts, 0 ≤ p.w * (∑ i ∈ range nfl, x i * p.f.getD i 0) ^ 2 :=
    fun p hp => mul_nonneg (le_of_lt (hw p hp)) (sq_nonneg _)
  have hpos0 : 0 < p0.w * (∑ i ∈ range nfl, x i * p0.f.getD i 0) ^ 2 :=
    mul_pos (hw p0 hp0) (by positivity)
  clear e huni hx
  induction pts with
  | nil => simp at hp0
  | cons a l ih =>
    rw [List.map_cons, List.sum_cons]
    have hl : 0 ≤ (l.map fun p => p.w * (∑ i ∈ range nfl, x i * p.f.getD i 0) ^ 2).sum := by
      apply list_sum_nonneg
      intro v hv
      obtain ⟨p, hp, rfl⟩ := List.mem_map.1 hv
      exact hnonneg p (by simp [hp])
    rcases List.mem_cons.1 hp0 with h | h
    · subst h; linarith
    · have ha := hnonneg a (by simp)
      have := ih (fun p hp => hw p (by simp [hp])) h (fun p hp => hnonneg p (by simp [hp]))
      linarith

end C18L
