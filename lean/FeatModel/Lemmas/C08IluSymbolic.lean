import FeatModel.Lemmas.C08IluFactorAux
import FeatModel.Lemmas.C08Sweeps
import FeatModel.Lemmas.C08IluOffs
/-! C08: the symbolic ILU: for every matrix with sorted rows and stored diagonal, `set_struct_csr` succeeds and
`factorize_symbolic(p)` yields, for EVERY `p`, a well-shaped (`wf`), sorted (hence duplicate-free) structure that
contains the pattern of the matrix. -/
namespace FeatModel.Solver
open FeatModel.LA

variable {α : Type}

namespace Sym
open Offs

/-! ### arrays as `prefix ++ tail` -/

theorem getD_toList (a : Array Nat) (q : Nat) : a.getD q 0 = a.toList.getD q 0 := by
  rw [Array.getD_eq_getD_getElem?, List.getD_eq_getElem?_getD, Array.getElem?_toList]

theorem arr_size (a p : Array Nat) (t : List Nat) (h : a.toList = p.toList ++ t) : a.size = p.size + t.length := by
  rw [← Array.length_toList, h, List.length_append, Array.length_toList]

theorem arr_getD_left (a p : Array Nat) (t : List Nat) (h : a.toList = p.toList ++ t) (q : Nat) (hq : q < p.size) :
    a.getD q 0 = p.getD q 0 := by
  rw [getD_toList, getD_toList, h, List.getD_eq_getElem?_getD, List.getD_eq_getElem?_getD,
    List.getElem?_append_left (by rw [Array.length_toList]; exact hq)]

theorem arr_getD_right (a p : Array Nat) (t : List Nat) (h : a.toList = p.toList ++ t) (q : Nat) (hq : p.size ≤ q) :
    a.getD q 0 = t.getD (q - p.size) 0 := by
  rw [getD_toList, h, List.getD_eq_getElem?_getD, List.getD_eq_getElem?_getD,
    List.getElem?_append_right (by rw [Array.length_toList]; exact hq), Array.length_toList]

theorem foldRange_push_toList (g : Nat → Nat) (b e : Nat) (a : Array Nat) :
    (foldRange b e (fun a j => a.push (g j)) a).toList = a.toList ++ (List.range' b (e - b)).map g := by
  unfold foldRange
  generalize List.range' b (e - b) = l
  induction l generalizing a with
  | nil => simp
  | cons x l _ => simp

/-! ### `_insert` -/

theorem insertSearch_spec (idx : Array Nat) (c : Nat) : ∀ (f i : Nat) (a b : List Nat),
    idx.toList = a ++ b → i = a.length → b.length ≤ f →
    ∃ a' b', b = a' ++ b' ∧ (insertSearch idx c f i).1 = a.length + a'.length ∧ (∀ x ∈ a', x < c) ∧
      ((insertSearch idx c f i).2 = true → ∃ b'', b' = c :: b'') ∧
      ((insertSearch idx c f i).2 = false → ∀ y b'', b' = y :: b'' → c < y)
  | 0, i, a, b, h, hi, hf => by
    have hb : b = [] := List.length_eq_zero_iff.mp (by omega)
    subst hb
    exact ⟨[], [], rfl, by simp [insertSearch, hi], by simp, by simp [insertSearch], by simp⟩
  | f + 1, i, a, b, h, hi, hf => by
    have hsz : idx.size = a.length + b.length := by rw [← Array.length_toList, h, List.length_append]
    cases b with
    | nil =>
      have hs : ¬ i < idx.size := by rw [hsz, hi]; simp
      rw [insertSearch, if_neg hs]
      exact ⟨[], [], rfl, by simp [hi], by simp, by simp, by simp⟩
    | cons y b1 =>
      have hs : i < idx.size := by rw [hsz, hi]; simp
      have hy : idx.getD i 0 = y := by
        rw [getD_toList, h, hi, List.getD_eq_getElem?_getD, List.getElem?_append_right (Nat.le_refl _)]
        simp
      rw [insertSearch, if_pos hs, hy]
      by_cases h1 : y = c
      · rw [if_pos (by simpa using h1)]
        exact ⟨[], y :: b1, rfl, by simp [hi], by simp, fun _ => ⟨b1, by rw [h1]⟩, by simp⟩
      · rw [if_neg (by simpa using h1)]
        by_cases h2 : c < y
        · rw [if_pos h2]
          refine ⟨[], y :: b1, rfl, by simp [hi], by simp, by simp, ?_⟩
          intro _ y' b'' he
          injection he with he1 he2
          rw [← he1]; exact h2
        · rw [if_neg h2]
          obtain ⟨a', b', hb, hr, ha', ht, hf'⟩ := insertSearch_spec idx c f (i + 1) (a ++ [y]) b1
            (by rw [h]; simp) (by simp [hi]) (by simpa using hf)
          refine ⟨y :: a', b', by rw [hb]; rfl, ?_, ?_, ht, hf'⟩
          · rw [hr]; simp; omega
          · intro x hx
            rcases List.mem_cons.mp hx with hx | hx
            · rw [hx]; omega
            · exact ha' x hx

theorem insertEntry_spec (idx lvl : Array Nat) (start c l : Nat) (p a b : List Nat)
    (h : idx.toList = p ++ a ++ b) (hs : start = p.length + a.length)
    (hpw : (a ++ b).Pairwise (· < ·)) (ha : ∀ x ∈ a, x < c) :
    ∃ a2 b2, (insertEntry idx lvl start c l).1.toList = p ++ a2 ++ b2 ∧
      (insertEntry idx lvl start c l).2.2 = p.length + a2.length ∧
      (a2 ++ b2).Pairwise (· < ·) ∧ (∀ x ∈ a2, x ≤ c) ∧ (∀ x, x ∈ a2 ++ b2 ↔ x = c ∨ x ∈ a ++ b) := by
  have hsz : idx.size = p.length + a.length + b.length := by
    rw [← Array.length_toList, h, List.length_append, List.length_append]
  obtain ⟨a', b', hb, hr, ha', ht, hf⟩ := insertSearch_spec idx c (idx.size - start) start (p ++ a) b h
    (by rw [hs, List.length_append]) (by omega)
  rw [List.length_append] at hr
  subst hb
  have ha2 : ∀ x ∈ a ++ a' ++ [c], x ≤ c := by
    intro x hx
    simp only [List.mem_append, List.mem_singleton] at hx
    rcases hx with (hx | hx) | hx
    · exact Nat.le_of_lt (ha x hx)
    · exact Nat.le_of_lt (ha' x hx)
    · omega
  unfold insertEntry
  simp only []
  split
  next hit =>
    obtain ⟨b'', hb''⟩ := ht hit
    subst hb''
    have he : a ++ a' ++ [c] ++ b'' = a ++ (a' ++ c :: b'') := by simp
    refine ⟨a ++ a' ++ [c], b'', ?_, ?_, ?_, ha2, ?_⟩
    · rw [h]; simp
    · simp only [hr, List.length_append, List.length_cons, List.length_nil]; omega
    · rw [he]; exact hpw
    · intro x
      rw [he]
      constructor
      · intro hx; exact Or.inr hx
      · rintro (hx | hx)
        · rw [hx]; simp
        · exact hx
  next hit =>
    have hmiss : (insertSearch idx c (idx.size - start) start).2 = false := by simpa using hit
    have hcb : ∀ y ∈ b', c < y := by
      cases b' with
      | nil => simp
      | cons y0 b'' =>
        have h0 := hf hmiss y0 b'' rfl
        have hp : (y0 :: b'').Pairwise (· < ·) := by
          rw [← List.append_assoc] at hpw
          exact (List.pairwise_append.mp hpw).2.1
        intro y hy
        rcases List.mem_cons.mp hy with hy | hy
        · rw [hy]; exact h0
        · exact Nat.lt_trans h0 ((List.pairwise_cons.mp hp).1 y hy)
    refine ⟨a ++ a' ++ [c], b', ?_, ?_, ?_, ha2, ?_⟩
    · simp only [h]
      have e1 : p ++ a ++ (a' ++ b') = (p ++ a ++ a') ++ b' := by simp
      have e2 : (insertSearch idx c (idx.size - start) start).1 = (p ++ a ++ a').length := by
        rw [hr]; simp [Nat.add_assoc]
      rw [e1, e2, List.take_left' rfl, List.drop_left' rfl]
      simp
    · simp only [hr, List.length_append, List.length_cons, List.length_nil]; omega
    · rw [← List.append_assoc] at hpw
      obtain ⟨q1, q2, q3⟩ := List.pairwise_append.mp hpw
      have e : a ++ a' ++ [c] ++ b' = (a ++ a') ++ c :: b' := by simp
      rw [e, List.pairwise_append]
      refine ⟨q1, List.pairwise_cons.mpr ⟨hcb, q2⟩, ?_⟩
      intro x hx y hy
      rcases List.mem_cons.mp hy with hy | hy
      · rw [hy]
        rcases List.mem_append.mp hx with hx | hx
        · exact ha x hx
        · exact ha' x hx
      · exact q3 x hx y hy
    · intro x
      simp only [List.mem_append, List.mem_cons]
      tauto


/-! ### the fill loop of one row -/

/-- the tails (current rows) of the two flat arrays: strictly increasing, in the right column range, and they contain
    the level-0 entries -/
structure Tails (i n : Nat) (L0 U0 tL tU : List Nat) : Prop where
  pwL : tL.Pairwise (· < ·)
  pwU : tU.Pairwise (· < ·)
  bL : ∀ x ∈ tL, x < i
  bU : ∀ x ∈ tU, i < x ∧ x < n
  mL : ∀ x ∈ L0, x ∈ tL
  mU : ∀ x ∈ U0, x ∈ tU

/-- invariant of the `k` loop: the arrays are `finished rows ++ (a ++ b)`, the search starts at the end of `a`, and
    everything in `a` lies below the columns still to come -/
def EntInv (i n : Nat) (PL PU : Array Nat) (L0 U0 : List Nat) (e k : Nat) (c : SymCur) : Prop :=
  ∃ aL bL aU bU, c.idxL.toList = PL.toList ++ aL ++ bL ∧ c.olj = PL.size + aL.length ∧
    c.idxU.toList = PU.toList ++ aU ++ bU ∧ c.ouj = PU.size + aU.length ∧
    Tails i n L0 U0 (aL ++ bL) (aU ++ bU) ∧
    (∀ x ∈ aL, ∀ k', k ≤ k' → k' < e → x < PU.getD k' 0) ∧
    (∀ x ∈ aU, ∀ k', k ≤ k' → k' < e → x < PU.getD k' 0)

/-- invariant of the `j` loop -/
def CurInv (i n : Nat) (PL PU : Array Nat) (L0 U0 : List Nat) (c : SymCur) : Prop :=
  ∃ tL tU, c.idxL.toList = PL.toList ++ tL ∧ c.idxU.toList = PU.toList ++ tU ∧ Tails i n L0 U0 tL tU

theorem EntInv.cur {i n : Nat} {PL PU : Array Nat} {L0 U0 : List Nat} {e k : Nat} {c : SymCur}
    (h : EntInv i n PL PU L0 U0 e k c) : CurInv i n PL PU L0 U0 c := by
  obtain ⟨aL, bL, aU, bU, hL, _, hU, _, ht, _, _⟩ := h
  exact ⟨aL ++ bL, aU ++ bU, by rw [hL, List.append_assoc], by rw [hU, List.append_assoc], ht⟩

theorem symEntry_inv (pn i n lj : Nat) (PL PU : Array Nat) (L0 U0 : List Nat) (b e k : Nat) (c : SymCur)
    (hrow : ∀ k', b ≤ k' → k' < e → k' < PU.size ∧ PU.getD k' 0 < n)
    (hsrt : ∀ k' k'', b ≤ k' → k' < k'' → k'' < e → PU.getD k' 0 < PU.getD k'' 0)
    (hb : b ≤ k) (hk : k < e) (h : EntInv i n PL PU L0 U0 e k c) :
    EntInv i n PL PU L0 U0 e (k + 1) (symEntry pn i lj c k) := by
  obtain ⟨aL, bL, aU, bU, hL, ho, hU, hu, ht, hxL, hxU⟩ := h
  have hck : c.idxU.getD k 0 = PU.getD k 0 :=
    arr_getD_left c.idxU PU (aU ++ bU) (by rw [hU, List.append_assoc]) k (hrow k hb hk).1
  have hxL' : ∀ x ∈ aL, ∀ k', k + 1 ≤ k' → k' < e → x < PU.getD k' 0 :=
    fun x hx k' h1 h2 => hxL x hx k' (by omega) h2
  have hxU' : ∀ x ∈ aU, ∀ k', k + 1 ≤ k' → k' < e → x < PU.getD k' 0 :=
    fun x hx k' h1 h2 => hxU x hx k' (by omega) h2
  have hnew : ∀ (a2 : List Nat), (∀ x ∈ a2, x ≤ PU.getD k 0) →
      ∀ x ∈ a2, ∀ k', k + 1 ≤ k' → k' < e → x < PU.getD k' 0 := by
    intro a2 h4 x hx k' h1 h2
    exact Nat.lt_of_le_of_lt (h4 x hx) (hsrt k k' hb (by omega) h2)
  unfold symEntry
  simp only []
  rw [hck]
  split
  · exact ⟨aL, bL, aU, bU, hL, ho, hU, hu, ht, hxL', hxU'⟩
  · split
    next hlt =>
      obtain ⟨a2, b2, h1, h2, h3, h4, h5⟩ := insertEntry_spec c.idxL c.lvlL c.olj (PU.getD k 0)
        (lj + c.lvlU.getD k 0 + 1) PL.toList aL bL hL (by rw [ho, ← Array.length_toList (xs := PL)]) ht.pwL
        (fun x hx => hxL x hx k (Nat.le_refl _) hk)
      refine ⟨a2, b2, aU, bU, h1, by rw [h2, Array.length_toList (xs := PL)], hU, hu, ⟨h3, ht.pwU, ?_, ht.bU, ?_, ht.mU⟩,
        hnew a2 h4, hxU'⟩
      · intro x hx
        rcases (h5 x).mp hx with hx | hx
        · rw [hx]; exact hlt
        · exact ht.bL x hx
      · intro x hx
        exact (h5 x).mpr (Or.inr (ht.mL x hx))
    next hlt =>
      split
      next hgt =>
        obtain ⟨a2, b2, h1, h2, h3, h4, h5⟩ := insertEntry_spec c.idxU c.lvlU c.ouj (PU.getD k 0)
          (lj + c.lvlU.getD k 0 + 1) PU.toList aU bU hU (by rw [hu, ← Array.length_toList (xs := PU)]) ht.pwU
          (fun x hx => hxU x hx k (Nat.le_refl _) hk)
        refine ⟨aL, bL, a2, b2, hL, ho, h1, by rw [h2, Array.length_toList (xs := PU)], ⟨ht.pwL, h3, ht.bL, ?_, ht.mL, ?_⟩,
          hxL', hnew a2 h4⟩
        · intro x hx
          rcases (h5 x).mp hx with hx | hx
          · rw [hx]; exact ⟨hgt, (hrow k hb hk).2⟩
          · exact ht.bU x hx
        · intro x hx
          exact (h5 x).mpr (Or.inr (ht.mU x hx))
      next hgt =>
        exact ⟨aL, bL, aU, bU, hL, ho, hU, hu, ht, hxL', hxU'⟩

theorem symRowLoop_inv (pn i n : Nat) (PL PU ptrU : Array Nat) (L0 U0 : List Nat)
    (hptr : ptrU.getD i 0 = PU.size)
    (hrow : ∀ r, r < i → ∀ k, ptrU.getD r 0 ≤ k → k < ptrU.getD (r + 1) 0 →
      k < PU.size ∧ r < PU.getD k 0 ∧ PU.getD k 0 < n)
    (hsrt : ∀ r, r < i → ∀ k k', ptrU.getD r 0 ≤ k → k < k' → k' < ptrU.getD (r + 1) 0 →
      PU.getD k 0 < PU.getD k' 0) :
    ∀ (f j : Nat) (c : SymCur), PL.size ≤ j → CurInv i n PL PU L0 U0 c →
      CurInv i n PL PU L0 U0 (symRowLoop pn i ptrU f j c)
  | 0, _, _, _, h => h
  | f + 1, j, c, hj, h => by
    rw [symRowLoop]
    by_cases hjs : j < c.idxL.size
    · rw [if_pos hjs]
      simp only []
      refine symRowLoop_inv pn i n PL PU ptrU L0 U0 hptr hrow hsrt f (j + 1) _ (by omega) ?_
      obtain ⟨tL, tU, hL, hU, ht⟩ := h
      have hsz := arr_size c.idxL PL tL hL
      have hd : j - PL.size < tL.length := by omega
      have hcj : c.idxL.getD j 0 = tL[j - PL.size] := by
        rw [arr_getD_right c.idxL PL tL hL j hj, List.getD_eq_getElem?_getD, List.getElem?_eq_getElem hd]
        rfl
      have hcji : c.idxL.getD j 0 < i := by rw [hcj]; exact ht.bL _ (List.getElem_mem hd)
      have hsplit : tL.take (j - PL.size) ++ tL.drop (j - PL.size) = tL := List.take_append_drop _ _
      have hbelow : ∀ x ∈ tL.take (j - PL.size), x < c.idxL.getD j 0 := by
        intro x hx
        have hp := ht.pwL
        rw [← hsplit, List.pairwise_append] at hp
        refine hp.2.2 x hx _ ?_
        rw [hcj, List.drop_eq_getElem_cons hd]
        exact List.mem_cons_self
      generalize hbdef : ptrU.getD (c.idxL.getD j 0) 0 = b
      generalize hedef : ptrU.getD (c.idxL.getD j 0 + 1) 0 = e
      have hrow' := hrow _ hcji
      have hsrt' := hsrt _ hcji
      rw [hbdef, hedef] at hrow' hsrt'
      have h0 : EntInv i n PL PU L0 U0 e b { c with olj := j, ouj := ptrU.getD i 0 } := by
        refine ⟨tL.take (j - PL.size), tL.drop (j - PL.size), [], tU, ?_, ?_, ?_, ?_, ?_, ?_, ?_⟩
        · show c.idxL.toList = _
          rw [List.append_assoc, hsplit, hL]
        · show j = _
          rw [List.length_take]; omega
        · show c.idxU.toList = _
          rw [List.append_nil, hU]
        · show ptrU.getD i 0 = _
          rw [hptr]; rfl
        · rw [hsplit, List.nil_append]; exact ht
        · intro x hx k' h1 h2
          exact Nat.lt_trans (hbelow x hx) (hrow' k' h1 h2).2.1
        · intro x hx
          exact absurd hx (List.not_mem_nil)
      by_cases hbe : b ≤ e
      · exact (foldRange_induct (fun k y => EntInv i n PL PU L0 U0 e k y) (symEntry pn i (c.lvlL.getD j 0)) b e _
          hbe h0 (fun m y h1 h2 hy => symEntry_inv pn i n _ PL PU L0 U0 b e m y
            (fun k' q1 q2 => ⟨(hrow' k' q1 q2).1, (hrow' k' q1 q2).2.2⟩) hsrt' h1 h2 hy)).cur
      · have hz : e - b = 0 := by omega
        unfold foldRange
        rw [hz]
        exact h0.cur
    · rw [if_neg hjs]
      exact h


/-! ### finished rows -/

/-- the rows `< m` of one of the two growing structures: proper offsets, columns in range (`Q r x` for row `r`),
    strictly increasing rows that contain the rows of the level-0 structure `(rp, ci)` -/
structure Rows (n : Nat) (Q : Nat → Nat → Prop) (rp ci ptr idx : Array Nat) (m : Nat) : Prop where
  off : OffInv ptr m idx.size
  glob : ∀ k, k < idx.size → idx.getD k 0 < n
  bnd : ∀ r, r < m → ∀ k, ptr.getD r 0 ≤ k → k < ptr.getD (r + 1) 0 → Q r (idx.getD k 0)
  srt : ∀ r, r < m → ∀ k, ptr.getD r 0 ≤ k → k + 1 < ptr.getD (r + 1) 0 → idx.getD k 0 < idx.getD (k + 1) 0
  cov : ∀ r, r < m → ∀ k, rp.getD r 0 ≤ k → k < rp.getD (r + 1) 0 →
    ∃ k', ptr.getD r 0 ≤ k' ∧ k' < ptr.getD (r + 1) 0 ∧ idx.getD k' 0 = ci.getD k 0

theorem Rows.base (n : Nat) (Q : Nat → Nat → Prop) (rp ci : Array Nat) : Rows n Q rp ci #[0] #[] 0 :=
  ⟨OffInv.base, fun _ hk => absurd hk (Nat.not_lt_zero _), fun _ hr => absurd hr (Nat.not_lt_zero _),
    fun _ hr => absurd hr (Nat.not_lt_zero _), fun _ hr => absurd hr (Nat.not_lt_zero _)⟩

theorem Rows.end_le {n : Nat} {Q : Nat → Nat → Prop} {rp ci ptr idx : Array Nat} {m : Nat}
    (h : Rows n Q rp ci ptr idx m) {r : Nat} (hr : r < m) : ptr.getD (r + 1) 0 ≤ idx.size := by
  have := rp_mono ptr m h.off.mono m (r + 1) (by omega) (Nat.le_refl _)
  rw [h.off.last] at this
  exact this

theorem Rows.push {n : Nat} {Q : Nat → Nat → Prop} {rp ci ptr idx : Array Nat} {m : Nat}
    (h : Rows n Q rp ci ptr idx m) (idx' : Array Nat) (t : List Nat) (ht : idx'.toList = idx.toList ++ t)
    (hpw : t.Pairwise (· < ·)) (hn : ∀ x ∈ t, x < n) (hq : ∀ x ∈ t, Q m x)
    (hc : ∀ k, rp.getD m 0 ≤ k → k < rp.getD (m + 1) 0 → ci.getD k 0 ∈ t) :
    Rows n Q rp ci (ptr.push idx'.size) idx' (m + 1) := by
  have hsz := arr_size idx' idx t ht
  have hp1 : ∀ r, r ≤ m → (ptr.push idx'.size).getD r 0 = ptr.getD r 0 :=
    fun r hr => getD_push_lt _ _ r (by rw [h.off.size]; omega)
  have hp2 : (ptr.push idx'.size).getD (m + 1) 0 = idx'.size := by
    have := getD_push_eq ptr idx'.size
    rwa [h.off.size] at this
  have hlast := h.off.last
  have hold : ∀ k, k < idx.size → idx'.getD k 0 = idx.getD k 0 := fun k hk => arr_getD_left idx' idx t ht k hk
  have hnew : ∀ k, (hk1 : idx.size ≤ k) → (hk : k < idx'.size) → idx'.getD k 0 = t[k - idx.size]'(by omega) := by
    intro k hk1 hk2
    rw [arr_getD_right idx' idx t ht k hk1, List.getD_eq_getElem?_getD, List.getElem?_eq_getElem (by omega)]
    rfl
  refine ⟨h.off.push _ (by omega), ?_, ?_, ?_, ?_⟩
  · intro k hk
    rcases Nat.lt_or_ge k idx.size with hlt | hge
    · rw [hold k hlt]; exact h.glob k hlt
    · rw [hnew k hge hk]; exact hn _ (List.getElem_mem _)
  · intro r hr k hk1 hk2
    rcases Nat.lt_or_ge r m with hlt | hge
    · rw [hp1 r (by omega)] at hk1
      rw [hp1 (r + 1) (by omega)] at hk2
      have := h.end_le hlt
      rw [hold k (by omega)]
      exact h.bnd r hlt k hk1 hk2
    · have hrm : r = m := by omega
      subst hrm
      rw [hp1 r (Nat.le_refl _), hlast] at hk1
      rw [hp2] at hk2
      rw [hnew k hk1 hk2]
      exact hq _ (List.getElem_mem _)
  · intro r hr k hk1 hk2
    rcases Nat.lt_or_ge r m with hlt | hge
    · rw [hp1 r (by omega)] at hk1
      rw [hp1 (r + 1) (by omega)] at hk2
      have := h.end_le hlt
      rw [hold k (by omega), hold (k + 1) (by omega)]
      exact h.srt r hlt k hk1 hk2
    · have hrm : r = m := by omega
      subst hrm
      rw [hp1 r (Nat.le_refl _), hlast] at hk1
      rw [hp2] at hk2
      rw [hnew k hk1 (by omega), hnew (k + 1) (by omega) hk2]
      exact List.pairwise_iff_getElem.mp hpw _ _ _ _ (by omega)
  · intro r hr k hk1 hk2
    rcases Nat.lt_or_ge r m with hlt | hge
    · obtain ⟨k', q1, q2, q3⟩ := h.cov r hlt k hk1 hk2
      have := h.end_le hlt
      refine ⟨k', ?_, ?_, ?_⟩
      · rw [hp1 r (by omega)]; exact q1
      · rw [hp1 (r + 1) (by omega)]; exact q2
      · rw [hold k' (by omega)]; exact q3
    · have hrm : r = m := by omega
      subst hrm
      obtain ⟨d, hd, hde⟩ := List.getElem_of_mem (hc k hk1 hk2)
      refine ⟨idx.size + d, ?_, ?_, ?_⟩
      · rw [hp1 r (Nat.le_refl _), hlast]; omega
      · rw [hp2]; omega
      · rw [hnew (idx.size + d) (by omega) (by omega)]
        simp only [Nat.add_sub_cancel_left]
        exact hde

/-- one row of `factorize_symbolic` extends the finished rows by one -/
theorem symRow_inv (s : IluSym) (w : s.WFP) (pn : Nat) (st : SymState) (m : Nat) (hm : m < s.n)
    (hL : Rows s.n (fun r x => x < r) s.rpL s.ciL st.ptrL st.idxL m)
    (hU : Rows s.n (fun r x => r < x) s.rpU s.ciU st.ptrU st.idxU m) :
    Rows s.n (fun r x => x < r) s.rpL s.ciL (symRow s pn st m).ptrL (symRow s pn st m).idxL (m + 1) ∧
    Rows s.n (fun r x => r < x) s.rpU s.ciU (symRow s pn st m).ptrU (symRow s pn st m).idxU (m + 1) := by
  have hT : Tails m s.n
      ((List.range' (s.rpL.getD m 0) (s.rpL.getD (m + 1) 0 - s.rpL.getD m 0)).map (fun j => s.ciL.getD j 0))
      ((List.range' (s.rpU.getD m 0) (s.rpU.getD (m + 1) 0 - s.rpU.getD m 0)).map (fun j => s.ciU.getD j 0))
      ((List.range' (s.rpL.getD m 0) (s.rpL.getD (m + 1) 0 - s.rpL.getD m 0)).map (fun j => s.ciL.getD j 0))
      ((List.range' (s.rpU.getD m 0) (s.rpU.getD (m + 1) 0 - s.rpU.getD m 0)).map (fun j => s.ciU.getD j 0)) := by
    refine ⟨?_, ?_, ?_, ?_, fun _ hx => hx, fun _ hx => hx⟩
    · rw [List.pairwise_map]
      refine List.Pairwise.imp_of_mem ?_ List.pairwise_lt_range'
      intro a b ha hb hab
      rw [List.mem_range'_1] at ha hb
      exact idx_strictMono s.ciL _ _ (w.sortL m hm) b a ha.1 hab (by omega)
    · rw [List.pairwise_map]
      refine List.Pairwise.imp_of_mem ?_ List.pairwise_lt_range'
      intro a b ha hb hab
      rw [List.mem_range'_1] at ha hb
      exact idx_strictMono s.ciU _ _ (w.sortU m hm) b a ha.1 hab (by omega)
    · intro x hx
      obtain ⟨j, hj, hjx⟩ := List.mem_map.mp hx
      rw [List.mem_range'_1] at hj
      rw [← hjx]
      exact w.lowL m hm j hj.1 (by omega)
    · intro x hx
      obtain ⟨j, hj, hjx⟩ := List.mem_map.mp hx
      rw [List.mem_range'_1] at hj
      rw [← hjx]
      exact ⟨w.uppU m hm j hj.1 (by omega), w.colU j (Nat.lt_of_lt_of_le (by omega) (w.endU_le hm))⟩
  have hloop : ∀ f, CurInv m s.n st.idxL st.idxU
      ((List.range' (s.rpL.getD m 0) (s.rpL.getD (m + 1) 0 - s.rpL.getD m 0)).map (fun j => s.ciL.getD j 0))
      ((List.range' (s.rpU.getD m 0) (s.rpU.getD (m + 1) 0 - s.rpU.getD m 0)).map (fun j => s.ciU.getD j 0))
      (symRowLoop pn m st.ptrU f (st.ptrL.getD m 0)
      { idxL := foldRange (s.rpL.getD m 0) (s.rpL.getD (m + 1) 0) (fun a j => a.push (s.ciL.getD j 0)) st.idxL,
        lvlL := foldRange (s.rpL.getD m 0) (s.rpL.getD (m + 1) 0) (fun a _ => a.push 0) st.lvlL,
        idxU := foldRange (s.rpU.getD m 0) (s.rpU.getD (m + 1) 0) (fun a j => a.push (s.ciU.getD j 0)) st.idxU,
        lvlU := foldRange (s.rpU.getD m 0) (s.rpU.getD (m + 1) 0) (fun a _ => a.push 0) st.lvlU,
        olj := 0, ouj := 0 }) := by
    intro f
    refine symRowLoop_inv pn m s.n st.idxL st.idxU st.ptrU _ _ hU.off.last ?_ ?_ f _ _
      (Nat.le_of_eq hL.off.last.symm)
      ⟨_, _, foldRange_push_toList _ _ _ _, foldRange_push_toList _ _ _ _, hT⟩
    · intro r hr k hk1 hk2
      have hlt : k < st.idxU.size := Nat.lt_of_lt_of_le hk2 (hU.end_le hr)
      exact ⟨hlt, hU.bnd r hr k hk1 hk2, hU.glob k hlt⟩
    · intro r hr k k' hk1 hkk hk2
      exact idx_strictMono st.idxU _ _ (hU.srt r hr) k' k hk1 hkk hk2
  unfold symRow
  simp only []
  obtain ⟨tL, tU, eL, eU, ht⟩ := hloop (s.n +
    (foldRange (s.rpL.getD m 0) (s.rpL.getD (m + 1) 0) (fun a j => a.push (s.ciL.getD j 0)) st.idxL).size + 1)
  constructor
  · refine hL.push _ tL eL ht.pwL (fun x hx => Nat.lt_trans (ht.bL x hx) hm) ht.bL ?_
    intro k hk1 hk2
    exact ht.mL _ (List.mem_map.mpr ⟨k, List.mem_range'_1.mpr ⟨hk1, by omega⟩, rfl⟩)
  · refine hU.push _ tU eU ht.pwU (fun x hx => (ht.bU x hx).2) (fun x hx => (ht.bU x hx).1) ?_
    intro k hk1 hk2
    exact ht.mU _ (List.mem_map.mpr ⟨k, List.mem_range'_1.mpr ⟨hk1, by omega⟩, rfl⟩)

/-! ### back to the decidable predicates -/

theorem WFP_to_bool (s : IluSym) (w : s.WFP) : s.wf = true ∧ s.sorted = true := by
  constructor
  · simp only [IluSym.wf, Bool.and_eq_true, beq_iff_eq, List.all_eq_true, List.mem_range, List.mem_range'_1,
      decide_eq_true_eq, Array.all_eq_true]
    refine ⟨⟨⟨⟨⟨⟨⟨⟨w.szL, w.szU⟩, w.firstL⟩, w.firstU⟩, w.lastL⟩, w.lastU⟩, ?_⟩, ?_⟩, ?_⟩
    · intro k hk
      have := w.colL k hk
      simpa [Array.getD, hk] using this
    · intro k hk
      have := w.colU k hk
      simpa [Array.getD, hk] using this
    · intro i hi
      refine ⟨⟨⟨w.monoL i hi, w.monoU i hi⟩, ?_⟩, ?_⟩
      · intro k hk
        have hks : k < s.ciL.size := Nat.lt_of_lt_of_le (by omega) (w.endL_le hi)
        rw [Csr.getD_eq_of_lt _ hks s.n 0]
        exact w.lowL i hi k hk.1 (by omega)
      · intro k hk
        have hks : k < s.ciU.size := Nat.lt_of_lt_of_le (by omega) (w.endU_le hi)
        refine ⟨w.uppU i hi k hk.1 (by omega), ?_⟩
        rw [Csr.getD_eq_of_lt _ hks s.n 0]
        exact w.colU k hks
  · simp only [IluSym.sorted, Bool.and_eq_true, List.all_eq_true, List.mem_range, List.mem_range'_1,
      decide_eq_true_eq]
    intro i hi
    exact ⟨fun k hk h => w.sortL i hi k hk.1 h, fun k hk h => w.sortU i hi k hk.1 h⟩

theorem findPos_isSome (idx : Array Nat) (b e c k : Nat) (h1 : b ≤ k) (h2 : k < e) (h3 : idx.getD k 0 = c) :
    (findPos idx b e c).isSome = true := by
  cases hf : findPos idx b e c with
  | some p => rfl
  | none => exact absurd h3 (findPos_none idx b e c hf k h1 h2)

theorem covers_mono (s s' : IluSym) (hn : s'.n = s.n)
    (hL : ∀ r, r < s.n → ∀ k, s.rpL.getD r 0 ≤ k → k < s.rpL.getD (r + 1) 0 →
      ∃ k', s'.rpL.getD r 0 ≤ k' ∧ k' < s'.rpL.getD (r + 1) 0 ∧ s'.ciL.getD k' 0 = s.ciL.getD k 0)
    (hU : ∀ r, r < s.n → ∀ k, s.rpU.getD r 0 ≤ k → k < s.rpU.getD (r + 1) 0 →
      ∃ k', s'.rpU.getD r 0 ≤ k' ∧ k' < s'.rpU.getD (r + 1) 0 ∧ s'.ciU.getD k' 0 = s.ciU.getD k 0)
    (A : Csr α) (h : s.covers A = true) : s'.covers A = true := by
  simp only [IluSym.covers, List.all_eq_true, List.mem_range, List.mem_range'_1, Bool.or_eq_true, beq_iff_eq] at h ⊢
  intro i hi k hk
  rw [hn] at hi
  rcases h i hi k hk with (h | h) | h
  · exact Or.inl (Or.inl h)
  · obtain ⟨p, hp⟩ := Option.isSome_iff_exists.mp h
    obtain ⟨q1, q2, q3⟩ := findPos_some _ _ _ _ _ hp
    obtain ⟨k', r1, r2, r3⟩ := hL i hi p q1 q2
    exact Or.inl (Or.inr (findPos_isSome _ _ _ _ k' r1 r2 (r3.trans q3)))
  · obtain ⟨p, hp⟩ := Option.isSome_iff_exists.mp h
    obtain ⟨q1, q2, q3⟩ := findPos_some _ _ _ _ _ hp
    obtain ⟨k', r1, r2, r3⟩ := hU i hi p q1 q2
    exact Or.inr (findPos_isSome _ _ _ _ k' r1 r2 (r3.trans q3))

end Sym

/-- the level-p structure keeps all shape properties and contains the level-0 structure, for every `p` -/
theorem factorizeSymbolic_spec (s0 : IluSym) (h1 : s0.wf = true) (h2 : s0.sorted = true) (p : Int) :
    (factorizeSymbolic s0 p).n = s0.n ∧ (factorizeSymbolic s0 p).wf = true ∧ (factorizeSymbolic s0 p).sorted = true
      ∧ ∀ (A : Csr α), s0.covers A = true → (factorizeSymbolic s0 p).covers A = true := by
  unfold factorizeSymbolic
  split
  · exact ⟨rfl, h1, h2, fun _ h => h⟩
  · have w := IluSym.WFP.of_bool s0 h1 h2
    simp only []
    rw [Offs.foldl_range_eq_foldRange]
    have key := foldRange_induct
      (fun m (st : SymState) => Sym.Rows s0.n (fun r x => x < r) s0.rpL s0.ciL st.ptrL st.idxL m ∧
        Sym.Rows s0.n (fun r x => r < x) s0.rpU s0.ciU st.ptrU st.idxU m)
      (symRow s0 p.toNat) 0 s0.n
      { ptrL := #[0], idxL := #[], lvlL := #[], ptrU := #[0], idxU := #[], lvlU := #[] } (Nat.zero_le _)
      ⟨Sym.Rows.base _ _ _ _, Sym.Rows.base _ _ _ _⟩
      (fun m y _ hm hy => Sym.symRow_inv s0 w p.toNat y m hm hy.1 hy.2)
    generalize foldRange 0 s0.n (symRow s0 p.toNat)
      { ptrL := #[0], idxL := #[], lvlL := #[], ptrU := #[0], idxU := #[], lvlU := #[] } = st at key
    obtain ⟨hL, hU⟩ := key
    have w' : IluSym.WFP { n := s0.n, rpL := st.ptrL, ciL := st.idxL, rpU := st.ptrU, ciU := st.idxU } :=
      ⟨hL.off.size, hU.off.size, hL.off.first, hU.off.first, hL.off.last, hU.off.last, hL.glob, hU.glob,
        hL.off.mono, hU.off.mono, hL.bnd, hU.bnd, hL.srt, hU.srt⟩
    have hb := Sym.WFP_to_bool _ w'
    exact ⟨trivial, hb.1, hb.2, fun A hA => Sym.covers_mono s0
      { n := s0.n, rpL := st.ptrL, ciL := st.idxL, rpU := st.ptrU, ciU := st.idxU } rfl hL.cov hU.cov A hA⟩

end FeatModel.Solver
