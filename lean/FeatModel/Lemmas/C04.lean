import FeatModel.Model.VecOps
import Mathlib.Tactic.Ring
import Mathlib.Tactic.Linarith
import Mathlib.Algebra.Order.Group.Abs
/-! helper lemmas for the C04 theorems: accumulation loops, append-distribution of the leaf kernels,
the generic flatten homomorphisms of the container recursion, the arg-loop invariant -/
namespace FeatModel.Vec

/-! ### `sumL` (the `r += t` loop) -/
section Sum
variable {α : Type} [AddCommMonoid α]

theorem foldl_add_eq (l : List α) (a : α) : l.foldl (· + ·) a = a + l.foldl (· + ·) 0 := by
  induction l generalizing a with
  | nil => simp
  | cons x t ih =>
    simp only [List.foldl_cons]
    rw [ih (a + x), ih (0 + x)]
    simp [add_assoc]

theorem sumL_nil : sumL ([] : List α) = 0 := rfl

theorem sumL_cons (x : α) (l : List α) : sumL (x :: l) = x + sumL l := by
  unfold sumL
  simp only [List.foldl_cons]
  rw [foldl_add_eq]
  simp

theorem sumL_append (l₁ l₂ : List α) : sumL (l₁ ++ l₂) = sumL l₁ + sumL l₂ := by
  induction l₁ with
  | nil => simp [sumL_nil]
  | cons x t ih => simp [sumL_cons, ih, add_assoc]

theorem sumL_eq_sum (l : List α) : sumL l = l.sum := by
  induction l with
  | nil => rfl
  | cons x t ih => simp [sumL_cons, ih]

end Sum

/-! ### the leaf kernels distribute over `++` (operands of equal length) -/
section Append
variable {α : Type}

theorem axpyK_append [Add α] [Mul α] [One α] (al : Bool) (s : α) (a b c d : List α) (h : a.length = c.length) :
    axpyK al s (a ++ b) (c ++ d) = axpyK al s a c ++ axpyK al s b d := by
  unfold axpyK
  cases al <;> simp [List.zipWith_append h]

theorem scaleK_append [Mul α] (al : Bool) (s : α) (a b c d : List α) (h : a.length = c.length) :
    scaleK al s (a ++ b) (c ++ d) = scaleK al s a c ++ scaleK al s b d := by
  unfold scaleK
  cases al <;> simp [List.zipWith_append h]

theorem cinvK_append [Div α] (al : Bool) (s : α) (a b c d : List α) (h : a.length = c.length) :
    cinvK al s (a ++ b) (c ++ d) = cinvK al s a c ++ cinvK al s b d := by
  unfold cinvK
  cases al <;> simp [List.zipWith_append h]

theorem copyK_append (a b c d : List α) (h : a.length = c.length) :
    List.zipWith (fun (_ : α) xi => xi) (a ++ b) (c ++ d)
      = List.zipWith (fun (_ : α) xi => xi) a c ++ List.zipWith (fun (_ : α) xi => xi) b d :=
  List.zipWith_append h

theorem cprodK_append [Mul α] (rx ry : Bool) (a b c d e f : List α) (h : a.length = c.length)
    (h' : a.length = e.length) :
    cprodK rx ry (a ++ b) (c ++ d) (e ++ f) = cprodK rx ry a c e ++ cprodK rx ry b d f := by
  unfold cprodK
  have hce : c.length = e.length := h ▸ h'
  cases rx <;> cases ry
  · simp only [Bool.false_eq_true, if_false]
    rw [List.zipWith_append hce]
    exact List.zipWith_append (by simp only [List.length_zipWith]; omega)
  all_goals simp [List.zipWith_append h, List.zipWith_append h']

theorem dotK_append [Semiring α] (al : Bool) (a b c d : List α) (h : a.length = c.length) :
    dotK al (a ++ b) (c ++ d) = dotK al a c + dotK al b d := by
  unfold dotK
  cases al <;> simp [List.zipWith_append h, sumL_append]

theorem tdotK_append [Semiring α] (xy xz yz : Bool) (a b c d e f : List α) (h : a.length = c.length)
    (h' : a.length = e.length) :
    tdotK xy xz yz (a ++ b) (c ++ d) (e ++ f) = tdotK xy xz yz a c e + tdotK xy xz yz b d f := by
  unfold tdotK
  have hce : c.length = e.length := h ▸ h'
  have hz : List.zip (c ++ d) (e ++ f) = List.zip c e ++ List.zip d f := by
    simp only [List.zip]; exact List.zipWith_append hce
  have hl : a.length = (List.zip c e).length := by simp [List.length_zip, ← hce, ← h]
  cases xy <;> cases xz <;> cases yz <;>
    simp [List.zipWith_append h, List.zipWith_append h', hz, List.zipWith_append hl, sumL_append]

theorem sumSq_append [Semiring α] (a b : List α) : sumSq (a ++ b) = sumSq a + sumSq b := by
  simp [sumSq, sumL_append]

end Append

/-! ### the index loop of the min/max kernels -/
section ArgLoop
variable {α : Type}

/-- `m` bounds every key of `l` (w.r.t. the total preorder `le`) and is attained -/
def IsExt (le : α → α → Prop) (key : α → α) (l : List α) (m : α) : Prop :=
  (∀ v ∈ l, le (key v) m) ∧ ∃ v ∈ l, m = key v

/-- invariant of `for(i) if(better(key(x[i]), m)) { m = key(x[i]); mi = i; }` for any comparison that is
compatible with a total preorder: either the start value survives and bounds everything, or the returned
index points (relative to the start offset) to a bounding element that also bounds the start value -/
theorem argLoop_spec (le : α → α → Prop) (hrefl : ∀ a, le a a) (htrans : ∀ a b c, le a b → le b c → le a c)
    (key : α → α) (better : α → α → Bool)
    (hT : ∀ v m, better v m = true → le m v) (hF : ∀ v m, better v m = false → le v m)
    (t : List α) (i : Nat) (m : α) (mi : Nat) :
    (argLoop key better t i m mi = mi ∧ ∀ v ∈ t, le (key v) m) ∨
    (∃ p, ∃ hp : p < t.length, argLoop key better t i m mi = i + p ∧ le m (key t[p]) ∧
      ∀ v ∈ t, le (key v) (key t[p])) := by
  induction t generalizing i m mi with
  | nil => left; simp [argLoop]
  | cons xi t ih =>
    unfold argLoop
    cases hb : better (key xi) m with
    | true =>
      simp only [if_true]
      have hm := hT _ _ hb
      rcases ih (i + 1) (key xi) i with ⟨h1, h2⟩ | ⟨p, hp, h1, h2, h3⟩
      · right
        refine ⟨0, by simp, by simpa using h1, by simpa using hm, ?_⟩
        intro v hv
        rcases List.mem_cons.mp hv with rfl | hv
        · simpa using hrefl _
        · simpa using h2 v hv
      · right
        refine ⟨p + 1, by simpa using hp, by simp only [h1]; omega, ?_, ?_⟩
        · simpa using htrans _ _ _ hm h2
        · intro v hv
          rcases List.mem_cons.mp hv with rfl | hv
          · simpa using h2
          · simpa using h3 v hv
    | false =>
      simp only [Bool.false_eq_true, if_false]
      have hm := hF _ _ hb
      rcases ih (i + 1) m mi with ⟨h1, h2⟩ | ⟨p, hp, h1, h2, h3⟩
      · left
        refine ⟨h1, ?_⟩
        intro v hv
        rcases List.mem_cons.mp hv with rfl | hv
        · exact hm
        · exact h2 v hv
      · right
        refine ⟨p + 1, by simpa using hp, by simp only [h1]; omega, by simpa using h2, ?_⟩
        intro v hv
        rcases List.mem_cons.mp hv with rfl | hv
        · simpa using htrans _ _ _ hm h2
        · simpa using h3 v hv

/-- the element fetched at the index returned by the loop is extremal, provided the start value is the key
of the first element or a lower bound of all keys that the first element attains when nothing beats it -/
theorem argLoop_elem (le : α → α → Prop) (hrefl : ∀ a, le a a) (htrans : ∀ a b c, le a b → le b c → le a c)
    (key : α → α) (better : α → α → Bool)
    (hT : ∀ v m, better v m = true → le m v) (hF : ∀ v m, better v m = false → le v m)
    (x : List α) (d m0 : α) (hne : x ≠ [])
    (hstart : (∀ v ∈ x, le (key v) m0) → le m0 (key (x.getD 0 d))) :
    IsExt le key x (key (x.getD (argLoop key better x 0 m0 0) d)) := by
  rcases argLoop_spec le hrefl htrans key better hT hF x 0 m0 0 with ⟨h1, h2⟩ | ⟨p, hp, h1, _, h3⟩
  · rw [h1]
    cases x with
    | nil => exact absurd rfl hne
    | cons a t =>
      refine ⟨fun v hv => htrans _ _ _ (h2 v hv) (hstart h2), a, by simp, by simp⟩
  · rw [h1]
    simp only [Nat.zero_add]
    have hg : x.getD p d = x[p] := by simp [List.getD, List.getElem?_eq_getElem hp]
    rw [hg]
    exact ⟨h3, x[p], List.getElem_mem hp, rfl⟩

theorem IsExt_append_max [LinearOrder α] (key : α → α) (l₁ l₂ : List α) (a b : α)
    (h₁ : IsExt (· ≤ ·) key l₁ a) (h₂ : IsExt (· ≤ ·) key l₂ b) :
    IsExt (· ≤ ·) key (l₁ ++ l₂) (if a < b then b else a) := by
  obtain ⟨ha, va, hva, rfl⟩ := h₁
  obtain ⟨hb, vb, hvb, rfl⟩ := h₂
  split
  next hlt =>
    refine ⟨fun v hv => ?_, vb, by simp [hvb], rfl⟩
    rcases List.mem_append.mp hv with hv | hv
    · exact le_trans (ha v hv) (le_of_lt hlt)
    · exact hb v hv
  next hlt =>
    refine ⟨fun v hv => ?_, va, by simp [hva], rfl⟩
    rcases List.mem_append.mp hv with hv | hv
    · exact ha v hv
    · exact le_trans (hb v hv) (not_lt.mp hlt)

theorem IsExt_append_min [LinearOrder α] (key : α → α) (l₁ l₂ : List α) (a b : α)
    (h₁ : IsExt (fun u w => w ≤ u) key l₁ a) (h₂ : IsExt (fun u w => w ≤ u) key l₂ b) :
    IsExt (fun u w => w ≤ u) key (l₁ ++ l₂) (if a < b then a else b) := by
  obtain ⟨ha, va, hva, rfl⟩ := h₁
  obtain ⟨hb, vb, hvb, rfl⟩ := h₂
  split
  next hlt =>
    refine ⟨fun v hv => ?_, va, by simp [hva], rfl⟩
    rcases List.mem_append.mp hv with hv | hv
    · exact ha v hv
    · exact le_trans (le_of_lt hlt) (hb v hv)
  next hlt =>
    refine ⟨fun v hv => ?_, vb, by simp [hvb], rfl⟩
    rcases List.mem_append.mp hv with hv | hv
    · exact le_trans (not_lt.mp hlt) (ha v hv)
    · exact hb v hv

theorem headD_eq_getD (x : List α) (d : α) : x.headD d = x.getD 0 d := by
  cases x <;> rfl

section Leaves
variable [LinearOrder α] [Zero α]

theorem maxElemK_spec (x : List α) (m : α) (h : maxElemK x = some m) : IsExt (· ≤ ·) id x m := by
  unfold maxElemK at h
  split at h
  · cases h
  · next hne =>
    have hne' : x ≠ [] := by intro e; simp [e] at hne
    simp only [Option.some.injEq] at h
    subst h
    exact argLoop_elem (· ≤ ·) le_refl (fun _ _ _ => le_trans) id _
      (fun v m hb => le_of_lt (of_decide_eq_true hb)) (fun v m hb => not_lt.mp (of_decide_eq_false hb))
      x 0 (x.headD 0) hne' (fun _ => by rw [headD_eq_getD]; exact le_refl _)

theorem minElemK_spec (x : List α) (m : α) (h : minElemK x = some m) : IsExt (fun u w => w ≤ u) id x m := by
  unfold minElemK at h
  split at h
  · cases h
  · next hne =>
    have hne' : x ≠ [] := by intro e; simp [e] at hne
    simp only [Option.some.injEq] at h
    subst h
    exact argLoop_elem (fun u w => w ≤ u) le_refl (fun _ _ _ h₁ h₂ => le_trans h₂ h₁) id _
      (fun v m hb => le_of_lt (of_decide_eq_true hb)) (fun v m hb => not_lt.mp (of_decide_eq_false hb))
      x 0 (x.headD 0) hne' (fun _ => by rw [headD_eq_getD]; exact le_refl _)

end Leaves

section AbsLeaves
variable [AddCommGroup α] [LinearOrder α] [IsOrderedAddMonoid α]

theorem absK_eq_abs (x : α) : absK x = |x| := by
  unfold absK
  split
  · next h => exact (abs_of_neg h).symm
  · next h => exact (abs_of_nonneg (not_lt.mp h)).symm

theorem maxAbsElemK_spec (x : List α) (m : α) (h : maxAbsElemK x = some m) : IsExt (· ≤ ·) absK x m := by
  unfold maxAbsElemK at h
  split at h
  · cases h
  · next hne =>
    have hne' : x ≠ [] := by intro e; simp [e] at hne
    simp only [Option.some.injEq] at h
    subst h
    exact argLoop_elem (· ≤ ·) le_refl (fun _ _ _ => le_trans) absK _
      (fun v m hb => le_of_lt (of_decide_eq_true hb)) (fun v m hb => not_lt.mp (of_decide_eq_false hb))
      x 0 0 hne' (fun _ => by rw [absK_eq_abs]; exact abs_nonneg _)

omit [IsOrderedAddMonoid α] in
theorem minAbsElemK_spec (x : List α) (m : α) (h : minAbsElemK x = some m) :
    IsExt (fun u w => w ≤ u) absK x m := by
  unfold minAbsElemK at h
  split at h
  · cases h
  · next hne =>
    have hne' : x ≠ [] := by intro e; simp [e] at hne
    simp only [Option.some.injEq] at h
    subst h
    exact argLoop_elem (fun u w => w ≤ u) le_refl (fun _ _ _ h₁ h₂ => le_trans h₂ h₁) absK _
      (fun v m hb => le_of_lt (of_decide_eq_true hb)) (fun v m hb => not_lt.mp (of_decide_eq_false hb))
      x 0 (absK (x.headD 0)) hne' (fun _ => by rw [headD_eq_getD])

end AbsLeaves

end ArgLoop

/-! ### container recursion -/
namespace MVec
variable {α : Type}

theorem sameShape_length (r x : MVec α) (h : sameShape r x = true) :
    r.flatten.length = x.flatten.length := by
  induction r generalizing x with
  | dense d => cases x <;> simp_all [sameShape, flatten]
  | blocked b d => cases x <;> simp_all [sameShape, flatten]
  | tupleOne f ih =>
    cases x <;> simp only [sameShape, Bool.false_eq_true] at h
    simpa [flatten] using ih _ h
  | tupleCons f r ihf ihr =>
    cases x <;> simp only [sameShape, Bool.false_eq_true, Bool.and_eq_true] at h
    simp [flatten, ihf _ h.1, ihr _ h.2]
  | powerOne f ih =>
    cases x <;> simp only [sameShape, Bool.false_eq_true] at h
    simpa [flatten] using ih _ h
  | powerCons f r ihf ihr =>
    cases x <;> simp only [sameShape, Bool.false_eq_true, Bool.and_eq_true] at h
    simp [flatten, ihf _ h.1, ihr _ h.2]

theorem flatten_map1 (k : List α → List α) (hk : ∀ a b, k (a ++ b) = k a ++ k b) (r : MVec α) :
    (map1 k r).flatten = k r.flatten := by
  induction r with
  | dense d => rfl
  | blocked b d => rfl
  | tupleOne f ih => simpa [map1, flatten] using ih
  | tupleCons f r ihf ihr => simp [map1, flatten, ihf, ihr, hk]
  | powerOne f ih => simpa [map1, flatten] using ih
  | powerCons f r ihf ihr => simp [map1, flatten, ihf, ihr, hk]

theorem flatten_map2 (k : List α → List α → List α)
    (hk : ∀ a b c d, a.length = c.length → k (a ++ b) (c ++ d) = k a c ++ k b d)
    (r x : MVec α) (h : sameShape r x = true) :
    (map2 k r x).flatten = k r.flatten x.flatten := by
  induction r generalizing x with
  | dense d => cases x <;> simp_all [sameShape, flatten, map2]
  | blocked b d => cases x <;> simp_all [sameShape, flatten, map2]
  | tupleOne f ih =>
    cases x <;> simp only [sameShape, Bool.false_eq_true] at h
    simpa [flatten, map2] using ih _ h
  | tupleCons f r ihf ihr =>
    cases x <;> simp only [sameShape, Bool.false_eq_true, Bool.and_eq_true] at h
    simp [flatten, map2, ihf _ h.1, ihr _ h.2, hk _ _ _ _ (sameShape_length _ _ h.1)]
  | powerOne f ih =>
    cases x <;> simp only [sameShape, Bool.false_eq_true] at h
    simpa [flatten, map2] using ih _ h
  | powerCons f r ihf ihr =>
    cases x <;> simp only [sameShape, Bool.false_eq_true, Bool.and_eq_true] at h
    simp [flatten, map2, ihf _ h.1, ihr _ h.2, hk _ _ _ _ (sameShape_length _ _ h.1)]

theorem flatten_map3 (k : List α → List α → List α → List α)
    (hk : ∀ a b c d e f, a.length = c.length → a.length = e.length →
      k (a ++ b) (c ++ d) (e ++ f) = k a c e ++ k b d f)
    (r x y : MVec α) (h : sameShape r x = true) (h' : sameShape r y = true) :
    (map3 k r x y).flatten = k r.flatten x.flatten y.flatten := by
  induction r generalizing x y with
  | dense d => cases x <;> cases y <;> simp_all [sameShape, flatten, map3]
  | blocked b d => cases x <;> cases y <;> simp_all [sameShape, flatten, map3]
  | tupleOne f ih =>
    cases x <;> cases y <;> simp only [sameShape, Bool.false_eq_true] at h h'
    simpa [flatten, map3] using ih _ _ h h'
  | tupleCons f r ihf ihr =>
    cases x <;> cases y <;> simp only [sameShape, Bool.false_eq_true, Bool.and_eq_true] at h h'
    simp [flatten, map3, ihf _ _ h.1 h'.1, ihr _ _ h.2 h'.2,
      hk _ _ _ _ _ _ (sameShape_length _ _ h.1) (sameShape_length _ _ h'.1)]
  | powerOne f ih =>
    cases x <;> cases y <;> simp only [sameShape, Bool.false_eq_true] at h h'
    simpa [flatten, map3] using ih _ _ h h'
  | powerCons f r ihf ihr =>
    cases x <;> cases y <;> simp only [sameShape, Bool.false_eq_true, Bool.and_eq_true] at h h'
    simp [flatten, map3, ihf _ _ h.1 h'.1, ihr _ _ h.2 h'.2,
      hk _ _ _ _ _ _ (sameShape_length _ _ h.1) (sameShape_length _ _ h'.1)]

theorem red2_flatten [Add α] [Zero α] (k : List α → List α → α)
    (hk : ∀ a b c d, a.length = c.length → k (a ++ b) (c ++ d) = k a c + k b d)
    (x y : MVec α) (h : sameShape x y = true) :
    red2 k x y = k x.flatten y.flatten := by
  induction x generalizing y with
  | dense d => cases y <;> simp_all [sameShape, flatten, red2]
  | blocked b d => cases y <;> simp_all [sameShape, flatten, red2]
  | tupleOne f ih =>
    cases y <;> simp only [sameShape, Bool.false_eq_true] at h
    simpa [flatten, red2] using ih _ h
  | tupleCons f r ihf ihr =>
    cases y <;> simp only [sameShape, Bool.false_eq_true, Bool.and_eq_true] at h
    simp [flatten, red2, ihf _ h.1, ihr _ h.2, hk _ _ _ _ (sameShape_length _ _ h.1)]
  | powerOne f ih =>
    cases y <;> simp only [sameShape, Bool.false_eq_true] at h
    simpa [flatten, red2] using ih _ h
  | powerCons f r ihf ihr =>
    cases y <;> simp only [sameShape, Bool.false_eq_true, Bool.and_eq_true] at h
    simp [flatten, red2, ihf _ h.1, ihr _ h.2, hk _ _ _ _ (sameShape_length _ _ h.1)]

theorem red3_flatten [Add α] [Zero α] (k : List α → List α → List α → α)
    (hk : ∀ a b c d e f, a.length = c.length → a.length = e.length →
      k (a ++ b) (c ++ d) (e ++ f) = k a c e + k b d f)
    (x y z : MVec α) (h : sameShape x y = true) (h' : sameShape x z = true) :
    red3 k x y z = k x.flatten y.flatten z.flatten := by
  induction x generalizing y z with
  | dense d => cases y <;> cases z <;> simp_all [sameShape, flatten, red3]
  | blocked b d => cases y <;> cases z <;> simp_all [sameShape, flatten, red3]
  | tupleOne f ih =>
    cases y <;> cases z <;> simp only [sameShape, Bool.false_eq_true] at h h'
    simpa [flatten, red3] using ih _ _ h h'
  | tupleCons f r ihf ihr =>
    cases y <;> cases z <;> simp only [sameShape, Bool.false_eq_true, Bool.and_eq_true] at h h'
    simp [flatten, red3, ihf _ _ h.1 h'.1, ihr _ _ h.2 h'.2,
      hk _ _ _ _ _ _ (sameShape_length _ _ h.1) (sameShape_length _ _ h'.1)]
  | powerOne f ih =>
    cases y <;> cases z <;> simp only [sameShape, Bool.false_eq_true] at h h'
    simpa [flatten, red3] using ih _ _ h h'
  | powerCons f r ihf ihr =>
    cases y <;> cases z <;> simp only [sameShape, Bool.false_eq_true, Bool.and_eq_true] at h h'
    simp [flatten, red3, ihf _ _ h.1 h'.1, ihr _ _ h.2 h'.2,
      hk _ _ _ _ _ _ (sameShape_length _ _ h.1) (sameShape_length _ _ h'.1)]

/-! ### the explicit recursions of the member functions are the generic leaf-wise combinators
(every argument arrives unchanged at every leaf) -/

theorem axpy_eq_map2 [Add α] [Mul α] [One α] (al : Bool) (a : α) (r x : MVec α) :
    MVec.axpy al a r x = map2 (axpyK al a) r x := by
  induction r generalizing x with
  | dense d => cases x <;> simp [MVec.axpy, map2]
  | blocked b d => cases x <;> simp [MVec.axpy, map2]
  | tupleOne f ih => cases x <;> simp [MVec.axpy, map2, ih]
  | tupleCons f r ihf ihr => cases x <;> simp [MVec.axpy, map2, ihf, ihr]
  | powerOne f ih => cases x <;> simp [MVec.axpy, map2, ih]
  | powerCons f r ihf ihr => cases x <;> simp [MVec.axpy, map2, ihf, ihr]

theorem scale_eq_map2 [Mul α] (al : Bool) (a : α) (r x : MVec α) :
    MVec.scale al a r x = map2 (scaleK al a) r x := by
  induction r generalizing x with
  | dense d => cases x <;> simp [MVec.scale, map2]
  | blocked b d => cases x <;> simp [MVec.scale, map2]
  | tupleOne f ih => cases x <;> simp [MVec.scale, map2, ih]
  | tupleCons f r ihf ihr => cases x <;> simp [MVec.scale, map2, ihf, ihr]
  | powerOne f ih => cases x <;> simp [MVec.scale, map2, ih]
  | powerCons f r ihf ihr => cases x <;> simp [MVec.scale, map2, ihf, ihr]

theorem componentInvert_eq_map2 [Div α] (al : Bool) (a : α) (r x : MVec α) :
    MVec.componentInvert al a r x = map2 (cinvK al a) r x := by
  induction r generalizing x with
  | dense d => cases x <;> simp [MVec.componentInvert, map2]
  | blocked b d => cases x <;> simp [MVec.componentInvert, map2]
  | tupleOne f ih => cases x <;> simp [MVec.componentInvert, map2, ih]
  | tupleCons f r ihf ihr => cases x <;> simp [MVec.componentInvert, map2, ihf, ihr]
  | powerOne f ih => cases x <;> simp [MVec.componentInvert, map2, ih]
  | powerCons f r ihf ihr => cases x <;> simp [MVec.componentInvert, map2, ihf, ihr]

theorem componentProduct_eq_map3 [Mul α] (rx ry : Bool) (r x y : MVec α) :
    MVec.componentProduct rx ry r x y = map3 (cprodK rx ry) r x y := by
  induction r generalizing x y with
  | dense d => cases x <;> cases y <;> simp [MVec.componentProduct, map3]
  | blocked b d => cases x <;> cases y <;> simp [MVec.componentProduct, map3]
  | tupleOne f ih => cases x <;> cases y <;> simp [MVec.componentProduct, map3, ih]
  | tupleCons f r ihf ihr => cases x <;> cases y <;> simp [MVec.componentProduct, map3, ihf, ihr]
  | powerOne f ih => cases x <;> cases y <;> simp [MVec.componentProduct, map3, ih]
  | powerCons f r ihf ihr => cases x <;> cases y <;> simp [MVec.componentProduct, map3, ihf, ihr]

theorem copy_false_eq_map2 (r x : MVec α) :
    MVec.copy false r x = map2 (fun r x => List.zipWith (fun _ xi => xi) r x) r x := by
  induction r generalizing x with
  | dense d => cases x <;> simp [MVec.copy, map2]
  | blocked b d => cases x <;> simp [MVec.copy, map2]
  | tupleOne f ih => cases x <;> simp [MVec.copy, map2, ih]
  | tupleCons f r ihf ihr => cases x <;> simp [MVec.copy, map2, ihf, ihr]
  | powerOne f ih => cases x <;> simp [MVec.copy, map2, ih]
  | powerCons f r ihf ihr => cases x <;> simp [MVec.copy, map2, ihf, ihr]

theorem copy_true_eq (r x : MVec α) : MVec.copy true r x = r := by
  induction r generalizing x with
  | dense d => cases x <;> simp [MVec.copy]
  | blocked b d => cases x <;> simp [MVec.copy]
  | tupleOne f ih => cases x <;> simp [MVec.copy, ih]
  | tupleCons f r ihf ihr => cases x <;> simp [MVec.copy, ihf, ihr]
  | powerOne f ih => cases x <;> simp [MVec.copy, ih]
  | powerCons f r ihf ihr => cases x <;> simp [MVec.copy, ihf, ihr]

theorem format_eq_map1 (v : α) (r : MVec α) : MVec.format v r = map1 (fun d => d.map fun _ => v) r := by
  induction r with
  | dense d => rfl
  | blocked b d => rfl
  | tupleOne f ih => simp [MVec.format, map1, ih]
  | tupleCons f r ihf ihr => simp [MVec.format, map1, ihf, ihr]
  | powerOne f ih => simp [MVec.format, map1, ih]
  | powerCons f r ihf ihr => simp [MVec.format, map1, ihf, ihr]

theorem dot_eq_red2 [Add α] [Mul α] [Zero α] (al : Bool) (x y : MVec α) : MVec.dot al x y = red2 (dotK al) x y := by
  induction x generalizing y with
  | dense d => cases y <;> simp [MVec.dot, red2]
  | blocked b d => cases y <;> simp [MVec.dot, red2]
  | tupleOne f ih => cases y <;> simp [MVec.dot, red2, ih]
  | tupleCons f r ihf ihr => cases y <;> simp [MVec.dot, red2, ihf, ihr]
  | powerOne f ih => cases y <;> simp [MVec.dot, red2, ih]
  | powerCons f r ihf ihr => cases y <;> simp [MVec.dot, red2, ihf, ihr]

theorem tripleDot_eq_red3 [Add α] [Mul α] [Zero α] (xy xz yz : Bool) (x y z : MVec α) :
    MVec.tripleDot xy xz yz x y z = red3 (tdotK xy xz yz) x y z := by
  induction x generalizing y z with
  | dense d => cases y <;> cases z <;> simp [MVec.tripleDot, red3]
  | blocked b d => cases y <;> cases z <;> simp [MVec.tripleDot, red3]
  | tupleOne f ih => cases y <;> cases z <;> simp [MVec.tripleDot, red3, ih]
  | tupleCons f r ihf ihr => cases y <;> cases z <;> simp [MVec.tripleDot, red3, ihf, ihr]
  | powerOne f ih => cases y <;> cases z <;> simp [MVec.tripleDot, red3, ih]
  | powerCons f r ihf ihr => cases y <;> cases z <;> simp [MVec.tripleDot, red3, ihf, ihr]

/-- with a square root that is exact on sums of squares, `norm2sqr` is the sum of squares of the flat data -/
theorem norm2sqr_flatten [Semiring α] (sqrt : α → α)
    (hs : ∀ l : List α, sqrt (sumSq l) * sqrt (sumSq l) = sumSq l) (v : MVec α) :
    norm2sqr sqrt v = sumSq v.flatten := by
  induction v with
  | dense d => simp [norm2sqr, norm2K, flatten, hs]
  | blocked b d => simp [norm2sqr, norm2K, flatten, hs]
  | tupleOne f ih => simpa [norm2sqr, flatten] using ih
  | tupleCons f r ihf ihr => simp [norm2sqr, flatten, ihf, ihr, sumSq_append]
  | powerOne f ih => simpa [norm2sqr, flatten] using ih
  | powerCons f r ihf ihr => simp [norm2sqr, flatten, ihf, ihr, sumSq_append]

theorem norm2_flatten [Semiring α] (sqrt : α → α)
    (hs : ∀ l : List α, sqrt (sumSq l) * sqrt (sumSq l) = sumSq l) (v : MVec α) :
    norm2 sqrt v = sqrt (sumSq v.flatten) := by
  induction v with
  | dense d => simp [norm2, norm2K, flatten]
  | blocked b d => simp [norm2, norm2K, flatten]
  | tupleOne f ih => simpa [norm2, flatten] using ih
  | tupleCons f r _ _ => simp [norm2, flatten, norm2sqr_flatten sqrt hs, sumSq_append]
  | powerOne f _ => simp [norm2, flatten, norm2sqr_flatten sqrt hs]
  | powerCons f r _ _ => simp [norm2, flatten, norm2sqr_flatten sqrt hs, sumSq_append]

theorem extreme_spec (le : α → α → Prop) (key : α → α) (leaf : List α → Option α) (comb : α → α → α)
    (hleaf : ∀ x m, leaf x = some m → IsExt le key x m)
    (hcomb : ∀ l₁ l₂ a b, IsExt le key l₁ a → IsExt le key l₂ b → IsExt le key (l₁ ++ l₂) (comb a b))
    (v : MVec α) (m : α) (h : extreme leaf comb v = some m) : IsExt le key v.flatten m := by
  induction v generalizing m with
  | dense d => exact hleaf _ _ h
  | blocked b d => exact hleaf _ _ h
  | tupleOne f ih => exact ih _ h
  | tupleCons f r ihf ihr =>
    simp only [extreme] at h
    cases hf : extreme leaf comb f with
    | none => simp [hf] at h
    | some a =>
      cases hr : extreme leaf comb r with
      | none => simp [hf, hr] at h
      | some b =>
        simp only [hf, hr, Option.bind_some, Option.map_some, Option.some.injEq] at h
        subst h
        exact hcomb _ _ _ _ (ihf _ hf) (ihr _ hr)
  | powerOne f ih => exact ih _ h
  | powerCons f r ihf ihr =>
    simp only [extreme] at h
    cases hf : extreme leaf comb f with
    | none => simp [hf] at h
    | some a =>
      cases hr : extreme leaf comb r with
      | none => simp [hf, hr] at h
      | some b =>
        simp only [hf, hr, Option.bind_some, Option.map_some, Option.some.injEq] at h
        subst h
        exact hcomb _ _ _ _ (ihf _ hf) (ihr _ hr)

end MVec
end FeatModel.Vec
