import FeatModel.Lemmas.C08Linear
import FeatModel.Lemmas.C08IluFactorAux
import FeatModel.Lemmas.C08Poly
import FeatModel.Lemmas.C08Blocked
import Mathlib.Tactic.Abel
/-! C08: every preconditioner `apply` of the model is linear in its input (defect) vector:
SOR / SSOR incl. scaling and filter, Jacobi / scale / diagonal, the ILU solve (independent of the previous content of the
output vector), the matrix and the polynomial preconditioner, and the blocked SOR / SSOR sweeps over a module. -/
open Finset
namespace FeatModel.Solver
open FeatModel.LA

/-! ### generic helpers -/
namespace Lin2

section sums
variable {M : Type} [AddCommMonoid M]

/-- a row that vanishes from the diagonal on: the sum over the row is the sum over the strictly lower part -/
theorem sum_range_lower (n i : Nat) (hi : i < n) (f : Nat → M) (h : ∀ j, i ≤ j → f j = 0) :
    ∑ j ∈ range n, f j = ∑ j ∈ range i, f j :=
  (Finset.sum_subset (Finset.range_subset_range.2 (Nat.le_of_lt hi)) (fun j _ hj => h j (by
    rw [Finset.mem_range] at hj; omega))).symm

/-- a row that vanishes up to the diagonal: the sum over the row is the sum over the strictly upper part -/
theorem sum_range_upper (n i : Nat) (f : Nat → M) (h : ∀ j, j ≤ i → f j = 0) :
    ∑ j ∈ range n, f j = ∑ j ∈ Ico (i + 1) n, f j :=
  (Finset.sum_subset (fun j hj => by
      rw [Finset.mem_Ico] at hj; rw [Finset.mem_range]; exact hj.2) (fun j hj1 hj2 => h j (by
    rw [Finset.mem_range] at hj1; rw [Finset.mem_Ico] at hj2; omega))).symm

end sums

end Lin2

variable {α : Type} [Field α]

/-! ### 1. SOR / SSOR `apply` (sweep, scaling, filter) -/

/-- `SORPrecond::apply` is linear in the defect -/
theorem sorApply_linear (ω : α) (hω : ω ≠ 0) (fidx : List Nat) (A : Csr α) (hA : sortedDiag A = true)
    (hd : ∀ i, i < A.rows → A.entry i i ≠ 0) (a b : α) (x x' : Array α) (hx : x.size = A.rows)
    (hx' : x'.size = A.rows) (i : Nat) (hi : i < A.rows) :
    (sorApply ω fidx A (lincomb a b x x')).getD i 0
      = a * (sorApply ω fidx A x).getD i 0 + b * (sorApply ω fidx A x').getD i 0 := by
  unfold sorApply
  rw [filterCor_getD, filterCor_getD, filterCor_getD]
  split
  · ring
  · exact sorSweep_linear ω hω A hA hd a b x x' hx hx' i hi

theorem Lin2.ssorSweep_size (ω : α) (A : Csr α) (hA : sortedDiag A = true)
    (hd : ∀ i, i < A.rows → A.entry i i ≠ 0) (x : Array α) (hx : x.size = A.rows) :
    (ssorSweep ω A x).size = A.rows :=
  (ssorBwd_spec ω A hA hd _ (ssorFwd_spec ω A hA hd x hx).1).1

/-- `SSORPrecond::apply` (sweeps, scaling by `ω (2 - ω)`, filter) is linear in the defect -/
theorem ssorApply_linear (ω : α) (fidx : List Nat) (A : Csr α) (hA : sortedDiag A = true)
    (hd : ∀ i, i < A.rows → A.entry i i ≠ 0) (a b : α) (x x' : Array α) (hx : x.size = A.rows)
    (hx' : x'.size = A.rows) (i : Nat) (hi : i < A.rows) :
    (ssorApply ω fidx A (lincomb a b x x')).getD i 0
      = a * (ssorApply ω fidx A x).getD i 0 + b * (ssorApply ω fidx A x').getD i 0 := by
  have hl : (lincomb a b x x').size = A.rows := by rw [lincomb_size, hx]
  unfold ssorApply
  rw [filterCor_getD, filterCor_getD, filterCor_getD]
  split
  · ring
  · rw [getD_map _ _ i (by rw [Lin2.ssorSweep_size ω A hA hd _ hl]; exact hi),
      getD_map _ _ i (by rw [Lin2.ssorSweep_size ω A hA hd _ hx]; exact hi),
      getD_map _ _ i (by rw [Lin2.ssorSweep_size ω A hA hd _ hx']; exact hi),
      ssorSweep_linear ω A hA hd a b x x' hx hx' i hi]
    ring

/-! ### 2. elementwise preconditioners -/

/-- `JacobiPrecond::apply` is linear in the defect -/
theorem jacobiApply_linear (fidx : List Nat) (n : Nat) (invD : Array α) (a b : α) (x x' : Array α)
    (hx : x.size = n) (_hx' : x'.size = n) (i : Nat) (hi : i < n) :
    (jacobiApply fidx n invD (lincomb a b x x')).getD i 0
      = a * (jacobiApply fidx n invD x).getD i 0 + b * (jacobiApply fidx n invD x').getD i 0 := by
  unfold jacobiApply
  rw [filterCor_getD, filterCor_getD, filterCor_getD]
  split
  · ring
  · rw [compProd_getD _ _ _ _ hi, compProd_getD _ _ _ _ hi, compProd_getD _ _ _ _ hi,
      lincomb_getD a b x x' i (by omega)]
    ring

/-- `ScalePrecond::apply` is linear in the defect -/
theorem scaleApply_linear (ω : α) (fidx : List Nat) (n : Nat) (a b : α) (x x' : Array α)
    (hx : x.size = n) (hx' : x'.size = n) (i : Nat) (hi : i < n) :
    (scaleApply ω fidx (lincomb a b x x')).getD i 0
      = a * (scaleApply ω fidx x).getD i 0 + b * (scaleApply ω fidx x').getD i 0 := by
  unfold scaleApply
  rw [filterCor_getD, filterCor_getD, filterCor_getD]
  split
  · ring
  · rw [getD_map _ _ i (by rw [lincomb_size]; omega), getD_map _ _ i (by omega), getD_map _ _ i (by omega),
      lincomb_getD a b x x' i (by omega)]
    ring

/-- `DiagonalPrecond::apply` is linear in the defect -/
theorem diagonalApply_linear (fidx : List Nat) (n : Nat) (d : Array α) (a b : α) (x x' : Array α)
    (hx : x.size = n) (hx' : x'.size = n) (i : Nat) (hi : i < n) :
    (diagonalApply fidx d (lincomb a b x x')).getD i 0
      = a * (diagonalApply fidx d x).getD i 0 + b * (diagonalApply fidx d x').getD i 0 := by
  unfold diagonalApply
  rw [filterCor_getD, filterCor_getD, filterCor_getD]
  split
  · ring
  · rw [compProd_getD _ _ _ _ (by rw [lincomb_size]; omega), compProd_getD _ _ _ _ (by omega),
      compProd_getD _ _ _ _ (by omega), lincomb_getD a b x x' i (by omega)]
    ring

/-! ### 3. the ILU solve -/

/-- `L` of a well-shaped symbolic factorisation is strictly lower triangular (from `wf` alone) -/
theorem Lin2.matL_entry_zero (s : IluSym) (hs : s.wf = true) (d : IluNum α) {i : Nat} (hi : i < s.n) {c : Nat}
    (hc : i ≤ c) : (s.matL d).entry i c = 0 := by
  simp only [IluSym.wf, Bool.and_eq_true, beq_iff_eq, List.all_eq_true, List.mem_range, List.mem_range'_1,
    decide_eq_true_eq, Array.all_eq_true] at hs
  obtain ⟨_, h9⟩ := hs
  apply entry_eq_zero_of_forall
  intro k hk1 hk2
  show s.ciL.getD k s.n ≠ c
  have hk1' : s.rpL.getD i 0 ≤ k := hk1
  have hk2' : k < s.rpL.getD (i + 1) 0 := hk2
  have := (h9 i hi).1.2 k ⟨hk1', by omega⟩
  omega

/-- `U` of a well-shaped symbolic factorisation is strictly upper triangular (from `wf` alone) -/
theorem Lin2.matU_entry_zero (s : IluSym) (hs : s.wf = true) (d : IluNum α) {i : Nat} (hi : i < s.n) {c : Nat}
    (hc : c ≤ i) : (s.matU d).entry i c = 0 := by
  simp only [IluSym.wf, Bool.and_eq_true, beq_iff_eq, List.all_eq_true, List.mem_range, List.mem_range'_1,
    decide_eq_true_eq, Array.all_eq_true] at hs
  obtain ⟨_, h9⟩ := hs
  apply entry_eq_zero_of_forall
  intro k hk1 hk2
  show s.ciU.getD k s.n ≠ c
  have hk1' : s.rpU.getD i 0 ≤ k := hk1
  have hk2' : k < s.rpU.getD (i + 1) 0 := hk2
  have h := (h9 i hi).2 k ⟨hk1', by omega⟩
  by_cases hks : k < s.ciU.size
  · rw [Csr.getD_eq_of_lt _ hks s.n 0]
    omega
  · have : s.ciU.getD k s.n = s.n := by simp [Array.getD, hks]
    omega

/-- the ILU solve depends linearly on the right-hand side only: three runs with arbitrary previous contents of the
    output vector whose right-hand sides are related by `b'' = a b + c b'` componentwise -/
theorem Lin2.iluSolve_lin (s : IluSym) (hs : s.wf = true) (d : IluNum α)
    (hl : d.dataL.size = s.ciL.size) (hu : d.dataU.size = s.ciU.size)
    (hd : ∀ i, i < s.n → d.dataD.getD i 0 ≠ 0) (a c : α) (b'' b b' x0'' x0 x0' : Array α)
    (hb'' : b''.size = s.n) (hb : b.size = s.n) (hb' : b'.size = s.n)
    (h0'' : x0''.size = s.n) (h0 : x0.size = s.n) (h0' : x0'.size = s.n)
    (hr : ∀ i, i < s.n → b''.getD i 0 = a * b.getD i 0 + c * b'.getD i 0) (i : Nat) (hi : i < s.n) :
    (iluSolve s d b'' x0'').getD i 0
      = a * (iluSolve s d b x0).getD i 0 + c * (iluSolve s d b' x0').getD i 0 := by
  obtain ⟨_, y'', _, L'', U''⟩ := iluSolve_spec s hs d hl hu hd b'' x0'' hb'' h0''
  obtain ⟨_, y, _, L, U⟩ := iluSolve_spec s hs d hl hu hd b x0 hb h0
  obtain ⟨_, y', _, L', U'⟩ := iluSolve_spec s hs d hl hu hd b' x0' hb' h0'
  have cutL : ∀ (u : Nat → α) i, i < s.n →
      ∑ j ∈ range s.n, (s.matL d).entry i j * u j = ∑ j ∈ range i, (s.matL d).entry i j * u j :=
    fun u i hi => Lin2.sum_range_lower s.n i hi _ (fun j hj => by
      rw [Lin2.matL_entry_zero s hs d hi hj, zero_mul])
  have cutU : ∀ (u : Nat → α) i, i < s.n →
      ∑ j ∈ range s.n, (s.matU d).entry i j * u j = ∑ j ∈ Ico (i + 1) s.n, (s.matU d).entry i j * u j :=
    fun u i hi => Lin2.sum_range_upper s.n i _ (fun j hj => by
      rw [Lin2.matU_entry_zero s hs d hi hj, zero_mul])
  have hy : ∀ i, i < s.n → y''.getD i 0 = a * y.getD i 0 + c * y'.getD i 0 :=
    lower_linear s.n (fun _ => 1) (fun i j => (s.matL d).entry i j) 1 a c
      (fun j => y''.getD j 0) (fun j => y.getD j 0) (fun j => y'.getD j 0)
      (fun j => b''.getD j 0) (fun j => b.getD j 0) (fun j => b'.getD j 0)
      (fun _ _ => one_ne_zero)
      (fun i hi => by rw [one_mul, one_mul, ← cutL _ i hi]; exact L'' i hi)
      (fun i hi => by rw [one_mul, one_mul, ← cutL _ i hi]; exact L i hi)
      (fun i hi => by rw [one_mul, one_mul, ← cutL _ i hi]; exact L' i hi) hr
  exact upper_linear s.n (fun i => (d.dataD.getD i 0)⁻¹) (fun i j => (s.matU d).entry i j) 1 a c
    (fun j => (iluSolve s d b'' x0'').getD j 0) (fun j => (iluSolve s d b x0).getD j 0)
    (fun j => (iluSolve s d b' x0').getD j 0)
    (fun j => y''.getD j 0) (fun j => y.getD j 0) (fun j => y'.getD j 0)
    (fun i hi => inv_ne_zero (hd i hi))
    (fun i hi => by rw [one_mul, ← cutU _ i hi, inv_mul_eq_div]; exact U'' i hi)
    (fun i hi => by rw [one_mul, ← cutU _ i hi, inv_mul_eq_div]; exact U i hi)
    (fun i hi => by rw [one_mul, ← cutU _ i hi, inv_mul_eq_div]; exact U' i hi) hy i hi

/-- `ILUPrecond::apply` (both triangular solves) is linear in the defect, whatever the output vectors held before -/
theorem iluSolve_linear (s : IluSym) (hs : s.wf = true) (d : IluNum α)
    (hl : d.dataL.size = s.ciL.size) (hu : d.dataU.size = s.ciU.size)
    (hd : ∀ i, i < s.n → d.dataD.getD i 0 ≠ 0) (a b : α) (x x' x0'' x0 x0' : Array α)
    (hx : x.size = s.n) (hx' : x'.size = s.n)
    (h0'' : x0''.size = s.n) (h0 : x0.size = s.n) (h0' : x0'.size = s.n) (i : Nat) (hi : i < s.n) :
    (iluSolve s d (lincomb a b x x') x0'').getD i 0
      = a * (iluSolve s d x x0).getD i 0 + b * (iluSolve s d x' x0').getD i 0 :=
  Lin2.iluSolve_lin s hs d hl hu hd a b (lincomb a b x x') x x' x0'' x0 x0' (by rw [lincomb_size, hx]) hx hx'
    h0'' h0 h0' (fun i hi => lincomb_getD a b x x' i (by omega)) i hi

/-- the result of the ILU solve does not depend on the previous content `x0` of the output vector -/
theorem iluSolve_indep_x0 (s : IluSym) (hs : s.wf = true) (d : IluNum α)
    (hl : d.dataL.size = s.ciL.size) (hu : d.dataU.size = s.ciU.size)
    (hd : ∀ i, i < s.n → d.dataD.getD i 0 ≠ 0) (x x0 x0' : Array α)
    (hx : x.size = s.n) (h0 : x0.size = s.n) (h0' : x0'.size = s.n) (i : Nat) (hi : i < s.n) :
    (iluSolve s d x x0).getD i 0 = (iluSolve s d x x0').getD i 0 := by
  have := Lin2.iluSolve_lin s hs d hl hu hd 1 0 x x x x0 x0' x0' hx hx hx h0 h0' h0'
    (fun i _ => by ring) i hi
  rw [this]
  ring

/-! ### 4. matrix and polynomial preconditioner -/

/-- `MatrixPrecond::apply` never aborts on matching sizes and is linear in the defect -/
theorem matrixApply_linear (tiny : α → Bool) (ht0 : tiny 0 = true) (fidx : List Nat) (A : Csr α)
    (hA : A.wf = true) (a b : α) (x x' : Array α) (hx : x.size = A.cols) (hx' : x'.size = A.cols) :
    ∃ r r' r'', matrixApply tiny fidx A x = some r ∧ matrixApply tiny fidx A x' = some r'
      ∧ matrixApply tiny fidx A (lincomb a b x x') = some r''
      ∧ ∀ i, i < A.rows → r''.getD i 0 = a * r.getD i 0 + b * r'.getD i 0 := by
  have hl : (lincomb a b x x').size = A.cols := by rw [lincomb_size, hx]
  obtain ⟨r, e1, _, e3⟩ := poly_csr_apply tiny ht0 A hA x (Array.replicate A.rows 0) (by simp) hx
  obtain ⟨r', e1', _, e3'⟩ := poly_csr_apply tiny ht0 A hA x' (Array.replicate A.rows 0) (by simp) hx'
  obtain ⟨r'', e1'', _, e3''⟩ := poly_csr_apply tiny ht0 A hA _ (Array.replicate A.rows 0) (by simp) hl
  refine ⟨filterCor fidx r, filterCor fidx r', filterCor fidx r'', ?_, ?_, ?_, ?_⟩
  · unfold matrixApply; rw [e1]
  · unfold matrixApply; rw [e1']
  · unfold matrixApply; rw [e1'']
  · intro i hi
    rw [filterCor_getD, filterCor_getD, filterCor_getD]
    split
    · ring
    · rw [e3 i hi, e3' i hi, e3'' i hi, Finset.mul_sum, Finset.mul_sum, ← Finset.sum_add_distrib]
      exact Finset.sum_congr rfl (fun j hj => by
        rw [lincomb_getD a b x x' j (by rw [hx]; exact Finset.mem_range.mp hj)]; ring)

/-- every term of the Neumann series is linear in the defect -/
theorem Lin2.neumannTerm_linear (fidx : List Nat) (A : Csr α) (hsq : A.rows = A.cols) (invD : Array α) (a b : α)
    (x x' : Array α) (hx : x.size = A.rows) :
    ∀ (k i : Nat), i < A.rows → neumannTerm fidx A invD (lincomb a b x x') k i
      = a * neumannTerm fidx A invD x k i + b * neumannTerm fidx A invD x' k i
  | 0, i, hi => by
    simp only [neumannTerm]
    rw [lincomb_getD a b x x' i (by omega)]
    ring
  | k + 1, i, hi => by
    simp only [neumannTerm, polyOp]
    rw [Lin2.neumannTerm_linear fidx A hsq invD a b x x' hx k i hi]
    have hs : ∑ j ∈ range A.cols, A.entry i j * neumannTerm fidx A invD (lincomb a b x x') k j
        = a * ∑ j ∈ range A.cols, A.entry i j * neumannTerm fidx A invD x k j
          + b * ∑ j ∈ range A.cols, A.entry i j * neumannTerm fidx A invD x' k j := by
      rw [Finset.mul_sum, Finset.mul_sum, ← Finset.sum_add_distrib]
      exact Finset.sum_congr rfl (fun j hj => by
        rw [Lin2.neumannTerm_linear fidx A hsq invD a b x x' hx k j (by
          rw [hsq]; exact Finset.mem_range.mp hj)]
        ring)
    rw [hs]
    split <;> ring

/-- `PolynomialPrecond::apply` never aborts on matching sizes and is linear in the defect -/
theorem polyApply_linear (tiny : α → Bool) (ht0 : tiny 0 = true) (m : Nat) (fidx : List Nat) (A : Csr α)
    (hA : A.wf = true) (hsq : A.rows = A.cols) (invD : Array α) (a b : α) (x x' : Array α)
    (hx : x.size = A.rows) (_hx' : x'.size = A.rows) :
    ∃ r r' r'', polyApply tiny m fidx A invD x = some r ∧ polyApply tiny m fidx A invD x' = some r'
      ∧ polyApply tiny m fidx A invD (lincomb a b x x') = some r''
      ∧ ∀ i, i < A.rows → r''.getD i 0 = a * r.getD i 0 + b * r'.getD i 0 := by
  obtain ⟨r, e1, _, e3⟩ := polyApply_spec tiny ht0 m fidx A hA hsq invD x
  obtain ⟨r', e1', _, e3'⟩ := polyApply_spec tiny ht0 m fidx A hA hsq invD x'
  obtain ⟨r'', e1'', _, e3''⟩ := polyApply_spec tiny ht0 m fidx A hA hsq invD (lincomb a b x x')
  refine ⟨r, r', r'', e1, e1', e1'', fun i hi => ?_⟩
  rw [e3 i hi, e3' i hi, e3'' i hi]
  split
  · ring
  · rw [Finset.mul_sum, Finset.mul_sum, ← Finset.sum_add_distrib]
    exact Finset.sum_congr rfl (fun k _ => Lin2.neumannTerm_linear fidx A hsq invD a b x x' hx k i hi)

end FeatModel.Solver

/-! ### 5. the blocked sweeps over a module -/
namespace FeatModel.Solver
open FeatModel.LA

variable {K R V : Type} [Field K] [Ring R] [AddCommGroup V] [Module K V] [Module R V] [SMulCommClass K R V]

namespace Lin2

theorem abel_aux {W : Type} [AddCommGroup W] (X'' X X' Y'' Y Y' : W) (h : X'' + Y'' = (X + Y) + (X' + Y')) :
    X'' - X - X' + (Y'' - Y - Y') = 0 := by
  have e : X'' - X - X' + (Y'' - Y - Y') = (X'' + Y'') - ((X + Y) + (X' + Y')) := by abel
  rw [e, h, sub_self]

omit [SMulCommClass K R V] in
/-- block lower triangular system with left-invertible diagonal blocks (and a non-zero scalar on the diagonal) and
    zero right-hand side: only the zero solution -/
theorem lower_unique_mod (n : Nat) (D Di : Nat → R) (E : Nat → Nat → R) (k c : K) (hk : k ≠ 0) (u : Nat → V)
    (hD : ∀ i, i < n → Di i * D i = 1)
    (H : ∀ i, i < n → D i • (k • u i) + c • ∑ j ∈ range i, E i j • u j = 0) :
    ∀ i, i < n → u i = 0 := by
  intro i
  induction i using Nat.strong_induction_on with
  | _ i ih =>
    intro hi
    have h := H i hi
    have hs : ∑ j ∈ range i, E i j • u j = 0 :=
      Finset.sum_eq_zero (fun j hj => by
        have hj' := Finset.mem_range.mp hj
        rw [ih j hj' (Nat.lt_trans hj' hi), smul_zero])
    rw [hs, smul_zero, add_zero] at h
    have h2 : k • u i = 0 := by
      rw [← one_smul R (k • u i), ← hD i hi, mul_smul, h, smul_zero]
    rw [← one_smul K (u i), ← inv_mul_cancel₀ hk, mul_smul, h2, smul_zero]

omit [SMulCommClass K R V] in
/-- block upper triangular system with left-invertible diagonal blocks and zero right-hand side: only the zero
    solution -/
theorem upper_unique_mod (n : Nat) (D Di : Nat → R) (E : Nat → Nat → R) (k c : K) (hk : k ≠ 0) (u : Nat → V)
    (hD : ∀ i, i < n → Di i * D i = 1)
    (H : ∀ i, i < n → D i • (k • u i) + c • ∑ j ∈ Ico (i + 1) n, E i j • u j = 0) :
    ∀ i, i < n → u i = 0 := by
  have key : ∀ m i, n - i = m → i < n → u i = 0 := by
    intro m
    induction m using Nat.strong_induction_on with
    | _ m ih =>
      intro i hm hi
      have h := H i hi
      have hs : ∑ j ∈ Ico (i + 1) n, E i j • u j = 0 :=
        Finset.sum_eq_zero (fun j hj => by
          have hj' := Finset.mem_Ico.mp hj
          rw [ih (n - j) (by omega) j rfl hj'.2, smul_zero])
      rw [hs, smul_zero, add_zero] at h
      have h2 : k • u i = 0 := by
        rw [← one_smul R (k • u i), ← hD i hi, mul_smul, h, smul_zero]
      rw [← one_smul K (u i), ← inv_mul_cancel₀ hk, mul_smul, h2, smul_zero]
  exact fun i hi => key (n - i) i rfl hi

/-- the block row operator applied to `y'' - a y - b y'` -/
theorem row_lin (s : Finset Nat) (D : R) (e : Nat → R) (k c a b : K) (y'' y y' : Nat → V) (i : Nat)
    (r'' r r' : V)
    (H'' : D • (k • y'' i) + c • ∑ j ∈ s, e j • y'' j = r'')
    (H : D • (k • y i) + c • ∑ j ∈ s, e j • y j = r)
    (H' : D • (k • y' i) + c • ∑ j ∈ s, e j • y' j = r')
    (hr : r'' = a • r + b • r') :
    D • (k • (y'' i - a • y i - b • y' i)) + c • ∑ j ∈ s, e j • (y'' j - a • y j - b • y' j) = 0 := by
  have hs : ∑ j ∈ s, e j • (y'' j - a • y j - b • y' j)
      = ∑ j ∈ s, e j • y'' j - a • ∑ j ∈ s, e j • y j - b • ∑ j ∈ s, e j • y' j := by
    rw [Finset.smul_sum, Finset.smul_sum, ← Finset.sum_sub_distrib, ← Finset.sum_sub_distrib]
    exact Finset.sum_congr rfl (fun j _ => by
      rw [smul_sub, smul_sub, smul_comm a (e j), smul_comm b (e j)])
  have h1 : D • (k • (y'' i - a • y i - b • y' i))
      = D • (k • y'' i) - a • (D • (k • y i)) - b • (D • (k • y' i)) := by
    rw [smul_sub, smul_sub, smul_sub, smul_sub, smul_comm k a, smul_comm k b, smul_comm a D, smul_comm b D]
  have h2 : c • (∑ j ∈ s, e j • y'' j - a • ∑ j ∈ s, e j • y j - b • ∑ j ∈ s, e j • y' j)
      = c • ∑ j ∈ s, e j • y'' j - a • (c • ∑ j ∈ s, e j • y j) - b • (c • ∑ j ∈ s, e j • y' j) := by
    rw [smul_sub, smul_sub, smul_comm c a, smul_comm c b]
  rw [hs, h1, h2]
  apply abel_aux
  rw [← smul_add, ← smul_add, H'', H, H', hr]

/-- solutions of a block lower triangular system depend linearly on the right-hand side -/
theorem lower_linear_mod (n : Nat) (D Di : Nat → R) (E : Nat → Nat → R) (k c : K) (hk : k ≠ 0) (a b : K)
    (y'' y y' r'' r r' : Nat → V)
    (hD : ∀ i, i < n → Di i * D i = 1)
    (H'' : ∀ i, i < n → D i • (k • y'' i) + c • ∑ j ∈ range i, E i j • y'' j = r'' i)
    (H : ∀ i, i < n → D i • (k • y i) + c • ∑ j ∈ range i, E i j • y j = r i)
    (H' : ∀ i, i < n → D i • (k • y' i) + c • ∑ j ∈ range i, E i j • y' j = r' i)
    (hr : ∀ i, i < n → r'' i = a • r i + b • r' i) :
    ∀ i, i < n → y'' i = a • y i + b • y' i := by
  intro i hi
  have := lower_unique_mod n D Di E k c hk (fun j => y'' j - a • y j - b • y' j) hD (fun i hi =>
    row_lin (range i) (D i) (E i) k c a b y'' y y' i _ _ _ (H'' i hi) (H i hi) (H' i hi) (hr i hi)) i hi
  have e : y'' i = (y'' i - a • y i - b • y' i) + (a • y i + b • y' i) := by abel
  rw [e, this, zero_add]

/-- solutions of a block upper triangular system depend linearly on the right-hand side -/
theorem upper_linear_mod (n : Nat) (D Di : Nat → R) (E : Nat → Nat → R) (k c : K) (hk : k ≠ 0) (a b : K)
    (y'' y y' r'' r r' : Nat → V)
    (hD : ∀ i, i < n → Di i * D i = 1)
    (H'' : ∀ i, i < n → D i • (k • y'' i) + c • ∑ j ∈ Ico (i + 1) n, E i j • y'' j = r'' i)
    (H : ∀ i, i < n → D i • (k • y i) + c • ∑ j ∈ Ico (i + 1) n, E i j • y j = r i)
    (H' : ∀ i, i < n → D i • (k • y' i) + c • ∑ j ∈ Ico (i + 1) n, E i j • y' j = r' i)
    (hr : ∀ i, i < n → r'' i = a • r i + b • r' i) :
    ∀ i, i < n → y'' i = a • y i + b • y' i := by
  intro i hi
  have := upper_unique_mod n D Di E k c hk (fun j => y'' j - a • y j - b • y' j) hD (fun i hi =>
    row_lin (Ico (i + 1) n) (D i) (E i) k c a b y'' y y' i _ _ _ (H'' i hi) (H i hi) (H' i hi) (hr i hi)) i hi
  have e : y'' i = (y'' i - a • y i - b • y' i) + (a • y i + b • y' i) := by abel
  rw [e, this, zero_add]

end Lin2

namespace Blk

/-- `a x + b x'` blockwise -/
def lincombV (a b : K) (x x' : Array V) : Array V :=
  Array.ofFn (n := x.size) fun i => a • x.getD i.val 0 + b • x'.getD i.val 0

omit [Ring R] [Module R V] [SMulCommClass K R V] in
theorem lincombV_size (a b : K) (x x' : Array V) : (lincombV a b x x').size = x.size := by
  simp [lincombV]

omit [Ring R] [Module R V] [SMulCommClass K R V] in
theorem lincombV_getD (a b : K) (x x' : Array V) (i : Nat) (hi : i < x.size) :
    (lincombV a b x x').getD i 0 = a • x.getD i 0 + b • x'.getD i 0 := by
  simp [lincombV, Array.getD, hi]

/-- the blocked SOR sweep is linear in the input -/
theorem sorSweep_linear (inv : R → R) (ω : K) (hω : ω ≠ 0) (A : Csr R) (hA : sortedDiag A = true)
    (hinv : ∀ i, i < A.rows →
      A.entry i i * inv (A.entry i i) = 1 ∧ inv (A.entry i i) * A.entry i i = 1)
    (a b : K) (x x' : Array V) (hx : x.size = A.rows) (hx' : x'.size = A.rows) (i : Nat) (hi : i < A.rows) :
    (sorSweep (modOps inv) ω A (lincombV a b x x')).getD i 0
      = a • (sorSweep (modOps inv) ω A x).getD i 0 + b • (sorSweep (modOps inv) ω A x').getD i 0 := by
  have hl : (lincombV a b x x').size = A.rows := by rw [lincombV_size, hx]
  have hinv1 : ∀ i, i < A.rows → A.entry i i * inv (A.entry i i) = 1 := fun i hi => (hinv i hi).1
  have H'' := (sorSweep_spec inv ω hω A hA hinv1 _ hl).2
  have H := (sorSweep_spec inv ω hω A hA hinv1 x hx).2
  have H' := (sorSweep_spec inv ω hω A hA hinv1 x' hx').2
  refine Lin2.lower_linear_mod A.rows (fun i => A.entry i i) (fun i => inv (A.entry i i))
    (fun i j => A.entry i j) ω⁻¹ 1 (inv_ne_zero hω) a b
    (fun j => (sorSweep (modOps inv) ω A (lincombV a b x x')).getD j 0)
    (fun j => (sorSweep (modOps inv) ω A x).getD j 0)
    (fun j => (sorSweep (modOps inv) ω A x').getD j 0) (fun j => (lincombV a b x x').getD j 0)
    (fun j => x.getD j 0) (fun j => x'.getD j 0) (fun i hi => (hinv i hi).2) ?_ ?_ ?_ ?_ i hi
  · intro i hi; simpa only [one_smul] using H'' i hi
  · intro i hi; simpa only [one_smul] using H i hi
  · intro i hi; simpa only [one_smul] using H' i hi
  · intro i hi; exact lincombV_getD a b x x' i (by omega)

/-- the blocked SSOR sweeps are linear in the input -/
theorem ssorSweep_linear (inv : R → R) (ω : K) (A : Csr R) (hA : sortedDiag A = true)
    (hinv : ∀ i, i < A.rows →
      A.entry i i * inv (A.entry i i) = 1 ∧ inv (A.entry i i) * A.entry i i = 1)
    (a b : K) (x x' : Array V) (hx : x.size = A.rows) (hx' : x'.size = A.rows) (i : Nat) (hi : i < A.rows) :
    (ssorSweep (modOps inv) ω A (lincombV a b x x')).getD i 0
      = a • (ssorSweep (modOps inv) ω A x).getD i 0 + b • (ssorSweep (modOps inv) ω A x').getD i 0 := by
  have hl : (lincombV a b x x').size = A.rows := by rw [lincombV_size, hx]
  have hinv1 : ∀ i, i < A.rows → A.entry i i * inv (A.entry i i) = 1 := fun i hi => (hinv i hi).1
  have hinv2 : ∀ i, i < A.rows → inv (A.entry i i) * A.entry i i = 1 := fun i hi => (hinv i hi).2
  obtain ⟨sF'', F''⟩ := ssorFwd_spec inv ω A hA hinv1 _ hl
  obtain ⟨sF, F⟩ := ssorFwd_spec inv ω A hA hinv1 x hx
  obtain ⟨sF', F'⟩ := ssorFwd_spec inv ω A hA hinv1 x' hx'
  have hfwd : ∀ i, i < A.rows → (ssorFwd (modOps inv) ω A (lincombV a b x x')).getD i 0
      = a • (ssorFwd (modOps inv) ω A x).getD i 0 + b • (ssorFwd (modOps inv) ω A x').getD i 0 :=
    Lin2.lower_linear_mod A.rows (fun i => A.entry i i) (fun i => inv (A.entry i i))
      (fun i j => A.entry i j) 1 ω one_ne_zero a b
      (fun j => (ssorFwd (modOps inv) ω A (lincombV a b x x')).getD j 0)
      (fun j => (ssorFwd (modOps inv) ω A x).getD j 0)
      (fun j => (ssorFwd (modOps inv) ω A x').getD j 0) (fun j => (lincombV a b x x').getD j 0)
      (fun j => x.getD j 0) (fun j => x'.getD j 0) hinv2
      (fun i hi => by simpa only [one_smul] using F'' i hi)
      (fun i hi => by simpa only [one_smul] using F i hi)
      (fun i hi => by simpa only [one_smul] using F' i hi)
      (fun i hi => lincombV_getD a b x x' i (by omega))
  have B'' := (ssorBwd_spec inv ω A hA hinv1 _ sF'').2
  have B := (ssorBwd_spec inv ω A hA hinv1 _ sF).2
  have B' := (ssorBwd_spec inv ω A hA hinv1 _ sF').2
  unfold ssorSweep
  exact Lin2.upper_linear_mod A.rows (fun i => A.entry i i) (fun i => inv (A.entry i i))
    (fun i j => A.entry i j) 1 ω one_ne_zero a b
    (fun j => (ssorBwd (modOps inv) ω A (ssorFwd (modOps inv) ω A (lincombV a b x x'))).getD j 0)
    (fun j => (ssorBwd (modOps inv) ω A (ssorFwd (modOps inv) ω A x)).getD j 0)
    (fun j => (ssorBwd (modOps inv) ω A (ssorFwd (modOps inv) ω A x')).getD j 0)
    (fun j => A.entry j j • (ssorFwd (modOps inv) ω A (lincombV a b x x')).getD j 0)
    (fun j => A.entry j j • (ssorFwd (modOps inv) ω A x).getD j 0)
    (fun j => A.entry j j • (ssorFwd (modOps inv) ω A x').getD j 0) hinv2
    (fun i hi => by simpa only [one_smul] using B'' i hi)
    (fun i hi => by simpa only [one_smul] using B i hi)
    (fun i hi => by simpa only [one_smul] using B' i hi)
    (fun i hi => by
      show A.entry i i • _ = a • (A.entry i i • _) + b • (A.entry i i • _)
      rw [hfwd i hi, smul_add, smul_comm a (A.entry i i), smul_comm b (A.entry i i)]) i hi

/-- the blocked `SORPrecond::apply` (sweep and blocked unit filter) is linear in the defect -/
theorem sorApply_linear (inv : R → R) (ω : K) (hω : ω ≠ 0) (fidx : List Nat) (A : Csr R)
    (hA : sortedDiag A = true)
    (hinv : ∀ i, i < A.rows →
      A.entry i i * inv (A.entry i i) = 1 ∧ inv (A.entry i i) * A.entry i i = 1)
    (a b : K) (x x' : Array V) (hx : x.size = A.rows) (hx' : x'.size = A.rows) (i : Nat) (hi : i < A.rows) :
    (sorApply (modOps inv) ω fidx A (lincombV a b x x')).getD i 0
      = a • (sorApply (modOps inv) ω fidx A x).getD i 0 + b • (sorApply (modOps inv) ω fidx A x').getD i 0 := by
  unfold sorApply
  rw [filterCor_getD, filterCor_getD, filterCor_getD]
  split
  · rw [smul_zero, smul_zero, add_zero]
  · exact sorSweep_linear inv ω hω A hA hinv a b x x' hx hx' i hi

omit [SMulCommClass K R V] in
theorem getD_map_smul (inv : R → R) (c : K) (v : Array V) (i : Nat) (hi : i < v.size) :
    (v.map ((modOps (K := K) (R := R) inv).smul c)).getD i 0 = c • v.getD i 0 := by
  simp [Array.getD, hi, modOps]

/-- the blocked `SSORPrecond::apply` (sweeps, scaling by `ω (2 - ω)`, blocked unit filter) is linear in the defect -/
theorem ssorApply_linear (inv : R → R) (ω : K) (fidx : List Nat) (A : Csr R) (hA : sortedDiag A = true)
    (hinv : ∀ i, i < A.rows →
      A.entry i i * inv (A.entry i i) = 1 ∧ inv (A.entry i i) * A.entry i i = 1)
    (a b : K) (x x' : Array V) (hx : x.size = A.rows) (hx' : x'.size = A.rows) (i : Nat) (hi : i < A.rows) :
    (ssorApply (modOps inv) ω fidx A (lincombV a b x x')).getD i 0
      = a • (ssorApply (modOps inv) ω fidx A x).getD i 0
        + b • (ssorApply (modOps inv) ω fidx A x').getD i 0 := by
  have hl : (lincombV a b x x').size = A.rows := by rw [lincombV_size, hx]
  have hinv1 : ∀ i, i < A.rows → A.entry i i * inv (A.entry i i) = 1 := fun i hi => (hinv i hi).1
  have hsz : ∀ (z : Array V), z.size = A.rows → (ssorSweep (modOps inv) ω A z).size = A.rows :=
    fun z hz => (ssorBwd_spec inv ω A hA hinv1 _ (ssorFwd_spec inv ω A hA hinv1 z hz).1).1
  unfold ssorApply
  rw [filterCor_getD, filterCor_getD, filterCor_getD]
  split
  · rw [smul_zero, smul_zero, add_zero]
  · rw [getD_map_smul inv _ _ i (by rw [hsz _ hl]; exact hi), getD_map_smul inv _ _ i (by rw [hsz _ hx]; exact hi),
      getD_map_smul inv _ _ i (by rw [hsz _ hx']; exact hi), ssorSweep_linear inv ω A hA hinv a b x x' hx hx' i hi,
      smul_add, smul_comm _ a, smul_comm _ b]

end Blk
end FeatModel.Solver
