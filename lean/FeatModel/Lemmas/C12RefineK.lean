import FeatModel.Lemmas.C12Refine
/-! C12 helper lemmas: invariants of the joint refinement, `k` refinement steps, injectivity and cover-once. -/
namespace FeatModel.Parti
open FeatModel.Adj FeatModel.Refine FeatModel.Gen.Refine

theorem refine_kind (M : Refine.Mesh) : (refine M).kind = M.kind := rfl
theorem refine_dim (M : Refine.Mesh) : (refine M).dim = M.dim := rfl

theorem refine_nums_getD (M : Refine.Mesh) (c : Nat) (hc : c ≤ M.dim) :
    (refine M).nums.getD c 0 = offset M.kind M.nums c (M.dim + 1) := by
  have := refine_num M c hc
  simpa [Refine.Mesh.num, fineCount] using this

/-- number of refined targets = number of fine entities of a mesh whose counts are the sizes of the target sets -/
theorem simpleTargets_length_offset (M N : Refine.Mesh) (P : Part) (c : Nat) (hk : N.kind = M.kind)
    (hn : ∀ d, d ≤ M.dim → N.nums.getD d 0 = (P.target d).length) (_hc : c ≤ M.dim) :
    (simpleTargets M P c).length = offset N.kind N.nums c (M.dim + 1) := by
  rw [offset_eq_blocks M N P c (M.dim + 1) hk (fun d _ h2 => hn d (by omega))]
  have hst : simpleTargets M P c = (List.range' c (M.dim + 1 - c)).flatMap (stBlock M P c) := rfl
  rw [hst, List.length_flatMap]

theorem mem_simpleTargets_lt (N : Refine.Mesh) (H : Part) (c x : Nat)
    (hb : ∀ s, ∀ t ∈ H.target s, t < N.nums.getD s 0) (hx : x ∈ simpleTargets N H c) :
    x < offset N.kind N.nums c (N.dim + 1) := by
  obtain ⟨s, hcs, hsd, t, ht, j, hj, rfl⟩ := (mem_simpleTargets N H c x).1 hx
  have h1 := offset_succ N.kind N.nums c s hcs
  have h2 := offset_mono N.kind N.nums c (show c ≤ s + 1 by omega) (show s + 1 ≤ N.dim + 1 by omega)
  have h3 : (t + 1) * refCount N.kind s c ≤ N.nums.getD s 0 * refCount N.kind s c :=
    Nat.mul_le_mul_right _ (hb s t ht)
  rw [Nat.succ_mul, Nat.mul_comm (N.nums.getD s 0)] at h3
  omega

/-- one joint refinement -/
def Side.step (q : Side) : Side :=
  { base := refine q.base, part := simplePart q.base q.part, mesh := refine q.mesh, halo := simplePart q.mesh q.halo }

theorem Side.steps_zero (q : Side) : Side.steps 0 q = q := rfl

theorem Side.steps_succ (k : Nat) (q : Side) : Side.steps (k + 1) q = Side.steps k q.step := rfl

theorem Side.step_ok (q : Side) (h : q.Ok) : q.step.Ok := by
  obtain ⟨hk, hd, hn, hr⟩ := h
  refine ⟨?_, ?_, ?_, ?_⟩
  · simp [Side.step, refine_kind, hk]
  · simp [Side.step, refine_dim, hd]
  · intro d
    simp only [Side.step]
    by_cases hdd' : d ≤ q.base.dim
    · rw [refine_nums_getD q.mesh d (by omega), simplePart_target, if_pos hdd',
        simpleTargets_length_offset q.base q.mesh q.part d hk (fun d _ => hn d) hdd', hd]
    · rw [simplePart_target, if_neg hdd']
      simp only [refine, fineNums, List.getD_eq_getElem?_getD, List.length_nil]
      rw [List.getElem?_eq_none (by simp; omega)]
      rfl
  · intro d i hi
    simp only [Side.step] at hi ⊢
    rw [simplePart_target] at hi ⊢
    by_cases hdd : d ≤ q.base.dim
    · rw [if_pos (by omega)] at hi
      rw [if_pos hdd, simpleTargets_length_offset q.base q.mesh q.part d hk (fun d _ => hn d) hdd, ← hd]
      refine mem_simpleTargets_lt q.mesh q.halo d i (fun s t ht => ?_) hi
      rw [hn s]; exact hr s t ht
    · rw [if_neg (by omega)] at hi
      simp at hi

/-- the halo in base indices after one joint refinement is the simple refinement of the coarse one -/
theorem Side.step_haloBase (q : Side) (h : q.Ok) :
    q.step.haloBase = simplePart q.base q.haloBase := by
  obtain ⟨hk, hd, hn, hr⟩ := h
  simp only [Side.haloBase, Side.step, refine_dim, composePart, simplePart, Part.mk.injEq, and_true]
  apply List.map_congr_left
  intro c hc
  rw [List.mem_range] at hc
  have hc' : c ≤ q.base.dim := by omega
  have h1 := compose_simple q.base q.mesh q.part q.halo c hk hd (fun d _ => hn d) hr hc'
  have e1 : (simplePart q.mesh q.halo).target c = simpleTargets q.mesh q.halo c := by
    rw [simplePart_target, if_pos (by omega)]
  have e2 : (simplePart q.base q.part).target c = simpleTargets q.base q.part c := by
    rw [simplePart_target, if_pos hc']
  simp only [simplePart] at e1 e2
  rw [e1, e2, h1]
  rfl

/-- **k joint refinements**: the refined halo, mapped through the refined patch part, is the `k`-fold simple
refinement (inside the base mesh hierarchy) of the coarse halo in base indices -/
theorem Side.steps_haloBase : ∀ (k : Nat) (q : Side), q.Ok →
    (Side.steps k q).haloBase = (partSteps k (q.base, q.haloBase)).2 ∧ (Side.steps k q).Ok
  | 0, q, h => ⟨rfl, h⟩
  | k + 1, q, h => by
    have ih := Side.steps_haloBase k q.step (Side.step_ok q h)
    rw [Side.steps_succ]
    refine ⟨?_, ih.2⟩
    rw [ih.1, Side.step_haloBase q h]
    rfl

/-! ### the initial data produced by `extract_patch` -/

theorem mem_zipIdx_filterMap_lt (f : Nat → Bool) : ∀ (T : List Nat) (k i : Nat),
    i ∈ (T.zipIdx k).filterMap (fun (bi : Nat × Nat) => if f bi.1 then some bi.2 else none) → i < k + T.length
  | [], k, i, h => by simp at h
  | x :: xs, k, i, h => by
    simp only [List.zipIdx_cons, List.filterMap_cons] at h
    have ih := mem_zipIdx_filterMap_lt f xs (k + 1) i
    simp only [List.length_cons]
    by_cases hx : f x
    · simp only [hx, if_true, List.mem_cons] at h
      rcases h with rfl | h
      · omega
      · have := ih h; omega
    · simp only [hx] at h
      have := ih (by simpa using h); omega

theorem initialSide_ok (kind : Kind) (m : Mesh) (verts : List (List Rat)) (p : Parti) (r s : Nat) :
    (initialSide kind m verts p r s).Ok := by
  refine ⟨rfl, rfl, ?_, ?_⟩
  · intro d
    simp only [initialSide, patchMesh, patchPart]
    rw [target_mk]
    simp only [List.getD_eq_getElem?_getD, List.getElem?_map]
    by_cases hd' : d ≤ m.dim
    · rw [if_pos hd', List.getElem?_range (by omega)]
      simp
    · rw [if_neg hd', List.getElem?_eq_none (by simp; omega)]
      simp
  · intro d i hi
    simp only [initialSide, haloPart, patchPart] at hi ⊢
    rw [target_mk] at hi ⊢
    by_cases hd : d ≤ m.dim
    · rw [if_pos hd] at hi
      rw [if_pos hd]
      have := mem_zipIdx_filterMap_lt (fun b => hasRank m p d b s) (m.target (p.row r) d) 0 i hi
      omega
    · rw [if_neg hd] at hi
      simp at hi

theorem initialSide_haloBase (kind : Kind) (m : Mesh) (verts : List (List Rat)) (p : Parti) (r s : Nat) :
    (initialSide kind m verts p r s).haloBase =
      { targets := (List.range (m.dim + 1)).map (haloBase m p r s), topo := none } := by
  simp only [Side.haloBase, initialSide, asRefine, composePart, Part.mk.injEq, and_true]
  apply List.map_congr_left
  intro d hd
  rw [List.mem_range] at hd
  simp only [haloPart, patchPart]
  rw [target_mk, target_mk, if_pos (by omega), if_pos (by omega)]
  rfl

end FeatModel.Parti
