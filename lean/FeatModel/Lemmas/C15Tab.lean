import FeatModel.Model.FEDual
import FeatModel.Lemmas.C15Poly
import FeatModel.Lemmas.C15Mv
import FeatModel.Lemmas.C15TabS2
import FeatModel.Lemmas.C15TabS3
import FeatModel.Lemmas.C15TabH1
import FeatModel.Lemmas.C15TabH2a
import FeatModel.Lemmas.C15TabH2b
import FeatModel.Lemmas.C15TabH3T
/-! From the kernel-checked Boolean table checks to statements about all evaluation points. -/
namespace FeatModel.FE
open FeatModel.Poly

theorem checked_ok {key : Key} (h : key ∈ checkedKeys) : okKey key = true := by
  have hall : checkedKeys.all okKey = true := by
    simp only [checkedKeys, List.all_append, tabs_keysS2, tabs_keysS3, tabs_keysH1, tabs_keysH2a, tabs_keysH2b,
      tabs_keysH3, Bool.and_self]
  exact List.all_eq_true.mp hall key h

theorem okKey_tab {key : Key} {t : BasisTab} (h : okKey key = true) (ht : tabOf key.1 key.2.1 key.2.2 = some t) :
    t.shapeOk = true ∧ t.samplesOk = true ∧ t.gradOk = true ∧ t.hessOk = true := by
  simp only [okKey, ht, Bool.and_eq_true] at h
  exact ⟨h.1.1.1, h.1.1.2, h.1.2, h.2⟩

theorem gradOk_sound {t : BasisTab} (h : t.gradOk = true) (hg : t.hasGrad = true) {i k : Nat}
    (hi : i < t.nloc) (hk : k < t.nvars) (x : Nat → Rat) :
    eval x (t.grad i k) = eval x (FeatModel.Poly.pderiv k (t.val i)) := by
  simp only [BasisTab.gradOk, hg, Bool.not_true, Bool.false_or, List.all_eq_true, List.mem_range] at h
  exact equiv_sound (h i hi k hk) x

theorem hessOk_sound {t : BasisTab} (h : t.hessOk = true) (hh : t.hasHess = true) {i a b : Nat}
    (hi : i < t.nloc) (ha : a < t.nvars) (hb : b < t.nvars) (x : Nat → Rat) :
    eval x (t.hes i a b) = eval x (FeatModel.Poly.pderiv b (t.grad i a)) := by
  simp only [BasisTab.hessOk, hh, Bool.not_true, Bool.false_or, List.all_eq_true, List.mem_range] at h
  exact equiv_sound (h i hi a ha b hb) x

/-- the denotation of the gradient polynomial is the formal derivative of the denotation of the value polynomial,
    evaluated anywhere -/
theorem grad_eval_mv {t : BasisTab} (h : t.gradOk = true) (hg : t.hasGrad = true) {i k : Nat}
    (hi : i < t.nloc) (hk : k < t.nvars) (x : Nat → Rat) :
    eval x (t.grad i k) = MvPolynomial.eval x (MvPolynomial.pderiv k (toMv (t.val i))) := by
  rw [gradOk_sound h hg hi hk x, ← eval_toMv, toMv_pderiv]

end FeatModel.FE
