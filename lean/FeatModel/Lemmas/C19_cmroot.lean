import FeatModel.Model.Adjacency
import FeatModel.Model.AdjKernels
import FeatModel.Lemmas.C19_cm
/-! C19 lemmas, group `cmroot` (statements fixed by Props/C19.statements) -/
open FeatModel.Adj

namespace C19L.cmroot
open C19L.cm

/-! ### findRoot -/

def minC (g : Graph) (acc : Option Nat × Nat) (j : Nat) : Bool :=
  decide (g.degree j < acc.2) || acc.1.isNone

def maxC (g : Graph) (acc : Option Nat × Nat) (j : Nat) : Bool :=
  decide (g.degree j > acc.2) || acc.1.isNone

def MinInv (g : Graph) (mask : Array Bool) (k : Nat) (acc : Option Nat × Nat) : Prop :=
  match acc.1 with
  | none => ∀ j, j < k → CM.isMasked mask j = true
  | some r => r < k ∧ CM.isMasked mask r = false ∧ acc.2 = g.degree r ∧
      ∀ j, j < k → CM.isMasked mask j = false →
        (g.degree r < g.degree j ∨ (g.degree r = g.degree j ∧ r ≤ j))

def MaxInv (g : Graph) (mask : Array Bool) (k : Nat) (acc : Option Nat × Nat) : Prop :=
  match acc.1 with
  | none => ∀ j, j < k → CM.isMasked mask j = true
  | some r => r < k ∧ CM.isMasked mask r = false ∧ acc.2 = g.degree r ∧
      ∀ j, j < k → CM.isMasked mask j = false →
        (g.degree j < g.degree r ∨ (g.degree j = g.degree r ∧ r ≤ j))

theorem minInv_step (g : Graph) (mask : Array Bool) (k : Nat) (acc : Option Nat × Nat)
    (h : MinInv g mask k acc) : MinInv g mask (k + 1) (rootStep g mask (minC g) acc k) := by
  obtain ⟨o, d⟩ := acc
  unfold rootStep minC
  cases hm : CM.isMasked mask k with
  | true =>
    simp only [Bool.not_true, Bool.and_false, Bool.false_eq_true, if_false]
    cases o with
    | none =>
      simp only [MinInv] at h ⊢
      intro j hj
      by_cases e : j = k
      · rw [e]; exact hm
      · exact h j (by omega)
    | some r =>
      simp only [MinInv] at h ⊢
      obtain ⟨h1, h2, h3, h4⟩ := h
      refine ⟨by omega, h2, h3, ?_⟩
      intro j hj hmj
      by_cases e : j = k
      · rw [e, hm] at hmj; exact Bool.noConfusion hmj
      · exact h4 j (by omega) hmj
  | false =>
    cases o with
    | none =>
      simp only [Option.isNone_none, Bool.or_true, Bool.not_false, Bool.and_self, if_true, MinInv]
      refine ⟨by omega, hm, trivial, ?_⟩
      intro j hj hmj
      by_cases e : j = k
      · subst e; exact Or.inr ⟨rfl, Nat.le_refl _⟩
      · have := h j (by omega)
        rw [hmj] at this; exact Bool.noConfusion this
    | some r =>
      simp only [MinInv] at h
      obtain ⟨h1, h2, h3, h4⟩ := h
      subst h3
      by_cases hd : g.degree k < g.degree r
      · simp only [hd, decide_true, Option.isNone_some, Bool.or_false, Bool.not_false, Bool.and_self,
          if_true, MinInv]
        refine ⟨by omega, hm, trivial, ?_⟩
        intro j hj hmj
        by_cases e : j = k
        · subst e; exact Or.inr ⟨rfl, Nat.le_refl _⟩
        · have := h4 j (by omega) hmj
          omega
      · simp only [hd, decide_false, Option.isNone_some, Bool.or_false, Bool.false_and,
          Bool.false_eq_true, if_false, MinInv]
        refine ⟨by omega, h2, trivial, ?_⟩
        intro j hj hmj
        by_cases e : j = k
        · subst e; omega
        · exact h4 j (by omega) hmj

theorem minInv_fold (g : Graph) (mask : Array Bool) (d0 : Nat) : ∀ k,
    MinInv g mask k ((List.range k).foldl (rootStep g mask (minC g)) (none, d0)) := by
  intro k
  induction k with
  | zero => simp [MinInv]
  | succ k ih =>
    rw [List.range_succ, List.foldl_append]
    exact minInv_step g mask k _ ih

theorem maxInv_step (g : Graph) (mask : Array Bool) (k : Nat) (acc : Option Nat × Nat)
    (h : MaxInv g mask k acc) : MaxInv g mask (k + 1) (rootStep g mask (maxC g) acc k) := by
  obtain ⟨o, d⟩ := acc
  unfold rootStep maxC
  cases hm : CM.isMasked mask k with
  | true =>
    simp only [Bool.not_true, Bool.and_false, Bool.false_eq_true, if_false]
    cases o with
    | none =>
      simp only [MaxInv] at h ⊢
      intro j hj
      by_cases e : j = k
      · rw [e]; exact hm
      · exact h j (by omega)
    | some r =>
      simp only [MaxInv] at h ⊢
      obtain ⟨h1, h2, h3, h4⟩ := h
      refine ⟨by omega, h2, h3, ?_⟩
      intro j hj hmj
      by_cases e : j = k
      · rw [e, hm] at hmj; exact Bool.noConfusion hmj
      · exact h4 j (by omega) hmj
  | false =>
    cases o with
    | none =>
      simp only [Option.isNone_none, Bool.or_true, Bool.not_false, Bool.and_self, if_true, MaxInv]
      refine ⟨by omega, hm, trivial, ?_⟩
      intro j hj hmj
      by_cases e : j = k
      · subst e; exact Or.inr ⟨rfl, Nat.le_refl _⟩
      · have := h j (by omega)
        rw [hmj] at this; exact Bool.noConfusion this
    | some r =>
      simp only [MaxInv] at h
      obtain ⟨h1, h2, h3, h4⟩ := h
      subst h3
      by_cases hd : g.degree k > g.degree r
      · simp only [hd, decide_true, Option.isNone_some, Bool.or_false, Bool.not_false, Bool.and_self,
          if_true, MaxInv]
        refine ⟨by omega, hm, trivial, ?_⟩
        intro j hj hmj
        by_cases e : j = k
        · subst e; exact Or.inr ⟨rfl, Nat.le_refl _⟩
        · have := h4 j (by omega) hmj
          omega
      · simp only [hd, decide_false, Option.isNone_some, Bool.or_false, Bool.false_and,
          Bool.false_eq_true, if_false, MaxInv]
        refine ⟨by omega, h2, trivial, ?_⟩
        intro j hj hmj
        by_cases e : j = k
        · subst e; omega
        · exact h4 j (by omega) hmj

theorem maxInv_fold (g : Graph) (mask : Array Bool) (d0 : Nat) : ∀ k,
    MaxInv g mask k ((List.range k).foldl (rootStep g mask (maxC g)) (none, d0)) := by
  intro k
  induction k with
  | zero => simp [MaxInv]
  | succ k ih =>
    rw [List.range_succ, List.foldl_append]
    exact maxInv_step g mask k _ ih


theorem findRoot_spec (g : Graph) (rt : CM.RootType) (mask : Array Bool) (seen : List Nat)
    (hm : ∀ j, j < g.nDom → (CM.isMasked mask j = true ↔ j ∈ seen)) :
    (∀ root, CM.findRoot g rt mask = some root → CM.IsDocumentedRoot g rt seen root) ∧
    (CM.findRoot g rt mask = none → ∀ j, j < g.nDom → j ∈ seen) := by
  have hns : ∀ j, j < g.nDom → CM.isMasked mask j = false → j ∉ seen := by
    intro j hj h1 h2
    have := (hm j hj).mpr h2
    rw [h1] at this; exact Bool.noConfusion this
  have hns' : ∀ j, j < g.nDom → j ∉ seen → CM.isMasked mask j = false := by
    intro j hj h1
    cases h2 : CM.isMasked mask j with
    | false => rfl
    | true => exact absurd ((hm j hj).mp h2) h1
  cases rt with
  | standard =>
    simp only [CM.findRoot]
    constructor
    · intro root hf
      have h1 := List.find?_some hf
      have h2 := List.mem_range.mp (List.mem_of_find?_eq_some hf)
      simp only [Bool.not_eq_true'] at h1
      refine ⟨h2, hns root h2 h1, ?_⟩
      intro j hj
      rw [List.find?_range_eq_some] at hf
      have := hf.2.2 j hj
      simp only [Bool.not_not] at this
      exact (hm j (by omega)).mp this
    · intro hf j hj
      rw [List.find?_eq_none] at hf
      have := hf j (List.mem_range.mpr hj)
      simp only [Bool.not_eq_true', Bool.not_eq_false] at this
      exact (hm j hj).mp this
  | minDeg =>
    have hfold : CM.findRoot g .minDeg mask =
        ((List.range g.nDom).foldl (rootStep g mask (minC g)) (none, g.nDom + 1)).1 := rfl
    rw [hfold]
    have hinv := minInv_fold g mask (g.nDom + 1) g.nDom
    generalize (List.range g.nDom).foldl (rootStep g mask (minC g)) (none, g.nDom + 1) = acc at hinv
    obtain ⟨o, d⟩ := acc
    constructor
    · intro root hf
      simp only at hf
      subst hf
      simp only [MinInv] at hinv
      obtain ⟨h1, h2, _, h4⟩ := hinv
      exact ⟨h1, hns root h1 h2, fun j hj hjs => h4 j hj (hns' j hj hjs)⟩
    · intro hf j hj
      simp only at hf
      subst hf
      simp only [MinInv] at hinv
      exact (hm j hj).mp (hinv j hj)
  | maxDeg =>
    have hfold : CM.findRoot g .maxDeg mask =
        ((List.range g.nDom).foldl (rootStep g mask (maxC g)) (none, 0)).1 := rfl
    rw [hfold]
    have hinv := maxInv_fold g mask 0 g.nDom
    generalize (List.range g.nDom).foldl (rootStep g mask (maxC g)) (none, 0) = acc at hinv
    obtain ⟨o, d⟩ := acc
    constructor
    · intro root hf
      simp only at hf
      subst hf
      simp only [MaxInv] at hinv
      obtain ⟨h1, h2, _, h4⟩ := hinv
      exact ⟨h1, hns root h1 h2, fun j hj hjs => h4 j hj (hns' j hj hjs)⟩
    · intro hf j hj
      simp only at hf
      subst hf
      simp only [MaxInv] at hinv
      exact (hm j hj).mp (hinv j hj)

/-! ### sortLevel -/

/-- `insertLevel` seen from the reversed list -/
def ins (better : Nat → Nat → Bool) (deg : Nat → Nat) (r : List Nat) (y : Nat) : List Nat :=
  (r.dropWhile fun z => better (deg y) (deg z)).reverse ++ [y] ++
    (r.takeWhile fun z => better (deg y) (deg z)).reverse

theorem insertLevel_eq_ins (better : Nat → Nat → Bool) (deg : Nat → Nat) (sorted : List Nat) (y : Nat) :
    CM.insertLevel better deg sorted y = ins better deg sorted.reverse y := rfl

theorem ins_cons_true (better : Nat → Nat → Bool) (deg : Nat → Nat) (z : Nat) (t : List Nat) (y : Nat)
    (h : better (deg y) (deg z) = true) : ins better deg (z :: t) y = ins better deg t y ++ [z] := by
  simp [ins, h]

theorem ins_cons_false (better : Nat → Nat → Bool) (deg : Nat → Nat) (z : Nat) (t : List Nat) (y : Nat)
    (h : better (deg y) (deg z) = false) : ins better deg (z :: t) y = (z :: t).reverse ++ [y] := by
  simp [ins, h]

theorem mem_ins (better : Nat → Nat → Bool) (deg : Nat → Nat) (y a : Nat) :
    ∀ r : List Nat, a ∈ ins better deg r y → a ∈ r ∨ a = y := by
  intro r
  induction r with
  | nil => intro h; simpa [ins] using h
  | cons z t ih =>
    intro h
    cases hb : better (deg y) (deg z) with
    | true =>
      rw [ins_cons_true better deg z t y hb] at h
      rcases List.mem_append.mp h with h | h
      · rcases ih h with h | h
        · exact Or.inl (List.mem_cons_of_mem _ h)
        · exact Or.inr h
      · simp only [List.mem_singleton] at h
        exact Or.inl (h ▸ List.mem_cons_self)
    | false =>
      rw [ins_cons_false better deg z t y hb] at h
      rcases List.mem_append.mp h with h | h
      · exact Or.inl (List.mem_reverse.mp h)
      · exact Or.inr (by simpa using h)

theorem ins_sorted (better : Nat → Nat → Bool) (deg : Nat → Nat)
    (hasym : ∀ a b, better a b = true → better b a = false)
    (htrans : ∀ a b c, better a b = false → better b c = false → better a c = false) (y : Nat) :
    ∀ r : List Nat, r.Pairwise (fun b a => better (deg b) (deg a) = false) →
      (ins better deg r y).Pairwise (fun a b => better (deg b) (deg a) = false) := by
  intro r
  induction r with
  | nil => intro _; simp [ins]
  | cons z t ih =>
    intro hr
    have hr' := List.pairwise_cons.mp hr
    cases hb : better (deg y) (deg z) with
    | true =>
      rw [ins_cons_true better deg z t y hb, List.pairwise_append]
      refine ⟨ih hr'.2, by simp, ?_⟩
      intro a ha b hb'
      simp only [List.mem_singleton] at hb'
      subst hb'
      rcases mem_ins better deg y a t ha with h | h
      · exact hr'.1 a h
      · subst h; exact hasym _ _ hb
    | false =>
      rw [ins_cons_false better deg z t y hb, List.pairwise_append]
      refine ⟨List.pairwise_reverse.mpr hr, by simp, ?_⟩
      intro a ha b hb'
      simp only [List.mem_singleton] at hb'
      subst hb'
      rcases List.mem_cons.mp (List.mem_reverse.mp ha) with h | h
      · subst h; exact hb
      · exact htrans _ _ _ hb (hr'.1 a h)

theorem ins_filter (better : Nat → Nat → Bool) (deg : Nat → Nat)
    (hirr : ∀ a, better a a = false) (y d : Nat) :
    ∀ r : List Nat, (ins better deg r y).filter (fun k => deg k == d) =
      r.reverse.filter (fun k => deg k == d) ++ [y].filter (fun k => deg k == d) := by
  intro r
  induction r with
  | nil => simp [ins]
  | cons z t ih =>
    cases hb : better (deg y) (deg z) with
    | true =>
      rw [ins_cons_true better deg z t y hb, List.filter_append, ih, List.reverse_cons,
        List.filter_append, List.append_assoc, List.append_assoc]
      congr 1
      have hne : deg y ≠ deg z := by
        intro e; rw [e, hirr] at hb; exact Bool.noConfusion hb
      by_cases hy : deg y = d
      · have hz : ¬ deg z = d := fun e => hne (hy.trans e.symm)
        simp [hy, hz]
      · simp [List.filter_cons, hy]
    | false =>
      rw [ins_cons_false better deg z t y hb, List.filter_append]

/-- the fold: sortedness and per-degree order are maintained -/
theorem foldl_ins_spec (better : Nat → Nat → Bool) (deg : Nat → Nat)
    (hasym : ∀ a b, better a b = true → better b a = false)
    (htrans : ∀ a b c, better a b = false → better b c = false → better a c = false) :
    ∀ (lvl acc : List Nat), acc.Pairwise (fun a b => better (deg b) (deg a) = false) →
      (lvl.foldl (CM.insertLevel better deg) acc).Pairwise (fun a b => better (deg b) (deg a) = false) ∧
      ∀ d, (lvl.foldl (CM.insertLevel better deg) acc).filter (fun k => deg k == d) =
        acc.filter (fun k => deg k == d) ++ lvl.filter (fun k => deg k == d) := by
  have hirr : ∀ a, better a a = false := by
    intro a
    cases h : better a a with
    | false => rfl
    | true => have := hasym a a h; rw [h] at this; exact this
  intro lvl
  induction lvl with
  | nil => intro acc h; exact ⟨h, by simp⟩
  | cons y t ih =>
    intro acc h
    simp only [List.foldl_cons]
    have hs : (CM.insertLevel better deg acc y).Pairwise (fun a b => better (deg b) (deg a) = false) := by
      rw [insertLevel_eq_ins]
      exact ins_sorted better deg hasym htrans y _ (List.pairwise_reverse.mpr h)
    obtain ⟨h1, h2⟩ := ih _ hs
    refine ⟨h1, ?_⟩
    intro d
    rw [h2 d, insertLevel_eq_ins, ins_filter better deg hirr y d, List.reverse_reverse,
      List.append_assoc, ← List.filter_append]
    rfl

theorem sortLevel_stable (g : Graph) (st : CM.SortType) (lvl : List Nat) :
    (CM.sortLevel g st lvl).Perm lvl ∧
    (CM.sortLevel g st lvl).Pairwise (fun a b => match st with
      | .standard => True | .asc => g.degree a ≤ g.degree b | .desc => g.degree b ≤ g.degree a) ∧
    (∀ d, (CM.sortLevel g st lvl).filter (fun k => g.degree k == d) = lvl.filter (fun k => g.degree k == d)) ∧
    (st = .standard → CM.sortLevel g st lvl = lvl) := by
  refine ⟨sortLevel_perm g st lvl, ?_, ?_, ?_⟩
  · cases st with
    | standard =>
      simp only
      induction lvl with
      | nil => exact List.Pairwise.nil
      | cons a t ih => exact List.pairwise_cons.mpr ⟨fun _ _ => trivial, ih⟩
    | asc =>
      have := (foldl_ins_spec (fun x d => decide (x < d)) g.degree
        (by intro a b h; simp only [decide_eq_true_eq, decide_eq_false_iff_not] at h ⊢; omega)
        (by intro a b c h1 h2; simp only [decide_eq_false_iff_not] at h1 h2 ⊢; omega)
        lvl [] List.Pairwise.nil).1
      simp only [decide_eq_false_iff_not, Nat.not_lt] at this
      exact this
    | desc =>
      have := (foldl_ins_spec (fun x d => decide (x > d)) g.degree
        (by intro a b h; simp only [decide_eq_true_eq, decide_eq_false_iff_not] at h ⊢; omega)
        (by intro a b c h1 h2; simp only [decide_eq_false_iff_not] at h1 h2 ⊢; omega)
        lvl [] List.Pairwise.nil).1
      simp only [decide_eq_false_iff_not, Nat.not_lt, gt_iff_lt] at this
      exact this
  · intro d
    cases st with
    | standard => rfl
    | asc =>
      have := (foldl_ins_spec (fun x d => decide (x < d)) g.degree
        (by intro a b h; simp only [decide_eq_true_eq, decide_eq_false_iff_not] at h ⊢; omega)
        (by intro a b c h1 h2; simp only [decide_eq_false_iff_not] at h1 h2 ⊢; omega)
        lvl [] List.Pairwise.nil).2 d
      simpa [CM.sortLevel] using this
    | desc =>
      have := (foldl_ins_spec (fun x d => decide (x > d)) g.degree
        (by intro a b h; simp only [decide_eq_true_eq, decide_eq_false_iff_not] at h ⊢; omega)
        (by intro a b c h1 h2; simp only [decide_eq_false_iff_not] at h1 h2 ⊢; omega)
        lvl [] List.Pairwise.nil).2 d
      simpa [CM.sortLevel] using this
  · intro h; subst h; rfl

theorem cm_empty_aborts (g : Graph) (h : g.nDom = 0) (rev : Bool) (rt : CM.RootType) (st : CM.SortType) :
    CM.compute g rev rt st = none := by
  unfold CM.compute
  simp [h]

end C19L.cmroot
