import FeatModel.Lemmas.C14Refine
import FeatModel.Gen.CubatureMeta
/-! C14: the subdivision identity of the refinery child maps, monomial by monomial (kernel evaluation) -/
namespace FeatModel.Cub

set_option maxRecDepth 100000 in
theorem subdivS3a : ((monos 3 8).take 60).all (subdivOK true 3 Gen.refMapsS3 39) = true := by decide +kernel

end FeatModel.Cub
