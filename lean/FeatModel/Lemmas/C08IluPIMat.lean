import FeatModel.Lemmas.C08IluPI
import Mathlib.LinearAlgebra.Matrix.NonsingularInverse
/-! C08 (partial-inverse port): non-vacuity of the hypotheses of `ilu_factor_pi` in the intended algebra — the `bs × bs`
blocks over a field with `x / y := x * y⁻¹`, `y⁻¹` Mathlib's `nonsing_inv` (the zero block for a singular `y`, like an
exact `Tiny::set_inverse` returning garbage): a ring that is NOT a division ring for `bs ≥ 2`, in which the law `InvLaw`
holds, so that `ilu_factor_pi` applies with the checkable pivot hypothesis alone. -/
open Finset
namespace FeatModel.Solver.PI
open FeatModel.LA FeatModel.Solver

/-- `bs × bs` blocks over `K` -/
def MatBlock (bs : Nat) (K : Type) : Type := Matrix (Fin bs) (Fin bs) K

variable {bs : Nat} {K : Type} [Field K]

instance : Ring (MatBlock bs K) := inferInstanceAs (Ring (Matrix (Fin bs) (Fin bs) K))

/-- `x * y⁻¹` with the total `nonsing_inv` -/
noncomputable def MatBlock.div (x y : Matrix (Fin bs) (Fin bs) K) : Matrix (Fin bs) (Fin bs) K := x * y⁻¹

noncomputable instance : Div (MatBlock bs K) := ⟨MatBlock.div⟩

theorem MatBlock.one_div (x : Matrix (Fin bs) (Fin bs) K) : MatBlock.div 1 x = x⁻¹ := one_mul _

/-- the law of `ilu_factor_pi` holds for matrix blocks with the total `nonsing_inv` -/
theorem invLaw_matBlock : InvLaw (MatBlock bs K) := by
  intro x h
  let x' : Matrix (Fin bs) (Fin bs) K := x
  change (MatBlock.div 1 x' * MatBlock.div 1 (MatBlock.div 1 x') = (1 : Matrix (Fin bs) (Fin bs) K) ∧
    MatBlock.div 1 (MatBlock.div 1 x') * MatBlock.div 1 x' = (1 : Matrix (Fin bs) (Fin bs) K)) at h
  change (x' * MatBlock.div 1 x' = (1 : Matrix (Fin bs) (Fin bs) K) ∧
    MatBlock.div 1 x' * x' = (1 : Matrix (Fin bs) (Fin bs) K))
  rw [MatBlock.one_div, MatBlock.one_div] at h
  rw [MatBlock.one_div]
  have hu : IsUnit x'⁻¹ := ⟨⟨_, _, h.1, h.2⟩, rfl⟩
  rw [Matrix.isUnit_nonsing_inv_iff, Matrix.isUnit_iff_isUnit_det] at hu
  exact ⟨Matrix.mul_nonsing_inv _ hu, Matrix.nonsing_inv_mul _ hu⟩

/-- `ilu_factor_pi` for matrix blocks: only the pivot hypothesis remains -/
theorem ilu_factor_matBlock (s : IluSym) (hs : s.wf = true) (hso : s.sorted = true) (d0 : IluNum (MatBlock bs K))
    (hl : d0.dataL.size = s.ciL.size) (hu : d0.dataU.size = s.ciU.size) (hdd : d0.dataD.size = s.n)
    (hpiv : ∀ i, i < s.n → let v := (factorizeNumeric s d0).dataD.getD i 0; v * (1 / v) = 1 ∧ (1 / v) * v = 1)
    (i c : Nat) (hi : i < s.n) (hc : c < s.n) (hp : s.inPattern i c) :
    ∑ k ∈ range (min i c), (s.matL (factorizeNumeric s d0)).entry i k * (s.matU (factorizeNumeric s d0)).entry k c
      + (if c < i then (s.matL (factorizeNumeric s d0)).entry i c * (1 / (factorizeNumeric s d0).dataD.getD c 0)
         else if c = i then 1 / (factorizeNumeric s d0).dataD.getD i 0
         else (s.matU (factorizeNumeric s d0)).entry i c)
      = s.dense d0 i c :=
  ilu_factor_pi s hs hso d0 hl hu hdd invLaw_matBlock hpiv i c hi hc hp

end FeatModel.Solver.PI
