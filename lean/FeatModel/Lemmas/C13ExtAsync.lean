/-
C13 extensions: asynchronous reductions (`Gate::dot_async` …) and the unweighted combination of local norms.
-/
import Mathlib.Algebra.Order.BigOperators.Group.List
import Mathlib.Algebra.Order.Field.Basic
import FeatModel.Lemmas.C13ExtSync
open FeatModel.Dist

set_option linter.unusedSectionVars false

namespace FeatModel.C13L

variable {α : Type} [Field α]

/-! ### (Y1) async = sync -/

theorem tripleDot_freqs_eq (p : Patch) (x y : List α) (hx : x.length = p.n) (hy : y.length = p.n) :
    tripleDot (freqs p) x y = ((List.range p.n).map fun i => val (freqs p : List α) i * val x i * val y i).sum := by
  unfold tripleDot
  rw [foldl_add_eq_sum, zero_add, zipWith_eq_map_range _ (freqs p) x p.n (freqs_length p) hx,
    zipWith_eq_map_range _ _ y p.n (by simp) hy]
  congr 1
  apply List.map_congr_left
  intro i hi
  have hi := List.mem_range.1 hi
  rw [val_eq_getElem ((List.range p.n).map _) i (by simpa using hi)]
  simp

/-- the local part of `dot_async` is the local part of `dot`, with or without neighbours -/
theorem gdotAsyncLocal_eq_gdotLocal (p : Patch) (x y : List α) (hx : x.length = p.n) (hy : y.length = p.n) :
    gdotAsyncLocal p x y = gdotLocal p x y := by
  unfold gdotAsyncLocal
  rw [tripleDot_freqs_eq p x y hx hy, gdotLocal_eq p x y hx hy]

theorem gdotAsyncLocal_eq (p : Patch) (hp : p.nbrs.isEmpty = true) (x y : List α) (hx : x.length = p.n)
    (hy : y.length = p.n) : gdotAsyncLocal p x y = dotLocal x y := by
  rw [gdotAsyncLocal_eq_gdotLocal p x y hx hy]
  unfold gdotLocal
  rw [if_pos hp]

theorem gdotAsync_eq_gdot (ps : List Patch) (xs ys : List (List α))
    (hxl : ∀ r, r < ps.length → (xs.getD r []).length = (ps.getD r default).n)
    (hyl : ∀ r, r < ps.length → (ys.getD r []).length = (ps.getD r default).n) :
    gdotAsync none ps xs ys = gdot ps xs ys := by
  unfold gdotAsync gdot allSum
  simp only []
  congr 1
  apply List.map_congr_left
  intro r hr
  have hr := List.mem_range.1 hr
  exact gdotAsyncLocal_eq_gdotLocal _ _ _ (hxl r hr) (hyl r hr)

theorem gdotAsync_sqrt (f : α → α) (ps : List Patch) (xs ys : List (List α)) :
    gdotAsync (some f) ps xs ys = f (gdotAsync none ps xs ys) := rfl

theorem sumAsync_none (l : List α) : sumAsync none l = l.sum := by
  unfold sumAsync; exact allSum_eq l

theorem sumAsync_some (f : α → α) (l : List α) : sumAsync (some f) l = f l.sum := by
  unfold sumAsync; simp only []; rw [allSum_eq]

/-! ### (Y3) the unweighted combination of the local squared norms -/

theorem dotLocal_self (x : List α) : dotLocal x x = ((List.range x.length).map fun i => val x i * val x i).sum := by
  unfold dotLocal
  rw [foldl_add_eq_sum, zero_add, zipWith_eq_map_range _ x x x.length rfl rfl]

theorem map_eq_range_getD {β : Type} (xs : List (List α)) (F : List α → β) :
    xs.map F = (List.range xs.length).map fun r => F (xs.getD r []) := by
  apply List.ext_getElem
  · simp
  · intro i h1 h2
    have hi : i < xs.length := by simpa using h1
    simp [List.getD_eq_getElem?_getD, hi]

theorem unweightedNormSqr_eq (d : Decomp) (h : d.WF) (xs : List (List α)) (X : Nat → α)
    (hn : xs.length = d.np)
    (hxl : ∀ r, r < d.np → (xs.getD r []).length = (d.patch r).n)
    (hX : ∀ r, r < d.np → ∀ i, i < (d.patch r).n → val (xs.getD r []) i = X (d.gdof r i))
    (D : List Nat) (hDn : D.Nodup) (hD : ∀ g, g ∈ D ↔ ∃ r, r < d.np ∧ g ∈ d.lmap r) :
    unweightedNormSqr xs = (D.map fun g => ((d.sharers g).length : α) * (X g * X g)).sum := by
  unfold unweightedNormSqr
  rw [allSum_eq, map_eq_range_getD xs, hn]
  have e1 : ∀ r ∈ List.range d.np, dotLocal (xs.getD r []) (xs.getD r [])
      = (D.map fun g => if (d.lmap r).contains g then X g * X g else 0).sum := by
    intro r hr
    have hr : r < d.np := List.mem_range.1 hr
    rw [dotLocal_self, hxl r hr,
      ← sum_nodup_subset (d.lmap r) D (h.inj r hr) hDn (fun g hg => (hD g).2 ⟨r, hr, hg⟩) (fun g => X g * X g),
      h.size r hr, ← map_getD_range (d.lmap r) 0]
    congr 1
    apply List.map_congr_left
    intro i hi
    have hi : i < (d.patch r).n := by rw [h.size r hr]; exact List.mem_range.1 hi
    rw [hX r hr i hi]
    rfl
  rw [List.map_congr_left e1, sum_map_sum_comm]
  congr 1
  apply List.map_congr_left
  intro g _
  rw [sum_map_ite_const]
  rfl

/-! ### inequalities over a linearly ordered field -/

section Order
variable {β : Type} [Field β] [LinearOrder β] [IsStrictOrderedRing β]

theorem one_le_sharers (d : Decomp) (g r : Nat) (hr : r < d.np) (hg : g ∈ d.lmap r) : 1 ≤ (d.sharers g).length := by
  have hmem : r ∈ d.sharers g := by
    unfold Decomp.sharers
    rw [List.mem_filter]
    exact ⟨List.mem_range.2 hr, by simpa using hg⟩
  exact List.length_pos_of_mem hmem

theorem unweightedNormSqr_ge (d : Decomp) (h : d.WF) (xs : List (List β)) (X : Nat → β)
    (hn : xs.length = d.np)
    (hxl : ∀ r, r < d.np → (xs.getD r []).length = (d.patch r).n)
    (hX : ∀ r, r < d.np → ∀ i, i < (d.patch r).n → val (xs.getD r []) i = X (d.gdof r i)) :
    gnorm2sqr d.patches xs ≤ unweightedNormSqr xs := by
  have e1 : gnorm2sqr d.patches xs = ((d.maps.flatten.dedup).map fun g => X g * X g).sum :=
    gdot_eq d h xs xs X X hxl hxl hX hX _ (List.nodup_dedup _) (mem_flatten_dedup d h)
  rw [e1, unweightedNormSqr_eq d h xs X hn hxl hX _ (List.nodup_dedup _) (mem_flatten_dedup d h)]
  apply List.sum_le_sum
  intro g hg
  obtain ⟨r, hr, hgr⟩ := (mem_flatten_dedup d h g).1 hg
  have h1 : (1 : β) ≤ ((d.sharers g).length : β) := by exact_mod_cast one_le_sharers d g r hr hgr
  calc X g * X g = 1 * (X g * X g) := (one_mul _).symm
    _ ≤ _ := mul_le_mul_of_nonneg_right h1 (mul_self_nonneg _)

theorem unweightedNormSqr_gt (d : Decomp) (h : d.WF) (xs : List (List β)) (X : Nat → β)
    (hn : xs.length = d.np)
    (hxl : ∀ r, r < d.np → (xs.getD r []).length = (d.patch r).n)
    (hX : ∀ r, r < d.np → ∀ i, i < (d.patch r).n → val (xs.getD r []) i = X (d.gdof r i))
    (g : Nat) (hg : ∃ r, r < d.np ∧ g ∈ d.lmap r) (h2 : 2 ≤ (d.sharers g).length) (hXg : X g ≠ 0) :
    gnorm2sqr d.patches xs < unweightedNormSqr xs := by
  have e1 : gnorm2sqr d.patches xs = ((d.maps.flatten.dedup).map fun g => X g * X g).sum :=
    gdot_eq d h xs xs X X hxl hxl hX hX _ (List.nodup_dedup _) (mem_flatten_dedup d h)
  rw [e1, unweightedNormSqr_eq d h xs X hn hxl hX _ (List.nodup_dedup _) (mem_flatten_dedup d h)]
  apply List.sum_lt_sum
  · intro g' hg'
    obtain ⟨r, hr, hgr⟩ := (mem_flatten_dedup d h g').1 hg'
    have h1 : (1 : β) ≤ ((d.sharers g').length : β) := by exact_mod_cast one_le_sharers d g' r hr hgr
    calc X g' * X g' = 1 * (X g' * X g') := (one_mul _).symm
      _ ≤ _ := mul_le_mul_of_nonneg_right h1 (mul_self_nonneg _)
  · refine ⟨g, (mem_flatten_dedup d h g).2 hg, ?_⟩
    have h1 : (1 : β) < ((d.sharers g).length : β) := by exact_mod_cast h2
    calc X g * X g = 1 * (X g * X g) := (one_mul _).symm
      _ < _ := mul_lt_mul_of_pos_right h1 (mul_self_pos.2 hXg)

end Order

end FeatModel.C13L
