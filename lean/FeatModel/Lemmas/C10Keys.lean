import FeatModel.Lemmas.C10Lift2Dd
/-! C10 — groundwork for the still missing pairwise half of `distinctOk` in the 2-D lift: entities with equal
`setKey` have the same vertex set (so showing that two fine entities have different vertex sets suffices to show that
their keys differ). -/
namespace FeatModel.Refine
open FeatModel.Gen.Refine

/-! ### `setKey` identifies vertex sets -/

theorem mem_insertSorted (x a : Nat) (l : List Nat) : a ∈ insertSorted x l ↔ a = x ∨ a ∈ l := by
  induction l with
  | nil => simp [insertSorted]
  | cons y ys ih =>
    unfold insertSorted
    split
    · simp
    · simp only [List.mem_cons, ih]
      constructor
      · rintro (h | h | h)
        · exact Or.inr (Or.inl h)
        · exact Or.inl h
        · exact Or.inr (Or.inr h)
      · rintro (h | h | h)
        · exact Or.inr (Or.inl h)
        · exact Or.inl h
        · exact Or.inr (Or.inr h)

theorem mem_sortNats (a : Nat) (l : List Nat) : a ∈ sortNats l ↔ a ∈ l := by
  induction l with
  | nil => simp [sortNats]
  | cons x xs ih =>
    have : sortNats (x :: xs) = insertSorted x (sortNats xs) := rfl
    rw [this, mem_insertSorted, ih]; simp

/-- the digit encoding: entries `< base` -/
def enc (base : Nat) (l : List Nat) : Nat := l.foldl (fun a v => a * (base + 1) + (v + 1)) 0

def encR (base : Nat) (l : List Nat) : Nat := l.foldr (fun v a => a * (base + 1) + (v + 1)) 0

theorem encR_inj (base : Nat) (l1 l2 : List Nat) (h1 : ∀ v ∈ l1, v < base) (h2 : ∀ v ∈ l2, v < base)
    (h : encR base l1 = encR base l2) : l1 = l2 := by
  induction l1 generalizing l2 with
  | nil =>
    cases l2 with
    | nil => rfl
    | cons v2 l2 => simp [encR] at h
  | cons v1 l1 ih =>
    cases l2 with
    | nil => simp [encR] at h
    | cons v2 l2 =>
      have e1 : encR base (v1 :: l1) = encR base l1 * (base + 1) + (v1 + 1) := rfl
      have e2 : encR base (v2 :: l2) = encR base l2 * (base + 1) + (v2 + 1) := rfl
      rw [e1, e2] at h
      have hv1 : v1 < base := h1 v1 (by simp)
      have hv2 : v2 < base := h2 v2 (by simp)
      have hm : (encR base l1 * (base + 1) + (v1 + 1)) % (base + 1)
          = (encR base l2 * (base + 1) + (v2 + 1)) % (base + 1) := by rw [h]
      rw [Nat.mul_add_mod_self_right, Nat.mul_add_mod_self_right, Nat.mod_eq_of_lt (by omega),
        Nat.mod_eq_of_lt (by omega)] at hm
      have hv : v1 = v2 := by omega
      subst hv
      have he : encR base l1 = encR base l2 :=
        Nat.eq_of_mul_eq_mul_right (by omega) (Nat.add_right_cancel h)
      rw [ih l2 (fun v hv => h1 v (by simp [hv])) (fun v hv => h2 v (by simp [hv])) he]

theorem enc_eq_encR (base : Nat) (l : List Nat) : enc base l = encR base l.reverse := by
  unfold enc encR
  rw [List.foldl_eq_foldr_reverse]

theorem enc_inj (base : Nat) (l1 l2 : List Nat) (h1 : ∀ v ∈ l1, v < base) (h2 : ∀ v ∈ l2, v < base)
    (h : enc base l1 = enc base l2) : l1 = l2 := by
  rw [enc_eq_encR, enc_eq_encR] at h
  have := encR_inj base _ _ (fun v hv => h1 v (List.mem_reverse.1 hv)) (fun v hv => h2 v (List.mem_reverse.1 hv)) h
  exact List.reverse_inj.1 this

theorem setKey_eq_sameSet (base : Nat) (x y : List Nat) (hx : ∀ v ∈ x, v < base) (hy : ∀ v ∈ y, v < base)
    (h : setKey base x = setKey base y) : sameSet x y = true := by
  have hs : sortNats x = sortNats y :=
    enc_inj base _ _ (fun v hv => hx v ((mem_sortNats v x).1 hv)) (fun v hv => hy v ((mem_sortNats v y).1 hv)) h
  rw [sameSet_iff]
  constructor
  · intro a ha; rw [← mem_sortNats, ← hs, mem_sortNats]; exact ha
  · intro a ha; rw [← mem_sortNats, hs, mem_sortNats]; exact ha

end FeatModel.Refine
